(* Refutation witnesses: concrete reachable states, checked by vm_compute, in which the executable
   models violate a stated property.  Each corresponds to a recorded finding about the real code.
     Model/Exec.v (block-allocation executor)
       block_failed_call_blocks_survivors           D23  a failed call leaves one shutdown message for
                                                         ever in the queue: the surviving worker blocks
                                                         in queue.join(), the client in thread.join()
       block_shutdown_reraises_with_live_process    D16  shutdown(wait=True) re-raises a worker's
                                                         exception while another call is being executed
       block_wait_after_nowait_returns_early        D24  shutdown(wait=True) after shutdown(wait=False)
                                                         returns at once, the call has not finished
       block_submit_accepted_after_failed_shutdown  D25  after a shutdown that re-raised, submit is
                                                         accepted although no worker is left
     Model/StepExec.v (per-call executor)
       percall_oversized_request_spins              D14c a request larger than max_cores: the dispatcher
                                                         waits for slots with nothing to wait for
     Model/FileExec.v (file executor)
       file_duplicate_in_flight_never_recorded      D11  an identical call submitted while the first is
                                                         in flight is dropped: its future stays pending
     Model/CacheExec.v (block executor with cache_directory)
       cache_identical_calls_collide                D17  two identical calls both miss, both dump: the
                                                         second dump fails, the future gets an exception
                                                         although no function failed *)
From Coq Require Import List Bool Arith Lia.
From EL Require Import Model.Exec Model.ExecInv Model.StepExec Model.FileExec Model.FileSpec
  Model.CacheExec Model.CacheSpec Proofs.FileSafe Proofs.FileRefute Proofs.CacheSafe.
Import ListNotations.

(* ================================================================== *)
(* Running a schedule on Model/Exec.v                                  *)
(* ================================================================== *)
Fixpoint erun (c : cfg) (l : list tid) (s : state) : option state :=
  match l with
  | [] => Some s
  | t :: r => match step c s t with Some (s', _) => erun c r s' | None => None end
  end.

Fixpoint etrace (c : cfg) (l : list tid) (s : state) : option (state * list label) :=
  match l with
  | [] => Some (s, [])
  | t :: r =>
      match step c s t with
      | Some (s', lb) =>
          match etrace c r s' with
          | Some (sf, tr) => Some (sf, lb :: tr)
          | None => None
          end
      | None => None
      end
  end.

Lemma erun_reach_from : forall c s0 l s s', reach c s0 s -> erun c l s = Some s' -> reach c s0 s'.
Proof.
  intros c s0 l. induction l as [|t r IH]; intros s s' Hr H; simpl in H.
  - inversion H; subst. exact Hr.
  - destruct (step c s t) as [[s1 l1]|] eqn:E; [|discriminate].
    eapply IH; [|exact H]. eapply reach_step; [exact Hr|exact E].
Qed.

Lemma erun_reach : forall c l s s', erun c l s = Some s' -> reach c s s'.
Proof. intros c l s s' H. eapply erun_reach_from; [apply reach_init|exact H]. Qed.

Definition erun_or (c : cfg) (l : list tid) (s : state) : state :=
  match erun c l s with Some s' => s' | None => s end.
Definition elabels (c : cfg) (l : list tid) (s : state) : list label :=
  match etrace c l s with Some (_, tr) => tr | None => [] end.

(* ================================================================== *)
(* Running a schedule on Model/StepExec.v                              *)
(* ================================================================== *)
Inductive xreach (c : xcfg) (x0 : xstate) : xstate -> Prop :=
| xreach_refl : xreach c x0 x0
| xreach_step : forall x t x' l, xreach c x0 x -> xstep c x t = Some (x', l) -> xreach c x0 x'.

Fixpoint xrun (c : xcfg) (l : list tid) (x : xstate) : option xstate :=
  match l with
  | [] => Some x
  | t :: r => match xstep c x t with Some (x', _) => xrun c r x' | None => None end
  end.

Lemma xrun_reach_from : forall c x0 l x x', xreach c x0 x -> xrun c l x = Some x' -> xreach c x0 x'.
Proof.
  intros c x0 l. induction l as [|t r IH]; intros x x' Hr H; simpl in H.
  - inversion H; subst. exact Hr.
  - destruct (xstep c x t) as [[x1 l1]|] eqn:E; [|discriminate].
    eapply IH; [|exact H]. eapply xreach_step; [exact Hr|exact E].
Qed.

Lemma xrun_reach : forall c l x x', xrun c l x = Some x' -> xreach c x x'.
Proof. intros c l x x' H. eapply xrun_reach_from; [apply xreach_refl|exact H]. Qed.

Definition xrun_or (c : xcfg) (l : list tid) (x : xstate) : xstate :=
  match xrun c l x with Some x' => x' | None => x end.

(* ================================================================== *)
(* D23  a failed call blocks the survivors                             *)
(* ================================================================== *)
Definition d23_cfg : cfg := mkC 2 (fun i => Nat.eqb i 1).
Definition d23_prog : list op := [OSubmit 1; OShutdown true false].
Definition d23_init : state := init 1 d23_prog.

(* (a) the failing call is taken by W2, the worker that is not joined first.
   client: begin, start W1, start W2, submit 1, put the two shutdown messages (now at join W1);
   W2: begin, spawn P1, get Task 1, set_running, send; P1: begin, recv, body, send MErr;
   W2: recv MErr, poll, send MShut; P1: recv, ack+exit; W2: recv, communicate, terminate, wait,
   task_done, set_exception (dies);
   W1: begin, spawn P2, get Shut, poll, send MShut; P2: begin, recv, ack+exit;
   W1: recv, communicate, terminate, wait, task_done -- now at queue.join() *)
Definition d23a_sched : list tid :=
  rp 6 TM ++ rp 5 (TW 2) ++ rp 4 (TP 1) ++ rp 3 (TW 2) ++ rp 2 (TP 1) ++ rp 6 (TW 2)
  ++ rp 5 (TW 1) ++ rp 3 (TP 2) ++ rp 5 (TW 1).
Definition d23a_state : state := erun_or d23_cfg d23a_sched d23_init.

(* (b) the failing call is taken by W1: the client's join of W1 re-raises and the client goes on
   to the end of the program (no implicit release: the executor is kept alive by the traceback);
   W2 takes its shutdown message and blocks in queue.join() *)
Definition d23b_sched : list tid :=
  rp 6 TM ++ rp 5 (TW 1) ++ rp 4 (TP 1) ++ rp 3 (TW 1) ++ rp 2 (TP 1) ++ rp 6 (TW 1)
  ++ [TM] ++ rp 5 (TW 2) ++ rp 3 (TP 2) ++ rp 5 (TW 2).
Definition d23b_state : state := erun_or d23_cfg d23b_sched d23_init.

Example block_failed_call_blocks_survivors :
  (erun d23_cfg d23a_sched d23_init = Some d23a_state
   /\ enabled d23_cfg d23a_state = []                                (* nothing can move *)
   /\ main d23a_state = MJoin 0                                      (* the client: in join of W1 *)
   /\ ops d23a_state = [OShutdown true false; ODrop]                 (* ... inside the shutdown *)
   /\ outs d23a_state = [XOk]
   /\ map wp (ws d23a_state) = [WSQJoin; WDead]                      (* W1: in queue.join() *)
   /\ map pp (ps d23a_state) = [PExit; PExit]
   /\ getq d23a_state 0 = mkQ [Shut true] 1                          (* W2's message is never taken *)
   /\ qunf (getq d23a_state 0) <> 0
   /\ main d23a_state <> MEnd
   /\ getf d23a_state 1 = FExc
   /\ reach d23_cfg d23_init d23a_state)
  /\
  (erun d23_cfg d23b_sched d23_init = Some d23b_state
   /\ enabled d23_cfg d23b_state = []
   /\ main d23b_state = MEnd /\ outs d23b_state = [XOk; XRaise]      (* the shutdown raised *)
   /\ map wp (ws d23b_state) = [WDead; WSQJoin]                      (* W2: in queue.join() for ever *)
   /\ existsb (fun w => match wp w with WSQJoin => true | _ => false end) (ws d23b_state) = true
   /\ map pp (ps d23b_state) = [PExit; PExit]
   /\ getq d23b_state 0 = mkQ [Shut true] 1
   /\ qunf (getq d23b_state 0) <> 0
   /\ getf d23b_state 1 = FExc
   /\ reach d23_cfg d23_init d23b_state).
Proof.
  split.
  - repeat (split; [vm_compute; first [reflexivity | discriminate]|]).
    apply erun_reach with (l := d23a_sched). vm_compute. reflexivity.
  - repeat (split; [vm_compute; first [reflexivity | discriminate]|]).
    apply erun_reach with (l := d23b_sched). vm_compute. reflexivity.
Qed.

(* ================================================================== *)
(* D16  shutdown(wait=True) re-raises while a process is alive         *)
(* ================================================================== *)
Definition d16_cfg : cfg := d23_cfg.          (* 2 workers, call 1 fails *)
Definition d16_prog : list op := [OSubmit 1; OSubmit 2; OShutdown true false].
Definition d16_init : state := init 2 d16_prog.

(* client: begin, start W1, start W2, submit 1, submit 2, two shutdown messages (at join W1);
   W1 takes call 1, which fails: W1 shuts P1 down, sets the exception and dies;
   W2: begin, spawn P2, get Task 2, set_running, send; P2: begin, recv -- P2 is about to run
   the function of call 2 *)
Definition d16_pre : list tid :=
  rp 7 TM ++ rp 5 (TW 1) ++ rp 4 (TP 1) ++ rp 3 (TW 1) ++ rp 2 (TP 1) ++ rp 6 (TW 1)
  ++ rp 5 (TW 2) ++ rp 2 (TP 2).
Definition d16_s0 : state := erun_or d16_cfg d16_pre d16_init.
Definition d16_s1 : state := erun_or d16_cfg [TM] d16_s0.          (* the client's join of W1 *)
(* afterwards P2 runs the function: the call is executed after shutdown(wait=True) has returned *)
Definition d16_s2 : state := erun_or d16_cfg [TP 2] d16_s1.

Example block_shutdown_reraises_with_live_process :
  erun d16_cfg d16_pre d16_init = Some d16_s0
  /\ main d16_s0 = MJoin 0 /\ ops d16_s0 = [OShutdown true false; ODrop]
  /\ step d16_cfg d16_s0 TM = Some (d16_s1, LTJoin 1)
  /\ outs d16_s1 = [XOk; XOk; XRaise]                                 (* shutdown raised *)
  /\ last (outs d16_s1) XSkip = XRaise
  /\ main d16_s1 = MEnd /\ ops d16_s1 = []                            (* the client is past the shutdown *)
  /\ map wp (ws d16_s1) = [WDead; WRecv 2]
  /\ map pp (ps d16_s1) = [PExit; PBody 2]                            (* P2 is alive, inside call 2 *)
  /\ existsb palive (ps d16_s1) = true
  /\ futs d16_s1 = [FExc; FRunning]
  /\ step d16_cfg d16_s1 (TP 2) = Some (d16_s2, LBody 2)              (* the function runs afterwards *)
  /\ reach d16_cfg d16_init d16_s1.
Proof.
  repeat (split; [vm_compute; reflexivity|]).
  apply erun_reach with (l := d16_pre ++ [TM]). vm_compute. reflexivity.
Qed.

(* ================================================================== *)
(* D24  shutdown(wait=True) after shutdown(wait=False) returns early   *)
(* ================================================================== *)
Definition d24_cfg : cfg := mkC 1 (fun _ => false).
Definition d24_prog : list op := [OSubmit 1; OShutdown false false; OShutdown true false].
Definition d24_init : state := init 1 d24_prog.

(* client: begin, start W1, submit 1, shutdown(wait=False): one message put, fields cleared;
   the shutdown(wait=True) that follows has no point at all: it returns at once *)
Definition d24_sched0 : list tid := rp 4 TM.
Definition d24_s0 : state := erun_or d24_cfg d24_sched0 d24_init.
(* W1: begin, spawn P1, get Task 1, set_running, send: the call is in flight *)
Definition d24_sched1 : list tid := rp 4 TM ++ rp 5 (TW 1).
Definition d24_s1 : state := erun_or d24_cfg d24_sched1 d24_init.

Example block_wait_after_nowait_returns_early :
  (erun d24_cfg d24_sched0 d24_init = Some d24_s0
   /\ main d24_s0 = MEnd /\ ops d24_s0 = []
   /\ outs d24_s0 = [XOk; XOk; XOk]                                   (* both shutdowns returned *)
   /\ getf d24_s0 1 = FPending /\ fdone (getf d24_s0 1) = false       (* the call has not even started *)
   /\ map wp (ws d24_s0) = [WBegin]
   /\ reach d24_cfg d24_init d24_s0)
  /\
  (erun d24_cfg d24_sched1 d24_init = Some d24_s1
   /\ main d24_s1 = MEnd /\ ops d24_s1 = []
   /\ outs d24_s1 = [XOk; XOk; XOk]
   /\ getf d24_s1 1 = FRunning /\ fdone (getf d24_s1 1) = false       (* ... or is running *)
   /\ map wp (ws d24_s1) = [WRecv 1] /\ map pp (ps d24_s1) = [PBegin]
   /\ reach d24_cfg d24_init d24_s1).
Proof.
  split.
  - repeat (split; [vm_compute; reflexivity|]).
    apply erun_reach with (l := d24_sched0). vm_compute. reflexivity.
  - repeat (split; [vm_compute; reflexivity|]).
    apply erun_reach with (l := d24_sched1). vm_compute. reflexivity.
Qed.

(* ================================================================== *)
(* D25  submit accepted after a shutdown that re-raised                *)
(* ================================================================== *)
Definition d25_cfg : cfg := mkC 1 (fun i => Nat.eqb i 1).
Definition d25_prog : list op := [OSubmit 1; OShutdown true false; OSubmit 2; OResult 2].
Definition d25_init : state := init 2 d25_prog.

(* client: begin, start W1, submit 1, shutdown message (at join W1); W1 takes call 1, which
   fails: W1 shuts P1 down, sets the exception, dies; client: join W1 re-raises (fields stay),
   submit 2 is accepted, result(2) blocks *)
Definition d25_pre : list tid :=
  rp 4 TM ++ rp 5 (TW 1) ++ rp 4 (TP 1) ++ rp 3 (TW 1) ++ rp 2 (TP 1) ++ rp 6 (TW 1).
Definition d25_s0 : state := erun_or d25_cfg d25_pre d25_init.
Definition d25_s1 : state := erun_or d25_cfg [TM] d25_s0.
Definition d25_s2 : state := erun_or d25_cfg [TM] d25_s1.

Example block_submit_accepted_after_failed_shutdown :
  erun d25_cfg d25_pre d25_init = Some d25_s0
  /\ main d25_s0 = MJoin 0 /\ map wp (ws d25_s0) = [WDead]
  /\ step d25_cfg d25_s0 TM = Some (d25_s1, LTJoin 1)
  /\ outs d25_s1 = [XOk; XRaise] /\ closed d25_s1 = false             (* the shutdown raised *)
  /\ step d25_cfg d25_s1 TM = Some (d25_s2, LPut 0 (Task 2))
  /\ outs d25_s2 = [XOk; XRaise; XOk]                                 (* submit 2 accepted *)
  /\ main d25_s2 = MOp /\ ops d25_s2 = [OResult 2; ODrop]             (* the client: in result(2) *)
  /\ hd_error (ops d25_s2) = Some (OResult 2)
  /\ getf d25_s2 2 = FPending
  /\ map wp (ws d25_s2) = [WDead] /\ map pp (ps d25_s2) = [PExit]     (* no worker is left *)
  /\ getq d25_s2 0 = mkQ [Shut true; Task 2] 2
  /\ enabled d25_cfg d25_s2 = []                                      (* nothing can move *)
  /\ reach d25_cfg d25_init d25_s2.
Proof.
  repeat (split; [vm_compute; reflexivity|]).
  apply erun_reach with (l := d25_pre ++ [TM; TM]). vm_compute. reflexivity.
Qed.

(* ================================================================== *)
(* D14c  a request larger than max_cores                               *)
(* ================================================================== *)
Definition d14_cfg : xcfg := mkXC (fun _ => false) (fun _ => 2) (Some 1) None.
Definition d14_prog : list op := [OSubmit 1; OShutdown true false].
Definition d14_init : xstate := xinit 1 d14_prog.

(* client: begin, start D, submit 1; D: begin, get Task 1, put Task 1 and the shutdown message on
   the private queue, then _wait_for_free_slots with an empty active set *)
Definition d14_sched1 : list tid := rp 3 TM ++ rp 4 TD.
Definition d14_x1 : xstate := xrun_or d14_cfg d14_sched1 d14_init.
(* client: shutdown(wait=True): puts the message, joins D *)
Definition d14_x2 : xstate := xrun_or d14_cfg [TM] d14_x1.

Example percall_oversized_request_spins :
  xmax_cores d14_cfg = Some 1 /\ xslots d14_cfg 1 = 2
  /\ xrun d14_cfg d14_sched1 d14_init = Some d14_x1
  /\ disp d14_x1 = DSpin 1 /\ active d14_x1 = []                      (* waiting, nothing to wait for *)
  /\ xstep d14_cfg d14_x1 TD = None
  /\ getf (base d14_x1) 1 = FPending
  /\ ws (base d14_x1) = [] /\ launched d14_x1 = 0                     (* no worker was ever started *)
  /\ xenabled d14_cfg d14_x1 = [TM]
  /\ xreach d14_cfg d14_init d14_x1
  /\ xstep d14_cfg d14_x1 TM = Some (d14_x2, LPut 0 (Shut true))
  /\ xenabled d14_cfg d14_x2 = []                                     (* nothing can move *)
  /\ main (base d14_x2) = MJoin 0                                     (* the client: in join of D *)
  /\ ops (base d14_x2) = [OShutdown true false; ODrop]
  /\ main (base d14_x2) <> MEnd
  /\ disp d14_x2 = DSpin 1 /\ getf (base d14_x2) 1 = FPending
  /\ xreach d14_cfg d14_init d14_x2.
Proof.
  repeat (split; [first [vm_compute; first [reflexivity | discriminate]
                        | apply xrun_reach with (l := d14_sched1); vm_compute; reflexivity]|]).
  apply xrun_reach with (l := d14_sched1 ++ [TM]). vm_compute. reflexivity.
Qed.

(* ================================================================== *)
(* D11  a duplicate of a call in flight is never recorded              *)
(* ================================================================== *)
Definition d11_cfg : fcfg := mkFC (fun _ => []) (fun i => match i with 2 => 1 | _ => i end).
Definition d11_prog : list op := [OSubmit 1; OSubmit 2; OResult 2].
Definition d11_init : fstateX := finit 2 d11_prog [].

(* client: begin, start F, submit 1, submit 2 (now blocked in result(2));
   F: begin, get Task 1, listdir, exists, open, 3 datasets, close, check, spawn P1, task_done,
      get Task 2: its key is in memory_dict, nothing is done with it; task_done *)
Definition d11_pre : list tid := rp 4 TM ++ rp 14 TD.
(* P1 runs to the end; F: empty get, scan: done(1)? exists, open, read, close, set_result(1) *)
Definition d11_mid : list tid := rp 12 (TP 1) ++ rp 7 TD.
(* F: empty get, scan: done(1): the entry is removed *)
Definition d11_end : list tid := rp 2 TD.
Definition d11_s0 : fstateX := run_or d11_cfg d11_pre d11_init.
Definition d11_s1 : fstateX := run_or d11_cfg d11_mid d11_s0.
Definition d11_s2 : fstateX := run_or d11_cfg d11_end d11_s1.

Example file_duplicate_in_flight_never_recorded :
  fcanon d11_cfg 2 = fcanon d11_cfg 1
  /\ ftrace d11_cfg d11_pre d11_init = Some (d11_s0, trace_or d11_cfg d11_pre d11_init)
  /\ nth_error (trace_or d11_cfg d11_pre d11_init) 5 = Some (FL (LGetNw 0 (Some (Task 1))))
  /\ nth_error (trace_or d11_cfg d11_pre d11_init) 16 = Some (FL (LGetNw 0 (Some (Task 2))))   (* both taken *)
  /\ nth_error (trace_or d11_cfg d11_pre d11_init) 17 = Some (FL (LTd 0))    (* nothing done for Task 2 *)
  /\ fpc d11_s0 = GGet /\ mem d11_s0 = [(k1, 1)] /\ procd d11_s0 = [(k1, 1)] /\ map qpc (fps d11_s0) = [QBegin]
  /\ frun d11_cfg d11_mid d11_s0 = Some d11_s1
  /\ map qpc (fps d11_s1) = [QExit]                                          (* process 1 has finished *)
  /\ fut d11_s1 1 = FRes 1
  /\ fpc d11_s1 = GGet                                                       (* F is back at get *)
  /\ mem d11_s1 = [(k1, 1)]
  /\ forallb (fun e => negb (Nat.eqb (snd e) 2)) (mem d11_s1) = true         (* no entry for future 2 *)
  /\ q0 (fbase d11_s1) = [] /\ qunf (getq (fbase d11_s1) 0) = 0
  /\ fut d11_s1 2 = FPending
  /\ main (fbase d11_s1) = MOp /\ ops (fbase d11_s1) = [OResult 2; ODrop]    (* the client: in result(2) *)
  /\ outs (fbase d11_s1) = [XOk; XOk]
  /\ fstep d11_cfg d11_s1 TM = None
  /\ freach d11_cfg d11_init d11_s1
  (* two steps later the system is in a state whose only step leads back to itself *)
  /\ frun d11_cfg d11_end d11_s1 = Some d11_s2
  /\ mem d11_s2 = [] /\ fpc d11_s2 = GGet /\ fut d11_s2 2 = FPending
  /\ map qpc (fps d11_s2) = [QExit]
  /\ fenabled d11_cfg d11_s2 = [TD]
  /\ fstep d11_cfg d11_s2 TD = Some (d11_s2, FL (LGetNw 0 None))
  /\ freach d11_cfg d11_init d11_s2.
Proof.
  repeat (split; [first [vm_compute; reflexivity
                        | apply frun_reach with (l := d11_pre ++ d11_mid); vm_compute; reflexivity]|]).
  apply frun_reach with (l := d11_pre ++ d11_mid ++ d11_end). vm_compute. reflexivity.
Qed.

(* ================================================================== *)
(* D17  identical calls collide in the cache directory                 *)
(* ================================================================== *)
Definition d17_init : cstate := cinit 2 d10_prog [].
Definition crun_or (c : ccfg) (l : list tid) (s : cstate) : cstate :=
  match crun c l s with Some s' => s' | None => s end.

(* client: begin, start W1, start W2, submit 1, submit 2;
   W1: begin, spawn P1, get Task 1, listdir (miss); W2: begin, spawn P2, get Task 2, listdir (miss) *)
Definition d17_a : list tid := rp 5 TM ++ rp 4 (TW 1) ++ rp 4 (TW 2).
(* W1: set_running, send; P1: begin, recv, body, send; W1: recv, dump (open, 4 datasets, close),
   set_result, task_done *)
Definition d17_b : list tid := rp 2 (TW 1) ++ rp 4 (TP 1) ++ rp 9 (TW 1).
(* W2: set_running, send; P2: begin, recv, body, send; W2: recv, open, create_dataset fails *)
Definition d17_c : list tid := rp 2 (TW 2) ++ rp 4 (TP 2) ++ rp 3 (TW 2).
(* W2: close, [except branch:] poll, send MShut; P2: recv, ack+exit;
   W2: recv, communicate, terminate, wait, task_done, set_exception *)
Definition d17_d : list tid := rp 3 (TW 2) ++ rp 2 (TP 2) ++ rp 6 (TW 2).
Definition d17_s1 : cstate := crun_or d10_cfg d17_a d17_init.
Definition d17_s2 : cstate := crun_or d10_cfg d17_b d17_s1.
Definition d17_s3 : cstate := crun_or d10_cfg d17_c d17_s2.
Definition d17_s4 : cstate := crun_or d10_cfg d17_d d17_s3.

Example cache_identical_calls_collide :
  ccanon d10_cfg 2 = ccanon d10_cfg 1
  /\ (forall i, raises (cbase d10_cfg) i = false)                            (* no function fails *)
  /\ crun d10_cfg d17_a d17_init = Some d17_s1
  /\ cfs d17_s1 = []                                                         (* both have missed *)
  /\ map wp (ws (cb d17_s1)) = [WSrnc 1; WSrnc 2] /\ cov d17_s1 = [CNone; CNone]
  /\ crun d10_cfg d17_b d17_s1 = Some d17_s2
  /\ cfs d17_s2 = [(cpath d10_cfg 1, full_entry)]                            (* W1's dump is complete *)
  /\ getf (cb d17_s2) 1 = FRes 1
  /\ crun d10_cfg d17_c d17_s2 = Some d17_s3
  /\ getov d17_s3 1 = CDClose false 2 2                                      (* name already exists *)
  /\ map pp (ps (cb d17_s3)) = [PRecv; PRecv]                                (* P2 has sent MRes 2 *)
  /\ getf (cb d17_s3) 2 = FRunning
  /\ crun d10_cfg d17_d d17_s3 = Some d17_s4
  /\ getf (cb d17_s4) 2 = FExc                                               (* future 2: exception *)
  /\ map wp (ws (cb d17_s4)) = [WGet; WDead]                                 (* W2 has died *)
  /\ map pp (ps (cb d17_s4)) = [PRecv; PExit]
  /\ getf (cb d17_s4) 1 = FRes 1
  /\ cfs d17_s4 = [(cpath d10_cfg 1, full_entry)]
  /\ creach d10_cfg d17_init d17_s4.
Proof.
  split; [reflexivity|]. split; [intros i; reflexivity|].
  repeat (split; [vm_compute; reflexivity|]).
  apply crun_reach with (l := d17_a ++ d17_b ++ d17_c ++ d17_d). vm_compute. reflexivity.
Qed.

Print Assumptions block_failed_call_blocks_survivors.
Print Assumptions block_shutdown_reraises_with_live_process.
Print Assumptions block_wait_after_nowait_returns_early.
Print Assumptions block_submit_accepted_after_failed_shutdown.
Print Assumptions percall_oversized_request_spins.
Print Assumptions file_duplicate_in_flight_never_recorded.
Print Assumptions cache_identical_calls_collide.
