(* C08: soundness / completeness / idempotence of the cache-key normaliser [blank]. *)
From Coq Require Import List Bool Arith Ascii String Lia.
From EL Require Import Model.Blank.
Import ListNotations.
Local Open Scope list_scope.

(* ------------------------------------------------------------------ *)
(* facts about the marker                                              *)

Definition mtail : bytes := list_ascii_of_string "ipykernel_".

Lemma marker_eq : marker = slash :: mtail.
Proof. reflexivity. Qed.

Arguments mtail : simpl never.

Lemma marker_len : List.length marker = 11.
Proof. reflexivity. Qed.

Lemma mtail_noslash : Forall (fun c => c <> slash) mtail.
Proof.
  unfold mtail. simpl.
  repeat (constructor; [ discriminate | ]). constructor.
Qed.

Lemma slash_not_digit : is_digit slash = false.
Proof. reflexivity. Qed.

Lemma digit_not_slash : forall c, is_digit c = true -> c <> slash.
Proof.
  intros c Hc Heq. subst c. rewrite slash_not_digit in Hc. discriminate.
Qed.

Lemma digits_noslash : forall d, forallb is_digit d = true -> Forall (fun c => c <> slash) d.
Proof.
  induction d as [|c d IH]; intros Hd.
  - constructor.
  - simpl in Hd. apply andb_true_iff in Hd. destruct Hd as [Hc Hd].
    constructor.
    + apply digit_not_slash. exact Hc.
    + apply IH. exact Hd.
Qed.

(* ------------------------------------------------------------------ *)
(* prefixb                                                             *)

Lemma prefixb_app : forall p s, prefixb p s = true -> s = p ++ skipn (List.length p) s.
Proof.
  induction p as [|a p IH]; intros s H.
  - reflexivity.
  - destruct s as [|b s].
    + simpl in H. discriminate.
    + simpl in H. apply andb_true_iff in H. destruct H as [Hab Hp].
      apply Ascii.eqb_eq in Hab. subst b.
      simpl. f_equal. apply IH. exact Hp.
Qed.

Lemma prefixb_app_true : forall p r, prefixb p (p ++ r) = true.
Proof.
  induction p as [|a p IH]; intros r.
  - reflexivity.
  - simpl. rewrite Ascii.eqb_refl. simpl. apply IH.
Qed.

Lemma skipn_len_app : forall (p r : bytes), skipn (List.length p) (p ++ r) = r.
Proof.
  induction p as [|a p IH]; intros r.
  - reflexivity.
  - simpl. apply IH.
Qed.

Lemma prefixb_marker_nil : prefixb marker [] = false.
Proof. reflexivity. Qed.

Lemma prefixb_marker_cons :
  forall a t, prefixb marker (a :: t) = Ascii.eqb slash a && prefixb mtail t.
Proof. intros a t. reflexivity. Qed.

Lemma prefixb_marker_noslash : forall a t, a <> slash -> prefixb marker (a :: t) = false.
Proof.
  intros a t Ha. rewrite prefixb_marker_cons.
  destruct (Ascii.eqb slash a) eqn:E.
  - apply Ascii.eqb_eq in E. congruence.
  - reflexivity.
Qed.

(* ------------------------------------------------------------------ *)
(* span_digits                                                         *)

Definition nondigit_head (r : bytes) : Prop :=
  match r with [] => True | c :: _ => is_digit c = false end.

Lemma span_spec : forall s d r, span_digits s = (d, r) ->
  s = d ++ r /\ forallb is_digit d = true /\ nondigit_head r.
Proof.
  induction s as [|a t IH]; intros d r H.
  - simpl in H. inversion H; subst. repeat split.
  - simpl in H. destruct (is_digit a) eqn:Ha.
    + destruct (span_digits t) as [d' r'] eqn:Ht.
      inversion H; subst; clear H.
      destruct (IH d' r eq_refl) as [H1 [H2 H3]].
      repeat split.
      * simpl. f_equal. exact H1.
      * simpl. rewrite Ha. exact H2.
      * exact H3.
    + inversion H; subst; clear H. repeat split. simpl. exact Ha.
Qed.

Lemma span_app : forall d r, forallb is_digit d = true -> nondigit_head r ->
  span_digits (d ++ r) = (d, r).
Proof.
  induction d as [|c d IH]; intros r Hd Hr.
  - simpl. destruct r as [|c r].
    + reflexivity.
    + simpl in Hr. simpl. rewrite Hr. reflexivity.
  - simpl in Hd. apply andb_true_iff in Hd. destruct Hd as [Hc Hd].
    simpl. rewrite Hc. rewrite (IH r Hd Hr). reflexivity.
Qed.

(* ------------------------------------------------------------------ *)
(* one step of the scanner after a marker                              *)

Definition next (rest : bytes) : bytes :=
  let '(d, r) := span_digits rest in
  match d, r with
  | _ :: _, c :: _ => if Ascii.eqb c slash then r else rest
  | _, _ => rest
  end.

Lemma next_cases : forall rest,
  (exists d r, rest = d ++ slash :: r /\ d <> [] /\ forallb is_digit d = true /\
               next rest = slash :: r)
  \/ (next rest = rest /\
      exists d r, span_digits rest = (d, r) /\
                  (d = [] \/ r = [] \/ exists c r', r = c :: r' /\ c <> slash)).
Proof.
  intros rest. unfold next.
  destruct (span_digits rest) as [d r] eqn:Hs.
  destruct (span_spec _ _ _ Hs) as [H1 [H2 H3]].
  destruct d as [|x d].
  - right. split; [reflexivity|]. exists [], r. split; [reflexivity|]. left. reflexivity.
  - destruct r as [|c r].
    + right. split; [reflexivity|]. exists (x :: d), []. split; [reflexivity|].
      right. left. reflexivity.
    + destruct (Ascii.eqb c slash) eqn:E.
      * apply Ascii.eqb_eq in E. subst c.
        left. exists (x :: d), r. repeat split.
        -- exact H1.
        -- discriminate.
        -- exact H2.
      * right. split; [reflexivity|]. exists (x :: d), (c :: r). split; [reflexivity|].
        right. right. exists c, r. split; [reflexivity|].
        apply Ascii.eqb_neq. exact E.
Qed.

Lemma next_len : forall rest, List.length (next rest) <= List.length rest.
Proof.
  intros rest. destruct (next_cases rest) as [[d [r [H1 [_ [_ H4]]]]] | [H _]].
  - rewrite H4. rewrite H1. rewrite app_length. simpl. lia.
  - rewrite H. lia.
Qed.

Lemma next_seg : forall d s, forallb is_digit d = true ->
  next (d ++ slash :: s) = slash :: s.
Proof.
  intros d s Hd. unfold next.
  rewrite (span_app d (slash :: s) Hd slash_not_digit).
  destruct d as [|x d].
  - reflexivity.
  - rewrite Ascii.eqb_refl. reflexivity.
Qed.

(* ------------------------------------------------------------------ *)
(* unfolding and fuel irrelevance                                      *)

Lemma blank_aux_S : forall f a t,
  blank_aux (S f) (a :: t) =
  if prefixb marker (a :: t)
  then marker ++ blank_aux f (next (skipn (List.length marker) (a :: t)))
  else a :: blank_aux f t.
Proof.
  intros f a t. cbn [blank_aux]. unfold next.
  destruct (prefixb marker (a :: t)); [|reflexivity].
  destruct (span_digits (skipn (List.length marker) (a :: t))) as [d r].
  destruct d as [|x d]; [reflexivity|].
  destruct r as [|c r]; [reflexivity|].
  destruct (Ascii.eqb c slash); reflexivity.
Qed.

Lemma blank_aux_fuel : forall f g s,
  List.length s < f -> List.length s < g -> blank_aux f s = blank_aux g s.
Proof.
  induction f as [|f IH]; intros g s Hf Hg.
  - lia.
  - destruct g as [|g]; [lia|].
    destruct s as [|a t]; [reflexivity|].
    rewrite !blank_aux_S.
    destruct (prefixb marker (a :: t)) eqn:Hp.
    + f_equal.
      pose proof (next_len (skipn (List.length marker) (a :: t))) as Hn.
      rewrite skipn_length in Hn. simpl in Hf, Hg.
      change (List.length (a :: t)) with (S (List.length t)) in Hn.
      pose proof marker_len as Hm.
      apply IH; lia.
    + f_equal. simpl in Hf, Hg. apply IH; lia.
Qed.

Lemma blank_nil : blank [] = [].
Proof. reflexivity. Qed.

Lemma blank_cons : forall a t,
  blank (a :: t) =
  if prefixb marker (a :: t)
  then marker ++ blank (next (skipn (List.length marker) (a :: t)))
  else a :: blank t.
Proof.
  intros a t. unfold blank. rewrite blank_aux_S.
  destruct (prefixb marker (a :: t)) eqn:Hp.
  - f_equal.
    pose proof (next_len (skipn (List.length marker) (a :: t))) as Hn.
    rewrite skipn_length in Hn.
    change (List.length (a :: t)) with (S (List.length t)) in *.
    pose proof marker_len as Hm.
    apply blank_aux_fuel; lia.
  - reflexivity.
Qed.

Lemma blank_copy : forall a t, prefixb marker (a :: t) = false -> blank (a :: t) = a :: blank t.
Proof. intros a t H. rewrite blank_cons, H. reflexivity. Qed.

Lemma blank_marker : forall rest, blank (marker ++ rest) = marker ++ blank (next rest).
Proof.
  intros rest.
  pose proof (prefixb_app_true marker rest) as Hp.
  pose proof (skipn_len_app marker rest) as Hs.
  destruct (marker ++ rest) as [|a t] eqn:E.
  - rewrite prefixb_marker_nil in Hp. discriminate.
  - rewrite blank_cons, Hp, Hs. reflexivity.
Qed.

Lemma prefix_marker_split : forall s, prefixb marker s = true -> exists rest, s = marker ++ rest.
Proof.
  intros s H. exists (skipn (List.length marker) s). apply prefixb_app. exact H.
Qed.

(* ------------------------------------------------------------------ *)
(* the first character is preserved; non-slash characters are copied   *)

Lemma blank_cons_head : forall c t, exists o, blank (c :: t) = c :: o.
Proof.
  intros c t. rewrite blank_cons.
  destruct (prefixb marker (c :: t)) eqn:Hp.
  - rewrite prefixb_marker_cons in Hp. apply andb_true_iff in Hp. destruct Hp as [Hc _].
    apply Ascii.eqb_eq in Hc. subst c.
    rewrite marker_eq. simpl. eexists. reflexivity.
  - eexists. reflexivity.
Qed.

Lemma blank_head : forall s c o, blank s = c :: o -> exists t, s = c :: t.
Proof.
  intros s c o H. destruct s as [|a t].
  - rewrite blank_nil in H. discriminate.
  - destruct (blank_cons_head a t) as [o' Ho]. rewrite Ho in H.
    inversion H; subst. exists t. reflexivity.
Qed.

Lemma blank_nil_inv : forall s, blank s = [] -> s = [].
Proof.
  intros s H. destruct s as [|a t]; [reflexivity|].
  destruct (blank_cons_head a t) as [o Ho]. rewrite Ho in H. discriminate.
Qed.

Lemma blank_noslash : forall c t, c <> slash -> blank (c :: t) = c :: blank t.
Proof.
  intros c t Hc. apply blank_copy. apply prefixb_marker_noslash. exact Hc.
Qed.

Lemma blank_noslash_app : forall p t, Forall (fun c => c <> slash) p ->
  blank (p ++ t) = p ++ blank t.
Proof.
  induction p as [|c p IH]; intros t Hp.
  - reflexivity.
  - inversion Hp as [|c' p' Hc Hp']; subst.
    simpl. rewrite blank_noslash by exact Hc. f_equal. apply IH. exact Hp'.
Qed.

Lemma blank_noslash_prefix : forall p, Forall (fun c => c <> slash) p ->
  forall t o, blank t = p ++ o -> exists t', t = p ++ t' /\ blank t' = o.
Proof.
  induction p as [|c p IH]; intros Hp t o H.
  - exists t. split; [reflexivity| exact H].
  - inversion Hp as [|c' p' Hc Hp']; subst.
    simpl in H. destruct (blank_head _ _ _ H) as [t1 Ht1]. subst t.
    rewrite blank_noslash in H by exact Hc.
    inversion H as [H1].
    destruct (IH Hp' t1 o H1) as [t' [E1 E2]].
    exists t'. split; [simpl; f_equal; exact E1 | exact E2].
Qed.

(* a string whose blank starts with the marker itself starts with the marker *)
Lemma blank_marker_prefix : forall s o, blank s = marker ++ o -> prefixb marker s = true.
Proof.
  intros s o H. rewrite marker_eq in H. simpl in H.
  destruct (blank_head _ _ _ H) as [t Ht]. subst s.
  destruct (prefixb marker (slash :: t)) eqn:Hp; [reflexivity|].
  rewrite blank_copy in H by exact Hp.
  inversion H as [H1].
  destruct (blank_noslash_prefix mtail mtail_noslash t o H1) as [t' [E _]].
  subst t.
  change (slash :: mtail ++ t') with (marker ++ t') in Hp.
  rewrite prefixb_app_true in Hp. discriminate.
Qed.

(* ------------------------------------------------------------------ *)
(* digits_equiv helpers                                                *)

Lemma de_app : forall p s t, digits_equiv s t -> digits_equiv (p ++ s) (p ++ t).
Proof.
  induction p as [|c p IH]; intros s t H.
  - exact H.
  - simpl. apply de_char. apply IH. exact H.
Qed.

Lemma de_refl : forall s, digits_equiv s s.
Proof.
  induction s as [|c s IH].
  - apply de_nil.
  - apply de_char. exact IH.
Qed.

Lemma de_head_l : forall c s t, digits_equiv (c :: s) t -> exists t', t = c :: t'.
Proof.
  intros c s t H. remember (c :: s) as x eqn:Ex.
  destruct H as [ | a s' t' H' | d1 d2 s' t' Hd1 Hd2 H' ].
  - discriminate.
  - inversion Ex; subst. eexists. reflexivity.
  - rewrite marker_eq in Ex. simpl in Ex. inversion Ex; subst.
    rewrite marker_eq. simpl. eexists. reflexivity.
Qed.

Lemma de_head_r : forall c s t, digits_equiv s (c :: t) -> exists s', s = c :: s'.
Proof.
  intros c s t H. remember (c :: t) as x eqn:Ex.
  destruct H as [ | a s' t' H' | d1 d2 s' t' Hd1 Hd2 H' ].
  - discriminate.
  - inversion Ex; subst. eexists. reflexivity.
  - rewrite marker_eq in Ex. simpl in Ex. inversion Ex; subst.
    rewrite marker_eq. simpl. eexists. reflexivity.
Qed.

Lemma de_marker : forall ra rb, digits_equiv (next ra) (next rb) ->
  digits_equiv (marker ++ ra) (marker ++ rb).
Proof.
  intros ra rb H.
  destruct (next_cases ra) as [[da [sa [Ea [_ [Hda Na]]]]] | [Na _]];
  destruct (next_cases rb) as [[db [sb [Eb [_ [Hdb Nb]]]]] | [Nb _]];
  rewrite Na, Nb in H.
  - subst ra rb. apply de_seg; assumption.
  - destruct (de_head_l _ _ _ H) as [t' Et]. subst rb ra.
    apply (de_seg da [] sa t' Hda eq_refl H).
  - destruct (de_head_r _ _ _ H) as [s' Es]. subst ra rb.
    apply (de_seg [] db s' sb eq_refl Hdb H).
  - apply de_app. exact H.
Qed.

(* ------------------------------------------------------------------ *)
(* soundness                                                           *)

Lemma blank_sound_aux : forall n a b,
  List.length a + List.length b <= n -> blank a = blank b -> digits_equiv a b.
Proof.
  induction n as [|n IH]; intros a b Hn H.
  - destruct a as [|ca ta]; [|simpl in Hn; lia].
    destruct b as [|cb tb]; [|simpl in Hn; lia].
    apply de_nil.
  - destruct a as [|ca ta].
    + rewrite blank_nil in H. symmetry in H. apply blank_nil_inv in H. subst b. apply de_nil.
    + destruct b as [|cb tb].
      * rewrite blank_nil in H. apply blank_nil_inv in H. discriminate.
      * destruct (prefixb marker (ca :: ta)) eqn:Hpa;
        destruct (prefixb marker (cb :: tb)) eqn:Hpb.
        -- destruct (prefix_marker_split _ Hpa) as [ra Ea].
           destruct (prefix_marker_split _ Hpb) as [rb Eb].
           rewrite Ea, Eb in *.
           rewrite !blank_marker in H. apply app_inv_head in H.
           apply de_marker. apply IH; [|exact H].
           pose proof (next_len ra) as La. pose proof (next_len rb) as Lb.
           rewrite !app_length in Hn. rewrite marker_len in Hn. lia.
        -- destruct (prefix_marker_split _ Hpa) as [ra Ea].
           rewrite Ea in H. rewrite blank_marker in H. symmetry in H.
           apply blank_marker_prefix in H. congruence.
        -- destruct (prefix_marker_split _ Hpb) as [rb Eb].
           rewrite Eb in H. rewrite blank_marker in H.
           apply blank_marker_prefix in H. congruence.
        -- rewrite !blank_copy in H by assumption.
           inversion H as [[Hc Ht]]. apply de_char. apply IH; [|exact Ht].
           simpl in Hn. lia.
Qed.

Theorem blank_sound : forall a b : bytes, blank a = blank b -> digits_equiv a b.
Proof.
  intros a b H. apply (blank_sound_aux (List.length a + List.length b)); [lia | exact H].
Qed.

Print Assumptions blank_sound.

(* ------------------------------------------------------------------ *)
(* completeness                                                        *)

Lemma blank_next_congr : forall s t, blank s = blank t -> blank (next s) = blank (next t).
Proof.
  assert (Hhalf : forall s t d r, blank s = blank t ->
            s = d ++ slash :: r -> forallb is_digit d = true ->
            exists r', t = d ++ slash :: r' /\ blank (slash :: r') = blank (slash :: r)).
  { intros s t d r H Es Hd. subst s.
    rewrite (blank_noslash_app d _ (digits_noslash d Hd)) in H. symmetry in H.
    destruct (blank_noslash_prefix d (digits_noslash d Hd) t _ H) as [t' [Et Ht']].
    destruct (blank_cons_head slash r) as [o Ho].
    rewrite Ho in Ht'. destruct (blank_head _ _ _ Ht') as [r' Er']. subst t'.
    exists r'. split; [exact Et|]. rewrite Ht'. symmetry. exact Ho. }
  intros s t H.
  destruct (next_cases s) as [[ds [rs [Es [_ [Hds Ns]]]]] | [Ns _]].
  - destruct (Hhalf s t ds rs H Es Hds) as [r' [Et Hr']].
    rewrite Ns. rewrite Et. rewrite (next_seg ds r' Hds). symmetry. exact Hr'.
  - destruct (next_cases t) as [[dt [rt [Et [_ [Hdt Nt]]]]] | [Nt _]].
    + symmetry in H.
      destruct (Hhalf t s dt rt H Et Hdt) as [r' [Es Hr']].
      rewrite Nt. rewrite Es. rewrite (next_seg dt r' Hdt). exact Hr'.
    + rewrite Ns, Nt. exact H.
Qed.

Lemma blank_cons_congr : forall a s t, blank s = blank t -> blank (a :: s) = blank (a :: t).
Proof.
  assert (Hhalf : forall a s t, blank s = blank t -> prefixb marker (a :: s) = true ->
            exists s' t', a = slash /\ s = mtail ++ s' /\ t = mtail ++ t' /\ blank s' = blank t').
  { intros a s t H Hp.
    destruct (prefix_marker_split _ Hp) as [s' Es].
    change (marker ++ s') with (slash :: (mtail ++ s')) in Es. injection Es as Ea Es'. change (s = mtail ++ s') in Es'.
    rewrite Es' in H. rewrite (blank_noslash_app mtail s' mtail_noslash) in H. symmetry in H.
    destruct (blank_noslash_prefix mtail mtail_noslash t _ H) as [t' [Et Ht']].
    exists s', t'. split; [exact Ea|]. split; [exact Es'|]. split; [exact Et|].
    symmetry. exact Ht'. }
  intros a s t H.
  destruct (prefixb marker (a :: s)) eqn:Hps.
  - destruct (Hhalf a s t H Hps) as [s' [t' [Ea [Es [Et Hst]]]]]. subst a s t.
    change (slash :: mtail ++ s') with (marker ++ s').
    change (slash :: mtail ++ t') with (marker ++ t').
    rewrite !blank_marker. f_equal. apply blank_next_congr. exact Hst.
  - destruct (prefixb marker (a :: t)) eqn:Hpt.
    + symmetry in H.
      destruct (Hhalf a t s H Hpt) as [t' [s' [Ea [Et [Es Hst]]]]]. subst a s t.
      change (slash :: mtail ++ s') with (marker ++ s') in Hps.
      rewrite prefixb_app_true in Hps. discriminate.
    + rewrite !blank_copy by assumption. f_equal. exact H.
Qed.

Theorem blank_complete : forall a b, digits_equiv a b -> blank a = blank b.
Proof.
  intros a b H.
  induction H as [ | c s t H IH | d1 d2 s t Hd1 Hd2 H IH ].
  - reflexivity.
  - apply blank_cons_congr. exact IH.
  - rewrite !blank_marker. rewrite (next_seg d1 s Hd1), (next_seg d2 t Hd2).
    f_equal. exact IH.
Qed.

Print Assumptions blank_complete.

(* ------------------------------------------------------------------ *)
(* idempotence                                                         *)

Lemma next_blank_next : forall rest, next (blank (next rest)) = blank (next rest).
Proof.
  intros rest.
  destruct (next_cases rest) as [[d [r [E [_ [Hd N]]]]] | [N [d [r [Hs Hc]]]]].
  - rewrite N. destruct (blank_cons_head slash r) as [o Ho]. rewrite Ho.
    apply (next_seg [] o eq_refl).
  - rewrite N.
    destruct (span_spec _ _ _ Hs) as [E [Hd Hr]]. subst rest.
    rewrite (blank_noslash_app d r (digits_noslash d Hd)).
    assert (Hbr : nondigit_head (blank r)).
    { destruct r as [|c r'].
      - rewrite blank_nil. exact I.
      - destruct (blank_cons_head c r') as [o Ho]. rewrite Ho. exact Hr. }
    unfold next. rewrite (span_app d (blank r) Hd Hbr).
    destruct d as [|x d']; [reflexivity|].
    destruct Hc as [Hc | [Hc | [c [r' [Hc Hne]]]]].
    + discriminate.
    + subst r. rewrite blank_nil. reflexivity.
    + subst r. destruct (blank_cons_head c r') as [o Ho]. rewrite Ho.
      destruct (Ascii.eqb c slash) eqn:Ec; [|reflexivity].
      apply Ascii.eqb_eq in Ec. congruence.
Qed.

Lemma blank_idem_aux : forall n a, List.length a <= n -> blank (blank a) = blank a.
Proof.
  induction n as [|n IH]; intros a Hn.
  - destruct a as [|c t]; [reflexivity | simpl in Hn; lia].
  - destruct a as [|c t]; [reflexivity|].
    destruct (prefixb marker (c :: t)) eqn:Hp.
    + destruct (prefix_marker_split _ Hp) as [rest E]. rewrite E in *.
      rewrite blank_marker. rewrite blank_marker.
      rewrite next_blank_next. f_equal. apply IH.
      pose proof (next_len rest) as L.
      rewrite app_length, marker_len in Hn. lia.
    + rewrite (blank_copy c t Hp).
      assert (Hp' : prefixb marker (c :: blank t) = false).
      { destruct (prefixb marker (c :: blank t)) eqn:Hq; [|reflexivity].
        destruct (prefix_marker_split _ Hq) as [o Eo].
        change (marker ++ o) with (slash :: (mtail ++ o)) in Eo. injection Eo as Ec Et. change (blank t = mtail ++ o) in Et.
        destruct (blank_noslash_prefix mtail mtail_noslash t o Et) as [t' [Et' _]].
        subst c t.
        change (slash :: mtail ++ t') with (marker ++ t') in Hp.
        rewrite prefixb_app_true in Hp. discriminate. }
      rewrite (blank_copy c (blank t) Hp'). f_equal. apply IH. simpl in Hn. lia.
Qed.

Theorem blank_idempotent : forall a, blank (blank a) = blank a.
Proof.
  intros a. apply (blank_idem_aux (List.length a)). lia.
Qed.

Print Assumptions blank_idempotent.
