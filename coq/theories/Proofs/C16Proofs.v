(* C16: proofs over the regenerated command builders (Gen.Spawner, Gen.Communication,
   Gen.Backend, Gen.SharedPath, Gen.CacheCmd). *)
From Coq Require Import ZArith String Ascii List Bool Lia ZifyBool.
From EL Require Import Base.Dec Base.PyLib Base.Tac Model.Grammar.
From EL Require Import Gen.Spawner Gen.Communication Gen.Backend Gen.SharedPath Gen.CacheCmd.
Import ListNotations.
Local Open Scope string_scope.
Local Open Scope Z_scope.

Arguments dec : simpl never.


(* ---- facts about decimal numerals ---- *)
Lemma parse_count_dec z : 0 <= z -> parse_count (dec z) = Some z.
Proof.
  intros Hz. destruct (dec_nonneg_digits z Hz) as [Hd Hne].
  unfold parse_count. destruct (dec z) eqn:E; [congruence|].
  rewrite Hd. rewrite <- E. apply undec_dec.
Qed.

Lemma starts_dash_dec z : 0 <= z -> starts_dash (dec z) = false.
Proof.
  intros Hz. destruct (dec_nonneg_digits z Hz) as [Hd Hne].
  destruct (dec z) as [|a s]; [reflexivity|].
  simpl in Hd. apply andb_prop in Hd. destruct Hd as [Hd _].
  unfold starts_dash. destruct a as [[] [] [] [] [] [] [] []]; try reflexivity; discriminate Hd.
Qed.

Lemma Zlen_pos {A} (x : A) l : (Z.of_nat (List.length (x :: l)) >? 0) = true.
Proof. rewrite Z.gtb_lt. simpl List.length. lia. Qed.

(* the srun prefix without user-supplied extra arguments, as a specification-level list *)
Definition srun_prefix (cores : Z) (cwd : option string) (tpc gpc : Z) (over : bool) : list string :=
  ["srun"; "-n"; dec cores]
  ++ match cwd with Some d => ["-D"; d] | None => [] end
  ++ (if tpc >? 1 then ["--cpus-per-task=" ++ dec tpc]%string else [])
  ++ (if gpc >? 0 then ["--gpus-per-task=" ++ dec gpc]%string else [])
  ++ (if over then ["--oversubscribe"] else []).

(* ---- the builder computes the prefix followed by the user's extra arguments ---- *)
Lemma slurm_shape cores cwd tpc gpc over extra :
  generate_slurm_command (VInt cores) (opt_str cwd) (VInt tpc) (VInt gpc) (VBool over) (strs extra)
  = Ok (strs (srun_prefix cores cwd tpc gpc over ++ extra)).
Proof.
  unfold generate_slurm_command, srun_prefix, strs.
  destruct cwd as [d|]; destruct over; destruct extra as [|e extra];
    cbn -[Z.gtb Z.of_nat]; destruct (tpc >? 1); destruct (gpc >? 0); cbn -[Z.gtb Z.of_nat];
    rewrite ?Zlen_pos; cbn -[Z.gtb Z.of_nat];
    rewrite ?List.map_app, ?List.app_nil_r; try reflexivity.
Qed.

Lemma srun_decodes cores cwd tpc gpc over interp rest :
  1 <= cores -> starts_dash interp = false ->
  decode_srun (srun_prefix cores cwd tpc gpc over ++ interp :: rest)
  = Some (norm_req (mkReq cores cwd tpc gpc over), interp :: rest).
Proof.
  intros Hc Hi. unfold srun_prefix, norm_req, decode_srun.
  destruct cwd as [d|]; destruct (tpc >? 1) eqn:Ht; destruct (gpc >? 0) eqn:Hg; destruct over;
    cbn -[parse_count dec Z.gtb]; rewrite ?Ht, ?Hg;
    repeat (rewrite parse_count_dec by lia; cbn -[parse_count dec Z.gtb]);
    rewrite ?Hi; reflexivity.
Qed.

(* ---- mpiexec ---- *)
Definition mpi_prefix (cores : Z) (over : bool) : list string :=
  if cores =? 1 then [] else ["mpiexec"; "-n"; dec cores] ++ (if over then ["--oversubscribe"] else []).

Lemma mpiexec_shape cores over :
  generate_mpiexec_command (VInt cores) (VBool over) = Ok (strs (mpi_prefix cores over)).
Proof.
  unfold generate_mpiexec_command, mpi_prefix, strs. cbn -[Z.eqb].
  destruct (cores =? 1); [reflexivity|]. destruct over; reflexivity.
Qed.

Lemma mpiexec_decodes cores over interp rest :
  1 <= cores -> starts_dash interp = false -> String.eqb interp "mpiexec" = false ->
  decode_mpiexec (mpi_prefix cores over ++ interp :: rest)
  = Some (cores, (if cores =? 1 then false else over), interp :: rest).
Proof.
  intros Hc Hi Hm. unfold mpi_prefix, decode_mpiexec.
  destruct (cores =? 1) eqn:E.
  - apply Z.eqb_eq in E. subst. cbn. rewrite Hm, Hi. reflexivity.
  - destruct over; cbn -[parse_count dec]; rewrite parse_count_dec by lia; cbn.
    + reflexivity.
    + destruct (String.eqb interp "--oversubscribe") eqn:Eo.
      * apply String.eqb_eq in Eo. subst. discriminate Hi.
      * rewrite Hi. reflexivity.
Qed.

(* ---- worker command line and its parser ---- *)
Lemma dec_not s z : undec s = None -> String.eqb s (dec z) = false.
Proof.
  intros H. destruct (String.eqb_spec s (dec z)) as [E|E]; [|reflexivity].
  subst. rewrite undec_dec in H. discriminate.
Qed.

Definition localhost_mode (platform : string) (hl : option bool) : bool :=
  match hl with Some b => b | None => String.eqb platform "darwin" end.

Definition worker_flags (platform host : string) (port : Z) (hl : option bool) : list string :=
  (if localhost_mode platform hl then [] else ["--host"; host]) ++ ["--zmqport"; dec port].

Lemma bootup_shape platform host port cmd conn hl :
  interface_bootup (VStr platform) (VStr host) (VInt port) (strs cmd) conn (opt_bool hl)
  = Ok (strs (cmd ++ worker_flags platform host port hl)).
Proof.
  unfold interface_bootup, worker_flags, localhost_mode, strs.
  destruct hl as [[|]|]; cbn -[dec String.eqb].
  - rewrite List.map_app. reflexivity.
  - rewrite !List.map_app. cbn -[dec]. rewrite <- List.app_assoc. reflexivity.
  - destruct (String.eqb platform "darwin"); cbn -[dec]; rewrite ?List.map_app; cbn -[dec];
      rewrite <- ?List.app_assoc; reflexivity.
Qed.

Lemma backend_path_shape exe ppar pser has cores :
  _get_backend_path (VStr exe) (VBool has) (VStr ppar) (VStr pser) (VInt cores)
  = if cores >? 1 then (if has then Ok (strs [exe; ppar]) else Err "ImportError")
    else Ok (strs [exe; pser]).
Proof.
  unfold _get_backend_path, strs. cbn -[Z.gtb]. destruct (cores >? 1); cbn; [|reflexivity].
  destruct has; reflexivity.
Qed.

Lemma parse_recovers platform host port hl script :
  String.eqb "--host" script = false -> String.eqb "--zmqport" script = false ->
  String.eqb "--zmqport" host = false ->
  parse_arguments (strs (script :: worker_flags platform host port hl))
  = Ok (VDict [(VStr "host", VStr (if localhost_mode platform hl then "localhost" else host));
               (VStr "zmqport", VStr (dec port))]).
Proof.
  intros H1 H2 H3.
  assert (D1 : String.eqb "--host" (dec port) = false) by (apply dec_not; reflexivity).
  assert (D2 : String.eqb "--zmqport" (dec port) = false) by (apply dec_not; reflexivity).
  unfold parse_arguments, update_default_dict_from_arguments, worker_flags, strs.
  destruct (localhost_mode platform hl);
    repeat (progress (cbn -[dec String.eqb]; ground_eqb; rewrite ?H1, ?H2, ?H3, ?D1, ?D2)); reflexivity.
Qed.

(* ---- the spawner objects hand exactly prefix ++ command (and the cwd) to Popen ---- *)
Lemma srun_spawner_popen cwd cores tpc gpc over extra cmd :
  ('(_, self) <- SrunSpawner___init__ (VDict []) (opt_str cwd) (VInt cores) (VInt tpc) (VInt gpc)
                   (VBool over) (strs extra) ;;
   SrunSpawner_bootup self (strs cmd))
  = Ok (strs (srun_prefix cores cwd tpc gpc over ++ extra ++ cmd), opt_str cwd).
Proof.
  unfold SrunSpawner___init__, SubprocessSpawner___init__, BaseSpawner___init__,
    SrunSpawner_bootup, SrunSpawner_generate_command, SubprocessSpawner_generate_command.
  cbn -[generate_slurm_command srun_prefix strs opt_str]. rewrite slurm_shape.
  cbn -[srun_prefix]. unfold strs. rewrite <- !List.map_app, <- List.app_assoc. reflexivity.
Qed.

Lemma mpi_spawner_popen cwd cores tpc over cmd :
  ('(_, self) <- SubprocessSpawner___init__ (VDict []) (opt_str cwd) (VInt cores) (VBool over) (VInt tpc) ;;
   MpiExecSpawner_bootup self (strs cmd))
  = Ok (strs (mpi_prefix cores over ++ cmd), opt_str cwd).
Proof.
  unfold SubprocessSpawner___init__, BaseSpawner___init__,
    MpiExecSpawner_bootup, MpiExecSpawner_generate_command, SubprocessSpawner_generate_command.
  cbn -[generate_mpiexec_command mpi_prefix strs]. rewrite mpiexec_shape.
  cbn -[mpi_prefix]. unfold strs. rewrite <- !List.map_app. reflexivity.
Qed.

(* ---- file mode ---- *)
Lemma execute_command_shape exe ppar pser has file cores :
  _get_execute_command (VStr exe) (VBool has) (VStr ppar) (VStr pser) (VStr file) (VInt cores)
  = if cores >? 1
    then (if has then Ok (strs (["mpiexec"; "-n"; dec cores] ++ [exe; ppar; file])) else Err "ImportError")
    else Ok (strs [exe; pser; file]).
Proof.
  unfold _get_execute_command, strs. cbn -[Z.gtb]. destruct (cores >? 1); cbn; [|reflexivity].
  destruct has; reflexivity.
Qed.
