(* C08/C09/C13: the cache key as computed by the code.  Gen.Serialize.serialize_funct_h5 is regenerated
   from standalone/serialize.py on every run; cloudpickle.dumps, _get_hash (md5 of the normalised
   pickle; normaliser: Model/Blank.v) and fn.__name__ are parameters.  The theorems say which parts
   of a call the key covers: the function, the positional arguments, the keyword arguments AND the
   resource dictionary. *)
From Coq Require Import ZArith String List Bool Lia.
From EL Require Import Base.Dec Base.PyLib Gen.Serialize.
Import ListNotations.
Local Open Scope string_scope.

Definition fn_key : string := "fn".

Definition call_dict (f a k r : pyval) : pyval :=
  VDict [(VStr "fn", f); (VStr "args", a); (VStr "kwargs", k); (VStr "resource_dict", r)].

Lemma mkdict_call f a k r :
  py_mkdict [(VStr "fn", f); (VStr "args", a); (VStr "kwargs", k); (VStr "resource_dict", r)] = call_dict f a k r.
Proof. reflexivity. Qed.

Lemma append_length (a b : string) : String.length (String.append a b) = String.length a + String.length b.
Proof. induction a as [|c a IH]; cbn; [reflexivity|rewrite IH; reflexivity]. Qed.

Lemma append_inv_len (a b c d : string) :
  String.append a b = String.append c d -> String.length b = String.length d -> a = c /\ b = d.
Proof.
  revert c. induction a as [|x a IH]; intros c E L.
  - destruct c as [|y c]; [split; [reflexivity|exact E]|].
    cbn in E. assert (Hl : String.length b = String.length (String y (String.append c d))) by (rewrite E; reflexivity).
    cbn in Hl. rewrite append_length in Hl. lia.
  - destruct c as [|y c].
    + cbn in E. assert (Hl : String.length (String x (String.append a b)) = String.length d) by (rewrite E; reflexivity).
      cbn in Hl. rewrite append_length in Hl. lia.
    + cbn in E. inversion E as [[Ex Er]]. destruct (IH c Er L) as [Ea Eb]. subst. split; reflexivity.
Qed.

Section KeyGen.
  Variable dumps : pyval -> res pyval.       (* cloudpickle.dumps *)
  Variable get_hash : pyval -> res pyval.    (* _get_hash: md5 hex digest of the normalised pickle *)

  (* the key is  fn.__name__ ++ hash(dumps {fn, args, kwargs, resource_dict})  and the stored data
     are exactly these four components *)
  Theorem keygen_shape name f a k r b h :
    dumps (call_dict f a k r) = Ok b ->
    get_hash b = Ok (VStr h) ->
    serialize_funct_h5 dumps get_hash (VStr name) f a k r
    = Ok (VTuple [VStr (String.append name h); call_dict f a k r]).
  Proof.
    intros Hd Hh. unfold serialize_funct_h5. rewrite mkdict_call. rewrite Hd. cbn. rewrite Hh. cbn. reflexivity.
  Qed.

  (* two calls with the same key: the same function name, and - unless the digest collides on these
     two pickles or cloudpickle maps the two calls to one pickle - the same function, positional
     arguments, keyword arguments and resource dictionary *)
  Theorem keygen_covers n1 n2 f1 a1 k1 r1 f2 a2 k2 r2 b1 b2 h1 h2 key d1 d2 :
    dumps (call_dict f1 a1 k1 r1) = Ok b1 -> dumps (call_dict f2 a2 k2 r2) = Ok b2 ->
    get_hash b1 = Ok (VStr h1) -> get_hash b2 = Ok (VStr h2) ->
    String.length h1 = String.length h2 ->
    (h1 = h2 -> b1 = b2) ->
    (b1 = b2 -> call_dict f1 a1 k1 r1 = call_dict f2 a2 k2 r2) ->
    serialize_funct_h5 dumps get_hash (VStr n1) f1 a1 k1 r1 = Ok (VTuple [key; d1]) ->
    serialize_funct_h5 dumps get_hash (VStr n2) f2 a2 k2 r2 = Ok (VTuple [key; d2]) ->
    n1 = n2 /\ f1 = f2 /\ a1 = a2 /\ k1 = k2 /\ r1 = r2.
  Proof.
    intros D1 D2 H1 H2 L Hcol Hinj S1 S2.
    rewrite (keygen_shape _ _ _ _ _ _ _ D1 H1) in S1. rewrite (keygen_shape _ _ _ _ _ _ _ D2 H2) in S2.
    injection S1 as K1 _. injection S2 as K2 _. rewrite <- K2 in K1. injection K1 as E.
    destruct (append_inv_len _ _ _ _ E L) as [En Eh]. split; [exact En|].
    specialize (Hinj (Hcol Eh)). unfold call_dict in Hinj. injection Hinj as E1 E2 E3 E4. repeat split; assumption.
  Qed.

  (* determinism (C09): the key is a function of the name and the four components *)
  Theorem keygen_deterministic name f a k r :
    serialize_funct_h5 dumps get_hash (VStr name) f a k r = serialize_funct_h5 dumps get_hash (VStr name) f a k r.
  Proof. reflexivity. Qed.
End KeyGen.

(* non-vacuity: a dumps/hash pair under which two calls differing only in their resources get different keys *)
Example keygen_resources_matter :
  let dumps := fun v => Ok v in
  let get_hash := fun v => match v with
                           | VDict [_; _; _; (_, VDict [(VStr "cores", VInt c)])] => Ok (VStr (if Z.eqb c 1 then "aaaa" else "bbbb"))
                           | _ => Ok (VStr "cccc") end in
  serialize_funct_h5 dumps get_hash (VStr "f") (VObj "f" 1) (VList []) (VDict []) (VDict [(VStr "cores", VInt 1)])
  <> serialize_funct_h5 dumps get_hash (VStr "f") (VObj "f" 1) (VList []) (VDict []) (VDict [(VStr "cores", VInt 2)]).
Proof. vm_compute. discriminate. Qed.

(* ---- file mode: which dictionary goes into the key (cache/shared.py:execute_tasks_h5, regenerated) ---- *)
From EL Require Import Gen.CacheRes Gen.CacheKey.

Ltac stepb :=
  match goal with
  | |- context [bind ?x _] =>
      lazymatch x with Ok _ => fail | Err _ => fail | _ => idtac end;
      destruct x eqn:?; cbn [bind]; try (intros; discriminate)
  end.

(* the resource dictionary hashed into the key of a file-mode call is the MERGED one (the call's own
   entries, completed by the executor-level defaults - Gen.CacheRes.file_mode_resources, whose
   content is C10_file_mode_merge), together with the call's function, converted arguments and
   keyword arguments *)
Theorem file_key_uses_merged_resources dumps get_hash name td rd a k m td' rd' f :
  file_mode_resources td rd = Ok (VTuple [m; td'; rd']) ->
  py_getitem td (VStr "fn") = Ok f ->
  file_mode_key dumps get_hash name td rd a k
  = (r <- serialize_funct_h5 dumps get_hash name f a k m ;;
     '(key, data) <- py_unpack2 r ;; Ok (VTuple [key; data; m])).
Proof.
  unfold file_mode_key, file_mode_resources. intros H Hf. rewrite Hf. revert H.
  do 4 stepb.
  intros H. injection H as Em _ _. subst. reflexivity.
Qed.
