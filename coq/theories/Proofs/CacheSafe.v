(* Safety of the cached block-allocation executor model (Model/CacheExec.v): properties C08
   (cache soundness) and C09 (completed entries are never altered), for every program, worker
   count, schedule, kills of worker threads and every initial directory that is well formed.

   Proved exactly as asked:
     none_only_from_incomplete (4), dir_inv (1), completed_never_altered (2),
     incomplete_entry_served (5, finding D10).
   (3) served_value is FALSE as stated for a canonicalisation function that is not idempotent
   (counterexample served_value_needs_idem); proved instead:
     served_value_gen : v = 0 \/ v = i \/ v = ccanon c i            (no hypothesis)
     served_value     : the asked statement under  forall k, ccanon c (ccanon c k) = ccanon c k. *)
From Coq Require Import List Bool Arith Lia.
From EL Require Import Model.Exec Model.StepExec Model.FileExec Model.FileSpec Model.CacheExec Model.CacheSpec.
Import ListNotations.

(* ------------------------------------------------------------------ *)
(* transitions and reachability                                        *)
(* ------------------------------------------------------------------ *)
Inductive ctrans (c : ccfg) : cstate -> cstate -> Prop :=
| ct_step : forall s t s' l, cstep c s t = Some (s', l) -> ctrans c s s'
| ct_kill : forall s j, ctrans c s (kill_worker s j).
Inductive creach (c : ccfg) : cstate -> cstate -> Prop :=
| cr_refl : forall s, creach c s s
| cr_step : forall s s' s'', creach c s s' -> ctrans c s' s'' -> creach c s s''.
Definition fs_wf (fs : fsys) : Prop := NoDup (map fst fs).

(* ------------------------------------------------------------------ *)
(* tactics                                                             *)
(* ------------------------------------------------------------------ *)
Ltac step_cases H :=
  repeat match type of H with
         | Some _ = Some _ => fail 1
         | None = Some _ => discriminate H
         | context [match ?x with _ => _ end] => destruct x eqn:?; try discriminate H
         | context [if ?x then _ else _] => destruct x eqn:?; try discriminate H
         end.

Ltac cfld := cbn [cb cov cfs set_ov set_cb set_cfs] in *.

(* ------------------------------------------------------------------ *)
(* the overlay                                                         *)
(* ------------------------------------------------------------------ *)
Lemma nth_updov_nil : forall j o j', nth j' (updov [] j o) CNone = if Nat.eqb j j' then o else CNone.
Proof.
  induction j as [|j IH]; intros o [|j']; simpl; try reflexivity.
  - now destruct j'.
  - apply IH.
Qed.

Lemma nth_updov : forall l j o j', nth j' (updov l j o) CNone = if Nat.eqb j j' then o else nth j' l CNone.
Proof.
  induction l as [|a l IH]; intros j o j'.
  - rewrite nth_updov_nil. destruct (Nat.eqb j j'); [reflexivity|now destruct j'].
  - destruct j as [|j], j' as [|j']; simpl; try reflexivity. apply IH.
Qed.

Lemma getov_set_ov : forall s j o j', getov (set_ov s j o) j' = if Nat.eqb j j' then o else getov s j'.
Proof. intros s j o j'. unfold getov, set_ov. simpl. apply nth_updov. Qed.

Lemma getov_set_ov_same : forall s j o, getov (set_ov s j o) j = o.
Proof. intros s j o. rewrite getov_set_ov, Nat.eqb_refl. reflexivity. Qed.

Lemma getov_set_ov_other : forall s j o j', j <> j' -> getov (set_ov s j o) j' = getov s j'.
Proof. intros s j o j' H. rewrite getov_set_ov. apply Nat.eqb_neq in H. now rewrite H. Qed.

Lemma getov_set_cb : forall s b j, getov (set_cb s b) j = getov s j.
Proof. reflexivity. Qed.

Lemma getov_set_cfs : forall s f j, getov (set_cfs s f) j = getov s j.
Proof. reflexivity. Qed.

(* ------------------------------------------------------------------ *)
(* (4) None is only served from an entry without its output            *)
(* ------------------------------------------------------------------ *)
Theorem none_only_from_incomplete : forall c s s' j i l,
  getov s j = CHitOpen i -> cw_step c s j = Some (s', l) -> getov s' j = CHitClose false i ->
  exists dsl, fs_get (cfs s) (cpath c i) = Some dsl /\ has_ds DOut dsl = false.
Proof.
  intros c s s' j i l Hov Hst Hov'. unfold cw_step in Hst.
  destruct (nth_error (ws (cb s)) j) as [w|]; [|discriminate]. rewrite Hov in Hst.
  destruct (fs_get (cfs s) (cpath c i)) as [dsl|] eqn:Eg.
  - exists dsl. split; [reflexivity|]. inversion Hst; subst; clear Hst. rewrite getov_set_ov_same in Hov'.
    destruct (has_ds DOut dsl); [discriminate|reflexivity].
  - inversion Hst; subst; clear Hst. rewrite getov_set_ov_same in Hov'. discriminate.
Qed.


(* ------------------------------------------------------------------ *)
(* equality tests                                                      *)
(* ------------------------------------------------------------------ *)
(* keys are trees (a FutureItem argument names the producer's key): equality test is exact *)
Fixpoint pat_eqb (x y : list (option ktree)) : bool :=
  match x, y with
  | [], [] => true
  | None :: x', None :: y' => pat_eqb x' y'
  | Some u :: x', Some v :: y' => ktree_eqb u v && pat_eqb x' y'
  | _, _ => false
  end.

Lemma ktree_eqb_unfold : forall c1 p1 c2 p2,
  ktree_eqb (KT c1 p1) (KT c2 p2) = Nat.eqb c1 c2 && pat_eqb p1 p2.
Proof.
  intros c1 p1 c2 p2. reflexivity.
Qed.

Fixpoint ksize (t : ktree) : nat :=
  match t with
  | KT _ pat => S ((fix go (l : list (option ktree)) : nat :=
                      match l with
                      | [] => 0
                      | None :: r => go r
                      | Some u :: r => ksize u + go r
                      end) pat)
  end.
Fixpoint psize (l : list (option ktree)) : nat :=
  match l with
  | [] => 0
  | None :: r => psize r
  | Some u :: r => ksize u + psize r
  end.
Lemma ksize_unfold : forall c p, ksize (KT c p) = S (psize p).
Proof. intros c p. reflexivity. Qed.

Lemma ktree_eqb_eq_n : forall n a, ksize a <= n -> forall b, ktree_eqb a b = true <-> a = b.
Proof.
  induction n as [|n IHn]; intros [c1 p1] Hs [c2 p2]; rewrite ksize_unfold in Hs; [lia|].
  rewrite ktree_eqb_unfold, andb_true_iff, Nat.eqb_eq.
  assert (Hp : forall p, psize p <= n -> forall q, pat_eqb p q = true <-> p = q).
  { clear c1 c2 p1 p2 Hs. induction p as [|o p IHp]; intros Hsz [|o2 q]; simpl.
    - split; reflexivity.
    - split; intros H; discriminate H.
    - destruct o; split; intros H; discriminate H.
    - destruct o as [u|], o2 as [v|]; simpl in Hsz.
      + rewrite andb_true_iff, (IHn u) by lia. rewrite IHp by lia.
        split; [intros [H1 H2]; now subst|intros H; inversion H; auto].
      + split; intros H; discriminate H.
      + split; intros H; discriminate H.
      + rewrite IHp by lia. split; [intros H; now subst|intros H; inversion H; auto]. }
  rewrite Hp by lia. split; [intros [H1 H2]; now subst|intros H; inversion H; auto].
Qed.

Lemma ktree_eqb_eq : forall a b, ktree_eqb a b = true <-> a = b.
Proof. intros a b. apply (ktree_eqb_eq_n (ksize a)). apply Nat.le_refl. Qed.

Lemma key_eqb_eq : forall a b : key, key_eqb a b = true <-> a = b.
Proof.
  intros [a1 a2] [b1 b2]. unfold key_eqb, key_tree. simpl fst. simpl snd. rewrite ktree_eqb_eq.
  split; [intros H; inversion H; reflexivity|intros H; inversion H; reflexivity].
Qed.

Lemma key_eqb_refl : forall a : key, key_eqb a a = true.
Proof. intros a. now apply key_eqb_eq. Qed.

Lemma key_eqb_neq : forall a b : key, key_eqb a b = false <-> a <> b.
Proof.
  intros a b. split.
  - intros H E. apply key_eqb_eq in E. rewrite E in H. discriminate.
  - intros H. destruct (key_eqb a b) eqn:E; [|reflexivity]. apply key_eqb_eq in E. contradiction.
Qed.

Lemma key_eq_dec : forall a b : key, {a = b} + {a <> b}.
Proof.
  intros a b. destruct (key_eqb a b) eqn:E; [left; now apply key_eqb_eq|right; now apply key_eqb_neq].
Qed.

Lemma ext_eqb_eq : forall a b, ext_eqb a b = true <-> a = b.
Proof. intros [] []; simpl; split; intros H; try reflexivity; try discriminate. Qed.

Lemma path_eqb_eq : forall a b : path, path_eqb a b = true <-> a = b.
Proof.
  intros [a1 a2] [b1 b2]. unfold path_eqb. simpl. rewrite andb_true_iff, key_eqb_eq, ext_eqb_eq.
  split; [intros [H1 H2]; now subst|intros H; inversion H; auto].
Qed.

Lemma path_eqb_refl : forall a : path, path_eqb a a = true.
Proof. intros a. now apply path_eqb_eq. Qed.

Lemma path_eqb_neq : forall a b : path, a <> b -> path_eqb a b = false.
Proof.
  intros a b H. destruct (path_eqb a b) eqn:E; [|reflexivity]. apply path_eqb_eq in E. contradiction.
Qed.

Lemma ds_eqb_eq : forall a b, ds_eqb a b = true <-> a = b.
Proof. intros [] []; simpl; split; intros H; try reflexivity; try discriminate. Qed.

Lemma has_ds_In : forall d l, has_ds d l = true <-> In d l.
Proof.
  intros d l. unfold has_ds. rewrite existsb_exists. split.
  - intros (x & Hx & E). apply ds_eqb_eq in E. now subst.
  - intros H. exists d. split; [exact H|now apply ds_eqb_eq].
Qed.

(* ------------------------------------------------------------------ *)
(* the directory                                                       *)
(* ------------------------------------------------------------------ *)
Lemma fs_get_app : forall a b q,
  fs_get (a ++ b) q = match fs_get a q with Some c => Some c | None => fs_get b q end.
Proof.
  induction a as [|[r c] a IH]; intros b q; simpl; [reflexivity|].
  destruct (path_eqb q r); [reflexivity|apply IH].
Qed.

Lemma fs_get_del_same : forall fs p, fs_get (fs_del fs p) p = None.
Proof.
  induction fs as [|[r c] fs IH]; intros p; simpl; [reflexivity|].
  destruct (path_eqb p r) eqn:E; [apply IH|]. simpl. rewrite E. apply IH.
Qed.

Lemma fs_get_del_other : forall fs p q, q <> p -> fs_get (fs_del fs p) q = fs_get fs q.
Proof.
  induction fs as [|[r c] fs IH]; intros p q H; simpl; [reflexivity|].
  destruct (path_eqb p r) eqn:E.
  - apply path_eqb_eq in E. subst r. rewrite (path_eqb_neq q p H). now apply IH.
  - simpl. destruct (path_eqb q r); [reflexivity|now apply IH].
Qed.

Lemma fs_get_set_same : forall fs p c, fs_get (fs_set fs p c) p = Some c.
Proof.
  intros fs p c. unfold fs_set. rewrite fs_get_app, fs_get_del_same. simpl. now rewrite path_eqb_refl.
Qed.

Lemma fs_get_set_other : forall fs p c q, q <> p -> fs_get (fs_set fs p c) q = fs_get fs q.
Proof.
  intros fs p c q H. unfold fs_set. rewrite fs_get_app, (fs_get_del_other _ _ _ H). simpl.
  rewrite (path_eqb_neq q p H). now destruct (fs_get fs q).
Qed.

Lemma fs_has_true : forall fs p, fs_has fs p = true <-> exists l, fs_get fs p = Some l.
Proof.
  intros fs p. unfold fs_has. destruct (fs_get fs p) as [l|]; split; intros H; try reflexivity; try discriminate.
  - now exists l.
  - destruct H as (l & H). discriminate.
Qed.

Lemma fs_has_false : forall fs p, fs_has fs p = false <-> fs_get fs p = None.
Proof.
  intros fs p. unfold fs_has. destruct (fs_get fs p) as [l|]; split; intros H; try reflexivity; discriminate.
Qed.

(* ------------------------------------------------------------------ *)
(* lists updated at one index                                          *)

Definition fs_uniq (fs : fsys) : Prop := forall p l, In (p, l) fs -> fs_get fs p = Some l.

Lemma fs_wf_uniq : forall fs, fs_wf fs -> fs_uniq fs.
Proof.
  induction fs as [|[q c] fs IH]; intros Hw p l Hin; [contradiction|].
  unfold fs_wf in Hw. simpl in Hw. inversion Hw as [|x y Hn Hd]; subst. simpl. destruct Hin as [Hin|Hin].
  - inversion Hin; subst. now rewrite path_eqb_refl.
  - rewrite path_eqb_neq; [now apply IH|]. intros E. subst q. apply Hn. apply in_map_iff. exists (p, l). auto.
Qed.

Lemma In_fs_del : forall fs p q l, In (q, l) (fs_del fs p) -> In (q, l) fs /\ q <> p.
Proof.
  induction fs as [|[r c] fs IH]; intros p q l H; simpl in *; [contradiction|].
  destruct (path_eqb p r) eqn:E.
  - destruct (IH _ _ _ H) as [H1 H2]. auto.
  - destruct H as [H|H].
    + inversion H; subst. split; [now left|]. intros E2. subst q. rewrite path_eqb_refl in E. discriminate.
    + destruct (IH _ _ _ H) as [H1 H2]. auto.
Qed.

Lemma uniq_del : forall fs p, fs_uniq fs -> fs_uniq (fs_del fs p).
Proof.
  intros fs p H q l Hin. apply In_fs_del in Hin. destruct Hin as [Hin Hne].
  rewrite fs_get_del_other by exact Hne. now apply H.
Qed.

Lemma uniq_set : forall fs p c, fs_uniq fs -> fs_uniq (fs_set fs p c).
Proof.
  intros fs p c H q l Hin. unfold fs_set in Hin. apply in_app_iff in Hin. destruct Hin as [Hin|[Hin|[]]].
  - apply In_fs_del in Hin. destruct Hin as [Hin Hne]. rewrite fs_get_set_other by exact Hne. now apply H.
  - inversion Hin; subst. apply fs_get_set_same.
Qed.


Lemma fs_get_In : forall fs p l, fs_get fs p = Some l -> In (p, l) fs.
Proof.
  induction fs as [|[q c] fs IH]; intros p l H; simpl in *; [discriminate|].
  destruct (path_eqb p q) eqn:E.
  - apply path_eqb_eq in E. inversion H; subst. now left.
  - right. now apply IH.
Qed.

Lemma NoDup_snoc : forall {A} (l : list A) x, NoDup l -> ~ In x l -> NoDup (l ++ [x]).
Proof.
  induction l as [|a l IH]; intros x Hd Hn; simpl.
  - constructor; [intros []|constructor].
  - inversion Hd as [|y m Ha Hl]; subst. constructor.
    + rewrite in_app_iff. intros [H|[H|[]]]; [contradiction|]. subst. apply Hn. now left.
    + apply IH; [exact Hl|]. intros H. apply Hn. now right.
Qed.

Lemma In_map_fs_del : forall fs p q, In q (map fst (fs_del fs p)) -> In q (map fst fs) /\ q <> p.
Proof.
  intros fs p q H. apply in_map_iff in H. destruct H as ([q' l] & E & Hin). simpl in E. subst q'.
  apply In_fs_del in Hin. destruct Hin as [Hin Hne]. split; [|exact Hne].
  apply in_map_iff. exists (q, l). split; [reflexivity|exact Hin].
Qed.

Lemma wf_del : forall fs p, fs_wf fs -> fs_wf (fs_del fs p).
Proof.
  unfold fs_wf. induction fs as [|[q c] fs IH]; intros p H; simpl in *; [constructor|].
  inversion H as [|x m Hn Hd]; subst. destruct (path_eqb p q).
  - now apply IH.
  - simpl. constructor; [|now apply IH]. intros Hin. apply In_map_fs_del in Hin. now apply Hn.
Qed.

Lemma wf_set : forall fs p c, fs_wf fs -> fs_wf (fs_set fs p c).
Proof.
  intros fs p c H. unfold fs_wf, fs_set. rewrite map_app. simpl. apply NoDup_snoc.
  - now apply wf_del.
  - intros Hin. apply In_map_fs_del in Hin. now destruct Hin.
Qed.

(* ------------------------------------------------------------------ *)
(* prefixes of a full entry                                            *)
(* ------------------------------------------------------------------ *)
Definition ds_before (d : ds) : list ds :=
  match d with DFn => [] | DArgs => [DFn] | DKw => [DFn; DArgs] | DOut => [DFn; DArgs; DKw] end.

Lemma prefix_cases : forall l, is_prefix l full_entry = true ->
  l = [] \/ l = [DFn] \/ l = [DFn; DArgs] \/ l = [DFn; DArgs; DKw] \/ l = full_entry.
Proof.
  intros l H. unfold full_entry in *.
  destruct l as [|a l]; [now left|]. destruct a; try discriminate H.
  destruct l as [|a l]; [now right; left|]. destruct a; try discriminate H.
  destruct l as [|a l]; [now right; right; left|]. destruct a; try discriminate H.
  destruct l as [|a l]; [now right; right; right; left|]. destruct a; try discriminate H.
  destruct l as [|a l]; [now right; right; right; right|]. discriminate H.
Qed.

Lemma prefix_snoc : forall l d, is_prefix l full_entry = true ->
  forallb (fun d' => has_ds d' l) (ds_before d) = true -> has_ds d l = false ->
  is_prefix (l ++ [d]) full_entry = true.
Proof.
  intros l d Hp Hb Hn.
  destruct (prefix_cases l Hp) as [E|[E|[E|[E|E]]]]; subst l; destruct d; simpl in *;
    try reflexivity; discriminate.
Qed.

Lemma prefix_complete : forall l d, is_prefix l full_entry = true -> has_ds DOut l = true -> has_ds d l = true.
Proof.
  intros l d Hp Ho.
  destruct (prefix_cases l Hp) as [E|[E|[E|[E|E]]]]; subst l; simpl in Ho; try discriminate Ho.
  now destruct d.
Qed.

Lemma has_ds_app : forall d a b, has_ds d (a ++ b) = has_ds d a || has_ds d b.
Proof. intros d a b. unfold has_ds. apply existsb_app. Qed.

Lemma before_next : forall d d' l, next_ds d = Some d' ->
  forallb (fun x => has_ds x l) (ds_before d) = true ->
  forallb (fun x => has_ds x (l ++ [d])) (ds_before d') = true.
Proof.
  intros d d' l Hn Hb. destruct d; simpl in Hn; inversion Hn; subst; simpl in *;
    rewrite ?has_ds_app; simpl; rewrite ?andb_true_iff in *; repeat split;
    try (apply orb_true_iff; left; tauto); try (apply orb_true_iff; right; reflexivity).
Qed.

(* ------------------------------------------------------------------ *)
(* dir_ok                                                              *)
(* ------------------------------------------------------------------ *)
Lemma dir_ok_get : forall fs p l, dir_ok fs = true -> fs_get fs p = Some l ->
  snd p = EOut /\ is_prefix l full_entry = true.
Proof.
  intros fs p l H Hg. unfold dir_ok in H. rewrite forallb_forall in H.
  specialize (H _ (fs_get_In _ _ _ Hg)). simpl in H. destruct (snd p); try discriminate H. now split.
Qed.

Lemma dir_ok_set : forall fs k l, dir_ok fs = true -> is_prefix l full_entry = true ->
  dir_ok (fs_set fs (k, EOut) l) = true.
Proof.
  intros fs k l H Hp. unfold dir_ok in *. rewrite forallb_forall in *. intros [q c] Hin.
  unfold fs_set in Hin. apply in_app_iff in Hin. destruct Hin as [Hin|[Hin|[]]].
  - apply In_fs_del in Hin. destruct Hin as [Hin _]. apply (H _ Hin).
  - inversion Hin; subst. simpl. exact Hp.
Qed.

(* ------------------------------------------------------------------ *)
(* what a worker-thread step does to the directory and the overlay     *)
(* ------------------------------------------------------------------ *)
Lemma cw_step_shape : forall c s j s' l, cw_step c s j = Some (s', l) ->
  exists o', cov s' = updov (cov s) j o' /\
    ((cfs s' = cfs s /\ forall i v d, o' = CDDs i v d -> d = DFn /\ fs_has (cfs s) (cpath c i) = true)
     \/ (exists i v, fs_has (cfs s) (cpath c i) = false /\ cfs s' = fs_set (cfs s) (cpath c i) [] /\ o' = CDDs i v DFn)
     \/ (exists i v d l0, getov s j = CDDs i v d /\ fs_get (cfs s) (cpath c i) = Some l0 /\ has_ds d l0 = false /\
           cfs s' = fs_set (cfs s) (cpath c i) (l0 ++ [d]) /\
           o' = match next_ds d with Some d' => CDDs i v d' | None => CDClose true i v end)).
Proof.
  intros c s j s' l Hst. unfold cw_step in Hst.
  destruct (nth_error (ws (cb s)) j) as [w|]; [|discriminate].
  destruct (getov s j) as [|i|i|i|flag i|flag i|i v|i v d|ok i v] eqn:Hov.
  - destruct (w_step (cbase c) (cb s) j) as [[b' l']|]; [|discriminate]. inversion Hst; subst; clear Hst.
    eexists. split; [reflexivity|]. left. split; [reflexivity|]. intros i v d E. exfalso.
    destruct (wp w); try discriminate E; destruct (nth_error (ws b') j) as [w'|]; try discriminate E;
      destruct (wp w'); discriminate E.
  - destruct (fs_has (cfs s) (cpath c i)); inversion Hst; subst; clear Hst;
      (eexists; split; [reflexivity|]; left; split; [reflexivity|]; intros i0 v0 d0 E; discriminate E).
  - destruct (fs_get (cfs s) (cpath c i)) as [l0|]; inversion Hst; subst; clear Hst;
      (eexists; split; [reflexivity|]; left; split; [reflexivity|]; intros i0 v0 d0 E; try discriminate E).
    destruct (has_ds DOut l0); discriminate E.
  - inversion Hst; subst; clear Hst.
    eexists; split; [reflexivity|]; left; split; [reflexivity|]; intros i0 v0 d0 E; discriminate E.
  - inversion Hst; subst; clear Hst.
    eexists; split; [reflexivity|]; left; split; [reflexivity|]; intros i0 v0 d0 E; discriminate E.
  - destruct (getf (cb s) i); inversion Hst; subst; clear Hst;
      (eexists; split; [reflexivity|]; left; split; [reflexivity|]; intros i0 v0 d0 E; discriminate E).
  - destruct (fs_has (cfs s) (cpath c i)) eqn:Eh; inversion Hst; subst; clear Hst.
    + eexists; split; [reflexivity|]. left. split; [reflexivity|]. intros i0 v0 d0 E. inversion E; subst. now split.
    + eexists; split; [reflexivity|]. right. left. exists i, v. repeat split; auto.
  - destruct (fs_get (cfs s) (cpath c i)) as [l0|] eqn:Eg.
    + destruct (has_ds d l0) eqn:Ed; inversion Hst; subst; clear Hst.
      * eexists; split; [reflexivity|]; left; split; [reflexivity|]; intros i0 v0 d0 E; discriminate E.
      * eexists; split; [reflexivity|]. right. right. exists i, v, d, l0. repeat split; auto.
    + inversion Hst; subst; clear Hst.
      eexists; split; [reflexivity|]; left; split; [reflexivity|]; intros i0 v0 d0 E; discriminate E.
  - destruct ok; inversion Hst; subst; clear Hst;
      (eexists; split; [reflexivity|]; left; split; [reflexivity|]; intros i0 v0 d0 E; discriminate E).
Qed.

Lemma path_eq_dec : forall a b : path, {a = b} + {a <> b}.
Proof.
  intros a b. destruct (path_eqb a b) eqn:E; [left; now apply path_eqb_eq|right].
  intros H. subst. rewrite path_eqb_refl in E. discriminate.
Qed.

Lemma forallb_has_app : forall (l : list ds) m d, forallb (fun x => has_ds x l) m = true ->
  forallb (fun x => has_ds x (l ++ [d])) m = true.
Proof.
  intros l m d H. rewrite forallb_forall in *. intros x Hx. rewrite has_ds_app, (H x Hx). reflexivity.
Qed.

(* ------------------------------------------------------------------ *)
(* the directory invariant                                             *)
(* ------------------------------------------------------------------ *)
Definition step_shape (c : ccfg) (s s' : cstate) (j : nat) (o' : cpc) : Prop :=
  (cfs s' = cfs s /\ forall i v d, o' = CDDs i v d -> d = DFn /\ fs_has (cfs s) (cpath c i) = true)
  \/ (exists i v, fs_has (cfs s) (cpath c i) = false /\ cfs s' = fs_set (cfs s) (cpath c i) [] /\ o' = CDDs i v DFn)
  \/ (exists i v d l0, getov s j = CDDs i v d /\ fs_get (cfs s) (cpath c i) = Some l0 /\ has_ds d l0 = false /\
        cfs s' = fs_set (cfs s) (cpath c i) (l0 ++ [d]) /\
        o' = match next_ds d with Some d' => CDDs i v d' | None => CDClose true i v end).

Record FInv (c : ccfg) (s : cstate) : Prop := {
  F_ok : dir_ok (cfs s) = true;
  F_wf : fs_wf (cfs s);
  F_dump : forall j i v d, getov s j = CDDs i v d ->
     exists l, fs_get (cfs s) (cpath c i) = Some l /\ forallb (fun d' => has_ds d' l) (ds_before d) = true
}.

Lemma finv_shape : forall c s s' j o', FInv c s -> cov s' = updov (cov s) j o' -> step_shape c s s' j o' -> FInv c s'.
Proof.
  intros c s s' j o' H Hcov Hsh.
  assert (Hgo : forall j', getov s' j' = if Nat.eqb j j' then o' else getov s j').
  { intros j'. unfold getov. rewrite Hcov. apply nth_updov. }
  destruct Hsh as [(Efs & Ho)|[(i & v & Eh & Efs & Eo)|(i & v & d & l0 & Eov & Eg & Ed & Efs & Eo)]].
  - constructor; rewrite Efs; [apply (F_ok _ _ H)|apply (F_wf _ _ H)|].
    intros j' i v d Hg. rewrite Hgo in Hg. destruct (Nat.eqb j j').
    + destruct (Ho _ _ _ Hg) as [Ed Eh]. subst d. apply fs_has_true in Eh. destruct Eh as (l & El).
      exists l. split; [exact El|reflexivity].
    + apply (F_dump _ _ H _ _ _ _ Hg).
  - constructor; rewrite Efs.
    + apply dir_ok_set; [apply (F_ok _ _ H)|reflexivity].
    + apply wf_set. apply (F_wf _ _ H).
    + intros j' i2 v2 d2 Hg. rewrite Hgo in Hg. destruct (Nat.eqb j j').
      * subst o'. inversion Hg; subst. exists []. split; [apply fs_get_set_same|reflexivity].
      * destruct (F_dump _ _ H _ _ _ _ Hg) as (l & El & Hb).
        destruct (path_eq_dec (cpath c i2) (cpath c i)) as [E|E].
        -- rewrite E in El. apply fs_has_false in Eh. rewrite Eh in El. discriminate.
        -- exists l. split; [|exact Hb]. rewrite fs_get_set_other by exact E. exact El.
  - destruct (F_dump _ _ H _ _ _ _ Eov) as (l & El & Hb). rewrite Eg in El. inversion El; subst l; clear El.
    destruct (dir_ok_get _ _ _ (F_ok _ _ H) Eg) as [_ Hp].
    constructor; rewrite Efs.
    + apply dir_ok_set; [apply (F_ok _ _ H)|]. apply prefix_snoc; assumption.
    + apply wf_set. apply (F_wf _ _ H).
    + intros j' i2 v2 d2 Hg. rewrite Hgo in Hg. destruct (Nat.eqb j j').
      * subst o'. destruct (next_ds d) as [d'|] eqn:En; [|discriminate Hg]. inversion Hg; subst.
        exists (l0 ++ [d]). split; [apply fs_get_set_same|]. now apply before_next.
      * destruct (F_dump _ _ H _ _ _ _ Hg) as (l & El & Hb2).
        destruct (path_eq_dec (cpath c i2) (cpath c i)) as [E|E].
        -- rewrite E in *. rewrite Eg in El. inversion El; subst l.
           exists (l0 ++ [d]). split; [apply fs_get_set_same|]. now apply forallb_has_app.
        -- exists l. split; [|exact Hb2]. rewrite fs_get_set_other by exact E. exact El.
Qed.

Lemma finv_frame : forall c s s', FInv c s -> cov s' = cov s -> cfs s' = cfs s -> FInv c s'.
Proof.
  intros c s s' H Hcov Hfs. constructor; rewrite ?Hfs; [apply (F_ok _ _ H)|apply (F_wf _ _ H)|].
  intros j i v d Hg. unfold getov in Hg. rewrite Hcov in Hg. apply (F_dump _ _ H _ _ _ _ Hg).
Qed.

Lemma kill_worker_shape : forall c s j, kill_worker s j = s \/
  (cov (kill_worker s j) = updov (cov s) j CNone /\ step_shape c s (kill_worker s j) j CNone).
Proof.
  intros c s j. unfold kill_worker. destruct (nth_error (ws (cb s)) j) as [w|]; [right|now left].
  split; [reflexivity|]. left. split; [reflexivity|]. intros i v d E. discriminate E.
Qed.

Lemma finv_ctrans : forall c s s', FInv c s -> ctrans c s s' -> FInv c s'.
Proof.
  intros c s s' H Ht. destruct Ht as [s t s' l Hst|s j].
  - destruct t as [| | |j|k]; simpl in Hst; try discriminate Hst.
    + destruct (m_step (cbase c) (cb s)) as [[b l1]|]; [|discriminate]. inversion Hst; subst; clear Hst.
      apply (finv_frame c s); [exact H|reflexivity|reflexivity].
    + destruct j as [|j]; [discriminate|]. destruct (cw_step_shape _ _ _ _ _ Hst) as (o' & Hcov & Hsh).
      eapply finv_shape; eauto.
    + destruct (p_step (cbase c) (cb s) k) as [[b l1]|]; [|discriminate]. inversion Hst; subst; clear Hst.
      apply (finv_frame c s); [exact H|reflexivity|reflexivity].
  - destruct (kill_worker_shape c s j) as [E|[Hcov Hsh]]; [now rewrite E|]. eapply finv_shape; eauto.
Qed.

Lemma finv_reach : forall c s0 s, FInv c s0 -> creach c s0 s -> FInv c s.
Proof.
  intros c s0 s H Hr. induction Hr as [s|s s' s'' H1 IH H2]; [exact H|].
  eapply finv_ctrans; [apply IH; exact H|exact H2].
Qed.

Lemma finv_init : forall c n prog fs0, dir_ok fs0 = true -> fs_wf fs0 -> FInv c (cinit n prog fs0).
Proof.
  intros c n prog fs0 Hd Hw. constructor; simpl; [exact Hd|exact Hw|].
  intros j i v d Hg. unfold getov in Hg. simpl in Hg. destruct j; discriminate Hg.
Qed.

(* (1) *)
Theorem dir_inv : forall c n prog fs0 s, dir_ok fs0 = true -> fs_wf fs0 ->
  creach c (cinit n prog fs0) s -> dir_ok (cfs s) = true /\ fs_wf (cfs s).
Proof.
  intros c n prog fs0 s Hd Hw Hr. pose proof (finv_reach _ _ _ (finv_init c n prog fs0 Hd Hw) Hr) as H.
  split; [apply (F_ok _ _ H)|apply (F_wf _ _ H)].
Qed.

(* ---------- completed entries ---------- *)
Lemma outs_kept_stable : forall fs fs', fs_uniq fs ->
  (forall k l, fs_get fs (k, EOut) = Some l -> has_ds DOut l = true -> fs_get fs' (k, EOut) = Some l) ->
  outs_kept fs fs' = true.
Proof.
  intros fs fs' Hu Hs. unfold outs_kept. apply forallb_forall. intros [[k x] cts] Hin. simpl.
  destruct x; try reflexivity. destruct (has_ds DOut cts) eqn:Ed; [|reflexivity].
  rewrite (Hs k cts (Hu _ _ Hin) Ed). apply andb_true_iff. split; [|apply Nat.eqb_refl].
  apply forallb_forall. intros d Hd. now apply has_ds_In.
Qed.

Lemma shape_stable : forall c s s' j o', FInv c s -> step_shape c s s' j o' ->
  forall k l, fs_get (cfs s) (k, EOut) = Some l -> has_ds DOut l = true -> fs_get (cfs s') (k, EOut) = Some l.
Proof.
  intros c s s' j o' H Hsh k l Hg Ho.
  destruct Hsh as [(Efs & _)|[(i & v & Eh & Efs & _)|(i & v & d & l0 & _ & Eg & Ed & Efs & _)]]; rewrite Efs.
  - exact Hg.
  - destruct (path_eq_dec (k, EOut) (cpath c i)) as [E|E].
    + rewrite E in Hg. apply fs_has_false in Eh. rewrite Eh in Hg. discriminate.
    + rewrite fs_get_set_other by exact E. exact Hg.
  - destruct (path_eq_dec (k, EOut) (cpath c i)) as [E|E].
    + rewrite E in Hg. rewrite Eg in Hg. inversion Hg; subst l0.
      destruct (dir_ok_get _ _ _ (F_ok _ _ H) Eg) as [_ Hp].
      rewrite (prefix_complete l d Hp Ho) in Ed. discriminate.
    + rewrite fs_get_set_other by exact E. exact Hg.
Qed.

Lemma ctrans_stable : forall c s s', FInv c s -> ctrans c s s' ->
  forall k l, fs_get (cfs s) (k, EOut) = Some l -> has_ds DOut l = true -> fs_get (cfs s') (k, EOut) = Some l.
Proof.
  intros c s s' H Ht k l Hg Ho. destruct Ht as [s t s' l1 Hst|s j].
  - destruct t as [| | |j|m]; simpl in Hst; try discriminate Hst.
    + destruct (m_step (cbase c) (cb s)) as [[b l2]|]; [|discriminate]. inversion Hst; subst; clear Hst. exact Hg.
    + destruct j as [|j]; [discriminate|]. destruct (cw_step_shape _ _ _ _ _ Hst) as (o' & _ & Hsh).
      eapply shape_stable; eauto.
    + destruct (p_step (cbase c) (cb s) m) as [[b l2]|]; [|discriminate]. inversion Hst; subst; clear Hst. exact Hg.
  - destruct (kill_worker_shape c s j) as [E|[_ Hsh]]; [now rewrite E|]. eapply shape_stable; eauto.
Qed.

(* (2) *)
Theorem completed_never_altered : forall c n prog fs0 s s',
  dir_ok fs0 = true -> fs_wf fs0 -> creach c (cinit n prog fs0) s -> ctrans c s s' ->
  outs_kept (cfs s) (cfs s') = true.
Proof.
  intros c n prog fs0 s s' Hd Hw Hr Ht.
  pose proof (finv_reach _ _ _ (finv_init c n prog fs0 Hd Hw) Hr) as H.
  apply outs_kept_stable.
  - apply fs_wf_uniq. apply (F_wf _ _ H).
  - eapply ctrans_stable; eauto.
Qed.

(* ================================================================== *)
(* (5) finding D10: an entry being written is served as None           *)
(* ================================================================== *)
Fixpoint crun (c : ccfg) (l : list tid) (s : cstate) : option cstate :=
  match l with
  | [] => Some s
  | t :: r => match cstep c s t with Some (s', _) => crun c r s' | None => None end
  end.

Lemma creach_front : forall c s s1 s', ctrans c s s1 -> creach c s1 s' -> creach c s s'.
Proof.
  intros c s s1 s' Ht Hr. induction Hr as [s1|s1 s2 s3 H1 IH H2].
  - eapply cr_step; [apply cr_refl|exact Ht].
  - eapply cr_step; [apply IH; exact Ht|exact H2].
Qed.

Lemma crun_reach : forall c l s s', crun c l s = Some s' -> creach c s s'.
Proof.
  intros c l. induction l as [|t r IH]; intros s s' H; simpl in H.
  - inversion H; subst. apply cr_refl.
  - destruct (cstep c s t) as [[s1 l1]|] eqn:E; [|discriminate].
    eapply creach_front; [eapply ct_step; exact E|apply IH; exact H].
Qed.

(* two workers, calls 1 and 2 identical (same key), no call fails *)
Definition d10_cfg : ccfg := mkCC (mkC 2 (fun _ => false)) (fun i => match i with 2 => 1 | _ => i end).
Definition d10_prog : list op := [OSubmit 1; OSubmit 2].
Definition d10_sched : list tid :=
  [TM; TM; TM;                 (* the client starts W1 and W2 *)
   TW 1; TW 1; TW 2; TW 2;     (* both spawn their process *)
   TM; TM;                     (* submit 1, submit 2 *)
   TW 1; TW 1; TW 1; TW 1;     (* W1: get T1, listdir (miss), set_running, send *)
   TP 1; TP 1; TP 1; TP 1;     (* P1: begin, recv, body, send the result *)
   TW 1; TW 1;                 (* W1: recv, open-a (creates the entry): now inside its dump, no dataset written *)
   TW 2; TW 2; TW 2; TW 2].    (* W2: get T2, listdir (hit), open-r (no output), close *)
Definition d10_state : cstate :=
  match crun d10_cfg d10_sched (cinit 2 d10_prog []) with Some s => s | None => cinit 2 d10_prog [] end.

Example incomplete_entry_served :
  ccanon d10_cfg 2 = ccanon d10_cfg 1 /\
  crun d10_cfg d10_sched (cinit 2 d10_prog []) = Some d10_state /\        (* steps only: no kill *)
  creach d10_cfg (cinit 2 d10_prog []) d10_state /\
  getov d10_state 0 = CDDs 1 1 DFn /\                                      (* W1 is inside its dump of call 1 *)
  fs_get (cfs d10_state) (cpath d10_cfg 2) = Some [] /\                    (* the shared entry has no dataset yet *)
  getf (cb d10_state) 1 = FRunning /\
  exists s', cstep d10_cfg d10_state (TW 2) = Some (s', FL (LSetRes 2 0)) /\ getf (cb s') 2 = FRes 0.
Proof.
  split; [reflexivity|]. split; [vm_compute; reflexivity|]. split; [|split; [|split; [|split]]].
  - apply crun_reach with (l := d10_sched). vm_compute. reflexivity.
  - vm_compute. reflexivity.
  - vm_compute. reflexivity.
  - vm_compute. reflexivity.
  - eexists. split; vm_compute; reflexivity.
Qed.

(* ================================================================== *)
(* (3) the value a future is completed with                            *)
(* ================================================================== *)
(* ------------------------------------------------------------------ *)
(* lists updated at one index                                          *)
(* ------------------------------------------------------------------ *)
Lemma upd_length : forall {A} (l : list A) n x, length (upd l n x) = length l.
Proof. induction l as [|a l IH]; intros [|n] x; simpl; auto. Qed.

Lemma nth_error_upd : forall {A} (l : list A) n x j y,
  nth_error (upd l n x) j = Some y ->
  (j = n /\ y = x /\ n < length l) \/ (j <> n /\ nth_error l j = Some y).
Proof.
  induction l as [|a l IH]; intros [|n] x [|j] y H; simpl in *; try discriminate.
  - inversion H; subst. left. repeat split; lia.
  - right. split; [lia|exact H].
  - right. split; [lia|exact H].
  - destruct (IH n x j y H) as [(E1 & E2 & E3)|(E1 & E2)]; [left; repeat split; auto; lia|right; split; auto].
Qed.

Lemma nth_error_upd_same : forall {A} (l : list A) n x, n < length l -> nth_error (upd l n x) n = Some x.
Proof. induction l as [|a l IH]; intros [|n] x H; simpl in *; try lia; [reflexivity|apply IH; lia]. Qed.

Lemma nth_error_upd_other : forall {A} (l : list A) n x j, j <> n -> nth_error (upd l n x) j = nth_error l j.
Proof.
  induction l as [|a l IH]; intros [|n] x [|j] H; simpl in *; try reflexivity; try lia. apply IH. lia.
Qed.

Lemma In_upd : forall {A} (l : list A) n x y, In y (upd l n x) -> y = x \/ In y l.
Proof.
  intros A l n x y H. apply In_nth_error in H. destruct H as (j & Hj).
  destruct (nth_error_upd _ _ _ _ _ Hj) as [(_ & E & _)|(_ & E)]; [now left|right; eapply nth_error_In; eauto].
Qed.

Lemma nth_upd_other : forall {A} (l : list A) n x j d, j <> n -> nth j (upd l n x) d = nth j l d.
Proof.
  induction l as [|a l IH]; intros [|n] x [|j] d H; simpl in *; try reflexivity; try lia. apply IH. lia.
Qed.

Lemma nth_upd_cases : forall {A} (l : list A) n x j d, nth j (upd l n x) d = x \/ nth j (upd l n x) d = nth j l d.
Proof.
  induction l as [|a l IH]; intros [|n] x [|j] d; simpl; auto.
Qed.


Lemma nth_error_snoc : forall {A} (l : list A) x n y, nth_error (l ++ [x]) n = Some y ->
  nth_error l n = Some y \/ (n = length l /\ y = x).
Proof.
  induction l as [|a l IH]; intros x n y H; simpl in *.
  - destruct n as [|n]; simpl in H; [inversion H; auto|destruct n; discriminate H].
  - destruct n as [|n]; simpl in *; [now left|]. destruct (IH _ _ _ H) as [E|[E1 E2]]; [now left|right; split; [lia|exact E2]].
Qed.

Definition pidle (p : proc) : Prop := (pp p = PBegin \/ pp p = PRecv) /\ inbox p = [] /\ outbox p = [].
Definition pbusy (i : nat) (p : proc) : Prop :=
  ((pp p = PBegin \/ pp p = PRecv) /\ inbox p = [MCall i] /\ outbox p = [])
  \/ ((pp p = PBody i \/ pp p = PSend i) /\ inbox p = [] /\ outbox p = [])
  \/ (pp p = PRecv /\ inbox p = [] /\ (outbox p = [MRes i] \/ outbox p = [MErr])).

(* what a worker thread at [pc] knows about its process *)
Definition wown (pc : wpc) (op : option proc) : Prop :=
  match pc with
  | WGet | WSrnc _ | WCancTd | WSend _ | WTd => exists p, op = Some p /\ pidle p
  | WSetRes i v => v = i /\ exists p, op = Some p /\ pidle p
  | WRecv i => exists p, op = Some p /\ pbusy i p
  | _ => True
  end.
Definition needs_proc (pc : wpc) : bool :=
  match pc with WBegin | WSpawn | WDone | WDead => false | _ => true end.

Record BI (wl : list wthread) (pl : list proc) : Prop := {
  B_p1 : forall j w, nth_error wl j = Some w -> needs_proc (wp w) = true -> 1 <= wproc w;
  B_le : forall j w, nth_error wl j = Some w -> wproc w <= length pl;
  B_dist : forall j j' w w', nth_error wl j = Some w -> nth_error wl j' = Some w' ->
             1 <= wproc w -> wproc w = wproc w' -> j = j';
  B_own : forall j w, nth_error wl j = Some w -> wown (wp w) (nth_error pl (wproc w - 1))
}.

Lemma wown_free : forall pc op, needs_proc pc = false -> wown pc op.
Proof. intros pc op H. destruct pc; simpl in *; try discriminate H; exact I. Qed.

Lemma BI_pc : forall wl pl j w pc' q, BI wl pl -> nth_error wl j = Some w ->
  wown pc' (nth_error pl (wproc w - 1)) -> (needs_proc pc' = true -> 1 <= wproc w) ->
  BI (upd wl j (mkW q (wproc w) pc')) pl.
Proof.
  intros wl pl j w pc' q H Hw Ho Hn. constructor.
  - intros j1 w1 H1 Hn1. destruct (nth_error_upd _ _ _ _ _ H1) as [(E1 & E2 & _)|(E1 & E2)].
    + subst. simpl in *. auto.
    + apply (B_p1 _ _ H _ _ E2 Hn1).
  - intros j1 w1 H1. destruct (nth_error_upd _ _ _ _ _ H1) as [(E1 & E2 & _)|(E1 & E2)].
    + subst. simpl. apply (B_le _ _ H _ _ Hw).
    + apply (B_le _ _ H _ _ E2).
  - intros j1 j2 w1 w2 H1 H2 Hp He.
    destruct (nth_error_upd _ _ _ _ _ H1) as [(E1 & E2 & _)|(E1 & E2)];
      destruct (nth_error_upd _ _ _ _ _ H2) as [(E3 & E4 & _)|(E3 & E4)]; subst; simpl in *.
    + reflexivity.
    + apply (B_dist _ _ H _ _ _ _ Hw E4 Hp He).
    + symmetry. apply (B_dist _ _ H _ _ _ _ Hw E2); [lia|lia].
    + apply (B_dist _ _ H _ _ _ _ E2 E4 Hp He).
  - intros j1 w1 H1. destruct (nth_error_upd _ _ _ _ _ H1) as [(E1 & E2 & _)|(E1 & E2)].
    + subst. simpl. exact Ho.
    + apply (B_own _ _ H _ _ E2).
Qed.

Lemma BI_pc_proc : forall wl pl j w pc' q p', BI wl pl -> nth_error wl j = Some w ->
  1 <= wproc w -> wown pc' (Some p') ->
  BI (upd wl j (mkW q (wproc w) pc')) (upd pl (wproc w - 1) p').
Proof.
  intros wl pl j w pc' q p' H Hw Hp Ho. pose proof (B_le _ _ H _ _ Hw) as Hle. constructor.
  - intros j1 w1 H1 Hn1. destruct (nth_error_upd _ _ _ _ _ H1) as [(E1 & E2 & _)|(E1 & E2)].
    + subst. simpl in *. auto.
    + apply (B_p1 _ _ H _ _ E2 Hn1).
  - intros j1 w1 H1. rewrite upd_length. destruct (nth_error_upd _ _ _ _ _ H1) as [(E1 & E2 & _)|(E1 & E2)].
    + subst. simpl. exact Hle.
    + apply (B_le _ _ H _ _ E2).
  - intros j1 j2 w1 w2 H1 H2 Hp1 He.
    destruct (nth_error_upd _ _ _ _ _ H1) as [(E1 & E2 & _)|(E1 & E2)];
      destruct (nth_error_upd _ _ _ _ _ H2) as [(E3 & E4 & _)|(E3 & E4)]; subst; simpl in *.
    + reflexivity.
    + apply (B_dist _ _ H _ _ _ _ Hw E4 Hp1 He).
    + symmetry. apply (B_dist _ _ H _ _ _ _ Hw E2); [lia|lia].
    + apply (B_dist _ _ H _ _ _ _ E2 E4 Hp1 He).
  - intros j1 w1 H1. destruct (nth_error_upd _ _ _ _ _ H1) as [(E1 & E2 & _)|(E1 & E2)].
    + subst. simpl. rewrite nth_error_upd_same by lia. exact Ho.
    + destruct (needs_proc (wp w1)) eqn:En; [|now apply wown_free].
      pose proof (B_p1 _ _ H _ _ E2 En) as Hp1.
      assert (wproc w1 <> wproc w).
      { intros E. apply E1. apply (B_dist _ _ H _ _ _ _ E2 Hw Hp1 E). }
      rewrite nth_error_upd_other by lia. apply (B_own _ _ H _ _ E2).
Qed.

Lemma BI_spawn : forall wl pl j w q, BI wl pl -> nth_error wl j = Some w ->
  BI (upd wl j (mkW q (S (length pl)) WGet)) (pl ++ [mkP PBegin [] []]).
Proof.
  intros wl pl j w q H Hw. constructor.
  - intros j1 w1 H1 Hn1. destruct (nth_error_upd _ _ _ _ _ H1) as [(E1 & E2 & _)|(E1 & E2)].
    + subst. simpl. lia.
    + apply (B_p1 _ _ H _ _ E2 Hn1).
  - intros j1 w1 H1. rewrite app_length. simpl. destruct (nth_error_upd _ _ _ _ _ H1) as [(E1 & E2 & _)|(E1 & E2)].
    + subst. simpl. lia.
    + pose proof (B_le _ _ H _ _ E2). lia.
  - intros j1 j2 w1 w2 H1 H2 Hp1 He.
    destruct (nth_error_upd _ _ _ _ _ H1) as [(E1 & E2 & _)|(E1 & E2)];
      destruct (nth_error_upd _ _ _ _ _ H2) as [(E3 & E4 & _)|(E3 & E4)]; subst; simpl in *.
    + reflexivity.
    + pose proof (B_le _ _ H _ _ E4). lia.
    + pose proof (B_le _ _ H _ _ E2). lia.
    + apply (B_dist _ _ H _ _ _ _ E2 E4 Hp1 He).
  - intros j1 w1 H1. destruct (nth_error_upd _ _ _ _ _ H1) as [(E1 & E2 & _)|(E1 & E2)].
    + subst. simpl. rewrite Nat.sub_0_r. rewrite nth_error_app2 by lia. rewrite Nat.sub_diag. simpl.
      eexists. split; [reflexivity|]. unfold pidle. simpl. auto.
    + destruct (needs_proc (wp w1)) eqn:En; [|now apply wown_free].
      pose proof (B_p1 _ _ H _ _ E2 En) as Hp1. pose proof (B_le _ _ H _ _ E2) as Hle.
      rewrite nth_error_app1 by lia. apply (B_own _ _ H _ _ E2).
Qed.

Lemma BI_newthread : forall wl pl, BI wl pl -> BI (wl ++ [mkW 0 0 WBegin]) pl.
Proof.
  intros wl pl H. constructor.
  - intros j1 w1 H1 Hn1. destruct (nth_error_snoc _ _ _ _ H1) as [E|[_ E]].
    + apply (B_p1 _ _ H _ _ E Hn1).
    + subst. simpl in Hn1. discriminate.
  - intros j1 w1 H1. destruct (nth_error_snoc _ _ _ _ H1) as [E|[_ E]].
    + apply (B_le _ _ H _ _ E).
    + subst. simpl. lia.
  - intros j1 j2 w1 w2 H1 H2 Hp1 He.
    destruct (nth_error_snoc _ _ _ _ H1) as [E1|[E1 E2]]; destruct (nth_error_snoc _ _ _ _ H2) as [E3|[E3 E4]];
      subst; simpl in *; try lia.
    apply (B_dist _ _ H _ _ _ _ E1 E3 Hp1 He).
  - intros j1 w1 H1. destruct (nth_error_snoc _ _ _ _ H1) as [E|[_ E]].
    + apply (B_own _ _ H _ _ E).
    + subst. simpl. exact I.
Qed.

Lemma BI_proc : forall wl pl k p p', BI wl pl -> nth_error pl k = Some p ->
  (forall pc, wown pc (Some p) -> wown pc (Some p')) -> BI wl (upd pl k p').
Proof.
  intros wl pl k p p' H Hk Hf.
  assert (Hlt : k < length pl) by (apply nth_error_Some; rewrite Hk; discriminate).
  constructor.
  - apply (B_p1 _ _ H).
  - intros j1 w1 H1. rewrite upd_length. apply (B_le _ _ H _ _ H1).
  - apply (B_dist _ _ H).
  - intros j1 w1 H1. pose proof (B_own _ _ H _ _ H1) as Ho.
    destruct (Nat.eq_dec (wproc w1 - 1) k) as [E|E].
    + rewrite E in *. rewrite nth_error_upd_same by exact Hlt. apply Hf. rewrite <- Hk. exact Ho.
    + rewrite nth_error_upd_other by exact E. exact Ho.
Qed.

(* ---------- process steps ---------- *)
Ltac dsolve := solve [ congruence | reflexivity | split; dsolve | left; dsolve | right; dsolve ].
Ltac hsplit :=
  repeat match goal with
         | H : _ \/ _ |- _ => destruct H
         | H : _ /\ _ |- _ => destruct H
         end.

Lemma wown_pstep : forall pc p p', (pidle p -> pidle p') -> (forall i, pbusy i p -> pbusy i p') ->
  wown pc (Some p) -> wown pc (Some p').
Proof.
  intros pc p p' Hi Hb Ho. destruct pc; simpl in *; try exact I.
  all: try (destruct Ho as (p0 & E & Hp); inversion E; subst p0; exists p'; split; [reflexivity|auto]).
  destruct Ho as (Ev & p0 & E & Hp). inversion E; subst p0. split; [exact Ev|]. exists p'. split; [reflexivity|auto].
Qed.

Lemma BI_p_step : forall c b k b' l, BI (ws b) (ps b) -> p_step c b k = Some (b', l) ->
  BI (ws b') (ps b') /\ ws b' = ws b /\ forall i v, l <> LSetRes i v.
Proof.
  intros c b k b' l H Hst. unfold p_step in Hst.
  destruct (nth_error (ps b) (k - 1)) as [p|] eqn:Hp; [|discriminate].
  destruct (Nat.eqb k 0); [discriminate|].
  destruct (pp p) eqn:Hpp; step_cases Hst; inversion Hst; subst; clear Hst;
    (split; [|split; [reflexivity|intros i0 v0 E; discriminate E]]); simpl;
    (eapply BI_proc; [exact H|exact Hp|]); intros pc; apply wown_pstep;
    unfold pidle, pbusy; simpl; intros; hsplit; try congruence; try dsolve.
  match goal with
  | Ha : pp p = PSend ?j, Hb : outbox p = [] |- _ => assert (E : j = i) by congruence; subst j; rewrite Hb
  end.
  simpl. destruct (raises c i); dsolve.
Qed.

(* ---------- client steps ---------- *)
Definition wps (b : state) : list wthread * list proc := (ws b, ps b).

Lemma wps_m_goto : forall s l x cl, wps (m_goto s l x cl) = wps s.
Proof. intros s l x cl. unfold m_goto. destruct (settle _ _ _ _ _) as [[l' acc'] pc]. reflexivity. Qed.

Lemma wps_m_done : forall s x cl, wps (m_done s x cl) = wps s.
Proof. intros s x cl. apply wps_m_goto. Qed.

Lemma wps_m_norm : forall c s, wps (m_norm c s) = wps s.
Proof.
  intros c s. unfold m_norm. destruct (main s) as [| | | | | |w k|k| |]; try reflexivity.
  - destruct k; [|reflexivity]. destruct (cur_wait s); [destruct (Nat.eqb (nworkers c) 0); reflexivity|apply wps_m_done].
  - destruct (Nat.eqb k (nworkers c)); reflexivity.
Qed.

Lemma drain_step_wps : forall s w b' l, drain_step s w = Some (b', l) ->
  wps b' = wps s /\ forall i v, l <> LSetRes i v.
Proof.
  intros s w b' l Hst. unfold drain_step in Hst.
  destruct (qitems (getq s 0)) as [|it r]; [discriminate|].
  destruct it; inversion Hst; subst; clear Hst; (split; [reflexivity|intros i0 v0 E; discriminate E]).
Qed.

Lemma m_step_wps : forall c b b' l, m_step c b = Some (b', l) ->
  (wps b' = wps b \/ wps b' = (ws b ++ [mkW 0 0 WBegin], ps b)) /\ forall i v, l <> LSetRes i v.
Proof.
  intros c b b' l Hst. unfold m_step in Hst.
  step_cases Hst; inversion Hst; subst; clear Hst;
    try match goal with
        | Hd : drain_step _ _ = Some _ |- _ => destruct (drain_step_wps _ _ _ _ Hd) as [Ed Hl]; split; [now left|exact Hl]
        end;
    (split; [|intros i0 v0 E; discriminate E]);
    rewrite ?wps_m_norm, ?wps_m_done, ?wps_m_goto; auto.
Qed.

Lemma BI_m_step : forall c b b' l, BI (ws b) (ps b) -> m_step c b = Some (b', l) ->
  BI (ws b') (ps b') /\ forall i v, l <> LSetRes i v.
Proof.
  intros c b b' l H Hst. destruct (m_step_wps _ _ _ _ Hst) as [[E|E] Hl]; (split; [|exact Hl]);
    unfold wps in E; inversion E as [[E1 E2]]; rewrite E1, E2; [exact H|now apply BI_newthread].
Qed.

(* ---------- worker-thread steps of Model/Exec.v ---------- *)
Lemma getp_nth : forall b k p, nth_error (ps b) (k - 1) = Some p -> getp b k = p.
Proof. intros b k p H. unfold getp. now apply nth_error_nth. Qed.

Lemma BI_w_step : forall c b j b' l, BI (ws b) (ps b) -> w_step c b j = Some (b', l) ->
  BI (ws b') (ps b') /\ (exists w', ws b' = upd (ws b) j w') /\ (forall i v, l = LSetRes i v -> v = i).
Proof.
  intros c b j b' l H Hst. unfold w_step in Hst.
  destruct (nth_error (ws b) j) as [w|] eqn:Hw; [|discriminate].
  pose proof (B_own _ _ H _ _ Hw) as Hown. pose proof (B_p1 _ _ H _ _ Hw) as Hp1.
  destruct (wp w) eqn:Hpc; simpl in Hown, Hp1; step_cases Hst; inversion Hst; subst; clear Hst;
    (split; [|split; [eexists; reflexivity|intros ii vv E; try discriminate E]]); simpl.
  all: try (apply BI_pc; [exact H|exact Hw|simpl; auto|simpl; auto]).
  all: try (apply BI_pc_proc; [exact H|exact Hw|auto|simpl; auto]).
  all: try (eapply BI_spawn; [exact H|exact Hw]).
  all: try (inversion E; subst; tauto).
  all: try tauto.
  all: try match goal with |- wown (if ?x then _ else _) _ => destruct x; exact I end.
  - destruct Hown as (p & Ep & Hi). rewrite (getp_nth _ _ _ Ep) in *. eexists. split; [reflexivity|].
    destruct p as [pp0 in0 out0]. unfold pidle, pbusy in *. simpl in *. hsplit; subst; simpl; dsolve.
  - destruct Hown as (p & Ep & Hi). rewrite (getp_nth _ _ _ Ep) in *.
    destruct p as [pp0 in0 out0]. unfold pidle, pbusy in *. simpl in *. hsplit; subst; try congruence.
    split; [congruence|]. eexists. split; [reflexivity|]. simpl. dsolve.
Qed.

(* ---------- the overlay agrees with the thread's program counter ---------- *)
Definition ov_ok (o : cpc) (pc : wpc) : Prop :=
  match o with
  | CNone => True
  | CLook i | CHitOpen i | CHitRead i | CHitClose _ i | CHitSet _ i => pc = WSrnc i
  | CDOpen i v | CDDs i v _ | CDClose _ i v => pc = WSetRes i v
  end.

Record CI (s : cstate) : Prop := {
  C_b : BI (ws (cb s)) (ps (cb s));
  C_len : forall j, length (ws (cb s)) <= j -> getov s j = CNone;
  C_ov : forall j w, nth_error (ws (cb s)) j = Some w -> ov_ok (getov s j) (wp w)
}.

Lemma upd_same : forall {A} (l : list A) j x, nth_error l j = Some x -> upd l j x = l.
Proof.
  induction l as [|a l IH]; intros [|j] x H; simpl in *; try discriminate; try reflexivity.
  - inversion H; reflexivity.
  - now rewrite IH.
Qed.

Lemma CI_upd : forall s s' j w w' o', CI s -> nth_error (ws (cb s)) j = Some w ->
  ws (cb s') = upd (ws (cb s)) j w' -> BI (ws (cb s')) (ps (cb s')) ->
  cov s' = updov (cov s) j o' -> ov_ok o' (wp w') -> CI s'.
Proof.
  intros s s' j w w' o' H Hw Hws Hb Hcov Hok.
  assert (Hlt : j < length (ws (cb s))) by (apply nth_error_Some; rewrite Hw; discriminate).
  assert (Hgo : forall j', getov s' j' = if Nat.eqb j j' then o' else getov s j').
  { intros j'. unfold getov. rewrite Hcov. apply nth_updov. }
  constructor.
  - exact Hb.
  - intros j' Hj. rewrite Hws, upd_length in Hj. rewrite Hgo.
    destruct (Nat.eqb j j') eqn:E; [apply Nat.eqb_eq in E; lia|]. now apply (C_len _ H).
  - intros j' w1 H1. rewrite Hws in H1. rewrite Hgo.
    destruct (nth_error_upd _ _ _ _ _ H1) as [(E1 & E2 & _)|(E1 & E2)].
    + subst. rewrite Nat.eqb_refl. exact Hok.
    + assert (E : Nat.eqb j j' = false) by (apply Nat.eqb_neq; lia). rewrite E. apply (C_ov _ H _ _ E2).
Qed.

Lemma CI_ov : forall s s' j w o', CI s -> nth_error (ws (cb s)) j = Some w ->
  cb s' = cb s -> cov s' = updov (cov s) j o' -> ov_ok o' (wp w) -> CI s'.
Proof.
  intros s s' j w o' H Hw Hb Hcov Hok. apply (CI_upd s s' j w w o'); auto.
  - rewrite Hb. symmetry. now apply upd_same.
  - rewrite Hb. apply (C_b _ H).
Qed.

Lemma CI_base : forall s b', CI s -> BI (ws b') (ps b') ->
  (ws b' = ws (cb s) \/ ws b' = ws (cb s) ++ [mkW 0 0 WBegin]) -> CI (set_cb s b').
Proof.
  intros s b' H Hb Hws. constructor; simpl.
  - exact Hb.
  - intros j Hj. change (getov (set_cb s b') j) with (getov s j). apply (C_len _ H).
    destruct Hws as [E|E]; rewrite E in Hj; [exact Hj|]. rewrite app_length in Hj. simpl in Hj. lia.
  - intros j w Hw. change (getov (set_cb s b') j) with (getov s j).
    destruct Hws as [E|E]; rewrite E in Hw; [apply (C_ov _ H _ _ Hw)|].
    destruct (nth_error_snoc _ _ _ _ Hw) as [E1|[E1 E2]]; [apply (C_ov _ H _ _ E1)|].
    subst. rewrite (C_len _ H) by lia. exact I.
Qed.

Lemma CI_cw_step : forall c s j s' l, CI s -> cw_step c s j = Some (s', l) ->
  CI s' /\ forall i v, l = FL (LSetRes i v) -> v = 0 \/ v = i \/ v = ccanon c i.
Proof.
  intros c s j s' l H Hst. unfold cw_step in Hst.
  destruct (nth_error (ws (cb s)) j) as [w|] eqn:Hw; [|discriminate].
  pose proof (C_ov _ H _ _ Hw) as Hok. pose proof (C_b _ H) as Hb.
  pose proof (B_own _ _ Hb _ _ Hw) as Hown. pose proof (B_p1 _ _ Hb _ _ Hw) as Hp1.
  assert (Hlt : j < length (ws (cb s))) by (apply nth_error_Some; rewrite Hw; discriminate).
  destruct (getov s j) as [|i|i|i|flag i|flag i|i v|i v d|ok i v] eqn:Hov; simpl in Hok.
  - destruct (w_step (cbase c) (cb s) j) as [[b' l']|] eqn:Hws; [|discriminate]. inversion Hst; subst; clear Hst.
    destruct (BI_w_step _ _ _ _ _ Hb Hws) as (Hb' & (w' & Ew) & Hl). split.
    + eapply (CI_upd s _ j w w' _ H Hw); simpl; [exact Ew|exact Hb'|reflexivity|].
      rewrite Ew, nth_error_upd_same by exact Hlt.
      destruct (wp w); simpl; try exact I; destruct (wp w'); simpl; try exact I; reflexivity.
    + intros i v E. inversion E; subst. right. left. now apply (Hl i v).
  - destruct (fs_has (cfs s) (cpath c i)); inversion Hst; subst; clear Hst;
      (split; [|intros i0 v0 E; discriminate E]); (eapply CI_ov; [exact H|exact Hw|reflexivity|reflexivity|simpl; auto]).
  - destruct (fs_get (cfs s) (cpath c i)) as [l0|]; inversion Hst; subst; clear Hst;
      (split; [|intros i0 v0 E; discriminate E]).
    + eapply CI_ov; [exact H|exact Hw|reflexivity|reflexivity|]. destruct (has_ds DOut l0); simpl; auto.
    + apply (CI_upd s _ j w (mkW (wq w) (wproc w) WDead) CNone H Hw); simpl; [reflexivity| |reflexivity|exact I].
      apply BI_pc; [exact Hb|exact Hw|exact I|intros E; discriminate E].
  - inversion Hst; subst; clear Hst. (split; [|intros i0 v0 E; discriminate E]).
    eapply CI_ov; [exact H|exact Hw|reflexivity|reflexivity|simpl; auto].
  - inversion Hst; subst; clear Hst. (split; [|intros i0 v0 E; discriminate E]).
    eapply CI_ov; [exact H|exact Hw|reflexivity|reflexivity|simpl; auto].
  - rewrite Hok in Hown. simpl in Hown.
    assert (Hv : forall i0 v0, FL (LSetRes i (if flag then ccanon c i else 0)) = FL (LSetRes i0 v0) ->
                 v0 = 0 \/ v0 = i0 \/ v0 = ccanon c i0).
    { intros i0 v0 E. inversion E; subst. destruct flag; auto. }
    destruct (getf (cb s) i); inversion Hst; subst; clear Hst; (split; [|exact Hv]).
    all: try (apply (CI_upd s _ j w (mkW (wq w) (wproc w) WDead) CNone H Hw); simpl; [reflexivity| |reflexivity|exact I];
              apply BI_pc; [exact Hb|exact Hw|exact I|intros E; discriminate E]).
    all: apply (CI_upd s _ j w (mkW (wq w) (wproc w) WTd) CNone H Hw); simpl; [reflexivity| |reflexivity|exact I];
           (apply BI_pc; [exact Hb|exact Hw|exact Hown|]); intros _; apply Hp1; rewrite Hok; reflexivity.
  - destruct (fs_has (cfs s) (cpath c i)); inversion Hst; subst; clear Hst;
      (split; [|intros i0 v0 E; discriminate E]); (eapply CI_ov; [exact H|exact Hw|reflexivity|reflexivity|simpl; auto]).
  - destruct (fs_get (cfs s) (cpath c i)) as [l0|].
    + destruct (has_ds d l0); inversion Hst; subst; clear Hst;
        (split; [|intros i0 v0 E; discriminate E]); (eapply CI_ov; [exact H|exact Hw|reflexivity|reflexivity|]);
        [simpl; auto|]. destruct (next_ds d); simpl; auto.
    + inversion Hst; subst; clear Hst. (split; [|intros i0 v0 E; discriminate E]).
      eapply CI_ov; [exact H|exact Hw|reflexivity|reflexivity|simpl; auto].
  - destruct ok; inversion Hst; subst; clear Hst; (split; [|intros i0 v0 E; discriminate E]).
    + eapply CI_ov; [exact H|exact Hw|reflexivity|reflexivity|exact I].
    + apply (CI_upd s _ j w (mkW (wq w) (wproc w) (WEPoll i)) CNone H Hw); simpl; [reflexivity| |reflexivity|exact I].
      apply BI_pc; [exact Hb|exact Hw|exact I|]. intros _. apply Hp1. rewrite Hok. reflexivity.
Qed.

Lemma CI_cstep : forall c s t s' l, CI s -> cstep c s t = Some (s', l) ->
  CI s' /\ forall i v, l = FL (LSetRes i v) -> v = 0 \/ v = i \/ v = ccanon c i.
Proof.
  intros c s t s' l H Hst. destruct t as [| | |j|k]; simpl in Hst; try discriminate Hst.
  - destruct (m_step (cbase c) (cb s)) as [[b l1]|] eqn:Hm; [|discriminate]. inversion Hst; subst; clear Hst.
    destruct (BI_m_step _ _ _ _ (C_b _ H) Hm) as [Hb Hl]. destruct (m_step_wps _ _ _ _ Hm) as [Hw _]. split.
    + apply CI_base; [exact H|exact Hb|].
      destruct Hw as [E|E]; unfold wps in E; inversion E as [[E1 E2]]; auto.
    + intros i v E. inversion E; subst. exfalso. apply (Hl i v). reflexivity.
  - destruct j as [|j]; [discriminate|]. eapply CI_cw_step; eauto.
  - destruct (p_step (cbase c) (cb s) k) as [[b l1]|] eqn:Hp; [|discriminate]. inversion Hst; subst; clear Hst.
    destruct (BI_p_step _ _ _ _ _ (C_b _ H) Hp) as (Hb & Hw & Hl). split.
    + apply CI_base; [exact H|exact Hb|now left].
    + intros i v E. inversion E; subst. exfalso. apply (Hl i v). reflexivity.
Qed.

Lemma CI_kill : forall s j, CI s -> CI (kill_worker s j).
Proof.
  intros s j H. unfold kill_worker. destruct (nth_error (ws (cb s)) j) as [w|] eqn:Hw; [|exact H].
  apply (CI_upd s _ j w (mkW (wq w) (wproc w) WDone) CNone H Hw); simpl; [reflexivity| |reflexivity|exact I].
  apply BI_pc; [apply (C_b _ H)|exact Hw|exact I|intros E; discriminate E].
Qed.

Lemma CI_ctrans : forall c s s', CI s -> ctrans c s s' -> CI s'.
Proof.
  intros c s s' H Ht. destruct Ht as [s t s' l Hst|s j].
  - apply (CI_cstep _ _ _ _ _ H Hst).
  - now apply CI_kill.
Qed.

Lemma CI_init : forall n prog fs0, CI (cinit n prog fs0).
Proof.
  intros n prog fs0. constructor; simpl.
  - constructor.
    + intros j w Hw. destruct j; discriminate Hw.
    + intros j w Hw. destruct j; discriminate Hw.
    + intros j j' w w' Hw. destruct j; discriminate Hw.
    + intros j w Hw. destruct j; discriminate Hw.
  - intros j _. unfold getov. simpl. destruct j; reflexivity.
  - intros j w Hw. destruct j; discriminate Hw.
Qed.

Lemma CI_reach : forall c s0 s, CI s0 -> creach c s0 s -> CI s.
Proof.
  intros c s0 s H Hr. induction Hr as [s|s s' s'' H1 IH H2]; [exact H|].
  eapply CI_ctrans; [apply IH; exact H|exact H2].
Qed.

(* (3), general form: the value is None, the call's own value (computed by its process), or the
   value of the call's key (served from the cache) *)
Theorem served_value_gen : forall c n prog fs0 s t s' i v,
  creach c (cinit n prog fs0) s -> cstep c s t = Some (s', FL (LSetRes i v)) ->
  v = 0 \/ v = i \/ v = ccanon c i.
Proof.
  intros c n prog fs0 s t s' i v Hr Hst. pose proof (CI_reach _ _ _ (CI_init n prog fs0) Hr) as H.
  destruct (CI_cstep _ _ _ _ _ H Hst) as [_ Hl]. now apply Hl.
Qed.

(* (3) as asked, for an idempotent canonicalisation *)
Theorem served_value : forall c n prog fs0 s t s' i v,
  (forall k, ccanon c (ccanon c k) = ccanon c k) ->
  creach c (cinit n prog fs0) s -> cstep c s t = Some (s', FL (LSetRes i v)) ->
  v = 0 \/ ccanon c v = ccanon c i.
Proof.
  intros c n prog fs0 s t s' i v Hc Hr Hst.
  destruct (served_value_gen _ _ _ _ _ _ _ _ _ Hr Hst) as [E|[E|E]]; subst; auto.
Qed.

(* (3) as asked does NOT hold for every [ccanon]: on the hit path the value served is [ccanon c i],
   the representative of the call's key, and  ccanon c (ccanon c i) = ccanon c i  needs idempotence.
   One worker, one call, a complete entry for the call's key in the initial directory. *)
Definition ce3_cfg : ccfg := mkCC (mkC 1 (fun _ => false)) S.
Definition ce3_prog : list op := [OSubmit 1].
Definition ce3_fs : fsys := [(cpath ce3_cfg 1, full_entry)].
Definition ce3_sched : list tid :=
  [TM; TM; TW 1; TW 1; TM;          (* start W1, spawn, submit 1 *)
   TW 1; TW 1; TW 1; TW 1; TW 1].   (* get T1, listdir (hit), open-r, read output, close *)
Definition ce3_state : cstate :=
  match crun ce3_cfg ce3_sched (cinit 1 ce3_prog ce3_fs) with Some s => s | None => cinit 1 ce3_prog ce3_fs end.

Example served_value_needs_idem :
  dir_ok ce3_fs = true /\ fs_wf ce3_fs /\
  creach ce3_cfg (cinit 1 ce3_prog ce3_fs) ce3_state /\
  exists s', cstep ce3_cfg ce3_state (TW 1) = Some (s', FL (LSetRes 1 2)) /\
    ~ (2 = 0 \/ ccanon ce3_cfg 2 = ccanon ce3_cfg 1).
Proof.
  split; [reflexivity|]. split; [|split].
  - unfold fs_wf. simpl. constructor; [intros []|constructor].
  - apply crun_reach with (l := ce3_sched). vm_compute. reflexivity.
  - eexists. split; [vm_compute; reflexivity|]. simpl. intros [E|E]; discriminate E.
Qed.

(* ================================================================== *)
Print Assumptions none_only_from_incomplete.
Print Assumptions dir_inv.
Print Assumptions completed_never_altered.
Print Assumptions incomplete_entry_served.
Print Assumptions served_value_gen.
Print Assumptions served_value.
Print Assumptions served_value_needs_idem.
