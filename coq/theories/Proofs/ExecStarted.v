(* C06: a call that has started (its future is running or finished) is never turned into a cancelled
   one - by cancel(), by shutdown(cancel_futures=True) or by anything else - under any step of any
   thread of the block-allocation model (Model/Exec.v).  Companion of ExecSafe.cancelled_stays. *)
From Coq Require Import List Bool Arith Lia.
From EL Require Import Model.Exec Model.ExecInv Proofs.ExecSafe.
Import ListNotations.

Definition started (f : fstate) : Prop := f = FRunning \/ (exists v, f = FRes v) \/ f = FExc.

Lemma fcancel_started : forall f f' b, fcancel f = (f', b) -> started f -> started f'.
Proof.
  intros f f' b E [H|[[v H]|H]]; subst f; inversion E; subst; unfold started; eauto.
Qed.

Lemma m_step_futs_started : forall c s s' l, m_step c s = Some (s', l) ->
  futs s' = futs s \/ exists i f', futs s' = upd (futs s) (i - 1) f' /\ (started (getf s i) -> started f').
Proof.
  intros c s s' l H. unfold m_step in H.
  destruct (main s) eqn:Hm; destr_all H.
  all: try solve [inversion H; subst; clear H; autorewrite with flds; simpl; left; reflexivity].
  all: try solve [inversion H; subst; clear H; left; eapply drain_futs; eauto].
  all: inversion H; subst; clear H; autorewrite with flds; simpl; right.
  - exists i, f. split; [reflexivity|]. eapply fcancel_started; eauto.
  - exists j, f. split; [reflexivity|]. eapply fcancel_started; eauto.
Qed.

Lemma w_step_futs_started : forall c s j s' l, w_step c s j = Some (s', l) ->
  futs s' = futs s \/ exists i f', futs s' = upd (futs s) (i - 1) f' /\ (started (getf s i) -> started f').
Proof.
  intros c s j s' l H. unfold w_step in H.
  destruct (nth_error (ws s) j) as [w|] eqn:Hj; [|discriminate].
  cbv zeta in H.
  destruct (wp w) eqn:Hpc; destr_all H.
  all: try solve [inversion H; subst; clear H; simpl; left; reflexivity].
  all: inversion H; subst; clear H; simpl; right.
  all: exists i; eexists; (split; [reflexivity|]).
  all: try solve [intros _; unfold started; eauto].
  all: match goal with Hf : getf _ _ = _ |- _ =>
         let E := fresh "E" in intros [E|[[v E]|E]]; rewrite E in Hf; try discriminate Hf end.
Qed.

Theorem started_never_cancelled : forall c s t s' l i,
  step c s t = Some (s', l) -> started (getf s i) -> started (getf s' i).
Proof.
  intros c s t s' l i Hst Hc.
  assert (Hf : futs s' = futs s \/ exists i0 f', futs s' = upd (futs s) (i0 - 1) f' /\ (started (getf s i0) -> started f')).
  { destruct t as [| | |j|k]; simpl in Hst; try discriminate.
    - eapply m_step_futs_started; eauto.
    - destruct j as [|j]; [discriminate|]. eapply w_step_futs_started; eauto.
    - left. eapply p_step_futs; eauto. }
  unfold getf in *. destruct Hf as [Hf|(i0 & f' & Hf & Hcc)]; rewrite Hf; [exact Hc|].
  destruct (nth_upd_cases _ (futs s) (i - 1) (i0 - 1) f' FPending) as [(E & L & Hx)|(E & Hx)]; rewrite Hx.
  - apply Hcc. rewrite <- E. exact Hc.
  - exact Hc.
Qed.

(* in particular it is never cancelled afterwards *)
Corollary started_not_cancelled : forall c s t s' l i,
  step c s t = Some (s', l) -> started (getf s i) -> getf s' i <> FCancelled /\ getf s' i <> FCancelledN.
Proof.
  intros c s t s' l i Hst Hc. pose proof (started_never_cancelled c s t s' l i Hst Hc) as [H|[[v H]|H]]; rewrite H; split; discriminate.
Qed.
