(* C06: a call that has started (its future is running or finished) is never turned into a cancelled
   one - by cancel(), by shutdown(cancel_futures=True) or by anything else - under any step of any
   thread of the block-allocation model (Model/Exec.v).  Companion of ExecSafe.cancelled_stays. *)
From Coq Require Import List Bool Arith Lia.
From EL Require Import Model.Exec Model.ExecInv Proofs.ExecSafe.
Import ListNotations.

Definition started (f : fstate) : Prop := f = FRunning \/ (exists v, f = FRes v) \/ f = FExc.

Lemma fcancel_started : forall f f' b, fcancel f = (f', b) -> started f -> started f'.
Proof.
  intros f f' b E [H|[[v H]|H]]; subst f; inversion E; subst; unfold started; eauto.
Qed.

Lemma m_step_futs_started : forall c s s' l, m_step c s = Some (s', l) ->
  futs s' = futs s \/ exists i f', futs s' = upd (futs s) (i - 1) f' /\ (started (getf s i) -> started f').
Proof.
  intros c s s' l H. unfold m_step in H.
  destruct (main s) eqn:Hm; destr_all H.
  all: try solve [inversion H; subst; clear H; autorewrite with flds; simpl; left; reflexivity].
  all: try solve [inversion H; subst; clear H; left; eapply drain_futs; eauto].
  all: inversion H; subst; clear H; autorewrite with flds; simpl; right.
  - exists i, f. split; [reflexivity|]. eapply fcancel_started; eauto.
  - exists j, f. split; [reflexivity|]. eapply fcancel_started; eauto.
Qed.

Lemma w_step_futs_started : forall c s j s' l, w_step c s j = Some (s', l) ->
  futs s' = futs s \/ exists i f', futs s' = upd (futs s) (i - 1) f' /\ (started (getf s i) -> started f').
Proof.
  intros c s j s' l H. unfold w_step in H.
  destruct (nth_error (ws s) j) as [w|] eqn:Hj; [|discriminate].
  cbv zeta in H.
  destruct (wp w) eqn:Hpc; destr_all H.
  all: try solve [inversion H; subst; clear H; simpl; left; reflexivity].
  all: inversion H; subst; clear H; simpl; right.
  all: exists i; eexists; (split; [reflexivity|]).
  all: try solve [intros _; unfold started; eauto].
  all: match goal with Hf : getf _ _ = _ |- _ =>
         let E := fresh "E" in intros [E|[[v E]|E]]; rewrite E in Hf; try discriminate Hf end.
Qed.

Theorem started_never_cancelled : forall c s t s' l i,
  step c s t = Some (s', l) -> started (getf s i) -> started (getf s' i).
Proof.
  intros c s t s' l i Hst Hc.
  assert (Hf : futs s' = futs s \/ exists i0 f', futs s' = upd (futs s) (i0 - 1) f' /\ (started (getf s i0) -> started f')).
  { destruct t as [| | |j|k]; simpl in Hst; try discriminate.
    - eapply m_step_futs_started; eauto.
    - destruct j as [|j]; [discriminate|]. eapply w_step_futs_started; eauto.
    - left. eapply p_step_futs; eauto. }
  unfold getf in *. destruct Hf as [Hf|(i0 & f' & Hf & Hcc)]; rewrite Hf; [exact Hc|].
  destruct (nth_upd_cases _ (futs s) (i - 1) (i0 - 1) f' FPending) as [(E & L & Hx)|(E & Hx)]; rewrite Hx.
  - apply Hcc. rewrite <- E. exact Hc.
  - exact Hc.
Qed.

(* in particular it is never cancelled afterwards *)
Corollary started_not_cancelled : forall c s t s' l i,
  step c s t = Some (s', l) -> started (getf s i) -> getf s' i <> FCancelled /\ getf s' i <> FCancelledN.
Proof.
  intros c s t s' l i Hst Hc. pose proof (started_never_cancelled c s t s' l i Hst Hc) as [H|[[v H]|H]]; rewrite H; split; discriminate.
Qed.

(* ---- the same for the per-call executor (Model/StepExec.v) and for the dependency resolver in front
   of either executor (Model/DepExec.v) ---- *)
From EL Require Import Model.StepExec Model.DepExec Proofs.StepSafe Proofs.DepSafe Proofs.Fidelity.

Definition smove (s s' : state) : Prop :=
  futs s' = futs s \/
  exists i f, futs s' = upd (futs s) (i - 1) f /\ (started (getf s i) -> started f).

Lemma smove_started : forall s s' i, smove s s' -> started (getf s i) -> started (getf s' i).
Proof.
  intros s s' i [E|(i0 & f & E & Hc)] H; unfold getf in *; rewrite E; [exact H|].
  destruct (ExecSafe.nth_upd_cases _ (futs s) (i - 1) (i0 - 1) f FPending) as [(E1 & L & Hx)|(E1 & Hx)]; rewrite Hx.
  - apply Hc. rewrite <- E1. exact H.
  - exact H.
Qed.

Lemma fshape_smove : forall s s', fshape s s' -> smove s s'.
Proof.
  intros s s' [E|[i E]]; [left; exact E|]. right. exists i, (fst (fcancel (getf s i))).
  split; [exact E|]. intros H. destruct (fcancel (getf s i)) as [f' b] eqn:Ec. simpl.
  eapply fcancel_started; eauto.
Qed.

Theorem step_started_stays : forall c x t x' l i,
  xstep c x t = Some (x', l) -> started (getf (base x) i) -> started (getf (base x') i).
Proof.
  intros c x t x' l i Hst Hc. destruct t as [| | |j|k]; simpl in Hst.
  - eapply (smove_started (base x) (base x')); [|exact Hc].
    apply fshape_smove. eapply xm_step_fshape; exact Hst.
  - discriminate Hst.
  - destruct (d_step_frame _ _ _ _ _ Hst) as (_ & _ & Ef). unfold getf in *. rewrite Ef. exact Hc.
  - destruct j as [|j]; [discriminate Hst|].
    destruct (w_step (bcfg c) (base x) j) as [[b l']|] eqn:Hw; [|discriminate Hst].
    inversion Hst; subst; clear Hst. simpl.
    eapply (started_never_cancelled (bcfg c) (base x) (TW (S j)) b _ i); [simpl; exact Hw|exact Hc].
  - destruct (p_step (bcfg c) (base x) k) as [[b l']|] eqn:Hp; [|discriminate Hst].
    inversion Hst; subst; clear Hst. simpl.
    eapply (started_never_cancelled (bcfg c) (base x) (TP k) b _ i); [simpl; exact Hp|exact Hc].
Qed.

Lemma r_step_smove : forall c d d' l, r_step c d = Some (d', l) -> smove (dbase d) (dbase d').
Proof.
  intros c d d' l H. unfold r_step in H. cbv zeta in H.
  destruct (rp d); dall H; inversion H; subst; clear H; xsn; simpl.
  all: first [ left; reflexivity
             | right; eexists; eexists; split; [reflexivity|];
               intros [E|[[v E]|E]]; first [congruence | unfold started; eauto] ].
Qed.

Lemma dm_step_smove : forall c d d' l, dm_step c d = Some (d', l) -> smove (dbase d) (dbase d').
Proof.
  intros c d d' l H. unfold dm_step in H. cbv zeta in H. unfold dbase.
  assert (Hxm :
      match xm_step (dx c) (xs d) with Some (x', l0) => Some (set_xs d x', l0) | None => None end = Some (d', l) ->
      smove (base (xs d)) (base (xs d'))).
  { intros Hx. destruct (xm_step (dx c) (xs d)) as [[x' l0]|] eqn:Hxs; [|discriminate Hx].
    inversion Hx; subst. simpl. apply fshape_smove. eapply xm_step_fshape; exact Hxs. }
  destruct (main (base (xs d))) eqn:Hm; try (apply Hxm; exact H).
  - destruct (dinner c) as [[|n]|]; inversion H; subst; simpl; left; reflexivity.
  - destruct (dinner c) as [n|].
    + destruct (Nat.ltb k n); inversion H; subst; simpl; left; [reflexivity|apply ExecSafe.m_goto_futs].
    + destruct k; inversion H; subst; simpl; left; [reflexivity|apply ExecSafe.m_goto_futs].
  - destruct (rdone (rp d)); [|discriminate H]. destruct (rp d); inversion H; subst; simpl;
    unfold smove; rewrite ?ExecSafe.m_done_futs; left; reflexivity.
Qed.

Theorem dep_started_stays : forall c d t d' l i,
  dstep c d t = Some (d', l) -> started (getf (dbase d) i) -> started (getf (dbase d') i).
Proof.
  intros c d t d' l i Hst Hc. destruct t as [| | |j|k]; simpl in Hst.
  - eapply (smove_started _ _ i (dm_step_smove _ _ _ _ Hst)); exact Hc.
  - eapply (smove_started _ _ i (r_step_smove _ _ _ _ Hst)); exact Hc.
  - destruct (dinner c); [discriminate Hst|].
    destruct (d_step (dx c) 1 (xs d)) as [[x' l']|] eqn:Hd; [|discriminate Hst].
    inversion Hst; subst; clear Hst. unfold dbase in *. simpl.
    destruct (d_step_frame _ _ _ _ _ Hd) as (_ & _ & Ef). unfold getf in *. rewrite Ef. exact Hc.
  - destruct j as [|j]; [discriminate Hst|].
    destruct (w_step (bcfg (dx c)) (dbase d) j) as [[b l']|] eqn:Hw; [|discriminate Hst].
    inversion Hst; subst; clear Hst. unfold dbase in *. simpl.
    eapply (started_never_cancelled (bcfg (dx c)) (base (xs d)) (TW (S j)) b _ i); [simpl; exact Hw|exact Hc].
  - destruct (p_step (bcfg (dx c)) (dbase d) k) as [[b l']|] eqn:Hp; [|discriminate Hst].
    inversion Hst; subst; clear Hst. unfold dbase in *. simpl.
    eapply (started_never_cancelled (bcfg (dx c)) (base (xs d)) (TP k) b _ i); [simpl; exact Hp|exact Hc].
Qed.
