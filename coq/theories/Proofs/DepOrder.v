(* Order of execution behind the dependency resolver with one block-allocation worker (Model/DepExec.v).
   Statement: Model/DepOrderSpec.v (order_ok), tested on 800 replayed implementation traces. *)
From Coq Require Import List Bool Arith Lia.
From EL Require Import Model.Exec Model.ExecInv Model.StepExec Model.DepExec Model.DepOrderSpec.
From EL Require Import Proofs.ExecSafe Proofs.ExecOrder Proofs.StepSafe Proofs.DepSafe.
From EL Require Proofs.Fidelity Proofs.DepMeasure.
Import ListNotations.

(* reachability with history (newest entry first) *)
Inductive dreach_h (c : dcfg) (d0 : dstate) : dstate -> hist -> Prop :=
| dh_init : dreach_h c d0 d0 []
| dh_step : forall d h t d' l, dreach_h c d0 d h -> dstep c d t = Some (d', l) -> dreach_h c d0 d' ((d, t, l) :: h).

Lemma dreach_h_dreach : forall c d0 d h, dreach_h c d0 d h -> dreach c d0 d.
Proof. intros c d0 d h H. induction H; [constructor|econstructor; eauto]. Qed.

(* ================= subseq (inductive) -> subseqb ================= *)
Lemma subseqb_nil : forall l, subseqb [] l = true.
Proof. intros l. destruct l; reflexivity. Qed.

Lemma subseqb_tail : forall l y a, subseqb (y :: a) l = true -> subseqb a l = true.
Proof.
  induction l as [|z l IH]; intros y a H; simpl in H; [discriminate|].
  destruct a as [|w a']; [reflexivity|]. simpl.
  destruct (Nat.eqb y z).
  - destruct (Nat.eqb w z); [eapply IH; exact H|exact H].
  - apply IH in H. destruct (Nat.eqb w z); [eapply IH; exact H|exact H].
Qed.

Lemma subseq_subseqb : forall a l, subseq a l -> subseqb a l = true.
Proof.
  intros a l H. induction H as [l|a l x H IH|a l x H IH].
  - apply subseqb_nil.
  - destruct a as [|y a']; [reflexivity|]. simpl. destruct (Nat.eqb y x); [|exact IH].
    eapply subseqb_tail; exact IH.
  - simpl. rewrite Nat.eqb_refl. exact IH.
Qed.

(* ================= the history functions, one entry at a time ================= *)
Definition ebody (e : dstate * tid * label) : list nat := match snd e with LBody i => [i] | _ => [] end.
Definition efwd (e : dstate * tid * label) : list nat :=
  match e with (_, TR, LPut 1 (Task i)) => [i] | _ => [] end.
Definition edir (e : dstate * tid * label) : list nat :=
  match e with
  | (d, TR, LPut 1 (Task i)) => match rp d with RFwd _ KTd => [i] | _ => [] end
  | _ => []
  end.

Lemma hbodies_cons : forall e h, hbodies (e :: h) = hbodies h ++ ebody e.
Proof. intros e h. unfold hbodies. simpl rev. rewrite flat_map_app. simpl. rewrite app_nil_r. reflexivity. Qed.
Lemma hforwards_cons : forall e h, hforwards (e :: h) = hforwards h ++ efwd e.
Proof. intros e h. unfold hforwards. simpl rev. rewrite flat_map_app. simpl. rewrite app_nil_r. reflexivity. Qed.
Lemma hdirect_cons : forall e h, hdirect (e :: h) = hdirect h ++ edir e.
Proof. intros e h. unfold hdirect. simpl rev. rewrite flat_map_app. simpl. rewrite app_nil_r. reflexivity. Qed.

Lemma efwd_notR : forall d t l, t <> TR -> efwd (d, t, l) = [].
Proof. intros d t l H. destruct t; try reflexivity. congruence. Qed.
Lemma edir_notR : forall d t l, t <> TR -> edir (d, t, l) = [].
Proof. intros d t l H. destruct t; try reflexivity. congruence. Qed.

Lemma ebody_not : forall d t l, (forall i, l <> LBody i) -> ebody (d, t, l) = [].
Proof. intros d t l H. unfold ebody. simpl. destruct l; try reflexivity. exfalso. eapply H. reflexivity. Qed.

(* ================= part 2: direct forwards are in submission order ================= *)
Definition cur (r : rpc) : list nat :=
  match r with
  | RFwd i KTd | RRes i _ KTd | RCheck i _ _ => [i]
  | _ => []
  end.

Lemma cur_inner_shut : forall c d w, cur (rp (inner_shut_start c d w)) = [].
Proof. intros c d w. unfold inner_shut_start. destruct (dinner c); reflexivity. Qed.
Lemma cur_start_pass : forall c d a, cur (rp (start_pass c d a)) = [].
Proof.
  intros c d a. unfold start_pass. destruct (rwait d) as [|[j dj] rest]; [|reflexivity].
  destruct a; [reflexivity|apply cur_inner_shut].
Qed.
Lemma cur_scan_next : forall c d pre post n0 a, cur (rp (scan_next c d pre post n0 a)) = [].
Proof.
  intros c d pre post n0 a. unfold scan_next. destruct post as [|[j dj] rest]; [|reflexivity].
  destruct a; destruct (Nat.eqb (length pre) n0); try reflexivity. apply cur_start_pass.
Qed.
Lemma cur_kont : forall c d k, cur (rp (kont c d k)) = [].
Proof. intros c d k. destruct k; [reflexivity|apply cur_scan_next]. Qed.
Lemma cur_aid : forall d i deps k, cur (rp (after_inputs_done d i deps k)) = match k with KTd => [i] | _ => [] end.
Proof. intros d i deps k. unfold after_inputs_done. destruct deps; destruct k; reflexivity. Qed.

Lemma q0_qpop0 : forall s, q0 (qpop s 0) = tl (q0 s).
Proof. intros s. unfold q0, qpop, getq, set_queues. simpl. destruct (queues s); reflexivity. Qed.
Lemma q0_qtd0 : forall s, q0 (qtd s 0) = q0 s.
Proof. intros s. unfold q0, qtd, getq, set_queues. simpl. destruct (queues s); reflexivity. Qed.
Lemma q0_qput_S : forall s q it, q0 (qput s (S q) it) = q0 s.
Proof. intros s q it. unfold q0, qput, getq, set_queues. simpl. destruct (queues s); reflexivity. Qed.
Lemma q0_qpop_S : forall s q, q0 (qpop s (S q)) = q0 s.
Proof. intros s q. unfold q0, qpop, getq, set_queues. simpl. destruct (queues s); reflexivity. Qed.
Lemma q0_qtd_S : forall s q, q0 (qtd s (S q)) = q0 s.
Proof. intros s q. unfold q0, qtd, getq, set_queues. simpl. destruct (queues s); reflexivity. Qed.

Lemma r_step_dir : forall c d d' l, r_step c d = Some (d', l) ->
  subm (dbase d') = subm (dbase d) /\
  subseq (edir (d, TR, l) ++ cur (rp d') ++ qtasks (q0 (dbase d'))) (cur (rp d) ++ qtasks (q0 (dbase d))).
Proof.
  intros c d d' l H. unfold r_step in H. cbv zeta in H.
  destruct (rp d) eqn:Hrp; destr_all H; try discriminate H; inversion H; subst; clear H; unfold edir; rewrite ?Hrp;
  unfold dbase; rewrite ?xs_kont, ?xs_start_pass, ?xs_scan_next, ?xs_after_inputs_done, ?xs_inner_shut_start,
     ?cur_kont, ?cur_start_pass, ?cur_scan_next, ?cur_aid, ?cur_inner_shut;
  cbn [xs rp set_rp set_dbase set_xs set_base base subm cur app];
  (split; [reflexivity|]).
  all: rewrite ?q0_qpop0, ?q0_qtd0, ?q0_qput_S.
  all: try apply subseq_refl.
  all: try (apply qtasks_tl).
  all: try (apply ss_skip; apply subseq_refl).
  all: try (apply subseq_app_r; apply subseq_refl).
  all: change (q0 (base (xs d))) with (qitems (getq (dbase d) 0)); rewrite Heql0; simpl; apply subseq_refl.
Qed.

(* the client *)
Lemma q0_xm_norm : forall x, q0 (base (xm_norm x)) = q0 (base x) /\ subm (base (xm_norm x)) = subm (base x).
Proof.
  intros x. unfold xm_norm. cbv zeta. destruct (main (base x)) as [| | | | | |w k|k| |]; auto.
  - destruct k; auto. destruct (cur_wait (base x)); simpl; auto.
    rewrite q0_m_done, m_done_subm. auto.
  - destruct k; auto.
Qed.

Lemma q0_qput0 : forall s it, queues s <> [] -> q0 (qput s 0 it) = q0 s ++ [it].
Proof. intros s it H. unfold q0, qput, getq, set_queues. simpl. destruct (queues s); [congruence|reflexivity]. Qed.

Lemma q0_set_main : forall s m, q0 (set_main s m) = q0 s.
Proof. reflexivity. Qed.
Lemma q0_set_futs : forall s f, q0 (set_futs s f) = q0 s.
Proof. reflexivity. Qed.

Lemma xm_step_meff : forall c x x' l, xm_step c x = Some (x', l) -> queues (base x) <> [] ->
  main (base x) <> MBegin -> (forall k, main (base x) <> MStart k) ->
  m_eff (base x) (base x').
Proof.
  intros c x x' l H Hq Hn1 Hn2.
  assert (Hsame : forall b, subm b = subm (base x) -> q0 b = q0 (base x) -> m_eff (base x) b).
  { intros b E1 E2. right. split; [exact E1|]. left. exact E2. }
  assert (Hshut : forall b w, subm b = subm (base x) -> q0 b = q0 (base x) ++ [Shut w] -> m_eff (base x) b).
  { intros b w E1 E2. right. split; [exact E1|]. right. left. exists w. exact E2. }
  assert (Htl : forall b, subm b = subm (base x) -> q0 b = tl (q0 (base x)) -> m_eff (base x) b).
  { intros b E1 E2. right. split; [exact E1|]. right. right. exact E2. }
  unfold xm_step in H. cbv zeta in H.
  destruct (main (base x)) eqn:Hm; try congruence; try (exfalso; eapply Hn2; reflexivity);
  destr_all H; try discriminate H; inversion H; subst; clear H; cbn [base set_base];
  try match goal with Hd : drain_step _ _ = Some _ |- _ =>
        destruct (drain_eff _ _ _ _ Hd Hq) as (_ & E1 & E2); apply Htl; [exact E1|exact E2] end;
  try (first [ solve [apply Hsame; rewrite ?(proj1 (q0_xm_norm _)), ?(proj2 (q0_xm_norm _)), ?q0_m_done, ?m_done_subm;
                       cbn [base set_base]; rewrite ?q0_set_main, ?q0_set_futs, ?q0_qtd0; reflexivity]
             | solve [eapply Hshut; rewrite ?(proj1 (q0_xm_norm _)), ?(proj2 (q0_xm_norm _)), ?q0_m_done, ?m_done_subm;
                       cbn [base set_base]; rewrite ?q0_set_main, ?q0_set_futs; rewrite ?q0_qput0 by exact Hq; reflexivity] ]).
  left. exists i. rewrite m_done_subm, q0_m_done. split; [reflexivity|].
  unfold q0 at 1. unfold getq. cbn [queues]. rewrite getq_upd0 by exact Hq. reflexivity.
Qed.

Lemma dm_step_meff : forall c d d' l, dm_step c d = Some (d', l) -> queues (dbase d) <> [] ->
  m_eff (dbase d) (dbase d').
Proof.
  intros c d d' l H Hq. unfold dm_step in H. cbv zeta in H. unfold dbase in *.
  assert (Hsame : forall b, subm b = subm (base (xs d)) -> q0 b = q0 (base (xs d)) -> m_eff (base (xs d)) b).
  { intros b E1 E2. right. split; [exact E1|]. left. exact E2. }
  assert (Hxm :
      match xm_step (dx c) (xs d) with Some (x', l0) => Some (set_xs d x', l0) | None => None end = Some (d', l) ->
      main (base (xs d)) <> MBegin -> (forall k, main (base (xs d)) <> MStart k) ->
      m_eff (base (xs d)) (base (xs d'))).
  { intros Hx N1 N2. destruct (xm_step (dx c) (xs d)) as [[x' l0]|] eqn:Hxs; [|discriminate Hx].
    inversion Hx; subst. simpl. eapply xm_step_meff; eauto. }
  destruct (main (base (xs d))) eqn:Hm; try (apply Hxm; [exact H|congruence|intros k0; congruence]).
  - destruct (dinner c) as [[|n]|]; inversion H; subst; simpl; apply Hsame; try reflexivity;
    unfold q0, getq; simpl; destruct (queues (base (xs d))); try congruence; reflexivity.
  - destruct (dinner c) as [n|].
    + destruct (Nat.ltb k n); inversion H; subst; simpl; apply Hsame; rewrite ?m_goto_subm, ?q0_m_goto; reflexivity.
    + destruct k; inversion H; subst; simpl; apply Hsame; rewrite ?m_goto_subm, ?q0_m_goto; reflexivity.
  - destruct (rdone (rp d)); [|discriminate H]. destruct (rp d); inversion H; subst; simpl; apply Hsame;
    rewrite ?m_done_subm, ?q0_m_done; reflexivity.
Qed.

(* the inner worker thread does not touch queue 0 *)
Lemma w_step_q0 : forall c s j s' l w, w_step c s j = Some (s', l) -> nth_error (ws s) j = Some w -> 1 <= wq w ->
  subm s' = subm s /\ q0 s' = q0 s.
Proof.
  intros c s j s' l w H Hj Hq. unfold w_step in H. rewrite Hj in H. cbv zeta in H.
  destruct (wq w) as [|q] eqn:Eq; [lia|].
  destruct (wp w); destr_all H; try discriminate H; inversion H; subst; clear H; (split; [reflexivity|]);
  unfold wpc_to, set_w, set_ws, send_to_p, pop_from_p, setp, set_ps, set_futs;
  first [reflexivity | apply q0_qpop_S | apply q0_qtd_S].
Qed.

Definition P2 (d : dstate) (h : hist) : Prop :=
  subseq (hdirect h ++ cur (rp d) ++ qtasks (q0 (dbase d))) (subm (dbase d)).

Lemma P2_step : forall c n d h t d' l, dinner c = IBlock 1 -> Inv4 c n d ->
  dstep c d t = Some (d', l) -> P2 d h -> P2 d' ((d, t, l) :: h).
Proof.
  intros c n d h t d' l Hc HI Hst IH. unfold P2 in *. rewrite hdirect_cons.
  destruct (tid_eq_TR t) as [Et|Et].
  - subst t. simpl in Hst. destruct (r_step_dir _ _ _ _ Hst) as [Es Hs]. rewrite Es.
    eapply subseq_trans; [exact IH|]. rewrite <- app_assoc. apply subseq_head. exact Hs.
  - rewrite (edir_notR _ _ _ Et), app_nil_r.
    assert (Hcur : subseq (cur (rp d')) (cur (rp d))).
    { destruct (other_rp _ _ _ _ _ Hst Et) as [_ [E|E]]; rewrite E; [apply subseq_refl|apply ss_nil]. }
    destruct HI as ((HQ & HW & _ & _ & HQL & _) & _).
    assert (Hq : queues (dbase d) <> []).
    { destruct HQL as [H1 _]. intros E. rewrite E in H1. simpl in H1. lia. }
    destruct t as [| | |j|k]; simpl in Hst; try congruence.
    + pose proof (dm_step_meff _ _ _ _ Hst Hq) as Heff.
      destruct Heff as [(i & E1 & E2)|(E1 & [E2|[(b & E2)|E2]])]; rewrite E1, E2.
      * rewrite qtasks_app. simpl. rewrite !app_assoc. apply subseq_app; [|apply subseq_refl].
        rewrite <- app_assoc. eapply subseq_trans; [exact IH|]. apply subseq_head. apply subseq_app; [exact Hcur|apply subseq_refl].
      * eapply subseq_trans; [exact IH|]. apply subseq_head. apply subseq_app; [exact Hcur|apply subseq_refl].
      * rewrite qtasks_app. simpl. rewrite app_nil_r.
        eapply subseq_trans; [exact IH|]. apply subseq_head. apply subseq_app; [exact Hcur|apply subseq_refl].
      * eapply subseq_trans; [exact IH|]. apply subseq_head. apply subseq_app; [exact Hcur|apply qtasks_tl].
    + rewrite Hc in Hst. discriminate Hst.
    + destruct j as [|j]; [discriminate Hst|].
      destruct (w_step (bcfg (dx c)) (dbase d) j) as [[b l']|] eqn:Hw; [|discriminate Hst].
      inversion Hst; subst; clear Hst.
      destruct (nth_error (ws (dbase d)) j) as [w|] eqn:Hj; [|unfold w_step in Hw; rewrite Hj in Hw; discriminate].
      destruct (HW w (nth_error_In _ _ Hj)) as [Hq1 _].
      destruct (w_step_q0 _ _ _ _ _ _ Hw Hj Hq1) as [E1 E2].
      unfold dbase in *. simpl in *. rewrite E1, E2.
      eapply subseq_trans; [exact IH|]. apply subseq_head. apply subseq_app; [exact Hcur|apply subseq_refl].
    + destruct (p_step (bcfg (dx c)) (dbase d) k) as [[b l']|] eqn:Hp; [|discriminate Hst].
      inversion Hst; subst; clear Hst.
      destruct (p_step_fields _ _ _ _ _ Hp) as (_ & E1 & E2).
      unfold dbase in *. simpl in *. rewrite E1, E2.
      eapply subseq_trans; [exact IH|]. apply subseq_head. apply subseq_app; [exact Hcur|apply subseq_refl].
Qed.

Lemma P2_reach : forall c n prog d h, dinner c = IBlock 1 -> wf_prog n prog ->
  dreach_h c (dinit n prog) d h -> P2 d h.
Proof.
  intros c n prog d h Hc Hwf Hr. induction Hr as [|d h t d' l Hr IH Hst].
  - unfold P2. simpl. apply ss_nil.
  - eapply P2_step; eauto. eapply Inv4_reach; [exact Hwf|]. eapply dreach_h_dreach; exact Hr.
Qed.

Theorem resolver_single_worker_order_part2 : forall c n prog d h,
  dinner c = IBlock 1 -> wf_prog n prog -> wf_deps c n ->
  dreach_h c (dinit n prog) d h ->
  subseqb (hdirect h) (subm (dbase d)) = true.
Proof.
  intros c n prog d h Hc Hwf _ Hr. apply subseq_subseqb.
  pose proof (P2_reach c n prog d h Hc Hwf Hr) as H. unfold P2 in H.
  eapply subseq_drop_tail; exact H.
Qed.
Print Assumptions resolver_single_worker_order_part2.

(* ================= part 1: the single inner worker executes in forwarding order ================= *)
Definition q1 (s : state) : list item := qitems (getq s 1).
Definition pend1 (s : state) : list nat := held s ++ qtasks (q1 s).

Lemma q1_qput1 : forall s it, 2 <= length (queues s) -> q1 (qput s 1 it) = q1 s ++ [it].
Proof.
  intros s it H. unfold q1, qput, getq, set_queues. simpl.
  destruct (queues s) as [|a [|b r]]; simpl in H; try lia. reflexivity.
Qed.
Lemma q1_qpop0 : forall s, q1 (qpop s 0) = q1 s.
Proof. intros s. unfold q1, qpop, getq, set_queues. simpl. destruct (queues s) as [|a [|b r]]; reflexivity. Qed.
Lemma q1_qtd0 : forall s, q1 (qtd s 0) = q1 s.
Proof. intros s. unfold q1, qtd, getq, set_queues. simpl. destruct (queues s) as [|a [|b r]]; reflexivity. Qed.

(* ---- the resolver ---- *)
Lemma r_step_fwd : forall c d d' l, r_step c d = Some (d', l) -> 2 <= length (queues (dbase d)) ->
  ws (dbase d') = ws (dbase d) /\ ps (dbase d') = ps (dbase d) /\
  qtasks (q1 (dbase d')) = qtasks (q1 (dbase d)) ++ efwd (d, TR, l).
Proof.
  intros c d d' l H Hq. unfold r_step in H. cbv zeta in H.
  destruct (rp d) eqn:Hrp; destr_all H; try discriminate H; inversion H; subst; clear H; unfold efwd;
  unfold dbase in *; rewrite ?xs_kont, ?xs_start_pass, ?xs_scan_next, ?xs_after_inputs_done, ?xs_inner_shut_start;
  cbn [xs rp set_rp set_dbase set_xs set_base base];
  (split; [reflexivity|]); (split; [reflexivity|]);
  rewrite ?q1_qpop0, ?q1_qtd0; rewrite ?q1_qput1 by exact Hq; rewrite ?qtasks_app; cbn [qtasks flat_map app];
  rewrite ?app_nil_r; try reflexivity.
Qed.

(* ---- the client ---- *)
Lemma dm_step_fr1 : forall c d d' l, dm_step c d = Some (d', l) -> dinner c = IBlock 1 ->
  1 <= length (queues (dbase d)) ->
  ps (dbase d') = ps (dbase d) /\
  (ws (dbase d') = ws (dbase d) \/ ws (dbase d') = ws (dbase d) ++ [mkW 1 0 WBegin]) /\
  q1 (dbase d') = q1 (dbase d).
Proof.
  intros c d d' l H Hc Hq. unfold dm_step in H. cbv zeta in H. unfold dbase in *. rewrite Hc in H.
  assert (Hxm :
      match xm_step (dx c) (xs d) with Some (x', l0) => Some (set_xs d x', l0) | None => None end = Some (d', l) ->
      ps (base (xs d')) = ps (base (xs d)) /\
      (ws (base (xs d')) = ws (base (xs d)) \/ ws (base (xs d')) = ws (base (xs d)) ++ [mkW 1 0 WBegin]) /\
      q1 (base (xs d')) = q1 (base (xs d))).
  { intros Hx. destruct (xm_step (dx c) (xs d)) as [[x' l0]|] eqn:Hxs; [|discriminate Hx].
    inversion Hx; subst. simpl.
    destruct (xm_step_eff _ _ _ _ Hxs) as ((Ews & Eps & _ & Eq) & _).
    split; [exact Eps|]. split; [left; exact Ews|]. unfold q1, getq. pose proof (Eq 1 ltac:(lia)) as E1. unfold dq in E1. rewrite E1. reflexivity. }
  destruct (main (base (xs d))) eqn:Hm; try (apply Hxm; exact H).
  - inversion H; subst; simpl. split; [reflexivity|]. split; [left; reflexivity|].
    unfold q1, getq. simpl. destruct (queues (base (xs d))) as [|a [|b r]]; simpl in Hq; try lia; reflexivity.
  - destruct (Nat.ltb k 1); inversion H; subst; simpl.
    + split; [reflexivity|]. split; [right; reflexivity|reflexivity].
    + rewrite m_goto_ps, m_goto_ws. split; [reflexivity|]. split; [left; reflexivity|].
      unfold q1, getq. rewrite m_goto_queues. reflexivity.
  - destruct (rdone (rp d)); [|discriminate H]. destruct (rp d); inversion H; subst; simpl;
    rewrite ?m_done_ps, ?m_done_ws; (split; [reflexivity|]); (split; [left; reflexivity|]);
    unfold q1, getq; rewrite ?m_done_queues; reflexivity.
Qed.

(* ---- the worker thread ---- *)
Lemma w_step_pend1_0 : forall c qa qi qn qs fs sb mn os cl wpr wpc pl ou s' l,
  w_step c (mkS (qa :: mkQ qi qn :: qs) fs sb mn os cl [mkW 1 wpr wpc] pl ou) 0 = Some (s', l) ->
  subseq (pend1 s') (pend1 (mkS (qa :: mkQ qi qn :: qs) fs sb mn os cl [mkW 1 wpr wpc] pl ou)) /\
  (exists w', ws s' = [w'] /\ wq w' = 1) /\ length (queues s') = S (S (length qs)).
Proof.
  intros c qa qi qn qs fs sb mn os cl wpr wpc pl ou s' l H.
  unfold w_step in H. cbn in H.
  destruct wpc; destr_all H; try discriminate H; inversion H; subst; clear H;
  (split; [|split; [eexists; split; reflexivity|reflexivity]]);
    unfold pend1, held, held_w, q1, getq; cbn; ss_fin.
Qed.

(* ---- the worker process ---- *)
Lemma p_step_q1 : forall c s k s' l, p_step c s k = Some (s', l) -> ws s' = ws s /\ q1 s' = q1 s.
Proof.
  intros c s k s' l H. destruct (p_step_shape _ _ _ _ _ H) as (p & p' & _ & _ & E & _). subst s'. split; reflexivity.
Qed.

Lemma p_step_held_other : forall c s k s' l, p_step c s k = Some (s', l) -> (forall i, l <> LBody i) ->
  subseq (held s') (held s).
Proof.
  intros c s k s' l H Hl.
  destruct (p_step_shape _ _ _ _ _ H) as (p & p' & Hp & Hk & E & [(i & El & _)|(_ & Hmono)]).
  - exfalso. eapply Hl; eauto.
  - subst s'. unfold held, setp, set_ps. cbn [ps ws].
    apply subseq_flat_map. intros w. eapply held_w_setp_mono; eauto.
Qed.

Lemma p_step_held_body : forall c s k s' i, Fidelity.BI c s -> length (ws s) <= 1 ->
  p_step c s k = Some (s', LBody i) -> held s = [i] /\ held s' = [].
Proof.
  intros c s k s' i HB Hlen Hst.
  destruct (p_step_shape _ _ _ _ _ Hst) as (p & p' & Hp & Hk & E & [(i' & El & Hpp & Hpp' & Hib)|(Hl & _)]);
    [|exfalso; eapply Hl; eauto].
  inversion El; subst i'. clear El.
  assert (Hkl : 1 <= k <= length (ps s)).
  { assert (k - 1 < length (ps s)) by (apply nth_error_Some; congruence). lia. }
  destruct (Fidelity.B_ow4 _ _ HB k Hkl) as (j & w & Hj & Sw & Hw).
  destruct (one_worker_nth _ _ _ Hlen Hj) as [Ej Ews]. subst j.
  pose proof (Fidelity.B_chan _ _ HB 0 w Hj) as Hch. rewrite Hw in Hch. unfold getp in Hch.
  rewrite (nth_error_nth' _ _ _ _ _ Hp) in Hch.
  unfold spawnedb in Sw.
  assert (Hw2 : wp w = WRecv i /\ inbox p = []).
  { unfold chanS, chan_ok, chan2 in Hch. destruct p as [pc ib ob]. simpl in Hpp. subst pc.
    unfold serving, quiet, p_idle, palive in Hch. cbn [pp inbox outbox] in Hch.
    destruct (wp w); try discriminate Sw; simpl in Hch; try discriminate Hch;
      rewrite ?andb_true_r, ?orb_false_r, ?andb_false_r in Hch; try discriminate Hch.
    apply andb_true_iff in Hch. destruct Hch as [Hch _].
    apply andb_true_iff in Hch. destruct Hch as [Hch Hib0]. apply Nat.eqb_eq in Hch. subst.
    split; [reflexivity|]. simpl. apply msgs_eqb_nil. exact Hib0. }
  destruct Hw2 as [Hpc Hib0].
  subst s'. unfold held, setp, set_ps. cbn [ps ws]. rewrite Ews. simpl. rewrite !app_nil_r.
  unfold held_w. rewrite Hpc, Hw.
  rewrite (nth_error_nth' _ _ _ _ _ Hp).
  rewrite nth_upd_same by lia.
  unfold prebody. rewrite Hpp, Hpp', Hib, Hib0, Nat.eqb_refl. simpl. split; reflexivity.
Qed.

(* ---- the invariant along a history ---- *)
Definition W1 (d : dstate) : Prop := forall w, In w (ws (dbase d)) -> wq w = 1.
Definition P1 (d : dstate) (h : hist) : Prop :=
  subseq (hbodies h ++ pend1 (dbase d)) (hforwards h) /\ W1 d.

Lemma held_snoc_begin : forall pl wl q, flat_map (held_w pl) (wl ++ [mkW q 0 WBegin]) = flat_map (held_w pl) wl.
Proof. intros pl wl q. rewrite flat_map_app. simpl. rewrite !app_nil_r. reflexivity. Qed.

Lemma r_step_none : forall c d, rp d = RNone -> r_step c d = None.
Proof. intros c d H. unfold r_step. rewrite H. reflexivity. Qed.

Lemma P1_step : forall c n d h t d' l, dinner c = IBlock 1 ->
  Inv4 c n d -> DepMeasure.MI c n d -> Fidelity.BI (bcfg (dx c)) (dbase d) ->
  dstep c d t = Some (d', l) -> P1 d h -> P1 d' ((d, t, l) :: h).
Proof.
  intros c n d h t d' l Hc HI HM HB Hst [IH HW]. unfold P1 in *. rewrite hbodies_cons, hforwards_cons.
  destruct HI as ((_ & _ & _ & _ & HQL & _) & _). destruct HQL as [HQ1 HQ2].
  assert (Hlen : length (ws (dbase d)) <= 1).
  { pose proof (DepMeasure.M_ws _ _ _ HM) as Hl. unfold DepMeasure.nwk in Hl. rewrite Hc in Hl. exact Hl. }
  destruct t as [| | |j|k]; simpl in Hst.
  - (* client *)
    rewrite (ebody_not d TM l) by (intros i E; subst l; eapply dm_step_nobody; eauto).
    rewrite efwd_notR by discriminate. rewrite !app_nil_r.
    destruct (dm_step_fr1 _ _ _ _ Hst Hc HQ1) as (Eps & Ews & Eq).
    assert (Hh : held (dbase d') = held (dbase d)).
    { unfold held. rewrite Eps. destruct Ews as [E|E]; rewrite E; [reflexivity|apply held_snoc_begin]. }
    split.
    + unfold pend1. rewrite Hh, Eq. exact IH.
    + intros w Hw. destruct Ews as [E|E]; rewrite E in Hw; [apply HW; exact Hw|].
      apply in_app_or in Hw. destruct Hw as [Hw|[Hw|[]]]; [apply HW; exact Hw|subst w; reflexivity].
  - (* resolver *)
    assert (Hq2 : 2 <= length (queues (dbase d))).
    { destruct HQ2 as [[Hm _]|H2]; [|exact H2]. exfalso.
      assert (Hrn : rp d = RNone) by (apply (DepMeasure.M_rn _ _ _ HM); rewrite Hm; simpl; tauto).
      rewrite (r_step_none _ _ Hrn) in Hst. discriminate Hst. }
    rewrite (ebody_not d TR l) by (intros i E; subst l; eapply r_step_nobody; eauto). rewrite app_nil_r.
    destruct (r_step_fwd _ _ _ _ Hst Hq2) as (Ews & Eps & Eq).
    split.
    + unfold pend1, held. rewrite Ews, Eps, Eq. rewrite !app_assoc. apply subseq_app; [|apply subseq_refl].
      rewrite <- app_assoc. exact IH.
    + intros w Hw. rewrite Ews in Hw. apply HW; exact Hw.
  - rewrite Hc in Hst. discriminate Hst.
  - (* inner worker *)
    destruct j as [|j]; [discriminate Hst|].
    destruct (w_step (bcfg (dx c)) (dbase d) j) as [[b l']|] eqn:Hw; [|discriminate Hst].
    inversion Hst; subst; clear Hst.
    rewrite (ebody_not d (TW (S j)) l) by (intros i; eapply w_step_label; eauto).
    rewrite efwd_notR by discriminate. rewrite !app_nil_r.
    destruct (nth_error (ws (dbase d)) j) as [w|] eqn:Hj; [|unfold w_step in Hw; rewrite Hj in Hw; discriminate].
    destruct (one_worker_nth _ _ _ Hlen Hj) as [Ej Ews]. subst j.
    assert (Hwq : wq w = 1) by (apply HW; eapply nth_error_In; eauto).
    assert (Hq2 : 2 <= length (queues (dbase d))).
    { destruct HQ2 as [[Hm _]|H2]; [|exact H2]. exfalso.
      rewrite (DepMeasure.M_b _ _ _ HM Hm) in Ews. discriminate Ews. }
    assert (Hgoal : subseq (pend1 b) (pend1 (dbase d)) /\ (exists w', ws b = [w'] /\ wq w' = 1)).
    { unfold dbase in *. destruct (base (xs d)) as [qs fs sb mn os cl wl pl ou]. simpl in *. subst wl.
      destruct qs as [|qa [|[qi qn] qs]]; simpl in Hq2; try lia.
      destruct w as [wqv wpr wpc]. simpl in Hwq. subst wqv.
      destruct (w_step_pend1_0 _ _ _ _ _ _ _ _ _ _ _ _ _ _ _ _ Hw) as (A & B & _). split; assumption. }
    destruct Hgoal as [Hp (w' & Ew' & Eq')].
    unfold dbase. simpl. split.
    + eapply subseq_trans; [exact IH|]. apply subseq_head. exact Hp.
    + intros x Hx. unfold dbase in Hx. simpl in Hx. rewrite Ew' in Hx. destruct Hx as [Hx|[]]. subst x. exact Eq'.
  - (* worker process *)
    destruct (p_step (bcfg (dx c)) (dbase d) k) as [[b l']|] eqn:Hp; [|discriminate Hst].
    inversion Hst; subst; clear Hst.
    rewrite efwd_notR by discriminate. rewrite app_nil_r.
    destruct (p_step_q1 _ _ _ _ _ Hp) as [Ews Eq].
    unfold dbase in *. simpl. split; [|intros w Hw; unfold dbase in Hw; simpl in Hw; rewrite Ews in Hw; apply HW; exact Hw].
    destruct l as [| | | | | | | | | | | | | | | | | | | | | | |i| | | | |];
      try (unfold ebody; cbn [snd]; rewrite app_nil_r; eapply subseq_trans; [exact IH|]; apply subseq_head;
           unfold pend1; rewrite Eq; apply subseq_app; [|apply subseq_refl];
           eapply p_step_held_other; [exact Hp|intros i0; discriminate]).
    destruct (p_step_held_body _ _ _ _ _ HB Hlen Hp) as [Hh Hh'].
    unfold pend1 in *. rewrite Hh', Eq. rewrite Hh in IH. unfold ebody. cbn [snd]. rewrite <- app_assoc. exact IH.
Qed.

Lemma P1_reach : forall c n prog d h, dinner c = IBlock 1 -> wf_prog n prog ->
  dreach_h c (dinit n prog) d h -> P1 d h.
Proof.
  intros c n prog d h Hc Hwf Hr. induction Hr as [|d h t d' l Hr IH Hst].
  - split; [apply ss_nil|]. intros w [].
  - pose proof (dreach_h_dreach _ _ _ _ Hr) as Hd.
    eapply P1_step; eauto.
    + eapply Inv4_reach; eauto.
    + eapply DepMeasure.mi_reach; eauto.
    + eapply Fidelity.BI_dreach; eauto.
Qed.

Theorem resolver_single_worker_order_part1 : forall c n prog d h,
  dinner c = IBlock 1 -> wf_prog n prog -> wf_deps c n ->
  dreach_h c (dinit n prog) d h ->
  subseqb (hbodies h) (hforwards h) = true.
Proof.
  intros c n prog d h Hc Hwf _ Hr. apply subseq_subseqb.
  destruct (P1_reach c n prog d h Hc Hwf Hr) as [H _].
  eapply subseq_drop_tail; exact H.
Qed.
Print Assumptions resolver_single_worker_order_part1.

(* ================= the main theorem ================= *)
Theorem resolver_single_worker_order : forall c n prog d h,
  dinner c = IBlock 1 -> wf_prog n prog -> wf_deps c n ->
  dreach_h c (dinit n prog) d h ->
  order_ok d h = true.
Proof.
  intros c n prog d h Hc Hwf Hd Hr. unfold order_ok. apply andb_true_iff. split.
  - eapply resolver_single_worker_order_part1; eauto.
  - eapply resolver_single_worker_order_part2; eauto.
Qed.
Print Assumptions resolver_single_worker_order.

(* ================= sanity: a concrete history (the statement is not vacuous) ================= *)
Fixpoint hrun (c : dcfg) (picks : list tid) (d : dstate) (h : hist) : option (dstate * hist) :=
  match picks with
  | [] => Some (d, h)
  | t :: r => match dstep c d t with Some (d', l) => hrun c r d' ((d, t, l) :: h) | None => None end
  end.

Lemma hrun_reach : forall c d0 picks d h d' h',
  dreach_h c d0 d h -> hrun c picks d h = Some (d', h') -> dreach_h c d0 d' h'.
Proof.
  intros c d0 picks. induction picks as [|t r IH]; intros d h d' h' Hr He; simpl in He.
  - inversion He; subst. exact Hr.
  - destruct (dstep c d t) as [[d1 l]|] eqn:Hst; [|discriminate].
    eapply IH; [|exact He]. eapply dh_step; eauto.
Qed.

(* three calls, call 2 depends on call 1, one inner worker, shutdown(wait=True) *)
Definition ex_c : dcfg :=
  mkDC (mkXC (fun _ => false) (fun _ => 1) None None) (IBlock 1) (fun i => nth (i - 1) [[]; [1]; []] []).
Definition ex_prog3 : list op := [OSubmit 1; OSubmit 2; OSubmit 3; OShutdown true false].
Definition ex_picks : list tid :=
  [TM; TM; TM; TM; TR; TW 1; TM; TR; TW 1; TM; TR; TP 1; TM; TW 1; TR; TW 1; TR; TW 1; TR; TP 1; TR;
   TP 1; TR; TP 1; TR; TW 1; TR; TW 1; TR; TW 1; TR; TW 1; TR; TW 1; TR; TW 1; TR; TP 1; TP 1;
   TP 1; TW 1; TW 1; TW 1; TW 1; TW 1; TW 1; TP 1; TP 1; TP 1; TW 1; TW 1; TW 1; TW 1;
   TW 1; TW 1; TP 1; TP 1; TW 1; TW 1; TW 1; TW 1; TW 1; TW 1; TR; TR; TR; TR; TM; TM].

(* call 2 waits for call 1 in the wait list, so call 3 is forwarded (directly) and executed before it *)
Example order_example :
  match hrun ex_c ex_picks (dinit 3 ex_prog3) [] with
  | Some (d, h) =>
      hbodies h = [1; 3; 2] /\ hforwards h = [1; 3; 2] /\ hdirect h = [1; 3] /\ subm (dbase d) = [1; 2; 3] /\
      order_ok d h = true /\ denabled ex_c d = []
  | None => False
  end.
Proof. vm_compute. repeat split; reflexivity. Qed.

(* the run of [order_example] is a reachable history of the model *)
Lemma order_example_reach : forall d h,
  hrun ex_c ex_picks (dinit 3 ex_prog3) [] = Some (d, h) -> dreach_h ex_c (dinit 3 ex_prog3) d h.
Proof. intros d h E. eapply hrun_reach; [apply dh_init|exact E]. Qed.
