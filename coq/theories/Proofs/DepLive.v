(* Liveness side of the dependency-resolver model (Model/DepExec.v) in front of a block-allocation executor:
   the wait list is drained before the inner shutdown; a state in which nothing can step is a proper rest state. *)
From Coq Require Import List Bool Arith Lia.
From EL Require Import Model.Exec Model.ExecInv Model.StepExec Model.DepExec Model.LiveSpec.
From EL Require Import Proofs.ExecSafe Proofs.ExecLive Proofs.DepSafe.
Import ListNotations.


(* ====================== part 1 ====================== *)

(* ---------- (1) the wait list is empty once the inner shutdown has started ---------- *)
Definition WLD (d : dstate) : Prop := r_in_inner_shutdown d = true -> rwait d = [].

Lemma WLD_inner_shut : forall c d w, rwait d = [] -> WLD (inner_shut_start c d w).
Proof. intros c d w H _. unfold inner_shut_start. destruct (dinner c); exact H. Qed.

Lemma WLD_start_pass : forall c d a, WLD (start_pass c d a).
Proof.
  intros c d a. unfold start_pass. destruct (rwait d) as [|[j dj] r] eqn:E.
  - destruct a. intros H; discriminate H. apply WLD_inner_shut. exact E.
  - intros H; discriminate H.
Qed.

Lemma WLD_scan_next : forall c d pre post n0 a, WLD (scan_next c d pre post n0 a).
Proof.
  intros c d pre post n0 a. unfold scan_next. destruct post as [|[j dj] r].
  - destruct a; destruct (Nat.eqb (length pre) n0); try (intros H; discriminate H). apply WLD_start_pass.
  - intros H; discriminate H.
Qed.

Lemma WLD_kont : forall c d k, WLD (kont c d k).
Proof. intros c d k. destruct k; simpl. intros H; discriminate H. apply WLD_scan_next. Qed.

Lemma WLD_aid : forall d i deps k, WLD (after_inputs_done d i deps k).
Proof. intros d i deps k. unfold after_inputs_done. destruct deps; intros H; discriminate H. Qed.

Lemma WLD_rstep : forall c d d' l, r_step c d = Some (d', l) -> WLD d -> WLD d'.
Proof.
  intros c d d' l H Hw. unfold r_step in H. cbv zeta in H. unfold WLD, r_in_inner_shutdown in Hw.
  destruct (rp d) eqn:Hrp; destr_all H; try discriminate H; inversion H; subst; clear H;
  first [ apply WLD_start_pass | apply WLD_kont | apply WLD_aid | apply WLD_scan_next
        | (intros Hs; discriminate Hs) | (intros _; simpl; apply Hw; reflexivity) ].
Qed.

Lemma WLD_step : forall c d t d' l, dstep c d t = Some (d', l) -> WLD d -> WLD d'.
Proof.
  intros c d t d' l H Hw. destruct (tid_eq_TR t) as [E|E].
  - subst t. simpl in H. eapply WLD_rstep; eauto.
  - destruct (other_rp _ _ _ _ _ H E) as [Hrw Hr]. unfold WLD, r_in_inner_shutdown in *. rewrite Hrw.
    destruct Hr as [Hr|Hr]; rewrite Hr; auto. intros Hs; discriminate Hs.
Qed.

Lemma WLD_reach : forall c n prog d, dreach c (dinit n prog) d -> WLD d.
Proof.
  intros c n prog d H. induction H as [|d t d' l Hr IH Hs].
  - intros _. reflexivity.
  - eapply WLD_step; eauto.
Qed.

Theorem wait_list_drained : forall c n prog d,
  wf_prog n prog -> dreach c (dinit n prog) d -> wait_list_drained_b d = true.
Proof.
  intros c n prog d _ Hr. pose proof (WLD_reach _ _ _ _ Hr) as H. unfold wait_list_drained_b, WLD in *.
  destruct (r_in_inner_shutdown d); simpl; auto. rewrite H; reflexivity.
Qed.
Print Assumptions wait_list_drained.


(* ====================== part 2 ====================== *)

(* ---------- what the resolver holds, as functions of its program counter ---------- *)
Definition aholds (a : rafter) : nat := match a with ASleepPoll => 0 | AShut _ => 1 end.
Definition kholds (k : rcont) : nat := match k with KTd => 1 | KScan _ _ _ a => aholds a end.
Definition kpast (k : rcont) : nat := match k with KTd => 0 | KScan _ _ _ a => aholds a end.

(* items taken from the outer queue whose task_done is still to come *)
Definition r_holds (r : rpc) : nat :=
  match r with
  | RCheck _ _ _ | RTd => 1
  | RRes _ _ k | RFwd _ k | RFailSrnc _ k | RFailSet _ k => kholds k
  | RScan _ _ _ _ _ _ _ a | RSleep a => aholds a
  | RInPut _ _ | RInJoin _ | RInJoinD | RInQJoin | RTd0 => 1
  | _ => 0
  end.

(* the resolver has taken the shutdown message of the outer queue *)
Definition r_past0 (r : rpc) : nat :=
  match r with
  | RRes _ _ k | RFwd _ k | RFailSrnc _ k | RFailSet _ k => kpast k
  | RScan _ _ _ _ _ _ _ a | RSleep a => aholds a
  | RInPut _ _ | RInJoin _ | RInJoinD | RInQJoin | RTd0 | RQJoin0 | RDone => 1
  | _ => 0
  end.

(* shutdown messages put on the inner queue so far *)
Definition sp1 (k : nat) (r : rpc) : nat :=
  match r with
  | RInPut _ j => k - j
  | RInJoin _ | RInJoinD | RInQJoin | RTd0 | RQJoin0 | RDone => k
  | _ => 0
  end.

Lemma start_pass_cases : forall c d a k, dinner c = IBlock k ->
  (exists j dj rest, rwait d = (j, dj) :: rest /\
      start_pass c d a = set_rp d (RScan [] j dj dj true rest (length (rwait d)) a)) \/
  (rwait d = [] /\ a = ASleepPoll /\ start_pass c d a = set_rp d (RSleep ASleepPoll)) \/
  (exists w, rwait d = [] /\ a = AShut w /\ start_pass c d a = set_rp d (RInPut w k)).
Proof.
  intros c d a k Hk. unfold start_pass. destruct (rwait d) as [|[j dj] rest] eqn:E.
  - right. destruct a as [|w]. left; auto. right. exists w. unfold inner_shut_start. rewrite Hk. auto.
  - left. exists j, dj, rest. auto.
Qed.

Lemma scan_next_cases : forall c d pre post n0 a,
  (exists j dj rest, post = (j, dj) :: rest /\
      scan_next c d pre post n0 a = set_rp d (RScan pre j dj dj true rest n0 a)) \/
  (post = [] /\
     (scan_next c d pre post n0 a = mkD (xs d) (RSleep a) pre \/
      (a = ASleepPoll /\ scan_next c d pre post n0 a = mkD (xs d) RPoll pre) \/
      (exists w, a = AShut w /\ scan_next c d pre post n0 a = start_pass c (mkD (xs d) (rp d) pre) (AShut w)))).
Proof.
  intros c d pre post n0 a. unfold scan_next. destruct post as [|[j dj] rest].
  - right. split; auto. destruct a as [|w]; destruct (Nat.eqb (length pre) n0); simpl; auto.
    right; right. exists w; auto.
  - left. exists j, dj, rest. auto.
Qed.

Section Phase.
  Variables (c : dcfg) (k : nat).
  Hypothesis Hk : dinner c = IBlock k.

  Lemma ph_start_pass : forall d a,
    r_holds (rp (start_pass c d a)) = aholds a /\ r_past0 (rp (start_pass c d a)) = aholds a /\
    sp1 k (rp (start_pass c d a)) = 0.
  Proof.
    intros d a. destruct (start_pass_cases c d a k Hk) as [(j & dj & rest & E1 & E2)|[(E1 & E2 & E3)|(w & E1 & E2 & E3)]].
    - rewrite E2. simpl. auto.
    - rewrite E3. subst a. simpl. auto.
    - rewrite E3. subst a. simpl. repeat split; auto. lia.
  Qed.

  Lemma ph_scan_next : forall d pre post n0 a,
    r_holds (rp (scan_next c d pre post n0 a)) = aholds a /\ r_past0 (rp (scan_next c d pre post n0 a)) = aholds a /\
    sp1 k (rp (scan_next c d pre post n0 a)) = 0.
  Proof.
    intros d pre post n0 a.
    destruct (scan_next_cases c d pre post n0 a) as [(j & dj & rest & E1 & E2)|(E1 & [E2|[(E2 & E3)|(w & E2 & E3)]])].
    - rewrite E2. simpl. auto.
    - rewrite E2. simpl. auto.
    - rewrite E3. subst a. simpl. auto.
    - rewrite E3. subst a. apply ph_start_pass.
  Qed.

  Lemma ph_kont : forall d kk,
    r_holds (rp (kont c d kk)) = kholds kk /\ r_past0 (rp (kont c d kk)) = kpast kk /\
    sp1 k (rp (kont c d kk)) = 0.
  Proof. intros d [|pre post n0 a]; simpl. auto. apply ph_scan_next. Qed.

  Lemma ph_aid : forall d i deps kk,
    r_holds (rp (after_inputs_done d i deps kk)) = kholds kk /\ r_past0 (rp (after_inputs_done d i deps kk)) = kpast kk /\
    sp1 k (rp (after_inputs_done d i deps kk)) = 0.
  Proof. intros d i deps kk. unfold after_inputs_done. destruct deps; simpl; auto. Qed.
End Phase.


(* ====================== part 3 ====================== *)

(* ---------- worker steps on queue q, good cases only ---------- *)
Inductive wstepG (q : nat) (c : cfg) (s : state) (j : nat) (w : wthread) : state -> Prop :=
| WG_begin : wp w = WBegin -> wstepG q c s j w (wpc_to s j w WSpawn)
| WG_spawn : wp w = WSpawn ->
    wstepG q c s j w (set_w (set_ps s (ps s ++ [mkP PBegin [] []])) j (mkW (wq w) (S (length (ps s))) WGet))
| WG_getT i rest : wp w = WGet -> qitems (getq s q) = Task i :: rest ->
    wstepG q c s j w (wpc_to (qpop s q) j w (WSrnc i))
| WG_getS b rest : wp w = WGet -> qitems (getq s q) = Shut b :: rest ->
    wstepG q c s j w (wpc_to (qpop s q) j w (WSPoll b))
| WG_srncP i : wp w = WSrnc i -> getf s i = FPending ->
    wstepG q c s j w (wpc_to (set_futs s (setf s i FRunning)) j w (WSend i))
| WG_srncC i : wp w = WSrnc i -> getf s i = FCancelled ->
    wstepG q c s j w (wpc_to (set_futs s (setf s i FCancelledN)) j w WCancTd)
| WG_canctd : wp w = WCancTd -> wstepG q c s j w (wpc_to (qtd s q) j w WGet)
| WG_send i : wp w = WSend i ->
    wstepG q c s j w (wpc_to (send_to_p s (wproc w) (MCall i)) j w (WRecv i))
| WG_recv i rest : wp w = WRecv i -> outbox (getp s (wproc w)) = MRes i :: rest ->
    wstepG q c s j w (wpc_to (pop_from_p s (wproc w)) j w (WSetRes i i))
| WG_setres i v : wp w = WSetRes i v -> getf s i = FRunning ->
    wstepG q c s j w (wpc_to (set_futs s (setf s i (FRes v))) j w WTd)
| WG_td : wp w = WTd -> wstepG q c s j w (wpc_to (qtd s q) j w WGet)
| WG_spollA b : wp w = WSPoll b -> palive (getp s (wproc w)) = true ->
    wstepG q c s j w (wpc_to s j w (WSSend b))
| WG_spollD b : wp w = WSPoll b -> palive (getp s (wproc w)) = false ->
    wstepG q c s j w (wpc_to s j w WSTd)
| WG_ssend b : wp w = WSSend b ->
    wstepG q c s j w (wpc_to (send_to_p s (wproc w) MShut) j w (WSRecv b))
| WG_srecv b m rest : wp w = WSRecv b -> outbox (getp s (wproc w)) = m :: rest ->
    wstepG q c s j w (wpc_to (pop_from_p s (wproc w)) j w (WSComm b))
| WG_scomm b : wp w = WSComm b -> palive (getp s (wproc w)) = false ->
    wstepG q c s j w (wpc_to s j w (WSTerm b))
| WG_sterm b : wp w = WSTerm b -> wstepG q c s j w (wpc_to s j w (if b then WSWait else WSTd))
| WG_swait : wp w = WSWait -> palive (getp s (wproc w)) = false ->
    wstepG q c s j w (wpc_to s j w WSTd)
| WG_std : wp w = WSTd -> wstepG q c s j w (wpc_to (qtd s q) j w WSQJoin)
| WG_sqjoin : wp w = WSQJoin -> qunf (getq s q) = 0 -> wstepG q c s j w (wpc_to s j w WDone).


Lemma w_step_invG : forall q c s j w s' l,
  nofail c -> nth_error (ws s) j = Some w -> wq w = q -> bad (wp w) = false ->
  chan_ok c w (getp s (wproc w)) = true ->
  (forall i, wp w = WSrnc i -> fpend (getf s i) = true) ->
  (forall i v, wp w = WSetRes i v -> getf s i = FRunning) ->
  w_step c s j = Some (s', l) -> wstepG q c s j w s'.
Proof.
  intros q c s j w s' l Hnf Hj Hq Hb Hc Hpend Hrun H. unfold w_step in H. rewrite Hj in H.
  cbv zeta in H. subst q.
  destruct (wp w) eqn:Hpc; simpl in Hb; try discriminate Hb.
  - inversion H; subst. eapply WG_begin; eauto.
  - inversion H; subst. eapply WG_spawn; eauto.
  - destruct (qitems (getq s (wq w))) as [|[i|b] rest] eqn:Hit; [discriminate| |];
    inversion H; subst. eapply WG_getT; eauto. eapply WG_getS; eauto.
  - pose proof (Hpend i eq_refl) as Hl.
    destruct (getf s i) eqn:Hf; try discriminate Hl; inversion H; subst.
    eapply WG_srncP; eauto. eapply WG_srncC; eauto.
  - inversion H; subst. eapply WG_canctd; eauto.
  - inversion H; subst. eapply WG_send; eauto.
  - destruct (outbox (getp s (wproc w))) as [|m rest] eqn:Ho; [discriminate|].
    unfold chan_ok in Hc. rewrite Hpc in Hc.
    apply serving_cases in Hc. rewrite Ho in Hc.
    destruct Hc as [[_ [_ Hc]]|[[_ [_ Hc]]|[_ [_ Hc]]]]; try discriminate Hc.
    inversion Hc; subst. unfold reply_of in H. rewrite Hnf in H. inversion H; subst.
    eapply WG_recv; eauto. rewrite Ho. unfold reply_of. rewrite Hnf. reflexivity.
  - rewrite (Hrun i v eq_refl) in H. inversion H; subst. eapply WG_setres; eauto.
  - inversion H; subst. eapply WG_td; eauto.
  - destruct (palive (getp s (wproc w))) eqn:Ha; inversion H; subst.
    eapply WG_spollA; eauto. eapply WG_spollD; eauto.
  - inversion H; subst. eapply WG_ssend; eauto.
  - destruct (outbox (getp s (wproc w))) as [|m rest] eqn:Ho; [discriminate|]. inversion H; subst.
    eapply WG_srecv; eauto.
  - destruct (palive (getp s (wproc w))) eqn:Ha; [discriminate|]. inversion H; subst.
    eapply WG_scomm; eauto.
  - inversion H; subst. eapply WG_sterm; eauto.
  - destruct (palive (getp s (wproc w))) eqn:Ha; [discriminate|]. inversion H; subst.
    eapply WG_swait; eauto.
  - inversion H; subst. eapply WG_std; eauto.
  - destruct (Nat.eqb (qunf (getq s (wq w))) 0) eqn:He; [|discriminate]. inversion H; subst.
    apply Nat.eqb_eq in He. eapply WG_sqjoin; eauto.
  - discriminate.
Qed.

Ltac gcases HR :=
  destruct HR as [Hpc|Hpc|i rest Hpc Hit|b rest Hpc Hit|i Hpc Hf|i Hpc Hf|Hpc|i Hpc|i rest Hpc Ho|i v Hpc Hf|Hpc
                 |b Hpc Ha|b Hpc Ha|b Hpc|b m rest Hpc Ho|b Hpc Ha|b Hpc|Hpc Ha|Hpc|Hpc Hz].

Definition CQ (q e : nat) (s : state) : Prop :=
  qunf (getq s q) = length (qitems (getq s q)) + count w_holds (ws s) + e.
Definition SQ (q sp : nat) (s : state) : Prop :=
  count is_shut (qitems (getq s q)) + count w_past (ws s) = sp.
Definition TQ (q : nat) (s : state) : Prop := srt (qitems (getq s q)) = true.
Definition PQ (q : nat) (s : state) : Prop :=
  (exists w, In w (ws s) /\ w_past w = true) -> forallb is_shut (qitems (getq s q)) = true.

Lemma CQ_wstep : forall q e c s j w s', q < length (queues s) ->
  nth_error (ws s) j = Some w -> wstepG q c s j w s' -> CQ q e s -> CQ q e s'.
Proof.
  intros q e c s j w s' Hql Hj HR H. unfold CQ in *.
  gcases HR;
  unf; try rewrite (nth_upd_eq _ _ _ _ _ Hql); try (destruct b); cnt w_holds Hj Hpc; cbn [qitems qunf];
  try rewrite Hit in *; simpl length in *; try lia.
Qed.

Lemma SQ_wstep : forall q sp c s j w s', q < length (queues s) ->
  nth_error (ws s) j = Some w -> wstepG q c s j w s' -> SQ q sp s -> SQ q sp s'.
Proof.
  intros q sp c s j w s' Hql Hj HR H. unfold SQ in *.
  gcases HR;
  unf; try rewrite (nth_upd_eq _ _ _ _ _ Hql); try (destruct b); cnt w_past Hj Hpc; cbn [qitems qunf];
  try rewrite Hit in *; simpl tl; try rewrite count_cons in *; simpl is_shut in *; cbv iota in *; try lia.
Qed.

Lemma TQ_wstep : forall q c s j w s', q < length (queues s) ->
  nth_error (ws s) j = Some w -> wstepG q c s j w s' -> TQ q s -> TQ q s'.
Proof.
  intros q c s j w s' Hql Hj HR H. unfold TQ in *.
  gcases HR; unf; try rewrite (nth_upd_eq _ _ _ _ _ Hql); cbn [qitems qunf]; auto; apply srt_tl; auto.
Qed.

Lemma PQ_wstep : forall q c s j w s', q < length (queues s) ->
  nth_error (ws s) j = Some w -> wstepG q c s j w s' -> TQ q s -> PQ q s -> PQ q s'.
Proof.
  intros q c s j w s' Hql Hj HR Hsrt H. assert (Hin : In w (ws s)) by (eapply nth_error_In; eauto).
  unfold PQ, TQ in *. intros [x [Hx Hp]].
  assert (Hold : w_past w = true -> forallb is_shut (qitems (getq s q)) = true).
  { intros Hw. apply H. exists w; auto. }
  assert (Hoth : In x (ws s) -> forallb is_shut (qitems (getq s q)) = true).
  { intros Hw. apply H. exists x; auto. }
  clear H. unfold w_past in Hold.
  gcases HR; rewrite Hpc in Hold; unf; try rewrite (nth_upd_eq _ _ _ _ _ Hql); cbn [qitems];
  apply In_upd in Hx; (destruct Hx as [Hx|Hx];
   [ subst x; unfold w_past in Hp; cbn [wp] in Hp; try discriminate Hp; try (apply forallb_tl); auto
   | try (apply forallb_tl); auto ]).
  rewrite Hit in Hsrt. simpl in Hsrt. rewrite Hit. exact Hsrt.
Qed.

(* what a worker step leaves alone *)
Lemma wstepG_frame : forall q c s j w s', wstepG q c s j w s' ->
  main s' = main s /\ ops s' = ops s /\ closed s' = closed s /\ subm s' = subm s /\ outs s' = outs s /\
  length (futs s') = length (futs s) /\ length (queues s') = length (queues s) /\
  (forall q', q' <> q -> getq s' q' = getq s q').
Proof.
  intros q c s j w s' HR.
  gcases HR; unf; rewrite ?upd_length; repeat split; auto; intros q' Hq'; apply nth_upd_neq; auto.
Qed.

Lemma wq_wstepG : forall q c s j w s', nth_error (ws s) j = Some w -> wstepG q c s j w s' ->
  (forall x, In x (ws s) -> wq x = q) -> (forall x, In x (ws s') -> wq x = q).
Proof.
  intros q c s j w s' Hj HR H x Hx. assert (Hin : In w (ws s)) by (eapply nth_error_In; eauto).
  gcases HR; unf; apply In_upd in Hx; destruct Hx as [Hx|Hx]; auto; subst x; cbn [wq]; auto.
Qed.

Lemma bad_wstepG : forall q c s j w s', nth_error (ws s) j = Some w -> wstepG q c s j w s' ->
  (forall x, In x (ws s) -> bad (wp x) = false) -> (forall x, In x (ws s') -> bad (wp x) = false).
Proof.
  intros q c s j w s' Hj HR H x Hx.
  gcases HR; unf; apply In_upd in Hx; destruct Hx as [Hx|Hx]; auto; subst x; cbn [wp]; try reflexivity.
  destruct b; reflexivity.
Qed.

Lemma ws_wstepG : forall q c s j w s', wstepG q c s j w s' ->
  exists w', ws s' = upd (ws s) j w' /\ wq w' = wq w /\
    ((wp w <> WSpawn /\ wproc w' = wproc w /\ length (ps s') = length (ps s)) \/
     (wp w = WSpawn /\ wp w' = WGet /\ wproc w' = S (length (ps s)) /\ length (ps s') = S (length (ps s)))).
Proof.
  intros q c s j w s' HR.
  gcases HR; unf; eexists; (split; [reflexivity|]); cbn [wq wproc wp]; (split; [reflexivity|]);
  try (left; split; [congruence|split; [reflexivity|try rewrite upd_length; reflexivity]]).
  right. rewrite app_length. simpl. repeat split; auto; lia.
Qed.

Lemma palive_wstepG : forall q c s j w s', wstepG q c s j w s' ->
  forall k, 0 < k <= length (ps s) -> palive (getp s' k) = palive (getp s k).
Proof.
  intros q c s j w s' HR k Hk.
  gcases HR; unf; auto; try (apply nth_upd_f; reflexivity).
  rewrite app_nth1 by lia. reflexivity.
Qed.


(* ====================== part 4 ====================== *)

(* ---------- workers and their processes ---------- *)
Definition OW1 (s : state) : Prop :=
  forall w, In w (ws s) -> if spawnedb w then 1 <= wproc w <= length (ps s) else wproc w = 0.
Definition OW3 (s : state) : Prop :=
  forall j j' w w', j <> j' -> nth_error (ws s) j = Some w -> nth_error (ws s) j' = Some w' ->
    spawnedb w = true -> spawnedb w' = true -> wproc w <> wproc w'.
Definition CH (c : cfg) (s : state) : Prop :=
  forall w, In w (ws s) -> chanS c w (getp s (wproc w)) = true.

Lemma OW1_wstep : forall q c s j w s', nth_error (ws s) j = Some w -> wstepG q c s j w s' -> OW1 s -> OW1 s'.
Proof.
  intros q c s j w s' Hj HR H. assert (Hin : In w (ws s)) by (eapply nth_error_In; eauto).
  pose proof (H w Hin) as Hw. unfold spawnedb in Hw.
  assert (Hlen : length (ps s) <= length (ps s')).
  { destruct (ws_wstepG _ _ _ _ _ _ HR) as (w' & _ & _ & [(_ & _ & E)|(_ & _ & _ & E)]); lia. }
  assert (Hoth : forall x, In x (ws s) -> if spawnedb x then 1 <= wproc x <= length (ps s') else wproc x = 0).
  { intros x Hx. specialize (H x Hx). destruct (spawnedb x); auto. lia. }
  intros x Hx.
  gcases HR; rewrite Hpc in Hw; unf; apply In_upd in Hx; (destruct Hx as [Hx|Hx]; [|apply Hoth; exact Hx]);
  subst x; unfold spawnedb; cbn [wp wproc]; rewrite ?upd_length; try exact Hw.
  - rewrite app_length. simpl. lia.
  - destruct b; exact Hw.
Qed.

Lemma ws_wstepG' : forall q c s j w s', wstepG q c s j w s' ->
  exists w', ws s' = upd (ws s) j w' /\
    (spawnedb w' = true -> wp w <> WSpawn -> spawnedb w = true) /\
    ((wp w <> WSpawn /\ wproc w' = wproc w /\ length (ps s') = length (ps s)) \/
     (wp w = WSpawn /\ wp w' = WGet /\ wproc w' = S (length (ps s)) /\ length (ps s') = S (length (ps s)))).
Proof.
  intros q c s j w s' HR.
  gcases HR; unf; eexists; (split; [reflexivity|]); unfold spawnedb; rewrite Hpc; cbn [wq wproc wp];
  (split; [congruence|]);
  try (left; split; [congruence|split; [reflexivity|try rewrite upd_length; reflexivity]]).
  right. rewrite app_length. simpl. repeat split; auto; lia.
Qed.

Lemma OW3_wstep : forall q c s j w s', nth_error (ws s) j = Some w -> wstepG q c s j w s' ->
  OW1 s -> OW3 s -> OW3 s'.
Proof.
  intros q c s j w s' Hj HR H1 H3.
  destruct (ws_wstepG' _ _ _ _ _ _ HR) as (w' & Hws & Hsp & Hcase).
  intros j1 j2 w1 w2 Hne E1 E2 S1 S2. rewrite Hws in E1, E2.
  apply nth_error_upd_inv in E1. apply nth_error_upd_inv in E2.
  destruct E1 as [[A1 B1]|[A1 B1]]; destruct E2 as [[A2 B2]|[A2 B2]]; subst.
  - congruence.
  - destruct Hcase as [(N & Ew & _)|(N & _ & Ew & _)]; rewrite Ew.
    + eapply (H3 j j2 w w2); eauto.
    + pose proof (H1 w2 (nth_error_In _ _ B2)) as Hb. rewrite S2 in Hb. lia.
  - destruct Hcase as [(N & Ew & _)|(N & _ & Ew & _)]; rewrite Ew.
    + eapply (H3 j1 j w1 w); eauto.
    + pose proof (H1 w1 (nth_error_In _ _ B1)) as Hb. rewrite S1 in Hb. lia.
  - eapply (H3 j1 j2 w1 w2); eauto.
Qed.

Lemma getp_upd_other : forall s k k' p', k' - 1 <> k - 1 ->
  nth (k' - 1) (upd (ps s) (k - 1) p') (mkP PExit [] []) = nth (k' - 1) (ps s) (mkP PExit [] []).
Proof. intros. apply nth_upd_neq. auto. Qed.

Lemma CH_wstep : forall q c s j w s', nth_error (ws s) j = Some w -> wstepG q c s j w s' ->
  OW1 s -> OW3 s -> CH c s -> CH c s'.
Proof.
  intros q c s j w s' Hj HR H1 H3 HC. assert (Hin : In w (ws s)) by (eapply nth_error_In; eauto).
  pose proof (HC w Hin) as Hc. pose proof (H1 w Hin) as Hown. unfold spawnedb in Hown.
  (* the other workers *)
  assert (Hoth : forall mm x, mm <> j -> nth_error (ws s) mm = Some x ->
            chanS c x (getp s' (wproc x)) = true).
  { intros mm x Hm Hx. destruct (spawnedb x) eqn:Sx; [|apply chanS_unspawned; exact Sx].
    pose proof (H1 x (nth_error_In _ _ Hx)) as Hox. rewrite Sx in Hox.
    pose proof (HC x (nth_error_In _ _ Hx)) as Hcx.
    assert (Hd : spawnedb w = true -> wproc x - 1 <> wproc w - 1).
    { intros Sw Heq. pose proof (H1 w Hin) as How. rewrite Sw in How.
      apply (H3 mm j x w Hm Hx Hj Sx Sw). lia. }
    unfold spawnedb in Hd.
    gcases HR; rewrite Hpc in Hd; unf; try exact Hcx;
    try (rewrite nth_upd_neq; [exact Hcx|intros Heq; apply Hd; [reflexivity|symmetry; exact Heq]]).
    rewrite app_nth1 by lia. exact Hcx. }
  intros x Hx.
  gcases HR; rewrite Hpc in Hown; unf; apply In_upd_idx in Hx;
  (destruct Hx as [Hx|[mm [Hm1 Hm2]]]; [subst x|exact (Hoth mm x Hm1 Hm2)]);
  cbn [wproc]; try rewrite nth_upd_eq by lia;
  try match goal with |- context [if ?bb then WSWait else WSTd] => destruct bb end;
  try (chan_case Hc Hpc).
  replace (S (length (ps s)) - 1) with (length (ps s)) by lia.
  rewrite app_nth2 by lia. rewrite Nat.sub_diag. reflexivity.
Qed.

Lemma CH_pstep : forall c s k s' l, p_step c s k = Some (s', l) -> CH c s ->
  CH c s' /\ ws s' = ws s /\ length (ps s') = length (ps s).
Proof.
  intros c s k s' l Hst HC. unfold p_step in Hst.
  destruct (nth_error (ps s) (k - 1)) as [p|] eqn:Hp; [|discriminate].
  destruct (Nat.eqb k 0) eqn:Ek; [discriminate|].
  assert (Hc : forall w, In w (ws s) -> wproc w - 1 = k - 1 -> chanS c w p = true).
  { intros w Hw E. pose proof (HC w Hw) as Hc. unfold getp in Hc. rewrite E in Hc.
    rewrite (nth_error_nth' _ _ _ _ _ Hp) in Hc. exact Hc. }
  assert (Hset : forall p', (forall w, In w (ws s) -> wproc w - 1 = k - 1 -> chanS c w p' = true) ->
            CH c (setp s k p') /\ ws (setp s k p') = ws s /\ length (ps (setp s k p')) = length (ps s)).
  { intros p' Hp'. split; [|split; [reflexivity|unf; apply upd_length]].
    intros w Hw. unf.
    destruct (nth_upd_or _ (ps s) (k - 1) (wproc w - 1) p' (mkP PExit [] [])) as [[E1 E2]|E2]; rewrite E2.
    - apply Hp'; auto.
    - apply (HC w Hw). }
  destruct p as [pc ib ob]. cbn [pp inbox outbox] in Hst.
  destruct pc as [| |i|i| |].
  - inversion Hst; subst; clear Hst. apply Hset. intros w Hw E. specialize (Hc w Hw E).
    chan_open. destruct (wp w); chan_solve.
  - destruct ib as [|m t]; [discriminate|].
    destruct m; inversion Hst; subst; clear Hst; apply Hset; intros w Hw E; specialize (Hc w Hw E);
    chan_open; destruct (wp w); destruct t as [|m2 t]; destruct ob as [|o1 ob]; chan_solve.
  - inversion Hst; subst; clear Hst. apply Hset. intros w Hw E. specialize (Hc w Hw E).
    chan_open; destruct (wp w); destruct ib as [|m1 ib]; destruct ob as [|o1 ob]; chan_solve.
  - inversion Hst; subst; clear Hst. apply Hset. intros w Hw E. specialize (Hc w Hw E).
    chan_open; destruct (wp w); destruct ib as [|m1 ib]; destruct ob as [|o1 ob]; chan_solve; try (destruct (raises c i); chan_solve).
  - inversion Hst; subst; clear Hst. apply Hset. intros w Hw E. specialize (Hc w Hw E).
    chan_open; destruct (wp w); destruct ib as [|m1 ib]; destruct ob as [|o1 ob]; chan_solve.
  - discriminate.
Qed.

Lemma fin_wstepG : forall q c s j w s', OW1 s ->
  nth_error (ws s) j = Some w -> wstepG q c s j w s' -> D_fin s -> D_fin s'.
Proof.
  intros q c s j w s' Ho1 Hj HR H. assert (Hin : In w (ws s)) by (eapply nth_error_In; eauto).
  unfold D_fin in *. intros x Hx Hfx.
  pose proof (palive_wstepG _ _ _ _ _ _ HR) as Hpa.
  assert (Hown : forall y, In y (ws s) -> wfin y = true -> 0 < wproc y <= length (ps s)).
  { intros y Hy Hfy. pose proof (Ho1 y Hy) as Hoy. unfold wfin in Hfy. unfold spawnedb in Hoy.
    destruct (wp y); try discriminate Hfy; lia. }
  assert (Hold : wfin w = true -> palive (getp s' (wproc w)) = false).
  { intros Hw. rewrite Hpa; auto. }
  assert (Hoth : In x (ws s) -> palive (getp s' (wproc x)) = false).
  { intros Hw. rewrite Hpa; auto. }
  clear H. unfold wfin in Hold.
  gcases HR; rewrite Hpc in Hold; unf; apply In_upd in Hx;
  (destruct Hx as [Hx|Hx]; [subst x; unfold wfin in Hfx; cbn [wp wproc] in *; try discriminate Hfx; auto | auto]).
Qed.

Lemma own_wstepG : forall q c s j w s', OW1 s ->
  nth_error (ws s) j = Some w -> wstepG q c s j w s' -> D_own s -> D_own s'.
Proof.
  intros q c s j w s' Ho1 Hj HR H. assert (Hin : In w (ws s)) by (eapply nth_error_In; eauto).
  pose proof (nth_error_some_lt _ _ _ _ Hj) as Hlt.
  destruct (ws_wstepG _ _ _ _ _ _ HR) as (w' & Hws & _ & Hpr).
  unfold D_own in *. rewrite Hws. intros k Hk.
  assert (Hcase : k < length (ps s) \/ (wp w = WSpawn /\ wproc w' = S k)).
  { destruct Hpr as [(Hp1 & Hp2 & Hp3)|(Hp1 & Hp2 & Hp3 & Hp4)].
    - left. rewrite <- Hp3; auto.
    - rewrite Hp4 in Hk. destruct (Nat.eq_dec k (length (ps s))) as [He|He].
      + right. subst k. auto.
      + left. lia. }
  destruct Hcase as [Hc|[Hc1 Hc2]].
  - destruct (H k Hc) as [x [Hx Hxk]]. apply In_nth_error in Hx. destruct Hx as [mm Hm].
    destruct (Nat.eq_dec mm j) as [He|He].
    + subst mm. rewrite Hj in Hm. inversion Hm; subst x. exists w'. split. apply In_upd_self; auto.
      destruct Hpr as [(Hp1 & Hp2 & Hp3)|(Hp1 & _)]; [congruence|].
      pose proof (Ho1 w Hin) as Hso. unfold spawnedb in Hso. rewrite Hp1 in Hso. lia.
    + exists x. split; auto. eapply In_upd_other; eauto.
  - exists w'. split; auto. apply In_upd_self; auto.
Qed.


(* ====================== part 5 ====================== *)

(* ---------- where a call is: counting ---------- *)
Definition eqn (i j : nat) : nat := if Nat.eqb i j then 1 else 0.
Definition lc (l : list (nat * list nat)) (i : nat) : nat := count (fun e => Nat.eqb i (fst e)) l.
Definition kc (k : rcont) (rw : list (nat * list nat)) (i : nat) : nat :=
  match k with KTd => lc rw i | KScan pre post _ _ => lc pre i + lc post i end.

(* calls in the resolver's hands whose future it has not yet touched *)
Definition rpre (r : rpc) (rw : list (nat * list nat)) (i : nat) : nat :=
  match r with
  | RCheck j _ _ => eqn i j + lc rw i
  | RRes j _ k | RFwd j k | RFailSrnc j k => eqn i j + kc k rw i
  | RFailSet _ k => kc k rw i
  | RScan pre cur _ _ _ post _ _ => lc pre i + eqn i cur + lc post i
  | _ => lc rw i
  end.
Definition rfs (r : rpc) (i : nat) : nat := match r with RFailSet j _ => eqn i j | _ => 0 end.

Definition pcnt (d : dstate) (i : nat) : nat :=
  count (taskb i) (qitems (getq (dbase d) 0)) + mdc (main (dbase d)) i + rpre (rp d) (rwait d) i
  + count (taskb i) (qitems (getq (dbase d) 1)) + count (srncb i) (ws (dbase d)).
Definition rcnt (d : dstate) (i : nat) : nat := count (runsb i) (ws (dbase d)) + rfs (rp d) i.

Definition EIf (n : nat) (p r : nat -> nat) (fs : list fstate) (sb : list nat) : Prop :=
  forall i, 1 <= i <= n ->
    p i + r i <= 1 /\
    (fdone (nth (i - 1) fs FPending) = true \/ ~ In i sb \/ p i + r i = 1) /\
    (In i sb \/ p i + r i = 0) /\
    (1 <= p i -> fpend (nth (i - 1) fs FPending) = true) /\
    (~ In i sb -> nth (i - 1) fs FPending = FPending) /\
    (1 <= r i -> isrun (nth (i - 1) fs FPending) = true).

Definition EI (n : nat) (d : dstate) : Prop :=
  EIf n (pcnt d) (rcnt d) (futs (dbase d)) (subm (dbase d)).

Lemma eqn_refl : forall i, eqn i i = 1.
Proof. intros i. unfold eqn. rewrite Nat.eqb_refl. reflexivity. Qed.
Lemma eqn_neq : forall i j, i <> j -> eqn i j = 0.
Proof. intros i j H. unfold eqn. apply Nat.eqb_neq in H. rewrite H. reflexivity. Qed.

Lemma EI_same : forall n p r p' r' fs sb, (forall i, p' i = p i) -> (forall i, r' i = r i) ->
  EIf n p r fs sb -> EIf n p' r' fs sb.
Proof. intros n p r p' r' fs sb Hp Hr H i Hi. rewrite Hp, Hr. apply H; auto. Qed.

Lemma fpend_fcancel' : forall f, fpend (fst (fcancel f)) = fpend f.
Proof. intros []; reflexivity. Qed.
Lemma fdone_fcancel : forall f, fdone f = true -> fdone (fst (fcancel f)) = true.
Proof. intros []; simpl; auto. Qed.

Lemma EI_cancel : forall n p r fs sb i0, In i0 sb -> 1 <= i0 ->
  EIf n p r fs sb -> EIf n p r (upd fs (i0 - 1) (fst (fcancel (nth (i0 - 1) fs FPending)))) sb.
Proof.
  intros n p r fs sb i0 Hin Hi0 H i Hi. destruct (H i Hi) as (E1 & E2 & E3 & E4 & E5 & E6).
  set (fs' := upd fs (i0 - 1) (fst (fcancel (nth (i0 - 1) fs FPending)))).
  assert (Hd : fdone (nth (i - 1) fs FPending) = true -> fdone (nth (i - 1) fs' FPending) = true).
  { unfold fs'. destruct (nth_upd_or _ fs (i0 - 1) (i - 1) (fst (fcancel (nth (i0 - 1) fs FPending))) FPending) as [[A B]|B];
    rewrite B; auto. rewrite A. apply fdone_fcancel. }
  assert (Hp : fpend (nth (i - 1) fs' FPending) = fpend (nth (i - 1) fs FPending)).
  { unfold fs'. apply nth_upd_f. apply fpend_fcancel'. }
  assert (Hr : isrun (nth (i - 1) fs' FPending) = isrun (nth (i - 1) fs FPending)).
  { unfold fs'. apply nth_upd_f. apply isrun_fcancel. }
  repeat split; auto.
  - destruct E2 as [E2|[E2|E2]]; auto.
  - rewrite Hp. exact E4.
  - intros Hn. unfold fs'. rewrite nth_upd_neq. auto. intros Heq. apply Hn.
    assert (i = i0) by lia. subst. exact Hin.
  - rewrite Hr. exact E6.
Qed.

(* a future is touched at index i0 - 1 *)
Lemma EI_fut : forall n p r p' r' fs sb i0 f, length fs = n -> 1 <= i0 <= n ->
  EIf n p r fs sb ->
  (forall i, i <> i0 -> p' i = p i /\ r' i = r i) ->
  p' i0 + r' i0 <= p i0 + r i0 ->
  1 <= p i0 + r i0 ->
  (p' i0 + r' i0 = 0 -> fdone f = true) ->
  p' i0 = 0 ->
  (1 <= r' i0 -> isrun f = true) ->
  EIf n p' r' (upd fs (i0 - 1) f) sb.
Proof.
  intros n p r p' r' fs sb i0 f Hlen Hi0 H Hoth Hle Hpos Hdone Hp0 Hrun i Hi.
  destruct (Nat.eq_dec i i0) as [E|E].
  - subst i. destruct (H i0 Hi) as (E1 & E2 & E3 & E4 & E5 & E6).
    rewrite nth_upd_eq by lia.
    assert (Hsb : In i0 sb) by (destruct E3 as [E3|E3]; [exact E3|lia]).
    repeat split.
    + lia.
    + destruct (Nat.eq_dec (p' i0 + r' i0) 0) as [Z|Z]; [left; auto|right; right; lia].
    + left. exact Hsb.
    + intros Hp. lia.
    + intros Hn. contradiction.
    + exact Hrun.
  - destruct (Hoth i E) as [A B]. rewrite A, B. rewrite nth_upd_neq by lia. apply H; auto.
Qed.

Lemma EI_submit : forall n p r p' fs sb i0, 1 <= i0 <= n -> ~ In i0 sb ->
  EIf n p r fs sb ->
  (forall i, p' i = p i + eqn i i0) ->
  EIf n p' r fs (sb ++ [i0]).
Proof.
  intros n p r p' fs sb i0 Hi0 Hn H Hp i Hi. rewrite Hp.
  destruct (Nat.eq_dec i i0) as [E|E].
  - subst i. rewrite eqn_refl. destruct (H i0 Hi) as (E1 & E2 & E3 & E4 & E5 & E6).
    assert (Hz : p i0 + r i0 = 0) by (destruct E3 as [E3|E3]; [contradiction|exact E3]).
    repeat split.
    + lia.
    + right; right. lia.
    + left. apply in_or_app. right. left. reflexivity.
    + intros _. rewrite (E5 Hn). reflexivity.
    + intros Hc. exfalso. apply Hc. apply in_or_app. right. left. reflexivity.
    + intros Hr. lia.
  - rewrite eqn_neq by auto. rewrite Nat.add_0_r. destruct (H i Hi) as (E1 & E2 & E3 & E4 & E5 & E6).
    repeat split; auto.
    + destruct E2 as [E2|[E2|E2]]; auto. right; left. intros Hc. apply in_app_or in Hc.
      destruct Hc as [Hc|[Hc|[]]]; [contradiction|congruence].
    + destruct E3 as [E3|E3]; auto. left. apply in_or_app. left. exact E3.
    + intros Hc. apply E5. intros Hin. apply Hc. apply in_or_app. left. exact Hin.
Qed.

Lemma srncb_pc : forall i w pc, wp w = pc -> srncb i w = match pc with WSrnc j => Nat.eqb i j | _ => false end.
Proof. intros i w pc H. unfold srncb. rewrite H. reflexivity. Qed.

Lemma runsb_pc : forall i w pc, wp w = pc ->
  runsb i w = match pc with
              | WSend j | WRecv j | WSetRes j _
              | WEPoll j | WESend j | WERecv j | WEComm j | WETerm j | WEWait j | WETd j | WESetExc j => Nat.eqb i j
              | _ => false end.
Proof. intros i w pc H. unfold runsb, w_run. rewrite H. destruct pc; reflexivity. Qed.

Ltac wcount i Hj Hpc :=
  let A := fresh "A" in let B := fresh "B" in
  match goal with
  | |- context [upd ?l ?j ?x] =>
      pose proof (count_upd _ (srncb i) l j x _ Hj) as A;
      pose proof (count_upd _ (runsb i) l j x _ Hj) as B
  end;
  rewrite (srncb_pc i _ _ Hpc) in A; rewrite (runsb_pc i _ _ Hpc) in B;
  cbn [srncb runsb w_run wp] in A, B.

Lemma EI_wstep : forall c n d j w s', length (futs (dbase d)) = n ->
  1 < length (queues (dbase d)) ->
  nth_error (ws (dbase d)) j = Some w -> (forall i, w_call w = Some i -> 1 <= i <= n) ->
  wstepG 1 c (dbase d) j w s' -> EI n d -> EI n (set_dbase d s').
Proof.
  intros c n d j w s' Hlen Hql Hj Hrng HR H. unfold EI in *.
  unfold w_call in Hrng.
  gcases HR; rewrite Hpc in Hrng.
  all: try (eapply EI_same; [| |exact H]; intros i0; unfold pcnt, rcnt; xsn; unf;
            rewrite ?(nth_upd_eq _ _ _ _ _ Hql), ?nth_upd_neq by lia; cbn [qitems];
            try (destruct b); wcount i0 Hj Hpc; try rewrite Hit in *; simpl tl; rewrite ?count_cons in *;
            cbn [taskb] in *; try lia).
  all: pose proof (Hrng i eq_refl) as Hi; destruct (H i Hi) as (E1 & _);
    eapply (EI_fut n (pcnt d) (rcnt d) _ _ _ _ i _ Hlen Hi H);
    [ intros i0 Hne; apply Nat.eqb_neq in Hne | | | | | ];
    unfold pcnt, rcnt in *; xsn; unf; rewrite ?nth_upd_neq by lia;
    try wcount i Hj Hpc; try wcount i0 Hj Hpc; rewrite ?Nat.eqb_refl in *; rewrite ?Hne in *; try lia;
    try reflexivity; try (intros; reflexivity); try (intros; lia).
  all: assert (Hin : In w (ws (base (xs d)))) by (eapply nth_error_In; eauto).
  - assert (Hs : srncb i w = true) by (rewrite (srncb_pc i _ _ Hpc); apply Nat.eqb_refl).
    pose proof (count_pos _ (srncb i) _ _ Hin Hs). lia.
  - assert (Hs : srncb i w = true) by (rewrite (srncb_pc i _ _ Hpc); apply Nat.eqb_refl).
    pose proof (count_pos _ (srncb i) _ _ Hin Hs). lia.
  - assert (Hs : runsb i w = true) by (rewrite (runsb_pc i _ _ Hpc); apply Nat.eqb_refl).
    pose proof (count_pos _ (runsb i) _ _ Hin Hs). lia.
Qed.


(* ====================== part 6 ====================== *)

Lemma lc_app : forall l1 l2 i, lc (l1 ++ l2) i = lc l1 i + lc l2 i.
Proof. intros. unfold lc. apply count_app. Qed.
Lemma lc_one : forall j dj i, lc [(j, dj)] i = eqn i j.
Proof. intros. unfold lc, eqn. rewrite count_cons. simpl. rewrite count_nil. lia. Qed.
Lemma lc_cons : forall j dj l i, lc ((j, dj) :: l) i = eqn i j + lc l i.
Proof. intros. unfold lc, eqn. rewrite count_cons. reflexivity. Qed.
Lemma lc_nil : forall i, lc [] i = 0.
Proof. reflexivity. Qed.

Section Rpre.
  Variables (c : dcfg) (k : nat).
  Hypothesis Hk : dinner c = IBlock k.

  Lemma rq_start_pass : forall d a i,
    rpre (rp (start_pass c d a)) (rwait (start_pass c d a)) i = lc (rwait d) i /\
    rfs (rp (start_pass c d a)) i = 0.
  Proof.
    intros d a i. destruct (start_pass_cases c d a k Hk) as [(j & dj & rest & E1 & E2)|[(E1 & E2 & E3)|(w & E1 & E2 & E3)]].
    - rewrite E2. simpl. rewrite E1. rewrite lc_cons, ?lc_nil. split; auto; simpl; lia.
    - rewrite E3. simpl. auto.
    - rewrite E3. simpl. auto.
  Qed.

  Lemma rq_scan_next : forall d pre post n0 a i,
    rpre (rp (scan_next c d pre post n0 a)) (rwait (scan_next c d pre post n0 a)) i = lc pre i + lc post i /\
    rfs (rp (scan_next c d pre post n0 a)) i = 0.
  Proof.
    intros d pre post n0 a i.
    destruct (scan_next_cases c d pre post n0 a) as [(j & dj & rest & E1 & E2)|(E1 & [E2|[(E2 & E3)|(w & E2 & E3)]])].
    - rewrite E2. subst post. simpl. rewrite lc_cons. split; auto. lia.
    - rewrite E2. subst post. simpl. rewrite ?lc_nil. split; auto; simpl; lia.
    - rewrite E3. subst post. simpl. rewrite ?lc_nil. split; auto; simpl; lia.
    - rewrite E3. subst post.
      destruct (rq_start_pass (mkD (xs d) (rp d) pre) (AShut w) i) as [A B]. rewrite A, B. simpl.
      rewrite ?lc_nil. split; auto; simpl; lia.
  Qed.

  Lemma rq_kont : forall d kk i,
    rpre (rp (kont c d kk)) (rwait (kont c d kk)) i = kc kk (rwait d) i /\ rfs (rp (kont c d kk)) i = 0.
  Proof. intros d [|pre post n0 a] i; simpl. auto. apply rq_scan_next. Qed.

  Lemma rq_aid : forall d j deps kk i,
    rpre (rp (after_inputs_done d j deps kk)) (rwait (after_inputs_done d j deps kk)) i = eqn i j + kc kk (rwait d) i /\
    rfs (rp (after_inputs_done d j deps kk)) i = 0.
  Proof. intros d j deps kk i. unfold after_inputs_done. destruct deps; simpl; auto. Qed.
End Rpre.

Lemma rq1_start_pass : forall c k, dinner c = IBlock k -> forall d a i,
  rpre (rp (start_pass c d a)) (rwait (start_pass c d a)) i = lc (rwait d) i.
Proof. intros c k Hk d a i. apply (rq_start_pass c k Hk). Qed.
Lemma rq2_start_pass : forall c k, dinner c = IBlock k -> forall d a i, rfs (rp (start_pass c d a)) i = 0.
Proof. intros c k Hk d a i. apply (rq_start_pass c k Hk). Qed.
Lemma rq1_scan_next : forall c k, dinner c = IBlock k -> forall d pre post n0 a i,
  rpre (rp (scan_next c d pre post n0 a)) (rwait (scan_next c d pre post n0 a)) i = lc pre i + lc post i.
Proof. intros c k Hk d pre post n0 a i. apply (rq_scan_next c k Hk). Qed.
Lemma rq2_scan_next : forall c k, dinner c = IBlock k -> forall d pre post n0 a i,
  rfs (rp (scan_next c d pre post n0 a)) i = 0.
Proof. intros c k Hk d pre post n0 a i. apply (rq_scan_next c k Hk). Qed.
Lemma rq1_kont : forall c k, dinner c = IBlock k -> forall d kk i,
  rpre (rp (kont c d kk)) (rwait (kont c d kk)) i = kc kk (rwait d) i.
Proof. intros c k Hk d kk i. apply (rq_kont c k Hk). Qed.
Lemma rq2_kont : forall c k, dinner c = IBlock k -> forall d kk i, rfs (rp (kont c d kk)) i = 0.
Proof. intros c k Hk d kk i. apply (rq_kont c k Hk). Qed.
Lemma rq1_aid : forall d j deps kk i,
  rpre (rp (after_inputs_done d j deps kk)) (rwait (after_inputs_done d j deps kk)) i = eqn i j + kc kk (rwait d) i.
Proof. intros. apply rq_aid. Qed.
Lemma rq2_aid : forall d j deps kk i, rfs (rp (after_inputs_done d j deps kk)) i = 0.
Proof. intros. apply rq_aid. Qed.

Ltac rq Hk :=
  rewrite ?(rq1_start_pass _ _ Hk), ?(rq2_start_pass _ _ Hk), ?(rq1_scan_next _ _ Hk), ?(rq2_scan_next _ _ Hk),
          ?(rq1_kont _ _ Hk), ?(rq2_kont _ _ Hk), ?rq1_aid, ?rq2_aid.

Lemma EI_rstep : forall c k n d d' l, dinner c = IBlock k -> length (futs (dbase d)) = n ->
  1 < length (queues (dbase d)) -> rP0 (rng n) (rp d) ->
  r_step c d = Some (d', l) -> EI n d -> EI n d'.
Proof.
  intros c k n d d' l Hk Hlen Hql Hrng H HE. unfold EI in *. unfold r_step in H. cbv zeta in H.
  destruct (rp d) eqn:Hrp; simpl in Hrng.
  all: try (match type of Hrp with _ = RFailSrnc ?j _ =>
       assert (Hfp : fpend (getf (dbase d) j) = true)
         by (destruct Hrng as [Hi _]; destruct (HE j Hi) as (_ & _ & _ & E4 & _); apply E4;
             unfold pcnt; rewrite Hrp; cbn [rpre]; rewrite eqn_refl; lia) end).
  all: try (match type of Hrp with _ = RFailSet ?j _ =>
       assert (Hfr : isrun (getf (dbase d) j) = true)
         by (destruct Hrng as [Hi _]; destruct (HE j Hi) as (_ & _ & _ & _ & _ & E6); apply E6;
             unfold rcnt; rewrite Hrp; cbn [rfs]; rewrite eqn_refl; lia) end).
  all: destr_all H; try discriminate H; inversion H; subst; clear H.
  all: try (simpl in Hfp; discriminate Hfp).
  all: try (simpl in Hfr; discriminate Hfr).
  all: try (xsn; eapply EI_same; [| |exact HE]; intros ii; unfold pcnt, rcnt; rewrite Hrp; rq Hk; xsn; unf;
            rewrite ?nth_upd_eq, ?nth_upd_neq by lia; cbn [qitems rpre rfs kc rp rwait];
            rewrite ?count_app, ?lc_app, ?lc_one, ?count_cons, ?count_nil; cbn [taskb];
            try match goal with E : qitems _ = _ |- _ => rewrite E end; simpl tl;
            rewrite ?count_cons; cbn [taskb]; unfold eqn; try lia).
  all: destruct Hrng as [Hi Hrk]; destruct (HE i Hi) as (E1 & _); xsn; unf;
    eapply (EI_fut _ (pcnt d) (rcnt d) _ _ _ _ i _ eq_refl Hi HE);
    [ intros ii Hne | | | | | ];
    unfold pcnt, rcnt in *; rewrite Hrp in *; rq Hk; xsn; unf; cbn [rpre rfs kc rp rwait] in *;
    rewrite ?eqn_refl in *; rewrite ?(eqn_neq _ _ Hne); try lia;
    try reflexivity; try (intros; reflexivity); try (intros; lia).
Qed.


(* ====================== part 7 ====================== *)

(* ---------- the client's operations as ExecLive's mstepR (with one "worker": the resolver) ---------- *)
Lemma xm_norm_put0 : forall x s1 w,
  xm_norm (set_base x (set_main s1 (MPutShut w 0))) =
  if cur_wait s1 then set_base x (set_main s1 (MJoin 0))
  else set_base x (m_done (set_main s1 (MPutShut w 0)) (if cur_silent s1 then [] else [XOk]) true).
Proof.
  intros. unfold xm_norm. cbn [base set_base main set_main].
  change (cur_wait (set_main s1 (MPutShut w 0))) with (cur_wait s1).
  destruct (cur_wait s1); reflexivity.
Qed.

Lemma xm_norm_putS : forall x s1 w k, xm_norm (set_base x (set_main s1 (MPutShut w (S k)))) =
  set_base x (set_main s1 (MPutShut w (S k))).
Proof. intros. reflexivity. Qed.

Definition xframe (x x' : xstate) : Prop := disp x' = disp x /\ active x' = active x /\ launched x' = launched x.

Lemma xput_result : forall c x w k x' l, put_src (bcfg c) (base x) w k ->
  Some (xm_norm (set_base x (set_main (qput (base x) 0 (Shut w)) (MPutShut w k))), LPut 0 (Shut w)) = Some (x', l) ->
  mstepR (bcfg c) (base x) (base x') /\ xframe x x'.
Proof.
  intros c x w k x' l Hsrc H. destruct k as [|k].
  - rewrite xm_norm_put0 in H.
    change (cur_wait (qput (base x) 0 (Shut w))) with (cur_wait (base x)) in H.
    change (cur_silent (qput (base x) 0 (Shut w))) with (cur_silent (base x)) in H.
    destruct (cur_wait (base x)) eqn:Hw; inversion H; subst; simpl; (split; [|repeat split]).
    + apply MR_putJ; auto.
    + apply MR_putF; auto.
  - rewrite xm_norm_putS in H. inversion H; subst. simpl. split; [|repeat split]. apply MR_putK; auto.
Qed.

Lemma xdrain_result : forall c x w x' l, drain_src (base x) w ->
  (forall b rest, qitems (getq (base x) 0) = Shut b :: rest -> False) ->
  match drain_step (base x) w with
  | Some (b, l0) => Some (set_base x b, l0)
  | None => Some (xm_norm (set_base x (set_main (base x) (MPutShut w 1))), LGetNw 0 None)
  end = Some (x', l) ->
  mstepR (bcfg c) (base x) (base x') /\ xframe x x'.
Proof.
  intros c x w x' l Hsrc Hns H. unfold drain_step in H.
  destruct (qitems (getq (base x) 0)) as [|[j|b] rest] eqn:Hit.
  - rewrite xm_norm_putS in H. inversion H; subst. simpl. split; [|repeat split].
    change 1 with (nworkers (bcfg c)). apply MR_drainE; auto.
  - inversion H; subst. simpl. split; [|repeat split]. eapply MR_drainT; eauto.
  - exfalso. eapply Hns; eauto.
Qed.

Lemma xm_step_R : forall c x x' l,
  main (base x) <> MBegin -> (forall k, main (base x) <> MStart k) -> (forall k, main (base x) <> MJoin k) ->
  (forall w b rest, drain_src (base x) w -> qitems (getq (base x) 0) = Shut b :: rest -> False) ->
  xm_step c x = Some (x', l) -> mstepR (bcfg c) (base x) (base x') /\ xframe x x'.
Proof.
  intros c x x' l N1 N2 N3 Hns H. unfold xm_step in H. cbv zeta in H.
  destruct (main (base x)) eqn:Hm; try congruence; try (exfalso; eapply N2; reflexivity);
  try (exfalso; eapply N3; reflexivity).
  - destruct (ops (base x)) as [|o t] eqn:Ho; [discriminate|]. destruct o as [i|i|i|w b| |].
    + inversion H; subst. simpl. split; [|repeat split]. eapply MR_submit; eauto.
    + destruct (fcancel (getf (base x) i)) as [f b] eqn:Hf. inversion H; subst. simpl.
      split; [|repeat split]. eapply MR_cancel; eauto.
    + destruct (fdone (getf (base x) i)) eqn:Hf; [|discriminate]. inversion H; subst. simpl.
      split; [|repeat split]. eapply MR_result; eauto.
    + destruct b.
      * eapply xdrain_result; eauto. right. split; eauto. intros b rest Hq. eapply Hns; [|exact Hq]. right; split; eauto.
      * eapply xput_result; eauto. left. repeat split; eauto.
    + eapply xput_result; eauto. left. repeat split; eauto.
    + eapply xput_result; eauto. left. repeat split; eauto.
  - eapply xdrain_result; eauto. left; auto. intros b rest Hq. eapply Hns; [|exact Hq]. left; eauto.
  - destruct (fcancel (getf (base x) j)) as [f b] eqn:Hf. inversion H; subst. simpl.
    split; [|repeat split]. eapply MR_dcancel; eauto.
  - inversion H; subst. simpl. split; [|repeat split]. eapply MR_dtd; eauto.
  - destruct k as [|k']; [discriminate|]. eapply xput_result; eauto. right; auto.
  - destruct (Nat.eqb (qunf (getq (base x) 0)) 0) eqn:He; [|discriminate]. apply Nat.eqb_eq in He.
    inversion H; subst. simpl. split; [|repeat split]. apply MR_qjoin; auto.
Qed.

Definition plainm (m : mpc) : Prop :=
  m <> MBegin /\ (forall k, m <> MStart k) /\ (forall k, m <> MJoin k).

Inductive dmR (c : dcfg) (k : nat) (d : dstate) : dstate -> Prop :=
| DMR_x x' : plainm (main (dbase d)) -> mstepR (bcfg (dx c)) (dbase d) (base x') -> xframe (xs d) x' ->
    dmR c k d (set_xs d x')
| DMR_begin : main (dbase d) = MBegin ->
    dmR c k d (set_dbase d (set_main (set_queues (dbase d) (queues (dbase d) ++ [mkQ [] 0])) (MStart 0)))
| DMR_start j : main (dbase d) = MStart j -> j < k ->
    dmR c k d (set_dbase d (set_main (set_ws (dbase d) (ws (dbase d) ++ [mkW 1 0 WBegin])) (MStart (S j))))
| DMR_startL j : main (dbase d) = MStart j -> ~ j < k ->
    dmR c k d (mkD (set_base (xs d) (m_goto (dbase d) (ops (dbase d) ++ [ODrop]) [] false)) RBegin (rwait d))
| DMR_join j : main (dbase d) = MJoin j -> rp d = RDone ->
    dmR c k d (set_dbase d (set_main (dbase d) MQJoin)).

Lemma dm_step_R : forall c k d d' l, dinner c = IBlock k -> 1 <= k -> rp d <> RDead ->
  (forall w b rest, drain_src (dbase d) w -> qitems (getq (dbase d) 0) = Shut b :: rest -> False) ->
  dm_step c d = Some (d', l) -> dmR c k d d'.
Proof.
  intros c k d d' l Hk Hk1 Hnd Hns H. unfold dm_step in H. cbv zeta in H. rewrite Hk in H. unfold dbase in *.
  assert (Hx : plainm (main (base (xs d))) ->
     match xm_step (dx c) (xs d) with Some (x', l0) => Some (set_xs d x', l0) | None => None end = Some (d', l) ->
     dmR c k d d').
  { intros (N1 & N2 & N3) Hx. destruct (xm_step (dx c) (xs d)) as [[x' l0]|] eqn:Hxs; [|discriminate].
    inversion Hx; subst. destruct (xm_step_R _ _ _ _ N1 N2 N3 Hns Hxs) as [A B].
    apply DMR_x; auto. repeat split; auto. }
  destruct (main (base (xs d))) eqn:Hm;
  try (apply Hx; [repeat split; try discriminate; intros k0; discriminate|exact H]).
  - destruct k as [|k']; [lia|]. inversion H; subst. apply DMR_begin. exact Hm.
  - destruct (Nat.ltb k0 k) eqn:Hlt; inversion H; subst.
    + apply Nat.ltb_lt in Hlt. eapply DMR_start; eauto.
    + apply Nat.ltb_ge in Hlt. eapply DMR_startL; eauto. lia.
  - destruct (rdone (rp d)) eqn:Hrd; [|discriminate]. destruct (rp d) eqn:Hrp; try discriminate Hrd.
    + inversion H; subst. eapply DMR_join; eauto.
    + congruence.
Qed.

(* what the client's queue operations leave alone *)
Lemma mstepR_frame : forall c s s', plainm (main s) -> mstepR c s s' ->
  ws s' = ws s /\ ps s' = ps s /\ length (queues s') = length (queues s) /\
  (forall q, q <> 0 -> getq s' q = getq s q).
Proof.
  intros c s s' (N1 & N2 & N3) HR.
  mcases HR; try congruence; try (exfalso; eapply N2; eauto; fail); try (exfalso; eapply N3; eauto; fail);
  try mgoto; unf; rewrite ?upd_length; repeat split; auto; intros q Hq; apply nth_upd_neq; auto.
Qed.


(* ====================== part 8 ====================== *)

(* ---------- queue-level invariants of the two levels ---------- *)
Definition C0 (d : dstate) : Prop :=
  qunf (getq (dbase d) 0) = length (qitems (getq (dbase d) 0)) + r_holds (rp d) + m_holds (dbase d).
Definition S0 (c : dcfg) (d : dstate) : Prop :=
  count is_shut (qitems (getq (dbase d) 0)) + r_past0 (rp d) = shuts_put (bcfg (dx c)) (dbase d).
Definition T0 (d : dstate) : Prop := srt (qitems (getq (dbase d) 0)) = true.
Definition P0q (d : dstate) : Prop := r_past0 (rp d) = 1 -> forallb is_shut (qitems (getq (dbase d) 0)) = true.
Definition C1 (d : dstate) : Prop := CQ 1 0 (dbase d).
Definition S1 (k : nat) (d : dstate) : Prop := SQ 1 (sp1 k (rp d)) (dbase d).
Definition T1 (d : dstate) : Prop := TQ 1 (dbase d).
Definition P1q (d : dstate) : Prop := PQ 1 (dbase d).
Definition J1 (k : nat) (d : dstate) : Prop :=
  (forall j, rp d = RInJoin j -> j < k) /\ (forall w j, rp d = RInPut w j -> 1 <= j <= k).

Definition QI (c : dcfg) (k : nat) (d : dstate) : Prop :=
  C0 d /\ S0 c d /\ T0 d /\ P0q d /\ C1 d /\ S1 k d /\ T1 d /\ P1q d /\ J1 k d.

Lemma rh_sp : forall c k, dinner c = IBlock k -> forall d a, r_holds (rp (start_pass c d a)) = aholds a.
Proof. intros c k Hk d a. apply (ph_start_pass c k Hk). Qed.
Lemma rp_sp : forall c k, dinner c = IBlock k -> forall d a, r_past0 (rp (start_pass c d a)) = aholds a.
Proof. intros c k Hk d a. apply (ph_start_pass c k Hk). Qed.
Lemma s1_sp : forall c k, dinner c = IBlock k -> forall d a, sp1 k (rp (start_pass c d a)) = 0.
Proof. intros c k Hk d a. apply (ph_start_pass c k Hk). Qed.
Lemma rh_sn : forall c k, dinner c = IBlock k -> forall d pre post n0 a, r_holds (rp (scan_next c d pre post n0 a)) = aholds a.
Proof. intros c k Hk d pre post n0 a. apply (ph_scan_next c k Hk). Qed.
Lemma rp_sn : forall c k, dinner c = IBlock k -> forall d pre post n0 a, r_past0 (rp (scan_next c d pre post n0 a)) = aholds a.
Proof. intros c k Hk d pre post n0 a. apply (ph_scan_next c k Hk). Qed.
Lemma s1_sn : forall c k, dinner c = IBlock k -> forall d pre post n0 a, sp1 k (rp (scan_next c d pre post n0 a)) = 0.
Proof. intros c k Hk d pre post n0 a. apply (ph_scan_next c k Hk). Qed.
Lemma rh_k : forall c k, dinner c = IBlock k -> forall d kk, r_holds (rp (kont c d kk)) = kholds kk.
Proof. intros c k Hk d kk. apply (ph_kont c k Hk). Qed.
Lemma rp_k : forall c k, dinner c = IBlock k -> forall d kk, r_past0 (rp (kont c d kk)) = kpast kk.
Proof. intros c k Hk d kk. apply (ph_kont c k Hk). Qed.
Lemma s1_k : forall c k, dinner c = IBlock k -> forall d kk, sp1 k (rp (kont c d kk)) = 0.
Proof. intros c k Hk d kk. apply (ph_kont c k Hk). Qed.
Lemma rh_a : forall d i deps kk, r_holds (rp (after_inputs_done d i deps kk)) = kholds kk.
Proof. intros. unfold after_inputs_done. destruct deps; reflexivity. Qed.
Lemma rp_a : forall d i deps kk, r_past0 (rp (after_inputs_done d i deps kk)) = kpast kk.
Proof. intros. unfold after_inputs_done. destruct deps; reflexivity. Qed.
Lemma s1_a : forall k d i deps kk, sp1 k (rp (after_inputs_done d i deps kk)) = 0.
Proof. intros. unfold after_inputs_done. destruct deps; reflexivity. Qed.

Ltac phr Hk :=
  rewrite ?(rh_sp _ _ Hk), ?(rp_sp _ _ Hk), ?(s1_sp _ _ Hk), ?(rh_sn _ _ Hk), ?(rp_sn _ _ Hk), ?(s1_sn _ _ Hk),
          ?(rh_k _ _ Hk), ?(rp_k _ _ Hk), ?(s1_k _ _ Hk), ?rh_a, ?rp_a, ?s1_a.

Definition j1ok (k : nat) (r : rpc) : Prop :=
  (forall j, r = RInJoin j -> j < k) /\ (forall w j, r = RInPut w j -> 1 <= j <= k).

Lemma j1_sp : forall c k, dinner c = IBlock k -> 1 <= k -> forall d a, j1ok k (rp (start_pass c d a)).
Proof.
  intros c k Hk Hk1 d a. destruct (start_pass_cases c d a k Hk) as [(j & dj & rest & E1 & E2)|[(E1 & E2 & E3)|(w & E1 & E2 & E3)]].
  - rewrite E2. simpl. split; intros; discriminate.
  - rewrite E3. simpl. split; intros; discriminate.
  - rewrite E3. simpl. split. intros; discriminate. intros w0 j0 Hj0. inversion Hj0; subst. lia.
Qed.

Lemma j1_sn : forall c k, dinner c = IBlock k -> 1 <= k -> forall d pre post n0 a, j1ok k (rp (scan_next c d pre post n0 a)).
Proof.
  intros c k Hk Hk1 d pre post n0 a.
  destruct (scan_next_cases c d pre post n0 a) as [(j & dj & rest & E1 & E2)|(E1 & [E2|[(E2 & E3)|(w & E2 & E3)]])].
  - rewrite E2. simpl. split; intros; discriminate.
  - rewrite E2. simpl. split; intros; discriminate.
  - rewrite E3. simpl. split; intros; discriminate.
  - rewrite E3. apply (j1_sp c k Hk Hk1).
Qed.

Lemma j1_k : forall c k, dinner c = IBlock k -> 1 <= k -> forall d kk, j1ok k (rp (kont c d kk)).
Proof. intros c k Hk Hk1 d [|pre post n0 a]; simpl. split; intros; discriminate. apply (j1_sn c k Hk Hk1). Qed.

Lemma j1_a : forall k d i deps kk, j1ok k (rp (after_inputs_done d i deps kk)).
Proof. intros. unfold after_inputs_done. destruct deps; simpl; split; intros; discriminate. Qed.

Lemma QI_rstep : forall c k d d' l, dinner c = IBlock k -> 1 <= k ->
  1 < length (queues (dbase d)) ->
  (forall w, In w (ws (dbase d)) -> bad (wp w) = false) -> rp d <> RInJoinD ->
  (forall i k0, rp d = RFailSrnc i k0 -> fpend (getf (dbase d) i) = true) ->
  (forall i k0, rp d = RFailSet i k0 -> isrun (getf (dbase d) i) = true) ->
  r_step c d = Some (d', l) -> QI c k d -> QI c k d'.
Proof.
  intros c k d d' l Hk Hk1 Hql Hbad Hnj Hfp0 Hfr0 H (HC0 & HS0 & HT0 & HP0 & HC1 & HS1 & HT1 & HP1 & [HJa HJb]).
  unfold C0, S0, T0, P0q, C1, S1, T1, P1q, CQ, SQ, TQ, PQ, shuts_put, m_holds in *.
  unfold r_step in H. cbv zeta in H. rewrite Hk in H.
  destruct (rp d) eqn:Hrp; try congruence; cbn [r_holds r_past0 sp1] in *.
  all: try (match type of Hrp with _ = RFailSrnc ?j ?kk => pose proof (Hfp0 j kk eq_refl) as Hfp end).
  all: try (match type of Hrp with _ = RFailSet ?j ?kk => pose proof (Hfr0 j kk eq_refl) as Hfr end).
  all: try (match type of Hrp with _ = RInPut ?w ?j => pose proof (HJb w j eq_refl) as Hjb end).
  all: try (match type of Hrp with _ = RInJoin ?j => pose proof (HJa j eq_refl) as Hja end).
  all: destr_all H; try discriminate H; injection H as Ed El; subst d' l.
  all: try (simpl in Hfp; discriminate Hfp).
  all: try (simpl in Hfr; discriminate Hfr).
  all: try (match goal with E1 : nth_error _ _ = Some ?wt, E2 : wdead ?wt = true |- _ =>
              exfalso; pose proof (Hbad wt (nth_error_In _ _ E1)) as Hb; unfold wdead in E2;
              destruct (wp wt); try discriminate E2; discriminate Hb end).
  all: unfold QI, C0, S0, T0, P0q, C1, S1, T1, P1q, J1, CQ, SQ, TQ, PQ, shuts_put, m_holds; phr Hk; xsn; unf;
       rewrite ?nth_upd_eq, ?nth_upd_neq by lia; cbn [qitems qunf r_holds r_past0 sp1 kholds kpast aholds rp];
       repeat match goal with |- _ /\ _ => split end.
  all: try assumption.
  all: try (apply (j1_sp c k Hk Hk1)); try (apply (j1_k c k Hk Hk1)); try (apply (j1_sn c k Hk Hk1)); try (apply j1_a).
  all: try match goal with E : qitems _ = _ |- _ => rewrite E in * end.
  all: simpl tl; simpl length in *; rewrite ?count_app, ?count_cons, ?count_nil, ?app_length in *; simpl is_shut in *;
       cbv iota in *; simpl length in *.
  all: try lia.
  all: try (apply srt_tl; assumption).
  all: try (apply srt_app_shut; assumption).
  all: try (apply srt_app_task; lia).
  all: try (simpl in HT0; first [exact HT0 | apply srt_all_shut; exact HT0 | intros _; exact HT0]).
  all: try (intros jj Hjj; first [discriminate Hjj | inversion Hjj; subst; lia]).
  all: try (intros ww jj Hjj; first [discriminate Hjj | inversion Hjj; subst; lia]).
  all: try (intros Hex; rewrite forallb_app; rewrite (HP1 Hex); reflexivity).
  all: try (intros [x [Hx1 Hx2]]; exfalso;
            assert (Hz : count w_past (ws (base (xs d))) = 0) by lia;
            rewrite (count_zero _ _ _ Hz x Hx1) in Hx2; discriminate Hx2).
  intros jj Hjj. inversion Hjj; subst.
  match goal with E : Nat.eqb _ _ = false |- _ => apply Nat.eqb_neq in E end. lia.
Qed.


(* ====================== part 9 ====================== *)

(* ---------- outer queue under the client's steps; e = what the resolver contributes ---------- *)
Definition CM0 (e : nat) (s : state) : Prop :=
  qunf (getq s 0) = length (qitems (getq s 0)) + e + m_holds s.
Definition SM0 (c : cfg) (e : nat) (s : state) : Prop :=
  count is_shut (qitems (getq s 0)) + e = shuts_put c s.
Definition PM0 (e : nat) (s : state) : Prop := e = 1 -> forallb is_shut (qitems (getq s 0)) = true.

Lemma CM0_mstep : forall c e s s', 0 < length (queues s) -> mstepR c s s' -> CM0 e s -> CM0 e s'.
Proof.
  intros c e s s' Hql HR H. unfold CM0, m_holds in *.
  mcases HR; try mgoto; unf; rewrite Hm in H; try rewrite (nth_upd_eq _ _ _ _ _ Hql); cbn [qitems qunf];
  try rewrite app_length; try rewrite Hit in *; simpl length in *; try lia.
Qed.

Lemma SM0_mstep : forall c e s s', 1 <= nworkers c -> 0 < length (queues s) -> InvC c s ->
  mstepR c s s' -> SM0 c e s -> SM0 c e s'.
Proof.
  intros c e s s' Hn Hql HC HR H. unfold SM0, shuts_put in *.
  pose proof (ctl_closed_false c s HC) as Hcf.
  pose proof (drain_src_closed c s) as Hdc. pose proof (put_src_closed c s) as Hpc.
  pose proof HC as (C1 & C2 & C3 & C4 & C5 & C6 & _).
  destruct HR as [Hm|k Hm Hk|k Hm Hk|i t Hm Ho|i t f b Hm Ho Hfc|i t Hm Ho Hfd|w0 j0 rest Hds Hit|w0 Hds Hit
                 |w0 k Hps|w0 Hps Hcw|w0 Hps Hcw|w0 j0 f b Hm Hfc|w0 Hm|k wt Hm Hk Hwt Hne|k wt Hm Hk Hwt Hne|Hm Hz];
  try (pose proof (Hdc _ HC Hds) as Hc; destruct Hds as [Hm|[Hm [t Ho]]]);
  try (destruct (Hpc _ _ HC Hps) as [Hc Hkn]; destruct Hps as [(Hm & Hnk & Hop)|Hm]);
  try (assert (Hc : closed s = false) by (apply Hcf; congruence));
  try (assert (Hc : closed s = false) by (specialize (C3 Hm); rewrite Ho in C3; exact C3));
  try mgoto; unf; rewrite Hm in H; try rewrite Hc in *; try rewrite (nth_upd_eq _ _ _ _ _ Hql); cbn [qitems qunf];
  try rewrite !count_app;
  try rewrite Hit in *; simpl tl; try rewrite !count_cons in *; try rewrite !count_nil;
  simpl is_shut in *; cbv iota in *; try lia.
  all: try (destruct (closed s); lia).
Qed.

Lemma TM0_mstep : forall c e s s', 0 < length (queues s) -> InvC c s ->
  mstepR c s s' -> SM0 c e s -> D_srt s -> D_srt s'.
Proof.
  intros c e s s' Hql HC HR Hsh H. unfold D_srt in *.
  pose proof HC as (C1 & C2 & C3 & _).
  mcases HR; try mgoto; unf; try rewrite (nth_upd_eq _ _ _ _ _ Hql); cbn [qitems qunf]; auto;
  try (apply srt_app_shut; exact H); try (apply srt_tl; exact H).
  all: apply srt_app_task; specialize (C3 Hm); rewrite Ho in C3; simpl in C3;
    unfold SM0, shuts_put in Hsh; rewrite C3, Hm in Hsh; unf; lia.
Qed.

Lemma PM0_mstep : forall c e s s', 0 < length (queues s) -> InvC c s ->
  mstepR c s s' -> SM0 c e s -> PM0 e s -> PM0 e s'.
Proof.
  intros c e s s' Hql HC HR Hsh H. unfold PM0 in *. intros He. specialize (H He).
  pose proof HC as (C1 & C2 & C3 & _).
  mcases HR; try mgoto; unf; try rewrite (nth_upd_eq _ _ _ _ _ Hql); cbn [qitems qunf]; auto;
  try (rewrite forallb_app, H; reflexivity); try (apply forallb_tl; exact H).
  all: exfalso; specialize (C3 Hm); rewrite Ho in C3; simpl in C3;
    unfold SM0, shuts_put in Hsh; rewrite C3, Hm in Hsh; lia.
Qed.

Lemma nth_snoc_dflt : forall A (l : list A) q d, nth q (l ++ [d]) d = nth q l d.
Proof.
  intros A l q d. destruct (Nat.lt_ge_cases q (length l)) as [H|H].
  - apply app_nth1; auto.
  - rewrite app_nth2 by auto. rewrite (nth_overflow l) by auto. destruct (q - length l) as [|[|m]]; reflexivity.
Qed.

Lemma QI_dm : forall c k d d', 1 <= k -> dmR c k d d' -> InvC (bcfg (dx c)) (dbase d) ->
  0 < length (queues (dbase d)) ->
  ((main (dbase d) = MBegin \/ exists j, main (dbase d) = MStart j) -> rp d = RNone) ->
  QI c k d -> QI c k d'.
Proof.
  intros c k d d' Hk1 HR HC Hql Hrn (HC0 & HS0 & HT0 & HP0 & HC1 & HS1 & HT1 & HP1 & HJ).
  destruct HR as [x' Hpl HM Hfr| Hm | j Hm Hj | j Hm Hj | j Hm Hrp].
  - destruct (mstepR_frame _ _ _ Hpl HM) as (Fw & Fp & Fl & Fq).
    unfold QI, C0, S0, T0, P0q, C1, S1, T1, P1q, J1, CQ, SQ, TQ, PQ, dbase in *. cbn [xs rp set_xs].
    rewrite (Fq 1) by lia. rewrite Fw.
    split; [eapply (CM0_mstep _ (r_holds (rp d))); eauto|].
    split; [eapply (SM0_mstep _ (r_past0 (rp d))); eauto|].
    split; [eapply (TM0_mstep _ (r_past0 (rp d))); eauto|].
    split; [eapply (PM0_mstep _ (r_past0 (rp d))); eauto|].
    repeat (split; [assumption|]). exact HJ.
  - unfold QI, C0, S0, T0, P0q, C1, S1, T1, P1q, J1, CQ, SQ, TQ, PQ, shuts_put, m_holds in *. xsn. unf.
    rewrite !nth_snoc_dflt. rewrite Hm in *. repeat (split; [assumption|]). exact HJ.
  - unfold QI, C0, S0, T0, P0q, C1, S1, T1, P1q, J1, CQ, SQ, TQ, PQ, shuts_put, m_holds in *. xsn. unf.
    rewrite Hm in *. rewrite !count_app.
    change (count w_holds [mkW 1 0 WBegin]) with 0. change (count w_past [mkW 1 0 WBegin]) with 0.
    rewrite ?Nat.add_0_r in *. repeat (split; [assumption|]). split; [|exact HJ].
    intros [x [Hx Hp]]. apply HP1. exists x. split; auto. apply in_app_or in Hx.
    destruct Hx as [Hx|[Hx|[]]]; auto. subst x. discriminate Hp.
  - assert (Hrn' : rp d = RNone) by (apply Hrn; right; eauto).
    assert (Hcl : closed (dbase d) = false) by (apply (ctl_closed_false _ _ HC); congruence).
    unfold QI, C0, S0, T0, P0q, C1, S1, T1, P1q, J1, CQ, SQ, TQ, PQ, shuts_put, m_holds, dbase in *.
    cbn [xs rp base set_base]. unfold getq in *. rewrite m_goto_queues, m_goto_ws.
    destruct (m_goto_spec (base (xs d)) (ops (base (xs d)) ++ [ODrop]) [] false) as (l' & a' & pc & E & Hs).
    rewrite E. cbn [main closed]. pose proof (settle_pc _ _ _ _ _ _ _ _ Hs) as Hpc.
    rewrite Hrn', Hm, Hcl in *. cbn [r_holds r_past0 sp1] in *.
    destruct Hpc as [Hpc|Hpc]; rewrite Hpc; repeat (split; [assumption|]); split; intros; discriminate.
  - unfold QI, C0, S0, T0, P0q, C1, S1, T1, P1q, J1, CQ, SQ, TQ, PQ, shuts_put, m_holds in *. xsn. unf.
    rewrite Hm in *. repeat (split; [assumption|]). exact HJ.
Qed.

Lemma QI_w : forall c k d j w s', 1 < length (queues (dbase d)) ->
  nth_error (ws (dbase d)) j = Some w -> wstepG 1 (bcfg (dx c)) (dbase d) j w s' ->
  QI c k d -> QI c k (set_dbase d s').
Proof.
  intros c k d j w s' Hql Hj HR (HC0 & HS0 & HT0 & HP0 & HC1 & HS1 & HT1 & HP1 & HJ).
  destruct (wstepG_frame _ _ _ _ _ _ HR) as (F1 & F2 & F3 & F4 & F5 & F6 & F7 & F8).
  unfold QI, C0, S0, T0, P0q, C1, S1, T1, P1q, J1, shuts_put, m_holds, dbase in *. cbn [xs rp set_dbase set_xs base set_base].
  rewrite (F8 0) by lia. rewrite F1, F3.
  repeat (split; [assumption|]).
  split; [eapply CQ_wstep; eauto|]. split; [eapply SQ_wstep; eauto|]. split; [eapply TQ_wstep; eauto|].
  split; [eapply PQ_wstep; eauto|]. exact HJ.
Qed.

Lemma QI_p : forall c k d kk s' l, p_step (bcfg (dx c)) (dbase d) kk = Some (s', l) -> QI c k d -> QI c k (set_dbase d s').
Proof.
  intros c k d kk s' l H HQ. destruct (ExecLive.p_step_inv _ _ _ _ _ H) as (p & p' & _ & _ & _ & E). subst s'. exact HQ.
Qed.


(* ====================== part 10 ====================== *)

(* ---------- workers and processes, bundled ---------- *)
Definition WI (c : cfg) (s : state) : Prop :=
  OW1 s /\ OW3 s /\ CH c s /\ (forall w, In w (ws s) -> bad (wp w) = false) /\
  (forall w, In w (ws s) -> wq w = 1) /\ D_fin s /\ D_own s.

Lemma WI_frame : forall c s s', ws s' = ws s -> ps s' = ps s -> WI c s -> WI c s'.
Proof.
  intros c s s' Ew Ep H. unfold WI, OW1, OW3, CH, D_fin, D_own, getp in *. rewrite Ew, Ep. exact H.
Qed.

Lemma WI_addw : forall c s s', ws s' = ws s ++ [mkW 1 0 WBegin] -> ps s' = ps s -> WI c s -> WI c s'.
Proof.
  intros c s s' Ew Ep (H1 & H3 & HC & Hb & Hq & Hf & Ho).
  assert (Hin : forall x, In x (ws s ++ [mkW 1 0 WBegin]) -> In x (ws s) \/ x = mkW 1 0 WBegin).
  { intros x Hx. apply in_app_or in Hx. destruct Hx as [Hx|[Hx|[]]]; auto. }
  unfold WI, OW1, OW3, CH, D_fin, D_own, getp in *. rewrite Ew, Ep.
  split; [|split; [|split; [|split; [|split; [|split]]]]].
  - intros x Hx. destruct (Hin x Hx) as [Hx'|Hx']; [exact (H1 x Hx')|]. subst x. reflexivity.
  - intros j j' w w' Hne E1 E2 S1 S2.
    assert (Hold : forall m x, nth_error (ws s ++ [mkW 1 0 WBegin]) m = Some x -> spawnedb x = true -> nth_error (ws s) m = Some x).
    { intros m x Hx Sx. destruct (Nat.lt_ge_cases m (length (ws s))) as [Hl|Hl].
      - rewrite nth_error_app1 in Hx; auto.
      - rewrite nth_error_app2 in Hx; auto. destruct (m - length (ws s)) as [|q]; simpl in Hx.
        + inversion Hx; subst. discriminate Sx.
        + destruct q; discriminate Hx. }
    eapply (H3 j j' w w'); eauto.
  - intros x Hx. destruct (Hin x Hx) as [Hx'|Hx']; [exact (HC x Hx')|]. subst x. apply chanS_unspawned. reflexivity.
  - intros x Hx. destruct (Hin x Hx) as [Hx'|Hx']; [exact (Hb x Hx')|]. subst x. reflexivity.
  - intros x Hx. destruct (Hin x Hx) as [Hx'|Hx']; [exact (Hq x Hx')|]. subst x. reflexivity.
  - intros x Hx Hfx. destruct (Hin x Hx) as [Hx'|Hx']; [exact (Hf x Hx' Hfx)|]. subst x. discriminate Hfx.
  - intros kk Hkk. destruct (Ho kk Hkk) as [x [Hx1 Hx2]]. exists x. split; auto. apply in_or_app; auto.
Qed.

Lemma WI_w : forall c s j w s', nth_error (ws s) j = Some w -> wstepG 1 c s j w s' -> WI c s -> WI c s'.
Proof.
  intros c s j w s' Hj HR (H1 & H3 & HC & Hb & Hq & Hf & Ho).
  split; [eapply OW1_wstep; eauto|]. split; [eapply OW3_wstep; eauto|]. split; [eapply CH_wstep; eauto|].
  split; [eapply bad_wstepG; eauto|]. split; [eapply wq_wstepG; eauto|].
  split; [eapply fin_wstepG; eauto|]. eapply own_wstepG; eauto.
Qed.

Lemma WI_p : forall c s k s' l, p_step c s k = Some (s', l) -> WI c s -> WI c s'.
Proof.
  intros c s k s' l H (H1 & H3 & HC & Hb & Hq & Hf & Ho).
  destruct (CH_pstep _ _ _ _ _ H HC) as (HC' & Ew & El).
  destruct (ExecLive.p_step_inv _ _ _ _ _ H) as (p & p' & Hk & Hp & Ha & E).
  split; [|split; [|split; [exact HC'|split; [|split; [|split]]]]].
  - unfold OW1 in *. rewrite Ew, El. exact H1.
  - unfold OW3 in *. rewrite Ew. exact H3.
  - rewrite Ew. exact Hb.
  - rewrite Ew. exact Hq.
  - subst s'. eapply fin_pstep; eauto.
  - unfold D_own in *. rewrite Ew, El. exact Ho.
Qed.

(* ---------- client / resolver bookkeeping ---------- *)
Definition NT (k : nat) (d : dstate) : Prop :=
  match main (dbase d) with
  | MBegin => ws (dbase d) = []
  | MStart j => length (ws (dbase d)) = j /\ j <= k
  | _ => length (ws (dbase d)) = k
  end.

Definition RM (d : dstate) : Prop :=
  (rp d = RNone <-> (main (dbase d) = MBegin \/ exists j, main (dbase d) = MStart j)) /\
  rp d <> RDead /\ rp d <> RInJoinD /\ disp (xs d) = DNone.


(* ====================== part 11 ====================== *)

(* ---------- the resolver never blocks in result(): its inputs were seen done ---------- *)
Definition nel (l : list (nat * list nat)) : Prop := forall e, In e l -> snd e <> [].
Definition nelk (k : rcont) : Prop :=
  match k with KTd => True | KScan pre post _ _ => nel pre /\ nel post end.
Definition alldone (s : state) (l : list nat) : Prop := forall j, In j l -> fdone (getf s j) = true.

Definition RJr (c : dcfg) (s : state) (r : rpc) : Prop :=
  match r with
  | RCheck i todo alld => todo <> [] /\ exists p, ddeps c i = p ++ todo /\ (alld = true -> alldone s p)
  | RRes _ todo k => todo <> [] /\ alldone s todo /\ nelk k
  | RFwd _ k | RFailSrnc _ k | RFailSet _ k => nelk k
  | RScan pre _ deps todo alld post _ _ =>
      nel pre /\ nel post /\ todo <> [] /\ exists p, deps = p ++ todo /\ (alld = true -> alldone s p)
  | _ => True
  end.

Definition RJ (c : dcfg) (d : dstate) : Prop := nel (rwait d) /\ RJr c (dbase d) (rp d).

Lemma nel_nil : nel [].
Proof. intros e []. Qed.
Lemma nel_app : forall l1 l2, nel l1 -> nel l2 -> nel (l1 ++ l2).
Proof. intros l1 l2 H1 H2 e He. apply in_app_or in He. destruct He; auto. Qed.
Lemma nel_one : forall i di, di <> [] -> nel [(i, di)].
Proof. intros i di H e [He|[]]. subst. exact H. Qed.
Lemma nel_cons_inv : forall j dj l, nel ((j, dj) :: l) -> dj <> [] /\ nel l.
Proof. intros j dj l H. split. apply (H (j, dj)). left; reflexivity. intros e He. apply H. right; auto. Qed.

Lemma RJ_inner_shut : forall c d w, nel (rwait d) -> RJ c (inner_shut_start c d w).
Proof. intros c d w H. unfold inner_shut_start. destruct (dinner c); split; simpl; auto. Qed.

Lemma RJ_start_pass : forall c d a, nel (rwait d) -> RJ c (start_pass c d a).
Proof.
  intros c d a H. unfold start_pass. destruct (rwait d) as [|[j dj] r] eqn:E.
  - destruct a. split; simpl; auto. rewrite E; auto. apply RJ_inner_shut. rewrite E. auto.
  - destruct (nel_cons_inv _ _ _ H) as [H1 H2]. split; simpl. rewrite E; auto.
    split; [apply nel_nil|]. split; auto. split; auto. exists []. split; auto. intros _ j0 [].
Qed.

Lemma RJ_scan_next : forall c d pre post n0 a, nel (rwait d) -> nel pre -> nel post ->
  RJ c (scan_next c d pre post n0 a).
Proof.
  intros c d pre post n0 a Hw Hpre Hpost. unfold scan_next. destruct post as [|[j dj] r].
  - destruct a; destruct (Nat.eqb (length pre) n0); try (split; simpl; auto; fail).
    apply RJ_start_pass. simpl. auto.
  - destruct (nel_cons_inv _ _ _ Hpost) as [H1 H2]. split; simpl; auto.
    split; auto. split; auto. split; auto. exists []. split; auto. intros _ j0 [].
Qed.

Lemma RJ_kont : forall c d k, nel (rwait d) -> nelk k -> RJ c (kont c d k).
Proof.
  intros c d k Hw Hk. destruct k as [|pre post n0 a]; simpl.
  - split; simpl; auto.
  - destruct Hk. apply RJ_scan_next; auto.
Qed.

Lemma RJ_aid : forall c d i deps k, nel (rwait d) -> nelk k -> alldone (dbase d) deps ->
  RJ c (after_inputs_done d i deps k).
Proof.
  intros c d i deps k Hw Hk Ha. unfold after_inputs_done. destruct deps as [|j r] eqn:E; split; simpl; auto.
  split. discriminate. split; auto.
Qed.

Lemma RJr_stable : forall c s s' r, (forall j, fdone (getf s j) = true -> fdone (getf s' j) = true) ->
  RJr c s r -> RJr c s' r.
Proof.
  intros c s s' r Hst H. destruct r; simpl in *; auto.
  - destruct H as [H1 [p [E Ha]]]. split; auto. exists p. split; auto. intros Hb j Hj. apply Hst. apply Ha; auto.
  - destruct H as (H1 & H2 & H3). split; auto. split; auto. intros j Hj. apply Hst. apply H2; auto.
  - destruct H as (H1 & H2 & H3 & [p [E Ha]]). split; auto. split; auto. split; auto.
    exists p. split; auto. intros Hb j Hj. apply Hst. apply Ha; auto.
Qed.

Lemma alldone_snoc : forall s p j, alldone s p -> fdone (getf s j) = true -> alldone s (p ++ [j]).
Proof. intros s p j H1 H2 x Hx. apply in_app_or in Hx. destruct Hx as [Hx|[Hx|[]]]; auto. subst; auto. Qed.

Lemma RJ_rstep : forall c d d' l, r_step c d = Some (d', l) -> RJ c d -> RJ c d'.
Proof.
  intros c d d' l H [Hw Hr]. unfold r_step in H. cbv zeta in H.
  destruct (rp d) eqn:Hrp; simpl in Hr; destr_all H; try discriminate H; inversion H; subst; clear H;
  try (apply RJ_start_pass; exact Hw);
  try (apply RJ_kont; simpl; tauto);
  try (split; simpl; auto; fail).
  - split; simpl; auto. split; [discriminate|]. exists []. split; [|intros _ j0 []].
    match goal with E : ddeps c _ = _ |- _ => rewrite E end. reflexivity.
  - destruct Hr as [_ [p [E Ha]]].
    match goal with B : _ && _ = true |- _ => apply andb_true_iff in B; destruct B as [B1 B2] end.
    apply RJ_aid; simpl; auto. rewrite E. apply alldone_snoc; auto.
  - destruct Hr as [_ [p [E Ha]]]. split; simpl; auto. apply nel_app; auto. apply nel_one.
    rewrite E. destruct p; discriminate.
  - destruct Hr as [_ [p [E Ha]]]. split; simpl; auto. split; [discriminate|].
    eexists (p ++ [_]). split. rewrite <- app_assoc. exact E.
    intros B. apply andb_true_iff in B. destruct B as [B1 B2]. apply alldone_snoc; auto.
  - destruct Hr as (_ & _ & Hk). split; simpl; auto.
  - destruct Hr as (_ & Ha & Hk). split; simpl; auto. split; [discriminate|]. split; auto.
    intros j Hj. apply Ha. right; exact Hj.
  - destruct Hr as (_ & _ & Hk). split; simpl; auto.
  - destruct Hr as (H1 & H2 & _ & [p [E Ha]]).
    match goal with B : _ && _ = true |- _ => apply andb_true_iff in B; destruct B as [B1 B2] end.
    apply RJ_aid; simpl; auto. rewrite E. apply alldone_snoc; auto.
  - destruct Hr as (H1 & H2 & _ & [p [E Ha]]). apply RJ_scan_next; auto. apply nel_app; auto. apply nel_one.
    rewrite E. destruct p; discriminate.
  - destruct Hr as (H1 & H2 & _ & [p [E Ha]]). split; simpl; auto. split; auto. split; auto. split; [discriminate|].
    eexists (p ++ [_]). split. rewrite <- app_assoc. exact E.
    intros B. apply andb_true_iff in B. destruct B as [B1 B2]. apply alldone_snoc; auto.
Qed.


(* ====================== part 12 ====================== *)

Definition rok (r : rpc) : Prop := r <> RNone /\ r <> RDead /\ r <> RInJoinD.

Lemma rok_start_pass : forall c d a, rok (rp (start_pass c d a)).
Proof.
  intros c d a. unfold start_pass. destruct (rwait d) as [|[j dj] r].
  - destruct a; simpl. repeat split; discriminate.
    unfold inner_shut_start. destruct (dinner c); simpl; repeat split; discriminate.
  - simpl. repeat split; discriminate.
Qed.

Lemma rok_scan_next : forall c d pre post n0 a, rok (rp (scan_next c d pre post n0 a)).
Proof.
  intros c d pre post n0 a. unfold scan_next. destruct post as [|[j dj] r].
  - destruct a; destruct (Nat.eqb (length pre) n0); simpl; try (repeat split; discriminate).
    apply rok_start_pass.
  - simpl. repeat split; discriminate.
Qed.

Lemma rok_kont : forall c d k, rok (rp (kont c d k)).
Proof. intros c d k. destruct k; simpl. repeat split; discriminate. apply rok_scan_next. Qed.

Lemma rok_aid : forall d i deps k, rok (rp (after_inputs_done d i deps k)).
Proof. intros d i deps k. unfold after_inputs_done. destruct deps; simpl; repeat split; discriminate. Qed.

Lemma rok_rstep : forall c k d d' l, dinner c = IBlock k ->
  (forall w, In w (ws (dbase d)) -> bad (wp w) = false) -> rp d <> RInJoinD ->
  (forall i k0, rp d = RFailSrnc i k0 -> fpend (getf (dbase d) i) = true) ->
  (forall i k0, rp d = RFailSet i k0 -> isrun (getf (dbase d) i) = true) ->
  r_step c d = Some (d', l) -> rok (rp d').
Proof.
  intros c k d d' l Hk Hbad Hnj Hfp0 Hfr0 H. unfold r_step in H. cbv zeta in H. rewrite Hk in H.
  destruct (rp d) eqn:Hrp; try congruence.
  all: try (match type of Hrp with _ = RFailSrnc ?j ?kk => pose proof (Hfp0 j kk eq_refl) as Hfp end).
  all: try (match type of Hrp with _ = RFailSet ?j ?kk => pose proof (Hfr0 j kk eq_refl) as Hfr end).
  all: destr_all H; try discriminate H; injection H as Ed El; subst d' l.
  all: try (simpl in Hfp; discriminate Hfp).
  all: try (simpl in Hfr; discriminate Hfr).
  all: try (match goal with E1 : nth_error _ _ = Some ?wt, E2 : wdead ?wt = true |- _ =>
              exfalso; pose proof (Hbad wt (nth_error_In _ _ E1)) as Hb; unfold wdead in E2;
              destruct (wp wt); try discriminate E2; discriminate Hb end).
  all: first [apply rok_start_pass | apply rok_kont | apply rok_aid | apply rok_scan_next
             | simpl; repeat split; discriminate].
Qed.

Lemma r_step_ps : forall c d d' l, r_step c d = Some (d', l) ->
  ps (dbase d') = ps (dbase d) /\ main (dbase d') = main (dbase d) /\ disp (xs d') = disp (xs d) /\
  subm (dbase d') = subm (dbase d) /\ closed (dbase d') = closed (dbase d) /\ outs (dbase d') = outs (dbase d) /\
  length (queues (dbase d')) = length (queues (dbase d)).
Proof.
  intros c d d' l H. unfold r_step in H. cbv zeta in H.
  destruct (rp d); destr_all H; try discriminate H; inversion H; subst; clear H; xsn; unf;
  rewrite ?upd_length; repeat split; try reflexivity; try assumption; try (symmetry; assumption).
Qed.

(* ---------- ownership under the client's steps ---------- *)
Definition pcntS (s : state) (r : rpc) (rw : list (nat * list nat)) (i : nat) : nat :=
  count (taskb i) (qitems (getq s 0)) + mdc (main s) i + rpre r rw i
  + count (taskb i) (qitems (getq s 1)) + count (srncb i) (ws s).
Definition rcntS (s : state) (r : rpc) (i : nat) : nat := count (runsb i) (ws s) + rfs r i.
Definition EIs (n : nat) (s : state) (r : rpc) (rw : list (nat * list nat)) : Prop :=
  EIf n (pcntS s r rw) (rcntS s r) (futs s) (subm s).

Lemma EI_EIs : forall n d, EI n d <-> EIs n (dbase d) (rp d) (rwait d).
Proof. intros. reflexivity. Qed.

Lemma count_taskb_one : forall ii it, count (taskb ii) [it] = match it with Task j => eqn ii j | _ => 0 end.
Proof. intros ii [j|b]; unfold eqn; rewrite count_cons, count_nil; simpl; lia. Qed.

Lemma in_submits_head : forall i t, In i (submits (OSubmit i :: t)).
Proof. intros. simpl. left; reflexivity. Qed.

Lemma EIs_mstepR : forall c n s s' r rw, plainm (main s) -> mstepR c s s' -> InvC c s -> D_nodup s ->
  length (futs s) = n -> 1 < length (queues s) ->
  (forall b j, main s = MDrainCancel b j -> 1 <= j <= n) -> EIs n s r rw -> EIs n s' r rw.
Proof.
  intros c n s s' r rw (N1 & N2 & N3) HR HC [Hnd1 Hnd2] Hlen Hql Hmdc H.
  pose proof HC as (C1 & C2 & C3 & _). unfold EIs in *.
  mcases HR; try congruence; try (exfalso; eapply N2; eauto; fail); try (exfalso; eapply N3; eauto; fail).
  all: try (try mgoto; unf; (eapply EI_same; [| |exact H]); intros ii; unfold pcntS, rcntS; unf; rewrite ?Hm;
            rewrite ?nth_upd_eq, ?nth_upd_neq by lia; cbn [qitems mdc];
            rewrite ?count_app, ?count_taskb_one; try rewrite Hit; simpl tl; rewrite ?count_cons; cbn [taskb];
            unfold eqn; try lia; fail).
  - (* submit *)
    assert (Hi : 1 <= i <= n) by (rewrite <- Hlen; apply C1; rewrite Ho; left; reflexivity).
    assert (Hns : ~ In i (subm s)) by (intros Hin; apply (Hnd2 i Hin); rewrite Ho; apply in_submits_head).
    mgoto; unf; eapply (EI_submit n (pcntS s r rw) (rcntS s r) _ (futs s) (subm s) i Hi Hns H);
    intros ii; unfold pcntS; unf; rewrite ?Hm; rewrite ?nth_upd_eq, ?nth_upd_neq by lia; cbn [qitems mdc];
    rewrite ?count_app, ?count_taskb_one; lia.
  - (* cancel *)
    assert (Hin : In i (subm s)) by (specialize (C3 Hm); rewrite Ho in C3; exact C3).
    assert (Hi : 1 <= i) by (apply (C2 i Hin)).
    pose proof (EI_cancel n _ _ _ _ i Hin Hi H) as H'.
    replace f with (fst (fcancel (nth (i - 1) (futs s) FPending))) by (unfold getf in Hfc; rewrite Hfc; reflexivity).
    mgoto; unf; (eapply EI_same; [| |exact H']); intros ii; unfold pcntS, rcntS; unf; rewrite ?Hm; cbn [mdc]; lia.
  - (* drain cancel *)
    replace f with (fst (fcancel (nth (j0 - 1) (futs s) FPending))) by (unfold getf in Hfc; rewrite Hfc; reflexivity).
    assert (Hp1 : 1 <= pcntS s r rw j0) by (unfold pcntS; rewrite Hm; cbn [mdc]; rewrite Nat.eqb_refl; lia).
    assert (Hi : 1 <= j0 <= n) by (eapply Hmdc; eauto).
    destruct (H j0 Hi) as (E1 & _ & _ & E4 & _). specialize (E4 Hp1).
    unf. eapply (EI_fut n (pcntS s r rw) (rcntS s r) _ _ _ _ j0 _ Hlen Hi H);
    [ intros ii Hne; apply Nat.eqb_neq in Hne | | | | | ];
    unfold pcntS, rcntS in *; unf; rewrite ?Hm in *; cbn [mdc] in *; rewrite ?Nat.eqb_refl in *; rewrite ?Hne; try lia.
    intros _. destruct (nth (j0 - 1) (futs s) FPending); try discriminate E4; reflexivity.
Qed.


(* ====================== part 13 ====================== *)

Lemma CTL_dm : forall c k d d', dmR c k d d' ->
  InvC (bcfg (dx c)) (dbase d) -> D_nodup (dbase d) ->
  InvC (bcfg (dx c)) (dbase d') /\ D_nodup (dbase d').
Proof.
  intros c k d d' HR HC HN.
  pose proof (ctl_closed_false _ _ HC) as Hcf.
  pose proof HC as (C1 & C2 & C3 & C4 & C5 & C6 & C7 & C8 & C9).
  destruct HR as [x' Hpl HM Hfr| Hm | j Hm Hj | j Hm Hj | j Hm Hrp]; unfold dbase in *; cbn [xs set_xs set_dbase set_base base].
  - split. apply (ctl_mstep (bcfg (dx c)) _ _ (le_n 1) HC HM). eapply nodup_mstep; eauto.
  - split; [|exact HN].
    eapply ctl_move; eauto; try reflexivity; unf; try congruence. apply Hcf; congruence.
  - split; [|exact HN].
    eapply ctl_move; eauto; try reflexivity; unf; try congruence. apply Hcf; congruence.
  - assert (Hc : closed (base (xs d)) = false) by (apply Hcf; congruence).
    split.
    + apply ctl_goto.
      * intros i Hi. apply in_app_or in Hi. destruct Hi as [Hi|[Hi|[]]]; auto. discriminate.
      * auto.
      * right. rewrite app_nil_r. auto.
      * left. apply in_or_app. right. left. reflexivity.
    + destruct HN as [H1 H2]. apply nodup_goto.
      * rewrite submits_app. simpl. rewrite app_nil_r. auto.
      * intros i Hi. rewrite submits_app. simpl. rewrite app_nil_r. auto.
  - split; [|exact HN].
    eapply ctl_move; eauto; try reflexivity; unf; try congruence.
    + apply Hcf; congruence.
    + intros _ _. rewrite Hm; split; congruence.
Qed.

(* the main program counter after a client step *)
Lemma mstepR_main : forall c s s', plainm (main s) -> mstepR c s s' ->
  main s' <> MBegin /\ (forall j, main s' <> MStart j) /\
  (forall b j, main s' = MDrainCancel b j -> In (Task j) (qitems (getq s 0))).
Proof.
  intros c s s' (N1 & N2 & N3) HR.
  mcases HR; try congruence; try (exfalso; eapply N2; eauto; fail); try (exfalso; eapply N3; eauto; fail);
  try mgoto; unf; (split; [discriminate|split; [intros jj; discriminate|]]); intros bb jj E; try discriminate E.
  all: inversion E; subst; rewrite Hit; left; reflexivity.
Qed.


(* ====================== part 14 ====================== *)

Definition MDC (n : nat) (d : dstate) : Prop := forall b j, main (dbase d) = MDrainCancel b j -> 1 <= j <= n.

Definition DI (c : dcfg) (k n : nat) (d : dstate) : Prop :=
  InvC (bcfg (dx c)) (dbase d) /\ D_nodup (dbase d) /\ RM d /\ NT k d /\ QI c k d /\
  WI (bcfg (dx c)) (dbase d) /\ EI n d /\ RJ c d /\ MDC n d.

(* ---------- facts extracted from the invariants ---------- *)
Lemma i4_wrng : forall c n d w i, Inv4 c n d -> In w (ws (dbase d)) -> w_call w = Some i -> 1 <= i <= n.
Proof. intros c n d w i ((_ & HW & _) & _) Hw Hc. destruct (HW w Hw) as [_ H]. apply H; auto. Qed.

Lemma i4_rrng : forall c n d, Inv4 c n d -> rP0 (rng n) (rp d).
Proof. intros c n d ((_ & _ & _ & _ & _ & [_ H]) & _). exact H. Qed.

Lemma i4_q0 : forall c n d j, Inv4 c n d -> In (Task j) (qitems (getq (dbase d) 0)) -> 1 <= j <= n.
Proof. intros c n d j (([H0 _] & _) & _) Hin. apply (H0 (Task j)). exact Hin. Qed.

Lemma i4_len : forall c n d, Inv4 c n d -> length (futs (dbase d)) = n.
Proof. intros c n d (_ & _ & H & _). exact H. Qed.

Lemma i4_ql : forall c n d, Inv4 c n d -> main (dbase d) <> MBegin -> 1 < length (queues (dbase d)).
Proof.
  intros c n d ((_ & _ & _ & _ & [_ H] & _) & _) Hm. destruct H as [[H _]|H]; [contradiction|lia].
Qed.

Lemma i4_ql0 : forall c n d, Inv4 c n d -> 0 < length (queues (dbase d)).
Proof. intros c n d ((_ & _ & _ & _ & [H _] & _) & _). lia. Qed.

Lemma ei_srnc : forall n d w i, EI n d -> 1 <= i <= n -> In w (ws (dbase d)) -> wp w = WSrnc i ->
  fpend (getf (dbase d) i) = true.
Proof.
  intros n d w i H Hi Hw Hpc. destruct (H i Hi) as (_ & _ & _ & E4 & _). apply E4. unfold pcnt.
  assert (Hs : srncb i w = true) by (rewrite (srncb_pc i _ _ Hpc); apply Nat.eqb_refl).
  pose proof (count_pos _ (srncb i) _ _ Hw Hs). lia.
Qed.

Lemma ei_run : forall n d w i v, EI n d -> 1 <= i <= n -> In w (ws (dbase d)) -> wp w = WSetRes i v ->
  getf (dbase d) i = FRunning.
Proof.
  intros n d w i v H Hi Hw Hpc. destruct (H i Hi) as (_ & _ & _ & _ & _ & E6). apply isrun_inv. apply E6. unfold rcnt.
  assert (Hs : runsb i w = true) by (rewrite (runsb_pc i _ _ Hpc); apply Nat.eqb_refl).
  pose proof (count_pos _ (runsb i) _ _ Hw Hs). lia.
Qed.

Lemma ei_fp : forall n d i k0, EI n d -> 1 <= i <= n -> rp d = RFailSrnc i k0 -> fpend (getf (dbase d) i) = true.
Proof.
  intros n d i k0 H Hi Hrp. destruct (H i Hi) as (_ & _ & _ & E4 & _). apply E4. unfold pcnt. rewrite Hrp.
  cbn [rpre]. rewrite eqn_refl. lia.
Qed.

Lemma ei_fr : forall n d i k0, EI n d -> 1 <= i <= n -> rp d = RFailSet i k0 -> isrun (getf (dbase d) i) = true.
Proof.
  intros n d i k0 H Hi Hrp. destruct (H i Hi) as (_ & _ & _ & _ & _ & E6). apply E6. unfold rcnt. rewrite Hrp.
  cbn [rfs]. rewrite eqn_refl. lia.
Qed.

Lemma RJ_other : forall c d t d' l, dstep c d t = Some (d', l) -> t <> TR -> RJ c d -> RJ c d'.
Proof.
  intros c d t d' l H Ht [H1 H2]. destruct (other_rp _ _ _ _ _ H Ht) as [Hw Hr]. split.
  - rewrite Hw. exact H1.
  - destruct Hr as [Hr|Hr]; rewrite Hr; simpl; auto.
    eapply RJr_stable; [|exact H2]. intros j. eapply done_monotone; eauto.
Qed.

(* ---------- worker steps ---------- *)
Lemma DI_w : forall c k n d j b l, dinner c = IBlock k -> nofail (bcfg (dx c)) -> Inv4 c n d ->
  w_step (bcfg (dx c)) (dbase d) j = Some (b, l) -> DI c k n d -> DI c k n (set_dbase d b).
Proof.
  intros c k n d j b l Hk Hnf H4 Hw (HC & HN & HRM & HNT & HQ & HW & HE & HJ & HM).
  assert (Hd : dstep c d (TW (S j)) = Some (set_dbase d b, l)) by (simpl; rewrite Hw; reflexivity).
  destruct (nth_error (ws (dbase d)) j) as [w|] eqn:Hj; [|unfold w_step in Hw; rewrite Hj in Hw; discriminate].
  assert (Hin : In w (ws (dbase d))) by (eapply nth_error_In; eauto).
  pose proof HW as (Ho1 & Ho3 & HCH & Hbad & Hwq & Hfin & Hown).
  assert (Hmb : main (dbase d) <> MBegin).
  { intros E. unfold NT in HNT. rewrite E in HNT. rewrite HNT in Hin. destruct Hin. }
  pose proof (i4_ql _ _ _ H4 Hmb) as Hql.
  assert (Hch : chan_ok (bcfg (dx c)) w (getp (dbase d) (wproc w)) = true).
  { pose proof (HCH w Hin) as Hc. unfold chanS in Hc. apply andb_true_iff in Hc. tauto. }
  assert (HR : wstepG 1 (bcfg (dx c)) (dbase d) j w b).
  { eapply w_step_invG; eauto.
    - intros i Hpc. eapply ei_srnc; eauto. eapply i4_wrng; eauto. unfold w_call. rewrite Hpc. reflexivity.
    - intros i v Hpc. eapply ei_run; eauto. eapply i4_wrng; eauto. unfold w_call. rewrite Hpc. reflexivity. }
  destruct (wstepG_frame _ _ _ _ _ _ HR) as (F1 & F2 & F3 & F4 & F5 & F6 & F7 & F8).
  unfold DI.
  split; [unfold dbase; simpl; eapply ctl_frame; eauto|].
  split; [unfold D_nodup, dbase in *; simpl; rewrite F2, F4; exact HN|].
  split; [unfold RM, dbase in *; simpl; rewrite F1; exact HRM|].
  split. { unfold NT, dbase in *. simpl. rewrite F1.
           destruct (ws_wstepG _ _ _ _ _ _ HR) as (w' & Ews & _). rewrite Ews. rewrite upd_length.
           destruct (main (base (xs d))); auto. destruct (ws (base (xs d))); [destruct Hin|discriminate HNT]. }
  split; [eapply QI_w; eauto|].
  split; [unfold dbase; simpl; eapply WI_w; eauto|].
  split; [eapply EI_wstep; eauto; [eapply i4_len; eauto|intros i Hc; eapply i4_wrng; eauto]|].
  split; [eapply RJ_other; eauto; discriminate|].
  unfold MDC, dbase in *. simpl. rewrite F1. exact HM.
Qed.

(* ---------- process steps ---------- *)
Lemma DI_p : forall c k n d kk b l, p_step (bcfg (dx c)) (dbase d) kk = Some (b, l) ->
  DI c k n d -> DI c k n (set_dbase d b).
Proof.
  intros c k n d kk b l Hp (HC & HN & HRM & HNT & HQ & HW & HE & HJ & HM).
  assert (Hd : dstep c d (TP kk) = Some (set_dbase d b, l)) by (simpl; rewrite Hp; reflexivity).
  pose proof (WI_p _ _ _ _ _ Hp HW) as HW'. pose proof (QI_p c k _ _ _ _ Hp HQ) as HQ'.
  destruct (ExecLive.p_step_inv _ _ _ _ _ Hp) as (p & p' & _ & _ & _ & E). subst b.
  assert (HJ' : RJ c (set_dbase d (setp (dbase d) kk p'))) by (eapply RJ_other; eauto; discriminate).
  exact (conj HC (conj HN (conj HRM (conj HNT (conj HQ' (conj HW' (conj HE (conj HJ' HM)))))))).
Qed.

(* ---------- resolver steps ---------- *)
Lemma DI_r : forall c k n d d' l, dinner c = IBlock k -> 1 <= k -> Inv4 c n d ->
  r_step c d = Some (d', l) -> DI c k n d -> DI c k n d'.
Proof.
  intros c k n d d' l Hk Hk1 H4 Hr (HC & HN & HRM & HNT & HQ & HW & HE & HJ & HM).
  pose proof HW as (Ho1 & Ho3 & HCH & Hbad & Hwq & Hfin & Hown).
  destruct HRM as (Hrm1 & Hrm2 & Hrm3 & Hrm4).
  pose proof (i4_rrng _ _ _ H4) as Hrr.
  assert (Hrn : rp d <> RNone) by (intros E; unfold r_step in Hr; rewrite E in Hr; discriminate).
  assert (Hmb : main (dbase d) <> MBegin /\ forall j, main (dbase d) <> MStart j).
  { split; [intros E|intros j E]; apply Hrn; apply Hrm1; eauto. }
  pose proof (i4_ql _ _ _ H4 (proj1 Hmb)) as Hql.
  assert (Hfp : forall i k0, rp d = RFailSrnc i k0 -> fpend (getf (dbase d) i) = true).
  { intros i k0 E. eapply ei_fp; eauto. rewrite E in Hrr. simpl in Hrr. destruct Hrr as [A _]. exact A. }
  assert (Hfr : forall i k0, rp d = RFailSet i k0 -> isrun (getf (dbase d) i) = true).
  { intros i k0 E. eapply ei_fr; eauto. rewrite E in Hrr. simpl in Hrr. destruct Hrr as [A _]. exact A. }
  destruct (r_step_ps _ _ _ _ Hr) as (P1 & P2 & P3 & P4 & P5 & P6 & P7).
  destruct (r_step_ops _ _ _ _ Hr) as (O1 & O2). pose proof (r_step_ws _ _ _ _ Hr) as Ews.
  pose proof (rok_rstep _ _ _ _ _ Hk Hbad Hrm3 Hfp Hfr Hr) as (K1 & K2 & K3).
  unfold DI.
  split; [eapply ctl_frame; eauto|].
  split; [unfold D_nodup in *; rewrite O1, P4; exact HN|].
  split. { unfold RM. rewrite P2, P3. repeat split; auto.
           - intros E; contradiction.
           - intros [E|[j E]]; exfalso; [apply (proj1 Hmb E)|apply (proj2 Hmb j E)]. }
  split; [unfold NT in *; rewrite P2, Ews; exact HNT|].
  split; [eapply QI_rstep; eauto|].
  split; [eapply WI_frame; eauto|].
  split; [eapply EI_rstep; eauto; eapply i4_len; eauto|].
  split; [eapply RJ_rstep; eauto|].
  unfold MDC in *. rewrite P2. exact HM.
Qed.

(* ---------- client steps ---------- *)
Lemma EI_dm : forall c k n d d', dmR c k d d' -> InvC (bcfg (dx c)) (dbase d) -> D_nodup (dbase d) ->
  length (futs (dbase d)) = n -> (main (dbase d) <> MBegin -> 1 < length (queues (dbase d))) ->
  MDC n d -> (forall j, main (dbase d) = MStart j -> rp d = RNone) ->
  EI n d -> EI n d'.
Proof.
  intros c k n d d' HR HC HN Hlen Hql HM Hrn HE.
  destruct HR as [x' Hpl HM' Hfr| Hm | j Hm Hj | j Hm Hj | j Hm Hrp].
  - apply EI_EIs. unfold dbase. cbn [xs rp rwait set_xs]. eapply EIs_mstepR; eauto. apply Hql. apply Hpl.
  - unfold EI in *. xsn. unf. eapply EI_same; [| |exact HE]; intros ii; unfold pcnt, rcnt; xsn; unf;
    rewrite ?nth_snoc_dflt, ?Hm; reflexivity.
  - unfold EI in *. xsn. unf. eapply EI_same; [| |exact HE]; intros ii; unfold pcnt, rcnt; xsn; unf;
    rewrite ?Hm, ?count_app; cbn [mdc];
    change (count (srncb ii) [mkW 1 0 WBegin]) with 0; change (count (runsb ii) [mkW 1 0 WBegin]) with 0; lia.
  - pose proof (Hrn j Hm) as Hr0. unfold EI in *. unfold dbase in *. cbn [xs rp rwait base set_base].
    destruct (m_goto_spec (base (xs d)) (ops (base (xs d)) ++ [ODrop]) [] false) as (l' & a' & pc & E & Hs).
    rewrite E. pose proof (settle_pc _ _ _ _ _ _ _ _ Hs) as Hpc. cbn [futs subm].
    eapply EI_same; [| |exact HE]; intros ii; unfold pcnt, rcnt, dbase; cbn [xs rp rwait base]; unf;
    rewrite Hr0, ?Hm; destruct Hpc as [Hpc|Hpc]; rewrite ?Hpc; reflexivity.
  - unfold EI in *. xsn. unf. eapply EI_same; [| |exact HE]; intros ii; unfold pcnt, rcnt; xsn; unf;
    rewrite ?Hm; reflexivity.
Qed.

Lemma no_shut_drain : forall c (k : nat) d, InvC (bcfg (dx c)) (dbase d) -> S0 c d ->
  forall w b rest, drain_src (dbase d) w -> qitems (getq (dbase d) 0) = Shut b :: rest -> False.
Proof.
  intros c k d HC HS w b rest Hd Hq. pose proof (drain_src_closed _ _ _ HC Hd) as Hc.
  unfold S0, shuts_put in HS. rewrite Hc, Hq in HS. rewrite count_cons in HS. simpl in HS.
  destruct Hd as [Hd|[Hd _]]; rewrite Hd in HS; lia.
Qed.

Lemma DI_m : forall c k n d d' l, dinner c = IBlock k -> 1 <= k -> Inv4 c n d ->
  dm_step c d = Some (d', l) -> DI c k n d -> DI c k n d'.
Proof.
  intros c k n d d' l Hk Hk1 H4 Hm (HC & HN & HRM & HNT & HQ & HW & HE & HJ & HM).
  assert (Hd : dstep c d TM = Some (d', l)) by exact Hm.
  destruct HRM as (Hrm1 & Hrm2 & Hrm3 & Hrm4).
  pose proof HQ as (_ & HS0 & _).
  pose proof (dm_step_R _ _ _ _ _ Hk Hk1 Hrm2 (no_shut_drain c k d HC HS0) Hm) as HR.
  destruct (CTL_dm _ _ _ _ HR HC HN) as [HC' HN'].
  assert (Hrn : (main (dbase d) = MBegin \/ exists j, main (dbase d) = MStart j) -> rp d = RNone) by (apply Hrm1).
  pose proof (QI_dm _ _ _ _ Hk1 HR HC (i4_ql0 _ _ _ H4) Hrn HQ) as HQ'.
  assert (HE' : EI n d').
  { eapply EI_dm; eauto. eapply i4_len; eauto. intros E; eapply i4_ql; eauto. }
  assert (HJ' : RJ c d') by (eapply RJ_other; eauto; discriminate).
  unfold DI. split; [exact HC'|]. split; [exact HN'|].
  assert (Hrest : RM d' /\ NT k d' /\ WI (bcfg (dx c)) (dbase d') /\ MDC n d').
  { destruct HR as [x' Hpl HM' Hfr| Hmb | j Hmj Hj | j Hmj Hj | j Hmj Hrp].
    - destruct (mstepR_frame _ _ _ Hpl HM') as (Fw & Fp & Fl & Fq).
      destruct (mstepR_main _ _ _ Hpl HM') as (M1 & M2 & M3).
      destruct Hfr as (Fd & _). destruct Hpl as (N1 & N2 & N3).
      unfold RM, NT, MDC, dbase in *. cbn [xs rp set_xs].
      split; [|split; [|split]].
      + rewrite Fd. repeat split; auto.
        * intros E. apply Hrm1 in E. destruct E as [E|[j E]]; [contradiction|exfalso; eapply N2; eauto].
        * intros [E|[j E]]; [contradiction|exfalso; eapply M2; eauto].
      + rewrite Fw. destruct (main (base (xs d))) eqn:Em; try congruence; try (exfalso; eapply N2; eauto; fail);
        destruct (main (base x')) eqn:Em'; try congruence; try (exfalso; eapply M2; eauto; fail); exact HNT.
      + eapply WI_frame; eauto.
      + intros b j E. eapply i4_q0; eauto.
    - unfold RM, NT, MDC, dbase in *. cbn [xs rp set_dbase set_xs base set_base]. unf.
      rewrite Hmb in *. split; [|split; [|split]].
      + repeat split; auto; first [intros _; right; eexists; reflexivity | intros _; apply Hrm1; left; reflexivity].
      + rewrite HNT. simpl. split; lia.
      + eapply WI_frame; [| |exact HW]; reflexivity.
      + intros b j E. discriminate E.
    - unfold RM, NT, MDC, dbase in *. cbn [xs rp set_dbase set_xs base set_base]. unf.
      rewrite Hmj in *. split; [|split; [|split]].
      + repeat split; auto; first [intros _; right; eexists; reflexivity | intros _; apply Hrm1; right; eexists; reflexivity].
      + rewrite app_length. simpl. destruct HNT as [A B]. split; lia.
      + eapply WI_addw; [| |exact HW]; reflexivity.
      + intros b j0 E. discriminate E.
    - unfold RM, NT, MDC, dbase in *. cbn [xs rp base set_base].
      pose proof (m_goto_main (base (xs d)) (ops (base (xs d)) ++ [ODrop]) [] false) as Hmm.
      rewrite m_goto_ws. rewrite Hmj in *. destruct HNT as [A B].
      split; [|split; [|split]].
      + repeat split; try discriminate; auto. intros [E|[j0 E]]; destruct Hmm as [Hmm|Hmm]; congruence.
      + destruct Hmm as [Hmm|Hmm]; rewrite Hmm; lia.
      + eapply WI_frame; [| |exact HW]. apply m_goto_ws. apply m_goto_ps.
      + intros b j0 E. destruct Hmm as [Hmm|Hmm]; congruence.
    - unfold RM, NT, MDC, dbase in *. cbn [xs rp set_dbase set_xs base set_base]. unf.
      rewrite Hmj in *. split; [|split; [|split]].
      + repeat split; auto. intros E; congruence. intros [E|[j0 E]]; discriminate E.
      + exact HNT.
      + eapply WI_frame; [| |exact HW]; reflexivity.
      + intros b j0 E. discriminate E. }
  destruct Hrest as (A & B & C & D).
  exact (conj A (conj B (conj HQ' (conj C (conj HE' (conj HJ' D)))))).
Qed.


(* ====================== part 15 ====================== *)

Lemma DI_step : forall c k n d t d' l, dinner c = IBlock k -> 1 <= k -> nofail (bcfg (dx c)) -> Inv4 c n d ->
  dstep c d t = Some (d', l) -> DI c k n d -> DI c k n d'.
Proof.
  intros c k n d t d' l Hk Hk1 Hnf H4 H HD. destruct t as [| | |j|kk]; simpl in H.
  - eapply DI_m; eauto.
  - eapply DI_r; eauto.
  - rewrite Hk in H. discriminate H.
  - destruct j as [|j]; [discriminate|].
    destruct (w_step (bcfg (dx c)) (dbase d) j) as [[b l']|] eqn:Hw; [|discriminate].
    injection H as E1 E2. subst d' l. eapply DI_w; eauto.
  - destruct (p_step (bcfg (dx c)) (dbase d) kk) as [[b l']|] eqn:Hp; [|discriminate].
    injection H as E1 E2. subst d' l. eapply DI_p; eauto.
Qed.

Lemma DI_init : forall c k n prog, wf_prog n prog -> DI c k n (dinit n prog).
Proof.
  intros c k n prog (W1 & W2 & W3). unfold DI, dinit, dbase, xinit, init. cbn [xs base rp rwait].
  refine (conj _ (conj _ (conj _ (conj _ (conj _ (conj _ (conj _ (conj _ _)))))))).
  - unfold InvC; cbn [queues futs subm main ops closed ws ps outs]. rewrite repeat_length.
    split; [intros i Hi; apply W2; apply in_submits; auto|].
    split; [intros i []|]. split; [discriminate|]. split; [discriminate|].
    split; [discriminate|]. split; [discriminate|]. split; [congruence|]. split; [discriminate|]. reflexivity.
  - split; cbn [ops subm]; auto.
  - unfold RM. simpl. repeat split; try discriminate; auto.
  - reflexivity.
  - unfold QI, C0, S0, T0, P0q, C1, S1, T1, P1q, J1, CQ, SQ, TQ, PQ, dbase. simpl.
    repeat split; try discriminate; auto; try (intros [x [[] _]]).
  - unfold WI, OW1, OW3, CH, D_fin, D_own. simpl. repeat split; try (intros x []; fail).
    + intros j j' w w' _ E. destruct j; discriminate E.
    + intros kk Hkk. lia.
  - intros i Hi. unfold pcnt, rcnt, dbase. simpl. unfold getf. simpl.
    assert (Hp : nth (i - 1) (repeat FPending n) FPending = FPending) by (apply repeat_nth; lia).
    rewrite Hp. repeat split; auto; try (intros; lia).
  - split; simpl; auto. apply nel_nil.
  - intros b j E. discriminate E.
Qed.

Lemma DI_reach : forall c k n prog d, dinner c = IBlock k -> 1 <= k -> nofail (bcfg (dx c)) ->
  wf_prog n prog -> dreach c (dinit n prog) d -> DI c k n d.
Proof.
  intros c k n prog d Hk Hk1 Hnf Hwf H. induction H as [|d t d' l Hr IH Hs].
  - apply DI_init; auto.
  - eapply DI_step; eauto. eapply Inv4_reach; eauto.
Qed.


(* ====================== part 16 ====================== *)

(* ---------- stuck threads of the resolver model ---------- *)
Lemma r_stuck : forall c k d, dinner c = IBlock k -> r_step c d = None ->
  match rp d with
  | RNone | RDone | RDead => True
  | RCheck _ todo _ | RScan _ _ _ todo _ _ _ _ => todo = []
  | RRes _ todo _ => match todo with [] => True | j :: _ => fdone (getf (dbase d) j) = false end
  | RInPut _ j => j = 0
  | RInJoin j => match nth_error (ws (dbase d)) j with Some wt => wdone wt = false | None => True end
  | RInJoinD => True
  | RInQJoin => qunf (getq (dbase d) 1) <> 0
  | RQJoin0 => qunf (getq (dbase d) 0) <> 0
  | _ => False
  end.
Proof.
  intros c k d Hk H. unfold r_step in H. cbv zeta in H. rewrite Hk in H.
  destruct (rp d); auto; destr_all H; try discriminate H; auto.
  - apply Nat.eqb_neq; assumption.
  - apply Nat.eqb_neq; assumption.
Qed.

Lemma dm_stuck : forall c k d, dinner c = IBlock k -> dm_step c d = None ->
  match main (dbase d) with
  | MBegin | MStart _ => False
  | MJoin _ => rdone (rp d) = false
  | MOp => match ops (dbase d) with
           | OResult i :: _ => fdone (getf (dbase d) i) = false
           | [] => True
           | _ => False
           end
  | MPutShut _ 0 => True
  | MQJoin => qunf (getq (dbase d) 0) <> 0
  | MEnd => True
  | _ => False
  end.
Proof.
  intros c k d Hk H. unfold dm_step in H. cbv zeta in H. rewrite Hk in H. unfold dbase.
  destruct (main (base (xs d))) eqn:Hm.
  - destruct k; discriminate H.
  - destruct (Nat.ltb k0 k); discriminate H.
  - destruct (xm_step (dx c) (xs d)) as [[x' l']|] eqn:Hx; [discriminate|]. unfold xm_step in Hx. cbv zeta in Hx.
    rewrite Hm in Hx. destruct (ops (base (xs d))) as [|o t]; auto. destruct o as [i|i|i|w b| |]; try discriminate Hx.
    + destruct (fcancel (getf (base (xs d)) i)); discriminate Hx.
    + destruct (fdone (getf (base (xs d)) i)); [discriminate Hx|reflexivity].
    + destruct b; [|discriminate Hx]. destruct (drain_step (base (xs d)) w) as [[b0 l0]|]; discriminate Hx.
  - destruct (xm_step (dx c) (xs d)) as [[x' l']|] eqn:Hx; [discriminate|]. unfold xm_step in Hx. cbv zeta in Hx.
    rewrite Hm in Hx. destruct (drain_step (base (xs d)) w) as [[b0 l0]|]; discriminate Hx.
  - destruct (xm_step (dx c) (xs d)) as [[x' l']|] eqn:Hx; [discriminate|]. unfold xm_step in Hx. cbv zeta in Hx.
    rewrite Hm in Hx. destruct (fcancel (getf (base (xs d)) j)); discriminate Hx.
  - destruct (xm_step (dx c) (xs d)) as [[x' l']|] eqn:Hx; [discriminate|]. unfold xm_step in Hx. cbv zeta in Hx.
    rewrite Hm in Hx. discriminate Hx.
  - destruct (xm_step (dx c) (xs d)) as [[x' l']|] eqn:Hx; [discriminate|]. unfold xm_step in Hx. cbv zeta in Hx.
    rewrite Hm in Hx. destruct k0; [exact I|discriminate Hx].
  - destruct (rdone (rp d)) eqn:Hr; [|reflexivity]. destruct (rp d); discriminate.
  - destruct (xm_step (dx c) (xs d)) as [[x' l']|] eqn:Hx; [discriminate|]. unfold xm_step in Hx. cbv zeta in Hx.
    rewrite Hm in Hx. destruct (Nat.eqb (qunf (getq (base (xs d)) 0)) 0) eqn:He; [discriminate Hx|].
    apply Nat.eqb_neq; assumption.
  - exact I.
Qed.

Lemma dstuck_all : forall c d, denabled c d = [] -> forall t, In t (dtids d) -> dstep c d t = None.
Proof.
  intros c d H t Ht. unfold denabled in H. pose proof (filter_nil_all _ _ _ H t Ht) as Hf.
  cbv beta in Hf. destruct (dstep c d t); [discriminate Hf|reflexivity].
Qed.

Lemma dtid_w : forall d j, j < length (ws (dbase d)) -> In (TW (S j)) (dtids d).
Proof.
  intros d j H. right; right; right. apply in_or_app. left. apply in_map_iff. exists j. split; auto.
  apply in_seq. lia.
Qed.

Lemma dtid_p : forall d k, k < length (ps (dbase d)) -> In (TP (S k)) (dtids d).
Proof.
  intros d k H. right; right; right. apply in_or_app. right. apply in_map_iff. exists k. split; auto.
  apply in_seq. lia.
Qed.

Lemma sp1_le : forall k r, sp1 k r <= k.
Proof. intros k r. destruct r; simpl; lia. Qed.

Lemma dstuck_workers : forall c k n d, DI c k n d ->
  (forall t, In t (dtids d) -> dstep c d t = None) ->
  forall w, In w (ws (dbase d)) ->
    (wp w = WGet /\ qitems (getq (dbase d) 1) = []) \/ (wp w = WSQJoin /\ qunf (getq (dbase d) 1) <> 0) \/ wp w = WDone.
Proof.
  intros c k n d (HC & HN & HRM & HNT & HQ & HW & HE & HJ & HM) Hst w Hw.
  destruct HW as (Ho1 & Ho3 & HCH & Hbad & Hwq & Hfin & Hown).
  assert (HP : forall kk p, nth_error (ps (dbase d)) kk = Some p ->
             match pp p with PRecv => inbox p = [] | PExit => True | _ => False end).
  { intros kk p Hk. eapply (p_stuck (bcfg (dx c))); eauto.
    assert (Hs : dstep c d (TP (S kk)) = None) by (apply Hst; apply dtid_p; eapply nth_error_some_lt; eauto).
    unfold dstep in Hs. destruct (p_step (bcfg (dx c)) (dbase d) (S kk)) as [[b l]|]; [discriminate Hs|reflexivity]. }
  pose proof Hw as Hw'. apply In_nth_error in Hw'. destruct Hw' as [j Hj].
  assert (Hws : w_step (bcfg (dx c)) (dbase d) j = None).
  { assert (Hs : dstep c d (TW (S j)) = None) by (apply Hst; apply dtid_w; eapply nth_error_some_lt; eauto).
    unfold dstep in Hs. destruct (w_step (bcfg (dx c)) (dbase d) j) as [[b l]|]; [discriminate Hs|reflexivity]. }
  pose proof (w_stuck _ _ _ _ Hj Hws) as Hs.
  pose proof (Hwq w Hw) as Hq. pose proof (Hbad w Hw) as Hb.
  assert (Hc : chan_ok (bcfg (dx c)) w (getp (dbase d) (wproc w)) = true).
  { pose proof (HCH w Hw) as Hc. unfold chanS in Hc. apply andb_true_iff in Hc. tauto. }
  pose proof (Ho1 w Hw) as Ho. unfold spawnedb in Ho.
  rewrite Hq in Hs.
  destruct (wp w) eqn:Hpc; simpl in Hb; try discriminate Hb; try contradiction; auto.
  - exfalso. unfold chan_ok in Hc. rewrite Hpc in Hc.
    eapply serving_enabled; eauto. eapply HP. apply getp_nth_error; lia.
  - exfalso. unfold chan_ok in Hc. rewrite Hpc in Hc.
    eapply serving_enabled; eauto. eapply HP. apply getp_nth_error; lia.
  - exfalso. rewrite (chan_comm _ _ _ Hc) in Hs. discriminate. left. eauto.
  - exfalso. rewrite (chan_comm _ _ _ Hc) in Hs. discriminate. right. auto.
Qed.

Lemma cnt_zero_quiet : forall d i, qitems (getq (dbase d) 0) = [] -> qitems (getq (dbase d) 1) = [] ->
  (forall w, In w (ws (dbase d)) -> wp w = WGet \/ wp w = WDone) ->
  rp d = RDone -> rwait d = [] -> (forall b j, main (dbase d) <> MDrainCancel b j) ->
  pcnt d i + rcnt d i = 0.
Proof.
  intros d i H0 H1 Hw Hr Hrw Hm. unfold pcnt, rcnt. rewrite H0, H1, Hr, Hrw. simpl rpre. simpl rfs.
  rewrite !count_nil.
  assert (Hs : count (srncb i) (ws (dbase d)) = 0).
  { apply count_zero_intro. intros x Hx. unfold srncb. destruct (Hw x Hx) as [E|E]; rewrite E; reflexivity. }
  assert (Hrn : count (runsb i) (ws (dbase d)) = 0).
  { apply count_zero_intro. intros x Hx. unfold runsb, w_run. destruct (Hw x Hx) as [E|E]; rewrite E; reflexivity. }
  assert (Hmd : mdc (main (dbase d)) i = 0).
  { unfold mdc. destruct (main (dbase d)) eqn:E; auto. exfalso. eapply Hm; eauto. }
  rewrite Hs, Hrn, Hmd. reflexivity.
Qed.

Lemma dstuck_shape : forall c k n d, dinner c = IBlock k -> 1 <= k -> DI c k n d -> WLD d -> Inv4 c n d ->
  (forall t, In t (dtids d) -> dstep c d t = None) ->
  rp d = RDone /\ main (dbase d) = MEnd /\ qitems (getq (dbase d) 0) = [] /\ qitems (getq (dbase d) 1) = [] /\
  (forall w, In w (ws (dbase d)) -> wp w = WDone).
Proof.
  intros c k n d Hk Hk1 HD HWL H4 Hst.
  pose proof (dstuck_workers _ _ _ _ HD Hst) as HWs.
  destruct HD as (HC & HN & HRM & HNT & HQ & HW & HE & HJ & HM).
  destruct HQ as (HC0 & HS0 & HT0 & HP0 & HC1 & HS1 & HT1 & HP1 & [HJa HJb]).
  destruct HRM as (Hrm1 & Hrm2 & Hrm3 & Hrm4).
  pose proof (dm_stuck c k d Hk (Hst TM ltac:(left; reflexivity))) as Hm.
  pose proof (r_stuck c k d Hk (Hst TR ltac:(right; left; reflexivity))) as Hr.
  assert (Hmb : main (dbase d) <> MBegin /\ forall j, main (dbase d) <> MStart j).
  { split; [intros E|intros j E]; rewrite E in Hm; exact Hm. }
  assert (Hlen : length (ws (dbase d)) = k).
  { unfold NT in HNT. destruct (main (dbase d)) eqn:E; try exact HNT.
    - exfalso. apply (proj1 Hmb). reflexivity.
    - exfalso. eapply (proj2 Hmb). reflexivity. }
  assert (Hmh : m_holds (dbase d) = 0).
  { unfold m_holds. destruct (main (dbase d)); try contradiction; reflexivity. }
  assert (Hnh : count w_holds (ws (dbase d)) = 0).
  { apply count_zero_intro. intros x Hx. unfold w_holds.
    destruct (HWs x Hx) as [[He _]|[[He _]|He]]; rewrite He; reflexivity. }
  assert (Hq1 : qitems (getq (dbase d) 1) = []).
  { destruct (qitems (getq (dbase d) 1)) as [|it rest] eqn:Hit; auto. exfalso.
    assert (Hpast : forall x, In x (ws (dbase d)) -> w_past x = true).
    { intros x Hx. unfold w_past. destruct (HWs x Hx) as [[_ He]|[[He _]|He]]; try discriminate He;
      rewrite He; reflexivity. }
    pose proof (count_all_intro _ _ _ Hpast) as Hcp.
    destruct (length_pos_in _ (ws (dbase d)) ltac:(lia)) as [w0 Hw0].
    assert (Hsh : forallb is_shut (it :: rest) = true).
    { rewrite <- Hit. apply HP1. exists w0. split; [exact Hw0|apply Hpast; exact Hw0]. }
    apply forallb_count in Hsh. unfold S1, SQ in HS1. rewrite Hit, Hsh, Hcp, Hlen in HS1.
    pose proof (sp1_le k (rp d)) as Hle. simpl in HS1. lia. }
  assert (Hu1 : qunf (getq (dbase d) 1) = 0).
  { unfold C1, CQ in HC1. rewrite Hq1, Hnh in HC1. simpl in HC1. exact HC1. }
  assert (HW' : forall x, In x (ws (dbase d)) -> wp x = WGet \/ wp x = WDone).
  { intros x Hx. destruct (HWs x Hx) as [[He _]|[[_ He]|He]]; auto. contradiction. }
  assert (Hallpast : sp1 k (rp d) = k -> forall x, In x (ws (dbase d)) -> wp x = WDone).
  { intros Hsp x Hx. unfold S1, SQ in HS1. rewrite Hq1, Hsp, <- Hlen in HS1. rewrite count_nil in HS1.
    simpl in HS1. pose proof (count_all _ _ _ HS1 x Hx) as Hp. unfold w_past in Hp.
    destruct (HW' x Hx) as [He|He]; auto. rewrite He in Hp. discriminate Hp. }
  assert (Hpast0 : r_past0 (rp d) = 1 -> qitems (getq (dbase d) 0) = []).
  { intros Hp. pose proof (HP0 Hp) as Hsh. apply forallb_count in Hsh.
    unfold S0 in HS0. rewrite Hp in HS0. pose proof (shuts_put_le (bcfg (dx c)) (dbase d)) as Hle. simpl in Hle.
    destruct (qitems (getq (dbase d) 0)); auto. simpl in Hsh. lia. }
  destruct HJ as [HJ1 HJ2].
  assert (Hrd : rp d = RDone).
  { destruct (rp d) eqn:Hrp; simpl in HJ2; try contradiction; try congruence; auto.
    - exfalso. assert (E : main (dbase d) = MBegin \/ exists j, main (dbase d) = MStart j) by (apply Hrm1; reflexivity).
      destruct E as [E|[j E]]; [apply (proj1 Hmb E)|apply (proj2 Hmb j E)].
    - destruct HJ2 as [HJ2 _]. contradiction.
    - destruct HJ2 as (A & B & _). destruct todo as [|j rest]; [contradiction|].
      rewrite (B j) in Hr by (left; reflexivity). discriminate Hr.
    - destruct HJ2 as (_ & _ & A & _). contradiction.
    - specialize (HJb _ _ eq_refl). lia.
    - exfalso. specialize (HJa _ eq_refl). rewrite <- Hlen in HJa.
      destruct (nth_error (ws (dbase d)) k0) as [wt|] eqn:Hk0; [|apply nth_error_None in Hk0; lia].
      pose proof (Hallpast eq_refl wt (nth_error_In _ _ Hk0)) as Hd. unfold wdone in Hr. rewrite Hd in Hr.
      discriminate Hr.
    - exfalso. pose proof (Hpast0 ltac:(rewrite ?Hrp; reflexivity)) as H0.
      unfold C0 in HC0. rewrite ?Hrp in HC0. rewrite H0, Hmh in HC0. simpl in HC0. apply Hr. exact HC0. }
  pose proof (Hpast0 ltac:(rewrite Hrd; reflexivity)) as Hq0.
  assert (Hu0 : qunf (getq (dbase d) 0) = 0).
  { unfold C0 in HC0. rewrite Hq0, Hmh, Hrd in HC0. simpl in HC0. exact HC0. }
  assert (Hrw : rwait d = []) by (apply HWL; unfold r_in_inner_shutdown; rewrite Hrd; reflexivity).
  assert (Hcz : forall i, pcnt d i + rcnt d i = 0).
  { intros i. apply cnt_zero_quiet; auto. intros b j E. rewrite E in Hm. exact Hm. }
  pose proof HC as (C1' & C2 & C3 & C4 & C5 & C6 & C7 & C8 & C9).
  assert (Hend : main (dbase d) = MEnd).
  { destruct (main (dbase d)) eqn:Hmain; try contradiction; auto.
    - specialize (C3 eq_refl). destruct (ops (dbase d)) as [|o t]; [exfalso; exact C3|].
      destruct o as [i|i|i|w b| |]; try contradiction. simpl in C3.
      pose proof (C2 i C3) as Hi. rewrite (i4_len _ _ _ H4) in Hi.
      destruct (HE i Hi) as (_ & E2 & _). exfalso. destruct E2 as [E2|[E2|E2]].
      + unfold getf in Hm. rewrite E2 in Hm. discriminate Hm.
      + contradiction.
      + rewrite Hcz in E2. discriminate E2.
    - destruct k0; [|contradiction]. specialize (C5 _ _ eq_refl). lia.
    - rewrite Hrd in Hm. discriminate Hm. }
  repeat split; auto.
  apply Hallpast. rewrite Hrd. reflexivity.
Qed.


(* ====================== part 17 ====================== *)

Theorem dep_rest_state_block : forall c n prog d k,
  dinner c = IBlock k -> 1 <= k -> (forall i, xraises (dx c) i = false) -> wf_prog n prog -> wf_deps c n ->
  dreach c (dinit n prog) d -> drest_ok_b c d = true.
Proof.
  intros c n prog d k Hk Hk1 Hnf Hwf _ Hr. unfold drest_ok_b.
  destruct (denabled c d) as [|t0 ts] eqn:He; [|reflexivity].
  assert (Hnf' : nofail (bcfg (dx c))) by (intros i; apply Hnf).
  pose proof (DI_reach _ _ _ _ _ Hk Hk1 Hnf' Hwf Hr) as HD.
  pose proof (Inv4_reach _ _ _ _ Hwf Hr) as H4.
  pose proof (WLD_reach _ _ _ _ Hr) as HWL.
  destruct (dstuck_shape _ _ _ _ Hk Hk1 HD HWL H4 (dstuck_all _ _ He)) as (Hrd & Hend & Hq0 & Hq1 & Hwd).
  destruct HD as (HC & HN & HRM & HNT & HQ & HW & HE & HJ & HM).
  destruct HW as (Ho1 & Ho3 & HCH & Hbad & Hwq & Hfin & Hown).
  rewrite Hend, Hrd. simpl.
  assert (Hrw : rwait d = []) by (apply HWL; unfold r_in_inner_shutdown; rewrite Hrd; reflexivity).
  repeat (apply andb_true_iff; split); auto.
  - apply forallb_forall. intros i Hi. destruct HC as (_ & C2 & _).
    pose proof (C2 i Hi) as Hr'. rewrite (i4_len _ _ _ H4) in Hr'.
    assert (Hz : pcnt d i + rcnt d i = 0).
    { apply (cnt_zero_quiet d i Hq0 Hq1 (fun w Hw => or_intror (Hwd w Hw)) Hrd Hrw). intros b j E. congruence. }
    destruct (HE i Hr') as (_ & E2 & _). destruct E2 as [E2|[E2|E2]]; auto; try contradiction.
    rewrite Hz in E2. discriminate E2.
  - apply forallb_forall. intros p Hp. apply In_nth_error in Hp. destruct Hp as [kk Hkk].
    pose proof (nth_error_some_lt _ _ _ _ Hkk) as Hlt.
    destruct (Hown kk Hlt) as [w [Hw1 Hw2]].
    assert (Hf : wfin w = true) by (unfold wfin; rewrite (Hwd w Hw1); reflexivity).
    pose proof (Hfin w Hw1 Hf) as Ha. rewrite Hw2 in Ha. unfold getp in Ha.
    replace (S kk - 1) with kk in Ha by lia. rewrite (nth_error_nth' _ _ _ _ _ Hkk) in Ha. rewrite Ha. reflexivity.
  - apply forallb_forall. intros w Hw. unfold wdone. rewrite (Hwd w Hw). reflexivity.
Qed.
Print Assumptions dep_rest_state_block.

(* the resolver never dies with an exception when no call fails *)
Theorem resolver_not_dead : forall c n prog d k,
  dinner c = IBlock k -> 1 <= k -> (forall i, xraises (dx c) i = false) -> wf_prog n prog ->
  dreach c (dinit n prog) d -> rp d <> RDead.
Proof.
  intros c n prog d k Hk Hk1 Hnf Hwf Hr.
  assert (Hnf' : nofail (bcfg (dx c))) by (intros i; apply Hnf).
  destruct (DI_reach _ _ _ _ _ Hk Hk1 Hnf' Hwf Hr) as (_ & _ & (_ & H & _) & _). exact H.
Qed.
Print Assumptions resolver_not_dead.
