(* C10: per-call resources — proofs over the regenerated resource merging code
   (Gen.SharedRes: _submit_function_to_separate_process, ExecutorBroker.submit's check;
    Gen.CacheRes: the merge in execute_tasks_h5). *)
From Coq Require Import ZArith String Ascii List Bool Lia.
From EL Require Import Base.Dec Base.PyLib Base.Tac Proofs.DictFacts Gen.InputCheck Gen.SharedRes Gen.CacheRes.
Import ListNotations.
Local Open Scope string_scope.
Local Open Scope list_scope.

Lemma py_keys_s d : py_keys (sdict d) = Ok (VList (List.map VStr (keys d))).
Proof. unfold py_keys, sdict, kvs, keys. rewrite !List.map_map. reflexivity. Qed.

Lemma mem_keys x d : List.existsb (String.eqb x) (keys d) = match assoc x d with Some _ => true | None => false end.
Proof.
  induction d as [|[k v] t IH]; simpl; [reflexivity|].
  destruct (String.eqb x k); simpl; [reflexivity|exact IH].
Qed.

Lemma py_copy_s d : py_copy (sdict d) = Ok (sdict d).
Proof. reflexivity. Qed.

(* the per-call dictionary after the `cores` rule: the executor's value is used when the call
   does not name cores, or names 1 while the executor has at least 1 *)
Definition eff_rd (ecores : Z) (rd : sal) : sal :=
  match assoc "cores" rd with
  | None => aset "cores" (VInt ecores) rd
  | Some (VInt c) => if (c =? 1)%Z && (ecores >=? 1)%Z then aset "cores" (VInt ecores) rd else rd
  | Some _ => rd
  end.

Definition int_or (d : Z) (o : option pyval) : Z := match o with Some (VInt z) => z | _ => d end.

Definition forced (q sp hl : pyval) : sal :=
  [("future_queue", q); ("spawner", sp); ("hostname_localhost", hl); ("init_function", VNone)].

Definition cores_is_int (rd : sal) : Prop :=
  match assoc "cores" rd with Some (VInt _) | None => True | _ => False end.
Definition threads_is_int (rd : sal) : Prop :=
  match assoc "threads_per_core" rd with Some (VInt _) | None => True | _ => False end.


(* ------------------------------------------------------------------ *)
(* (5) ExecutorBroker.submit rejects every non-empty per-call dictionary *)

Lemma broker_rejects rd : rd <> [] -> broker_submit_checks (sdict rd) = Err "ValueError".
Proof.
  intros Hne. destruct rd as [|[k v] t]; [congruence|].
  unfold broker_submit_checks, check_resource_dict_is_empty, sdict, py_len.
  cbn [bind kvs List.map List.length].
  unfold py_gt, py_cmp. cbn [as_int bind].
  assert (G : Z.gtb (Z.of_nat (S (List.length (List.map (fun p : string * pyval => (VStr (fst p), snd p)) t)))) 0 = true).
  { apply Z.gtb_lt. lia. }
  rewrite G. reflexivity.
Qed.

Lemma broker_accepts_empty : broker_submit_checks (sdict []) = Ok (VTuple [sdict []]).
Proof. reflexivity. Qed.

Print Assumptions broker_rejects.
Print Assumptions broker_accepts_empty.

(* ------------------------------------------------------------------ *)
(* (4) the two guards of _wait_for_free_slots *)

Definition zsum (act : list (pyval * Z)) : Z :=
  List.fold_right (fun p acc => (snd p + acc)%Z) 0%Z act.

Lemma foldM_add_ints (act : list (pyval * Z)) (a : Z) :
  foldM (fun acc v => py_add acc v) (List.map (fun p : pyval * Z => VInt (snd p)) act) (VInt a)
  = Ok (VInt (a + zsum act)).
Proof.
  revert a. induction act as [|[k z] t IH]; intros a; cbn [List.map foldM zsum List.fold_right snd].
  - f_equal. f_equal. lia.
  - unfold py_add at 1. cbn [as_int bind]. rewrite IH. f_equal. f_equal. unfold zsum. lia.
Qed.

Lemma guard_cores (act : list (pyval * Z)) r m :
  wait_guard_cores (VDict (List.map (fun p => (fst p, VInt (snd p))) act)) (VInt r) (VInt m)
  = Ok (VBool (Z.gtb (List.fold_right (fun p acc => (snd p + acc)%Z) 0%Z act + r) m)).
Proof.
  unfold wait_guard_cores, py_values. cbn [bind]. rewrite List.map_map. cbn [snd].
  unfold py_sum, py_iter. cbn [bind]. rewrite foldM_add_ints. cbn [bind].
  unfold py_add, py_gt, py_cmp. cbn [as_int bind]. reflexivity.
Qed.

Lemma guard_workers (act : list (pyval * pyval)) m :
  wait_guard_workers (VDict act) (VInt m) = Ok (VBool (Z.gtb (Z.of_nat (List.length act) + 1) m)).
Proof.
  unfold wait_guard_workers, py_values, py_len. cbn [bind]. rewrite List.map_length.
  unfold py_add, py_gt, py_cmp. cbn [as_int bind]. reflexivity.
Qed.

Print Assumptions guard_cores.
Print Assumptions guard_workers.

(* ------------------------------------------------------------------ *)
(* (3) file mode: the executor-level dictionary only fills what the call leaves open *)

Definition has (x : string) (l : sal) : bool :=
  match assoc x l with Some _ => true | None => false end.

Definition fill (rd rdx : sal) : sal :=
  List.filter (fun p => negb (match assoc (fst p) rd with Some _ => true | None => false end)) rdx.

Lemma file_mode_merge td rd rdx :
  assoc "resource_dict" td = Some (sdict rd) -> NoDup (keys rdx) ->
  file_mode_resources (sdict td) (sdict rdx)
  = Ok (VTuple [sdict (aupdate rd (List.filter (fun p => negb (match assoc (fst p) rd with Some _ => true | None => false end)) rdx));
                sdict td; sdict rdx]).
Proof.
  intros Hrd ND. unfold file_mode_resources.
  rewrite py_getitem_s, Hrd. cbn [bind]. rewrite py_copy_s. cbn [bind].
  unfold py_items, py_iter. change (sdict rdx) with (VDict (kvs rdx)). cbn [bind].
  change (VDict (kvs rd)) with (sdict rd).
  set (items := List.map (fun kv : pyval * pyval => VTuple [fst kv; snd kv]) (kvs rdx)).
  rewrite (filterM_pure _ (fun t => match t with
                                    | VTuple [VStr k; _] => negb (has k rd)
                                    | _ => false end)).
  2:{ intros a Ha. unfold items in Ha. apply in_map_iff in Ha. destruct Ha as [[k0 v0] [Ea Hin]].
      subst a. unfold kvs in Hin. apply in_map_iff in Hin. destruct Hin as [[k v] [E _]].
      inversion E; subst. cbn [fst snd py_unpack2 bind].
      unfold py_not_in. rewrite py_in_s. cbn [bind truthy]. unfold has. reflexivity. }
  cbn [bind].
  assert (F : List.filter (fun t => match t with
                                    | VTuple [VStr k; _] => negb (has k rd)
                                    | _ => false end) items
              = List.map (fun p => VTuple [VStr (fst p); snd p]) (fill rd rdx)).
  { unfold items, fill, kvs, has. clear. induction rdx as [|[k v] t IH]; cbn [List.map List.filter fst snd]; [reflexivity|].
    destruct (assoc k rd); cbn [negb List.map fst snd]; rewrite IH; reflexivity. }
  rewrite F.
  rewrite (mapM_pure _ (fun t => match t with VTuple [k; v] => (k, v) | _ => (VNone, VNone) end)).
  2:{ intros a Ha. apply in_map_iff in Ha. destruct Ha as [[k v] [Ea _]]. subst a. reflexivity. }
  cbn [bind]. rewrite List.map_map. cbn [fst snd].
  change (List.map (fun x : string * pyval => (VStr (fst x), snd x)) (fill rd rdx))
    with (kvs (fill rd rdx)).
  rewrite py_mkdict_kvs by (apply keys_filter_nodup; exact ND).
  rewrite py_dict_update_s. cbn [bind]. reflexivity.
Qed.

Lemma file_mode_lookup rd rdx x :
  NoDup (keys rdx) ->
  assoc x (aupdate rd (List.filter (fun p => negb (match assoc (fst p) rd with Some _ => true | None => false end)) rdx))
  = match assoc x rd with Some v => Some v | None => assoc x rdx end.
Proof.
  intros ND. rewrite assoc_aupdate by (apply keys_filter_nodup; exact ND).
  rewrite (assoc_filter_key (fun k => negb (match assoc k rd with Some _ => true | None => false end))).
  destruct (assoc x rd) as [v|] eqn:E; cbn [negb]; [reflexivity|].
  destruct (assoc x rdx); reflexivity.
Qed.

Print Assumptions file_mode_merge.
Print Assumptions file_mode_lookup.

(* ------------------------------------------------------------------ *)
(* (2) what the worker finally receives under a name *)

Lemma nodup_app_single (l : list string) x : NoDup l -> ~ In x l -> NoDup (l ++ [x]).
Proof.
  induction l as [|y t IH]; intros ND Hn; cbn [app].
  - constructor; [intros Hi; inversion Hi|constructor].
  - inversion ND as [|? ? Hy ND']; subst. constructor.
    + intros Hi. apply in_app_or in Hi. destruct Hi as [Hi|Hi]; [contradiction|].
      destruct Hi as [E|Hi]; [|inversion Hi]. apply Hn. left. symmetry. exact E.
    + apply IH; [exact ND'|]. intros Hi. apply Hn. right. exact Hi.
Qed.

Lemma keys_aset_nodup x v l : NoDup (keys l) -> NoDup (keys (aset x v l)).
Proof.
  intros ND. destruct (in_dec String.string_dec x (keys l)) as [Hi|Hn].
  - rewrite keys_aset_in by exact Hi. exact ND.
  - rewrite aset_notin by exact Hn. rewrite keys_app. cbn [keys List.map fst].
    apply nodup_app_single; assumption.
Qed.

Lemma eff_rd_nodup ecores rd : NoDup (keys rd) -> NoDup (keys (eff_rd ecores rd)).
Proof.
  intros ND. unfold eff_rd. destruct (assoc "cores" rd) as [v|].
  - destruct v as [ |b|c|s|l|l|d|cls id]; try exact ND.
    destruct ((c =? 1)%Z && (ecores >=? 1)%Z); [apply keys_aset_nodup|]; exact ND.
  - apply keys_aset_nodup; exact ND.
Qed.

Lemma forced_nodup q sp hl : NoDup (keys (forced q sp hl)).
Proof.
  unfold forced. cbn [keys List.map fst].
  repeat (constructor; [cbn [In]; intros Hi; repeat (destruct Hi as [Hi|Hi]; [discriminate Hi|]); exact Hi|]).
  constructor.
Qed.

Lemma assoc_forced_other q sp hl x :
  x <> "future_queue" -> x <> "spawner" -> x <> "hostname_localhost" -> x <> "init_function" ->
  assoc x (forced q sp hl) = None.
Proof.
  intros H1 H2 H3 H4. unfold forced. cbn [assoc].
  destruct (String.eqb_spec x "future_queue") as [E|_]; [contradiction|].
  destruct (String.eqb_spec x "spawner") as [E|_]; [contradiction|].
  destruct (String.eqb_spec x "hostname_localhost") as [E|_]; [contradiction|].
  destruct (String.eqb_spec x "init_function") as [E|_]; [contradiction|].
  reflexivity.
Qed.

Theorem effective_lookup ek ecores rd q sp hl x :
  NoDup (keys rd) ->
  x <> "future_queue" -> x <> "spawner" -> x <> "hostname_localhost" -> x <> "init_function" ->
  assoc x (aupdate (aupdate ek (eff_rd ecores rd)) (forced q sp hl))
  = match assoc x (eff_rd ecores rd) with Some v => Some v | None => assoc x ek end.
Proof.
  intros ND H1 H2 H3 H4.
  rewrite assoc_aupdate by apply forced_nodup.
  rewrite assoc_forced_other by assumption.
  apply assoc_aupdate. apply eff_rd_nodup. exact ND.
Qed.

(* the forced entries themselves always win *)
Lemma effective_forced ek ecores rd q sp hl x v :
  assoc x (forced q sp hl) = Some v ->
  assoc x (aupdate (aupdate ek (eff_rd ecores rd)) (forced q sp hl)) = Some v.
Proof.
  intros H. rewrite assoc_aupdate by apply forced_nodup. rewrite H. reflexivity.
Qed.

Theorem eff_rd_other ecores rd x : x <> "cores" -> assoc x (eff_rd ecores rd) = assoc x rd.
Proof.
  intros Hx. unfold eff_rd.
  assert (A : assoc x (aset "cores" (VInt ecores) rd) = assoc x rd).
  { rewrite assoc_aset. destruct (String.eqb_spec x "cores") as [E|_]; [contradiction|reflexivity]. }
  destruct (assoc "cores" rd) as [v|]; [|exact A].
  destruct v as [ |b|c|s|l|l|d|cls id]; try reflexivity.
  destruct ((c =? 1)%Z && (ecores >=? 1)%Z); [exact A|reflexivity].
Qed.

Theorem eff_rd_cores ecores rd : cores_is_int rd ->
  assoc "cores" (eff_rd ecores rd) =
    match assoc "cores" rd with
    | Some (VInt c) => if ((c =? 1)%Z && (ecores >=? 1)%Z) then Some (VInt ecores) else Some (VInt c)
    | _ => Some (VInt ecores) end.
Proof.
  intros Hc. unfold cores_is_int in Hc. unfold eff_rd.
  assert (A : assoc "cores" (aset "cores" (VInt ecores) rd) = Some (VInt ecores)).
  { rewrite assoc_aset. rewrite String.eqb_refl. reflexivity. }
  destruct (assoc "cores" rd) as [v|] eqn:E; [|exact A].
  destruct v as [ |b|c|s|l|l|d|cls id]; try contradiction.
  destruct ((c =? 1)%Z && (ecores >=? 1)%Z); [exact A|exact E].
Qed.

Print Assumptions effective_lookup.
Print Assumptions effective_forced.
Print Assumptions eff_rd_other.
Print Assumptions eff_rd_cores.

(* ------------------------------------------------------------------ *)
(* (1) the shape of _submit_function_to_separate_process *)

Lemma bind_assoc {A B C} (m : res A) (f : A -> res B) (g : B -> res C) :
  bind (bind m f) g = bind m (fun x => bind (f x) g).
Proof. destruct m; reflexivity. Qed.

Lemma pyeqb_int a b : pyeqb (VInt a) (VInt b) = Z.eqb a b.
Proof. reflexivity. Qed.

Lemma eff_rd_cores_int ecores rd : cores_is_int rd ->
  exists k, assoc "cores" (eff_rd ecores rd) = Some (VInt k).
Proof.
  intros Hc. rewrite eff_rd_cores by exact Hc. unfold cores_is_int in Hc.
  destruct (assoc "cores" rd) as [v|]; [|eexists; reflexivity].
  destruct v as [ |b|c|s|l|l|d|cls id]; try contradiction.
  destruct ((c =? 1)%Z && (ecores >=? 1)%Z); eexists; reflexivity.
Qed.

Lemma forced_mkdict q sp hl :
  py_mkdict [(VStr "future_queue", q); (VStr "spawner", sp);
             (VStr "hostname_localhost", hl); (VStr "init_function", VNone)]
  = sdict (forced q sp hl).
Proof.
  change [(VStr "future_queue", q); (VStr "spawner", sp);
          (VStr "hostname_localhost", hl); (VStr "init_function", VNone)] with (kvs (forced q sp hl)).
  apply py_mkdict_kvs. apply forced_nodup.
Qed.

Lemma submit_shape wait td rd ek ecores act q sp mc mw hl f act' :
  assoc "resource_dict" td = Some (sdict rd) ->
  assoc "future" (adel "resource_dict" td) = Some f ->
  assoc "cores" ek = Some (VInt ecores) ->
  cores_is_int rd -> threads_is_int rd -> NoDup (keys td) ->
  let slots := (int_or ecores (assoc "cores" (eff_rd ecores rd)) * int_or 1 (assoc "threads_per_core" rd))%Z in
  wait act (VInt slots) mc mw = Ok act' ->
  _submit_function_to_separate_process wait (sdict td) act q sp (sdict ek) mc mw hl
  = (a3 <- py_setitem act' f (VInt slots) ;;
     Ok (sdict (aupdate (aupdate ek (eff_rd ecores rd)) (forced q sp hl)), VInt slots, a3)).
Proof.
  intros Htd Hf Hek Hc Ht ND slots Hw.
  unfold _submit_function_to_separate_process.
  rewrite py_getitem_s, Htd. cbn [bind]. rewrite py_delitem_s, Htd. cbn [bind]. rewrite py_copy_s. cbn [bind].
  rewrite py_keys_s. cbn [bind]. unfold py_not_in, py_in. cbn [bind]. rewrite list_mem_strs, mem_keys.
  match goal with
  | |- bind ?A (fun t5 => bind (@?B t5) ?K) = ?R =>
      transitivity (bind (bind A B) K); [symmetry; apply bind_assoc|];
      assert (HA : bind A B = Ok (sdict (eff_rd ecores rd)))
  end.
  { unfold eff_rd. unfold cores_is_int in Hc.
    destruct (assoc "cores" rd) as [v|] eqn:Ec.
    - destruct v as [ |b|c|s|l|l|d|cls id]; try contradiction.
      cbn [truthy negb bind]. rewrite py_getitem_s, Ec. cbn [bind]. unfold py_eq. rewrite pyeqb_int.
      cbn [bind truthy].
      destruct (c =? 1)%Z eqn:Ec1; cbn [andb].
      + rewrite !py_getitem_s, Hek. cbn [bind]. unfold py_ge, py_cmp. cbn [as_int bind truthy].
        destruct (ecores >=? 1)%Z eqn:Ee.
        * rewrite py_setitem_s. reflexivity.
        * reflexivity.
      + cbn [bind truthy]. reflexivity.
    - cbn [truthy negb bind]. rewrite py_getitem_s, Hek. cbn [bind]. rewrite py_setitem_s. reflexivity. }
  rewrite HA. clear HA. cbn [bind].
  destruct (eff_rd_cores_int ecores rd Hc) as [k Hk].
  rewrite py_getitem_s, Hk. cbn [bind]. rewrite py_dict_get_s.
  rewrite (eff_rd_other ecores rd "threads_per_core") by discriminate. cbn [bind].
  assert (Hs : py_mul (VInt k) (match assoc "threads_per_core" rd with Some v => v | None => VInt 1 end) = Ok (VInt slots)).
  { unfold slots. rewrite Hk. cbn [int_or]. unfold threads_is_int in Ht.
    destruct (assoc "threads_per_core" rd) as [v|]; [|reflexivity].
    destruct v as [ |b|c|s|l|l|d|cls id]; try contradiction. reflexivity. }
  rewrite Hs. cbn [bind]. rewrite Hw. cbn [bind].
  rewrite py_getitem_s, Hf. cbn [bind].
  rewrite py_copy_s. rewrite forced_mkdict.
  destruct (py_setitem act' f (VInt slots)) as [a3|e]; cbn [bind]; [|reflexivity].
  rewrite py_dict_update_s. cbn [bind]. rewrite py_dict_update_s. cbn [bind]. reflexivity.
Qed.

Print Assumptions submit_shape.

(* under the hypotheses of submit_shape the function returns normally whenever the table of
   active tasks handed back by the wait is a dictionary; the result is explicit *)
Lemma submit_returns wait td rd ek ecores act q sp mc mw hl f d :
  assoc "resource_dict" td = Some (sdict rd) ->
  assoc "future" (adel "resource_dict" td) = Some f ->
  assoc "cores" ek = Some (VInt ecores) ->
  cores_is_int rd -> threads_is_int rd -> NoDup (keys td) ->
  let slots := (int_or ecores (assoc "cores" (eff_rd ecores rd)) * int_or 1 (assoc "threads_per_core" rd))%Z in
  wait act (VInt slots) mc mw = Ok (VDict d) ->
  _submit_function_to_separate_process wait (sdict td) act q sp (sdict ek) mc mw hl
  = Ok (sdict (aupdate (aupdate ek (eff_rd ecores rd)) (forced q sp hl)), VInt slots,
        VDict (dict_set_l f (VInt slots) d)).
Proof.
  intros Htd Hf Hek Hc Ht ND slots Hw.
  rewrite (submit_shape wait td rd ek ecores act q sp mc mw hl f (VDict d) Htd Hf Hek Hc Ht ND Hw).
  reflexivity.
Qed.

Theorem submit_leaves_caller_dicts wait td rd ek ecores act q sp mc mw hl f d :
  assoc "resource_dict" td = Some (sdict rd) ->
  assoc "future" (adel "resource_dict" td) = Some f ->
  assoc "cores" ek = Some (VInt ecores) ->
  cores_is_int rd -> threads_is_int rd -> NoDup (keys td) ->
  let slots := (int_or ecores (assoc "cores" (eff_rd ecores rd)) * int_or 1 (assoc "threads_per_core" rd))%Z in
  wait act (VInt slots) mc mw = Ok (VDict d) ->
  exists a3 slots' kw,
    _submit_function_to_separate_process wait (sdict td) act q sp (sdict ek) mc mw hl = Ok (kw, slots', a3).
Proof.
  intros Htd Hf Hek Hc Ht ND slots Hw.
  eexists. eexists. eexists.
  exact (submit_returns wait td rd ek ecores act q sp mc mw hl f d Htd Hf Hek Hc Ht ND Hw).
Qed.

Print Assumptions submit_returns.
Print Assumptions submit_leaves_caller_dicts.

(* ------------------------------------------------------------------ *)
(* the limits the dispatcher thread is started with (InteractiveStepExecutor.__init__, regenerated):
   whatever the executor_kwargs dictionary held before - in particular a "max_cores" / "max_workers"
   entry left there by an earlier executor built from the same user dictionary - the dispatcher
   receives exactly the constructor's max_cores and max_workers *)
From EL Require Import Gen.StepCtor.

Lemma step_ctor_limits q self mc mw ek sp :
  step_ctor q self mc mw (sdict ek) sp
  = Ok (sdict (aset "max_workers" mw (aset "max_cores" mc (aset "spawner" sp (aset "future_queue" q ek))))).
Proof. unfold step_ctor. rewrite !py_setitem_s. cbn [bind]. rewrite !py_setitem_s. cbn [bind].
       rewrite !py_setitem_s. cbn [bind]. rewrite !py_setitem_s. reflexivity. Qed.

Definition k_max_cores : string := "max_cores".
Definition k_max_workers : string := "max_workers".

Theorem step_ctor_hands_over_the_given_limits q self mc mw ek sp :
  exists d, step_ctor q self mc mw (sdict ek) sp = Ok (sdict d)
            /\ assoc k_max_cores d = Some mc /\ assoc k_max_workers d = Some mw.
Proof.
  unfold k_max_cores, k_max_workers. eexists. split; [apply step_ctor_limits|]. split.
  - rewrite assoc_aset. cbn. rewrite assoc_aset. cbn. reflexivity.
  - rewrite assoc_aset. cbn. reflexivity.
Qed.
