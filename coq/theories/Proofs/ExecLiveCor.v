(* The liveness-side theorems of Proofs/ExecLive.v instantiated with the safety invariant
   proved in Proofs/ExecSafe.v. *)
From Coq Require Import List Bool Arith.
From EL Require Import Model.Exec Model.ExecInv Proofs.ExecSafe Proofs.ExecLive Proofs.ExecMeasure.
Import ListNotations.

Definition nofail_inv := nofail_reach safe_reach.
Definition no_deadlock_thm := no_deadlock safe_reach.
Definition all_done_thm := all_done_when_stuck safe_reach.
Definition all_exited_thm := all_exited_when_stuck safe_reach.
Definition after_wait_thm := after_wait_shutdown safe_reach.
