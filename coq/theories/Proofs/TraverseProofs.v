(* C03: the futures a call waits for are exactly the futures that are replaced by their results,
   in the same order; everything else is left unchanged. *)
From Coq Require Import List Bool Arith.
From EL Require Import Model.Traverse.
Import ListNotations.

(* induction principle for the nested type *)
Section Ind.
  Variable P : targ -> Prop.
  Hypothesis Hval : forall v, P (TVal v).
  Hypothesis Hfut : forall j, P (TFut j).
  Hypothesis Hlist : forall l, Forall P l -> P (TList l).
  Hypothesis Hother : forall l, P (TOther l).
  Fixpoint targ_ind2 (a : targ) : P a :=
    match a with
    | TVal v => Hval v
    | TFut j => Hfut j
    | TList l => Hlist l ((fix go (l : list targ) : Forall P l :=
                             match l with [] => Forall_nil P | x :: t => Forall_cons x (targ_ind2 x) (go t) end) l)
    | TOther l => Hother l
    end.
End Ind.

Lemma find1_asked a : find1 a = asked a.
Proof.
  induction a as [v|j|l IH|l] using targ_ind2; [reflexivity|reflexivity| |reflexivity].
  simpl. induction IH as [|x t Hx _ IHt]; [reflexivity|]. rewrite Hx, IHt. reflexivity.
Qed.

(* the same traversal: found = asked, positional arguments then keyword values *)
Theorem same_traversal args kwargs : futures_of args kwargs = asked_of args kwargs.
Proof.
  unfold futures_of, asked_of, find. f_equal; apply flat_map_ext; intros a; apply find1_asked.
Qed.

(* substitution: a value that is not a future and not a list is unchanged; a future becomes its
   result; lists are rebuilt element-wise *)
Lemma subst_val res v : subst res (TVal v) = TVal v.            Proof. reflexivity. Qed.
Lemma subst_other res l : subst res (TOther l) = TOther l.      Proof. reflexivity. Qed.
Lemma subst_fut res j : subst res (TFut j) = res j.             Proof. reflexivity. Qed.
Lemma subst_list res l : subst res (TList l) = TList (map (subst res) l).
Proof. reflexivity. Qed.

(* an argument without futures is returned unchanged ("everything else unchanged") *)
Theorem subst_no_futures res a : find1 a = [] -> subst res a = a.
Proof.
  induction a as [v|j|l IH|l] using targ_ind2; intros H; try reflexivity; [discriminate|].
  rewrite subst_list. f_equal. simpl in H.
  induction IH as [|x t Hx _ IHt]; [reflexivity|].
  apply app_eq_nil in H. destruct H as [H1 H2]. simpl. rewrite Hx by exact H1. f_equal. apply IHt. exact H2.
Qed.

(* after the update no future is left where the traversals look, provided the results themselves
   are plain values *)
Theorem no_future_left res a :
  (forall j, visible_futs (res j) = []) -> visible_futs (subst res a) = [].
Proof.
  intros Hres. induction a as [v|j|l IH|l] using targ_ind2; try reflexivity; [apply Hres|].
  rewrite subst_list. simpl. induction IH as [|x t Hx _ IHt]; [reflexivity|].
  simpl. rewrite Hx. exact IHt.
Qed.
