(* Liveness-side invariants and the analysis of stuck states of the executor model (Model/Exec.v),
   for programs without failing calls.  Developed relative to the hypothesis safe_reach (Section Live). *)
From Coq Require Import List Bool Arith Lia.
From EL Require Import Model.Exec Model.ExecInv.
Import ListNotations.


(* ====================== part 1 ====================== *)

(* ---------- generic list lemmas ---------- *)
Lemma upd_length : forall A (l : list A) n x, length (upd l n x) = length l.
Proof. induction l as [|a l IH]; intros [|n] x; simpl; auto. Qed.

Lemma nth_error_upd_eq : forall A (l : list A) n x, n < length l -> nth_error (upd l n x) n = Some x.
Proof. induction l as [|a l IH]; intros [|n] x Hn; simpl in *; try lia; auto. apply IH; lia. Qed.

Lemma nth_error_upd_neq : forall A (l : list A) n m x, n <> m -> nth_error (upd l n x) m = nth_error l m.
Proof. induction l as [|a l IH]; intros [|n] [|m] x Hn; simpl in *; try congruence; auto. Qed.

Lemma nth_upd_eq : forall A (l : list A) n x d, n < length l -> nth n (upd l n x) d = x.
Proof. induction l as [|a l IH]; intros [|n] x d Hn; simpl in *; try lia; auto. apply IH; lia. Qed.

Lemma nth_upd_neq : forall A (l : list A) n m x d, n <> m -> nth m (upd l n x) d = nth m l d.
Proof. induction l as [|a l IH]; intros [|n] [|m] x d Hn; simpl in *; try congruence; auto. Qed.

Lemma In_upd : forall A (l : list A) n x y, In y (upd l n x) -> y = x \/ In y l.
Proof.
  induction l as [|a l IH]; intros [|n] x y Hy; simpl in *; auto.
  - destruct Hy as [Hy|Hy]; auto.
  - destruct Hy as [Hy|Hy]; auto. destruct (IH _ _ _ Hy) as [H1|H1]; auto.
Qed.

Lemma In_upd_idx : forall A (l : list A) n x y, In y (upd l n x) ->
  y = x \/ exists m, m <> n /\ nth_error l m = Some y.
Proof.
  induction l as [|a l IH]; intros [|n] x y Hy; simpl in *; try tauto.
  - destruct Hy as [Hy|Hy]; auto. right. apply In_nth_error in Hy. destruct Hy as [m Hm].
    exists (S m). split; auto.
  - destruct Hy as [Hy|Hy].
    + right. exists 0. split; auto. simpl. congruence.
    + destruct (IH _ _ _ Hy) as [H1|[m [Hm1 Hm2]]]; auto. right. exists (S m). split; auto.
Qed.

Lemma nth_error_nth' : forall A (l : list A) n x d, nth_error l n = Some x -> nth n l d = x.
Proof. induction l as [|a l IH]; intros [|n] x d H; simpl in *; try congruence. eauto. Qed.

Lemma nth_error_some_lt : forall A (l : list A) n x, nth_error l n = Some x -> n < length l.
Proof. intros A l n x H. apply nth_error_Some. congruence. Qed.

Lemma In_upd_self : forall A (l : list A) n x, n < length l -> In x (upd l n x).
Proof. intros A l n x H. eapply nth_error_In. apply nth_error_upd_eq; auto. Qed.

Lemma In_upd_other : forall A (l : list A) n m x y, m <> n -> nth_error l m = Some y -> In y (upd l n x).
Proof. intros A l n m x y H1 H2. eapply nth_error_In. rewrite nth_error_upd_neq; eauto. Qed.

(* ---------- count ---------- *)
Lemma count_nil : forall A (f : A -> bool), count f [] = 0.
Proof. reflexivity. Qed.

Lemma count_cons : forall A (f : A -> bool) a l, count f (a :: l) = (if f a then 1 else 0) + count f l.
Proof. intros A f a l. unfold count. simpl. destruct (f a); reflexivity. Qed.

Lemma count_app : forall A (f : A -> bool) l1 l2, count f (l1 ++ l2) = count f l1 + count f l2.
Proof. intros A f l1 l2. unfold count. rewrite filter_app, app_length. reflexivity. Qed.

Lemma count_le : forall A (f : A -> bool) l, count f l <= length l.
Proof. induction l as [|a l IH]; [auto|]. rewrite count_cons. simpl. destruct (f a); lia. Qed.

Lemma count_upd : forall A (f : A -> bool) (l : list A) j x y, nth_error l j = Some y ->
  count f (upd l j x) + (if f y then 1 else 0) = count f l + (if f x then 1 else 0).
Proof.
  induction l as [|a l IH]; intros [|j] x y H; simpl in *; try congruence.
  - inversion H; subst. rewrite !count_cons. lia.
  - rewrite !count_cons. specialize (IH _ x _ H). lia.
Qed.

Lemma count_zero : forall A (f : A -> bool) l, count f l = 0 -> forall x, In x l -> f x = false.
Proof.
  induction l as [|a l IH]; intros H x Hx; simpl in *; [tauto|].
  rewrite count_cons in H. destruct (f a) eqn:Hf; [lia|]. destruct Hx as [Hx|Hx]; subst; auto.
Qed.

Lemma count_all : forall A (f : A -> bool) l, count f l = length l -> forall x, In x l -> f x = true.
Proof.
  induction l as [|a l IH]; intros H x Hx; simpl in *; [tauto|].
  rewrite count_cons in H. pose proof (count_le A f l) as Hle.
  destruct (f a) eqn:Hf; [|lia]. destruct Hx as [Hx|Hx]; subst; auto.
Qed.

Lemma count_pos : forall A (f : A -> bool) l x, In x l -> f x = true -> 1 <= count f l.
Proof.
  induction l as [|a l IH]; intros x Hx Hf; simpl in *; [tauto|]. rewrite count_cons.
  destruct Hx as [Hx|Hx]; subst. rewrite Hf; lia. specialize (IH _ Hx Hf). lia.
Qed.

Lemma count_zero_intro : forall A (f : A -> bool) l, (forall x, In x l -> f x = false) -> count f l = 0.
Proof.
  induction l as [|a l IH]; intros H; [reflexivity|]. rewrite count_cons. rewrite (H a) by (left; auto).
  rewrite IH; auto. intros x Hx. apply H. right; auto.
Qed.

Lemma count_tl_le : forall A (f : A -> bool) l, count f (tl l) <= count f l.
Proof. intros A f [|a l]; simpl; auto. rewrite count_cons. lia. Qed.

Lemma filter_nil_all : forall A (f : A -> bool) l, filter f l = [] -> forall x, In x l -> f x = false.
Proof.
  induction l as [|a l IH]; intros H x Hx; simpl in *; [tauto|].
  destruct (f a) eqn:Hf; [discriminate|]. destruct Hx as [Hx|Hx]; subst; auto.
Qed.

Lemma forallb_tl : forall A (f : A -> bool) l, forallb f l = true -> forallb f (tl l) = true.
Proof. intros A f [|a l]; simpl; auto. intros H. apply andb_true_iff in H. tauto. Qed.

Lemma srt_tl : forall l, srt l = true -> srt (tl l) = true.
Proof.
  intros [|[i|b] l]; simpl; auto. intros H. destruct l as [|[i|b'] l]; simpl in *; auto.
  discriminate.
Qed.

Lemma srt_all_shut : forall l, forallb is_shut l = true -> srt l = true.
Proof. intros [|[i|b] l]; simpl; auto. discriminate. Qed.

Lemma srt_app_shut : forall l b, srt l = true -> srt (l ++ [Shut b]) = true.
Proof.
  induction l as [|[i|b'] l IH]; intros b H; simpl in *; auto.
  rewrite forallb_app. rewrite H. reflexivity.
Qed.

Lemma srt_app_task : forall l i, count is_shut l = 0 -> srt (l ++ [Task i]) = true.
Proof.
  induction l as [|[j|b'] l IH]; intros i H; simpl; auto.
  rewrite count_cons in H. simpl in H. lia.
Qed.

Lemma forallb_count : forall A (f : A -> bool) l, forallb f l = true -> count f l = length l.
Proof.
  induction l as [|a l IH]; intros H; [reflexivity|]. simpl in H. apply andb_true_iff in H.
  destruct H as [H1 H2]. rewrite count_cons, H1. simpl. rewrite IH; auto.
Qed.

Lemma existsb_mem : forall i l, existsb (Nat.eqb i) l = true <-> In i l.
Proof.
  intros i l. rewrite existsb_exists. split.
  - intros [x [H1 H2]]. apply Nat.eqb_eq in H2. subst; auto.
  - intros H. exists i. split; auto. apply Nat.eqb_refl.
Qed.


(* ====================== part 2 ====================== *)

(* ---------- extraction of the pieces of inv_safe ---------- *)
Lemma safe_split : forall c s, inv_safe c s = true ->
  owns_ok s = true /\ running_ok s = true /\ own_ok s = true /\ nthreads_ok c s = true
  /\ forallb (fun w => chan_ok c w (getp s (wproc w))) (ws s) = true.
Proof.
  intros c s H. unfold inv_safe in H. repeat rewrite andb_true_iff in H. tauto.
Qed.

Lemma safe_owns : forall c s, inv_safe c s = true -> forall w, In w (ws s) ->
  match wp w with WBegin | WSpawn => wproc w = 0 | _ => 0 < wproc w <= length (ps s) end.
Proof.
  intros c s H w Hw. apply safe_split in H. destruct H as [H _]. unfold owns_ok in H.
  repeat rewrite andb_true_iff in H. destruct H as [[H _] _]. rewrite forallb_forall in H.
  specialize (H w Hw).
  destruct (wp w); try (apply Nat.eqb_eq in H; exact H);
    (apply andb_true_iff in H; destruct H as [H1 H2]; apply Nat.ltb_lt in H1; apply Nat.leb_le in H2; lia).
Qed.

Lemma safe_running : forall c s, inv_safe c s = true -> forall w i v, In w (ws s) ->
  wp w = WSetRes i v -> getf s i = FRunning.
Proof.
  intros c s H w i v Hw Hp. apply safe_split in H. destruct H as [_ [H _]]. unfold running_ok in H.
  rewrite forallb_forall in H. specialize (H w Hw). rewrite Hp in H. destruct (getf s i); try discriminate. reflexivity.
Qed.

Lemma safe_chan : forall c s, inv_safe c s = true -> forall w, In w (ws s) ->
  chan_ok c w (getp s (wproc w)) = true.
Proof.
  intros c s H w Hw. apply safe_split in H. destruct H as [_ [_ [_ [_ H]]]].
  rewrite forallb_forall in H. apply H; auto.
Qed.

Lemma safe_nthreads : forall c s, inv_safe c s = true -> nthreads_ok c s = true.
Proof. intros c s H. apply safe_split in H. tauto. Qed.

Lemma safe_own : forall c s, inv_safe c s = true -> forall i, 1 <= i <= length (futs s) ->
  where_count s i <= 1 /\ (fdone (getf s i) = true \/ ~ In i (subm s) \/ where_count s i = 1).
Proof.
  intros c s H i Hi. apply safe_split in H. destruct H as [_ [_ [H _]]]. unfold own_ok in H.
  rewrite forallb_forall in H. specialize (H i). rewrite in_seq in H. specialize (H ltac:(lia)).
  repeat rewrite andb_true_iff in H. destruct H as [[H1 H2] _]. apply Nat.leb_le in H1. split; auto.
  repeat rewrite orb_true_iff in H2. destruct H2 as [[H2|H2]|H2]; auto.
  - right. left. intros Hin. apply existsb_mem in Hin. rewrite Hin in H2. discriminate.
  - right. right. apply Nat.eqb_eq; auto.
Qed.

(* ---------- settle / m_goto ---------- *)
Definition is_raise (y : outcome) : bool := match y with XRaise => true | _ => false end.

Definition head_okP (cl : bool) (sub : list nat) (l : list op) : Prop :=
  match l with
  | [] => False
  | OSubmit _ :: _ => cl = false
  | OCancel i :: _ | OResult i :: _ => In i sub
  | _ => cl = false
  end.

Ltac settle_ind l IH H :=
  induction l as [|o t IH]; intros cl lk sub acc l' acc' pc H; simpl in H;
  [ inversion H; subst; clear H
  | destruct o as [i|i|i|w b| |];
    repeat match type of H with
    | context [if ?b then _ else _] => let E := fresh "E" in destruct b eqn:E
    end;
    try (inversion H; subst; clear H) ].

Lemma settle_pc : forall l cl lk sub acc l' acc' pc,
  settle cl lk sub l acc = (l', acc', pc) -> pc = MOp \/ pc = MEnd.
Proof. settle_ind l IH H; eauto. Qed.

Lemma settle_sub : forall l cl lk sub acc l' acc' pc,
  settle cl lk sub l acc = (l', acc', pc) -> forall o, In o l' -> In o l.
Proof. settle_ind l IH H; auto; intros o0 Ho; right; eapply IH; eauto. Qed.

Lemma settle_end : forall l cl lk sub acc l' acc' pc,
  settle cl lk sub l acc = (l', acc', pc) -> pc = MEnd -> l' = [].
Proof. settle_ind l IH H; eauto; discriminate. Qed.

Lemma settle_drop : forall l cl lk sub acc l' acc' pc,
  settle cl lk sub l acc = (l', acc', pc) -> In ODrop l -> In ODrop l' \/ cl || lk = true.
Proof.
  settle_ind l IH H; auto; intros Hd; try (destruct Hd as [Hd|Hd]; [discriminate|]); eauto.
Qed.

Lemma settle_head : forall l cl lk sub acc l' acc' pc,
  settle cl lk sub l acc = (l', acc', pc) -> pc = MOp -> head_okP cl sub l'.
Proof.
  settle_ind l IH H; eauto; try discriminate; intros _; simpl; auto;
  try (apply existsb_mem; exact E).
  all: apply orb_false_iff in E; tauto.
Qed.

Lemma settle_rz : forall l cl lk sub acc l' acc' pc,
  settle cl lk sub l acc = (l', acc', pc) ->
  (cl = true \/ existsb is_raise acc = false) -> (cl = true \/ existsb is_raise acc' = false).
Proof.
  settle_ind l IH H; auto; intros Hr; eapply IH; eauto;
  destruct Hr as [Hr|Hr]; auto; try discriminate; right; rewrite existsb_app, Hr; reflexivity.
Qed.

Lemma m_goto_spec : forall s l x cl, exists l' acc' pc,
  m_goto s l x cl = mkS (queues s) (futs s) (subm s) pc l' cl (ws s) (ps s) acc' /\
  settle cl (existsb is_raise (outs s ++ x) && negb cl) (subm s) l (outs s ++ x) = (l', acc', pc).
Proof.
  intros s l x cl. unfold m_goto.
  destruct (settle cl (existsb (fun y => match y with XRaise => true | _ => false end) (outs s ++ x) && negb cl)
                   (subm s) l (outs s ++ x)) as [[l' acc'] pc] eqn:E.
  exists l', acc', pc. split; [reflexivity|exact E].
Qed.

(* ---------- messages ---------- *)
Lemma msg_eqb_eq : forall a b, msg_eqb a b = true -> a = b.
Proof.
  intros [i| |v| |] [i'| |v'| |] H; simpl in H; try discriminate; auto;
  apply Nat.eqb_eq in H; subst; auto.
Qed.

Lemma msgs_eqb_nil : forall l, msgs_eqb l [] = true -> l = [].
Proof. intros [|a l] H; auto. discriminate. Qed.

Lemma msgs_eqb_one : forall l m, msgs_eqb l [m] = true -> l = [m].
Proof.
  intros [|a [|b l]] m H; unfold msgs_eqb in H; simpl in H; try discriminate.
  rewrite andb_true_r in H. apply msg_eqb_eq in H. simpl in H. subst; auto.
Qed.

Lemma serving_cases : forall p rq rp, serving p rq rp = true ->
  (p_idle p = true /\ inbox p = [rq] /\ outbox p = []) \/
  (match rq, pp p with
      | MCall i, PBody j | MCall i, PSend j => i = j
      | MShut, PAck => True
      | _, _ => False
      end /\ inbox p = [] /\ outbox p = []) \/
  (match rq with MShut => palive p = false | _ => p_idle p = true end /\ inbox p = [] /\ outbox p = [rp]).
Proof.
  intros p rq rp H. unfold serving in H. repeat rewrite orb_true_iff in H.
  repeat rewrite andb_true_iff in H. destruct H as [[H|H]|H].
  - left. destruct H as [[H1 H2] H3]. apply msgs_eqb_one in H2. apply msgs_eqb_nil in H3. auto.
  - right; left. destruct H as [[H1 H2] H3]. apply msgs_eqb_nil in H2. apply msgs_eqb_nil in H3.
    repeat split; auto. destruct rq; try discriminate; destruct (pp p); try discriminate; auto;
    apply Nat.eqb_eq in H1; auto.
  - right; right. destruct H as [[H1 H2] H3]. apply msgs_eqb_nil in H2. apply msgs_eqb_one in H3.
    repeat split; auto. destruct rq; auto. apply negb_true_iff in H1; auto.
Qed.

(* ---------- auxiliary predicates ---------- *)
Definition bad (pc : wpc) : bool :=
  match pc with
  | WEPoll _ | WESend _ | WERecv _ | WEComm _ | WETerm _ | WEWait _ | WETd _ | WESetExc _ | WDead => true
  | _ => false
  end.

Definition fpend (f : fstate) : bool := match f with FPending | FCancelled => true | _ => false end.

Definition wfin (w : wthread) : bool :=
  match wp w with WSTerm _ | WSWait | WSTd | WSQJoin | WDone => true | _ => false end.

Definition loc (s : state) (i : nat) : Prop :=
  In (Task i) (qitems (getq s 0)) \/ (exists w, In w (ws s) /\ wp w = WSrnc i)
  \/ (exists b, main s = MDrainCancel b i).

(* ---------- the worker-thread step, good cases only ---------- *)
Inductive wstepR (c : cfg) (s : state) (j : nat) (w : wthread) : state -> Prop :=
| WR_begin : wp w = WBegin -> wstepR c s j w (wpc_to s j w WSpawn)
| WR_spawn : wp w = WSpawn ->
    wstepR c s j w (set_w (set_ps s (ps s ++ [mkP PBegin [] []])) j (mkW (wq w) (S (length (ps s))) WGet))
| WR_getT i rest : wp w = WGet -> qitems (getq s 0) = Task i :: rest ->
    wstepR c s j w (wpc_to (qpop s 0) j w (WSrnc i))
| WR_getS b rest : wp w = WGet -> qitems (getq s 0) = Shut b :: rest ->
    wstepR c s j w (wpc_to (qpop s 0) j w (WSPoll b))
| WR_srncP i : wp w = WSrnc i -> getf s i = FPending ->
    wstepR c s j w (wpc_to (set_futs s (setf s i FRunning)) j w (WSend i))
| WR_srncC i : wp w = WSrnc i -> getf s i = FCancelled ->
    wstepR c s j w (wpc_to (set_futs s (setf s i FCancelledN)) j w WCancTd)
| WR_canctd : wp w = WCancTd -> wstepR c s j w (wpc_to (qtd s 0) j w WGet)
| WR_send i : wp w = WSend i ->
    wstepR c s j w (wpc_to (send_to_p s (wproc w) (MCall i)) j w (WRecv i))
| WR_recv i rest : wp w = WRecv i -> outbox (getp s (wproc w)) = MRes i :: rest ->
    wstepR c s j w (wpc_to (pop_from_p s (wproc w)) j w (WSetRes i i))
| WR_setres i v : wp w = WSetRes i v -> getf s i = FRunning ->
    wstepR c s j w (wpc_to (set_futs s (setf s i (FRes v))) j w WTd)
| WR_td : wp w = WTd -> wstepR c s j w (wpc_to (qtd s 0) j w WGet)
| WR_spollA b : wp w = WSPoll b -> palive (getp s (wproc w)) = true ->
    wstepR c s j w (wpc_to s j w (WSSend b))
| WR_spollD b : wp w = WSPoll b -> palive (getp s (wproc w)) = false ->
    wstepR c s j w (wpc_to s j w WSTd)
| WR_ssend b : wp w = WSSend b ->
    wstepR c s j w (wpc_to (send_to_p s (wproc w) MShut) j w (WSRecv b))
| WR_srecv b m rest : wp w = WSRecv b -> outbox (getp s (wproc w)) = m :: rest ->
    wstepR c s j w (wpc_to (pop_from_p s (wproc w)) j w (WSComm b))
| WR_scomm b : wp w = WSComm b -> palive (getp s (wproc w)) = false ->
    wstepR c s j w (wpc_to s j w (WSTerm b))
| WR_sterm b : wp w = WSTerm b -> wstepR c s j w (wpc_to s j w (if b then WSWait else WSTd))
| WR_swait : wp w = WSWait -> palive (getp s (wproc w)) = false ->
    wstepR c s j w (wpc_to s j w WSTd)
| WR_std : wp w = WSTd -> wstepR c s j w (wpc_to (qtd s 0) j w WSQJoin)
| WR_sqjoin : wp w = WSQJoin -> qunf (getq s 0) = 0 -> wstepR c s j w (wpc_to s j w WDone).

Lemma w_step_inv : forall c s j s' l,
  nofail c -> inv_safe c s = true ->
  (forall w, In w (ws s) -> wq w = 0) ->
  (forall w, In w (ws s) -> bad (wp w) = false) ->
  (forall i, loc s i -> fpend (getf s i) = true) ->
  w_step c s j = Some (s', l) ->
  exists w, nth_error (ws s) j = Some w /\ wstepR c s j w s'.
Proof.
  intros c s j s' l Hnf Hsafe Hwq Hbad Hloc H. unfold w_step in H.
  destruct (nth_error (ws s) j) as [w|] eqn:Hj; [|discriminate]. exists w. split; auto.
  assert (Hin : In w (ws s)) by (eapply nth_error_In; eauto).
  pose proof (Hwq w Hin) as Hq. pose proof (Hbad w Hin) as Hb. cbv zeta in H. rewrite Hq in H.
  destruct (wp w) eqn:Hpc; simpl in Hb; try discriminate Hb.
  - inversion H; subst. eapply WR_begin; eauto.
  - inversion H; subst. rewrite <- Hq. eapply WR_spawn; eauto.
  - destruct (qitems (getq s 0)) as [|[i|b] rest] eqn:Hit; [discriminate| |];
    inversion H; subst. eapply WR_getT; eauto. eapply WR_getS; eauto.
  - assert (Hl : fpend (getf s i) = true).
    { apply Hloc. right; left. exists w; auto. }
    destruct (getf s i) eqn:Hf; try discriminate Hl; inversion H; subst.
    eapply WR_srncP; eauto. eapply WR_srncC; eauto.
  - inversion H; subst. eapply WR_canctd; eauto.
  - inversion H; subst. eapply WR_send; eauto.
  - destruct (outbox (getp s (wproc w))) as [|m rest] eqn:Ho; [discriminate|].
    pose proof (safe_chan _ _ Hsafe w Hin) as Hc. unfold chan_ok in Hc. rewrite Hpc in Hc.
    apply serving_cases in Hc. rewrite Ho in Hc.
    destruct Hc as [[_ [_ Hc]]|[[_ [_ Hc]]|[_ [_ Hc]]]]; try discriminate Hc.
    inversion Hc; subst. unfold reply_of in H. rewrite Hnf in H. inversion H; subst.
    eapply WR_recv; eauto. rewrite Ho. unfold reply_of. rewrite Hnf. reflexivity.
  - pose proof (safe_running _ _ Hsafe w i v Hin Hpc) as Hf. rewrite Hf in H. inversion H; subst.
    eapply WR_setres; eauto.
  - inversion H; subst. eapply WR_td; eauto.
  - destruct (palive (getp s (wproc w))) eqn:Ha; inversion H; subst.
    eapply WR_spollA; eauto. eapply WR_spollD; eauto.
  - inversion H; subst. eapply WR_ssend; eauto.
  - destruct (outbox (getp s (wproc w))) as [|m rest] eqn:Ho; [discriminate|]. inversion H; subst.
    eapply WR_srecv; eauto.
  - destruct (palive (getp s (wproc w))) eqn:Ha; [discriminate|]. inversion H; subst.
    eapply WR_scomm; eauto.
  - inversion H; subst. eapply WR_sterm; eauto.
  - destruct (palive (getp s (wproc w))) eqn:Ha; [discriminate|]. inversion H; subst.
    eapply WR_swait; eauto.
  - inversion H; subst. eapply WR_std; eauto.
  - destruct (Nat.eqb (qunf (getq s 0)) 0) eqn:He; [|discriminate]. inversion H; subst.
    apply Nat.eqb_eq in He. eapply WR_sqjoin; eauto.
  - discriminate.
Qed.

(* ---------- process step ---------- *)
Lemma p_step_inv : forall c s k s' l, p_step c s k = Some (s', l) ->
  exists p p', 1 <= k /\ nth_error (ps s) (k - 1) = Some p /\ palive p = true /\ s' = setp s k p'.
Proof.
  intros c s k s' l H. unfold p_step in H.
  destruct (nth_error (ps s) (k - 1)) as [p|] eqn:Hp; [|discriminate].
  destruct (Nat.eqb k 0) eqn:Hk; [discriminate|]. apply Nat.eqb_neq in Hk.
  exists p. unfold palive.
  destruct (pp p) eqn:Hpp.
  - inversion H; subst. eexists; repeat split; eauto; lia.
  - destruct (inbox p) as [|m t]; [discriminate|]. destruct m; inversion H; subst;
    eexists; repeat split; eauto; lia.
  - inversion H; subst. eexists; repeat split; eauto; lia.
  - inversion H; subst. eexists; repeat split; eauto; lia.
  - inversion H; subst. eexists; repeat split; eauto; lia.
  - discriminate.
Qed.

(* ---------- the client step, good cases only ---------- *)
Definition drain_src (s : state) (w : bool) : Prop :=
  main s = MDrain w \/ (main s = MOp /\ exists t, ops s = OShutdown w true :: t).

Definition put_src (c : cfg) (s : state) (w : bool) (k : nat) : Prop :=
  (main s = MOp /\ nworkers c = S k /\
     ((exists t, ops s = OShutdown w false :: t) \/ (w = true /\ exists t, ops s = OExit :: t)
      \/ (w = false /\ exists t, ops s = ODrop :: t)))
  \/ main s = MPutShut w (S k).

Definition submit_state (s : state) (i : nat) : state :=
  mkS (queues (qput s 0 (Task i))) (futs s) (subm s ++ [i]) (main s) (ops s) (closed s) (ws s) (ps s) (outs s).

Inductive mstepR (c : cfg) (s : state) : state -> Prop :=
| MR_begin : main s = MBegin -> mstepR c s (set_main s (MStart 0))
| MR_start k : main s = MStart k -> S k <> nworkers c ->
    mstepR c s (set_main (set_ws s (ws s ++ [mkW 0 0 WBegin])) (MStart (S k)))
| MR_startL k : main s = MStart k -> S k = nworkers c ->
    mstepR c s (m_goto (set_ws s (ws s ++ [mkW 0 0 WBegin])) (ops s ++ [ODrop]) [] false)
| MR_submit i t : main s = MOp -> ops s = OSubmit i :: t ->
    mstepR c s (m_done (submit_state s i) [XOk] (closed s))
| MR_cancel i t f b : main s = MOp -> ops s = OCancel i :: t -> fcancel (getf s i) = (f, b) ->
    mstepR c s (m_done (set_futs s (setf s i f)) [XBool b] (closed s))
| MR_result i t : main s = MOp -> ops s = OResult i :: t -> fdone (getf s i) = true ->
    mstepR c s (m_done s [result_outcome (getf s i)] (closed s))
| MR_drainT w j rest : drain_src s w -> qitems (getq s 0) = Task j :: rest ->
    mstepR c s (set_main (qpop s 0) (MDrainCancel w j))
| MR_drainE w : drain_src s w -> qitems (getq s 0) = [] ->
    mstepR c s (set_main s (MPutShut w (nworkers c)))
| MR_putK w k : put_src c s w (S k) ->
    mstepR c s (set_main (qput s 0 (Shut w)) (MPutShut w (S k)))
| MR_putJ w : put_src c s w 0 -> cur_wait s = true ->
    mstepR c s (set_main (qput s 0 (Shut w)) (MJoin 0))
| MR_putF w : put_src c s w 0 -> cur_wait s = false ->
    mstepR c s (m_done (set_main (qput s 0 (Shut w)) (MPutShut w 0)) (if cur_silent s then [] else [XOk]) true)
| MR_dcancel w j f b : main s = MDrainCancel w j -> fcancel (getf s j) = (f, b) ->
    mstepR c s (set_main (set_futs s (setf s j f)) (MDrainTd w))
| MR_dtd w : main s = MDrainTd w -> mstepR c s (set_main (qtd s 0) (MDrain w))
| MR_join k wt : main s = MJoin k -> nth_error (ws s) k = Some wt -> wp wt = WDone -> S k <> nworkers c ->
    mstepR c s (set_main s (MJoin (S k)))
| MR_joinL k wt : main s = MJoin k -> nth_error (ws s) k = Some wt -> wp wt = WDone -> S k = nworkers c ->
    mstepR c s (set_main s MQJoin)
| MR_qjoin : main s = MQJoin -> qunf (getq s 0) = 0 ->
    mstepR c s (m_done s (if cur_silent s then [] else [XOk]) true).

Lemma m_norm_put : forall c s1 w k,
  m_norm c (set_main s1 (MPutShut w k)) =
  match k with
  | 0 => if cur_wait s1 then (if Nat.eqb (nworkers c) 0 then set_main s1 MQJoin else set_main s1 (MJoin 0))
         else m_done (set_main s1 (MPutShut w 0)) (if cur_silent s1 then [] else [XOk]) true
  | S _ => set_main s1 (MPutShut w k)
  end.
Proof. intros c s1 w [|k]; reflexivity. Qed.

Lemma m_norm_join : forall c s k,
  m_norm c (set_main s (MJoin k)) = if Nat.eqb k (nworkers c) then set_main s MQJoin else set_main s (MJoin k).
Proof. intros c s k. unfold m_norm. simpl. destruct (Nat.eqb k (nworkers c)); reflexivity. Qed.

Lemma put_result : forall c s w k s' l,
  1 <= nworkers c -> put_src c s w k ->
  Some (m_norm c (set_main (qput s 0 (Shut w)) (MPutShut w k)), LPut 0 (Shut w)) = Some (s', l) ->
  mstepR c s s'.
Proof.
  intros c s w k s' l Hn Hsrc H. rewrite m_norm_put in H. destruct k as [|k].
  - change (cur_wait (qput s 0 (Shut w))) with (cur_wait s) in H.
    change (cur_silent (qput s 0 (Shut w))) with (cur_silent s) in H.
    destruct (cur_wait s) eqn:Hw.
    + destruct (Nat.eqb (nworkers c) 0) eqn:He; [apply Nat.eqb_eq in He; lia|].
      inversion H; subst. apply MR_putJ; auto.
    + inversion H; subst. apply MR_putF; auto.
  - inversion H; subst. apply MR_putK; auto.
Qed.

Lemma drain_result : forall c s w s' l,
  1 <= nworkers c -> drain_src s w ->
  (forall b rest, qitems (getq s 0) = Shut b :: rest -> False) ->
  match drain_step s w with
  | Some r => Some r
  | None => Some (m_norm c (set_main s (MPutShut w (nworkers c))), LGetNw 0 None)
  end = Some (s', l) ->
  mstepR c s s'.
Proof.
  intros c s w s' l Hn Hsrc Hns H. unfold drain_step in H.
  destruct (qitems (getq s 0)) as [|[j|b] rest] eqn:Hit.
  - rewrite m_norm_put in H. destruct (nworkers c) as [|n] eqn:En; [lia|]. inversion H; subst.
    rewrite <- En. apply MR_drainE; auto.
  - inversion H; subst. eapply MR_drainT; eauto.
  - exfalso. eapply Hns; eauto.
Qed.

Lemma m_step_inv : forall c s s' l,
  1 <= nworkers c ->
  (forall w, In w (ws s) -> bad (wp w) = false) ->
  (forall w b rest, drain_src s w -> qitems (getq s 0) = Shut b :: rest -> False) ->
  m_step c s = Some (s', l) -> mstepR c s s'.
Proof.
  intros c s s' l Hn Hbad Hns H. unfold m_step in H.
  destruct (main s) eqn:Hm.
  - destruct (Nat.eqb (nworkers c) 0) eqn:He; [apply Nat.eqb_eq in He; lia|].
    inversion H; subst. apply MR_begin; auto.
  - cbv zeta in H. destruct (Nat.eqb (S k) (nworkers c)) eqn:He.
    + apply Nat.eqb_eq in He. inversion H; subst. eapply MR_startL; eauto.
    + apply Nat.eqb_neq in He. inversion H; subst. eapply MR_start; eauto.
  - destruct (ops s) as [|o t] eqn:Ho; [discriminate|]. destruct o as [i|i|i|w b| |].
    + cbv zeta in H. inversion H; subst. eapply MR_submit; eauto.
    + destruct (fcancel (getf s i)) as [f b] eqn:Hf. inversion H; subst. eapply MR_cancel; eauto.
    + destruct (fdone (getf s i)) eqn:Hf; [|discriminate]. inversion H; subst. eapply MR_result; eauto.
    + destruct b.
      * eapply drain_result; eauto. right. split; eauto. intros b rest Hq. eapply Hns; [|exact Hq]. right; split; eauto.
      * destruct (nworkers c) as [|k] eqn:En; [lia|]. rewrite <- En in Hn.
        eapply put_result; eauto. left. repeat split; eauto.
    + destruct (nworkers c) as [|k] eqn:En; [lia|]. rewrite <- En in Hn.
      eapply put_result; eauto. left. repeat split; eauto.
    + destruct (nworkers c) as [|k] eqn:En; [lia|]. rewrite <- En in Hn.
      eapply put_result; eauto. left. repeat split; eauto.
  - eapply drain_result; eauto. left; auto. intros b rest Hq. eapply Hns; [|exact Hq]. left; eauto.
  - destruct (fcancel (getf s j)) as [f b] eqn:Hf. inversion H; subst. eapply MR_dcancel; eauto.
  - inversion H; subst. eapply MR_dtd; eauto.
  - destruct k as [|k']; [discriminate|]. eapply put_result; eauto. right; auto.
  - destruct (nth_error (ws s) k) as [wt|] eqn:Hk; [|discriminate].
    assert (Hin : In wt (ws s)) by (eapply nth_error_In; eauto).
    pose proof (Hbad wt Hin) as Hb. unfold wdone, wdead in H.
    destruct (wp wt) eqn:Hpc; try discriminate H; try discriminate Hb.
    rewrite m_norm_join in H. destruct (Nat.eqb (S k) (nworkers c)) eqn:He.
    + apply Nat.eqb_eq in He. inversion H; subst. eapply MR_joinL; eauto.
    + apply Nat.eqb_neq in He. inversion H; subst. eapply MR_join; eauto.
  - destruct (Nat.eqb (qunf (getq s 0)) 0) eqn:He; [|discriminate]. apply Nat.eqb_eq in He.
    inversion H; subst. apply MR_qjoin; auto.
  - discriminate.
Qed.


(* ====================== part 3 ====================== *)

Ltac unf :=
  unfold submit_state, wpc_to, set_w, send_to_p, pop_from_p, setp, qput, qpop, qtd, set_ws, set_ps, set_futs,
         set_main, set_queues, getq, getf, getp, setf in *;
  cbn [queues futs subm main ops closed ws ps outs] in *.

(* ---------- control invariant ---------- *)
Definition InvC (c : cfg) (s : state) : Prop :=
  (forall i, In (OSubmit i) (ops s) -> 1 <= i <= length (futs s)) /\
  (forall i, In i (subm s) -> 1 <= i <= length (futs s)) /\
  (main s = MOp -> head_okP (closed s) (subm s) (ops s)) /\
  (closed s = true -> main s = MOp \/ main s = MEnd) /\
  (forall w k, main s = MPutShut w k -> 1 <= k <= nworkers c) /\
  (forall k, main s = MJoin k -> k < nworkers c) /\
  (main s <> MBegin -> (forall k, main s <> MStart k) -> In ODrop (ops s) \/ closed s = true) /\
  (main s = MEnd -> closed s = true) /\
  (closed s = false -> existsb is_raise (outs s) = false).

Lemma ctl_frame : forall c s s', InvC c s ->
  main s' = main s -> ops s' = ops s -> closed s' = closed s -> subm s' = subm s -> outs s' = outs s ->
  length (futs s') = length (futs s) -> InvC c s'.
Proof.
  intros c s s' H E1 E2 E3 E4 E5 E6. unfold InvC in *. rewrite E1, E2, E3, E4, E5, E6. exact H.
Qed.

Lemma ctl_move : forall c s s', InvC c s ->
  ops s' = ops s -> closed s' = closed s -> subm s' = subm s -> outs s' = outs s ->
  length (futs s') = length (futs s) ->
  closed s = false -> main s' <> MOp -> main s' <> MEnd ->
  (forall w k, main s' = MPutShut w k -> 1 <= k <= nworkers c) ->
  (forall k, main s' = MJoin k -> k < nworkers c) ->
  (main s' <> MBegin -> (forall k, main s' <> MStart k) -> main s <> MBegin /\ forall k, main s <> MStart k) ->
  InvC c s'.
Proof.
  intros c s s' H E2 E3 E4 E5 E6 Hcl N1 N2 P1 P2 P3.
  destruct H as (C1 & C2 & C3 & C4 & C5 & C6 & C7 & C8 & C9).
  unfold InvC. rewrite E2, E3, E4, E5, E6.
  split; [exact C1|]. split; [exact C2|]. split; [tauto|]. split; [congruence|].
  split; [exact P1|]. split; [exact P2|]. split; [|split; [tauto|exact C9]].
  intros A B. destruct (P3 A B) as [A' B']. auto.
Qed.

Lemma ctl_goto : forall c s l x cl,
  (forall i, In (OSubmit i) l -> 1 <= i <= length (futs s)) ->
  (forall i, In i (subm s) -> 1 <= i <= length (futs s)) ->
  (cl = true \/ existsb is_raise (outs s ++ x) = false) ->
  (In ODrop l \/ cl = true) ->
  InvC c (m_goto s l x cl).
Proof.
  intros c s l x cl R1 R2 Hz Hd.
  destruct (m_goto_spec s l x cl) as (l' & acc' & pc & Heq & Hset). rewrite Heq. clear Heq.
  pose proof (settle_pc _ _ _ _ _ _ _ _ Hset) as Hpc.
  pose proof (settle_sub _ _ _ _ _ _ _ _ Hset) as Hsub.
  pose proof (settle_end _ _ _ _ _ _ _ _ Hset) as Hend.
  pose proof (settle_drop _ _ _ _ _ _ _ _ Hset) as Hdrop.
  pose proof (settle_head _ _ _ _ _ _ _ _ Hset) as Hhead.
  pose proof (settle_rz _ _ _ _ _ _ _ _ Hset Hz) as Hrz.
  assert (Hlk : cl || (existsb is_raise (outs s ++ x) && negb cl) = true -> cl = true).
  { intros Hor. destruct cl; auto. destruct Hz as [Hz|Hz]; [discriminate|]. rewrite Hz in Hor. discriminate. }
  unfold InvC. cbn [queues futs subm main ops closed ws ps outs].
  split; [intros i Hi; apply R1; auto|]. split; [exact R2|]. split; [exact Hhead|].
  split; [intros _; exact Hpc|].
  split; [intros w k Hk; destruct Hpc; congruence|].
  split; [intros k Hk; destruct Hpc; congruence|].
  split; [|split].
  - intros _ _. destruct Hd as [Hd|Hd]; auto. destruct (Hdrop Hd) as [Hd'|Hd']; auto.
  - intros He. destruct Hd as [Hd|Hd]; auto. destruct (Hdrop Hd) as [Hd'|Hd']; auto.
    rewrite (Hend He) in Hd'. destruct Hd'.
  - intros Hc. destruct Hrz as [Hrz|Hrz]; auto. congruence.
Qed.

Lemma In_tl : forall A (x : A) l, In x (tl l) -> In x l.
Proof. intros A x [|a l] H; simpl in *; auto. Qed.

Lemma ctl_closed_false : forall c s, InvC c s -> main s <> MOp -> main s <> MEnd -> closed s = false.
Proof.
  intros c s H N1 N2. destruct H as (_ & _ & _ & C4 & _). destruct (closed s); auto.
  destruct (C4 eq_refl); congruence.
Qed.

Lemma ctl_done : forall c s s1 x cl, InvC c s ->
  ops s1 = ops s -> length (futs s1) = length (futs s) -> outs s1 = outs s ->
  (forall i, In i (subm s1) -> 1 <= i <= length (futs s)) ->
  (cl = true \/ (closed s = false /\ existsb is_raise x = false)) ->
  (cl = true \/ (cl = closed s /\ main s = MOp /\ forall t, ops s <> ODrop :: t)) ->
  InvC c (m_done s1 x cl).
Proof.
  intros c s s1 x cl H E1 E2 E3 R2 Hz Hd.
  destruct H as (C1 & C2 & C3 & C4 & C5 & C6 & C7 & C8 & C9).
  unfold m_done. apply ctl_goto.
  - intros i Hi. rewrite E1 in Hi. rewrite E2. apply C1. apply In_tl; auto.
  - intros i Hi. rewrite E2. auto.
  - destruct Hz as [Hz|[Hz1 Hz2]]; auto. right. rewrite E3, existsb_app, Hz2, (C9 Hz1). reflexivity.
  - destruct Hd as [Hd|(Hd1 & Hd2 & Hd3)]; auto.
    destruct C7 as [C7|C7]; try congruence.
    + left. rewrite E1. destruct (ops s) as [|o t]; simpl in *; [tauto|].
      destruct C7 as [C7|C7]; auto. subst o. exfalso. eapply Hd3; eauto.
    + right. congruence.
Qed.

Lemma result_not_raise : forall f, existsb is_raise [result_outcome f] = false.
Proof. intros []; reflexivity. Qed.

Lemma ctl_mstep : forall c s s', 1 <= nworkers c -> InvC c s -> mstepR c s s' -> InvC c s'.
Proof.
  intros c s s' Hn H HR.
  pose proof H as (C1 & C2 & C3 & C4 & C5 & C6 & C7 & C8 & C9).
  pose proof (ctl_closed_false c s H) as Hcf.
  assert (Hdr : forall w, drain_src s w -> closed s = false).
  { intros w [Hd|[Hd [t Ht]]]. apply Hcf; congruence. specialize (C3 Hd). rewrite Ht in C3. exact C3. }
  assert (Hpu : forall w k, put_src c s w k -> closed s = false /\ S k <= nworkers c).
  { intros w k [(Hd & Hk & Ho)|Hd].
    - specialize (C3 Hd). split; [|lia].
      destruct Ho as [[t Ht]|[[_ [t Ht]]|[_ [t Ht]]]]; rewrite Ht in C3; exact C3.
    - split. apply Hcf; congruence. apply (C5 _ _ Hd). }
  destruct HR.
  - eapply ctl_move; eauto; try reflexivity; unf; try congruence. apply Hcf; congruence.
  - eapply ctl_move; eauto; try reflexivity; unf; try congruence. apply Hcf; congruence.
  - assert (Hc : closed s = false) by (apply Hcf; congruence).
    apply ctl_goto; unf.
    + intros i Hi. apply in_app_or in Hi. destruct Hi as [Hi|[Hi|[]]]; auto. discriminate.
    + auto.
    + right. rewrite app_nil_r. auto.
    + left. apply in_or_app. right. left. reflexivity.
  - specialize (C3 H0). rewrite H1 in C3. simpl in C3.
    eapply (ctl_done c s); [exact H|reflexivity|reflexivity|reflexivity| | |].
    + unf. intros i' Hi. apply in_app_or in Hi. destruct Hi as [Hi|[Hi|[]]]; auto.
      subst. apply C1. rewrite H1. left; auto.
    + right. split; auto.
    + right. split; auto. split; auto. intros t' Ht. congruence.
  - eapply (ctl_done c s); [exact H|reflexivity| |reflexivity|exact C2| |].
    + unf. apply upd_length.
    + destruct (closed s) eqn:Hc; auto.
    + right. split; auto. split; auto. intros t' Ht. congruence.
  - eapply (ctl_done c s); [exact H|reflexivity|reflexivity|reflexivity|exact C2| |].
    + destruct (closed s) eqn:Hc; auto. right. split; auto. apply result_not_raise.
    + right. split; auto. split; auto. intros t' Ht. congruence.
  - eapply ctl_move; eauto; try reflexivity; unf; try congruence. intros _ _. destruct H0 as [Hd|[Hd _]]; rewrite Hd; split; congruence.
  - eapply ctl_move; eauto; try reflexivity; unf; try congruence.
    + intros w0 k Hk. inversion Hk; subst. lia.
    + intros _ _. destruct H0 as [Hd|[Hd _]]; rewrite Hd; split; congruence.
  - destruct (Hpu _ _ H0) as [Hc Hk].
    eapply ctl_move; eauto; try reflexivity; unf; try congruence.
    + intros w0 k0 Hk0. inversion Hk0; subst. lia.
    + intros _ _. destruct H0 as [[Hd _]|Hd]; rewrite Hd; split; congruence.
  - destruct (Hpu _ _ H0) as [Hc Hk].
    eapply ctl_move; eauto; try reflexivity; unf; try congruence.
    + intros k0 Hk0. inversion Hk0; subst. lia.
    + intros _ _. destruct H0 as [[Hd _]|Hd]; rewrite Hd; split; congruence.
  - eapply (ctl_done c s); [exact H|reflexivity|reflexivity|reflexivity|exact C2|auto|auto].
  - eapply ctl_move; eauto; try reflexivity; unf; try congruence.
    + apply upd_length.
    + apply Hcf; congruence.
    + intros _ _. rewrite H0; split; congruence.
  - eapply ctl_move; eauto; try reflexivity; unf; try congruence.
    + apply Hcf; congruence.
    + intros _ _. rewrite H0; split; congruence.
  - eapply ctl_move; eauto; try reflexivity; unf; try congruence.
    + apply Hcf; congruence.
    + intros k0 Hk0. inversion Hk0; subst. specialize (C6 _ H0). lia.
    + intros _ _. rewrite H0; split; congruence.
  - eapply ctl_move; eauto; try reflexivity; unf; try congruence.
    + apply Hcf; congruence.
    + intros _ _. rewrite H0; split; congruence.
  - eapply (ctl_done c s); [exact H|reflexivity|reflexivity|reflexivity|exact C2|auto|auto].
Qed.


(* ====================== part 4 ====================== *)

Ltac cnt f Hj Hpc :=
  let Hc := fresh "Hc" in
  match goal with
  | |- context [count f (upd ?l ?j ?x)] => pose proof (count_upd _ f l j x _ Hj) as Hc
  end;
  unfold f in Hc at 2 4; rewrite Hpc in Hc; cbn [wp] in Hc.

Ltac wcases HR :=
  destruct HR as [Hpc|Hpc|i rest Hpc Hit|b rest Hpc Hit|i Hpc Hf|i Hpc Hf|Hpc|i Hpc|i rest Hpc Ho|i v Hpc Hf|Hpc
                 |b Hpc Ha|b Hpc Ha|b Hpc|b m rest Hpc Ho|b Hpc Ha|b Hpc|Hpc Ha|Hpc|Hpc Hz].

Definition D_cnt (s : state) : Prop :=
  qunf (getq s 0) = length (qitems (getq s 0)) + count w_holds (ws s) + m_holds s.

Lemma cnt_wstep : forall c s j w s', 0 < length (queues s) ->
  nth_error (ws s) j = Some w -> wstepR c s j w s' -> D_cnt s -> D_cnt s'.
Proof.
  intros c s j w s' Hql Hj HR H. unfold D_cnt, m_holds in *.
  wcases HR;
  unf; try rewrite (nth_upd_eq _ _ _ _ _ Hql); try (destruct b); cnt w_holds Hj Hpc; cbn [qitems qunf];
  try rewrite Hit in *; simpl length in *; try lia.
Qed.

Definition D_sh (c : cfg) (s : state) : Prop :=
  count is_shut (qitems (getq s 0)) + count w_past (ws s) = shuts_put c s.

Lemma sh_wstep : forall c s j w s', 0 < length (queues s) ->
  nth_error (ws s) j = Some w -> wstepR c s j w s' -> D_sh c s -> D_sh c s'.
Proof.
  intros c s j w s' Hql Hj HR H. unfold D_sh, shuts_put in *.
  wcases HR;
  unf; try rewrite (nth_upd_eq _ _ _ _ _ Hql); try (destruct b); cnt w_past Hj Hpc; cbn [qitems qunf];
  try rewrite Hit in *; simpl tl; try rewrite count_cons in *; simpl is_shut in *; cbv iota in *; try lia.
Qed.

Definition D_srt (s : state) : Prop := srt (qitems (getq s 0)) = true.

Lemma srt_wstep : forall c s j w s', 0 < length (queues s) ->
  nth_error (ws s) j = Some w -> wstepR c s j w s' -> D_srt s -> D_srt s'.
Proof.
  intros c s j w s' Hql Hj HR H. unfold D_srt in *.
  wcases HR; unf; try rewrite (nth_upd_eq _ _ _ _ _ Hql); cbn [qitems qunf]; auto; apply srt_tl; auto.
Qed.

Lemma ql_wstep : forall c s j w s', wstepR c s j w s' -> 0 < length (queues s) -> 0 < length (queues s').
Proof.
  intros c s j w s' HR H. wcases HR; unf; try rewrite upd_length; auto.
Qed.

Lemma wq_wstep : forall c s j w s', nth_error (ws s) j = Some w -> wstepR c s j w s' ->
  (forall x, In x (ws s) -> wq x = 0) -> (forall x, In x (ws s') -> wq x = 0).
Proof.
  intros c s j w s' Hj HR H x Hx. assert (Hin : In w (ws s)) by (eapply nth_error_In; eauto).
  wcases HR; unf; apply In_upd in Hx; destruct Hx as [Hx|Hx]; auto; subst x; cbn [wq]; auto.
Qed.

Lemma bad_wstep : forall c s j w s', nth_error (ws s) j = Some w -> wstepR c s j w s' ->
  (forall x, In x (ws s) -> bad (wp x) = false) -> (forall x, In x (ws s') -> bad (wp x) = false).
Proof.
  intros c s j w s' Hj HR H x Hx.
  wcases HR; unf; apply In_upd in Hx; destruct Hx as [Hx|Hx]; auto; subst x; cbn [wp]; try reflexivity.
  destruct b; reflexivity.
Qed.

Definition D_join (s : state) : Prop :=
  (forall k, main s = MJoin k -> forall j w, j < k -> nth_error (ws s) j = Some w -> wp w = WDone) /\
  (main s = MQJoin -> forall w, In w (ws s) -> wp w = WDone).

Lemma join_wstep : forall c s j w s', nth_error (ws s) j = Some w -> wstepR c s j w s' ->
  D_join s -> D_join s'.
Proof.
  intros c s j w s' Hj HR [H1 H2]. assert (Hin : In w (ws s)) by (eapply nth_error_In; eauto).
  assert (Hnd : wp w <> WDone) by (wcases HR; congruence).
  assert (Hws : exists w', ws s' = upd (ws s) j w' /\ main s' = main s).
  { wcases HR; unf; eauto. }
  destruct Hws as [w' [Hws Hm]]. unfold D_join. rewrite Hws, Hm. split.
  - intros k Hk j' x Hlt Hx. destruct (Nat.eq_dec j j') as [He|He].
    + subst j'. exfalso. apply Hnd. eapply H1; eauto.
    + rewrite nth_error_upd_neq in Hx by auto. eapply H1; eauto.
  - intros Hq x Hx. apply In_upd_idx in Hx. destruct Hx as [Hx|[m [Hm1 Hm2]]].
    + exfalso. apply Hnd. apply H2; auto.
    + apply H2; auto. eapply nth_error_In; eauto.
Qed.

Definition D_pastq (s : state) : Prop :=
  (exists w, In w (ws s) /\ w_past w = true) -> forallb is_shut (qitems (getq s 0)) = true.

Lemma pastq_wstep : forall c s j w s', 0 < length (queues s) ->
  nth_error (ws s) j = Some w -> wstepR c s j w s' -> D_srt s -> D_pastq s -> D_pastq s'.
Proof.
  intros c s j w s' Hql Hj HR Hsrt H. assert (Hin : In w (ws s)) by (eapply nth_error_In; eauto).
  unfold D_pastq, D_srt in *. intros [x [Hx Hp]].
  assert (Hold : w_past w = true -> forallb is_shut (qitems (getq s 0)) = true).
  { intros Hw. apply H. exists w; auto. }
  assert (Hoth : In x (ws s) -> forallb is_shut (qitems (getq s 0)) = true).
  { intros Hw. apply H. exists x; auto. }
  clear H. unfold w_past in Hold.
  wcases HR; rewrite Hpc in Hold; unf; try rewrite (nth_upd_eq _ _ _ _ _ Hql); cbn [qitems];
  apply In_upd in Hx; (destruct Hx as [Hx|Hx];
   [ subst x; unfold w_past in Hp; cbn [wp] in Hp; try discriminate Hp; try (apply forallb_tl); auto
   | try (apply forallb_tl); auto ]).
  - rewrite Hit in Hsrt. simpl in Hsrt. rewrite Hit. exact Hsrt.
Qed.

(* ---------- processes ---------- *)
Lemma nth_upd_f : forall A B (f : A -> B) (l : list A) n m x d,
  f x = f (nth m l d) -> f (nth n (upd l m x) d) = f (nth n l d).
Proof.
  induction l as [|a l IH]; intros [|n] [|m] x d H; simpl in *; auto.
Qed.

Lemma palive_wstep : forall c s j w s', wstepR c s j w s' ->
  forall k, 0 < k <= length (ps s) -> palive (getp s' k) = palive (getp s k).
Proof.
  intros c s j w s' HR k Hk.
  wcases HR; unf; auto; try (apply nth_upd_f; reflexivity).
  rewrite app_nth1 by lia. reflexivity.
Qed.

Definition D_fin (s : state) : Prop :=
  forall w, In w (ws s) -> wfin w = true -> palive (getp s (wproc w)) = false.

Lemma ws_wstep : forall c s j w s', wstepR c s j w s' ->
  exists w', ws s' = upd (ws s) j w' /\ wq w' = wq w /\
    ((wp w <> WSpawn /\ wproc w' = wproc w /\ length (ps s') = length (ps s)) \/
     (wp w = WSpawn /\ wp w' = WGet /\ wproc w' = S (length (ps s)) /\ length (ps s') = S (length (ps s)))).
Proof.
  intros c s j w s' HR.
  wcases HR; unf; eexists; (split; [reflexivity|]); cbn [wq wproc wp]; (split; [reflexivity|]);
  try (left; split; [congruence|split; [reflexivity|try rewrite upd_length; reflexivity]]).
  right. rewrite app_length. simpl. repeat split; auto; lia.
Qed.

Lemma fin_wstep : forall c s j w s', inv_safe c s = true ->
  nth_error (ws s) j = Some w -> wstepR c s j w s' -> D_fin s -> D_fin s'.
Proof.
  intros c s j w s' Hsafe Hj HR H. assert (Hin : In w (ws s)) by (eapply nth_error_In; eauto).
  unfold D_fin in *. intros x Hx Hfx.
  pose proof (palive_wstep _ _ _ _ _ HR) as Hpa.
  assert (Hown : forall y, In y (ws s) -> wfin y = true -> 0 < wproc y <= length (ps s)).
  { intros y Hy Hfy. pose proof (safe_owns _ _ Hsafe y Hy) as Ho. unfold wfin in Hfy.
    destruct (wp y); try discriminate Hfy; auto. }
  assert (Hold : wfin w = true -> palive (getp s' (wproc w)) = false).
  { intros Hw. rewrite Hpa; auto. }
  assert (Hoth : In x (ws s) -> palive (getp s' (wproc x)) = false).
  { intros Hw. rewrite Hpa; auto. }
  clear H. unfold wfin in Hold.
  wcases HR; rewrite Hpc in Hold; unf; apply In_upd in Hx;
  (destruct Hx as [Hx|Hx]; [subst x; unfold wfin in Hfx; cbn [wp wproc] in *; try discriminate Hfx; auto | auto]).
Qed.

Lemma wpc_eq_spawn : forall pc, pc = WSpawn \/ pc <> WSpawn.
Proof. intros []; auto; right; discriminate. Qed.

Definition D_own (s : state) : Prop :=
  forall k, k < length (ps s) -> exists w, In w (ws s) /\ wproc w = S k.

Lemma own_wstep : forall c s j w s', inv_safe c s = true ->
  nth_error (ws s) j = Some w -> wstepR c s j w s' -> D_own s -> D_own s'.
Proof.
  intros c s j w s' Hsafe Hj HR H. assert (Hin : In w (ws s)) by (eapply nth_error_In; eauto).
  pose proof (nth_error_some_lt _ _ _ _ Hj) as Hlt.
  destruct (ws_wstep _ _ _ _ _ HR) as (w' & Hws & _ & Hpr).
  unfold D_own in *. rewrite Hws. intros k Hk.
  assert (Hcase : k < length (ps s) \/ (wp w = WSpawn /\ wproc w' = S k)).
  { destruct Hpr as [(Hp1 & Hp2 & Hp3)|(Hp1 & Hp2 & Hp3 & Hp4)].
    - left. rewrite <- Hp3; auto.
    - rewrite Hp4 in Hk. destruct (Nat.eq_dec k (length (ps s))) as [He|He].
      + right. subst k. auto.
      + left. lia. }
  destruct Hcase as [Hc|[Hc1 Hc2]].
  - destruct (H k Hc) as [x [Hx Hxk]]. apply In_nth_error in Hx. destruct Hx as [m Hm].
    destruct (Nat.eq_dec m j) as [He|He].
    + subst m. rewrite Hj in Hm. inversion Hm; subst x. exists w'. split. apply In_upd_self; auto.
      destruct Hpr as [(Hp1 & Hp2 & Hp3)|(Hp1 & _)]; [congruence|].
      pose proof (safe_owns _ _ Hsafe w Hin) as Hso. rewrite Hp1 in Hso. lia.
    + exists x. split; auto. eapply In_upd_other; eauto.
  - exists w'. split; auto. apply In_upd_self; auto.
Qed.

(* ---------- where calls are ---------- *)
Definition place (s : state) (i : nat) : Prop :=
  In (Task i) (qitems (getq s 0)) \/ (exists w, In w (ws s) /\ w_call w = Some i)
  \/ (exists b, main s = MDrainCancel b i).

Definition D_rng (s : state) : Prop := forall i, place s i -> 1 <= i <= length (futs s).
Definition D_pend (s : state) : Prop := forall i, loc s i -> fpend (getf s i) = true.
Definition D_fresh (s : state) : Prop :=
  forall i, 1 <= i <= length (futs s) -> ~ In i (subm s) -> getf s i = FPending.

Lemma loc_place : forall s i, loc s i -> place s i.
Proof.
  intros s i [H|[[w [H1 H2]]|H]]; [left; auto| |right; right; auto].
  right; left. exists w. split; auto. unfold w_call. rewrite H2. reflexivity.
Qed.

Lemma place_back_w : forall c s j w s' i0, 0 < length (queues s) ->
  nth_error (ws s) j = Some w -> wstepR c s j w s' -> place s' i0 -> place s i0.
Proof.
  intros c s j w s' i0 Hql Hj HR Hp. assert (Hin : In w (ws s)) by (eapply nth_error_In; eauto).
  assert (Hw : forall i1, w_call w = Some i1 -> place s i1).
  { intros i1 Hi1. right; left. exists w; auto. }
  assert (Hx : forall x, In x (ws s) -> w_call x = Some i0 -> place s i0).
  { intros x Hx1 Hx2. right; left. exists x; auto. }
  assert (Hq : forall l, qitems (getq s 0) = l -> In (Task i0) l -> place s i0).
  { intros l Hl1 Hl2. left. rewrite Hl1; auto. }
  assert (Hmn : forall b0, main s = MDrainCancel b0 i0 -> place s i0).
  { intros b0 Hb0. right; right. eauto. }
  unfold w_call in Hw.
  destruct Hp as [Hp|[[x [Hp1 Hp2]]|[b0 Hp]]].
  - wcases HR; unf; try rewrite (nth_upd_eq _ _ _ _ _ Hql) in Hp; cbn [qitems] in Hp;
    (eapply Hq; [reflexivity|]); first [exact Hp | apply In_tl; exact Hp].
  - wcases HR; rewrite Hpc in Hw; unf; apply In_upd in Hp1;
    (destruct Hp1 as [Hp1|Hp1]; [|exact (Hx x Hp1 Hp2)]); subst x; unfold w_call in Hp2; cbn [wp] in Hp2;
    try discriminate Hp2; try (inversion Hp2; subst; apply Hw; reflexivity).
    + inversion Hp2; subst. eapply Hq; [reflexivity|]. rewrite Hit. left; auto.
    + destruct b; discriminate Hp2.
  - wcases HR; unf; eapply Hmn; eauto.
Qed.

Lemma loc_back_w : forall c s j w s' i0, 0 < length (queues s) ->
  nth_error (ws s) j = Some w -> wstepR c s j w s' -> loc s' i0 ->
  loc s i0 /\ (forall x, In x (ws s') -> wp x = WSrnc i0 -> (exists m, m <> j /\ nth_error (ws s) m = Some x) \/ In (Task i0) (qitems (getq s 0))).
Proof.
  intros c s j w s' i0 Hql Hj HR Hp. assert (Hin : In w (ws s)) by (eapply nth_error_In; eauto).
  split.
  - destruct Hp as [Hp|[[x [Hp1 Hp2]]|[b0 Hp]]].
    + left. wcases HR; unf; try rewrite (nth_upd_eq _ _ _ _ _ Hql) in Hp; cbn [qitems] in Hp;
      first [exact Hp | apply In_tl; exact Hp].
    + wcases HR; unf; apply In_upd in Hp1;
      (destruct Hp1 as [Hp1|Hp1]; [|right; left; exists x; auto]); subst x; cbn [wp] in Hp2;
      try discriminate Hp2.
      * inversion Hp2; subst. left. unfold getq. rewrite Hit. left; auto.
      * destruct b; discriminate Hp2.
    + right; right. exists b0. wcases HR; unf; auto.
  - intros x Hx Hpx. 
    wcases HR; unf; apply In_upd_idx in Hx;
      (destruct Hx as [Hx|Hx]; [|left; exact Hx]); subst x; cbn [wp] in Hpx;
      try discriminate Hpx.
    + inversion Hpx; subst. right. unfold getq. rewrite Hit. left; auto.
    + destruct b; discriminate Hpx.
Qed.

Lemma rng_wstep : forall c s j w s', 0 < length (queues s) ->
  nth_error (ws s) j = Some w -> wstepR c s j w s' -> D_rng s -> D_rng s'.
Proof.
  intros c s j w s' Hql Hj HR H i0 Hp. 
  assert (Hlen : length (futs s') = length (futs s)).
  { wcases HR; unf; try rewrite upd_length; reflexivity. }
  rewrite Hlen. apply H. eapply place_back_w; eauto.
Qed.

Lemma count_two : forall A (f : A -> bool) l j m x y, nth_error l j = Some y -> nth_error l m = Some x ->
  m <> j -> f x = true -> f y = true -> 2 <= count f l.
Proof.
  induction l as [|a l IH]; intros [|j] [|m] x y Hj Hm Hne Hx Hy; simpl in *; try congruence;
  rewrite count_cons.
  - inversion Hj; subst. rewrite Hy. apply nth_error_In in Hm. pose proof (count_pos _ f l x Hm Hx). lia.
  - inversion Hm; subst. rewrite Hx. apply nth_error_In in Hj. pose proof (count_pos _ f l y Hj Hy). lia.
  - assert (Hne' : m <> j) by congruence. specialize (IH _ _ _ _ Hj Hm Hne' Hx Hy). lia.
Qed.

Lemma own_unique : forall c s j w i, inv_safe c s = true -> 1 <= i <= length (futs s) ->
  nth_error (ws s) j = Some w -> w_call w = Some i ->
  (In (Task i) (qitems (getq s 0)) \/ (exists m x, m <> j /\ nth_error (ws s) m = Some x /\ w_call x = Some i)
   \/ exists b, main s = MDrainCancel b i) -> False.
Proof.
  intros c s j w i Hsafe Hi Hj Hc Hoth.
  destruct (safe_own _ _ Hsafe i Hi) as [Hle _]. unfold where_count in Hle.
  set (f := fun it => match it with Task j0 => Nat.eqb i j0 | _ => false end) in *.
  set (g := fun w0 => match w_call w0 with Some j0 => Nat.eqb i j0 | None => false end) in *.
  assert (Hgw : g w = true) by (unfold g; rewrite Hc; apply Nat.eqb_refl).
  assert (Hin : In w (ws s)) by (eapply nth_error_In; eauto).
  pose proof (count_pos _ g _ _ Hin Hgw) as H1.
  destruct Hoth as [Hq|[(m & x & Hm1 & Hm2 & Hm3)|[b Hb]]].
  - assert (Hf : f (Task i) = true) by (apply Nat.eqb_refl).
    pose proof (count_pos _ f _ _ Hq Hf) as H2. lia.
  - assert (Hgx : g x = true) by (unfold g; rewrite Hm3; apply Nat.eqb_refl).
    pose proof (count_two _ g _ _ _ _ _ Hj Hm2 Hm1 Hgx Hgw) as H2. lia.
  - rewrite Hb in Hle. rewrite Nat.eqb_refl in Hle. lia.
Qed.

Lemma safe_subm : forall c s i, inv_safe c s = true -> 1 <= i <= length (futs s) -> place s i -> In i (subm s).
Proof.
  intros c s i H Hi Hp. apply safe_split in H. destruct H as [_ [_ [H _]]]. unfold own_ok in H.
  rewrite forallb_forall in H. specialize (H i). rewrite in_seq in H. specialize (H ltac:(lia)).
  repeat rewrite andb_true_iff in H. destruct H as [_ H]. apply orb_true_iff in H.
  destruct H as [H|H]. apply existsb_mem; auto. apply Nat.eqb_eq in H. exfalso.
  unfold where_count in H.
  destruct Hp as [Hq|[[x [Hx1 Hx2]]|[b Hb]]].
  - assert (Hc : 1 <= count (fun it => match it with Task j0 => Nat.eqb i j0 | _ => false end) (qitems (getq s 0))).
    { eapply count_pos; eauto. apply Nat.eqb_refl. }
    lia.
  - assert (Hc : 1 <= count (fun w0 => match w_call w0 with Some j0 => Nat.eqb i j0 | None => false end) (ws s)).
    { eapply count_pos; eauto. simpl. rewrite Hx2. apply Nat.eqb_refl. }
    lia.
  - rewrite Hb in H. rewrite Nat.eqb_refl in H. lia.
Qed.

Lemma getf_upd_neq : forall A (l : list A) i i0 f d, 1 <= i -> 1 <= i0 -> i <> i0 ->
  nth (i - 1) (upd l (i0 - 1) f) d = nth (i - 1) l d.
Proof. intros A l i i0 f d H1 H2 H3. apply nth_upd_neq. lia. Qed.

Lemma pend_wstep : forall c s j w s', inv_safe c s = true -> 0 < length (queues s) ->
  nth_error (ws s) j = Some w -> wstepR c s j w s' -> D_rng s -> D_pend s -> D_pend s'.
Proof.
  intros c s j w s' Hsafe Hql Hj HR Hrng H i0 Hl. assert (Hin : In w (ws s)) by (eapply nth_error_In; eauto).
  destruct (loc_back_w _ _ _ _ _ _ Hql Hj HR Hl) as [Hl0 Hoth].
  pose proof (H _ Hl0) as Hp0. pose proof (Hrng _ (loc_place _ _ Hl0)) as Hr0.
  assert (Hcall : forall i1, w_call w = Some i1 -> 1 <= i1 <= length (futs s)).
  { intros i1 Hi1. apply Hrng. right; left. exists w; auto. }
  assert (Huniq : forall i1, w_call w = Some i1 -> i1 = i0 -> qitems (getq s' 0) = qitems (getq s 0) ->
      main s' = main s -> False).
  { intros i1 Hi1 He Hqq Hmm. subst i1. eapply own_unique; eauto.
    destruct Hl as [Hq|[[x [Hx1 Hx2]]|[b0 Hb0]]].
    - left. rewrite <- Hqq. exact Hq.
    - destruct (Hoth x Hx1 Hx2) as [[m [Hm1 Hm2]]|Hq].
      + right; left. exists m, x. repeat split; auto. unfold w_call. rewrite Hx2. reflexivity.
      + left; auto.
    - right; right. exists b0. rewrite <- Hmm. exact Hb0. }
  unfold w_call in Hcall, Huniq.
  wcases HR; rewrite Hpc in Hcall, Huniq; try exact Hp0; unf;
  (destruct (Nat.eq_dec i i0) as [He|He];
   [ exfalso; eapply Huniq; eauto
   | rewrite getf_upd_neq; [exact Hp0|lia|apply (Hcall i eq_refl)|congruence] ]).
Qed.

Lemma fresh_wstep : forall c s j w s', inv_safe c s = true ->
  nth_error (ws s) j = Some w -> wstepR c s j w s' -> D_rng s -> D_fresh s -> D_fresh s'.
Proof.
  intros c s j w s' Hsafe Hj HR Hrng H i0 Hi0 Hns. assert (Hin : In w (ws s)) by (eapply nth_error_In; eauto).
  assert (Hcall : forall i1, w_call w = Some i1 -> 1 <= i1 <= length (futs s) /\ In i1 (subm s)).
  { intros i1 Hi1. assert (Hp : place s i1) by (right; left; exists w; auto).
    split. apply Hrng; auto. eapply safe_subm; eauto. }
  unfold w_call in Hcall. unfold D_fresh in H.
  wcases HR; rewrite Hpc in Hcall; unf; try (apply H; assumption);
  rewrite upd_length in Hi0;
  (destruct (Nat.eq_dec i i0) as [He|He];
   [ exfalso; subst i0; apply Hns; apply (Hcall i eq_refl)
   | rewrite getf_upd_neq; [apply H; assumption|lia|apply (Hcall i eq_refl)|congruence] ]).
Qed.


(* ====================== part 5 ====================== *)

Ltac mcases HR :=
  destruct HR as [Hm|k Hm Hk|k Hm Hk|i t Hm Ho|i t f b Hm Ho Hfc|i t Hm Ho Hfd|w0 j0 rest Hds Hit|w0 Hds Hit
                 |w0 k Hps|w0 Hps Hcw|w0 Hps Hcw|w0 j0 f b Hm Hfc|w0 Hm|k wt Hm Hk Hwt Hne|k wt Hm Hk Hwt Hne|Hm Hz];
  try (destruct Hds as [Hm|[Hm [t Ho]]]);
  try (destruct Hps as [(Hm & Hnk & Hop)|Hm]).

Ltac mgoto :=
  unfold m_done;
  match goal with
  | |- context [m_goto ?s1 ?l ?x ?cl] =>
      let l' := fresh "l'" in let acc' := fresh "acc'" in let pc' := fresh "pc'" in
      let Heq := fresh "Heq" in let Hset := fresh "Hset" in let Hpc' := fresh "Hpc'" in
      destruct (m_goto_spec s1 l x cl) as (l' & acc' & pc' & Heq & Hset); rewrite Heq; clear Heq;
      pose proof (settle_pc _ _ _ _ _ _ _ _ Hset) as Hpc'; clear Hset;
      destruct Hpc'; subst pc'
  end.

Lemma cnt_mstep : forall c s s', 0 < length (queues s) -> mstepR c s s' -> D_cnt s -> D_cnt s'.
Proof.
  intros c s s' Hql HR H. unfold D_cnt, m_holds in *.
  mcases HR; try mgoto; unf; rewrite Hm in H; try rewrite (nth_upd_eq _ _ _ _ _ Hql); cbn [qitems qunf];
  try rewrite count_app; try rewrite app_length; try rewrite Hit in *; simpl length in *;
  try (change (count w_holds [mkW 0 0 WBegin]) with 0); try lia.
Qed.

Lemma drain_src_closed : forall c s w, InvC c s -> drain_src s w -> closed s = false.
Proof.
  intros c s w H Hs. pose proof (ctl_closed_false c s H) as Hcf.
  destruct H as (C1 & C2 & C3 & _).
  destruct Hs as [Hd|[Hd [t Ht]]]. apply Hcf; congruence. specialize (C3 Hd). rewrite Ht in C3. exact C3.
Qed.

Lemma put_src_closed : forall c s w k, InvC c s -> put_src c s w k -> closed s = false /\ S k <= nworkers c.
Proof.
  intros c s w k H Hs. pose proof (ctl_closed_false c s H) as Hcf.
  destruct H as (C1 & C2 & C3 & C4 & C5 & _).
  destruct Hs as [(Hd & Hk & Ho)|Hd].
  - specialize (C3 Hd). split; [|lia].
    destruct Ho as [[t Ht]|[[_ [t Ht]]|[_ [t Ht]]]]; rewrite Ht in C3; exact C3.
  - split. apply Hcf; congruence. apply (C5 _ _ Hd).
Qed.

Lemma sh_mstep : forall c s s', 1 <= nworkers c -> 0 < length (queues s) -> InvC c s ->
  mstepR c s s' -> D_sh c s -> D_sh c s'.
Proof.
  intros c s s' Hn Hql HC HR H. unfold D_sh, shuts_put in *.
  pose proof (ctl_closed_false c s HC) as Hcf.
  pose proof (drain_src_closed c s) as Hdc. pose proof (put_src_closed c s) as Hpc.
  pose proof HC as (C1 & C2 & C3 & C4 & C5 & C6 & _).
  destruct HR as [Hm|k Hm Hk|k Hm Hk|i t Hm Ho|i t f b Hm Ho Hfc|i t Hm Ho Hfd|w0 j0 rest Hds Hit|w0 Hds Hit
                 |w0 k Hps|w0 Hps Hcw|w0 Hps Hcw|w0 j0 f b Hm Hfc|w0 Hm|k wt Hm Hk Hwt Hne|k wt Hm Hk Hwt Hne|Hm Hz];
  try (pose proof (Hdc _ HC Hds) as Hc; destruct Hds as [Hm|[Hm [t Ho]]]);
  try (destruct (Hpc _ _ HC Hps) as [Hc Hkn]; destruct Hps as [(Hm & Hnk & Hop)|Hm]);
  try (assert (Hc : closed s = false) by (apply Hcf; congruence));
  try (assert (Hc : closed s = false) by (specialize (C3 Hm); rewrite Ho in C3; exact C3));
  try mgoto; unf; rewrite Hm in H; try rewrite Hc in *; try rewrite (nth_upd_eq _ _ _ _ _ Hql); cbn [qitems qunf];
  try rewrite !count_app; try (change (count w_past [mkW 0 0 WBegin]) with 0);
  try rewrite Hit in *; simpl tl; try rewrite !count_cons in *; try rewrite !count_nil;
  simpl is_shut in *; cbv iota in *; try lia.
  all: try (destruct (closed s); lia).
Qed.

Lemma srt_mstep : forall c s s', 0 < length (queues s) -> InvC c s ->
  mstepR c s s' -> D_sh c s -> D_srt s -> D_srt s'.
Proof.
  intros c s s' Hql HC HR Hsh H. unfold D_srt in *.
  pose proof HC as (C1 & C2 & C3 & _).
  mcases HR; try mgoto; unf; try rewrite (nth_upd_eq _ _ _ _ _ Hql); cbn [qitems qunf]; auto;
  try (apply srt_app_shut; exact H); try (apply srt_tl; exact H).
  all: apply srt_app_task; specialize (C3 Hm); rewrite Ho in C3; simpl in C3;
    unfold D_sh, shuts_put in Hsh; rewrite C3, Hm in Hsh; unf; lia.
Qed.

Lemma ql_mstep : forall c s s', mstepR c s s' -> 0 < length (queues s) -> 0 < length (queues s').
Proof.
  intros c s s' HR H. mcases HR; try mgoto; unf; try rewrite upd_length; auto.
Qed.

Lemma ws_mstep : forall c s s', mstepR c s s' ->
  (ws s' = ws s \/ ws s' = ws s ++ [mkW 0 0 WBegin]) /\ ps s' = ps s.
Proof.
  intros c s s' HR. mcases HR; try mgoto; unf; auto.
Qed.

Lemma in_ws_mstep : forall c s s' x, mstepR c s s' -> In x (ws s') -> In x (ws s) \/ x = mkW 0 0 WBegin.
Proof.
  intros c s s' x HR Hx. destruct (ws_mstep _ _ _ HR) as [[Hw|Hw] _]; rewrite Hw in Hx; auto.
  apply in_app_or in Hx. destruct Hx as [Hx|[Hx|[]]]; auto.
Qed.

Lemma wq_mstep : forall c s s', mstepR c s s' ->
  (forall x, In x (ws s) -> wq x = 0) -> (forall x, In x (ws s') -> wq x = 0).
Proof.
  intros c s s' HR H x Hx. destruct (in_ws_mstep _ _ _ _ HR Hx) as [Hx'|Hx']; auto. subst; reflexivity.
Qed.

Lemma bad_mstep : forall c s s', mstepR c s s' ->
  (forall x, In x (ws s) -> bad (wp x) = false) -> (forall x, In x (ws s') -> bad (wp x) = false).
Proof.
  intros c s s' HR H x Hx. destruct (in_ws_mstep _ _ _ _ HR Hx) as [Hx'|Hx']; auto. subst; reflexivity.
Qed.

Lemma fin_mstep : forall c s s', mstepR c s s' -> D_fin s -> D_fin s'.
Proof.
  intros c s s' HR H x Hx Hf. destruct (ws_mstep _ _ _ HR) as [_ Hps].
  unfold getp. rewrite Hps. destruct (in_ws_mstep _ _ _ _ HR Hx) as [Hx'|Hx'].
  - apply H; auto.
  - subst. discriminate Hf.
Qed.

Lemma own_mstep : forall c s s', mstepR c s s' -> D_own s -> D_own s'.
Proof.
  intros c s s' HR H k Hk. destruct (ws_mstep _ _ _ HR) as [Hws Hps]. rewrite Hps in Hk.
  destruct (H k Hk) as [x [Hx1 Hx2]]. exists x. split; auto.
  destruct Hws as [Hw|Hw]; rewrite Hw; auto. apply in_or_app; auto.
Qed.

Lemma pastq_mstep : forall c s s', 0 < length (queues s) -> InvC c s ->
  mstepR c s s' -> D_sh c s -> D_pastq s -> D_pastq s'.
Proof.
  intros c s s' Hql HC HR Hsh H. unfold D_pastq in *. intros [x [Hx Hp]].
  pose proof HC as (C1 & C2 & C3 & _).
  assert (Hold : forallb is_shut (qitems (getq s 0)) = true).
  { apply H. exists x. split; auto. destruct (in_ws_mstep _ _ _ _ HR Hx) as [Hx'|Hx']; auto.
    subst. discriminate Hp. }
  assert (Hxs : In x (ws s)).
  { destruct (in_ws_mstep _ _ _ _ HR Hx) as [Hx'|Hx']; auto. subst. discriminate Hp. }
  clear H Hx.
  mcases HR; try mgoto; unf; try rewrite (nth_upd_eq _ _ _ _ _ Hql); cbn [qitems qunf]; auto;
  try (rewrite forallb_app, Hold; reflexivity); try (apply forallb_tl; exact Hold).
  all: exfalso; specialize (C3 Hm); rewrite Ho in C3; simpl in C3;
    unfold D_sh, shuts_put in Hsh; rewrite C3, Hm in Hsh;
    assert (Hz : count w_past (ws s) = 0) by lia;
    rewrite (count_zero _ _ _ Hz x Hxs) in Hp; discriminate Hp.
Qed.

Lemma join_mstep : forall c s s', inv_safe c s = true -> mstepR c s s' -> D_join s -> D_join s'.
Proof.
  intros c s s' Hsafe HR [H1 H2]. unfold D_join.
  assert (Hstep : forall k wt, main s = MJoin k -> nth_error (ws s) k = Some wt -> wp wt = WDone ->
            forall j x, j < S k -> nth_error (ws s) j = Some x -> wp x = WDone).
  { intros k wt Hm Hk Hwt j x Hj Hx. destruct (Nat.eq_dec j k) as [He|He].
    - subst j. congruence.
    - eapply H1; eauto. lia. }
  mcases HR; try mgoto; unf; (split; [intros k0 Hk0; try discriminate Hk0|intros Hq0; try discriminate Hq0]).
  - inversion Hk0; subst. intros j x Hj. lia.
  - inversion Hk0; subst. intros j x Hj. lia.
  - inversion Hk0; subst. intros j x Hj Hx. apply (Hstep k wt Hm Hk Hwt j x); auto.
  - intros x Hx. apply In_nth_error in Hx. destruct Hx as [m Hm'].
    pose proof (nth_error_some_lt _ _ _ _ Hm') as Hlt.
    pose proof (safe_nthreads _ _ Hsafe) as Hnt. unfold nthreads_ok in Hnt. rewrite Hm in Hnt.
    apply Nat.eqb_eq in Hnt. apply (Hstep k wt Hm Hk Hwt m x); [lia|exact Hm'].
Qed.

Lemma place_back_m : forall c s s' i0, 0 < length (queues s) -> mstepR c s s' -> place s' i0 ->
  place s i0 \/ (exists t, main s = MOp /\ ops s = OSubmit i0 :: t).
Proof.
  intros c s s' i0 Hql HR Hp. destruct Hp as [Hp|[[x [Hp1 Hp2]]|[b0 Hp]]].
  - revert Hp; mcases HR; try mgoto; intros Hp; unf; try rewrite (nth_upd_eq _ _ _ _ _ Hql) in Hp; cbn [qitems] in Hp;
    first [ left; left; exact Hp | left; left; apply In_tl; exact Hp
          | (apply in_app_or in Hp; destruct Hp as [Hp|[Hp|[]]];
             [left; left; exact Hp | first [discriminate Hp | inversion Hp; subst; right; eauto]]) ].
  - left. right; left. exists x. split; auto.
    destruct (in_ws_mstep _ _ _ _ HR Hp1) as [Hx|Hx]; auto. subst. discriminate Hp2.
  - revert Hp; mcases HR; try mgoto; intros Hp; unf; try discriminate Hp; try congruence.
    all: inversion Hp; subst; left; left; unfold getq; rewrite Hit; left; reflexivity.
Qed.

Lemma loc_back_m : forall c s s' i0, 0 < length (queues s) -> mstepR c s s' -> loc s' i0 ->
  loc s i0 \/ (exists t, main s = MOp /\ ops s = OSubmit i0 :: t).
Proof.
  intros c s s' i0 Hql HR Hp. destruct Hp as [Hp|[[x [Hp1 Hp2]]|[b0 Hp]]].
  - revert Hp; mcases HR; try mgoto; intros Hp; unf; try rewrite (nth_upd_eq _ _ _ _ _ Hql) in Hp; cbn [qitems] in Hp;
    first [ left; left; exact Hp | left; left; apply In_tl; exact Hp
          | (apply in_app_or in Hp; destruct Hp as [Hp|[Hp|[]]];
             [left; left; exact Hp | first [discriminate Hp | inversion Hp; subst; right; eauto]]) ].
  - left. right; left. exists x. split; auto.
    destruct (in_ws_mstep _ _ _ _ HR Hp1) as [Hx|Hx]; auto. subst. discriminate Hp2.
  - revert Hp; mcases HR; try mgoto; intros Hp; unf; try discriminate Hp; try congruence.
    all: inversion Hp; subst; left; left; unfold getq; rewrite Hit; left; reflexivity.
Qed.

Lemma futs_len_mstep : forall c s s', mstepR c s s' -> length (futs s') = length (futs s).
Proof. intros c s s' HR. mcases HR; try mgoto; unf; try rewrite upd_length; reflexivity. Qed.

Lemma rng_mstep : forall c s s', 0 < length (queues s) -> InvC c s -> mstepR c s s' -> D_rng s -> D_rng s'.
Proof.
  intros c s s' Hql HC HR H i0 Hp. rewrite (futs_len_mstep _ _ _ HR).
  destruct (place_back_m _ _ _ _ Hql HR Hp) as [Hp'|[t [Hm Ho]]]; auto.
  destruct HC as (C1 & _). apply C1. rewrite Ho. left; reflexivity.
Qed.

Lemma fpend_fcancel : forall f, fpend (fst (fcancel f)) = fpend f.
Proof. intros []; reflexivity. Qed.

Definition D_nodup (s : state) : Prop :=
  NoDup (submits (ops s)) /\ forall i, In i (subm s) -> ~ In i (submits (ops s)).

Lemma fpend_mstep : forall c s s' i0, mstepR c s s' -> fpend (getf s' i0) = fpend (getf s i0).
Proof.
  intros c s s' i0 HR.
  mcases HR; try mgoto; unf; try reflexivity;
  apply nth_upd_f; pose proof (f_equal fst Hfc) as Hf1; simpl in Hf1; rewrite <- Hf1; apply fpend_fcancel.
Qed.

Lemma pend_mstep : forall c s s', 0 < length (queues s) -> InvC c s -> D_nodup s -> D_fresh s ->
  mstepR c s s' -> D_pend s -> D_pend s'.
Proof.
  intros c s s' Hql HC [Hnd1 Hnd2] Hfr HR H i0 Hl. rewrite (fpend_mstep _ _ _ _ HR).
  destruct (loc_back_m _ _ _ _ Hql HR Hl) as [Hl'|[t [Hm Ho]]]; auto.
  destruct HC as (C1 & _). rewrite Hfr. reflexivity.
  - apply C1. rewrite Ho. left; reflexivity.
  - intros Hin. apply (Hnd2 _ Hin). rewrite Ho. simpl. left; reflexivity.
Qed.

Lemma fresh_mstep : forall c s s', inv_safe c s = true -> InvC c s -> D_rng s ->
  mstepR c s s' -> D_fresh s -> D_fresh s'.
Proof.
  intros c s s' Hsafe HC Hrng HR H. pose proof HC as (C1 & C2 & C3 & _).
  assert (Hupd : forall i1 f1, In i1 (subm s) -> forall i0, 1 <= i0 <= length (futs s) ->
            ~ In i0 (subm s) -> nth (i0 - 1) (upd (futs s) (i1 - 1) f1) FPending = FPending).
  { intros i1 f1 Hi1 i0 Hi0 Hn0. rewrite getf_upd_neq. apply H; auto. lia. apply (C2 _ Hi1). congruence. }
  unfold D_fresh in *.
  mcases HR; try mgoto; unf; try exact H; intros i0 Hi0 Hn0; try rewrite upd_length in Hi0.
  - apply H; auto. intros Hin. apply Hn0. apply in_or_app; auto.
  - apply H; auto. intros Hin. apply Hn0. apply in_or_app; auto.
  - apply Hupd; auto. specialize (C3 Hm). rewrite Ho in C3. exact C3.
  - apply Hupd; auto. specialize (C3 Hm). rewrite Ho in C3. exact C3.
  - apply Hupd; auto. assert (Hp : place s j0) by (right; right; eauto).
    eapply safe_subm; eauto.
Qed.

Lemma settle_suffix : forall l cl lk sub acc l' acc' pc,
  settle cl lk sub l acc = (l', acc', pc) -> exists pre, l = pre ++ l'.
Proof.
  settle_ind l IH H; try (exists []; reflexivity);
  match goal with Hs : settle _ _ _ _ _ = _ |- _ => destruct (IH _ _ _ _ _ _ _ Hs) as [pre Hpre] end;
  eexists (_ :: pre); simpl; rewrite <- Hpre; reflexivity.
Qed.

Lemma submits_app : forall a b, submits (a ++ b) = submits a ++ submits b.
Proof.
  induction a as [|o a IH]; intros b; simpl; auto. destruct o; simpl; rewrite IH; reflexivity.
Qed.

Lemma NoDup_app_r : forall A (a b : list A), NoDup (a ++ b) -> NoDup b.
Proof. induction a as [|x a IH]; intros b H; simpl in *; auto. inversion H; auto. Qed.

Lemma nodup_goto : forall s l x cl, NoDup (submits l) -> (forall i, In i (subm s) -> ~ In i (submits l)) ->
  D_nodup (m_goto s l x cl).
Proof.
  intros s l x cl H1 H2. destruct (m_goto_spec s l x cl) as (l' & acc' & pc & Heq & Hset). rewrite Heq.
  destruct (settle_suffix _ _ _ _ _ _ _ _ Hset) as [pre Hpre]. subst l. rewrite submits_app in *.
  unfold D_nodup. cbn [ops subm]. split.
  - eapply NoDup_app_r; eauto.
  - intros i Hi Hin. apply (H2 i Hi). apply in_or_app; auto.
Qed.

Lemma submits_tl_in : forall l i, In i (submits (tl l)) -> In i (submits l).
Proof. intros [|o l] i H; simpl in *; auto. destruct o; simpl; auto. Qed.

Lemma submits_tl_nodup : forall l, NoDup (submits l) -> NoDup (submits (tl l)).
Proof. intros [|o l] H; simpl in *; auto. destruct o; simpl in *; auto. inversion H; auto. Qed.

Lemma nodup_mstep : forall c s s', mstepR c s s' -> D_nodup s -> D_nodup s'.
Proof.
  intros c s s' HR [H1 H2].
  assert (Htl : forall s1 x cl, ops s1 = ops s -> subm s1 = subm s -> D_nodup (m_done s1 x cl)).
  { intros s1 x cl E1 E2. unfold m_done. apply nodup_goto; rewrite E1.
    - apply submits_tl_nodup; auto.
    - intros i Hi Hin. rewrite E2 in Hi. apply (H2 i Hi). apply submits_tl_in; auto. }
  mcases HR; try (apply Htl; reflexivity); try (split; assumption).
  - apply nodup_goto; unf.
    + rewrite submits_app. simpl. rewrite app_nil_r. auto.
    + intros i Hi. rewrite submits_app. simpl. rewrite app_nil_r. auto.
  - unfold m_done. apply nodup_goto; unf; rewrite Ho in *; simpl in *.
    + inversion H1; auto.
    + intros i0 Hi0 Hin. apply in_app_or in Hi0. destruct Hi0 as [Hi0|[Hi0|[]]].
      * apply (H2 i0 Hi0). right; auto.
      * subst i0. inversion H1; auto.
Qed.


(* ====================== part 6 ====================== *)

Definition Inv (c : cfg) (s : state) : Prop :=
  InvC c s /\ D_nodup s /\ D_cnt s /\ D_sh c s /\ D_srt s /\ 0 < length (queues s) /\
  (forall x, In x (ws s) -> wq x = 0) /\ (forall x, In x (ws s) -> bad (wp x) = false) /\
  D_join s /\ D_pastq s /\ D_fin s /\ D_own s /\ D_rng s /\ D_pend s /\ D_fresh s.

Lemma fin_pstep : forall s k p p', 1 <= k -> nth_error (ps s) (k - 1) = Some p -> palive p = true ->
  D_fin s -> D_fin (setp s k p').
Proof.
  intros s k p p' Hk Hp Ha H x Hx Hf. unf. specialize (H x Hx Hf). unf.
  destruct (Nat.eq_dec (k - 1) (wproc x - 1)) as [He|He].
  - rewrite <- He in H. rewrite (nth_error_nth' _ _ _ _ _ Hp) in H. congruence.
  - rewrite nth_upd_neq; auto.
Qed.

Lemma Inv_pstep : forall c s k s' l, Inv c s -> p_step c s k = Some (s', l) -> Inv c s'.
Proof.
  intros c s k s' l H Hs. destruct (p_step_inv _ _ _ _ _ Hs) as (p & p' & Hk & Hp & Ha & He). subst s'.
  destruct H as (H1 & H2 & H3 & H4 & H5 & H6 & H7 & H8 & H9 & H10 & H11 & H12 & H13 & H14 & H15).
  unfold Inv. repeat (split; [assumption|]).
  split; [|split; [|split; [|split]]]; try assumption.
  - eapply fin_pstep; eauto.
  - intros k0 Hk0. unf. rewrite upd_length in Hk0. apply H12; auto.
Qed.

Lemma Inv_wstep : forall c s j s' l, nofail c -> inv_safe c s = true -> Inv c s ->
  w_step c s j = Some (s', l) -> Inv c s'.
Proof.
  intros c s j s' l Hnf Hsafe H Hs.
  destruct H as (H1 & H2 & H3 & H4 & H5 & H6 & H7 & H8 & H9 & H10 & H11 & H12 & H13 & H14 & H15).
  destruct (w_step_inv _ _ _ _ _ Hnf Hsafe H7 H8 H14 Hs) as [w [Hj HR]].
  assert (Hfr : main s' = main s /\ ops s' = ops s /\ closed s' = closed s /\ subm s' = subm s /\
                outs s' = outs s /\ length (futs s') = length (futs s)).
  { clear - HR. wcases HR; unf; try rewrite upd_length; repeat split; reflexivity. }
  destruct Hfr as (F1 & F2 & F3 & F4 & F5 & F6).
  unfold Inv.
  split; [eapply ctl_frame; eauto|].
  split; [unfold D_nodup in *; rewrite F2, F4; exact H2|].
  split; [eapply cnt_wstep; eauto|].
  split; [eapply sh_wstep; eauto|].
  split; [eapply srt_wstep; eauto|].
  split; [eapply ql_wstep; eauto|].
  split; [eapply wq_wstep; eauto|].
  split; [eapply bad_wstep; eauto|].
  split; [eapply join_wstep; eauto|].
  split; [eapply pastq_wstep; eauto|].
  split; [eapply fin_wstep; eauto|].
  split; [eapply own_wstep; eauto|].
  split; [eapply rng_wstep; eauto|].
  split; [eapply pend_wstep; eauto|].
  eapply fresh_wstep; eauto.
Qed.

Lemma no_shut_in_drain : forall c s, InvC c s -> D_sh c s ->
  forall w b rest, drain_src s w -> qitems (getq s 0) = Shut b :: rest -> False.
Proof.
  intros c s HC Hsh w b rest Hd Hq. pose proof (drain_src_closed _ _ _ HC Hd) as Hc.
  unfold D_sh, shuts_put in Hsh. rewrite Hc, Hq in Hsh. rewrite count_cons in Hsh. simpl in Hsh.
  destruct Hd as [Hd|[Hd _]]; rewrite Hd in Hsh; lia.
Qed.

Lemma Inv_mstep : forall c s s' l, 1 <= nworkers c -> inv_safe c s = true -> Inv c s ->
  m_step c s = Some (s', l) -> Inv c s'.
Proof.
  intros c s s' l Hn Hsafe H Hs.
  destruct H as (H1 & H2 & H3 & H4 & H5 & H6 & H7 & H8 & H9 & H10 & H11 & H12 & H13 & H14 & H15).
  pose proof (m_step_inv _ _ _ _ Hn H8 (no_shut_in_drain _ _ H1 H4) Hs) as HR.
  unfold Inv.
  split; [eapply ctl_mstep; eauto|].
  split; [eapply nodup_mstep; eauto|].
  split; [eapply cnt_mstep; eauto|].
  split; [eapply sh_mstep; eauto|].
  split; [eapply srt_mstep; eauto|].
  split; [eapply ql_mstep; eauto|].
  split; [eapply wq_mstep; eauto|].
  split; [eapply bad_mstep; eauto|].
  split; [eapply join_mstep; eauto|].
  split; [eapply pastq_mstep; eauto|].
  split; [eapply fin_mstep; eauto|].
  split; [eapply own_mstep; eauto|].
  split; [eapply rng_mstep; eauto|].
  split; [eapply pend_mstep; eauto; split; assumption|].
  eapply fresh_mstep; eauto.
Qed.

Lemma Inv_step : forall c s t s' l, nofail c -> 1 <= nworkers c -> inv_safe c s = true -> Inv c s ->
  step c s t = Some (s', l) -> Inv c s'.
Proof.
  intros c s t s' l Hnf Hn Hsafe H Hs. destruct t as [| | |j|k]; simpl in Hs; try discriminate.
  - eapply Inv_mstep; eauto.
  - destruct j as [|j]; [discriminate|]. eapply Inv_wstep; eauto.
  - eapply Inv_pstep; eauto.
Qed.

Lemma repeat_nth : forall A (x : A) n m d, m < n -> nth m (repeat x n) d = x.
Proof. induction n as [|n IH]; intros [|m] d H; simpl; try lia; auto. apply IH; lia. Qed.

Lemma submits_in : forall l i, In i (submits l) -> In (OSubmit i) l.
Proof.
  induction l as [|o l IH]; intros i H; simpl in *; [tauto|].
  destruct o; simpl in *; try (right; apply IH; exact H).
  destruct H as [H|H]; [left; congruence|right; auto].
Qed.

Lemma in_submits : forall l i, In (OSubmit i) l -> In i (submits l).
Proof.
  induction l as [|o l IH]; intros i H; simpl in *; [tauto|].
  destruct H as [H|H]. subst; left; reflexivity.
  destruct o; simpl; auto.
Qed.

Lemma Inv_init : forall c n prog, wf_prog n prog -> Inv c (init n prog).
Proof.
  intros c n prog (W1 & W2 & W3). unfold Inv, init.
  refine (conj _ (conj _ (conj _ (conj _ (conj _ (conj _ (conj _ (conj _ (conj _ (conj _ (conj _ (conj _ (conj _ (conj _ _)))))))))))))).
  - unfold InvC; cbn [queues futs subm main ops closed ws ps outs]. rewrite repeat_length.
    split; [intros i Hi; apply W2; apply in_submits; auto|].
    split; [intros i []|]. split; [discriminate|]. split; [discriminate|].
    split; [discriminate|]. split; [discriminate|]. split; [congruence|]. split; [discriminate|]. reflexivity.
  - split; cbn [ops subm]; auto.
  - reflexivity.
  - reflexivity.
  - reflexivity.
  - simpl. lia.
  - intros x [].
  - intros x [].
  - split; discriminate.
  - intros [x [[] _]].
  - intros x [].
  - intros k Hk. simpl in Hk. lia.
  - intros i [[]|[[x [[] _]]|[b Hb]]]. discriminate Hb.
  - intros i [[]|[[x [[] _]]|[b Hb]]]. discriminate Hb.
  - intros i Hi _. unfold getf. cbn [futs] in *. rewrite repeat_length in Hi. apply repeat_nth. lia.
Qed.


(* ====================== part 7 ====================== *)

(* ---------- stuck threads ---------- *)
Lemma w_stuck : forall c s j w, nth_error (ws s) j = Some w -> w_step c s j = None ->
  match wp w with
  | WGet => qitems (getq s (wq w)) = []
  | WRecv _ | WERecv _ | WSRecv _ => outbox (getp s (wproc w)) = []
  | WEComm _ | WEWait _ | WSComm _ | WSWait => palive (getp s (wproc w)) = true
  | WSQJoin => qunf (getq s (wq w)) <> 0
  | WDone | WDead => True
  | _ => False
  end.
Proof.
  intros c s j w Hj H. unfold w_step in H. rewrite Hj in H. cbv zeta in H.
  destruct (wp w); try discriminate H; auto.
  - destruct (qitems (getq s (wq w))) as [|[i|b] r]; auto; discriminate H.
  - destruct (getf s i); discriminate H.
  - destruct (outbox (getp s (wproc w))) as [|m r]; auto. destruct m; discriminate H.
  - destruct (getf s i); discriminate H.
  - destruct (palive (getp s (wproc w))); discriminate H.
  - destruct (outbox (getp s (wproc w))) as [|m r]; auto. discriminate H.
  - destruct (palive (getp s (wproc w))); auto. discriminate H.
  - destruct (palive (getp s (wproc w))); auto. discriminate H.
  - destruct (getf s i); discriminate H.
  - destruct (palive (getp s (wproc w))); discriminate H.
  - destruct (outbox (getp s (wproc w))) as [|m r]; auto. discriminate H.
  - destruct (palive (getp s (wproc w))); auto. discriminate H.
  - destruct (palive (getp s (wproc w))); auto. discriminate H.
  - destruct (Nat.eqb (qunf (getq s (wq w))) 0) eqn:He; [discriminate H|]. apply Nat.eqb_neq; auto.
Qed.

Lemma p_stuck : forall c s k p, nth_error (ps s) k = Some p -> p_step c s (S k) = None ->
  match pp p with PRecv => inbox p = [] | PExit => True | _ => False end.
Proof.
  intros c s k p Hk H. unfold p_step in H. replace (S k - 1) with k in H by lia. rewrite Hk in H.
  simpl in H. destruct (pp p); try discriminate H; auto.
  destruct (inbox p) as [|m t]; auto. destruct m; discriminate H.
Qed.

Lemma m_stuck : forall c s, 1 <= nworkers c -> m_step c s = None ->
  match main s with
  | MOp => match ops s with
           | OResult i :: _ => fdone (getf s i) = false
           | [] => True
           | _ => False
           end
  | MPutShut _ 0 => True
  | MJoin k => match nth_error (ws s) k with Some wt => wdone wt = false | None => True end
  | MQJoin => qunf (getq s 0) <> 0
  | MEnd => True
  | _ => False
  end.
Proof.
  intros c s Hn H. unfold m_step in H.
  assert (Hdr : forall w, match drain_step s w with
                          | Some r => Some r
                          | None => Some (m_norm c (set_main s (MPutShut w (nworkers c))), LGetNw 0 None)
                          end = None -> False).
  { intros w Hd. destruct (drain_step s w); discriminate Hd. }
  destruct (main s); auto.
  - destruct (Nat.eqb (nworkers c) 0); discriminate H.
  - cbv zeta in H. destruct (Nat.eqb (S k) (nworkers c)); discriminate H.
  - destruct (ops s) as [|o t]; auto. destruct o as [i|i|i|w b| |].
    + discriminate H.
    + destruct (fcancel (getf s i)); discriminate H.
    + destruct (fdone (getf s i)); [discriminate H|reflexivity].
    + destruct b. eapply Hdr; eauto. destruct (nworkers c); [lia|discriminate H].
    + destruct (nworkers c); [lia|discriminate H].
    + destruct (nworkers c); [lia|discriminate H].
  - eapply Hdr; eauto.
  - destruct (fcancel (getf s j)); discriminate H.
  - discriminate H.
  - destruct k; auto. discriminate H.
  - destruct (nth_error (ws s) k) as [wt|]; auto. destruct (wdone wt); auto.
    destruct (wdead wt); discriminate H.
  - destruct (Nat.eqb (qunf (getq s 0)) 0) eqn:He; [discriminate H|]. apply Nat.eqb_neq; auto.
Qed.

Lemma stuck_all : forall c s, enabled c s = [] -> forall t, In t (tids s) -> step c s t = None.
Proof.
  intros c s H t Ht. unfold enabled in H. pose proof (filter_nil_all _ _ _ H t Ht) as Hf.
  cbv beta in Hf. destruct (step c s t); [discriminate Hf|reflexivity].
Qed.

Lemma tid_m : forall s, In TM (tids s).
Proof. intros s. left; reflexivity. Qed.

Lemma tid_w : forall s j, j < length (ws s) -> In (TW (S j)) (tids s).
Proof.
  intros s j H. right. apply in_or_app. left. apply in_map_iff. exists j. split; auto.
  apply in_seq. lia.
Qed.

Lemma tid_p : forall s k, k < length (ps s) -> In (TP (S k)) (tids s).
Proof.
  intros s k H. right. apply in_or_app. right. apply in_map_iff. exists k. split; auto.
  apply in_seq. lia.
Qed.

Lemma shuts_put_le : forall c s, shuts_put c s <= nworkers c.
Proof. intros c s. unfold shuts_put. destruct (closed s); auto. destruct (main s); lia. Qed.

Lemma where_zero : forall s i, qitems (getq s 0) = [] -> (forall w, In w (ws s) -> wp w = WDone \/ wp w = WGet) ->
  (forall b j, main s <> MDrainCancel b j) -> where_count s i = 0.
Proof.
  intros s i Hq Hw Hm. unfold where_count. rewrite Hq. rewrite count_nil.
  rewrite count_zero_intro.
  - destruct (main s); auto. exfalso. eapply Hm; eauto.
  - intros x Hx. unfold w_call. destruct (Hw x Hx) as [He|He]; rewrite He; reflexivity.
Qed.

(* quiescent states: nothing queued, every worker finished *)
Lemma quiescent : forall c s, inv_safe c s = true -> Inv c s ->
  qitems (getq s 0) = [] -> (forall w, In w (ws s) -> wp w = WDone) ->
  (forall b j, main s <> MDrainCancel b j) ->
  (forall i, In i (subm s) -> fdone (getf s i) = true)
  /\ (forall p, In p (ps s) -> palive p = false)
  /\ (forall w, In w (ws s) -> wdone w = true).
Proof.
  intros c s Hsafe H Hq Hw Hm.
  destruct H as (H1 & H2 & H3 & H4 & H5 & H6 & H7 & H8 & H9 & H10 & H11 & H12 & H13 & H14 & H15).
  split; [|split].
  - intros i Hi. destruct H1 as (_ & C2 & _).
    destruct (safe_own _ _ Hsafe i (C2 i Hi)) as [_ [Hd|[Hd|Hd]]]; auto; try contradiction.
    rewrite where_zero in Hd; auto. discriminate.
  - intros p Hp. apply In_nth_error in Hp. destruct Hp as [k Hk].
    pose proof (nth_error_some_lt _ _ _ _ Hk) as Hlt.
    destruct (H12 k Hlt) as [w [Hw1 Hw2]].
    assert (Hf : wfin w = true) by (unfold wfin; rewrite (Hw w Hw1); reflexivity).
    pose proof (H11 w Hw1 Hf) as Ha. rewrite Hw2 in Ha. unfold getp in Ha.
    replace (S k - 1) with k in Ha by lia. rewrite (nth_error_nth' _ _ _ _ _ Hk) in Ha. exact Ha.
  - intros w Hw1. unfold wdone. rewrite (Hw w Hw1). reflexivity.
Qed.

Lemma serving_enabled : forall p rq rp, serving p rq rp = true -> outbox p = [] ->
  match pp p with PRecv => inbox p = [] | PExit => True | _ => False end -> False.
Proof.
  intros p rq rp H Ho Hp. apply serving_cases in H.
  destruct H as [(H1 & H2 & H3)|[(H1 & H2 & H3)|(H1 & H2 & H3)]].
  - unfold p_idle in H1. destruct (pp p); try discriminate H1; auto. congruence.
  - destruct rq; destruct (pp p); auto.
  - congruence.
Qed.

Lemma chan_comm : forall c w p, chan_ok c w p = true ->
  (exists b, wp w = WSComm b) \/ wp w = WSWait -> palive p = false.
Proof.
  intros c w p H Hw. unfold chan_ok in H.
  destruct Hw as [[b Hw]|Hw]; rewrite Hw in H; apply andb_true_iff in H; destruct H as [_ H];
  apply orb_true_iff in H; (destruct H as [H|H]; [apply negb_true_iff in H; exact H|]);
  destruct (pp p); discriminate H.
Qed.

Lemma count_all_intro : forall A (f : A -> bool) l, (forall x, In x l -> f x = true) -> count f l = length l.
Proof. intros A f l H. apply forallb_count. apply forallb_forall. exact H. Qed.

Lemma getp_nth_error : forall s k, 0 < k <= length (ps s) -> nth_error (ps s) (k - 1) = Some (getp s k).
Proof.
  intros s k Hk. unfold getp. destruct (nth_error (ps s) (k - 1)) as [p|] eqn:E.
  - rewrite (nth_error_nth' _ _ _ _ _ E). reflexivity.
  - apply nth_error_None in E. lia.
Qed.

Lemma length_pos_in : forall A (l : list A), 0 < length l -> exists x, In x l.
Proof. intros A [|a l] H; simpl in H; [lia|]. exists a. left; reflexivity. Qed.

Lemma stuck_workers : forall c s, inv_safe c s = true -> Inv c s ->
  (forall t, In t (tids s) -> step c s t = None) ->
  forall w, In w (ws s) ->
    (wp w = WGet /\ qitems (getq s 0) = []) \/ (wp w = WSQJoin /\ qunf (getq s 0) <> 0) \/ wp w = WDone.
Proof.
  intros c s Hsafe H Hst w Hw.
  destruct H as (H1 & H2 & H3 & H4 & H5 & H6 & H7 & H8 & H9 & H10 & H11 & H12 & H13 & H14 & H15).
  assert (HP : forall k p, nth_error (ps s) k = Some p ->
             match pp p with PRecv => inbox p = [] | PExit => True | _ => False end).
  { intros k p Hk. eapply p_stuck; eauto. apply (Hst (TP (S k))). apply tid_p.
    eapply nth_error_some_lt; eauto. }
  pose proof Hw as Hw'. apply In_nth_error in Hw'. destruct Hw' as [j Hj].
  pose proof (w_stuck c s j w Hj (Hst (TW (S j)) (tid_w _ _ (nth_error_some_lt _ _ _ _ Hj)))) as Hs.
  pose proof (H7 w Hw) as Hq. pose proof (H8 w Hw) as Hb.
  pose proof (safe_chan _ _ Hsafe w Hw) as Hc. pose proof (safe_owns _ _ Hsafe w Hw) as Ho.
  rewrite Hq in Hs.
  destruct (wp w) eqn:Hpc; simpl in Hb; try discriminate Hb; try contradiction; auto.
  - exfalso. unfold chan_ok in Hc. rewrite Hpc in Hc.
    eapply serving_enabled; eauto. eapply HP. apply getp_nth_error; auto.
  - exfalso. unfold chan_ok in Hc. rewrite Hpc in Hc.
    eapply serving_enabled; eauto. eapply HP. apply getp_nth_error; auto.
  - exfalso. rewrite (chan_comm _ _ _ Hc) in Hs. discriminate. left. eauto.
  - exfalso. rewrite (chan_comm _ _ _ Hc) in Hs. discriminate. right. auto.
Qed.

Lemma stuck_shape : forall c s, 1 <= nworkers c -> inv_safe c s = true -> Inv c s ->
  (forall t, In t (tids s) -> step c s t = None) ->
  main s = MEnd /\ qitems (getq s 0) = [] /\ (forall w, In w (ws s) -> wp w = WDone).
Proof.
  intros c s Hn Hsafe H Hst.
  pose proof (stuck_workers _ _ Hsafe H Hst) as HW.
  destruct H as (H1 & H2 & H3 & H4 & H5 & H6 & H7 & H8 & H9 & H10 & H11 & H12 & H13 & H14 & H15).
  pose proof (m_stuck c s Hn (Hst TM (tid_m s))) as Hm.
  pose proof (safe_nthreads _ _ Hsafe) as Hnt. unfold nthreads_ok in Hnt.
  assert (Hlen : length (ws s) = nworkers c).
  { destruct (main s); try contradiction; apply Nat.eqb_eq; exact Hnt. }
  assert (Hmh : m_holds s = 0).
  { unfold m_holds. destruct (main s); try contradiction; reflexivity. }
  assert (Hnh : count w_holds (ws s) = 0).
  { apply count_zero_intro. intros x Hx. unfold w_holds.
    destruct (HW x Hx) as [[He _]|[[He _]|He]]; rewrite He; reflexivity. }
  assert (Hit : qitems (getq s 0) = []).
  { destruct (qitems (getq s 0)) as [|it rest] eqn:Hit; auto. exfalso.
    assert (Hpast : forall x, In x (ws s) -> w_past x = true).
    { intros x Hx. unfold w_past. destruct (HW x Hx) as [[_ He]|[[He _]|He]]; try discriminate He;
      rewrite He; reflexivity. }
    pose proof (count_all_intro _ _ _ Hpast) as Hcp.
    destruct (length_pos_in _ (ws s) ltac:(lia)) as [w0 Hw0].
    assert (Hsh : forallb is_shut (it :: rest) = true).
    { rewrite <- Hit. apply H10. exists w0. split; [exact Hw0|apply Hpast; exact Hw0]. }
    apply forallb_count in Hsh. unfold D_sh in H4. rewrite Hit, Hsh, Hcp, Hlen in H4.
    pose proof (shuts_put_le c s) as Hle. simpl in H4. lia. }
  assert (Hunf : qunf (getq s 0) = 0).
  { unfold D_cnt in H3. rewrite Hit, Hnh, Hmh in H3. simpl in H3. exact H3. }
  assert (HW' : forall x, In x (ws s) -> wp x = WGet \/ wp x = WDone).
  { intros x Hx. destruct (HW x Hx) as [[He _]|[[_ He]|He]]; auto. contradiction. }
  assert (Hwc : forall i, where_count s i = 0).
  { intros i. apply where_zero; auto.
    - intros x Hx. destruct (HW' x Hx); auto.
    - intros b j Hmm. rewrite Hmm in Hm. exact Hm. }
  assert (Hallpast : shuts_put c s = nworkers c -> forall x, In x (ws s) -> wp x = WDone).
  { intros Hsp x Hx. unfold D_sh in H4. rewrite Hit, Hsp, <- Hlen in H4. rewrite count_nil in H4.
    simpl in H4. pose proof (count_all _ _ _ H4 x Hx) as Hp. unfold w_past in Hp.
    destruct (HW' x Hx) as [He|He]; auto. rewrite He in Hp. discriminate Hp. }
  pose proof (ctl_closed_false c s H1) as Hcf.
  destruct H1 as (C1 & C2 & C3 & C4 & C5 & C6 & C7 & C8 & C9).
  assert (Hend : main s = MEnd).
  { destruct (main s) eqn:Hmain; try contradiction; auto.
    - specialize (C3 eq_refl). destruct (ops s) as [|o t]; [exfalso; exact C3|].
      destruct o as [i|i|i|w b| |]; try contradiction. simpl in C3.
      destruct (safe_own _ _ Hsafe i (C2 i C3)) as [_ [Hd|[Hd|Hd]]]; try congruence; try contradiction.
    - destruct k; [|contradiction]. specialize (C5 _ _ eq_refl). lia.
    - exfalso. specialize (C6 _ eq_refl). rewrite <- Hlen in C6.
      destruct (nth_error (ws s) k) as [wt|] eqn:Hk; [|apply nth_error_None in Hk; lia].
      assert (Hsp : shuts_put c s = nworkers c).
      { unfold shuts_put. rewrite Hmain. destruct (closed s); reflexivity. }
      pose proof (Hallpast Hsp wt (nth_error_In _ _ Hk)) as Hd. unfold wdone in Hm. rewrite Hd in Hm.
      discriminate Hm. }
  split; auto. split; auto.
  apply Hallpast. unfold shuts_put. rewrite (C8 Hend). reflexivity.
Qed.


(* ====================== part 8 ====================== *)

Lemma qjoin_label : forall c s s', 1 <= nworkers c -> m_step c s = Some (s', LQJoin 0) ->
  main s = MQJoin /\ qunf (getq s 0) = 0 /\ s' = m_done s (if cur_silent s then [] else [XOk]) true.
Proof.
  intros c s s' Hn H. unfold m_step in H.
  assert (Hdr : forall w, match drain_step s w with
                          | Some r => Some r
                          | None => Some (m_norm c (set_main s (MPutShut w (nworkers c))), LGetNw 0 None)
                          end = Some (s', LQJoin 0) -> False).
  { intros w Hd. unfold drain_step in Hd. destruct (qitems (getq s 0)) as [|[j|b] r]; inversion Hd. }
  destruct (main s) eqn:Hm.
  - destruct (Nat.eqb (nworkers c) 0); inversion H.
  - cbv zeta in H. destruct (Nat.eqb (S k) (nworkers c)); inversion H.
  - destruct (ops s) as [|o t]; [discriminate H|]. destruct o as [i|i|i|w b| |].
    + inversion H.
    + destruct (fcancel (getf s i)); inversion H.
    + destruct (fdone (getf s i)); inversion H.
    + destruct b. exfalso; eapply Hdr; eauto. destruct (nworkers c); [lia|inversion H].
    + destruct (nworkers c); [lia|inversion H].
    + destruct (nworkers c); [lia|inversion H].
  - exfalso; eapply Hdr; eauto.
  - destruct (fcancel (getf s j)); inversion H.
  - inversion H.
  - destruct k; inversion H.
  - destruct (nth_error (ws s) k) as [wt|]; [|discriminate H]. destruct (wdone wt); [|discriminate H].
    destruct (wdead wt); inversion H.
  - destruct (Nat.eqb (qunf (getq s 0)) 0) eqn:He; [|discriminate H]. apply Nat.eqb_eq in He.
    inversion H. auto.
  - discriminate H.
Qed.

Lemma m_done_data : forall s x cl,
  futs (m_done s x cl) = futs s /\ subm (m_done s x cl) = subm s /\ ws (m_done s x cl) = ws s
  /\ ps (m_done s x cl) = ps s.
Proof.
  intros s x cl. unfold m_done. destruct (m_goto_spec s (tl (ops s)) x cl) as (l' & acc' & pc & Heq & _).
  rewrite Heq. simpl. auto.
Qed.

Section Live.
  Hypothesis safe_reach : forall c n prog s, wf_prog n prog -> reach c (init n prog) s -> inv_safe c s = true.

  Lemma Inv_reach : forall c n prog s,
    nofail c -> 1 <= nworkers c -> wf_prog n prog -> reach c (init n prog) s -> Inv c s.
  Proof.
    intros c n prog s Hnf Hn Hwf Hr. induction Hr as [|s t s' l Hr IH Hs].
    - apply Inv_init; auto.
    - eapply Inv_step; eauto.
  Qed.

  Theorem nofail_reach : forall c n prog s,
    nofail c -> 1 <= nworkers c -> wf_prog n prog -> reach c (init n prog) s -> inv_nofail c s = true.
  Proof.
    intros c n prog s Hnf Hn Hwf Hr. pose proof (Inv_reach _ _ _ _ Hnf Hn Hwf Hr) as H.
    destruct H as (H1 & H2 & H3 & H4 & H5 & _).
    unfold inv_nofail, counter_ok, shuts_ok. apply andb_true_iff. split.
    - apply Nat.eqb_eq. exact H3.
    - apply andb_true_iff. split; [apply Nat.eqb_eq; exact H4|exact H5].
  Qed.

  Theorem no_deadlock : forall c n prog s,
    nofail c -> 1 <= nworkers c -> wf_prog n prog -> reach c (init n prog) s ->
    enabled c s = [] -> main s = MEnd.
  Proof.
    intros c n prog s Hnf Hn Hwf Hr He.
    pose proof (Inv_reach _ _ _ _ Hnf Hn Hwf Hr) as H. pose proof (safe_reach _ _ _ _ Hwf Hr) as Hsafe.
    destruct (stuck_shape _ _ Hn Hsafe H (stuck_all _ _ He)) as [Hm _]. exact Hm.
  Qed.

  Theorem all_done_when_stuck : forall c n prog s,
    nofail c -> 1 <= nworkers c -> wf_prog n prog -> reach c (init n prog) s ->
    enabled c s = [] -> forall i, In i (subm s) -> fdone (getf s i) = true.
  Proof.
    intros c n prog s Hnf Hn Hwf Hr He.
    pose proof (Inv_reach _ _ _ _ Hnf Hn Hwf Hr) as H. pose proof (safe_reach _ _ _ _ Hwf Hr) as Hsafe.
    destruct (stuck_shape _ _ Hn Hsafe H (stuck_all _ _ He)) as (Hm & Hq & Hw).
    apply (quiescent _ _ Hsafe H Hq Hw). intros b j Hb. congruence.
  Qed.

  Theorem all_exited_when_stuck : forall c n prog s,
    nofail c -> 1 <= nworkers c -> wf_prog n prog -> reach c (init n prog) s ->
    enabled c s = [] ->
    (forall p, In p (ps s) -> palive p = false) /\ (forall w, In w (ws s) -> wdone w = true).
  Proof.
    intros c n prog s Hnf Hn Hwf Hr He.
    pose proof (Inv_reach _ _ _ _ Hnf Hn Hwf Hr) as H. pose proof (safe_reach _ _ _ _ Hwf Hr) as Hsafe.
    destruct (stuck_shape _ _ Hn Hsafe H (stuck_all _ _ He)) as (Hm & Hq & Hw).
    apply (quiescent _ _ Hsafe H Hq Hw). intros b j Hb. congruence.
  Qed.

  Theorem after_wait_shutdown : forall c n prog s,
    nofail c -> 1 <= nworkers c -> wf_prog n prog -> reach c (init n prog) s ->
    forall s', step c s TM = Some (s', LQJoin 0) ->
      (forall i, In i (subm s') -> fdone (getf s' i) = true)
      /\ (forall p, In p (ps s') -> palive p = false)
      /\ (forall w, In w (ws s') -> wdone w = true).
  Proof.
    intros c n prog s Hnf Hn Hwf Hr s' Hs.
    pose proof (Inv_reach _ _ _ _ Hnf Hn Hwf Hr) as H. pose proof (safe_reach _ _ _ _ Hwf Hr) as Hsafe.
    simpl in Hs. destruct (qjoin_label _ _ _ Hn Hs) as (Hm & Hz & He). subst s'.
    destruct (m_done_data s (if cur_silent s then [] else [XOk]) true) as (E1 & E2 & E3 & E4).
    unfold getf. rewrite E1, E2, E3, E4.
    pose proof H as (H1 & H2 & H3 & H4 & H5 & H6 & H7 & H8 & H9 & H10 & H11 & H12 & H13 & H14 & H15).
    destruct H9 as [_ Hj]. specialize (Hj Hm).
    assert (Hq : qitems (getq s 0) = []).
    { unfold D_cnt in H3. rewrite Hz in H3. destruct (qitems (getq s 0)); auto. simpl in H3. lia. }
    apply (quiescent _ _ Hsafe H Hq Hj). intros b j Hb. congruence.
  Qed.
End Live.

Print Assumptions nofail_reach.
Print Assumptions no_deadlock.
Print Assumptions all_done_when_stuck.
Print Assumptions all_exited_when_stuck.
Print Assumptions after_wait_shutdown.
