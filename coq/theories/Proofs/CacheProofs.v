(* Proofs about the cache persistence protocol (Model/CacheFs.v) and the file-mode dataflow
   (Model/FileFlow.v). *)
From Coq Require Import List Bool Arith Lia String.
From EL Require Import Model.CacheFs Model.FileFlow.
Import ListNotations.

(* ---- crash atomicity of the file-mode worker ---- *)
Definition in_complete (f : file) : bool :=
  has_ds f DFunction && has_ds f DArgs && has_ds f DKwargs && negb (has_ds f DOutput).

(* every crash point of backend_write_file: if a file is visible under the final suffix it
   holds the output (and everything the input file held) *)
Lemma worker_prefix_atomic (fin : file) (r : option file) (k : nat) :
  let e := apply_ops (mkE (Some fin) r None) (firstn k worker_ops) in
  match f_out e with
  | Some f => f = fin ++ [DOutput]
  | None => True
  end.
Proof.
  unfold worker_ops, dump_ops.
  destruct (has_ds fin DOutput) eqn:E;
    do 6 (destruct k as [|k]; [simpl; rewrite ?E; simpl; try exact I; try reflexivity|]);
    simpl; rewrite ?E; simpl; try exact I; try reflexivity.
Qed.

Lemma complete_app_output fin : in_complete fin = true -> complete (fin ++ [DOutput]) = true.
Proof.
  unfold in_complete, complete, has_ds. intros H.
  apply andb_prop in H. destruct H as [H _]. apply andb_prop in H. destruct H as [H H3].
  apply andb_prop in H. destruct H as [H1 H2].
  rewrite !existsb_app, H1, H2, H3. simpl. rewrite Bool.orb_true_r. reflexivity.
Qed.

Theorem worker_publish_atomic (fin : file) (r : option file) (k : nat) :
  in_complete fin = true ->
  let e := apply_ops (mkE (Some fin) r None) (firstn k worker_ops) in
  accepted_file_mode e = true -> match f_out e with Some f => complete f = true | None => False end.
Proof.
  intros Hin. cbv zeta. intros Hacc. pose proof (worker_prefix_atomic fin r k) as H. cbv zeta in H.
  unfold accepted_file_mode in Hacc.
  destruct (f_out (apply_ops (mkE (Some fin) r None) (firstn k worker_ops))) as [f|]; [|discriminate].
  rewrite H. apply complete_app_output. exact Hin.
Qed.

Lemma in_firstn {A} (x : A) k l : In x (firstn k l) -> In x l.
Proof.
  revert l. induction k as [|k IH]; intros l H; [destruct H|].
  destruct l as [|y t]; [destruct H|]. simpl in H. destruct H as [H|H]; [left; exact H|right; apply IH; exact H].
Qed.

(* the submit side never makes anything visible under the final suffix *)
Theorem submit_never_publishes (e0 : entry) (stale : bool) (k : nat) :
  f_out e0 = None -> f_out (apply_ops e0 (firstn k (submit_ops stale))) = None.
Proof.
  intros H0.
  assert (G : forall l e, (forall o, In o l -> match o with ORename _ SOut | OOpenA SOut | ODs SOut _ => False | _ => True end) ->
                          f_out e = None -> f_out (apply_ops e l) = None).
  { induction l as [|o t IH]; intros e Hl He; [exact He|]. simpl.
    destruct (apply_op e o) as [e'|] eqn:Ea; [|exact He].
    apply IH; [intros o' Ho'; apply Hl; right; exact Ho'|].
    assert (Ho := Hl o (or_introl eq_refl)).
    destruct o as [s|s d|s|a b|s]; simpl in Ea.
    - destruct s; try contradiction; destruct (getfile e _); inversion Ea; subst; simpl; exact He.
    - destruct s; try contradiction; destruct (getfile e _) as [f|]; try discriminate;
        destruct (has_ds f d); inversion Ea; subst; simpl; exact He.
    - inversion Ea; subst; exact He.
    - destruct b; try contradiction; destruct a; simpl in Ea;
        try (destruct (getfile e _); inversion Ea; subst; simpl; exact He);
        try (destruct (f_in e); inversion Ea; subst; simpl; exact He);
        try (destruct (f_ready e); inversion Ea; subst; simpl; exact He);
        try (destruct (f_out e); [discriminate He|discriminate]).
    - destruct s; simpl in Ea.
      + destruct (f_in e); inversion Ea; subst; simpl; exact He.
      + destruct (f_ready e); inversion Ea; subst; simpl; exact He.
      + rewrite He in Ea. discriminate. }
  apply G; [|exact H0].
  intros o Ho. apply in_firstn in Ho. unfold submit_ops, dump_ops in Ho.
  destruct stale; simpl in Ho; repeat (destruct Ho as [<-|Ho]; [exact I|]); contradiction.
Qed.

(* the interactive cache writer is NOT atomic: after its first operation a file is visible under
   the final suffix without an output, and the interactive hit path accepts it (finding D10) *)
Theorem interactive_writer_refuted :
  exists k, let e := apply_ops (mkE None None None) (firstn k interactive_ops) in
            accepted_interactive e = true /\ match f_out e with Some f => complete f = false | None => False end.
Proof. exists 1. simpl. split; reflexivity. Qed.

(* but the file-mode reader would not accept it, and the complete sequence is complete *)
Theorem interactive_writer_complete :
  let e := apply_ops (mkE None None None) interactive_ops in
  match f_out e with Some f => complete f = true | None => False end.
Proof. simpl. reflexivity. Qed.

(* ---- completed entries persist ---- *)
(* no operation of the submit side or of the interactive writer changes a complete published
   file: create_dataset refuses existing names, open-append keeps the content *)
Theorem complete_entry_untouched (e : entry) (f : file) (o : fsop) :
  f_out e = Some f -> complete f = true ->
  In o (submit_ops true ++ submit_ops false ++ interactive_ops) ->
  match apply_op e o with Some e' => f_out e' = Some f | None => True end.
Proof.
  intros He Hc Ho. unfold complete in Hc.
  apply andb_prop in Hc. destruct Hc as [Hc H4]. apply andb_prop in Hc. destruct Hc as [Hc H3].
  apply andb_prop in Hc. destruct Hc as [H1 H2].
  unfold submit_ops, interactive_ops, dump_ops in Ho. simpl in Ho.
  repeat (destruct Ho as [<-|Ho];
          [simpl; rewrite ?He; simpl; rewrite ?H1, ?H2, ?H3, ?H4;
           try (destruct (f_in e) as [fi|]; simpl);
           try match goal with |- context [if has_ds ?g ?d then _ else _] => destruct (has_ds g d) end;
           simpl; auto|]).
  contradiction.
Qed.

(* ---- dataflow: any publication order yields the values of sequential evaluation ---- *)
Section FlowProofs.
  Variable deps : nat -> list nat.
  Variable app : nat -> list nat -> nat.
  Hypothesis deps_lt : forall i j, In j (deps i) -> j < i.

  Lemma seqval_fuel f1 f2 i : i < f1 -> i < f2 -> seqval deps app f1 i = seqval deps app f2 i.
  Proof.
    revert f2 i. induction f1 as [|f1 IH]; intros f2 i H1 H2; [lia|].
    destruct f2 as [|f2]; [lia|]. simpl. f_equal. apply map_ext_in. intros j Hj.
    apply deps_lt in Hj. apply IH; lia.
  Qed.

  Lemma all_some_map (s : store) (l : list nat) vs :
    all_some (map s l) = Some vs -> vs = map (fun j => match s j with Some v => v | None => 0 end) l
                                    /\ forall j, In j l -> s j <> None.
  Proof.
    revert vs. induction l as [|j t IH]; simpl; intros vs H.
    - inversion H. split; [reflexivity|intros j []].
    - destruct (s j) as [v|] eqn:Ej; [|discriminate].
      destruct (all_some (map s t)) as [ws|] eqn:Et; [|discriminate]. inversion H; subst.
      destruct (IH ws eq_refl) as [-> Hn]. split; [reflexivity|].
      intros j' [<-|Hj']; [rewrite Ej; discriminate|apply Hn; exact Hj'].
  Qed.

  Theorem flow_values s :
    freach deps app s -> forall i v, s i = Some v -> v = seqval deps app (S i) i.
  Proof.
    intros H. induction H as [|s k s' _ IH Hp]; intros i v Hi; [discriminate|].
    unfold publish in Hp. destruct (all_some (map s (deps k))) as [vs|] eqn:Ea; [|discriminate].
    inversion Hp; subst s'. unfold upd_store in Hi.
    destruct (Nat.eqb_spec i k) as [->|Hne]; [|apply IH; exact Hi].
    inversion Hi; subst v. simpl. f_equal.
    destruct (all_some_map s (deps k) vs Ea) as [-> Hn].
    apply map_ext_in. intros j Hj. specialize (Hn j Hj).
    destruct (s j) as [w|] eqn:Ej; [|contradiction].
    rewrite (IH j w Ej). apply seqval_fuel; [lia|]. apply deps_lt in Hj. lia.
  Qed.
End FlowProofs.
