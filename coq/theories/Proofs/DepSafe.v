(* The dependency resolver model (Model/DepExec.v): futures only move forward, the resolver forwards a
   call only after all its inputs hold results, bodies start only after their inputs, failed inputs fail
   the call (properties C03 / C04). *)
From Coq Require Import List Bool Arith Lia.
From EL Require Import Model.Exec Model.ExecInv Model.StepExec Model.DepExec Proofs.ExecLive.
Import ListNotations.


(* ====================== part 1 ====================== *)

Inductive dreach (c : dcfg) (d0 : dstate) : dstate -> Prop :=
| dreach_init : dreach c d0 d0
| dreach_step : forall d t d' l, dreach c d0 d -> dstep c d t = Some (d', l) -> dreach c d0 d'.

(* well-formed dependencies: a call only depends on earlier calls *)
Definition wf_deps (c : dcfg) (n : nat) : Prop := forall i j, In j (ddeps c i) -> 1 <= j < i /\ i <= n.

(* ---------- futures only move forward ---------- *)
Definition fle (f f' : fstate) : Prop :=
  (fdone f = true -> fdone f' = true) /\ (forall v, f = FRes v -> f' = FRes v).

Definition futs_le (l l' : list fstate) : Prop := forall m, fle (nth m l FPending) (nth m l' FPending).

Lemma fle_refl : forall f, fle f f.
Proof. intros f. split; auto. Qed.

Lemma futs_le_refl : forall l, futs_le l l.
Proof. intros l m. apply fle_refl. Qed.

Lemma upd_oob : forall A (l : list A) n x, length l <= n -> upd l n x = l.
Proof. induction l as [|a l IH]; intros [|n] x H; simpl in *; auto; try lia. rewrite IH; auto. lia. Qed.

Lemma futs_le_upd : forall l n x, fle (nth n l FPending) x -> futs_le l (upd l n x).
Proof.
  intros l n x H m. destruct (Nat.eq_dec n m) as [E|E].
  - subst m. destruct (Nat.lt_ge_cases n (length l)) as [Hl|Hl].
    + rewrite nth_upd_eq; auto.
    + rewrite upd_oob; auto. apply fle_refl.
  - rewrite nth_upd_neq; auto. apply fle_refl.
Qed.

Lemma fle_fcancel : forall f, fle f (fst (fcancel f)).
Proof. intros []; split; simpl; auto; intros; discriminate. Qed.

Lemma fle_notdone : forall f f', fdone f = false -> fle f f'.
Proof. intros f f' H. split. congruence. intros v E. subst. discriminate. Qed.

Lemma fle_canc : fle FCancelled FCancelledN.
Proof. split; auto. intros v E; discriminate. Qed.

Ltac fl :=
  first [ apply futs_le_refl
        | apply futs_le_upd;
          match goal with
          | H : getf _ _ = _ |- _ => unfold getf in H; rewrite H;
              first [apply fle_canc | apply fle_notdone; reflexivity]
          | H : nth _ _ FPending = _ |- _ => rewrite H;
              first [apply fle_canc | apply fle_notdone; reflexivity]
          end ].

Lemma m_goto_futs : forall s l x cl, futs (m_goto s l x cl) = futs s.
Proof. intros. destruct (m_goto_spec s l x cl) as (l' & a' & pc & E & _). rewrite E. reflexivity. Qed.
Lemma m_goto_queues : forall s l x cl, queues (m_goto s l x cl) = queues s.
Proof. intros. destruct (m_goto_spec s l x cl) as (l' & a' & pc & E & _). rewrite E. reflexivity. Qed.
Lemma m_goto_ws : forall s l x cl, ws (m_goto s l x cl) = ws s.
Proof. intros. destruct (m_goto_spec s l x cl) as (l' & a' & pc & E & _). rewrite E. reflexivity. Qed.
Lemma m_goto_ps : forall s l x cl, ps (m_goto s l x cl) = ps s.
Proof. intros. destruct (m_goto_spec s l x cl) as (l' & a' & pc & E & _). rewrite E. reflexivity. Qed.
Lemma m_goto_subm : forall s l x cl, subm (m_goto s l x cl) = subm s.
Proof. intros. destruct (m_goto_spec s l x cl) as (l' & a' & pc & E & _). rewrite E. reflexivity. Qed.
Lemma m_goto_main : forall s l x cl, main (m_goto s l x cl) = MOp \/ main (m_goto s l x cl) = MEnd.
Proof.
  intros. destruct (m_goto_spec s l x cl) as (l' & a' & pc & E & Hs). rewrite E. simpl.
  eapply settle_pc; eauto.
Qed.
Lemma m_goto_ops : forall s l x cl o, In o (ops (m_goto s l x cl)) -> In o l.
Proof.
  intros s l x cl o. destruct (m_goto_spec s l x cl) as (l' & a' & pc & E & Hs). rewrite E. simpl.
  eapply settle_sub; eauto.
Qed.

Lemma w_step_futs_le : forall c s j s' l, w_step c s j = Some (s', l) -> futs_le (futs s) (futs s').
Proof.
  intros c s j s' l H. unfold w_step in H.
  destruct (nth_error (ws s) j) as [w|]; [|discriminate]. cbv zeta in H.
  destruct (wp w);
  repeat match type of H with
  | context [match ?x with _ => _ end] => destruct x eqn:?
  end; try discriminate H; inversion H; subst; clear H; unf; fl.
Qed.

Ltac destr_all H :=
  repeat match type of H with
  | context [match ?x with _ => _ end] => destruct x eqn:?
  end.

Lemma xs_inner_shut_start : forall c d w, xs (inner_shut_start c d w) = xs d.
Proof. intros. unfold inner_shut_start. destruct (dinner c); reflexivity. Qed.

Lemma xs_start_pass : forall c d a, xs (start_pass c d a) = xs d.
Proof.
  intros. unfold start_pass. destruct (rwait d) as [|[j dj] r]; [|reflexivity].
  destruct a; [reflexivity|apply xs_inner_shut_start].
Qed.

Lemma xs_scan_next : forall c d pre post n0 a, xs (scan_next c d pre post n0 a) = xs d.
Proof.
  intros. unfold scan_next. destruct post as [|[j dj] r]; [|reflexivity].
  destruct a; destruct (Nat.eqb (length pre) n0); try reflexivity. rewrite xs_start_pass. reflexivity.
Qed.

Lemma xs_kont : forall c d k, xs (kont c d k) = xs d.
Proof. intros. destruct k; simpl; [reflexivity|apply xs_scan_next]. Qed.

Lemma xs_after_inputs_done : forall d i deps k, xs (after_inputs_done d i deps k) = xs d.
Proof. intros. unfold after_inputs_done. destruct deps; reflexivity. Qed.

Lemma base_after_puts : forall c x i, base (after_puts c x i) = base x.
Proof.
  intros. unfold after_puts. destruct (must_wait c (active x) i); [|reflexivity].
  destruct (active x); reflexivity.
Qed.

Ltac xsn := unfold dbase in *; rewrite ?xs_kont, ?xs_start_pass, ?xs_scan_next, ?xs_after_inputs_done,
  ?xs_inner_shut_start, ?base_after_puts in *; cbn [xs rp rwait base disp active launched set_xs set_rp set_dbase set_base set_disp] in *.

Lemma r_step_futs_le : forall c d d' l, r_step c d = Some (d', l) ->
  futs_le (futs (dbase d)) (futs (dbase d')).
Proof.
  intros c d d' l H. unfold r_step in H. cbv zeta in H.
  destruct (rp d); destr_all H; try discriminate H; inversion H; subst; clear H; xsn; unf; fl.
Qed.

Lemma d_step_futs : forall c qm x x' l, d_step c qm x = Some (x', l) -> futs (base x') = futs (base x).
Proof.
  intros c qm x x' l H. unfold d_step in H. cbv zeta in H.
  destruct (disp x); destr_all H; try discriminate H; inversion H; subst; clear H;
  rewrite ?base_after_puts; reflexivity.
Qed.

Lemma drain_step_futs : forall s w s' l, drain_step s w = Some (s', l) -> futs s' = futs s.
Proof.
  intros s w s' l H. unfold drain_step in H. destr_all H; inversion H; subst; reflexivity.
Qed.

Lemma m_done_futs : forall s x cl, futs (m_done s x cl) = futs s.
Proof. intros. apply m_goto_futs. Qed.

Lemma xm_norm_futs : forall x, futs (base (xm_norm x)) = futs (base x).
Proof.
  intros x. unfold xm_norm. cbv zeta. destruct (main (base x)) as [| | | | | |w k|k| |]; try reflexivity.
  - destruct k; [|reflexivity]. destruct (cur_wait (base x)); simpl; [reflexivity|apply m_done_futs].
  - destruct k; reflexivity.
Qed.

Lemma xm_step_futs_le : forall c x x' l, xm_step c x = Some (x', l) ->
  futs_le (futs (base x)) (futs (base x')).
Proof.
  intros c x x' l H. unfold xm_step in H. cbv zeta in H.
  destruct (main (base x)) eqn:Hm.
  - inversion H; subst. apply futs_le_refl.
  - inversion H; subst. simpl. rewrite m_goto_futs. apply futs_le_refl.
  - destruct (ops (base x)) as [|o t]; [discriminate|]. destruct o as [i|i|i|w b| |].
    + inversion H; subst. simpl. rewrite m_done_futs. apply futs_le_refl.
    + destruct (fcancel (getf (base x) i)) as [f b] eqn:Hf. inversion H; subst. simpl.
      rewrite m_done_futs. simpl. unfold setf. apply futs_le_upd.
      pose proof (fle_fcancel (getf (base x) i)) as Hle. rewrite Hf in Hle. exact Hle.
    + destruct (fdone (getf (base x) i)); [|discriminate]. inversion H; subst. simpl.
      rewrite m_done_futs. apply futs_le_refl.
    + destruct b.
      * destruct (drain_step (base x) w) as [[b0 l0]|] eqn:Hd.
        -- inversion H; subst. simpl. rewrite (drain_step_futs _ _ _ _ Hd). apply futs_le_refl.
        -- inversion H; subst. rewrite xm_norm_futs. apply futs_le_refl.
      * inversion H; subst. rewrite xm_norm_futs. apply futs_le_refl.
    + inversion H; subst. rewrite xm_norm_futs. apply futs_le_refl.
    + inversion H; subst. rewrite xm_norm_futs. apply futs_le_refl.
  - destruct (drain_step (base x) w) as [[b0 l0]|] eqn:Hd.
    + inversion H; subst. simpl. rewrite (drain_step_futs _ _ _ _ Hd). apply futs_le_refl.
    + inversion H; subst. rewrite xm_norm_futs. apply futs_le_refl.
  - destruct (fcancel (getf (base x) j)) as [f b] eqn:Hf. inversion H; subst. simpl.
    unfold setf. apply futs_le_upd.
    pose proof (fle_fcancel (getf (base x) j)) as Hle. rewrite Hf in Hle. exact Hle.
  - inversion H; subst. apply futs_le_refl.
  - destruct k; [discriminate|]. inversion H; subst. rewrite xm_norm_futs. apply futs_le_refl.
  - destruct (ddone (disp x)); [|discriminate]. destruct (disp x); inversion H; subst; simpl;
    try rewrite m_done_futs; apply futs_le_refl.
  - destruct (Nat.eqb (qunf (getq (base x) 0)) 0); [|discriminate]. inversion H; subst. simpl.
    rewrite m_done_futs. apply futs_le_refl.
  - discriminate.
Qed.

Lemma dm_step_futs_le : forall c d d' l, dm_step c d = Some (d', l) ->
  futs_le (futs (dbase d)) (futs (dbase d')).
Proof.
  intros c d d' l H. unfold dm_step in H. cbv zeta in H.
  destruct (main (base (xs d))) eqn:Hm;
  try (destruct (xm_step (dx c) (xs d)) as [[x' l']|] eqn:Hx; [|discriminate]; inversion H; subst;
       unfold dbase; simpl; eapply xm_step_futs_le; eauto).
  - destruct (dinner c) as [[|n]|]; inversion H; subst; apply futs_le_refl.
  - destruct (dinner c) as [n|].
    + destruct (Nat.ltb k n); inversion H; subst; unfold dbase; simpl; try rewrite m_goto_futs; apply futs_le_refl.
    + destruct k; inversion H; subst; unfold dbase; simpl; try rewrite m_goto_futs; apply futs_le_refl.
  - destruct (rdone (rp d)); [|discriminate]. destruct (rp d); inversion H; subst; unfold dbase; simpl;
    try rewrite m_done_futs; apply futs_le_refl.
Qed.

Lemma p_step_futs : forall c s k s' l, p_step c s k = Some (s', l) -> futs s' = futs s.
Proof.
  intros c s k s' l H. unfold p_step in H. destr_all H; try discriminate H; inversion H; subst; reflexivity.
Qed.

Lemma dstep_futs_le : forall c d t d' l, dstep c d t = Some (d', l) ->
  futs_le (futs (dbase d)) (futs (dbase d')).
Proof.
  intros c d t d' l H. destruct t as [| | |j|k]; simpl in H.
  - eapply dm_step_futs_le; eauto.
  - eapply r_step_futs_le; eauto.
  - destruct (dinner c); [discriminate|].
    destruct (d_step (dx c) 1 (xs d)) as [[x' l']|] eqn:Hd; [|discriminate]. inversion H; subst.
    unfold dbase; simpl. rewrite (d_step_futs _ _ _ _ _ Hd). apply futs_le_refl.
  - destruct j as [|j]; [discriminate|].
    destruct (w_step (bcfg (dx c)) (dbase d) j) as [[b l']|] eqn:Hw; [|discriminate]. inversion H; subst.
    unfold dbase; simpl. eapply w_step_futs_le; eauto.
  - destruct (p_step (bcfg (dx c)) (dbase d) k) as [[b l']|] eqn:Hp; [|discriminate]. inversion H; subst.
    unfold dbase; simpl. rewrite (p_step_futs _ _ _ _ _ Hp). apply futs_le_refl.
Qed.

Theorem done_monotone : forall c d t d' l j,
  dstep c d t = Some (d', l) -> fdone (getf (dbase d) j) = true -> fdone (getf (dbase d') j) = true.
Proof.
  intros c d t d' l j H. unfold getf. apply (dstep_futs_le _ _ _ _ _ H (j - 1)).
Qed.
Print Assumptions done_monotone.

Theorem result_stable : forall c d t d' l j v,
  dstep c d t = Some (d', l) -> getf (dbase d) j = FRes v -> getf (dbase d') j = FRes v.
Proof.
  intros c d t d' l j v H. unfold getf. apply (dstep_futs_le _ _ _ _ _ H (j - 1)).
Qed.
Print Assumptions result_stable.

Lemma fok_stable : forall c d t d' l j,
  dstep c d t = Some (d', l) -> fok (getf (dbase d) j) = true -> fok (getf (dbase d') j) = true.
Proof.
  intros c d t d' l j H Hf. destruct (getf (dbase d) j) eqn:E; try discriminate Hf.
  rewrite (result_stable _ _ _ _ _ _ _ H E). reflexivity.
Qed.


(* ====================== part 2 ====================== *)

(* ---------- the resolver's control invariant ---------- *)
Definition wfl (c : dcfg) (l : list (nat * list nat)) : Prop := forall e, In e l -> snd e = ddeps c (fst e).
Definition wfk (c : dcfg) (k : rcont) : Prop :=
  match k with KTd => True | KScan pre post _ _ => wfl c pre /\ wfl c post end.
Definition allok (s : state) (l : list nat) : Prop := forall j, In j l -> fok (getf s j) = true.

Definition RIr (c : dcfg) (s : state) (r : rpc) : Prop :=
  match r with
  | RRes i todo k => (exists pre, ddeps c i = pre ++ todo /\ allok s pre) /\ wfk c k
  | RFwd i k => allok s (ddeps c i) /\ wfk c k
  | RFailSrnc _ k | RFailSet _ k => wfk c k
  | RScan pre cur deps _ _ post _ _ => wfl c pre /\ deps = ddeps c cur /\ wfl c post
  | _ => True
  end.

Definition RI (c : dcfg) (d : dstate) : Prop := wfl c (rwait d) /\ RIr c (dbase d) (rp d).

Lemma wfl_nil : forall c, wfl c [].
Proof. intros c e []. Qed.

Lemma wfl_app : forall c l1 l2, wfl c l1 -> wfl c l2 -> wfl c (l1 ++ l2).
Proof. intros c l1 l2 H1 H2 e He. apply in_app_or in He. destruct He; auto. Qed.

Lemma wfl_one : forall c i, wfl c [(i, ddeps c i)].
Proof. intros c i e [He|[]]. subst. reflexivity. Qed.

Lemma wfl_cons_inv : forall c j dj l, wfl c ((j, dj) :: l) -> dj = ddeps c j /\ wfl c l.
Proof.
  intros c j dj l H. split. apply (H (j, dj)). left; reflexivity. intros e He. apply H. right; auto.
Qed.

Lemma RI_inner_shut : forall c d w, wfl c (rwait d) -> RI c (inner_shut_start c d w).
Proof. intros c d w H. unfold inner_shut_start. destruct (dinner c); split; simpl; auto. Qed.

Lemma RI_start_pass : forall c d a, wfl c (rwait d) -> RI c (start_pass c d a).
Proof.
  intros c d a H. unfold start_pass. destruct (rwait d) as [|[j dj] r] eqn:E.
  - destruct a. split; simpl; auto. rewrite E; auto. apply RI_inner_shut. rewrite E. auto.
  - destruct (wfl_cons_inv _ _ _ _ H) as [H1 H2]. split; simpl. rewrite E; auto.
    split; [apply wfl_nil|split; auto].
Qed.

Lemma RI_scan_next : forall c d pre post n0 a, wfl c (rwait d) -> wfl c pre -> wfl c post ->
  RI c (scan_next c d pre post n0 a).
Proof.
  intros c d pre post n0 a Hw Hpre Hpost. unfold scan_next. destruct post as [|[j dj] r].
  - destruct a; destruct (Nat.eqb (length pre) n0); try (split; simpl; auto; fail).
    apply RI_start_pass. simpl. auto.
  - destruct (wfl_cons_inv _ _ _ _ Hpost) as [H1 H2]. split; simpl; auto.
Qed.

Lemma RI_kont : forall c d k, wfl c (rwait d) -> wfk c k -> RI c (kont c d k).
Proof.
  intros c d k Hw Hk. destruct k as [|pre post n0 a]; simpl.
  - split; simpl; auto.
  - destruct Hk. apply RI_scan_next; auto.
Qed.

Lemma RI_aid : forall c d i k, wfl c (rwait d) -> wfk c k -> RI c (after_inputs_done d i (ddeps c i) k).
Proof.
  intros c d i k Hw Hk. unfold after_inputs_done. destruct (ddeps c i) as [|j r] eqn:E; split; simpl; auto.
  - split; auto. rewrite E. intros j [].
  - split; auto. exists []. split; auto. intros j0 [].
Qed.

Lemma RIr_stable : forall c s s' r, (forall j, fok (getf s j) = true -> fok (getf s' j) = true) ->
  RIr c s r -> RIr c s' r.
Proof.
  intros c s s' r Hst H. destruct r; simpl in *; auto.
  - destruct H as [[pre [E Ha]] Hk]. split; auto. exists pre. split; auto. intros j Hj. apply Hst. auto.
  - destruct H as [Ha Hk]. split; auto. intros j Hj. apply Hst. auto.
Qed.

Lemma RI_rstep : forall c d d' l, r_step c d = Some (d', l) -> RI c d -> RI c d'.
Proof.
  intros c d d' l H [Hw Hr]. unfold r_step in H. cbv zeta in H.
  destruct (rp d) eqn:Hrp; simpl in Hr; destr_all H; try discriminate H; inversion H; subst; clear H;
  try (apply RI_start_pass; exact Hw);
  try (apply RI_kont; simpl; tauto);
  try (split; simpl; auto; fail).
  - split; simpl; auto. split; auto.
    match goal with E : ddeps c _ = [] |- _ => rewrite E end. intros j [].
  - apply RI_aid; simpl; auto.
  - split; simpl; auto. apply wfl_app; auto. apply wfl_one.
  - destruct Hr as [[pre [E Ha]] Hk]. split; simpl; auto. split; auto. rewrite E.
    intros j Hj. apply in_app_or in Hj. destruct Hj as [Hj|[Hj|[]]]; auto. subst. assumption.
  - destruct Hr as [[pre [E Ha]] Hk]. split; simpl; auto. split; auto. exists (pre ++ [n]).
    split. rewrite <- app_assoc. exact E.
    intros j Hj. apply in_app_or in Hj. destruct Hj as [Hj|[Hj|[]]]; auto. subst. assumption.
  - destruct Hr as [_ Hk]. split; simpl; auto.
  - destruct Hr as (H1 & H2 & H3). subst deps. apply RI_aid; simpl; auto.
  - destruct Hr as (H1 & H2 & H3). subst deps. apply RI_scan_next; auto.
    apply wfl_app; auto. apply wfl_one.
Qed.

Lemma dm_step_rp : forall c d d' l, dm_step c d = Some (d', l) ->
  rwait d' = rwait d /\ (rp d' = rp d \/ rp d' = RBegin).
Proof.
  intros c d d' l H. unfold dm_step in H. cbv zeta in H.
  destr_all H; try discriminate H; inversion H; subst; clear H; simpl; auto.
Qed.

Lemma other_rp : forall c d t d' l, dstep c d t = Some (d', l) -> t <> TR ->
  rwait d' = rwait d /\ (rp d' = rp d \/ rp d' = RBegin).
Proof.
  intros c d t d' l H Ht. destruct t as [| | |j|k]; simpl in H; try congruence.
  - eapply dm_step_rp; eauto.
  - destr_all H; try discriminate H; inversion H; subst; simpl; auto.
  - destr_all H; try discriminate H; inversion H; subst; simpl; auto.
  - destr_all H; try discriminate H; inversion H; subst; simpl; auto.
Qed.

Lemma tid_eq_TR : forall t, t = TR \/ t <> TR.
Proof. intros []; auto; right; discriminate. Qed.

Lemma RI_step : forall c d t d' l, dstep c d t = Some (d', l) -> RI c d -> RI c d'.
Proof.
  intros c d t d' l H HI. destruct (tid_eq_TR t) as [E|E].
  - subst t. simpl in H. eapply RI_rstep; eauto.
  - destruct (other_rp _ _ _ _ _ H E) as [Hw Hr]. destruct HI as [H1 H2]. split.
    + rewrite Hw. exact H1.
    + destruct Hr as [Hr|Hr]; rewrite Hr; simpl; auto.
      eapply RIr_stable; [|exact H2]. intros j. eapply fok_stable; eauto.
Qed.

Lemma RI_reach : forall c n prog d, dreach c (dinit n prog) d -> RI c d.
Proof.
  intros c n prog d H. induction H as [|d t d' l Hr IH Hs].
  - split; simpl; auto. apply wfl_nil.
  - eapply RI_step; eauto.
Qed.

Lemma r_label_fwd : forall c d d' i, r_step c d = Some (d', LPut 1 (Task i)) -> exists k, rp d = RFwd i k.
Proof.
  intros c d d' i H. unfold r_step in H. cbv zeta in H.
  destruct (rp d) eqn:Hrp; destr_all H; try discriminate H; inversion H; subst; eauto.
Qed.

Theorem forwarded_after_inputs : forall c n prog d d' i,
  wf_prog n prog -> dreach c (dinit n prog) d ->
  dstep c d TR = Some (d', LPut 1 (Task i)) ->
  forall j, In j (ddeps c i) -> fok (getf (dbase d) j) = true.
Proof.
  intros c n prog d d' i _ Hr Hs. simpl in Hs. destruct (r_label_fwd _ _ _ _ Hs) as [k Hk].
  destruct (RI_reach _ _ _ _ Hr) as [_ H]. rewrite Hk in H. simpl in H. exact (proj1 H).
Qed.
Print Assumptions forwarded_after_inputs.


(* ====================== part 3 ====================== *)

(* ---------- structural invariant: where calls are, parameterised by two predicates ---------- *)
Definition itP (P : nat -> Prop) (it : item) : Prop := match it with Task i => P i | Shut _ => True end.

Definition QP (P0 P1 : nat -> Prop) (qs : list queue) : Prop :=
  (forall it, In it (qitems (nth 0 qs (mkQ [] 0))) -> itP P0 it) /\
  (forall q it, 1 <= q -> In it (qitems (nth q qs (mkQ [] 0))) -> itP P1 it).

Definition WP (P1 : nat -> Prop) (l : list wthread) : Prop :=
  forall w, In w l -> 1 <= wq w /\ forall i, w_call w = Some i -> P1 i.

Definition Pok (P1 : nat -> Prop) (p : proc) : Prop :=
  (forall i, In (MCall i) (inbox p) -> P1 i) /\ (forall i, pp p = PBody i -> P1 i).

Definition PP (P1 : nat -> Prop) (l : list proc) : Prop := forall p, In p l -> Pok P1 p.

Lemma nth_upd_or : forall A (l : list A) n m x d,
  (m = n /\ nth m (upd l n x) d = x) \/ nth m (upd l n x) d = nth m l d.
Proof.
  intros A l n m x d. destruct (Nat.eq_dec n m) as [E|E].
  - subst m. destruct (Nat.lt_ge_cases n (length l)) as [Hl|Hl].
    + left. split; auto. apply nth_upd_eq; auto.
    + right. rewrite upd_oob; auto.
  - right. apply nth_upd_neq; auto.
Qed.

Lemma QP_sub : forall P0 P1 qs q l u, QP P0 P1 qs -> incl l (qitems (nth q qs (mkQ [] 0))) ->
  QP P0 P1 (upd qs q (mkQ l u)).
Proof.
  intros P0 P1 qs q l u [H0 H1] Hi. split.
  - intros it Hit. destruct (nth_upd_or _ qs q 0 (mkQ l u) (mkQ [] 0)) as [[E1 E2]|E2]; rewrite E2 in Hit.
    + subst q. apply H0. apply Hi. exact Hit.
    + apply H0; auto.
  - intros q' it Hq Hit. destruct (nth_upd_or _ qs q q' (mkQ l u) (mkQ [] 0)) as [[E1 E2]|E2]; rewrite E2 in Hit.
    + subst q'. eapply H1; eauto.
    + eapply H1; eauto.
Qed.

Lemma QP_put : forall P0 P1 qs q it u, QP P0 P1 qs -> (q = 0 -> itP P0 it) -> (1 <= q -> itP P1 it) ->
  QP P0 P1 (upd qs q (mkQ (qitems (nth q qs (mkQ [] 0)) ++ [it]) u)).
Proof.
  intros P0 P1 qs q it u [H0 H1] Ha Hb. split.
  - intros it' Hit. destruct (nth_upd_or _ qs q 0 (mkQ (qitems (nth q qs (mkQ [] 0)) ++ [it]) u) (mkQ [] 0)) as [[E1 E2]|E2];
    rewrite E2 in Hit.
    + subst q. simpl in Hit. apply in_app_or in Hit. destruct Hit as [Hit|[Hit|[]]]; auto. subst; auto.
    + apply H0; auto.
  - intros q' it' Hq Hit.
    destruct (nth_upd_or _ qs q q' (mkQ (qitems (nth q qs (mkQ [] 0)) ++ [it]) u) (mkQ [] 0)) as [[E1 E2]|E2];
    rewrite E2 in Hit.
    + subst q'. simpl in Hit. apply in_app_or in Hit. destruct Hit as [Hit|[Hit|[]]].
      * eapply H1; eauto. * subst; auto.
    + eapply H1; eauto.
Qed.

Lemma nth_snoc_empty : forall (qs : list queue) q it,
  In it (qitems (nth q (qs ++ [mkQ [] 0]) (mkQ [] 0))) -> In it (qitems (nth q qs (mkQ [] 0))).
Proof.
  intros qs q it H. destruct (Nat.lt_ge_cases q (length qs)) as [Hl|Hl].
  - rewrite app_nth1 in H; auto.
  - rewrite app_nth2 in H; auto. destruct (q - length qs) as [|[|k]]; simpl in H; destruct H.
Qed.

Lemma QP_app : forall P0 P1 qs, QP P0 P1 qs -> QP P0 P1 (qs ++ [mkQ [] 0]).
Proof.
  intros P0 P1 qs [H0 H1]. split.
  - intros it Hit. apply H0. apply nth_snoc_empty; auto.
  - intros q it Hq Hit. eapply H1; eauto. apply nth_snoc_empty; auto.
Qed.

Lemma incl_tl_self : forall A (l : list A), incl (tl l) l.
Proof. intros A [|a l]; simpl. apply incl_refl. apply incl_tl. apply incl_refl. Qed.

Lemma WP_upd : forall P1 l j w w', WP P1 l -> nth_error l j = Some w -> wq w' = wq w ->
  (forall i, w_call w' = Some i -> P1 i) -> WP P1 (upd l j w').
Proof.
  intros P1 l j w w' H Hj Hq Hc x Hx. apply In_upd in Hx. destruct Hx as [Hx|Hx]; auto.
  subst x. split; auto. rewrite Hq. apply (H w). eapply nth_error_In; eauto.
Qed.

Lemma WP_app : forall P1 l q, WP P1 l -> 1 <= q -> WP P1 (l ++ [mkW q 0 WBegin]).
Proof.
  intros P1 l q H Hq x Hx. apply in_app_or in Hx. destruct Hx as [Hx|[Hx|[]]]; auto.
  subst x. split; auto. intros i Hi. discriminate Hi.
Qed.

Lemma PP_upd : forall P1 l n x, PP P1 l -> Pok P1 x -> PP P1 (upd l n x).
Proof. intros P1 l n x H Hx p Hp. apply In_upd in Hp. destruct Hp as [Hp|Hp]; auto. subst; auto. Qed.

Lemma PP_app : forall P1 l, PP P1 l -> PP P1 (l ++ [mkP PBegin [] []]).
Proof.
  intros P1 l H p Hp. apply in_app_or in Hp. destruct Hp as [Hp|[Hp|[]]]; auto.
  subst p. split; simpl. intros i []. intros i Hi; discriminate Hi.
Qed.

Lemma PP_nth : forall P1 l n, PP P1 l -> Pok P1 (nth n l (mkP PExit [] [])).
Proof.
  intros P1 l n H. destruct (nth_in_or_default n l (mkP PExit [] [])) as [Hi|Hd].
  - apply H; auto.
  - rewrite Hd. split; simpl. intros i []. intros i Hi; discriminate Hi.
Qed.

Lemma QP_head : forall P0 P1 qs q it rest, QP P0 P1 qs -> 1 <= q ->
  qitems (nth q qs (mkQ [] 0)) = it :: rest -> itP P1 it.
Proof. intros P0 P1 qs q it rest [_ H1] Hq E. eapply H1; eauto. rewrite E. left; reflexivity. Qed.

Lemma w_step_str : forall P0 P1 c s j s' l, w_step c s j = Some (s', l) ->
  QP P0 P1 (queues s) -> WP P1 (ws s) -> PP P1 (ps s) ->
  QP P0 P1 (queues s') /\ WP P1 (ws s') /\ PP P1 (ps s') /\
  length (queues s') = length (queues s) /\ main s' = main s.
Proof.
  intros P0 P1 c s j s' l H HQ HW HP. unfold w_step in H.
  destruct (nth_error (ws s) j) as [w|] eqn:Hj; [|discriminate]. cbv zeta in H.
  assert (Hin : In w (ws s)) by (eapply nth_error_In; eauto).
  destruct (HW w Hin) as [Hq1 Hcall]. unfold w_call in Hcall.
  pose proof (PP_nth P1 (ps s) (wproc w - 1) HP) as Hpk.
  destruct (wp w) eqn:Hpc; destr_all H; try discriminate H; inversion H; subst; clear H; unf;
  repeat match goal with |- _ /\ _ => split end;
  try match goal with
  | |- QP _ _ _ => first [assumption | apply QP_sub; [assumption|first [apply incl_tl_self|apply incl_refl]]]
  | |- WP _ _ => eapply WP_upd; eauto; intros ic Hic; unfold w_call in Hic; cbn [wp] in Hic;
           try discriminate Hic; try (inversion Hic; subst; apply Hcall; reflexivity)
  | |- PP _ _ => first [assumption | apply PP_app; assumption | apply PP_upd; [assumption|] ]
  | |- length _ = _ => try rewrite upd_length; reflexivity
  | |- main _ = _ => reflexivity
  end.
  - inversion Hic; subst.
    match goal with E : qitems _ = Task _ :: _ |- _ => apply (QP_head _ _ _ _ _ _ HQ Hq1 E) end.
  - destruct Hpk as [Hk1 Hk2]. split; cbn [inbox pp]; [|exact Hk2]. intros ic Hic.
    apply in_app_or in Hic. destruct Hic as [Hic|[Hic|[]]]; [apply Hk1; auto|].
    inversion Hic; subst. apply Hcall; reflexivity.
  - destruct Hpk as [Hk1 Hk2]. split; cbn [inbox pp]; assumption.
  - destruct Hpk as [Hk1 Hk2]. split; cbn [inbox pp]; assumption.
  - destruct Hpk as [Hk1 Hk2]. split; cbn [inbox pp]; assumption.
  - destruct Hpk as [Hk1 Hk2]. split; cbn [inbox pp]; assumption.
  - destruct Hpk as [Hk1 Hk2]. split; cbn [inbox pp]; assumption.
  - destruct Hpk as [Hk1 Hk2]. split; cbn [inbox pp]; [|exact Hk2]. intros ic Hic.
    apply in_app_or in Hic. destruct Hic as [Hic|[Hic|[]]]; [apply Hk1; auto|discriminate Hic].
  - destruct Hpk as [Hk1 Hk2]. split; cbn [inbox pp]; assumption.
  - destruct Hpk as [Hk1 Hk2]. split; cbn [inbox pp]; [|exact Hk2]. intros ic Hic.
    apply in_app_or in Hic. destruct Hic as [Hic|[Hic|[]]]; [apply Hk1; auto|discriminate Hic].
  - destruct Hpk as [Hk1 Hk2]. split; cbn [inbox pp]; assumption.
Qed.

Lemma p_step_str : forall P1 c s k s' l, p_step c s k = Some (s', l) -> PP P1 (ps s) ->
  PP P1 (ps s') /\ queues s' = queues s /\ ws s' = ws s /\ main s' = main s /\
  (forall i, l = LBody i -> P1 i).
Proof.
  intros P1 c s k s' l H HP. unfold p_step in H.
  destruct (nth_error (ps s) (k - 1)) as [p|] eqn:Hk; [|discriminate].
  assert (Hin : In p (ps s)) by (eapply nth_error_In; eauto).
  destruct (HP p Hin) as [Hk1 Hk2].
  destruct (Nat.eqb k 0); [discriminate|].
  destruct (pp p) eqn:Hpp; destr_all H; try discriminate H; inversion H; subst; clear H; unf;
  (split; [apply PP_upd; [assumption|]; split; cbn [inbox pp]|]);
  try (repeat split; intros ic Hic; discriminate Hic).
  all: try (intros ic Hic; try discriminate Hic).
  all: try (apply Hk1; auto; fail).
  all: try match goal with E : inbox _ = _ |- _ => rewrite E in Hk1 end.
  all: try (apply Hk1; right; exact Hic).
  all: try (inversion Hic; subst; apply Hk1; left; reflexivity).
  repeat split. intros ic Hic. inversion Hic; subst. apply Hk2; reflexivity.
Qed.

Definition DP (P1 : nat -> Prop) (dp : dpc) : Prop := forall i, dp = DPutTask i -> P1 i.
Definition QL (s : state) (dp : dpc) : Prop :=
  1 <= length (queues s) /\ ((main s = MBegin /\ dp = DNone) \/ 2 <= length (queues s)).

Lemma disp_after_puts : forall P1 c x i, DP P1 (disp (after_puts c x i)).
Proof.
  intros P1 c x i j H. unfold after_puts in H. destruct (must_wait c (active x) i).
  - destruct (active x); discriminate H.
  - discriminate H.
Qed.

Lemma d_step_str : forall P0 P1 c x x' l, d_step c 1 x = Some (x', l) ->
  QP P0 P1 (queues (base x)) -> WP P1 (ws (base x)) -> PP P1 (ps (base x)) -> DP P1 (disp x) ->
  QL (base x) (disp x) ->
  QP P0 P1 (queues (base x')) /\ WP P1 (ws (base x')) /\ PP P1 (ps (base x')) /\ DP P1 (disp x') /\
  QL (base x') (disp x').
Proof.
  intros P0 P1 c x x' l H HQ HW HP HD [HL1 HL2]. unfold d_step in H. cbv zeta in H.
  assert (HL : disp x <> DNone -> 2 <= length (queues (base x))).
  { intros Hn. destruct HL2 as [[_ HL2]|HL2]; [contradiction|exact HL2]. }
  destruct (disp x) eqn:Hdp; try discriminate H; specialize (HL ltac:(discriminate));
  destr_all H; try discriminate H; inversion H; subst; clear H;
  rewrite ?base_after_puts; unf; cbn [base disp active launched set_base set_disp] in *;
  rewrite ?base_after_puts; cbn [base disp active launched set_base set_disp queues futs subm main ops closed ws ps outs] in *;
  unfold QL; rewrite ?base_after_puts; cbn [base queues main];
  repeat match goal with |- _ /\ _ => split end;
  try match goal with
  | |- QP _ _ _ => first [assumption | apply QP_app | idtac];
                   first [assumption | apply QP_sub; [assumption|first [apply incl_tl_self|apply incl_refl]]
                         | apply QP_put; [assumption|intros Hz; lia|intros _; simpl; try exact I; apply HD; reflexivity] ]
  | |- WP _ _ => first [assumption | apply WP_app; [assumption|lia]]
  | |- PP _ _ => assumption
  | |- DP _ (disp (after_puts _ _ _)) => apply disp_after_puts
  | |- DP _ _ => intros ic Hic; try discriminate Hic
  | |- 1 <= length _ => rewrite ?app_length, ?upd_length; simpl; lia
  | |- _ \/ 2 <= length _ => right; rewrite ?app_length, ?upd_length; simpl; lia
  end.
  inversion Hic; subst.
  match goal with E : qitems _ = Task _ :: _ |- _ => apply (QP_head _ _ _ _ _ _ HQ (le_n 1) E) end.
Qed.


(* ====================== part 4 ====================== *)

Definition lP0 (P0 : nat -> Prop) (l : list (nat * list nat)) : Prop := forall e, In e l -> P0 (fst e).
Definition kP0 (P0 : nat -> Prop) (k : rcont) : Prop :=
  match k with KTd => True | KScan pre post _ _ => lP0 P0 pre /\ lP0 P0 post end.
Definition rP0 (P0 : nat -> Prop) (r : rpc) : Prop :=
  match r with
  | RCheck i _ _ => P0 i
  | RRes i _ k | RFwd i k | RFailSrnc i k | RFailSet i k => P0 i /\ kP0 P0 k
  | RScan pre cur _ _ _ post _ _ => lP0 P0 pre /\ P0 cur /\ lP0 P0 post
  | _ => True
  end.
Definition RP (P0 : nat -> Prop) (d : dstate) : Prop := lP0 P0 (rwait d) /\ rP0 P0 (rp d).

Lemma lP0_nil : forall P0, lP0 P0 [].
Proof. intros P0 e []. Qed.

Lemma lP0_app : forall P0 l1 l2, lP0 P0 l1 -> lP0 P0 l2 -> lP0 P0 (l1 ++ l2).
Proof. intros P0 l1 l2 H1 H2 e He. apply in_app_or in He. destruct He; auto. Qed.

Lemma lP0_one : forall (P0 : nat -> Prop) i di, P0 i -> lP0 P0 [(i, di)].
Proof. intros P0 i di H e [He|[]]. subst. exact H. Qed.

Lemma lP0_cons_inv : forall P0 j dj l, lP0 P0 ((j, dj) :: l) -> P0 j /\ lP0 P0 l.
Proof.
  intros P0 j dj l H. split. apply (H (j, dj)). left; reflexivity. intros e He. apply H. right; auto.
Qed.

Lemma RP_inner_shut : forall P0 c d w, lP0 P0 (rwait d) -> RP P0 (inner_shut_start c d w).
Proof. intros P0 c d w H. unfold inner_shut_start. destruct (dinner c); split; simpl; auto. Qed.

Lemma RP_start_pass : forall P0 c d a, lP0 P0 (rwait d) -> RP P0 (start_pass c d a).
Proof.
  intros P0 c d a H. unfold start_pass. destruct (rwait d) as [|[j dj] r] eqn:E.
  - destruct a. split; simpl; auto. rewrite E; auto. apply RP_inner_shut. rewrite E. auto.
  - destruct (lP0_cons_inv _ _ _ _ H) as [H1 H2]. split; simpl. rewrite E; auto.
    split; [apply lP0_nil|split; auto].
Qed.

Lemma RP_scan_next : forall P0 c d pre post n0 a, lP0 P0 (rwait d) -> lP0 P0 pre -> lP0 P0 post ->
  RP P0 (scan_next c d pre post n0 a).
Proof.
  intros P0 c d pre post n0 a Hw Hpre Hpost. unfold scan_next. destruct post as [|[j dj] r].
  - destruct a; destruct (Nat.eqb (length pre) n0); try (split; simpl; auto; fail).
    apply RP_start_pass. simpl. auto.
  - destruct (lP0_cons_inv _ _ _ _ Hpost) as [H1 H2]. split; simpl; auto.
Qed.

Lemma RP_kont : forall P0 c d k, lP0 P0 (rwait d) -> kP0 P0 k -> RP P0 (kont c d k).
Proof.
  intros P0 c d k Hw Hk. destruct k as [|pre post n0 a]; simpl.
  - split; simpl; auto.
  - destruct Hk. apply RP_scan_next; auto.
Qed.

Lemma RP_aid : forall (P0 : nat -> Prop) d i deps k, lP0 P0 (rwait d) -> P0 i -> kP0 P0 k ->
  RP P0 (after_inputs_done d i deps k).
Proof.
  intros P0 d i deps k Hw Hi Hk. unfold after_inputs_done. destruct deps; split; simpl; auto.
Qed.

Lemma QP_head0 : forall P0 P1 qs it rest, QP P0 P1 qs ->
  qitems (nth 0 qs (mkQ [] 0)) = it :: rest -> itP P0 it.
Proof. intros P0 P1 qs it rest [H0 _] E. apply H0. rewrite E. left; reflexivity. Qed.

Lemma r_step_str : forall P0 P1 c d d' l, r_step c d = Some (d', l) ->
  QP P0 P1 (queues (dbase d)) -> RP P0 d -> (forall i k, rp d = RFwd i k -> P1 i) ->
  QP P0 P1 (queues (dbase d')) /\ RP P0 d' /\
  ws (dbase d') = ws (dbase d) /\ ps (dbase d') = ps (dbase d) /\ main (dbase d') = main (dbase d) /\
  length (queues (dbase d')) = length (queues (dbase d)) /\ disp (xs d') = disp (xs d).
Proof.
  intros P0 P1 c d d' l H HQ [Hw Hr] Hfwd. unfold r_step in H. cbv zeta in H.
  destruct (rp d) eqn:Hrp; simpl in Hr; destr_all H; try discriminate H; inversion H; subst; clear H;
  (split; [xsn; unf;
           first [assumption
                 | apply QP_sub; [assumption|first [apply incl_tl_self|apply incl_refl]]
                 | apply QP_put; [assumption|intros Hz; discriminate Hz|intros _; simpl; try exact I; eapply Hfwd; reflexivity] ]
          |]);
  (split; [ | xsn; unf; rewrite ?upd_length; repeat split; first [reflexivity | assumption | symmetry; assumption] ]);
  try (apply RP_start_pass; exact Hw);
  try (apply RP_kont; simpl; tauto);
  try (apply RP_aid; simpl; tauto);
  try (split; simpl; tauto).
  - match goal with E : qitems _ = Task _ :: _ |- _ => pose proof (QP_head0 _ _ _ _ _ HQ E) as Hh end.
    split; simpl; auto.
  - match goal with E : qitems _ = Task _ :: _ |- _ => pose proof (QP_head0 _ _ _ _ _ HQ E) as Hh end.
    split; simpl; auto.
  - split; simpl; auto. apply lP0_app; auto. apply lP0_one; auto.
  - destruct Hr as (H1 & H2 & H3). apply RP_scan_next; auto. apply lP0_app; auto. apply lP0_one; auto.
Qed.

Lemma m_done_queues : forall s x cl, queues (m_done s x cl) = queues s.
Proof. intros. apply m_goto_queues. Qed.
Lemma m_done_ws : forall s x cl, ws (m_done s x cl) = ws s.
Proof. intros. apply m_goto_ws. Qed.
Lemma m_done_ps : forall s x cl, ps (m_done s x cl) = ps s.
Proof. intros. apply m_goto_ps. Qed.

Lemma xm_norm_frame : forall x,
  queues (base (xm_norm x)) = queues (base x) /\ ws (base (xm_norm x)) = ws (base x) /\
  ps (base (xm_norm x)) = ps (base x) /\ disp (xm_norm x) = disp x.
Proof.
  intros x. unfold xm_norm. cbv zeta. destruct (main (base x)) as [| | | | | |w k|k| |]; auto.
  - destruct k; auto. destruct (cur_wait (base x)); simpl; auto.
    rewrite m_done_queues, m_done_ws, m_done_ps. auto.
  - destruct k; auto.
Qed.

Lemma drain_step_str : forall (P0 P1 : nat -> Prop) s w s' l, drain_step s w = Some (s', l) -> QP P0 P1 (queues s) ->
  QP P0 P1 (queues s') /\ ws s' = ws s /\ ps s' = ps s /\ length (queues s') = length (queues s).
Proof.
  intros P0 P1 s w s' l H HQ. unfold drain_step in H. destr_all H; try discriminate H; inversion H; subst; unf;
  rewrite upd_length; (split; [apply QP_sub; auto; apply incl_tl_self|repeat split; reflexivity]).
Qed.

Lemma xm_step_str : forall (P0 P1 : nat -> Prop) c x x' l, xm_step c x = Some (x', l) ->
  main (base x) <> MBegin -> (forall k, main (base x) <> MStart k) ->
  (forall i, In (OSubmit i) (ops (base x)) -> P0 i) ->
  QP P0 P1 (queues (base x)) ->
  QP P0 P1 (queues (base x')) /\ ws (base x') = ws (base x) /\ ps (base x') = ps (base x) /\
  length (queues (base x')) = length (queues (base x)) /\ disp x' = disp x.
Proof.
  intros P0 P1 c x x' l H Hn1 Hn2 Hops HQ. unfold xm_step in H. cbv zeta in H.
  assert (Hput0 : forall it u, itP P0 it ->
            QP P0 P1 (upd (queues (base x)) 0 (mkQ (qitems (nth 0 (queues (base x)) (mkQ [] 0)) ++ [it]) u))).
  { intros it u Hit. apply QP_put; auto. intros Hz; lia. }
  destruct (main (base x)) eqn:Hm; try congruence; try (exfalso; eapply Hn2; reflexivity).
  - destruct (ops (base x)) as [|o t] eqn:Ho; [discriminate|]. destruct o as [i|i|i|w b| |].
    + inversion H; subst. simpl. rewrite m_done_queues, m_done_ws, m_done_ps. unf. rewrite upd_length.
      split; [|repeat split; auto]. apply Hput0. simpl. apply Hops. left; reflexivity.
    + destruct (fcancel (getf (base x) i)) as [f b]. inversion H; subst. simpl.
      rewrite m_done_queues, m_done_ws, m_done_ps. simpl. split; [|repeat split; auto]. exact HQ.
    + destruct (fdone (getf (base x) i)); [|discriminate]. inversion H; subst. simpl.
      rewrite m_done_queues, m_done_ws, m_done_ps. split; [|repeat split; auto]. exact HQ.
    + destruct b.
      * destruct (drain_step (base x) w) as [[b0 l0]|] eqn:Hd.
        -- inversion H; subst. simpl. destruct (drain_step_str _ _ _ _ _ _ Hd HQ) as (A & B & C & D).
           split; [|repeat split; auto]. exact A.
        -- inversion H; subst. destruct (xm_norm_frame (set_base x (set_main (base x) (MPutShut w 1)))) as (A & B & C & D).
           rewrite A, B, C, D. simpl. split; [|repeat split; auto]. exact HQ.
      * inversion H; subst.
        destruct (xm_norm_frame (set_base x (set_main (qput (base x) 0 (Shut w)) (MPutShut w 0)))) as (A & B & C & D).
        rewrite A, B, C, D. unf. simpl. rewrite upd_length. split; [|repeat split; auto]. apply Hput0. exact I.
    + inversion H; subst.
      destruct (xm_norm_frame (set_base x (set_main (qput (base x) 0 (Shut false)) (MPutShut false 0)))) as (A & B & C & D).
      rewrite A, B, C, D. unf. simpl. rewrite upd_length. split; [|repeat split; auto]. apply Hput0. exact I.
    + inversion H; subst.
      destruct (xm_norm_frame (set_base x (set_main (qput (base x) 0 (Shut true)) (MPutShut true 0)))) as (A & B & C & D).
      rewrite A, B, C, D. unf. simpl. rewrite upd_length. split; [|repeat split; auto]. apply Hput0. exact I.
  - destruct (drain_step (base x) w) as [[b0 l0]|] eqn:Hd.
    + inversion H; subst. simpl. destruct (drain_step_str _ _ _ _ _ _ Hd HQ) as (A & B & C & D).
      split; [|repeat split; auto]. exact A.
    + inversion H; subst. destruct (xm_norm_frame (set_base x (set_main (base x) (MPutShut w 1)))) as (A & B & C & D).
      rewrite A, B, C, D. simpl. split; [|repeat split; auto]. exact HQ.
  - destruct (fcancel (getf (base x) j)) as [f b]. inversion H; subst. simpl. split; [|repeat split; auto]. exact HQ.
  - inversion H; subst. unf. simpl. rewrite upd_length. split; [|repeat split; auto]. apply QP_sub; auto. apply incl_refl.
  - destruct k; [discriminate|]. inversion H; subst.
    destruct (xm_norm_frame (set_base x (set_main (qput (base x) 0 (Shut w)) (MPutShut w k)))) as (A & B & C & D).
    rewrite A, B, C, D. unf. simpl. rewrite upd_length. split; [|repeat split; auto]. apply Hput0. exact I.
  - destruct (ddone (disp x)); [|discriminate]. destruct (disp x) eqn:Hdx; inversion H; subst; simpl;
    rewrite ?m_done_queues, ?m_done_ws, ?m_done_ps; (split; [exact HQ|repeat split; auto]).
  - destruct (Nat.eqb (qunf (getq (base x) 0)) 0); [|discriminate]. inversion H; subst. simpl.
    rewrite m_done_queues, m_done_ws, m_done_ps. split; [|repeat split; auto]. exact HQ.
Qed.

Definition STR (P0 P1 : nat -> Prop) (d : dstate) : Prop :=
  QP P0 P1 (queues (dbase d)) /\ WP P1 (ws (dbase d)) /\ PP P1 (ps (dbase d)) /\
  DP P1 (disp (xs d)) /\ QL (dbase d) (disp (xs d)) /\ RP P0 d.

Lemma QL_keep : forall s dp s' dp', QL s dp -> main s <> MBegin ->
  length (queues s') = length (queues s) -> QL s' dp'.
Proof.
  intros s dp s' dp' [H1 H2] Hm Hl. unfold QL. rewrite Hl. split; auto.
  destruct H2 as [[H2 _]|H2]; [contradiction|auto].
Qed.

Lemma dm_step_str : forall (P0 P1 : nat -> Prop) c d d' l, dm_step c d = Some (d', l) ->
  (forall i, In (OSubmit i) (ops (dbase d)) -> P0 i) -> STR P0 P1 d -> STR P0 P1 d'.
Proof.
  intros P0 P1 c d d' l H Hops (HQ & HW & HP & HD & HL & HR). unfold dbase in *.
  unfold dm_step in H. cbv zeta in H.
  assert (Hxm : main (base (xs d)) <> MBegin -> (forall k, main (base (xs d)) <> MStart k) ->
      match xm_step (dx c) (xs d) with Some (x', l0) => Some (set_xs d x', l0) | None => None end = Some (d', l) ->
      STR P0 P1 d').
  { intros Hn1 Hn2 Hx. destruct (xm_step (dx c) (xs d)) as [[x' l0]|] eqn:Hxs; [|discriminate].
    inversion Hx; subst. destruct (xm_step_str P0 P1 _ _ _ _ Hxs Hn1 Hn2 Hops HQ) as (A & B & C & D & E).
    unfold STR, dbase. simpl. rewrite B, C, E. repeat (split; [assumption|]). split; [|exact HR].
    eapply QL_keep; eauto. }
  destruct (main (base (xs d))) eqn:Hm; try (apply Hxm; [discriminate|intros k0; discriminate|exact H]).
  - destruct HL as [HL1 HL2].
    assert (HQL : forall m, QL (set_main (set_queues (base (xs d)) (queues (base (xs d)) ++ [mkQ [] 0])) m) (disp (xs d))).
    { intros m. unfold QL. simpl. rewrite app_length. simpl. split; [lia|right; lia]. }
    destruct (dinner c) as [[|n]|]; inversion H; subst; unfold STR, dbase; simpl;
    (split; [apply QP_app; assumption|]); repeat (split; [assumption|]); (split; [apply HQL|exact HR]).
  - assert (HL' : 2 <= length (queues (base (xs d)))).
    { destruct HL as [_ [[HL _]|HL]]; [congruence|exact HL]. }
    destruct (dinner c) as [n|].
    + destruct (Nat.ltb k n); inversion H; subst; unfold STR, dbase; simpl.
      * split; [assumption|]. split; [apply WP_app; [assumption|lia]|]. repeat (split; [assumption|]).
        split; [|exact HR]. unfold QL. simpl. split; [lia|right; lia].
      * rewrite m_goto_queues, m_goto_ws, m_goto_ps. repeat (split; [assumption|]).
        split. unfold QL. rewrite m_goto_queues. split; [lia|right; lia].
        destruct HR as [HR1 _]. split; simpl; auto.
    + destruct k; inversion H; subst; unfold STR, dbase; simpl.
      * repeat (split; [assumption|]). split; [intros ic Hic; discriminate Hic|].
        split; [|exact HR]. unfold QL. simpl. split; [lia|right; lia].
      * rewrite m_goto_queues, m_goto_ws, m_goto_ps. repeat (split; [assumption|]).
        split. unfold QL. rewrite m_goto_queues. split; [lia|right; lia].
        destruct HR as [HR1 _]. split; simpl; auto.
  - assert (HL' : 2 <= length (queues (base (xs d)))).
    { destruct HL as [_ [[HL _]|HL]]; [congruence|exact HL]. }
    destruct (rdone (rp d)); [|discriminate]. destruct (rp d) eqn:Hrp; inversion H; subst; unfold STR, dbase; simpl;
    rewrite ?m_done_queues, ?m_done_ws, ?m_done_ps; repeat (split; [assumption|]);
    (split; [unfold QL; simpl; rewrite ?m_done_queues; split; [lia|right; lia]|]);
    destruct HR as [HR1 HR2]; split; simpl; auto; rewrite Hrp; simpl; auto.
Qed.

Lemma drain_nobody : forall s w s' i, drain_step s w = Some (s', LBody i) -> False.
Proof. intros s w s' i H. unfold drain_step in H. destr_all H; try discriminate H; inversion H. Qed.

Lemma xm_step_nobody : forall c x x' i, xm_step c x = Some (x', LBody i) -> False.
Proof.
  intros c x x' i H. unfold xm_step in H. cbv zeta in H.
  destruct (main (base x)); destr_all H; try discriminate H; try (inversion H; fail).
  all: inversion H; subst;
    match goal with E : drain_step _ _ = Some (_, LBody _) |- _ => exact (drain_nobody _ _ _ _ E) end.
Qed.

Lemma dm_step_nobody : forall c d d' i, dm_step c d = Some (d', LBody i) -> False.
Proof.
  intros c d d' i H. unfold dm_step in H. cbv zeta in H.
  destruct (main (base (xs d)));
  try (destruct (xm_step (dx c) (xs d)) as [[x' l0]|] eqn:Hx; [|discriminate]; inversion H; subst;
       eapply xm_step_nobody; eauto);
  destr_all H; try discriminate H; inversion H.
Qed.

Lemma r_step_nobody : forall c d d' i, r_step c d = Some (d', LBody i) -> False.
Proof.
  intros c d d' i H. unfold r_step in H. cbv zeta in H.
  destruct (rp d); destr_all H; try discriminate H; inversion H.
Qed.

Lemma d_step_nobody : forall c q x x' i, d_step c q x = Some (x', LBody i) -> False.
Proof.
  intros c q x x' i H. unfold d_step in H. cbv zeta in H.
  destruct (disp x); destr_all H; try discriminate H; inversion H.
Qed.

Lemma w_step_nobody : forall c s j s' i, w_step c s j = Some (s', LBody i) -> False.
Proof.
  intros c s j s' i H. unfold w_step in H. cbv zeta in H.
  destruct (nth_error (ws s) j) as [w|]; [|discriminate].
  destruct (wp w); destr_all H; try discriminate H; inversion H.
Qed.

Lemma dstep_str : forall (P0 P1 : nat -> Prop) c d t d' l, dstep c d t = Some (d', l) ->
  (forall i, In (OSubmit i) (ops (dbase d)) -> P0 i) ->
  (forall i k, rp d = RFwd i k -> P1 i) ->
  STR P0 P1 d -> STR P0 P1 d' /\ (forall i, l = LBody i -> P1 i).
Proof.
  intros P0 P1 c d t d' l H Hops Hfwd HS. destruct t as [| | |j|k]; simpl in H.
  - split. eapply dm_step_str; eauto. intros i Hl. subst. exfalso. eapply dm_step_nobody; eauto.
  - split; [|intros i Hl; subst; exfalso; eapply r_step_nobody; eauto].
    destruct HS as (HQ & HW & HP & HD & HL & HR).
    destruct (r_step_str P0 P1 _ _ _ _ H HQ HR Hfwd) as (A & B & C & D & E & F & G).
    unfold STR. rewrite C, D, G. repeat (split; [assumption|]). split; [|exact B].
    destruct HL as [HL1 HL2]. unfold QL. rewrite E, F. split; auto.
  - destruct (dinner c); [discriminate|].
    destruct (d_step (dx c) 1 (xs d)) as [[x' l']|] eqn:Hd; [|discriminate]. inversion H; subst.
    split; [|intros i Hl; subst; exfalso; eapply d_step_nobody; eauto].
    destruct HS as (HQ & HW & HP & HD & HL & HR).
    destruct (d_step_str P0 P1 _ _ _ _ Hd HQ HW HP HD HL) as (A & B & C & D & E).
    unfold STR, dbase. simpl. repeat (split; [assumption|]). exact HR.
  - destruct j as [|j]; [discriminate|].
    destruct (w_step (bcfg (dx c)) (dbase d) j) as [[b l']|] eqn:Hw; [|discriminate]. inversion H; subst.
    split; [|intros i Hl; subst; exfalso; eapply w_step_nobody; eauto].
    destruct HS as (HQ & HW & HP & HD & HL & HR).
    destruct (w_step_str P0 P1 _ _ _ _ _ Hw HQ HW HP) as (A & B & C & D & E).
    unfold STR, dbase. simpl. repeat (split; [assumption|]). split; [|exact HR].
    destruct HL as [HL1 HL2]. unfold QL. rewrite D, E. split; auto.
  - destruct (p_step (bcfg (dx c)) (dbase d) k) as [[b l']|] eqn:Hp; [|discriminate]. inversion H; subst.
    destruct HS as (HQ & HW & HP & HD & HL & HR).
    destruct (p_step_str P1 _ _ _ _ _ Hp HP) as (A & B & C & D & E).
    split; [|exact E].
    unfold STR, dbase. simpl. rewrite B, C. repeat (split; [assumption|]). split; [|exact HR].
    destruct HL as [HL1 HL2]. unfold QL. rewrite B, D. split; auto.
Qed.


(* ====================== part 5 ====================== *)

Lemma itP_mono : forall (P P' : nat -> Prop) it, (forall i, P i -> P' i) -> itP P it -> itP P' it.
Proof. intros P P' [i|b] H; simpl; auto. Qed.

Lemma STR_mono : forall (P0 P1 P1' : nat -> Prop) d, (forall i, P1 i -> P1' i) -> STR P0 P1 d -> STR P0 P1' d.
Proof.
  intros P0 P1 P1' d Hm (HQ & HW & HP & HD & HL & HR). unfold STR.
  split; [|split; [|split; [|split; [|split]]]]; auto.
  - destruct HQ as [H0 H1]. split; auto. intros q it Hq Hit. eapply itP_mono; eauto.
  - intros w Hw. destruct (HW w Hw) as [A B]. split; auto.
  - intros p Hp. destruct (HP p Hp) as [A B]. split; intros i Hi; auto.
  - intros i Hi. auto.
Qed.

Lemma STR_init : forall (P0 P1 : nat -> Prop) n prog, STR P0 P1 (dinit n prog).
Proof.
  intros P0 P1 n prog. unfold STR, dinit, dbase. simpl.
  split; [|split; [|split; [|split; [|split]]]].
  - split. intros it []. intros q it Hq Hit. destruct q as [|[|q]]; simpl in Hit; try lia; destruct Hit.
  - intros w [].
  - intros p [].
  - intros i Hi. discriminate Hi.
  - unfold QL. simpl. split; auto.
  - split; simpl; auto. intros e [].
Qed.

Definition Inv3 (c : dcfg) (d : dstate) : Prop :=
  STR (fun _ => True) (fun i => allok (dbase d) (ddeps c i)) d.

Lemma Inv3_step : forall c d t d' l, dstep c d t = Some (d', l) -> RI c d -> Inv3 c d ->
  Inv3 c d' /\ (forall i, l = LBody i -> allok (dbase d) (ddeps c i)).
Proof.
  intros c d t d' l H HRI HI. unfold Inv3 in *.
  destruct (dstep_str (fun _ => True) (fun i => allok (dbase d) (ddeps c i)) _ _ _ _ _ H) as [A B]; auto.
  - intros i k Hk. destruct HRI as [_ HR]. rewrite Hk in HR. simpl in HR. exact (proj1 HR).
  - split; auto. eapply STR_mono; [|exact A]. intros i Hi j Hj. eapply fok_stable; eauto.
Qed.

Lemma Inv3_reach : forall c n prog d, dreach c (dinit n prog) d -> Inv3 c d.
Proof.
  intros c n prog d H. induction H as [|d t d' l Hr IH Hs].
  - apply STR_init.
  - eapply Inv3_step; eauto. eapply RI_reach; eauto.
Qed.

Theorem started_after_inputs : forall c n prog d t d' i,
  wf_prog n prog -> wf_deps c n -> dreach c (dinit n prog) d ->
  dstep c d t = Some (d', LBody i) ->
  forall j, In j (ddeps c i) -> fok (getf (dbase d) j) = true.
Proof.
  intros c n prog d t d' i _ _ Hr Hs.
  destruct (Inv3_step _ _ _ _ _ Hs (RI_reach _ _ _ _ Hr) (Inv3_reach _ _ _ _ Hr)) as [_ H].
  apply H. reflexivity.
Qed.
Print Assumptions started_after_inputs.


(* ====================== part 6 ====================== *)

(* ---------- who is responsible for a Running future ---------- *)
Definition isrun (f : fstate) : bool := match f with FRunning => true | _ => false end.

Definition wown (w : wthread) : option nat :=
  match wp w with
  | WSend i | WRecv i | WSetRes i _
  | WEPoll i | WESend i | WERecv i | WEComm i | WETerm i | WEWait i | WETd i | WESetExc i => Some i
  | _ => None
  end.

Lemma wown_call : forall w i, wown w = Some i -> w_call w = Some i.
Proof. intros w i H. unfold wown, w_call in *. destruct (wp w); try discriminate H; exact H. Qed.

Lemma w_step_own : forall c s j s' l, w_step c s j = Some (s', l) ->
  exists w w', nth_error (ws s) j = Some w /\ ws s' = upd (ws s) j w' /\
    ( (futs s' = futs s /\ forall i1, wown w' = Some i1 -> wown w = Some i1)
      \/ (exists i f, w_call w = Some i /\ futs s' = upd (futs s) (i - 1) f /\
            (forall i1, wown w' = Some i1 -> i1 = i /\ f = FRunning) /\
            (wown w = Some i \/ isrun (getf s i) = false)) ).
Proof.
  intros c s j s' l H. unfold w_step in H.
  destruct (nth_error (ws s) j) as [w|] eqn:Hj; [|discriminate]. cbv zeta in H.
  exists w. unfold wown, w_call.
  destruct (wp w) eqn:Hpc; destr_all H; try discriminate H; inversion H; subst; clear H;
  eexists; (split; [reflexivity|]); (split; [reflexivity|]);
  first [ left; split; [reflexivity|]; intros ic Hic; cbn [wp] in Hic; first [discriminate Hic|exact Hic]
        | right; eexists; eexists; split; [reflexivity|]; split; [reflexivity|]; split;
          [ intros ic Hic; cbn [wp] in Hic; first [discriminate Hic | inversion Hic; subst; split; reflexivity]
          | first [left; reflexivity | right; match goal with E : getf _ _ = _ |- _ => rewrite E; reflexivity end] ] ].
Qed.

Definition OW (fs : list fstate) (wl : list wthread) (r : rpc) : Prop :=
  (forall w i, In w wl -> wown w = Some i -> isrun (nth (i - 1) fs FPending) = true) /\
  (forall j j' w w' i, j <> j' -> nth_error wl j = Some w -> nth_error wl j' = Some w' ->
       wown w = Some i -> wown w' = Some i -> False) /\
  (forall i k, r = RFailSet i k -> isrun (nth (i - 1) fs FPending) = true /\ forall w, In w wl -> wown w <> Some i).

Lemma nth_error_upd_inv : forall A (l : list A) j m x y, nth_error (upd l j x) m = Some y ->
  (m = j /\ y = x) \/ (m <> j /\ nth_error l m = Some y).
Proof.
  intros A l j m x y H. destruct (Nat.eq_dec m j) as [E|E].
  - subst m. left. split; auto.
    assert (Hl : j < length (upd l j x)) by (eapply nth_error_some_lt; eauto).
    rewrite upd_length in Hl. rewrite nth_error_upd_eq in H; auto. congruence.
  - right. split; auto. rewrite nth_error_upd_neq in H; auto.
Qed.

Lemma OW_w_same : forall fs wl r j w w', OW fs wl r -> nth_error wl j = Some w ->
  (forall i1, wown w' = Some i1 -> wown w = Some i1) -> OW fs (upd wl j w') r.
Proof.
  intros fs wl r j w w' (Ha & Hb & Hc) Hj Hsub.
  assert (Hin : In w wl) by (eapply nth_error_In; eauto).
  split; [|split].
  - intros x i Hx Hi. apply In_upd in Hx. destruct Hx as [Hx|Hx].
    + subst x. eapply Ha; eauto.
    + eapply Ha; eauto.
  - intros j1 j2 w1 w2 i Hne H1 H2 Ho1 Ho2.
    apply nth_error_upd_inv in H1. apply nth_error_upd_inv in H2.
    destruct H1 as [[E1 F1]|[E1 F1]]; destruct H2 as [[E2 F2]|[E2 F2]]; subst.
    + congruence.
    + eapply (Hb j j2 w w2 i); eauto.
    + eapply (Hb j1 j w1 w i); eauto.
    + eapply (Hb j1 j2 w1 w2 i); eauto.
  - intros i k Hr. destruct (Hc i k Hr) as [H1 H2]. split; auto.
    intros x Hx Hi. apply In_upd in Hx. destruct Hx as [Hx|Hx].
    + subst x. eapply H2; eauto.
    + eapply H2; eauto.
Qed.

Lemma OW_w_fut : forall fs wl r j w w' i f, OW fs wl r -> nth_error wl j = Some w ->
  1 <= i <= length fs ->
  (forall x i1, In x wl -> wown x = Some i1 -> 1 <= i1) ->
  (forall i1 k, r = RFailSet i1 k -> 1 <= i1) ->
  (forall i1, wown w' = Some i1 -> i1 = i /\ f = FRunning) ->
  (wown w = Some i \/ isrun (nth (i - 1) fs FPending) = false) ->
  OW (upd fs (i - 1) f) (upd wl j w') r.
Proof.
  intros fs wl r j w w' i f (Ha & Hb & Hc) Hj Hi Hr1 Hr2 Hnew Hex.
  assert (Hin : In w wl) by (eapply nth_error_In; eauto).
  assert (K1 : forall m x, m <> j -> nth_error wl m = Some x -> wown x <> Some i).
  { intros m x Hm Hx Ho. destruct Hex as [Hex|Hex].
    - eapply (Hb m j x w i); eauto.
    - rewrite (Ha x i (nth_error_In _ _ Hx) Ho) in Hex. discriminate. }
  assert (K2 : forall k, r <> RFailSet i k).
  { intros k Hk. destruct (Hc i k Hk) as [H1 H2]. destruct Hex as [Hex|Hex].
    - eapply H2; eauto.
    - rewrite H1 in Hex. discriminate. }
  assert (Hkeep : forall i1, 1 <= i1 -> i1 <> i -> nth (i1 - 1) (upd fs (i - 1) f) FPending = nth (i1 - 1) fs FPending).
  { intros i1 H1 H2. apply nth_upd_neq. lia. }
  split; [|split].
  - intros x i1 Hx Ho. apply In_upd_idx in Hx. destruct Hx as [Hx|[m [Hm1 Hm2]]].
    + subst x. destruct (Hnew i1 Ho) as [E1 E2]. subst. rewrite nth_upd_eq by lia. reflexivity.
    + assert (Hne : i1 <> i) by (intros E; subst; eapply K1; eauto).
      rewrite Hkeep; [apply (Ha x i1 (nth_error_In _ _ Hm2) Ho) | apply (Hr1 x i1 (nth_error_In _ _ Hm2) Ho) | exact Hne].
  - intros j1 j2 w1 w2 i1 Hne H1 H2 Ho1 Ho2.
    apply nth_error_upd_inv in H1. apply nth_error_upd_inv in H2.
    destruct H1 as [[E1 F1]|[E1 F1]]; destruct H2 as [[E2 F2]|[E2 F2]]; subst.
    + congruence.
    + destruct (Hnew i1 Ho1) as [E _]. subst. eapply K1; eauto.
    + destruct (Hnew i1 Ho2) as [E _]. subst. eapply K1; eauto.
    + eapply (Hb j1 j2 w1 w2 i1); eauto.
  - intros i1 k Hk. destruct (Hc i1 k Hk) as [H1 H2].
    assert (Hne : i1 <> i) by (intros E; subst; eapply K2; eauto).
    split. rewrite Hkeep; [exact H1|exact (Hr2 i1 k Hk)|exact Hne].
    intros x Hx Ho. apply In_upd_idx in Hx. destruct Hx as [Hx|[m [Hm1 Hm2]]].
    + subst x. destruct (Hnew i1 Ho) as [E _]. contradiction.
    + apply (H2 x (nth_error_In _ _ Hm2) Ho).
Qed.

Lemma isrun_fcancel : forall f, isrun (fst (fcancel f)) = isrun f.
Proof. intros []; reflexivity. Qed.

(* steps that neither create owners nor touch Running futures *)
Lemma OW_soft : forall fs fs' wl wl' r r', OW fs wl r ->
  (forall m, isrun (nth m fs' FPending) = isrun (nth m fs FPending)) ->
  (wl' = wl \/ exists x, wl' = wl ++ [x] /\ wown x = None) ->
  (r' = r \/ forall i k, r' <> RFailSet i k) ->
  OW fs' wl' r'.
Proof.
  intros fs fs' wl wl' r r' (Ha & Hb & Hc) Hf Hw Hr.
  assert (Hin : forall x i, In x wl' -> wown x = Some i -> In x wl).
  { intros x i Hx Ho. destruct Hw as [Hw|[y [Hw Hy]]]; subst; auto.
    apply in_app_or in Hx. destruct Hx as [Hx|[Hx|[]]]; auto. subst. congruence. }
  assert (Hnth : forall m x i, nth_error wl' m = Some x -> wown x = Some i -> nth_error wl m = Some x).
  { intros m x i Hx Ho. destruct Hw as [Hw|[y [Hw Hy]]]; subst; auto.
    destruct (Nat.lt_ge_cases m (length wl)) as [Hl|Hl].
    - rewrite nth_error_app1 in Hx; auto.
    - rewrite nth_error_app2 in Hx; auto. destruct (m - length wl) as [|q]; simpl in Hx.
      + inversion Hx; subst. congruence.
      + destruct q; discriminate Hx. }
  split; [|split].
  - intros x i Hx Ho. rewrite Hf. eapply Ha; eauto.
  - intros j1 j2 w1 w2 i Hne H1 H2 Ho1 Ho2. eapply (Hb j1 j2 w1 w2 i); eauto.
  - intros i k Hk. destruct Hr as [Hr|Hr]; [subst r'|exfalso; eapply Hr; eauto].
    destruct (Hc i k Hk) as [H1 H2]. split. rewrite Hf; auto.
    intros x Hx Ho. eapply H2; eauto.
Qed.

Definition nofs (r : rpc) : Prop := forall i k, r <> RFailSet i k.

Lemma nofs_inner_shut : forall c d w, nofs (rp d) -> nofs (rp (inner_shut_start c d w)).
Proof. intros c d w H. unfold inner_shut_start. destruct (dinner c); simpl; intros i k E; discriminate E. Qed.

Lemma nofs_start_pass : forall c d a, nofs (rp (start_pass c d a)).
Proof.
  intros c d a. unfold start_pass. destruct (rwait d) as [|[j dj] r].
  - destruct a; simpl. intros i k E; discriminate E.
    unfold inner_shut_start. destruct (dinner c); simpl; intros i k E; discriminate E.
  - simpl. intros i k E; discriminate E.
Qed.

Lemma nofs_scan_next : forall c d pre post n0 a, nofs (rp (scan_next c d pre post n0 a)).
Proof.
  intros c d pre post n0 a. unfold scan_next. destruct post as [|[j dj] r].
  - destruct a; destruct (Nat.eqb (length pre) n0); simpl; try (intros i k E; discriminate E).
    apply nofs_start_pass.
  - simpl. intros i k E; discriminate E.
Qed.

Lemma nofs_kont : forall c d k, nofs (rp (kont c d k)).
Proof. intros c d k. destruct k; simpl. intros i k E; discriminate E. apply nofs_scan_next. Qed.

Lemma nofs_aid : forall d i deps k, nofs (rp (after_inputs_done d i deps k)).
Proof. intros d i deps k. unfold after_inputs_done. destruct deps; simpl; intros i0 k0 E; discriminate E. Qed.

Lemma r_step_own : forall c d d' l, r_step c d = Some (d', l) ->
  (futs (dbase d') = futs (dbase d) /\ nofs (rp d')) \/
  (exists i k0 f, ((rp d = RFailSrnc i k0 /\ isrun (getf (dbase d) i) = false) \/ rp d = RFailSet i k0) /\
      futs (dbase d') = upd (futs (dbase d)) (i - 1) f /\
      (forall i1 k, rp d' = RFailSet i1 k -> i1 = i /\ f = FRunning)).
Proof.
  intros c d d' l H. unfold r_step in H. cbv zeta in H.
  destruct (rp d) eqn:Hrp; destr_all H; try discriminate H; inversion H; subst; clear H;
  first [ left; split; [xsn; reflexivity|];
          first [apply nofs_start_pass | apply nofs_kont | apply nofs_aid | apply nofs_scan_next
                | simpl; intros ic kc E; discriminate E]
        | right; eexists; eexists; eexists; split;
          [ first [left; split; [reflexivity|match goal with E : getf _ _ = _ |- _ => rewrite E; reflexivity end]
                  | right; reflexivity]
          | split; [xsn; reflexivity|];
            first [ intros ic kc E; exfalso; revert E; first [apply nofs_kont|simpl; discriminate]
                  | simpl; intros ic kc E; inversion E; subst; split; reflexivity ] ] ].
Qed.

Lemma OW_r_fut : forall fs wl r r' i f, OW fs wl r ->
  (forall x, In x wl -> wown x <> Some i) ->
  1 <= i <= length fs ->
  (forall x i1, In x wl -> wown x = Some i1 -> 1 <= i1) ->
  (forall i1 k, r' = RFailSet i1 k -> i1 = i /\ f = FRunning) ->
  OW (upd fs (i - 1) f) wl r'.
Proof.
  intros fs wl r r' i f (Ha & Hb & Hc) Hno Hi Hr1 Hnew.
  split; [|split].
  - intros x i1 Hx Ho. assert (Hne : i1 <> i) by (intros E; subst; eapply Hno; eauto).
    rewrite nth_upd_neq. eapply Ha; eauto. specialize (Hr1 x i1 Hx Ho). lia.
  - exact Hb.
  - intros i1 k Hk. destruct (Hnew i1 k Hk) as [E1 E2]. subst. split.
    + rewrite nth_upd_eq by lia. reflexivity.
    + exact Hno.
Qed.

Definition fshape (s s' : state) : Prop :=
  futs s' = futs s \/ exists i, futs s' = upd (futs s) (i - 1) (fst (fcancel (getf s i))).

Lemma fshape_isrun : forall s s', fshape s s' ->
  (forall m, isrun (nth m (futs s') FPending) = isrun (nth m (futs s) FPending)) /\
  length (futs s') = length (futs s).
Proof.
  intros s s' [H|[i H]]; rewrite H.
  - split; auto.
  - split. intros m. apply nth_upd_f. unfold getf. apply isrun_fcancel. apply upd_length.
Qed.

Lemma m_done_ops : forall s x cl o, In o (ops (m_done s x cl)) -> In o (ops s).
Proof. intros s x cl o H. unfold m_done in H. apply m_goto_ops in H. apply In_tl; auto. Qed.

Lemma xm_norm_ops : forall x o, In o (ops (base (xm_norm x))) -> In o (ops (base x)).
Proof.
  intros x o. unfold xm_norm. cbv zeta. destruct (main (base x)) as [| | | | | |w k|k| |]; auto.
  - destruct k; auto. destruct (cur_wait (base x)); simpl; auto. apply m_done_ops.
  - destruct k; auto.
Qed.

Lemma drain_step_ops : forall s w s' l, drain_step s w = Some (s', l) -> ops s' = ops s.
Proof. intros s w s' l H. unfold drain_step in H. destr_all H; inversion H; subst; reflexivity. Qed.

Lemma xm_step_shape : forall c x x' l, xm_step c x = Some (x', l) ->
  main (base x) <> MBegin -> (forall k, main (base x) <> MStart k) ->
  fshape (base x) (base x') /\ (forall o, In o (ops (base x')) -> In o (ops (base x))).
Proof.
  intros c x x' l H Hn1 Hn2. unfold xm_step in H. cbv zeta in H.
  destruct (main (base x)) eqn:Hm; try congruence; try (exfalso; eapply Hn2; reflexivity).
  - destruct (ops (base x)) as [|o t] eqn:Ho; [discriminate|]. destruct o as [i|i|i|w b| |].
    + inversion H; subst. simpl. split. left. rewrite m_done_futs. reflexivity.
      intros o Hin. apply m_done_ops in Hin. simpl in Hin; try rewrite Ho in Hin; exact Hin.
    + destruct (fcancel (getf (base x) i)) as [f b] eqn:Hf. inversion H; subst. simpl. split.
      right. exists i. rewrite m_done_futs. simpl. rewrite Hf. reflexivity.
      intros o Hin. apply m_done_ops in Hin. simpl in Hin; try rewrite Ho in Hin; exact Hin.
    + destruct (fdone (getf (base x) i)); [|discriminate]. inversion H; subst. simpl. split.
      left. rewrite m_done_futs. reflexivity. intros o Hin. apply m_done_ops in Hin. simpl in Hin; try rewrite Ho in Hin; exact Hin.
    + destruct b.
      * destruct (drain_step (base x) w) as [[b0 l0]|] eqn:Hd.
        -- inversion H; subst. simpl. split. left. eapply drain_step_futs; eauto.
           rewrite (drain_step_ops _ _ _ _ Hd). rewrite Ho. auto.
        -- inversion H; subst. split. left. rewrite xm_norm_futs. reflexivity.
           intros o Hin. apply xm_norm_ops in Hin. simpl in Hin; try rewrite Ho in Hin; exact Hin.
      * inversion H; subst. split. left. rewrite xm_norm_futs. reflexivity.
        intros o Hin. apply xm_norm_ops in Hin. simpl in Hin; try rewrite Ho in Hin; exact Hin.
    + inversion H; subst. split. left. rewrite xm_norm_futs. reflexivity.
      intros o Hin. apply xm_norm_ops in Hin. simpl in Hin; try rewrite Ho in Hin; exact Hin.
    + inversion H; subst. split. left. rewrite xm_norm_futs. reflexivity.
      intros o Hin. apply xm_norm_ops in Hin. simpl in Hin; try rewrite Ho in Hin; exact Hin.
  - destruct (drain_step (base x) w) as [[b0 l0]|] eqn:Hd.
    + inversion H; subst. simpl. split. left. eapply drain_step_futs; eauto.
      rewrite (drain_step_ops _ _ _ _ Hd). auto.
    + inversion H; subst. split. left. rewrite xm_norm_futs. reflexivity.
      intros o Hin. apply xm_norm_ops in Hin. simpl in Hin; try rewrite Ho in Hin; exact Hin.
  - destruct (fcancel (getf (base x) j)) as [f b] eqn:Hf. inversion H; subst. simpl. split; auto.
    right. exists j. rewrite Hf. reflexivity.
  - inversion H; subst. simpl. split; auto. left; reflexivity.
  - destruct k; [discriminate|]. inversion H; subst. split. left. rewrite xm_norm_futs. reflexivity.
    intros o Hin. apply xm_norm_ops in Hin. simpl in Hin; try rewrite Ho in Hin; exact Hin.
  - destruct (ddone (disp x)); [|discriminate]. destruct (disp x); inversion H; subst; simpl;
    (split; [left; rewrite ?m_done_futs; reflexivity|]); auto; intros o Hin; apply m_done_ops in Hin; simpl in Hin; try rewrite Ho in Hin; exact Hin.
  - destruct (Nat.eqb (qunf (getq (base x) 0)) 0); [|discriminate]. inversion H; subst. simpl.
    split. left. rewrite m_done_futs. reflexivity. intros o Hin. apply m_done_ops in Hin. simpl in Hin; try rewrite Ho in Hin; exact Hin.
Qed.

Lemma QP_true : forall qs, QP (fun _ => True) (fun _ => True) qs.
Proof. intros qs. split; [intros [i|b] _|intros q [i|b] _ _]; exact I. Qed.

Definition wshape (s s' : state) : Prop :=
  ws s' = ws s \/ exists x, ws s' = ws s ++ [x] /\ wown x = None.

Lemma dm_step_shape : forall c d d' l, dm_step c d = Some (d', l) ->
  fshape (dbase d) (dbase d') /\
  (forall o, In o (ops (dbase d')) -> In o (ops (dbase d)) \/ o = ODrop) /\
  wshape (dbase d) (dbase d').
Proof.
  intros c d d' l H. unfold dm_step in H. cbv zeta in H. unfold dbase.
  assert (Hxm : main (base (xs d)) <> MBegin -> (forall k, main (base (xs d)) <> MStart k) ->
      match xm_step (dx c) (xs d) with Some (x', l0) => Some (set_xs d x', l0) | None => None end = Some (d', l) ->
      fshape (base (xs d)) (base (xs d')) /\
      (forall o, In o (ops (base (xs d'))) -> In o (ops (base (xs d))) \/ o = ODrop) /\
      wshape (base (xs d)) (base (xs d'))).
  { intros Hn1 Hn2 Hx. destruct (xm_step (dx c) (xs d)) as [[x' l0]|] eqn:Hxs; [|discriminate].
    inversion Hx; subst. simpl. destruct (xm_step_shape _ _ _ _ Hxs Hn1 Hn2) as [A B].
    destruct (xm_step_str (fun _ => True) (fun _ => True) _ _ _ _ Hxs Hn1 Hn2 (fun _ _ => I) (QP_true _)) as (_ & C & _).
    split; auto. split; auto. left; exact C. }
  destruct (main (base (xs d))) eqn:Hm; try (apply Hxm; [discriminate|intros k0; discriminate|exact H]).
  - destruct (dinner c) as [[|n]|]; inversion H; subst; simpl;
    (split; [left; reflexivity|split; [auto|left; reflexivity]]).
  - destruct (dinner c) as [n|].
    + destruct (Nat.ltb k n); inversion H; subst; simpl.
      * split; [left; reflexivity|split; [auto|]]. right. eexists. split; reflexivity.
      * split; [left; apply m_goto_futs|split; [|left; apply m_goto_ws]].
        intros o Ho. apply m_goto_ops in Ho. apply in_app_or in Ho. destruct Ho as [Ho|[Ho|[]]]; auto.
    + destruct k; inversion H; subst; simpl.
      * split; [left; reflexivity|split; [auto|left; reflexivity]].
      * split; [left; apply m_goto_futs|split; [|left; apply m_goto_ws]].
        intros o Ho. apply m_goto_ops in Ho. apply in_app_or in Ho. destruct Ho as [Ho|[Ho|[]]]; auto.
  - destruct (rdone (rp d)); [|discriminate]. destruct (rp d); inversion H; subst; simpl;
    (split; [left; rewrite ?m_done_futs; reflexivity|split; [|left; rewrite ?m_done_ws; reflexivity]]);
    auto; intros o Ho; apply m_done_ops in Ho; auto.
Qed.

Lemma d_step_shape : forall c q x x' l, d_step c q x = Some (x', l) ->
  wshape (base x) (base x') /\ ops (base x') = ops (base x).
Proof.
  intros c q x x' l H. unfold d_step in H. cbv zeta in H.
  destruct (disp x); destr_all H; try discriminate H; inversion H; subst; clear H;
  rewrite ?base_after_puts; simpl; (split; [|reflexivity]);
  first [left; reflexivity | right; eexists; split; reflexivity].
Qed.

Lemma w_step_ops : forall c s j s' l, w_step c s j = Some (s', l) ->
  ops s' = ops s /\ length (futs s') = length (futs s).
Proof.
  intros c s j s' l H. unfold w_step in H.
  destruct (nth_error (ws s) j) as [w|]; [|discriminate]. cbv zeta in H.
  destruct (wp w); destr_all H; try discriminate H; inversion H; subst; clear H; unf;
  rewrite ?upd_length; split; reflexivity.
Qed.

Lemma p_step_ops : forall c s k s' l, p_step c s k = Some (s', l) -> ops s' = ops s.
Proof.
  intros c s k s' l H. unfold p_step in H. destr_all H; try discriminate H; inversion H; subst; reflexivity.
Qed.

Lemma r_step_ops : forall c d d' l, r_step c d = Some (d', l) ->
  ops (dbase d') = ops (dbase d) /\ length (futs (dbase d')) = length (futs (dbase d)).
Proof.
  intros c d d' l H. unfold r_step in H. cbv zeta in H.
  destruct (rp d); destr_all H; try discriminate H; inversion H; subst; clear H; xsn; unf;
  rewrite ?upd_length; split; reflexivity.
Qed.


(* ====================== part 7 ====================== *)

Definition rng (n i : nat) : Prop := 1 <= i <= n.

Definition Inv4 (c : dcfg) (n : nat) (d : dstate) : Prop :=
  STR (rng n) (rng n) d /\ (forall i, In (OSubmit i) (ops (dbase d)) -> rng n i) /\
  length (futs (dbase d)) = n /\ OW (futs (dbase d)) (ws (dbase d)) (rp d).

Lemma r_step_ws : forall c d d' l, r_step c d = Some (d', l) -> ws (dbase d') = ws (dbase d).
Proof.
  intros c d d' l H. unfold r_step in H. cbv zeta in H.
  destruct (rp d); destr_all H; try discriminate H; inversion H; subst; clear H; xsn; unf; reflexivity.
Qed.

Lemma Inv4_step : forall c n d t d' l, dstep c d t = Some (d', l) -> Inv4 c n d -> Inv4 c n d'.
Proof.
  intros c n d t d' l H (HS & Hops & Hlen & HO).
  pose proof HS as (HQ & HW & HP & HD & HL & HR).
  assert (Hfwd : forall i k, rp d = RFwd i k -> rng n i).
  { intros i k Hk. destruct HR as [_ HR]. rewrite Hk in HR. simpl in HR. tauto. }
  destruct (dstep_str (rng n) (rng n) _ _ _ _ _ H Hops Hfwd HS) as [HS' _].
  assert (Hr1 : forall x i1, In x (ws (dbase d)) -> wown x = Some i1 -> rng n i1).
  { intros x i1 Hx Ho. destruct (HW x Hx) as [_ Hc]. apply Hc. apply wown_call; auto. }
  assert (Hr2 : forall i1 k, rp d = RFailSet i1 k -> rng n i1).
  { intros i1 k Hk. destruct HR as [_ HR]. rewrite Hk in HR. simpl in HR. tauto. }
  split; [exact HS'|]. clear HS'.
  destruct t as [| | |j|k]; simpl in H.
  - (* client *)
    destruct (dm_step_shape _ _ _ _ H) as (A & B & C).
    destruct (fshape_isrun _ _ A) as [A1 A2].
    destruct (other_rp c d TM d' l H ltac:(discriminate)) as [_ Hrp].
    split; [|split].
    + intros i Hi. destruct (B _ Hi) as [Hb|Hb]; [auto|discriminate Hb].
    + rewrite A2. exact Hlen.
    + eapply OW_soft; eauto. destruct Hrp as [Hrp|Hrp]; [left; auto|right]. rewrite Hrp. intros i k E; discriminate E.
  - (* resolver *)
    destruct (r_step_ops _ _ _ _ H) as [A B]. pose proof (r_step_ws _ _ _ _ H) as C.
    split; [rewrite A; exact Hops|]. split; [rewrite B; exact Hlen|]. rewrite C.
    destruct (r_step_own _ _ _ _ H) as [[F N]|(i & k0 & f & Hsrc & F & N)].
    + rewrite F. eapply OW_soft; eauto.
    + rewrite F. destruct HO as (Ha & Hb & Hc).
      assert (Hno : forall x, In x (ws (dbase d)) -> wown x <> Some i).
      { intros x Hx Ho. destruct Hsrc as [[Hs1 Hs2]|Hs1].
        - unfold getf in Hs2. rewrite (Ha x i Hx Ho) in Hs2. discriminate.
        - destruct (Hc i k0 Hs1) as [_ Hn]. eapply Hn; eauto. }
      assert (Hi : rng n i).
      { destruct HR as [_ HR]. destruct Hsrc as [[Hs1 _]|Hs1]; rewrite Hs1 in HR; simpl in HR; tauto. }
      apply (OW_r_fut _ _ (rp d) (rp d') i f (conj Ha (conj Hb Hc)) Hno).
      * unfold rng in Hi. lia.
      * intros x i1 Hx Ho. apply (Hr1 x i1 Hx Ho).
      * exact N.
  - (* dispatcher *)
    destruct (dinner c); [discriminate|].
    destruct (d_step (dx c) 1 (xs d)) as [[x' l']|] eqn:Hd; [|discriminate]. injection H as Ed El; subst d' l.
    destruct (d_step_shape _ _ _ _ _ Hd) as [A B]. pose proof (d_step_futs _ _ _ _ _ Hd) as F.
    unfold dbase in *. simpl. rewrite B, F. split; [exact Hops|]. split; [exact Hlen|].
    eapply OW_soft; eauto.
  - (* worker *)
    destruct j as [|j]; [discriminate|].
    destruct (w_step (bcfg (dx c)) (dbase d) j) as [[b l']|] eqn:Hw; [|discriminate]. injection H as Ed El; subst d' l.
    destruct (w_step_ops _ _ _ _ _ Hw) as [A B].
    unfold dbase in *. simpl. rewrite A, B. split; [exact Hops|]. split; [exact Hlen|].
    destruct (w_step_own _ _ _ _ _ Hw) as (w & w' & Hj & Hws & Hcase). rewrite Hws.
    destruct Hcase as [[F Hsub]|(i & f & Hcall & F & Hnew & Hex)]; rewrite F.
    + eapply OW_w_same; eauto.
    + assert (Hi : rng n i).
      { destruct (HW w (nth_error_In _ _ Hj)) as [_ Hc]. apply Hc; auto. }
      apply (OW_w_fut _ _ (rp d) j w w' i f HO Hj).
      * unfold rng in Hi. lia.
      * intros x i1 Hx Ho. apply (Hr1 x i1 Hx Ho).
      * intros i1 k1 Hk. apply (Hr2 i1 k1 Hk).
      * exact Hnew.
      * destruct Hex as [Hex|Hex]; [left; auto|right; exact Hex].
  - (* process *)
    destruct (p_step (bcfg (dx c)) (dbase d) k) as [[b l']|] eqn:Hp; [|discriminate]. injection H as Ed El; subst d' l.
    destruct (p_step_str (rng n) _ _ _ _ _ Hp HP) as (_ & _ & C & _).
    unfold dbase in *. simpl. rewrite (p_step_ops _ _ _ _ _ Hp), (p_step_futs _ _ _ _ _ Hp), C.
    split; [exact Hops|]. split; [exact Hlen|]. exact HO.
Qed.

Lemma Inv4_init : forall c n prog, wf_prog n prog -> Inv4 c n (dinit n prog).
Proof.
  intros c n prog (W1 & W2 & W3). split; [apply STR_init|]. split; [|split].
  - intros i Hi. apply W2. apply in_submits. exact Hi.
  - simpl. apply repeat_length.
  - simpl. split; [|split].
    + intros w i [].
    + intros j j' w w' i _ Hj. destruct j; discriminate Hj.
    + intros i k E. discriminate E.
Qed.

Lemma Inv4_reach : forall c n prog d, wf_prog n prog -> dreach c (dinit n prog) d -> Inv4 c n d.
Proof.
  intros c n prog d Hwf H. induction H as [|d t d' l Hr IH Hs].
  - apply Inv4_init; auto.
  - eapply Inv4_step; eauto.
Qed.

Lemma r_label_setexc : forall c d d' i, r_step c d = Some (d', LSetExc i) -> exists k, rp d = RFailSet i k.
Proof.
  intros c d d' i H. unfold r_step in H. cbv zeta in H.
  destruct (rp d) eqn:Hrp; destr_all H; try discriminate H; inversion H; subst; eauto.
Qed.

Lemma isrun_inv : forall f, isrun f = true -> f = FRunning.
Proof. intros [] H; try discriminate H; reflexivity. Qed.

Theorem failed_input_fails_call : forall c n prog d d' i,
  wf_prog n prog -> dreach c (dinit n prog) d ->
  dstep c d TR = Some (d', LSetExc i) -> getf (dbase d') i = FExc.
Proof.
  intros c n prog d d' i Hwf Hr Hs. simpl in Hs.
  destruct (r_label_setexc _ _ _ _ Hs) as [k Hk].
  destruct (Inv4_reach _ _ _ _ Hwf Hr) as (HS & _ & Hlen & (_ & _ & Hc)).
  destruct (Hc i k Hk) as [Hrun _]. apply isrun_inv in Hrun.
  destruct HS as (_ & _ & _ & _ & _ & [_ HR]). rewrite Hk in HR. simpl in HR. destruct HR as [[Hi1 Hi2] _].
  unfold r_step in Hs. cbv zeta in Hs. rewrite Hk in Hs. unfold getf in Hs. rewrite Hrun in Hs.
  inversion Hs; subst. unfold dbase. rewrite xs_kont. simpl. unfold getf, setf. simpl.
  apply nth_upd_eq. unfold dbase in *. lia.
Qed.
Print Assumptions failed_input_fails_call.

(* ---------- when the resolver takes the failure path ---------- *)
Definition nofr (r : rpc) : Prop := forall i k, r <> RFailSrnc i k.

Lemma nofr_start_pass : forall c d a, nofr (rp (start_pass c d a)).
Proof.
  intros c d a. unfold start_pass. destruct (rwait d) as [|[j dj] r].
  - destruct a; simpl. intros i k E; discriminate E.
    unfold inner_shut_start. destruct (dinner c); simpl; intros i k E; discriminate E.
  - simpl. intros i k E; discriminate E.
Qed.

Lemma nofr_scan_next : forall c d pre post n0 a, nofr (rp (scan_next c d pre post n0 a)).
Proof.
  intros c d pre post n0 a. unfold scan_next. destruct post as [|[j dj] r].
  - destruct a; destruct (Nat.eqb (length pre) n0); simpl; try (intros i k E; discriminate E).
    apply nofr_start_pass.
  - simpl. intros i k E; discriminate E.
Qed.

Lemma nofr_kont : forall c d k, nofr (rp (kont c d k)).
Proof. intros c d k. destruct k; simpl. intros i k E; discriminate E. apply nofr_scan_next. Qed.

Lemma nofr_aid : forall d i deps k, nofr (rp (after_inputs_done d i deps k)).
Proof. intros d i deps k. unfold after_inputs_done. destruct deps; simpl; intros i0 k0 E; discriminate E. Qed.

Lemma r_step_to_fail : forall c d d' l i k, r_step c d = Some (d', l) -> rp d' = RFailSrnc i k ->
  exists j rest, rp d = RRes i (j :: rest) k /\ fdone (getf (dbase d) j) = true /\ fok (getf (dbase d) j) = false.
Proof.
  intros c d d' l i k H Hk. unfold r_step in H. cbv zeta in H.
  destruct (rp d) eqn:Hrp; destr_all H; try discriminate H; inversion H; subst; clear H;
  try (exfalso; revert Hk;
       first [apply nofr_start_pass | apply nofr_kont | apply nofr_aid | apply nofr_scan_next | simpl; discriminate]).
  simpl in Hk. inversion Hk; subst. eexists; eexists. split; [reflexivity|]. split; assumption.
Qed.

(* R fails call i exactly at the first input, in traversal order, that is finished without a result:
   all inputs before it hold results *)
Theorem failure_path_first_bad_input : forall c n prog d d' l i k,
  wf_prog n prog -> dreach c (dinit n prog) d ->
  dstep c d TR = Some (d', l) -> rp d' = RFailSrnc i k ->
  exists pre j post, ddeps c i = pre ++ j :: post /\
    (forall j', In j' pre -> fok (getf (dbase d) j') = true) /\
    fdone (getf (dbase d) j) = true /\ fok (getf (dbase d) j) = false.
Proof.
  intros c n prog d d' l i k _ Hr Hs Hk. simpl in Hs.
  destruct (r_step_to_fail _ _ _ _ _ _ Hs Hk) as (j & rest & Hrp & Hd & Hf).
  destruct (RI_reach _ _ _ _ Hr) as [_ HR]. rewrite Hrp in HR. simpl in HR.
  destruct HR as [[pre [E Ha]] _]. exists pre, j, rest. auto.
Qed.
Print Assumptions failure_path_first_bad_input.
