(* C19: facts about the regenerated constructor dispatch (Gen.ConfigTop / ConfigInter / ConfigFile). *)
From Coq Require Import ZArith String List Bool.
From EL Require Import Base.Dec Base.PyLib Base.Tac Gen.InputCheck Gen.ConfigInter Gen.ConfigFile Gen.ConfigTop.
Import ListNotations.
Local Open Scope string_scope.

Definition FLOAT := VObj "float" 0.

(* Executor(...) with disable_dependencies=True, no flux/pysqa options, default refresh rate *)
Definition direct (cpu mw backend mc rd hl block f : pyval) : res (pyval * pyval) :=
  Executor_new (VBool false) cpu VNone mw backend VNone mc rd VNone VNone (VBool false) VNone hl block f
               (VBool true) FLOAT (VBool false).

Lemma init_function_refused cpu mw mc hl f backend :
  is_none f = false -> (backend = "local" \/ backend = "slurm_allocation") ->
  direct cpu mw (VStr backend) mc VNone hl (VBool false) f = Err "ValueError".
Proof.
  intros Hf [-> | ->]; unfold direct, Executor_new, create_executor, check_init_function; cbn; rewrite Hf; reflexivity.
Qed.

Lemma unknown_backend_refused cpu mw mc hl block :
  direct cpu mw (VStr "bogus") mc VNone hl block VNone = Err "ValueError".
Proof.
  unfold direct, Executor_new, create_executor, check_init_function. cbn.
  destruct (truthy block); reflexivity.
Qed.

Lemma local_gpus_refused cpu mw mc hl block g :
  (g =? 0)%Z = false ->
  direct cpu mw (VStr "local") mc (VDict [(VStr "gpus_per_core", VInt g)]) hl block VNone = Err "TypeError".
Proof.
  intros Hg. unfold direct, Executor_new, create_executor, check_init_function, check_gpus_per_worker. cbn -[Z.eqb].
  destruct (truthy block); cbn -[Z.eqb]; rewrite Hg; reflexivity.
Qed.

Lemma submission_block_refused rr cpu mw mc hl f backend dd :
  (backend = "slurm_submission" \/ backend = "flux_submission") ->
  Executor_new rr cpu VNone mw (VStr backend) VNone mc VNone VNone VNone (VBool false) VNone hl (VBool true) f dd FLOAT (VBool false)
  = Err "ValueError".
Proof. intros [-> | ->]; reflexivity. Qed.

Lemma slurm_block_needs_limit cpu hl :
  direct cpu VNone (VStr "slurm_allocation") VNone VNone hl (VBool true) VNone = Err "ValueError".
Proof. reflexivity. Qed.

(* what IS accepted: block allocation on the local backend with n workers — for EVERY integer n *)
Definition block_local (n : Z) (hl : pyval) : pyval :=
  VTuple [VStr "InteractiveExecutor";
          VDict [(VStr "max_workers", VInt n);
                 (VStr "executor_kwargs",
                  VDict [(VStr "cores", VInt 1); (VStr "cwd", VNone); (VStr "openmpi_oversubscribe", VBool false);
                         (VStr "cache_directory", VNone); (VStr "hostname_localhost", hl); (VStr "init_function", VNone)]);
                 (VStr "spawner", VStr "MpiExecSpawner")]].


(* the number of worker threads an accepted block-allocation executor is built with *)
Definition workers_of (r : res (pyval * pyval)) : option pyval :=
  match r with
  | Ok (VTuple [VStr "InteractiveExecutor"; VDict d], _) => dict_find (VStr "max_workers") d
  | _ => None
  end.

Lemma block_local_workers_given cpu n hl :
  workers_of (direct cpu (VInt n) (VStr "local") VNone VNone hl (VBool true) VNone) = Some (VInt n).
Proof. reflexivity. Qed.

Lemma block_local_workers_from_cores cpu mc c hl :
  (c =? 0)%Z = false ->
  workers_of (direct cpu VNone (VStr "local") (VInt mc) (VDict [(VStr "cores", VInt c)]) hl (VBool true) VNone)
  = Some (VInt (mc ÷ c)).
Proof.
  intros Hc. unfold direct, Executor_new, create_executor, validate_number_of_cores, check_init_function,
    check_executor, check_nested_flux_executor, check_gpus_per_worker, check_command_line_argument_lst,
    check_pysqa_config_directory, check_plot_dependency_graph, check_refresh_rate, check_pmi.
  cbn -[Z.eqb Z.quot]. rewrite Hc. reflexivity.
Qed.

(* ---- the submit-time check of ExecutorBase.submit (regenerated: Gen.BaseExec) ---- *)
From EL Require Import Proofs.DictFacts Gen.BaseExec.

Definition self_with (mc : pyval) : pyval := sdict [("_max_cores", mc)].

(* a per-call request of more cores than the executor's limit is refused, for every limit
   (zero included) and every request *)
Lemma submit_check_rejects rd c m :
  assoc "cores" rd = Some (VInt c) -> (c >? m)%Z = true ->
  submit_cores_check (self_with (VInt m)) (sdict rd) = Err "ValueError".
Proof.
  intros Hc Hgt. unfold submit_cores_check, self_with. rewrite py_dict_get_s, Hc.
  cbn -[Z.gtb]. rewrite Hgt. reflexivity.
Qed.

Lemma submit_check_accepts rd c m :
  assoc "cores" rd = Some (VInt c) -> (c >? m)%Z = false ->
  submit_cores_check (self_with (VInt m)) (sdict rd) = Ok (VTuple [sdict rd]).
Proof.
  intros Hc Hgt. unfold submit_cores_check, self_with. rewrite py_dict_get_s, Hc.
  cbn -[Z.gtb]. rewrite Hgt. reflexivity.
Qed.

(* ... but it is inert when the executor has no _max_cores (all per-call-process and block
   executors created with disable_dependencies=True) or when the call names no cores *)
Lemma submit_check_inert_without_limit rd :
  submit_cores_check (self_with VNone) (sdict rd) = Ok (VTuple [sdict rd]).
Proof.
  unfold submit_cores_check, self_with. rewrite py_dict_get_s.
  destruct (assoc "cores" rd) as [v|]; cbn; [destruct (is_none v)|]; reflexivity.
Qed.

(* plot_dependency_graph=True needs the dependency resolver: with disable_dependencies=True the
   constructor refuses (whatever backend, limits, block allocation, init function) instead of
   returning an executor that would execute the calls *)
Lemma plot_without_dependencies_refused rr cpu mw b cd mc hl block f :
  Executor_new rr cpu VNone mw (VStr b) cd mc VNone VNone VNone (VBool false) VNone hl block f
               (VBool true) FLOAT (VBool true) = Err "ValueError".
Proof.
  unfold Executor_new. cbn.
  destruct (str_containsb "_submission" b); reflexivity.
Qed.
