(* Rest state of the cached block executor (Model/CacheExec.v) in kill-free runs: when no thread or
   process can take a step, the client has finished, every submitted future is done, every worker
   process has exited and every worker thread has ended.
   Statement: Model/CacheLiveSpec.v (crest_ok_b), tested on 600 replayed multi-session traces.
   Main theorem: cache_rest_state (section 6), for ANY initial directory.  Plan of the proof:
   1. eqv: base states up to the VALUES stored in finished futures / result() outcomes (a hit completes
      the future with the value of the key, not with the call's own value, so ExecSafe's value invariant
      does not hold for cb s); every step of Model/Exec.v is a congruence for eqv (step_eqv).
   2. AI = ExecSafe.Inv /\ ExecLive.Inv on an uncached "shadow" state a with eqv (cb s) a; the hit
      (WSrnc i, Pending -> WTd, Res) preserves both (SI_hit via ExecSafe.inv_wfut, LI_hit).
   3. NCS: no cancellation ever (nocancel), submitted calls are calls of the program.
   4. fs_ok: what each thread knows about the file of its call (miss path: no file; dump: exactly the
      datasets written so far; hit path: the file exists); files of different threads differ
      (canon_inj_on + CacheCancel.two_holders).
   5. KI_cstep: every cstep preserves KI; the three "dead" transitions of the overlay (vanished file,
      failed create_dataset, set_result on a finished/cancelled future) contradict the invariant.
   6. in a stuck state every overlay is CNone (overlay_enabled), so cb s is stuck in Model/Exec.v, so
      is the shadow state, and ExecLive.stuck_shape / quiescent give the goal.
   7. examples: premises satisfiable (miss and hit), nocancel and canon_inj_on are needed. *)
From Coq Require Import List Bool Arith Lia.
From EL Require Import Model.Exec Model.ExecInv Model.StepExec Model.FileExec Model.FileSpec Model.CacheExec Model.CacheSpec Model.CacheLiveSpec.
From EL Require Import Proofs.ExecSafe Proofs.ExecLive Proofs.CacheSafe Proofs.CacheCancel.
Import ListNotations.

(* reachability without killed worker threads *)
Inductive creach_nk (c : ccfg) : cstate -> cstate -> Prop :=
| cnk_refl : forall s, creach_nk c s s
| cnk_step : forall s s' s'' t l, creach_nk c s s' -> cstep c s' t = Some (s'', l) -> creach_nk c s s''.

(* ================================================================== *)
(* 1. values do not matter: states up to the values stored in finished *)
(*    futures and recorded result() outcomes                           *)
(* ================================================================== *)
Definition ef (f : fstate) : fstate := match f with FRes _ => FRes 0 | _ => f end.
Definition eo (o : outcome) : outcome := match o with XRes _ => XRes 0 | _ => o end.
Definition erase (b : state) : state :=
  mkS (queues b) (map ef (futs b)) (subm b) (main b) (ops b) (closed b) (ws b) (ps b) (map eo (outs b)).
Definition eqv (b a : state) : Prop := erase b = erase a.
Definition estep (r : option (state * label)) : option state :=
  match r with Some (b, _) => Some (erase b) | None => None end.

Lemma eqv_fields : forall b a, eqv b a ->
  queues b = queues a /\ subm b = subm a /\ main b = main a /\ ops b = ops a /\ closed b = closed a /\
  ws b = ws a /\ ps b = ps a /\ map ef (futs b) = map ef (futs a) /\ map eo (outs b) = map eo (outs a).
Proof. intros b a H. unfold eqv, erase in H. inversion H. repeat split; assumption. Qed.

Lemma eqv_intro : forall b a,
  queues b = queues a -> subm b = subm a -> main b = main a -> ops b = ops a -> closed b = closed a ->
  ws b = ws a -> ps b = ps a -> map ef (futs b) = map ef (futs a) -> map eo (outs b) = map eo (outs a) -> eqv b a.
Proof. intros b a H1 H2 H3 H4 H5 H6 H7 H8 H9. unfold eqv, erase. congruence. Qed.

Lemma eqv_getf : forall b a i, eqv b a -> ef (getf b i) = ef (getf a i).
Proof.
  intros b a i H. apply eqv_fields in H. destruct H as (_ & _ & _ & _ & _ & _ & _ & H & _).
  unfold getf. rewrite <- (map_nth ef (futs b)), <- (map_nth ef (futs a)), H. reflexivity.
Qed.

Lemma map_upd : forall A B (g : A -> B) l k x, map g (upd l k x) = upd (map g l) k (g x).
Proof. induction l as [|a l IH]; intros [|k] x; simpl; auto. now rewrite IH. Qed.

Lemma ef_fdone : forall f f', ef f = ef f' -> fdone f = fdone f'.
Proof. intros [] [] H; simpl in *; try discriminate H; reflexivity. Qed.
Lemma ef_fcancel : forall f f', ef f = ef f' ->
  ef (fst (fcancel f)) = ef (fst (fcancel f')) /\ snd (fcancel f) = snd (fcancel f').
Proof. intros [] [] H; simpl in *; try discriminate H; auto. Qed.
Lemma ef_outcome : forall f f', ef f = ef f' -> eo (result_outcome f) = eo (result_outcome f').
Proof. intros [] [] H; simpl in *; try discriminate H; auto. Qed.

Lemma is_raise_eo : forall l, existsb is_raise (map eo l) = existsb is_raise l.
Proof. induction l as [|[] l IH]; simpl; auto. Qed.
Lemma eo_raise : forall l l', map eo l = map eo l' -> existsb is_raise l = existsb is_raise l'.
Proof. intros l l' H. rewrite <- (is_raise_eo l), <- (is_raise_eo l'), H. reflexivity. Qed.

Lemma settle_eqv : forall l cl lk sub acc acc2 l' acc' pc,
  map eo acc = map eo acc2 -> settle cl lk sub l acc = (l', acc', pc) ->
  exists acc2', settle cl lk sub l acc2 = (l', acc2', pc) /\ map eo acc' = map eo acc2'.
Proof.
  induction l as [|o t IH]; intros cl lk sub acc acc2 l' acc' pc He H; simpl in *.
  - inversion H; subst. eexists; split; [reflexivity|exact He].
  - assert (Hstop : (o :: t, acc, MOp) = (l', acc', pc) ->
       exists acc2', (o :: t, acc2, MOp) = (l', acc2', pc) /\ map eo acc' = map eo acc2').
    { intros E. inversion E; subst. eexists; split; [reflexivity|exact He]. }
    assert (Hgo : forall x, settle cl lk sub t (acc ++ x) = (l', acc', pc) ->
       exists acc2', settle cl lk sub t (acc2 ++ x) = (l', acc2', pc) /\ map eo acc' = map eo acc2').
    { intros x E. eapply IH; [|exact E]. rewrite !map_app, He. reflexivity. }
    destruct o as [i|i|i|w cf| |]; try (destruct cl; [now apply Hgo|now apply Hstop]);
      try (destruct (mem_nat i sub); [now apply Hstop|now apply Hgo]).
    destruct (cl || lk); [|now apply Hstop]. eapply IH; eauto.
Qed.

Lemma m_goto_eqv : forall s s' l x x' cl, eqv s s' -> map eo x = map eo x' ->
  eqv (m_goto s l x cl) (m_goto s' l x' cl).
Proof.
  intros s s' l x x' cl H Hx. apply eqv_fields in H. destruct H as (H1 & H2 & H3 & H4 & H5 & H6 & H7 & H8 & H9).
  assert (Hacc : map eo (outs s ++ x) = map eo (outs s' ++ x')) by (rewrite !map_app, H9, Hx; reflexivity).
  destruct (m_goto_spec s l x cl) as (l1 & acc1 & pc1 & E1 & S1).
  destruct (m_goto_spec s' l x' cl) as (l2 & acc2 & pc2 & E2 & S2).
  rewrite E1, E2. rewrite (eo_raise _ _ Hacc), H2 in S1.
  destruct (settle_eqv _ _ _ _ _ _ _ _ _ Hacc S1) as (acc2' & S3 & Ha). rewrite S2 in S3. inversion S3; subst.
  apply eqv_intro; simpl; auto.
Qed.

Lemma m_done_eqv : forall s s' x x' cl, eqv s s' -> map eo x = map eo x' -> eqv (m_done s x cl) (m_done s' x' cl).
Proof.
  intros s s' x x' cl H Hx. unfold m_done. pose proof (eqv_fields _ _ H) as (_ & _ & _ & Ho & _). rewrite Ho.
  now apply m_goto_eqv.
Qed.

(* congruence of the field setters *)
Lemma eqv_set : forall (g : state -> state) s s',
  (forall b, erase (g b) = g (erase b)) -> eqv s s' -> eqv (g s) (g s').
Proof. intros g s s' Hg H. unfold eqv in *. rewrite !Hg, H. reflexivity. Qed.

Lemma m_norm_eqv : forall c s s', eqv s s' -> eqv (m_norm c s) (m_norm c s').
Proof.
  intros c s s' H. pose proof (eqv_fields _ _ H) as (H1 & H2 & H3 & H4 & H5 & H6 & H7 & H8 & H9).
  unfold m_norm, cur_wait, cur_silent. rewrite <- H3, <- H4.
  destruct (main s) as [| | | | | |w k|k| |]; try exact H.
  - destruct k; [|exact H].
    destruct (match ops s with OShutdown w0 _ :: _ => w0 | OExit :: _ => true | _ => false end).
    + destruct (Nat.eqb (nworkers c) 0); (apply (eqv_set (fun b => set_main b _)); [reflexivity|exact H]).
    + apply m_done_eqv; [exact H|reflexivity].
  - destruct (Nat.eqb k (nworkers c)); [|exact H]. apply (eqv_set (fun b => set_main b _)); [reflexivity|exact H].
Qed.

Lemma eqv_setf : forall s s' i f f', eqv s s' -> ef f = ef f' ->
  eqv (set_futs s (setf s i f)) (set_futs s' (setf s' i f')).
Proof.
  intros s s' i f f' H Hf. pose proof (eqv_fields _ _ H) as (H1 & H2 & H3 & H4 & H5 & H6 & H7 & H8 & H9).
  apply eqv_intro; simpl; auto. unfold setf. rewrite !map_upd, H8, Hf. reflexivity.
Qed.

Ltac leaf :=
  match goal with
  | |- estep (Some (?x, _)) = estep (Some (?y, _)) => cbn [estep]; apply (f_equal Some); change (eqv x y)
  end.
Ltac ecg g := apply (eqv_set g); [intros ?; reflexivity|].

Lemma drain_eqv : forall s s' w k k', eqv s s' -> estep k = estep k' ->
  estep (match drain_step s w with Some r => Some r | None => k end)
  = estep (match drain_step s' w with Some r => Some r | None => k' end).
Proof.
  intros s s' w k k' H Hk. pose proof (eqv_fields _ _ H) as (H1 & _).
  unfold drain_step, getq. rewrite <- H1.
  destruct (qitems (nth 0 (queues s) (mkQ [] 0))) as [|[j|b] r]; [exact Hk| |]; leaf.
  - ecg (fun b => set_main (qpop b 0) (MDrainCancel w j)). exact H.
  - ecg (fun b => set_main (qpop b 0) (MDrain w)). exact H.
Qed.

Lemma m_step_eqv : forall c s s', eqv s s' -> estep (m_step c s) = estep (m_step c s').
Proof.
  intros c s s' H. pose proof (eqv_fields _ _ H) as (H1 & H2 & H3 & H4 & H5 & H6 & H7 & H8 & H9).
  assert (Hq : getq s' 0 = getq s 0) by (unfold getq; now rewrite H1).
  assert (Hsil : cur_silent s' = cur_silent s) by (unfold cur_silent; now rewrite H4).
  assert (Hput : forall w k, eqv (m_norm c (set_main (qput s 0 (Shut w)) (MPutShut w k)))
                               (m_norm c (set_main (qput s' 0 (Shut w)) (MPutShut w k)))).
  { intros w k. apply m_norm_eqv. ecg (fun b => set_main (qput b 0 (Shut w)) (MPutShut w k)). exact H. }
  assert (Hdr : forall w, estep (match drain_step s w with Some r => Some r
      | None => Some (m_norm c (set_main s (MPutShut w (nworkers c))), LGetNw 0 None) end)
     = estep (match drain_step s' w with Some r => Some r
      | None => Some (m_norm c (set_main s' (MPutShut w (nworkers c))), LGetNw 0 None) end)).
  { intros w. apply drain_eqv; [exact H|]. leaf. apply m_norm_eqv. ecg (fun b => set_main b (MPutShut w (nworkers c))). exact H. }
  unfold m_step. rewrite <- H3. destruct (main s) as [|k| |w|w j|w|w k|k| |] eqn:Hm.
  - rewrite <- H4. destruct (Nat.eqb (nworkers c) 0); leaf.
    + apply m_goto_eqv; [exact H|reflexivity].
    + ecg (fun b => set_main b (MStart 0)). exact H.
  - cbv zeta. destruct (Nat.eqb (S k) (nworkers c)); leaf.
    + replace (ops (set_ws s' (ws s' ++ [mkW 0 0 WBegin]))) with (ops (set_ws s (ws s ++ [mkW 0 0 WBegin]))) by exact H4.
      apply m_goto_eqv; [|reflexivity]. ecg (fun b => set_ws b (ws b ++ [mkW 0 0 WBegin])). exact H.
    + ecg (fun b => set_main (set_ws b (ws b ++ [mkW 0 0 WBegin])) (MStart (S k))). exact H.
  - rewrite <- H4. destruct (ops s) as [|o t] eqn:Ho; [reflexivity|]. destruct o as [i|i|i|w cf| |].
    + cbv zeta. leaf. rewrite <- H5. apply m_done_eqv; [|reflexivity].
      change (eqv (submit_state s i) (submit_state s' i)). ecg (fun b => submit_state b i). exact H.
    + pose proof (ef_fcancel _ _ (eqv_getf s s' i H)) as [Ef Eb].
      destruct (fcancel (getf s i)) as [f b]; destruct (fcancel (getf s' i)) as [f' b']. simpl in Ef, Eb. subst b'.
      leaf. rewrite <- H5. apply m_done_eqv; [now apply eqv_setf|reflexivity].
    + rewrite <- (ef_fdone _ _ (eqv_getf _ _ i H)). destruct (fdone (getf s i)); [|reflexivity].
      leaf. rewrite <- H5. apply m_done_eqv; [exact H|]. simpl. f_equal. apply ef_outcome, eqv_getf, H.
    + destruct cf; [apply Hdr|]. destruct (nworkers c) as [|k].
      * rewrite Hq. destruct (Nat.eqb (qunf (getq s 0)) 0); [|reflexivity]. destruct w; [|reflexivity].
        leaf. apply m_done_eqv; [exact H|reflexivity].
      * leaf. apply Hput.
    + destruct (nworkers c) as [|k]; [reflexivity|]. leaf. apply Hput.
    + destruct (nworkers c) as [|k].
      * rewrite Hq. destruct (Nat.eqb (qunf (getq s 0)) 0); [|reflexivity].
        leaf. apply m_done_eqv; [exact H|reflexivity].
      * leaf. apply Hput.
  - apply Hdr.
  - pose proof (ef_fcancel _ _ (eqv_getf s s' j H)) as [Ef Eb].
    destruct (fcancel (getf s j)) as [f b]; destruct (fcancel (getf s' j)) as [f' b']. simpl in Ef, Eb.
    leaf. apply (eqv_set (fun b => set_main b (MDrainTd w))); [intros ?; reflexivity|]. now apply eqv_setf.
  - leaf. ecg (fun b => set_main (qtd b 0) (MDrain w)). exact H.
  - destruct k as [|k']; [reflexivity|]. leaf. apply Hput.
  - rewrite <- H6. destruct (nth_error (ws s) k) as [wt|]; [|reflexivity].
    destruct (wdone wt); [|reflexivity]. destruct (wdead wt); leaf.
    + apply m_done_eqv; [exact H|reflexivity].
    + apply m_norm_eqv. ecg (fun b => set_main b (MJoin (S k))). exact H.
  - rewrite Hq, Hsil. destruct (Nat.eqb (qunf (getq s 0)) 0); [|reflexivity]. leaf.
    apply m_done_eqv; [exact H|reflexivity].
  - reflexivity.
Qed.

Ltac ecgs s :=
  match goal with
  | |- eqv ?L _ => let g := eval pattern s in L in
                   match g with ?G _ => apply (eqv_set G); [intros ?; reflexivity|] end
  end.
Ltac ecgf :=
  match goal with
  | |- eqv (wpc_to ?x ?j ?w ?pc) (wpc_to ?y ?j ?w ?pc) =>
      apply (eqv_set (fun b => wpc_to b j w pc)); [intros ?; reflexivity|now apply eqv_setf]
  end.

Lemma p_step_eqv : forall c s s' k, eqv s s' -> estep (p_step c s k) = estep (p_step c s' k).
Proof.
  intros c s s' k H. pose proof (eqv_fields _ _ H) as (H1 & H2 & H3 & H4 & H5 & H6 & H7 & H8 & H9).
  unfold p_step. rewrite <- H7. destruct (nth_error (ps s) (k - 1)) as [p|]; [|reflexivity].
  destruct (Nat.eqb k 0); [reflexivity|].
  destruct (pp p); try reflexivity; try (leaf; ecgs s; exact H).
  destruct (inbox p) as [|m t]; [reflexivity|]. destruct m; leaf; ecgs s; exact H.
Qed.

Lemma w_step_eqv : forall c s s' j, eqv s s' -> estep (w_step c s j) = estep (w_step c s' j).
Proof.
  intros c s s' j H. pose proof (eqv_fields _ _ H) as (H1 & H2 & H3 & H4 & H5 & H6 & H7 & H8 & H9).
  assert (Hq : forall q, getq s' q = getq s q) by (intros q; unfold getq; now rewrite H1).
  assert (Hp : forall k, getp s' k = getp s k) by (intros k; unfold getp; now rewrite H7).
  assert (Hl : length (ps s') = length (ps s)) by now rewrite H7.
  unfold w_step. rewrite <- H6. destruct (nth_error (ws s) j) as [w|]; [|reflexivity].
  cbv zeta. rewrite ?Hq, ?Hp. pose proof (fun i => eqv_getf s s' i H) as Hf.
  destruct (wp w) eqn:Hpc.
  - leaf. ecgs s. exact H.
  - leaf. ecgs s. exact H.
  - destruct (qitems (getq s (wq w))) as [|[i|b] r]; [reflexivity| |]; leaf.
    + ecgs s. exact H.
    + ecgs s. exact H.
  - specialize (Hf i). destruct (getf s i), (getf s' i); try discriminate Hf; leaf;
      try (ecgs s; exact H);
      ecgf.
  - leaf. ecgs s. exact H.
  - leaf. ecgs s. exact H.
  - destruct (outbox (getp s (wproc w))) as [|m r]; [reflexivity|].
    destruct m; leaf; ecgs s; exact H.
  - specialize (Hf i). destruct (getf s i), (getf s' i); try discriminate Hf; leaf;
      try (ecgs s; exact H);
      ecgf.
  - leaf. ecgs s. exact H.
  - destruct (palive (getp s (wproc w))); leaf; ecgs s; exact H.
  - leaf. ecgs s. exact H.
  - destruct (outbox (getp s (wproc w))) as [|m r]; [reflexivity|].
    leaf; ecgs s; exact H.
  - destruct (palive (getp s (wproc w))); [reflexivity|]. leaf; ecgs s; exact H.
  - leaf; ecgs s; exact H.
  - destruct (palive (getp s (wproc w))); [reflexivity|]. leaf; ecgs s; exact H.
  - leaf. ecgs s. exact H.
  - specialize (Hf i). destruct (getf s i), (getf s' i); try discriminate Hf; leaf;
      try (ecgs s; exact H);
      ecgf.
  - destruct (palive (getp s (wproc w))); leaf; ecgs s; exact H.
  - leaf. ecgs s. exact H.
  - destruct (outbox (getp s (wproc w))) as [|m r]; [reflexivity|].
    leaf; ecgs s; exact H.
  - destruct (palive (getp s (wproc w))); [reflexivity|]. leaf; ecgs s; exact H.
  - leaf; ecgs s; exact H.
  - destruct (palive (getp s (wproc w))); [reflexivity|]. leaf; ecgs s; exact H.
  - leaf. ecgs s. exact H.
  - destruct (Nat.eqb (qunf (getq s (wq w))) 0); [|reflexivity]. leaf; ecgs s; exact H.
  - reflexivity.
  - reflexivity.
Qed.

Lemma step_eqv : forall c s s' t, eqv s s' -> estep (step c s t) = estep (step c s' t).
Proof.
  intros c s s' t H. destruct t as [| | |j|k]; simpl; try reflexivity.
  - now apply m_step_eqv.
  - destruct j; [reflexivity|now apply w_step_eqv].
  - now apply p_step_eqv.
Qed.

Lemma eqv_sym : forall a b, eqv a b -> eqv b a.
Proof. intros a b H. unfold eqv in *. now symmetry. Qed.

(* ================================================================== *)
(* 2. the invariants of the uncached model (ExecSafe / ExecLive)       *)
(* ================================================================== *)
Definition AI (c : cfg) (n : nat) (a : state) : Prop := ExecSafe.Inv c n a /\ ExecLive.Inv c a.

Lemma AI_step : forall c n a t a' l, nofail c -> 1 <= nworkers c -> AI c n a -> step c a t = Some (a', l) -> AI c n a'.
Proof.
  intros c n a t a' l Hnf Hn [HS HL] Hst. split.
  - eapply ExecSafe.step_inv; eauto.
  - eapply ExecLive.Inv_step; eauto. eapply inv_inv_safe; eauto.
Qed.

Lemma AI_init : forall c n prog, wf_prog n prog -> AI c n (init n prog).
Proof. intros c n prog H. split; [now apply ExecSafe.inv_init|now apply ExecLive.Inv_init]. Qed.

(* the cache hit seen from the uncached model: the future of the call held at set_running_or_notify_cancel
   is completed and the thread goes to task_done *)
Definition hit (a : state) (j : nat) (w : wthread) (i v : nat) : state :=
  wpc_to (set_futs a (setf a i (FRes v))) j w WTd.

Lemma SI_hit : forall c n a j w i, ExecSafe.Inv c n a -> nth_error (ws a) j = Some w -> wp w = WSrnc i ->
  getf a i = FPending -> ExecSafe.Inv c n (hit a j w i i).
Proof.
  intros c n a j w i H Hj Hpc Hf.
  assert (Hca : w_call w = Some i) by (unfold w_call; rewrite Hpc; reflexivity).
  destruct (call_range c n a j w i H Hj Hca) as [Hi _].
  pose proof (I_len _ _ _ H) as Hlen. pose proof (I_wq _ _ _ H j w Hj) as Hwq0.
  pose proof (I_chan _ _ _ H j w Hj) as Hc.
  unfold hit, wpc_to, set_w, set_ws, set_futs, setf. cbn [queues futs subm main ops closed ws ps outs]. rewrite Hwq0.
  eapply (inv_wfut _ _ _ _ _ _ i _ _ H Hj Hca).
  - apply ExecSafe.upd_length.
  - intros i2 E. apply ExecSafe.nth_upd_other. lia.
  - reflexivity.
  - right. split; [reflexivity|]. rewrite ExecSafe.nth_upd_same by lia. reflexivity.
  - intros _. rewrite ExecSafe.nth_upd_same by lia. reflexivity.
  - intros _. rewrite Hf, ExecSafe.nth_upd_same by lia. unfold runsb, w_run. rewrite Hpc. reflexivity.
  - intros v. rewrite ExecSafe.nth_upd_same by lia. intros E. inversion E. reflexivity.
  - intros i0 v E. discriminate E.
  - apply (I_q _ _ _ H).
  - reflexivity.
  - unfold chanS, chan_ok, chan2 in *. rewrite Hpc in Hc. cbn [wp]. exact Hc.
Qed.

Lemma LI_hit : forall c n a j w i, ExecSafe.Inv c n a -> ExecLive.Inv c a ->
  nth_error (ws a) j = Some w -> wp w = WSrnc i -> getf a i = FPending -> ExecLive.Inv c (hit a j w i i).
Proof.
  intros c n a j w i HS H Hj Hpc Hf.
  pose proof (inv_inv_safe _ _ _ HS) as Hsafe.
  destruct H as (H1 & H2 & H3 & H4 & H5 & H6 & H7 & H8 & H9 & H10 & H11 & H12 & H13 & H14 & H15).
  assert (Hin : In w (ws a)) by (eapply nth_error_In; eauto).
  assert (Hca : w_call w = Some i) by (unfold w_call; rewrite Hpc; reflexivity).
  destruct (call_range c n a j w i HS Hj Hca) as [Hi Hsub].
  pose proof (I_len _ _ _ HS) as Hlen.
  pose proof (nth_error_some_lt _ _ _ _ Hj) as Hlt.
  set (w' := mkW (wq w) (wproc w) WTd).
  assert (Ews : ws (hit a j w i i) = upd (ws a) j w') by reflexivity.
  assert (Efu : futs (hit a j w i i) = upd (futs a) (i - 1) (FRes i)) by reflexivity.
  assert (Hgf : forall i0, i0 <> i -> 1 <= i0 -> getf (hit a j w i i) i0 = getf a i0).
  { intros i0 Hne H0. unfold getf. rewrite Efu. apply ExecLive.nth_upd_neq. lia. }
  assert (Hpl : forall i0, place (hit a j w i i) i0 -> place a i0).
  { intros i0 [Hq|[[x [Hx1 Hx2]]|[b Hb]]]; [left; exact Hq| |right; right; exists b; exact Hb].
    rewrite Ews in Hx1. apply ExecLive.In_upd in Hx1. destruct Hx1 as [Hx1|Hx1]; [subst x; discriminate Hx2|].
    right; left. exists x. auto. }
  assert (Hlc : forall i0, loc (hit a j w i i) i0 -> loc a i0 /\ i0 <> i).
  { intros i0 Hl. split.
    - destruct Hl as [Hq|[[x [Hx1 Hx2]]|[b Hb]]]; [left; exact Hq| |right; right; exists b; exact Hb].
      rewrite Ews in Hx1. apply ExecLive.In_upd in Hx1. destruct Hx1 as [Hx1|Hx1]; [subst x; discriminate Hx2|].
      right; left; exists x; auto.
    - intros E. subst i0. apply (own_unique c a j w i Hsafe); [rewrite Hlen; exact Hi|exact Hj|exact Hca|].
      destruct Hl as [Hq|[[x [Hx1 Hx2]]|[b Hb]]].
      + left. exact Hq.
      + right; left. rewrite Ews in Hx1. apply In_upd_idx in Hx1.
        destruct Hx1 as [Hx1|[m [Hm1 Hm2]]]; [subst x; discriminate Hx2|].
        exists m, x. repeat split; auto. unfold w_call; rewrite Hx2; reflexivity.
      + right; right. exists b; exact Hb. }
  unfold ExecLive.Inv.
  split. { eapply ctl_frame; [exact H1|reflexivity|reflexivity|reflexivity|reflexivity|reflexivity|].
           rewrite Efu. apply ExecLive.upd_length. }
  split. { exact H2. }
  split. { unfold hit, D_cnt, m_holds in *. unf. cnt w_holds Hj Hpc. lia. }
  split. { unfold hit, D_sh, shuts_put in *. unf. cnt w_past Hj Hpc. lia. }
  split. { exact H5. }
  split. { exact H6. }
  split. { intros x Hx. rewrite Ews in Hx. apply ExecLive.In_upd in Hx. destruct Hx as [Hx|Hx]; [subst x; simpl; auto|auto]. }
  split. { intros x Hx. rewrite Ews in Hx. apply ExecLive.In_upd in Hx. destruct Hx as [Hx|Hx]; [subst x; reflexivity|auto]. }
  split. { destruct H9 as [J1 J2]. split.
    - intros k Hk j' x Hlt' Hx. rewrite Ews in Hx. destruct (Nat.eq_dec j j') as [E|E].
      + subst j'. pose proof (J1 k Hk j w Hlt' Hj) as Hd. rewrite Hpc in Hd. discriminate Hd.
      + rewrite nth_error_upd_neq in Hx by exact E. eapply J1; eauto.
    - intros Hq x Hx. pose proof (J2 Hq w Hin) as Hd. rewrite Hpc in Hd. discriminate Hd. }
  split. { intros [x [Hx Hp]]. apply H10. rewrite Ews in Hx. apply ExecLive.In_upd in Hx.
           destruct Hx as [Hx|Hx]; [subst x; discriminate Hp|]. exists x. auto. }
  split. { intros x Hx Hfx. rewrite Ews in Hx. apply ExecLive.In_upd in Hx.
           destruct Hx as [Hx|Hx]; [subst x; discriminate Hfx|]. apply (H11 x Hx Hfx). }
  split. { intros k Hk. destruct (H12 k Hk) as [x [Hx Hxk]]. apply In_nth_error in Hx. destruct Hx as [m Hm].
           rewrite Ews. destruct (Nat.eq_dec m j) as [E|E].
           - subst m. rewrite Hj in Hm. inversion Hm; subst x. exists w'. split; [apply In_upd_self; exact Hlt|exact Hxk].
           - exists x. split; [eapply In_upd_other; eauto|exact Hxk]. }
  split. { intros i0 Hp. rewrite Efu, ExecLive.upd_length. apply H13, Hpl, Hp. }
  split. { intros i0 Hl. destruct (Hlc i0 Hl) as [Hl0 Hne]. pose proof (H13 _ (loc_place _ _ Hl0)) as Hr.
           rewrite Hgf; [apply H14; exact Hl0|exact Hne|lia]. }
  intros i0 Hi0 Hns. rewrite Efu, ExecLive.upd_length in Hi0.
  assert (Hne : i0 <> i) by (intros E; subst; contradiction).
  rewrite Hgf; [apply H15; assumption|exact Hne|lia].
Qed.

Lemma AI_hit : forall c n a j w i, AI c n a -> nth_error (ws a) j = Some w -> wp w = WSrnc i ->
  getf a i = FPending -> AI c n (hit a j w i i).
Proof. intros c n a j w i [HS HL] Hj Hpc Hf. split; [now apply SI_hit|eapply LI_hit; eauto]. Qed.

(* ================================================================== *)
(* 3. no cancellation; submitted calls come from the program           *)
(* ================================================================== *)
Definition ncf (f : fstate) : bool := match f with FCancelled | FCancelledN => false | _ => true end.
Definition NCS (prog : list op) (a : state) : Prop :=
  nocancel (ops a) = true /\ main_ok (main a) /\ (forall i, ncf (getf a i) = true) /\
  (forall i, In i (subm a ++ submits (ops a)) -> In i (submits prog)).

Lemma nocancel_app_r : forall x y, nocancel (x ++ y) = true -> nocancel y = true.
Proof. intros x y H. unfold nocancel in *. rewrite forallb_app in H. apply andb_true_iff in H. tauto. Qed.
Lemma nocancel_tl : forall l, nocancel l = true -> nocancel (tl l) = true.
Proof. intros [|o l] H; simpl in *; auto. apply andb_true_iff in H. tauto. Qed.

Lemma NCS_goto : forall prog s l x cl, nocancel l = true -> (forall i, ncf (getf s i) = true) ->
  (forall i, In i (subm s ++ submits l) -> In i (submits prog)) -> NCS prog (m_goto s l x cl).
Proof.
  intros prog s l x cl Hn Hf Hs. destruct (m_goto_spec s l x cl) as (l' & acc' & pc & Heq & Hset). rewrite Heq.
  destruct (settle_suffix _ _ _ _ _ _ _ _ Hset) as [pre Hpre]. subst l.
  pose proof (settle_pc _ _ _ _ _ _ _ _ Hset) as Hpc.
  unfold NCS. cbn [ops main subm]. split; [eapply nocancel_app_r; eauto|].
  split; [destruct Hpc; subst pc; exact I|]. split; [exact Hf|].
  intros i Hi. apply Hs. rewrite ExecLive.submits_app. apply in_app_or in Hi. apply in_or_app.
  destruct Hi; [now left|right; apply in_or_app; now right].
Qed.

Lemma NCS_mstep : forall prog c s s', mstepR c s s' -> NCS prog s -> NCS prog s'.
Proof.
  intros prog c s s' HR (N1 & N2 & N3 & N4).
  assert (Htl : forall s1 x cl, ops s1 = ops s -> subm s1 = subm s -> futs s1 = futs s -> NCS prog (m_done s1 x cl)).
  { intros s1 x cl E1 E2 E3. unfold m_done. apply NCS_goto; rewrite ?E1, ?E2.
    - now apply nocancel_tl.
    - intros i. unfold getf. rewrite E3. apply N3.
    - intros i Hi. apply N4. apply in_app_or in Hi. apply in_or_app. destruct Hi as [Hi|Hi]; [now left|right; now apply submits_tl_in]. }
  assert (Hsm : forall s1 m, ops s1 = ops s -> subm s1 = subm s -> futs s1 = futs s -> main_ok m -> NCS prog (set_main s1 m)).
  { intros s1 m E1 E2 E3 Hm. unfold NCS. cbn [set_main ops main subm]. rewrite E1, E2.
    split; [exact N1|]. split; [exact Hm|]. split; [|exact N4]. intros i. unfold getf. cbn [futs set_main]. rewrite E3. apply N3. }
  mcases HR; try (apply Htl; reflexivity); try (apply Hsm; try reflexivity; exact I);
    try (rewrite Hm in N2; contradiction); try (rewrite Ho in N1; discriminate N1).
  - apply NCS_goto; unf.
    + unfold nocancel in *. rewrite forallb_app, N1. reflexivity.
    + exact N3.
    + intros i Hi. apply N4. rewrite ExecLive.submits_app in Hi. simpl in Hi. rewrite app_nil_r in Hi. exact Hi.
  - unfold m_done. apply NCS_goto; unf; rewrite Ho in *; simpl in *.
    + exact N1.
    + exact N3.
    + intros i0 Hi0. apply N4. rewrite <- app_assoc in Hi0. simpl in Hi0.
      apply in_app_or in Hi0. apply in_or_app. destruct Hi0 as [Hi0|Hi0]; [now left|right; exact Hi0].
Qed.

Lemma ncf_upd : forall s i f i0, (forall i, ncf (getf s i) = true) -> ncf f = true ->
  ncf (nth (i0 - 1) (upd (futs s) (i - 1) f) FPending) = true.
Proof.
  intros s i f i0 H Hf. destruct (nth_upd_split (futs s) (i - 1) f (i0 - 1) FPending) as [[_ E]|E]; rewrite E; auto. apply H.
Qed.

Lemma NCS_wstep : forall prog c s j w s', wstepR c s j w s' -> NCS prog s -> NCS prog s'.
Proof.
  intros prog c s j w s' HR (N1 & N2 & N3 & N4).
  assert (Hfr : main s' = main s /\ ops s' = ops s /\ subm s' = subm s) by (wcases HR; unf; repeat split; reflexivity).
  destruct Hfr as (F1 & F2 & F3). unfold NCS. rewrite F1, F2, F3. repeat (split; [assumption|]). split; [|exact N4].
  intros i0. wcases HR; try apply N3; try (apply ncf_upd; [exact N3|reflexivity]).
  pose proof (N3 i) as Hc. rewrite Hf in Hc. discriminate Hc.
Qed.

Definition AJ (c : cfg) (n : nat) (prog : list op) (a : state) : Prop := AI c n a /\ NCS prog a.

Lemma AJ_step : forall c n prog a t a' l, nofail c -> 1 <= nworkers c -> AJ c n prog a ->
  step c a t = Some (a', l) -> AJ c n prog a'.
Proof.
  intros c n prog a t a' l Hnf Hn [HA HN] Hst. split; [eapply AI_step; eauto|].
  destruct HA as [HS HL]. pose proof (inv_inv_safe _ _ _ HS) as Hsafe.
  destruct HL as (H1 & H2 & H3 & H4 & H5 & H6 & H7 & H8 & H9 & H10 & H11 & H12 & H13 & H14 & H15).
  destruct t as [| | |j|k]; simpl in Hst; try discriminate Hst.
  - eapply NCS_mstep; [|exact HN]. eapply ExecLive.m_step_inv; eauto. eapply no_shut_in_drain; eauto.
  - destruct j as [|j]; [discriminate|].
    destruct (ExecLive.w_step_inv _ _ _ _ _ Hnf Hsafe H7 H8 H14 Hst) as [w [Hj HR]]. eapply NCS_wstep; eauto.
  - destruct (ExecLive.p_step_inv _ _ _ _ _ Hst) as (p & p' & _ & _ & _ & E). subst a'. exact HN.
Qed.

Lemma AJ_init : forall c n prog, wf_prog n prog -> nocancel prog = true -> AJ c n prog (init n prog).
Proof.
  intros c n prog Hwf Hnc. split; [now apply AI_init|]. unfold NCS, init. cbn [ops main subm].
  split; [exact Hnc|]. split; [exact I|]. split; [|intros i Hi; exact Hi].
  intros i. unfold getf. cbn [futs]. destruct (nth_in_or_default (i - 1) (repeat FPending n) FPending) as [Hin|E].
  - apply repeat_spec in Hin. rewrite Hin. reflexivity.
  - rewrite E. reflexivity.
Qed.

Lemma AJ_hit : forall c n prog a j w i, AJ c n prog a -> nth_error (ws a) j = Some w -> wp w = WSrnc i ->
  getf a i = FPending -> AJ c n prog (hit a j w i i).
Proof.
  intros c n prog a j w i [HA (N1 & N2 & N3 & N4)] Hj Hpc Hf. split; [now apply AI_hit|].
  unfold NCS. split; [exact N1|]. split; [exact N2|]. split; [|exact N4].
  intros i0. apply ncf_upd; [exact N3|reflexivity].
Qed.

(* ================================================================== *)
(* 4. the directory seen from the worker threads                       *)
(* ================================================================== *)
Definition fs_ok (c : ccfg) (fs : fsys) (o : cpc) (pc : wpc) : Prop :=
  match o with
  | CNone => match pc with WSrnc i | WSend i | WRecv i => fs_has fs (cpath c i) = false | _ => True end
  | CLook _ => True
  | CHitOpen i | CHitRead i | CHitClose _ i | CHitSet _ i => fs_has fs (cpath c i) = true
  | CDOpen i v => fs_has fs (cpath c i) = false
  | CDDs i v d => fs_get fs (cpath c i) = Some (ds_before d)
  | CDClose ok i v => ok = true
  end.

(* the call whose file the claim of a thread is about *)
Definition ocall (o : cpc) (pc : wpc) : option nat :=
  match o with
  | CNone => match pc with WSrnc i | WSend i | WRecv i => Some i | _ => None end
  | CLook _ => None
  | CHitOpen i | CHitRead i | CHitClose _ i | CHitSet _ i => Some i
  | CDOpen i _ | CDDs i _ _ | CDClose _ i _ => Some i
  end.

Lemma fs_ok_other : forall c fs fs' o pc, fs_ok c fs o pc ->
  (forall i, ocall o pc = Some i -> fs_get fs' (cpath c i) = fs_get fs (cpath c i)) -> fs_ok c fs' o pc.
Proof.
  intros c fs fs' o pc H Hg. destruct o; simpl in *; unfold fs_has in *; try rewrite (Hg _ eq_refl); auto.
  destruct pc; auto; rewrite (Hg _ eq_refl); auto.
Qed.

Lemma ocall_holds : forall o pc i, ov_ok o pc -> ocall o pc = Some i -> holdsb i pc = true.
Proof.
  intros o pc i Hok Hc. destruct o; simpl in *; try discriminate Hc; try (inversion Hc; subst; simpl; apply Nat.eqb_refl).
  destruct pc; try discriminate Hc; inversion Hc; subst; simpl; apply Nat.eqb_refl.
Qed.

Lemma holdsb_call : forall i w, holdsb i (wp w) = true -> w_call w = Some i.
Proof.
  intros i w H. unfold w_call. destruct (wp w); simpl in H; try discriminate H; apply Nat.eqb_eq in H; now subst.
Qed.

Lemma in_prog : forall c n prog b a j w i, eqv b a -> AJ c n prog a -> nth_error (ws b) j = Some w ->
  holdsb i (wp w) = true -> In i (submits prog).
Proof.
  intros c n prog b a j w i He [[HS _] (_ & _ & _ & N4)] Hj Hh.
  pose proof (eqv_fields _ _ He) as (_ & _ & _ & _ & _ & H6 & _). rewrite H6 in Hj.
  destruct (call_range _ _ _ _ _ _ HS Hj (holdsb_call _ _ Hh)) as [_ Hin]. apply N4. apply in_or_app. now left.
Qed.

Lemma path_inj : forall c prog i i', canon_inj_on c prog -> In i (submits prog) -> In i' (submits prog) ->
  cpath c i' = cpath c i -> i' = i.
Proof. intros c prog i i' H Hi Hi' E. unfold cpath, ckey in E. inversion E. now apply H. Qed.

Record KI (c : ccfg) (n : nat) (prog : list op) (s : cstate) : Prop := {
  K_abs : exists a, eqv (cb s) a /\ AJ (cbase c) n prog a;
  K_fs : forall j w, nth_error (ws (cb s)) j = Some w -> fs_ok c (cfs s) (getov s j) (wp w)
}.

(* the claims of the other threads survive a change of the file of the call held by thread j *)
Lemma others_ok : forall c n prog s j w i fs' j1 w1,
  canon_inj_on c prog -> CI s -> TI (cb s) -> KI c n prog s ->
  nth_error (ws (cb s)) j = Some w -> holdsb i (wp w) = true ->
  (forall p, p <> cpath c i -> fs_get fs' p = fs_get (cfs s) p) ->
  j1 <> j -> nth_error (ws (cb s)) j1 = Some w1 -> fs_ok c fs' (getov s j1) (wp w1).
Proof.
  intros c n prog s j w i fs' j1 w1 Hinj HCI HTI HK Hj Hh Hfs Hne Hj1.
  destruct (K_abs _ _ _ _ HK) as (a & He & HA).
  apply (fs_ok_other c (cfs s)); [apply (K_fs _ _ _ _ HK _ _ Hj1)|].
  intros i1 Hc. apply Hfs. intros E.
  pose proof (ocall_holds _ _ _ (C_ov _ HCI _ _ Hj1) Hc) as Hh1.
  assert (i1 = i).
  { apply (path_inj c prog i i1 Hinj); [| |exact E].
    - exact (in_prog _ _ _ _ _ _ _ _ He HA Hj Hh).
    - exact (in_prog _ _ _ _ _ _ _ _ He HA Hj1 Hh1). }
  subst i1. exact (two_holders _ _ _ _ _ _ HTI Hj1 Hj Hne Hh1 Hh).
Qed.

Lemma getov_cov : forall s s' j o j1, cov s' = updov (cov s) j o ->
  getov s' j1 = if Nat.eqb j j1 then o else getov s j1.
Proof. intros s s' j o j1 H. unfold getov. rewrite H. apply nth_updov. Qed.

(* a step that changes the overlay of thread j (and possibly the directory) only *)
Lemma KI_ov : forall c n prog s s' j w o',
  KI c n prog s -> nth_error (ws (cb s)) j = Some w -> cb s' = cb s -> cov s' = updov (cov s) j o' ->
  fs_ok c (cfs s') o' (wp w) ->
  (forall j1 w1, j1 <> j -> nth_error (ws (cb s)) j1 = Some w1 -> fs_ok c (cfs s') (getov s j1) (wp w1)) ->
  KI c n prog s'.
Proof.
  intros c n prog s s' j w o' HK Hj Hcb Hcov Hme Hoth. constructor.
  - rewrite Hcb. apply (K_abs _ _ _ _ HK).
  - intros j1 w1 Hj1. rewrite Hcb in Hj1. rewrite (getov_cov _ _ _ _ _ Hcov).
    destruct (Nat.eqb j j1) eqn:E.
    + apply Nat.eqb_eq in E. subst j1. rewrite Hj in Hj1. inversion Hj1; subst w1. exact Hme.
    + apply Nat.eqb_neq in E. apply Hoth; auto.
Qed.

(* same, directory unchanged *)
Lemma KI_ov0 : forall c n prog s s' j w o',
  KI c n prog s -> nth_error (ws (cb s)) j = Some w -> cb s' = cb s -> cov s' = updov (cov s) j o' ->
  cfs s' = cfs s -> fs_ok c (cfs s) o' (wp w) -> KI c n prog s'.
Proof.
  intros c n prog s s' j w o' HK Hj Hcb Hcov Hfs Hme. eapply KI_ov; eauto; rewrite Hfs; [exact Hme|].
  intros j1 w1 _ Hj1. apply (K_fs _ _ _ _ HK _ _ Hj1).
Qed.

(* ================================================================== *)
(* 5. every step of the cached model preserves the invariant           *)
(* ================================================================== *)
Lemma lift_step : forall c n prog b a t b' l, nofail c -> 1 <= nworkers c -> eqv b a -> AJ c n prog a ->
  step c b t = Some (b', l) -> exists a', eqv b' a' /\ AJ c n prog a'.
Proof.
  intros c n prog b a t b' l Hnf Hn He HA Hst. pose proof (step_eqv c b a t He) as E. rewrite Hst in E. cbn [estep] in E.
  destruct (step c a t) as [[a' l']|] eqn:Ha; cbn [estep] in E; [|discriminate E].
  assert (E1 : eqv b' a') by (unfold eqv; congruence).
  exists a'. split; [exact E1|]. eapply AJ_step; eauto.
Qed.

Lemma w_step_pc : forall c b j b' l w, w_step c b j = Some (b', l) -> nth_error (ws b) j = Some w ->
  exists w', ws b' = upd (ws b) j w' /\
    match wp w' with WSrnc _ => wp w = WGet | WSend i => wp w = WSrnc i | WRecv i => wp w = WSend i
                   | WSetRes i _ => wp w = WRecv i | _ => True end.
Proof.
  intros c b j b' l w Hst Hj. unfold w_step in Hst. rewrite Hj in Hst. cbv zeta in Hst.
  destruct (wp w) eqn:Hpc; step_cases Hst; inversion Hst; subst; clear Hst; eexists; (split; [reflexivity|]); simpl; auto;
    match goal with |- context [if ?x then _ else _] => destruct x; exact I end.
Qed.

Lemma srnc_pending : forall c n prog b a j w i, eqv b a -> AJ c n prog a -> nth_error (ws b) j = Some w ->
  wp w = WSrnc i -> getf b i = FPending /\ getf a i = FPending /\ nth_error (ws a) j = Some w.
Proof.
  intros c n prog b a j w i He [[HS HL] (_ & _ & N3 & _)] Hj Hpc.
  pose proof (eqv_fields _ _ He) as (_ & _ & _ & _ & _ & H6 & _). rewrite H6 in Hj.
  destruct HL as (H1 & H2 & H3 & H4 & H5 & H6' & H7 & H8 & H9 & H10 & H11 & H12 & H13 & H14 & H15).
  assert (Hl : loc a i). { right; left. exists w. split; [eapply nth_error_In; eauto|exact Hpc]. }
  pose proof (H14 i Hl) as Hp. pose proof (N3 i) as Hn. pose proof (eqv_getf _ _ i He) as Hf.
  assert (Ha : getf a i = FPending) by (destruct (getf a i); try discriminate Hp; try discriminate Hn; reflexivity).
  rewrite Ha in Hf. split; [|split; [exact Ha|exact Hj]]. destruct (getf b i); try discriminate Hf; reflexivity.
Qed.

Lemma KI_cstep : forall c n prog s t s' l, nofail (cbase c) -> 1 <= nworkers (cbase c) -> canon_inj_on c prog ->
  CI s -> TI (cb s) -> KI c n prog s -> cstep c s t = Some (s', l) -> KI c n prog s'.
Proof.
  intros c n prog s t s' l Hnf Hn Hinj HCI HTI HK Hst.
  destruct (K_abs _ _ _ _ HK) as (a & He & HA).
  destruct t as [| | |j|k]; simpl in Hst; try discriminate Hst.
  - (* the client *)
    destruct (m_step (cbase c) (cb s)) as [[b' l1]|] eqn:Hm; [|discriminate]. inversion Hst; subst; clear Hst.
    constructor.
    + cbn [cb set_cb]. eapply (lift_step _ _ _ _ _ TM); eauto.
    + cbn [cb set_cb cfs]. intros j w Hj. change (getov (set_cb s b') j) with (getov s j).
      destruct (m_step_wps _ _ _ _ Hm) as [[E|E] _]; unfold wps in E; inversion E as [[E1 E2]]; rewrite E1 in Hj.
      * apply (K_fs _ _ _ _ HK _ _ Hj).
      * destruct (nth_error_snoc _ _ _ _ Hj) as [Hj'|[Hj' Ew]]; [apply (K_fs _ _ _ _ HK _ _ Hj')|].
        subst. rewrite (C_len _ HCI) by lia. exact I.
  - (* a worker thread *)
    destruct j as [|j]; [discriminate|]. unfold cw_step in Hst.
    destruct (nth_error (ws (cb s)) j) as [w|] eqn:Hw; [|discriminate].
    pose proof (C_ov _ HCI _ _ Hw) as Hok. pose proof (K_fs _ _ _ _ HK _ _ Hw) as Hfs.
    assert (Hlt : j < length (ws (cb s))) by (apply nth_error_Some; rewrite Hw; discriminate).
    destruct (getov s j) as [|i|i|i|flag i|flag i|i v|i v d|ok i v] eqn:Hov; simpl in Hok, Hfs.
    + (* no cache step pending *)
      destruct (w_step (cbase c) (cb s) j) as [[b' l']|] eqn:Hws; [|discriminate]. inversion Hst; subst; clear Hst.
      destruct (w_step_pc _ _ _ _ _ _ Hws Hw) as (w' & Ew & Hrel).
      assert (Hj' : nth_error (ws b') j = Some w') by (rewrite Ew; apply nth_error_upd_same; exact Hlt).
      constructor.
      * cbn [cb set_cb set_ov]. eapply (lift_step _ _ _ _ _ (TW (S j))); eauto.
      * cbn [cb cfs set_ov set_cb]. intros j1 w1 Hj1. rewrite getov_set_ov.
        destruct (Nat.eqb j j1) eqn:E.
        -- apply Nat.eqb_eq in E; subst j1. rewrite Hj' in Hj1; inversion Hj1; subst w1. rewrite Hj'.
           clear - Hrel Hfs.
           destruct (wp w') eqn:E'; simpl in Hrel;
             try (rewrite Hrel in *; simpl in *; first [exact I | exact Hfs]); destruct (wp w); simpl; exact I.
        -- apply Nat.eqb_neq in E. rewrite Ew in Hj1. rewrite nth_error_upd_other in Hj1 by lia.
           change (getov (set_cb s b') j1) with (getov s j1). apply (K_fs _ _ _ _ HK _ _ Hj1).
    + (* listdir *)
      destruct (fs_has (cfs s) (cpath c i)) eqn:Eh; inversion Hst; subst; clear Hst;
        (eapply (KI_ov0 _ _ _ s _ j w); [exact HK|exact Hw|reflexivity|reflexivity|reflexivity|]).
      * exact Eh.
      * rewrite Hok. exact Eh.
    + (* open-r *)
      destruct (fs_get (cfs s) (cpath c i)) as [l0|] eqn:Eg.
      * inversion Hst; subst; clear Hst.
        eapply (KI_ov0 _ _ _ s _ j w); [exact HK|exact Hw|reflexivity|reflexivity|reflexivity|].
        destruct (has_ds DOut l0); exact Hfs.
      * unfold fs_has in Hfs. rewrite Eg in Hfs. discriminate Hfs.
    + inversion Hst; subst; clear Hst.
      eapply (KI_ov0 _ _ _ s _ j w); [exact HK|exact Hw|reflexivity|reflexivity|reflexivity|exact Hfs].
    + inversion Hst; subst; clear Hst.
      eapply (KI_ov0 _ _ _ s _ j w); [exact HK|exact Hw|reflexivity|reflexivity|reflexivity|exact Hfs].
    + (* set_result on a hit *)
      destruct (srnc_pending _ _ _ _ _ _ _ _ He HA Hw Hok) as (Hb & Ha & Hja).
      rewrite Hb in Hst. inversion Hst; subst; clear Hst.
      set (v := if flag then ccanon c i else 0).
      constructor.
      * cbn [cb set_cb set_ov]. exists (hit a j w i i). split; [|now apply AJ_hit].
        change (eqv (hit (cb s) j w i v) (hit a j w i i)). unfold hit.
        apply (eqv_set (fun b => wpc_to b j w WTd)); [intros ?; reflexivity|]. now apply eqv_setf.
      * cbn [cb cfs set_ov set_cb]. intros j1 w1 Hj1. rewrite getov_set_ov.
        cbn [wpc_to set_w set_ws ws] in Hj1.
        destruct (Nat.eqb j j1) eqn:E.
        -- apply Nat.eqb_eq in E; subst j1. rewrite nth_error_upd_same in Hj1 by exact Hlt. inversion Hj1; subst w1. exact I.
        -- apply Nat.eqb_neq in E. rewrite nth_error_upd_other in Hj1 by lia.
           match goal with |- fs_ok _ _ (getov (set_cb s ?x) j1) _ => change (getov (set_cb s x) j1) with (getov s j1) end.
           apply (K_fs _ _ _ _ HK _ _ Hj1).
    + (* dump: open-a *)
      rewrite Hfs in Hst. inversion Hst; subst; clear Hst.
      assert (Hh : holdsb i (wp w) = true) by (rewrite Hok; simpl; apply Nat.eqb_refl).
      eapply (KI_ov _ _ _ s _ j w); [exact HK|exact Hw|reflexivity|reflexivity| |].
      * cbn [cfs set_ov set_cfs]. simpl. apply fs_get_set_same.
      * cbn [cfs set_ov set_cfs]. intros j1 w1 Hne Hj1.
        eapply (others_ok c n prog s j w i); eauto. intros p Hp. now apply fs_get_set_other.
    + (* dump: create_dataset *)
      rewrite Hfs in Hst.
      assert (Hd : has_ds d (ds_before d) = false) by (destruct d; reflexivity). rewrite Hd in Hst.
      inversion Hst; subst; clear Hst.
      assert (Hh : holdsb i (wp w) = true) by (rewrite Hok; simpl; apply Nat.eqb_refl).
      eapply (KI_ov _ _ _ s _ j w); [exact HK|exact Hw|reflexivity|reflexivity| |].
      * cbn [cfs set_ov set_cfs]. destruct d; simpl; try apply fs_get_set_same; reflexivity.
      * cbn [cfs set_ov set_cfs]. intros j1 w1 Hne Hj1.
        eapply (others_ok c n prog s j w i); eauto. intros p Hp. now apply fs_get_set_other.
    + (* dump: close *)
      subst ok. inversion Hst; subst; clear Hst.
      eapply (KI_ov0 _ _ _ s _ j w); [exact HK|exact Hw|reflexivity|reflexivity|reflexivity|].
      rewrite Hok. exact I.
  - (* a worker process *)
    destruct (p_step (cbase c) (cb s) k) as [[b' l1]|] eqn:Hp; [|discriminate]. inversion Hst; subst; clear Hst.
    destruct (BI_p_step _ _ _ _ _ (C_b _ HCI) Hp) as (_ & Ews & _).
    constructor.
    + cbn [cb set_cb]. eapply (lift_step _ _ _ _ _ (TP k)); eauto.
    + cbn [cb set_cb cfs]. intros j w Hj. change (getov (set_cb s b') j) with (getov s j).
      rewrite Ews in Hj. apply (K_fs _ _ _ _ HK _ _ Hj).
Qed.

(* ================================================================== *)
(* 6. reachable states; the rest state                                 *)
(* ================================================================== *)
Lemma nk_creach : forall c s s', creach_nk c s s' -> creach c s s'.
Proof.
  intros c s s' H. induction H as [s|s s' s'' t l H IH Hst]; [apply cr_refl|].
  eapply cr_step; [exact IH|eapply ct_step; exact Hst].
Qed.

Lemma KI_init : forall c n prog fs0, wf_prog n prog -> nocancel prog = true -> KI c n prog (cinit n prog fs0).
Proof.
  intros c n prog fs0 Hwf Hnc. constructor.
  - exists (init n prog). split; [reflexivity|now apply AJ_init].
  - intros j w Hj. destruct j; discriminate Hj.
Qed.

Theorem cache_inv_reach : forall c n prog fs0 s,
  nofail (cbase c) -> 1 <= nworkers (cbase c) -> wf_prog n prog -> nocancel prog = true -> canon_inj_on c prog ->
  creach_nk c (cinit n prog fs0) s -> KI c n prog s /\ CI s.
Proof.
  intros c n prog fs0 s Hnf Hn Hwf Hnc Hinj Hr.
  remember (cinit n prog fs0) as s0 eqn:E0. induction Hr as [s|s s' s'' t l Hr IH Hst]; subst.
  - split; [now apply KI_init|apply CI_init].
  - destruct (IH eq_refl) as [HK HC].
    pose proof (CTI_reach _ _ _ (CTI_init n prog fs0 Hwf) (nk_creach _ _ _ Hr)) as [_ HT].
    split; [eapply KI_cstep; eauto|]. destruct (CI_cstep _ _ _ _ _ HC Hst) as [H _]. exact H.
Qed.

(* a thread with a cache step pending can always take it *)
Lemma overlay_enabled : forall c s j w, nth_error (ws (cb s)) j = Some w -> cw_step c s j = None -> getov s j = CNone.
Proof.
  intros c s j w Hj H. unfold cw_step in H. rewrite Hj in H.
  destruct (getov s j) eqn:E; [reflexivity|..]; exfalso;
    repeat match type of H with
           | context [match ?x with _ => _ end] => destruct x
           | context [if ?x then _ else _] => destruct x
           end; discriminate H.
Qed.

Lemma stuck_base : forall c s, CI s -> cenabled c s = [] ->
  forall t, In t (tids (cb s)) -> step (cbase c) (cb s) t = None.
Proof.
  intros c s HCI Hen t Ht. unfold cenabled in Hen. pose proof (filter_nil_all _ _ _ Hen t Ht) as Hf. cbv beta in Hf.
  destruct t as [| | |j|k]; simpl in *; try reflexivity.
  - destruct (m_step (cbase c) (cb s)) as [[b l]|]; [discriminate Hf|reflexivity].
  - destruct j as [|j]; [reflexivity|]. destruct (cw_step c s j) as [[s' l]|] eqn:Hc; [discriminate Hf|].
    destruct (nth_error (ws (cb s)) j) as [w|] eqn:Hj.
    + pose proof (overlay_enabled _ _ _ _ Hj Hc) as Ho. unfold cw_step in Hc. rewrite Hj, Ho in Hc.
      destruct (w_step (cbase c) (cb s) j) as [[b l]|]; [discriminate Hc|reflexivity].
    + unfold w_step. rewrite Hj. reflexivity.
  - destruct (p_step (cbase c) (cb s) k) as [[b l]|]; [discriminate Hf|reflexivity].
Qed.

(* MAIN THEOREM *)
Theorem cache_rest_state : forall c n prog fs0 s,
  nofail (cbase c) -> 1 <= nworkers (cbase c) -> wf_prog n prog -> nocancel prog = true ->
  canon_inj_on c prog ->
  creach_nk c (cinit n prog fs0) s ->
  crest_ok_b c s = true.
Proof.
  intros c n prog fs0 s Hnf Hn Hwf Hnc Hinj Hr.
  destruct (cache_inv_reach _ _ _ _ _ Hnf Hn Hwf Hnc Hinj Hr) as [HK HCI].
  unfold crest_ok_b. destruct (cenabled c s) eqn:Hen; [|reflexivity].
  pose proof (stuck_base _ _ HCI Hen) as Hst.
  destruct (K_abs _ _ _ _ HK) as (a & He & [[HS HL] _]).
  pose proof (eqv_fields _ _ He) as (H1 & H2 & H3 & H4 & H5 & H6 & H7 & H8 & H9).
  assert (Hsta : forall t, In t (tids a) -> step (cbase c) a t = None).
  { intros t Ht. assert (Ht' : In t (tids (cb s))) by (unfold tids in *; rewrite H6, H7; exact Ht).
    pose proof (step_eqv (cbase c) _ _ t He) as E. rewrite (Hst t Ht') in E. cbn [estep] in E.
    destruct (step (cbase c) a t) as [[a' l']|]; [discriminate E|reflexivity]. }
  pose proof (inv_inv_safe _ _ _ HS) as Hsafe.
  destruct (stuck_shape _ _ Hn Hsafe HL Hsta) as (Hm & Hq & Hw).
  assert (Hnd : forall b j, main a <> MDrainCancel b j) by (intros b j E; rewrite Hm in E; discriminate E).
  destruct (quiescent _ _ Hsafe HL Hq Hw Hnd) as (Q1 & Q2 & Q3).
  unfold crest_goal. rewrite H3, Hm, H2, H6, H7. cbn [andb].
  apply andb_true_iff. split; [apply andb_true_iff; split|].
  - apply forallb_forall. intros i Hi. rewrite (ef_fdone _ _ (eqv_getf _ _ i He)). apply Q1, Hi.
  - apply forallb_forall. intros p Hp. rewrite (Q2 p Hp). reflexivity.
  - apply forallb_forall. intros w Hw1. apply Q3, Hw1.
Qed.

Print Assumptions cache_rest_state.

(* ================================================================== *)
(* 7. examples: the premises are satisfiable and needed                *)
(* ================================================================== *)
(* run: first the given schedule, then always the first enabled thread *)
Fixpoint cgo (c : ccfg) (fuel : nat) (s : cstate) : cstate :=
  match fuel with
  | O => s
  | S k => match cenabled c s with
           | [] => s
           | t :: _ => match cstep c s t with Some (s', _) => cgo c k s' | None => s end
           end
  end.

Lemma nk_front : forall c s t s1 l s', cstep c s t = Some (s1, l) -> creach_nk c s1 s' -> creach_nk c s s'.
Proof.
  intros c s t s1 l s' Hst Hr. induction Hr as [s1|s1 s2 s3 t' l' H IH H2].
  - eapply cnk_step; [apply cnk_refl|exact Hst].
  - eapply cnk_step; [apply IH; exact Hst|exact H2].
Qed.

Lemma cgo_nk : forall c fuel s, creach_nk c s (cgo c fuel s).
Proof.
  intros c fuel. induction fuel as [|k IH]; intros s; simpl; [apply cnk_refl|].
  destruct (cenabled c s) as [|t r]; [apply cnk_refl|].
  destruct (cstep c s t) as [[s' l]|] eqn:E; [|apply cnk_refl]. eapply nk_front; [exact E|apply IH].
Qed.

Lemma crun_nk : forall c l s s', crun c l s = Some s' -> creach_nk c s s'.
Proof.
  intros c l. induction l as [|t r IH]; intros s s' H; simpl in H.
  - inversion H; subst. apply cnk_refl.
  - destruct (cstep c s t) as [[s1 l1]|] eqn:E; [|discriminate]. eapply nk_front; [exact E|apply IH; exact H].
Qed.

Lemma nk_trans : forall c s1 s2 s3, creach_nk c s1 s2 -> creach_nk c s2 s3 -> creach_nk c s1 s3.
Proof.
  intros c s1 s2 s3 H1 H2. induction H2 as [s2|s2 s3 s4 t l H2 IH H3]; [exact H1|].
  eapply cnk_step; [apply IH; exact H1|exact H3].
Qed.

Definition ex_cfg : ccfg := mkCC (mkC 1 (fun _ => false)) S.
Definition ex_prog : list op := [OSubmit 1; OResult 1; OShutdown true false].
Definition ex_miss : cstate := cgo ex_cfg 100 (cinit 1 ex_prog []).
Definition ex_hit : cstate := cgo ex_cfg 100 (cinit 1 ex_prog [(cpath ex_cfg 1, full_entry)]).

Lemma wf_one : forall prog, submits prog = [1] -> ~ In ODrop prog -> wf_prog 1 prog.
Proof.
  intros prog E Hd. unfold wf_prog. rewrite E. split; [|split; [|exact Hd]].
  - constructor; [intros []|constructor].
  - intros i [Hi|[]]. subst. lia.
Qed.

(* (1) the premises hold and a non-trivial rest state is reached: one worker, one call whose key is that of call 2
   (ccanon = S).  Empty directory: the call misses, its process computes value 1, the entry is dumped.
   Directory holding the complete entry: the call hits and is completed with the value of the key; the process
   never sees a request.  Both runs end in a state where nothing can move and the goal holds. *)
Example rest_state_miss_and_hit :
  nofail (cbase ex_cfg) /\ 1 <= nworkers (cbase ex_cfg) /\ wf_prog 1 ex_prog /\ nocancel ex_prog = true /\
  canon_inj_on ex_cfg ex_prog /\
  creach_nk ex_cfg (cinit 1 ex_prog []) ex_miss /\ cenabled ex_cfg ex_miss = [] /\
  getf (cb ex_miss) 1 = FRes 1 /\ fs_get (cfs ex_miss) (cpath ex_cfg 1) = Some full_entry /\ crest_goal ex_miss = true /\
  creach_nk ex_cfg (cinit 1 ex_prog [(cpath ex_cfg 1, full_entry)]) ex_hit /\ cenabled ex_cfg ex_hit = [] /\
  getf (cb ex_hit) 1 = FRes (ccanon ex_cfg 1) /\ crest_goal ex_hit = true.
Proof.
  split; [intros i; reflexivity|]. split; [simpl; lia|].
  split; [apply wf_one; [reflexivity|simpl; intros [E|[E|[E|[]]]]; discriminate E]|].
  split; [reflexivity|].
  split; [intros i j [Hi|[]] [Hj|[]] _; congruence|].
  split; [apply cgo_nk|]. split; [vm_compute; reflexivity|]. split; [vm_compute; reflexivity|].
  split; [vm_compute; reflexivity|]. split; [vm_compute; reflexivity|].
  split; [apply cgo_nk|]. split; [vm_compute; reflexivity|]. split; vm_compute; reflexivity.
Qed.

(* (2) nocancel is needed (finding D18): the call is cancelled while queued and then hits; set_result on the
   cancelled future kills the worker thread; the client finishes (the implicit shutdown does not wait); nothing
   can move any more, the process is still alive and the shutdown message is never taken *)
Definition x2_cfg : ccfg := mkCC (mkC 1 (fun _ => false)) S.
Definition x2_prog : list op := [OSubmit 1; OCancel 1].
Definition x2_state : cstate := cgo x2_cfg 100 (cinit 1 x2_prog [(cpath x2_cfg 1, full_entry)]).

Example rest_state_needs_nocancel :
  nofail (cbase x2_cfg) /\ 1 <= nworkers (cbase x2_cfg) /\ wf_prog 1 x2_prog /\ canon_inj_on x2_cfg x2_prog /\
  nocancel x2_prog = false /\
  creach_nk x2_cfg (cinit 1 x2_prog [(cpath x2_cfg 1, full_entry)]) x2_state /\
  cenabled x2_cfg x2_state = [] /\ map wp (ws (cb x2_state)) = [WDead] /\ getf (cb x2_state) 1 = FCancelled /\
  map palive (ps (cb x2_state)) = [true] /\ crest_ok_b x2_cfg x2_state = false.
Proof.
  split; [intros i; reflexivity|]. split; [simpl; lia|].
  split; [apply wf_one; [reflexivity|simpl; intros [E|[E|[]]]; discriminate E]|].
  split; [intros i j [Hi|[]] [Hj|[]] _; congruence|].
  split; [reflexivity|]. split; [apply cgo_nk|].
  split; [vm_compute; reflexivity|]. split; [vm_compute; reflexivity|]. split; [vm_compute; reflexivity|].
  split; vm_compute; reflexivity.
Qed.

(* (3) canon_inj_on is needed (finding D17): two workers, two identical calls; both look the entry up before
   either has written it (both miss), both run the call; the first dump completes the entry, the second fails at
   its first create_dataset, its thread takes the except branch and dies; the shutdown message meant for it is
   never taken, so the other thread waits in queue.join() for ever *)
Definition x3_cfg : ccfg := mkCC (mkC 2 (fun _ => false)) (fun i => match i with 2 => 1 | _ => i end).
Definition x3_prog : list op := [OSubmit 1; OSubmit 2].
Definition x3_sched : list tid :=
  [TM; TM; TM; TW 1; TW 1; TW 2; TW 2; TM; TM;     (* start W1, W2; they spawn P1, P2; submit 1, 2 *)
   TW 1; TW 1; TW 2; TW 2].                        (* W1: get T1, listdir (miss); W2: get T2, listdir (miss) *)
Definition x3_mid : cstate :=
  match crun x3_cfg x3_sched (cinit 2 x3_prog []) with Some s => s | None => cinit 2 x3_prog [] end.
Definition x3_state : cstate := cgo x3_cfg 200 x3_mid.

Example rest_state_needs_canon_inj :
  nofail (cbase x3_cfg) /\ 1 <= nworkers (cbase x3_cfg) /\ wf_prog 2 x3_prog /\ nocancel x3_prog = true /\
  ~ canon_inj_on x3_cfg x3_prog /\
  creach_nk x3_cfg (cinit 2 x3_prog []) x3_state /\
  map wp (ws (cb x3_mid)) = [WSrnc 1; WSrnc 2] /\ map (getov x3_mid) [0; 1] = [CNone; CNone] /\   (* both missed *)
  cenabled x3_cfg x3_state = [] /\ map wp (ws (cb x3_state)) = [WSQJoin; WDead] /\
  futs (cb x3_state) = [FRes 1; FExc] /\ crest_ok_b x3_cfg x3_state = false.
Proof.
  split; [intros i; reflexivity|]. split; [simpl; lia|].
  split.
  { split; [|split].
    - simpl. constructor; [intros [E|[]]; discriminate E|]. constructor; [intros []|constructor].
    - simpl. intros i [E|[E|[]]]; subst; lia.
    - simpl. intros [E|[E|[]]]; discriminate E. }
  split; [reflexivity|].
  split. { intros H. assert (E : 1 = 2) by (apply H; simpl; auto). discriminate E. }
  split. { apply nk_trans with (s2 := x3_mid); [|apply cgo_nk]. apply crun_nk with (l := x3_sched). vm_compute. reflexivity. }
  split; [vm_compute; reflexivity|]. split; [vm_compute; reflexivity|]. split; [vm_compute; reflexivity|].
  split; [vm_compute; reflexivity|]. split; vm_compute; reflexivity.
Qed.

Print Assumptions rest_state_miss_and_hit.
Print Assumptions rest_state_needs_nocancel.
Print Assumptions rest_state_needs_canon_inj.
