(* Cancellation on the cached path of the block-allocation executor (Model/CacheExec.v):
   properties C06 ("a future for which cancel() returned True is never executed") and C01.

   Proved (every worker count, schedule, kills of worker threads, initial directory; failing calls included):
     cache_cancelled_is_stable (2)       exactly as asked (no hypothesis at all)
     cache_body_needs_running (1)        with the added premise  wf_prog n prog
     cache_cancelled_never_executed (3)  with the added premise  wf_prog n prog
     cancelled_hit_kills_worker (4)      finding D18, by vm_compute
   wf_prog is necessary for (1): body_needs_ids_in_range (an id outside 1..n), body_needs_distinct_submits
   (an id submitted twice), both by vm_compute.
   Invariant: CI of Proofs/CacheSafe.v (worker/process channel, overlay) plus the record TI below: every call id is in at
   most one place (operations still to run, queue, the client's drain, a worker thread); a worker at WSend i and a
   process that holds request i and has not run it yet see future i Running; such a process is owned by the worker at
   WRecv i or (after a kill) nobody holds i any more. *)
From Coq Require Import List Bool Arith Lia.
From EL Require Import Model.Exec Model.ExecInv Model.StepExec Model.FileExec Model.FileSpec
                       Model.CacheExec Model.CacheSpec Proofs.CacheSafe.
Import ListNotations.

(* ------------------------------------------------------------------ *)
(* futures                                                             *)
(* ------------------------------------------------------------------ *)
Definition canc (f : fstate) : Prop := f = FCancelled \/ f = FCancelledN.

Lemma nth_upd_split : forall {A} (l : list A) y f x d,
  (x = y /\ nth x (upd l y f) d = f) \/ nth x (upd l y f) d = nth x l d.
Proof.
  induction l as [|a l IH]; intros [|y] f [|x] d; simpl; auto.
  destruct (IH y f x d) as [[E1 E2]|E]; [left; split; [lia|exact E2]|now right].
Qed.

Lemma getf_futs : forall b b' i, futs b' = futs b -> getf b' i = getf b i.
Proof. intros b b' i H. unfold getf. now rewrite H. Qed.

(* how one step changes the futures: at most one of them, by a function of its old state *)
Definition fut_step (P : fstate -> fstate -> Prop) (b b' : state) : Prop :=
  futs b' = futs b \/ exists i f, futs b' = setf b i f /\ P (getf b i) f.

Lemma fut_step_mono : forall (P P' : fstate -> fstate -> Prop) b b',
  (forall f f', P f f' -> P' f f') -> fut_step P b b' -> fut_step P' b b'.
Proof.
  intros P P' b b' HP [E|(i & f & E & Hf)]; [now left|right; exists i, f; auto].
Qed.

Lemma fut_step_len : forall (P : fstate -> fstate -> Prop) b b', fut_step P b b' -> length (futs b') = length (futs b).
Proof.
  intros P b b' [E|(i & f & E & _)]; rewrite E; [reflexivity|]. unfold setf. apply upd_length.
Qed.

Lemma fut_step_keeps : forall (P : fstate -> fstate -> Prop) (Q : fstate -> Prop) b b' i,
  (forall f f', P f f' -> Q f -> Q f') -> fut_step P b b' -> Q (getf b i) -> Q (getf b' i).
Proof.
  intros P Q b b' i HP [E|(i' & f & E & Hf)] Hq.
  - now rewrite (getf_futs _ _ _ E).
  - unfold getf in *. rewrite E. unfold setf.
    destruct (nth_upd_split (futs b) (i' - 1) f (i - 1) FPending) as [[E1 E2]|E2]; rewrite E2; [|exact Hq].
    rewrite E1 in Hq. exact (HP _ _ Hf Hq).
Qed.

(* the future changes of the model: cancel(), set_running_or_notify_cancel(), set_result/set_exception *)
Inductive fchange : fstate -> fstate -> Prop :=
| fc_cancel : forall f, fchange f (fst (fcancel f))
| fc_run : fchange FPending FRunning
| fc_notify : fchange FCancelled FCancelledN
| fc_done_p : forall f, fdone f = true -> fchange FPending f
| fc_done_r : forall f, fdone f = true -> fchange FRunning f.

Lemma fchange_canc : forall f f', fchange f f' -> canc f -> canc f'.
Proof.
  intros f f' H [E|E]; subst; inversion H; subst; simpl; unfold canc; auto.
Qed.

(* ---------- the client ---------- *)
Definition fr (b : state) := (futs b, queues b, ws b, ps b).

Lemma fr_m_goto : forall s l x cl, fr (m_goto s l x cl) = fr s.
Proof. intros s l x cl. unfold m_goto. destruct (settle _ _ _ _ _) as [[l' acc'] pc]. reflexivity. Qed.

Lemma fr_m_done : forall s x cl, fr (m_done s x cl) = fr s.
Proof. intros s x cl. apply fr_m_goto. Qed.

Lemma fr_m_norm : forall c s, fr (m_norm c s) = fr s.
Proof.
  intros c s. unfold m_norm. destruct (main s) as [| | | | | |w k|k| |]; try reflexivity.
  - destruct k; [|reflexivity]. destruct (cur_wait s); [destruct (Nat.eqb (nworkers c) 0); reflexivity|apply fr_m_done].
  - destruct (Nat.eqb k (nworkers c)); reflexivity.
Qed.

Lemma fr_futs : forall b b', fr b' = fr b -> futs b' = futs b.
Proof. intros b b' H. unfold fr in H. now inversion H. Qed.
Lemma futs_m_goto : forall s l x cl, futs (m_goto s l x cl) = futs s.
Proof. intros. apply fr_futs, fr_m_goto. Qed.
Lemma futs_m_done : forall s x cl, futs (m_done s x cl) = futs s.
Proof. intros. apply fr_futs, fr_m_done. Qed.
Lemma futs_m_norm : forall c s, futs (m_norm c s) = futs s.
Proof. intros. apply fr_futs, fr_m_norm. Qed.

Lemma drain_step_futs : forall s w b' l, drain_step s w = Some (b', l) -> futs b' = futs s.
Proof.
  intros s w b' l Hst. unfold drain_step in Hst.
  destruct (qitems (getq s 0)) as [|it r]; [discriminate|].
  destruct it; inversion Hst; subst; reflexivity.
Qed.

Lemma m_step_fut : forall c b b' l, m_step c b = Some (b', l) -> fut_step (fun f f' => f' = fst (fcancel f)) b b'.
Proof.
  intros c b b' l Hst. unfold m_step in Hst.
  step_cases Hst; inversion Hst; subst; clear Hst;
    try match goal with
        | Hd : drain_step _ _ = Some _ |- _ => left; apply (drain_step_futs _ _ _ _ Hd)
        end;
    try (left; rewrite ?futs_m_norm, ?futs_m_done, ?futs_m_goto; reflexivity).
  all: right; match goal with
              | Hc : fcancel (getf ?bb ?j) = (?f, _) |- _ =>
                  exists j, f; split;
                  [rewrite ?futs_m_norm, ?futs_m_done, ?futs_m_goto; reflexivity
                  |rewrite Hc; reflexivity]
              end.
Qed.

Lemma p_step_futs : forall c b k b' l, p_step c b k = Some (b', l) -> futs b' = futs b.
Proof.
  intros c b k b' l Hst. unfold p_step in Hst. step_cases Hst; inversion Hst; subst; reflexivity.
Qed.

Lemma w_step_fut : forall c b j b' l, w_step c b j = Some (b', l) -> fut_step fchange b b'.
Proof.
  intros c b j b' l Hst. unfold w_step in Hst.
  step_cases Hst; inversion Hst; subst; clear Hst; try (left; reflexivity).
  all: right; eexists; eexists; (split; [reflexivity|]);
    match goal with
    | Hg : getf _ _ = _ |- _ => rewrite Hg
    end; constructor; reflexivity.
Qed.

Lemma cw_step_fut : forall c s j s' l, cw_step c s j = Some (s', l) -> fut_step fchange (cb s) (cb s').
Proof.
  intros c s j s' l Hst. unfold cw_step in Hst.
  destruct (nth_error (ws (cb s)) j) as [w|]; [|discriminate].
  destruct (getov s j) as [|i|i|i|flag i|flag i|i v|i v d|ok i v].
  - destruct (w_step (cbase c) (cb s) j) as [[b' l']|] eqn:Hw; [|discriminate]. inversion Hst; subst; clear Hst.
    simpl. eapply w_step_fut; eauto.
  - destruct (fs_has (cfs s) (cpath c i)); inversion Hst; subst; left; reflexivity.
  - destruct (fs_get (cfs s) (cpath c i)); inversion Hst; subst; left; reflexivity.
  - inversion Hst; subst; left; reflexivity.
  - inversion Hst; subst; left; reflexivity.
  - destruct (getf (cb s) i) eqn:Hg; inversion Hst; subst; clear Hst; try (left; reflexivity).
    all: right; exists i; eexists; (split; [reflexivity|]); rewrite Hg; constructor; reflexivity.
  - destruct (fs_has (cfs s) (cpath c i)); inversion Hst; subst; left; reflexivity.
  - destruct (fs_get (cfs s) (cpath c i)) as [l0|]; [destruct (has_ds d l0)|]; inversion Hst; subst; left; reflexivity.
  - destruct ok; inversion Hst; subst; left; reflexivity.
Qed.

Lemma cstep_fut : forall c s t s' l, cstep c s t = Some (s', l) -> fut_step fchange (cb s) (cb s').
Proof.
  intros c s t s' l Hst. destruct t as [| | |j|k]; simpl in Hst; try discriminate Hst.
  - destruct (m_step (cbase c) (cb s)) as [[b l1]|] eqn:Hm; [|discriminate]. inversion Hst; subst; clear Hst.
    simpl. eapply fut_step_mono; [|eapply m_step_fut; eauto]. intros f f' E. cbv beta in E. rewrite E. constructor.
  - destruct j as [|j]; [discriminate|]. eapply cw_step_fut; eauto.
  - destruct (p_step (cbase c) (cb s) k) as [[b l1]|] eqn:Hp; [|discriminate]. inversion Hst; subst; clear Hst.
    simpl. left. eapply p_step_futs; eauto.
Qed.

(* (2) *)
Theorem cache_cancelled_is_stable : forall c s t s' l i,
  cstep c s t = Some (s', l) ->
  (getf (cb s) i = FCancelled \/ getf (cb s) i = FCancelledN) ->
  (getf (cb s') i = FCancelled \/ getf (cb s') i = FCancelledN).
Proof.
  intros c s t s' l i Hst Hc.
  apply (fut_step_keeps fchange canc (cb s) (cb s') i fchange_canc (cstep_fut _ _ _ _ _ Hst) Hc).
Qed.

(* ================================================================== *)
(* (1) a call id is in at most one place                               *)
(* ================================================================== *)
Fixpoint occ (i : nat) (l : list nat) : nat :=
  match l with
  | [] => 0
  | j :: t => (if Nat.eqb i j then 1 else 0) + occ i t
  end.

Lemma occ_app : forall i a b, occ i (a ++ b) = occ i a + occ i b.
Proof. induction a as [|j a IH]; intros b; simpl; [reflexivity|rewrite IH; lia]. Qed.

Lemma occ_In : forall i l, 1 <= occ i l -> In i l.
Proof.
  induction l as [|j l IH]; simpl; intros H; [lia|].
  destruct (Nat.eqb i j) eqn:E; [left; symmetry; now apply Nat.eqb_eq|right; apply IH; lia].
Qed.

Lemma occ_NoDup : forall i l, NoDup l -> occ i l <= 1.
Proof.
  induction l as [|j l IH]; simpl; intros H; [lia|]. inversion H as [|x y Hn Hd]; subst.
  destruct (Nat.eqb i j) eqn:E; [|specialize (IH Hd); lia].
  apply Nat.eqb_eq in E. subst j. destruct (occ i l) eqn:Eo; [lia|].
  exfalso. apply Hn. apply occ_In. lia.
Qed.

Fixpoint tasks (l : list item) : list nat :=
  match l with
  | [] => []
  | Task i :: t => i :: tasks t
  | Shut _ :: t => tasks t
  end.

Lemma tasks_app : forall a b, tasks (a ++ b) = tasks a ++ tasks b.
Proof. induction a as [|[i|w] a IH]; intros b; simpl; rewrite ?IH; reflexivity. Qed.

Lemma submits_app : forall a b, submits (a ++ b) = submits a ++ submits b.
Proof. induction a as [|o a IH]; intros b; simpl; [reflexivity|]. destruct o; simpl; rewrite ?IH; reflexivity. Qed.

Definition q0 (b : state) : list item := qitems (getq b 0).

Lemma q0_qpop : forall b, q0 (qpop b 0) = tl (q0 b).
Proof. intros b. unfold q0, qpop, getq, set_queues. simpl. destruct (queues b) as [|q t]; reflexivity. Qed.

Lemma q0_qtd : forall b, q0 (qtd b 0) = q0 b.
Proof. intros b. unfold q0, qtd, getq, set_queues. simpl. destruct (queues b) as [|q t]; reflexivity. Qed.

Lemma q0_qput : forall b it, q0 (qput b 0 it) = q0 b ++ [it] \/ q0 (qput b 0 it) = q0 b.
Proof. intros b it. unfold q0, qput, getq, set_queues. simpl. destruct (queues b) as [|q t]; simpl; auto. Qed.

Lemma q0_queues : forall b b', queues b' = queues b -> q0 b' = q0 b.
Proof. intros b b' H. unfold q0, getq. now rewrite H. Qed.

(* the call a worker thread is responsible for *)
Definition holdsb (i : nat) (pc : wpc) : bool :=
  match pc with
  | WSrnc k | WSend k | WRecv k | WSetRes k _
  | WEPoll k | WESend k | WERecv k | WEComm k | WETerm k | WEWait k | WETd k | WESetExc k => Nat.eqb i k
  | _ => false
  end.
Definition b2n (x : bool) : nat := if x then 1 else 0.
Fixpoint cntw (i : nat) (wl : list wthread) : nat :=
  match wl with
  | [] => 0
  | w :: t => b2n (holdsb i (wp w)) + cntw i t
  end.

Lemma cntw_app : forall i a b, cntw i (a ++ b) = cntw i a + cntw i b.
Proof. induction a as [|w a IH]; intros b; simpl; [reflexivity|rewrite IH; lia]. Qed.

Lemma cntw_upd : forall i wl j w w', nth_error wl j = Some w ->
  cntw i (upd wl j w') + b2n (holdsb i (wp w)) = cntw i wl + b2n (holdsb i (wp w')).
Proof.
  induction wl as [|a wl IH]; intros [|j] w w' H; simpl in *; try discriminate.
  - inversion H; subst. lia.
  - specialize (IH j w w' H). lia.
Qed.

Lemma cntw_ge : forall i wl j w, nth_error wl j = Some w -> holdsb i (wp w) = true -> 1 <= cntw i wl.
Proof.
  induction wl as [|a wl IH]; intros [|j] w H Hh; simpl in *; try discriminate.
  - inversion H; subst. rewrite Hh. simpl. lia.
  - specialize (IH j w H Hh). lia.
Qed.

Lemma cntw_two : forall i wl j w j2 w2, nth_error wl j = Some w -> nth_error wl j2 = Some w2 -> j <> j2 ->
  holdsb i (wp w) = true -> holdsb i (wp w2) = true -> 2 <= cntw i wl.
Proof.
  intros i wl j w j2 w2 H H2 Hne Hh Hh2.
  pose proof (cntw_upd i wl j w (mkW 0 0 WDone) H) as E. rewrite Hh in E. simpl in E.
  assert (H2' : nth_error (upd wl j (mkW 0 0 WDone)) j2 = Some w2) by (rewrite nth_error_upd_other by auto; exact H2).
  pose proof (cntw_ge i _ j2 w2 H2' Hh2). lia.
Qed.

Definition drainc (m : mpc) (i : nat) : nat :=
  match m with MDrainCancel _ k => if Nat.eqb i k then 1 else 0 | _ => 0 end.
(* where call i can be: still to be submitted, in the queue, being cancelled by the client's drain, held by a worker *)
Definition CT (b : state) (i : nat) : nat := occ i (submits (ops b)) + occ i (tasks (q0 b)) + drainc (main b) i.
Definition NN (b : state) (i : nat) : nat := CT b i + cntw i (ws b).

(* a process that has been asked for call i and has not yet run it *)
Definition pending (i : nat) (p : proc) : Prop := In (MCall i) (inbox p) \/ pp p = PBody i.

Record TI (b : state) : Prop := {
  T_q : forall j w, nth_error (ws b) j = Some w -> wq w = 0;
  T_n : forall i, NN b i <= 1 /\ (NN b i = 0 \/ (1 <= i /\ i <= length (futs b)));
  T_run : forall j w i, nth_error (ws b) j = Some w -> wp w = WSend i -> getf b i = FRunning;
  T_pend : forall k p i, nth_error (ps b) k = Some p -> pending i p ->
     1 <= i /\ getf b i = FRunning /\
     ((exists j w, nth_error (ws b) j = Some w /\ wp w = WRecv i /\ wproc w = S k) \/ NN b i = 0)
}.

Lemma holds_valid : forall b j w i, TI b -> nth_error (ws b) j = Some w -> holdsb i (wp w) = true ->
  1 <= NN b i /\ 1 <= i /\ i <= length (futs b).
Proof.
  intros b j w i H Hw Hh. pose proof (cntw_ge i _ _ _ Hw Hh) as Hc.
  assert (1 <= NN b i) by (unfold NN; lia). destruct (T_n _ H i) as [_ [E|E]]; [lia|]. tauto.
Qed.

Lemma two_holders : forall b j w j2 w2 i, TI b -> nth_error (ws b) j = Some w -> nth_error (ws b) j2 = Some w2 ->
  j <> j2 -> holdsb i (wp w) = true -> holdsb i (wp w2) = true -> False.
Proof.
  intros b j w j2 w2 i H Hw Hw2 Hne Hh Hh2. pose proof (cntw_two i _ _ _ _ _ Hw Hw2 Hne Hh Hh2).
  destruct (T_n _ H i) as [Hle _]. unfold NN in Hle. lia.
Qed.

(* a step of worker thread j that replaces its record w by w' *)
Lemma TI_worker : forall b b' j w w',
  TI b -> nth_error (ws b) j = Some w ->
  ws b' = upd (ws b) j w' -> wq w' = wq w -> ops b' = ops b -> main b' = main b ->
  length (futs b') = length (futs b) ->
  (forall i, occ i (tasks (q0 b')) <= occ i (tasks (q0 b))) ->
  (forall i, occ i (tasks (q0 b')) + b2n (holdsb i (wp w')) <= occ i (tasks (q0 b)) + b2n (holdsb i (wp w))) ->
  (forall i, getf b i = FRunning -> getf b' i = FRunning \/
       exists i', holdsb i' (wp w) = true /\ holdsb i' (wp w') = false /\ wp w <> WRecv i' /\ i' - 1 = i - 1) ->
  (forall i, wp w' = WSend i -> getf b' i = FRunning) ->
  (forall k p' i, nth_error (ps b') k = Some p' -> pending i p' ->
       (exists p, nth_error (ps b) k = Some p /\ pending i p) \/ (wp w = WSend i /\ wp w' = WRecv i /\ wproc w' = S k)) ->
  (forall i, wp w = WRecv i -> (wp w' = WRecv i /\ wproc w' = wproc w) \/ holdsb i (wp w') = false \/
       (forall p', nth_error (ps b') (wproc w - 1) = Some p' -> ~ pending i p')) ->
  TI b'.
Proof.
  intros b b' j w w' H Hw Hws Hq Hops Hmain Hlen Tk1 Tk2 HF HS PP PR.
  assert (F1 : forall i, cntw i (ws b') + b2n (holdsb i (wp w)) = cntw i (ws b) + b2n (holdsb i (wp w'))).
  { intros i. rewrite Hws. now apply cntw_upd. }
  assert (F2 : forall i, NN b' i <= NN b i).
  { intros i. unfold NN, CT. rewrite Hops, Hmain. specialize (F1 i). specialize (Tk2 i). lia. }
  assert (F3 : forall i, holdsb i (wp w) = true -> holdsb i (wp w') = false -> NN b' i = 0).
  { intros i Hh Hh'. destruct (T_n _ H i) as [Hle _]. pose proof (cntw_ge i _ _ _ Hw Hh) as Hc.
    unfold NN, CT in *. rewrite Hops, Hmain. specialize (F1 i). specialize (Tk1 i). rewrite Hh, Hh' in F1. simpl in F1. lia. }
  assert (Hlt : j < length (ws b)) by (apply nth_error_Some; rewrite Hw; discriminate).
  (* a future that is running stays so unless the stepping thread holds it *)
  assert (HR : forall i, getf b i = FRunning -> 1 <= i ->
                 ((exists j2 w2, j2 <> j /\ nth_error (ws b) j2 = Some w2 /\ holdsb i (wp w2) = true) \/ NN b i = 0 \/
                  holdsb i (wp w') = true \/ wp w = WRecv i) ->
                 getf b' i = FRunning).
  { intros i Hr Hi Hoth. destruct (HF i Hr) as [E|(i' & Hh & Hh' & Hnr & Eidx)]; [exact E|exfalso].
    destruct (holds_valid _ _ _ _ H Hw Hh) as (Hn1 & Hi' & _). assert (i' = i) by lia. subst i'.
    destruct Hoth as [(j2 & w2 & Hne & Hw2 & Hh2)|[E|[E|E]]].
    - apply (two_holders _ _ _ _ _ _ H Hw2 Hw Hne Hh2 Hh).
    - lia.
    - rewrite E in Hh'. discriminate.
    - contradiction. }
  constructor.
  - intros j2 w2 H2. rewrite Hws in H2. destruct (nth_error_upd _ _ _ _ _ H2) as [(E1 & E2 & _)|(E1 & E2)].
    + subst. rewrite Hq. apply (T_q _ H _ _ Hw).
    + apply (T_q _ H _ _ E2).
  - intros i. rewrite Hlen. destruct (T_n _ H i) as [Hle Hv]. specialize (F2 i). split; [lia|].
    destruct Hv as [E|E]; [left; lia|now right].
  - intros j2 w2 i H2 Hpc. rewrite Hws in H2. destruct (nth_error_upd _ _ _ _ _ H2) as [(E1 & E2 & _)|(E1 & E2)].
    + subst. now apply HS.
    + assert (Hh2 : holdsb i (wp w2) = true) by (rewrite Hpc; simpl; apply Nat.eqb_refl).
      destruct (holds_valid _ _ _ _ H E2 Hh2) as (_ & Hi & _).
      apply HR; [apply (T_run _ H _ _ _ E2 Hpc)|exact Hi|].
      left. exists j2, w2. auto.
  - intros k p' i Hk Hp. destruct (PP _ _ _ Hk Hp) as [(p & Hkp & Hpp)|(Ew & Ew' & Ek)].
    + destruct (T_pend _ H _ _ _ Hkp Hpp) as (Hi & Hr & Hown). split; [exact Hi|]. split.
      * apply HR; [exact Hr|exact Hi|].
        -- destruct Hown as [(j2 & w2 & Hw2 & Hpc2 & Hk2)|E]; [|now right; left].
           destruct (Nat.eq_dec j2 j) as [Ej|Ej].
           ++ subst j2. rewrite Hw in Hw2. inversion Hw2; subst. right. right. now right.
           ++ left. exists j2, w2. repeat split; auto. rewrite Hpc2. simpl. apply Nat.eqb_refl.
      * destruct Hown as [(j2 & w2 & Hw2 & Hpc2 & Hk2)|E]; [|right; specialize (F2 i); lia].
        destruct (Nat.eq_dec j2 j) as [Ej|Ej].
        -- subst j2. rewrite Hw in Hw2. inversion Hw2; subst w2.
           destruct (PR i Hpc2) as [[E1 E2]|[E|E]].
           ++ left. exists j, w'. rewrite Hws, nth_error_upd_same by exact Hlt. repeat split; auto. congruence.
           ++ right. apply F3; [rewrite Hpc2; simpl; apply Nat.eqb_refl|exact E].
           ++ exfalso. apply (E p'); [|exact Hp]. rewrite Hk2. simpl. rewrite Nat.sub_0_r. exact Hk.
        -- left. exists j2, w2. rewrite Hws, nth_error_upd_other by auto. auto.
    + assert (Hh : holdsb i (wp w) = true) by (rewrite Ew; simpl; apply Nat.eqb_refl).
      destruct (holds_valid _ _ _ _ H Hw Hh) as (_ & Hi & _). split; [exact Hi|]. split.
      * apply HR; [apply (T_run _ H _ _ _ Hw Ew)|exact Hi|].
        -- right. right. left. rewrite Ew'. simpl. apply Nat.eqb_refl.
      * left. exists j, w'. rewrite Hws, nth_error_upd_same by exact Hlt. auto.
Qed.

(* ---------- futures updated at one index ---------- *)
Lemma getf_setf_or : forall b b' i' f i, futs b' = setf b i' f -> getf b i = FRunning ->
  getf b' i = FRunning \/ i' - 1 = i - 1.
Proof.
  intros b b' i' f i E Hr. unfold getf in *. rewrite E. unfold setf.
  destruct (nth_upd_split (futs b) (i' - 1) f (i - 1) FPending) as [[E1 E2]|E2]; [right; lia|left; now rewrite E2].
Qed.

Lemma getf_setf_keep : forall b b' i' f i, futs b' = setf b i' f -> getf b i = FRunning ->
  getf b i' <> FRunning -> getf b' i = FRunning.
Proof.
  intros b b' i' f i E Hr Hn. destruct (getf_setf_or _ _ _ _ _ E Hr) as [H|H]; [exact H|].
  exfalso. apply Hn. unfold getf in *. now rewrite H.
Qed.

Lemma getf_setf_same : forall b b' i f, futs b' = setf b i f -> i <= length (futs b) -> 1 <= i -> getf b' i = f.
Proof.
  intros b b' i f E Hl Hi. unfold getf. rewrite E. unfold setf. apply nth_error_nth.
  apply nth_error_upd_same. lia.
Qed.

(* ---------- processes updated at one index ---------- *)
Lemma pend_upd : forall (pl : list proc) kk p',
  (forall p, nth_error pl kk = Some p -> forall i, pending i p' -> pending i p) ->
  forall k q i, nth_error (upd pl kk p') k = Some q -> pending i q ->
  exists p0, nth_error pl k = Some p0 /\ pending i p0.
Proof.
  intros pl kk p' Hf k q i Hk Hp. destruct (nth_error_upd _ _ _ _ _ Hk) as [(E1 & E2 & E3)|(E1 & E2)].
  - subst. destruct (nth_error pl kk) as [p|] eqn:Ep.
    + exists p. split; [reflexivity|]. now apply (Hf p eq_refl).
    + apply nth_error_None in Ep. lia.
  - exists q. auto.
Qed.

Ltac q0n b :=
  repeat match goal with
         | |- context [q0 ?x] =>
             tryif constr_eq x b then fail else idtac;
             first [ rewrite (q0_queues b x) by reflexivity
                   | rewrite (q0_queues (qtd b 0) x) by reflexivity; rewrite q0_qtd
                   | rewrite (q0_queues (qpop b 0) x) by reflexivity; rewrite q0_qpop ]
         end.

(* the premises of TI_worker that hold for most steps *)
Ltac tiw_easy b Hpc :=
  try reflexivity;
  try solve [simpl; unfold setf; rewrite ?upd_length; reflexivity];
  try solve [simpl; congruence];
  try solve [intros ii E; simpl in E; congruence];
  try solve [intros ii; q0n b; rewrite ?Hpc; simpl; lia];
  try solve [intros ii; q0n b; rewrite ?Hpc; simpl;
             match goal with
             | Hq : qitems (getq ?bb 0) = _ |- _ => change (qitems (getq bb 0)) with (q0 bb) in Hq; rewrite Hq
             end;
             simpl; repeat destruct (Nat.eqb _ _); simpl; lia];
  try solve [intros ii Hr; left; exact Hr];
  try solve [intros k p' ii Hk Hp; left; exists p'; split; [exact Hk|exact Hp]].

(* a future changed with setf *)
Ltac tiw_fut Hpc :=
  intros ii Hr;
  match goal with
  | |- getf ?bb ii = _ \/ _ =>
      match bb with
      | context [set_futs ?b0 (setf ?b0 ?i' ?f)] =>
          first [ left; apply (getf_setf_keep b0 bb i' f ii eq_refl Hr); congruence
                | destruct (getf_setf_or b0 bb i' f ii eq_refl Hr) as [E|E];
                  [left; exact E
                  |right; exists i'; rewrite Hpc; simpl; rewrite Nat.eqb_refl;
                   (split; [reflexivity|split; [reflexivity|split; [discriminate|exact E]]])] ]
      end
  end.

(* the stepping thread's process gets a message that is not a call, or loses a reply *)
Ltac tiw_proc :=
  intros k q ii Hk Hp; left; simpl in Hk; revert k q ii Hk Hp; apply pend_upd;
  intros p Ep ii Hp; rewrite (getp_nth _ _ _ Ep) in Hp; unfold pending in *; simpl in Hp;
  rewrite ?in_app_iff in Hp; simpl in Hp;
  repeat match goal with Hx : _ \/ _ |- _ => destruct Hx end; try discriminate; try contradiction; auto.

Lemma TI_w_step : forall c b j b' l, BI (ws b) (ps b) -> TI b -> w_step c b j = Some (b', l) ->
  TI b' /\ forall i, l <> LBody i.
Proof.
  intros c b j b' l HB HT Hst. unfold w_step in Hst.
  destruct (nth_error (ws b) j) as [w|] eqn:Hw; [|discriminate].
  pose proof (T_q _ HT _ _ Hw) as Hq0. cbv zeta in Hst. rewrite Hq0 in Hst.
  pose proof (B_own _ _ HB _ _ Hw) as Hown. pose proof (B_p1 _ _ HB _ _ Hw) as Hp1.
  destruct (wp w) eqn:Hpc; simpl in Hown, Hp1; step_cases Hst; inversion Hst; subst; clear Hst;
    (split; [|intros ii E; discriminate E]);
    try match goal with |- context [if ?x then _ else _] => destruct x end;
    eapply (TI_worker b _ j w _ HT Hw); tiw_easy b Hpc.
  all: try solve [tiw_fut Hpc].
  all: try solve [tiw_proc].
  - (* spawn: the new process has no request *)
    intros k q ii Hk Hp. left. simpl in Hk. destruct (nth_error_snoc _ _ _ _ Hk) as [E|[_ E]]; [exists q; auto|].
    subst q. destruct Hp as [Hp|Hp]; simpl in Hp; [contradiction|discriminate].
  - (* set_running_or_notify_cancel on a pending future *)
    intros ii E. simpl in E. inversion E; subst ii.
    match goal with
    | |- getf (wpc_to (set_futs _ (setf _ ?x _)) _ _ _) _ = _ =>
        destruct (holds_valid b j w x HT Hw) as (_ & Hi & Hl); [rewrite Hpc; simpl; apply Nat.eqb_refl|];
        apply (getf_setf_same b); [reflexivity|exact Hl|exact Hi]
    end.
  - (* the request is sent *)
    intros k q ii Hk Hp. simpl in Hk.
    destruct (nth_error_upd _ _ _ _ _ Hk) as [(E1 & E2 & E3)|(E1 & E2)]; [|left; exists q; auto].
    subst k q. destruct Hown as (p & Ep & Hpp & Hin & _). rewrite (getp_nth _ _ _ Ep) in Hp.
    unfold pending in Hp. simpl in Hp. rewrite Hin in Hp. simpl in Hp. destruct Hp as [[Hp|[]]|Hp].
    + inversion Hp; subst ii. right. split; [exact Hpc|]. split; [reflexivity|]. simpl. specialize (Hp1 eq_refl). lia.
    + destruct Hpp as [Hpp|Hpp]; congruence.
  - (* the reply is taken: the process is waiting for the next request *)
    intros ii E. right. right. intros q Hq Hp. simpl in Hq. destruct Hown as (p & Ep & Hb).
    rewrite (getp_nth _ _ _ Ep) in *. rewrite nth_error_upd_same in Hq by (apply nth_error_Some; rewrite Ep; discriminate).
    inversion Hq; subst q. unfold pending in Hp. simpl in Hp. unfold pbusy in Hb. hsplit; try congruence;
      match goal with Hx : inbox p = [], Hy : In _ (inbox p) |- _ => rewrite Hx in Hy; contradiction end.
  - intros ii E. right. right. intros q Hq Hp. simpl in Hq. destruct Hown as (p & Ep & Hb).
    rewrite (getp_nth _ _ _ Ep) in *. rewrite nth_error_upd_same in Hq by (apply nth_error_Some; rewrite Ep; discriminate).
    inversion Hq; subst q. unfold pending in Hp. simpl in Hp. unfold pbusy in Hb. hsplit; try congruence;
      match goal with Hx : inbox p = [], Hy : In _ (inbox p) |- _ => rewrite Hx in Hy; contradiction end.
Qed.

(* ---------- process steps ---------- *)
Lemma NN_frame : forall b b' i, ws b' = ws b -> ops b' = ops b -> main b' = main b -> queues b' = queues b ->
  NN b' i = NN b i.
Proof.
  intros b b' i Hws Hops Hmain Hq. unfold NN, CT. now rewrite Hws, Hops, Hmain, (q0_queues _ _ Hq).
Qed.

Lemma TI_proc : forall b b', TI b -> ws b' = ws b -> futs b' = futs b -> ops b' = ops b -> main b' = main b ->
  queues b' = queues b ->
  (forall k q i, nth_error (ps b') k = Some q -> pending i q -> exists p0, nth_error (ps b) k = Some p0 /\ pending i p0) ->
  TI b'.
Proof.
  intros b b' H Hws Hf Hops Hmain Hq PP.
  assert (HN : forall i, NN b' i = NN b i) by (intros i; now apply NN_frame).
  constructor.
  - rewrite Hws. apply (T_q _ H).
  - intros i. rewrite HN, Hf. apply (T_n _ H).
  - intros j w i Hw Hpc. rewrite Hws in Hw. rewrite (getf_futs _ _ _ Hf). apply (T_run _ H _ _ _ Hw Hpc).
  - intros k q i Hk Hp. destruct (PP _ _ _ Hk Hp) as (p0 & Hk0 & Hp0).
    rewrite (getf_futs _ _ _ Hf), HN, Hws. apply (T_pend _ H _ _ _ Hk0 Hp0).
Qed.

Lemma TI_p_step : forall c b k b' l, TI b -> p_step c b k = Some (b', l) ->
  TI b' /\ forall i, l = LBody i -> exists p, nth_error (ps b) (k - 1) = Some p /\ pp p = PBody i.
Proof.
  intros c b k b' l H Hst. unfold p_step in Hst.
  destruct (nth_error (ps b) (k - 1)) as [p|] eqn:Hp; [|discriminate].
  destruct (Nat.eqb k 0); [discriminate|].
  destruct (pp p) eqn:Hpp; step_cases Hst; inversion Hst; subst; clear Hst;
    (split; [|intros ii E; first [discriminate E|inversion E; subst; exists p; split; [reflexivity|exact Hpp]]]);
    (apply (TI_proc b); [exact H|reflexivity|reflexivity|reflexivity|reflexivity|reflexivity|]);
    simpl; apply pend_upd; intros p0 Ep0 ii Hpe; rewrite Hp in Ep0; inversion Ep0; subst p0;
    unfold pending in *; simpl in Hpe;
    repeat match goal with Hx : _ \/ _ |- _ => destruct Hx end; try discriminate; try contradiction; try congruence; try tauto;
    try (left; match goal with Hx : inbox p = _ |- _ => rewrite Hx end; simpl; first [tauto|left; congruence]).
Qed.

(* ---------- client steps ---------- *)
Definition main_ok (m : mpc) : Prop :=
  match m with MDrain _ | MDrainCancel _ _ | MDrainTd _ => False | _ => True end.

Lemma settle_spec : forall cl lk sub l acc l' acc' pc,
  settle cl lk sub l acc = (l', acc', pc) -> (exists pre, l = pre ++ l') /\ main_ok pc.
Proof.
  intros cl lk sub l. induction l as [|o t IH]; intros acc l' acc' pc H; simpl in H.
  - inversion H; subst. split; [now exists []|exact I].
  - assert (Hstop : (o :: t, acc, MOp) = (l', acc', pc) -> (exists pre, o :: t = pre ++ l') /\ main_ok pc).
    { intros E. inversion E; subst. split; [now exists []|exact I]. }
    assert (Hgo : forall a, settle cl lk sub t a = (l', acc', pc) -> (exists pre, o :: t = pre ++ l') /\ main_ok pc).
    { intros a E. destruct (IH _ _ _ _ E) as [(pre & Hp) Hm]. split; [exists (o :: pre); simpl; now rewrite Hp|exact Hm]. }
    destruct o as [i|i|i|w cf| |]; try (destruct cl; [eapply Hgo; eauto|now apply Hstop]);
      try (destruct (mem_nat i sub); [now apply Hstop|eapply Hgo; eauto]).
    destruct (cl || lk); [eapply Hgo; eauto|now apply Hstop].
Qed.

Lemma drainc_ok : forall m i, main_ok m -> drainc m i = 0.
Proof. intros m i H. destruct m; simpl in *; try reflexivity; contradiction. Qed.

Lemma CT_m_goto : forall s l x cl i, CT (m_goto s l x cl) i <= occ i (submits l) + occ i (tasks (q0 s)).
Proof.
  intros s l x cl i. unfold m_goto.
  destruct (settle cl _ (subm s) l (outs s ++ x)) as [[l' acc'] pc] eqn:E.
  apply settle_spec in E. destruct E as [(pre & Hp) Hm]. unfold CT. simpl. rewrite (drainc_ok _ _ Hm). subst l.
  rewrite submits_app, occ_app. change (q0 {| queues := queues s; futs := futs s; subm := subm s; main := pc; ops := l';
    closed := cl; ws := ws s; ps := ps s; outs := acc' |}) with (q0 s). lia.
Qed.

Lemma occ_submits_tl : forall i l, occ i (submits (tl l)) <= occ i (submits l).
Proof. intros i [|o l]; simpl; [lia|]. destruct o; simpl; lia. Qed.

Lemma CT_m_done : forall s x cl i, CT (m_done s x cl) i <= occ i (submits (tl (ops s))) + occ i (tasks (q0 s)).
Proof. intros s x cl i. apply CT_m_goto. Qed.

Lemma CT_m_done' : forall s x cl i, CT (m_done s x cl) i <= CT s i.
Proof.
  intros s x cl i. eapply Nat.le_trans; [apply CT_m_done|]. unfold CT. pose proof (occ_submits_tl i (ops s)). lia.
Qed.

Lemma CT_set_main : forall s m i, main_ok m -> CT (set_main s m) i <= CT s i.
Proof. intros s m i H. unfold CT. simpl. rewrite (drainc_ok _ _ H). change (q0 (set_main s m)) with (q0 s). lia. Qed.

Lemma CT_m_norm : forall c s i, CT (m_norm c s) i <= CT s i.
Proof.
  intros c s i. unfold m_norm. destruct (main s) as [| | | | | |w k|k| |]; try lia.
  - destruct k; [|lia]. destruct (cur_wait s); [|apply CT_m_done'].
    destruct (Nat.eqb (nworkers c) 0); apply CT_set_main; exact I.
  - destruct (Nat.eqb k (nworkers c)); [apply CT_set_main; exact I|lia].
Qed.

Lemma drain_step_CT : forall s w b' l, drain_step s w = Some (b', l) -> forall i, CT b' i <= CT s i.
Proof.
  intros s w b' l Hst i. unfold drain_step in Hst.
  destruct (qitems (getq s 0)) as [|it r] eqn:Eq; [discriminate|]. change (qitems (getq s 0)) with (q0 s) in Eq.
  destruct it as [k|sw]; inversion Hst; subst; clear Hst; unfold CT; simpl ops; simpl main;
    rewrite (q0_queues (qpop s 0)) by reflexivity; rewrite q0_qpop, Eq; simpl; lia.
Qed.

Ltac q0m b :=
  repeat match goal with
         | |- context [q0 ?x] =>
             tryif constr_eq x b then fail else idtac;
             tryif (match x with qput _ _ _ => idtac end) then fail else idtac;
             first [ rewrite (q0_queues b x) by reflexivity
                   | rewrite (q0_queues (qtd b 0) x) by reflexivity; rewrite q0_qtd
                   | rewrite (q0_queues (qpop b 0) x) by reflexivity; rewrite q0_qpop
                   | match x with
                     | context [Task ?i] => rewrite (q0_queues (qput b 0 (Task i)) x) by reflexivity
                     | context [Shut ?w] => rewrite (q0_queues (qput b 0 (Shut w)) x) by reflexivity
                     end ]
         end.

Lemma m_step_CT : forall c b b' l, m_step c b = Some (b', l) -> forall i, CT b' i <= CT b i.
Proof.
  intros c b b' l Hst. unfold m_step in Hst.
  destruct (main b) eqn:Hm.
  all: step_cases Hst; inversion Hst; subst; clear Hst; intros ii.
  all: try match goal with Hd : drain_step _ _ = Some _ |- _ => apply (drain_step_CT _ _ _ _ Hd) end.
  all: repeat match goal with
    | |- CT (m_norm _ _) _ <= _ => eapply Nat.le_trans; [apply CT_m_norm|]
    | |- CT (m_done _ _ _) _ <= _ => eapply Nat.le_trans; [apply CT_m_done|]
    | |- CT (m_goto _ _ _ _) _ <= _ => eapply Nat.le_trans; [apply CT_m_goto|]
    end.
  all: unfold CT; simpl ops; simpl main; rewrite ?Hm; q0m b;
    try match goal with |- context [q0 (qput ?bb 0 ?it)] => destruct (q0_qput bb it) as [Eq|Eq]; rewrite Eq end;
    try match goal with Ho : ops _ = _ |- _ => rewrite Ho end;
    rewrite ?submits_app, ?tasks_app, ?occ_app; simpl; try lia.
  all: match goal with |- context [tl (ops ?bb)] => pose proof (occ_submits_tl ii (ops bb)) end; lia.
Qed.

Lemma TI_client : forall b b', TI b ->
  (ws b' = ws b \/ ws b' = ws b ++ [mkW 0 0 WBegin]) -> ps b' = ps b ->
  length (futs b') = length (futs b) -> (forall i, getf b i = FRunning -> getf b' i = FRunning) ->
  (forall i, CT b' i <= CT b i) -> TI b'.
Proof.
  intros b b' H Hws Hps Hlen Hr Hct.
  assert (Hnth : forall j w, nth_error (ws b) j = Some w -> nth_error (ws b') j = Some w).
  { intros j w Hw. destruct Hws as [E|E]; rewrite E; [exact Hw|].
    rewrite nth_error_app1; [exact Hw|]. apply nth_error_Some. rewrite Hw. discriminate. }
  assert (Hnth' : forall j w, nth_error (ws b') j = Some w -> nth_error (ws b) j = Some w \/ w = mkW 0 0 WBegin).
  { intros j w Hw. destruct Hws as [E|E]; rewrite E in Hw; [now left|].
    destruct (nth_error_snoc _ _ _ _ Hw) as [E1|[_ E1]]; auto. }
  assert (HN : forall i, NN b' i <= NN b i).
  { intros i. unfold NN. specialize (Hct i). destruct Hws as [E|E]; rewrite E; [lia|].
    rewrite cntw_app. simpl. lia. }
  constructor.
  - intros j w Hw. destruct (Hnth' _ _ Hw) as [E|E]; [apply (T_q _ H _ _ E)|now subst].
  - intros i. rewrite Hlen. destruct (T_n _ H i) as [Hle Hv]. specialize (HN i). split; [lia|].
    destruct Hv as [E|E]; [left; lia|now right].
  - intros j w i Hw Hpc. destruct (Hnth' _ _ Hw) as [E|E]; [|subst; discriminate Hpc].
    apply Hr. apply (T_run _ H _ _ _ E Hpc).
  - intros k p i Hk Hp. rewrite Hps in Hk. destruct (T_pend _ H _ _ _ Hk Hp) as (Hi & Hrun & Hown).
    split; [exact Hi|]. split; [now apply Hr|].
    destruct Hown as [(j & w & Hw & Hpc & Hk2)|E]; [left; exists j, w; auto|right; specialize (HN i); lia].
Qed.

Lemma TI_m_step : forall c b b' l, TI b -> m_step c b = Some (b', l) -> TI b' /\ forall i, l <> LBody i.
Proof.
  intros c b b' l H Hst. destruct (m_step_wps _ _ _ _ Hst) as [Hw _].
  pose proof (m_step_fut _ _ _ _ Hst) as Hf. split.
  - apply (TI_client b); [exact H| | | | |].
    + destruct Hw as [E|E]; unfold wps in E; inversion E; auto.
    + destruct Hw as [E|E]; unfold wps in E; inversion E; auto.
    + apply (fut_step_len _ _ _ Hf).
    + intros i Hr. apply (fut_step_keeps _ (fun f => f = FRunning) b b' i) with (2 := Hf); [|exact Hr].
      intros f f' E1 E2. subst. reflexivity.
    + apply (m_step_CT _ _ _ _ Hst).
  - intros i E. subst l. unfold m_step in Hst. step_cases Hst; inversion Hst; subst;
      match goal with
      | Hd : drain_step _ _ = Some _ |- _ => unfold drain_step in Hd; step_cases Hd; inversion Hd
      end.
Qed.

(* ---------- the cached worker thread ---------- *)
Lemma TI_cw_step : forall c s j s' l, CI s -> TI (cb s) -> cw_step c s j = Some (s', l) ->
  TI (cb s') /\ forall i, l <> FL (LBody i).
Proof.
  intros c s j s' l HC HT Hst. unfold cw_step in Hst.
  destruct (nth_error (ws (cb s)) j) as [w|] eqn:Hw; [|discriminate].
  pose proof (C_ov _ HC _ _ Hw) as Hok. pose proof (C_b _ HC) as HB.
  destruct (getov s j) as [|i|i|i|flag i|flag i|i v|i v d|ok i v] eqn:Hov; simpl in Hok.
  - destruct (w_step (cbase c) (cb s) j) as [[b' l']|] eqn:Hws; [|discriminate]. inversion Hst; subst; clear Hst.
    destruct (TI_w_step _ _ _ _ _ HB HT Hws) as [HT' Hl]. split; [exact HT'|].
    intros i E. inversion E; subst. now apply (Hl i).
  - destruct (fs_has (cfs s) (cpath c i)); inversion Hst; subst; clear Hst; (split; [exact HT|intros i0 E; discriminate E]).
  - destruct (fs_get (cfs s) (cpath c i)) as [l0|]; inversion Hst; subst; clear Hst; (split; [|intros i0 E; discriminate E]);
      [exact HT|]. simpl. eapply (TI_worker (cb s) _ j w _ HT Hw); tiw_easy (cb s) Hok.
  - inversion Hst; subst; clear Hst. (split; [exact HT|intros i0 E; discriminate E]).
  - inversion Hst; subst; clear Hst. (split; [exact HT|intros i0 E; discriminate E]).
  - destruct (getf (cb s) i) eqn:Hg; inversion Hst; subst; clear Hst; (split; [|intros i0 E; discriminate E]); simpl;
      eapply (TI_worker (cb s) _ j w _ HT Hw); tiw_easy (cb s) Hok; tiw_fut Hok.
  - destruct (fs_has (cfs s) (cpath c i)); inversion Hst; subst; clear Hst; (split; [exact HT|intros i0 E; discriminate E]).
  - destruct (fs_get (cfs s) (cpath c i)) as [l0|]; [destruct (has_ds d l0)|]; inversion Hst; subst; clear Hst;
      (split; [exact HT|intros i0 E; discriminate E]).
  - destruct ok; inversion Hst; subst; clear Hst; (split; [|intros i0 E; discriminate E]); [exact HT|].
    simpl. eapply (TI_worker (cb s) _ j w _ HT Hw); tiw_easy (cb s) Hok.
Qed.

Lemma TI_kill : forall s j, TI (cb s) -> TI (cb (kill_worker s j)).
Proof.
  intros s j HT. unfold kill_worker. destruct (nth_error (ws (cb s)) j) as [w|] eqn:Hw; [|exact HT].
  simpl. eapply (TI_worker (cb s) _ j w _ HT Hw); tiw_easy (cb s) Hw.
Qed.

(* ---------- reachable states ---------- *)
Definition CTI (s : cstate) : Prop := CI s /\ TI (cb s).

Lemma CTI_cstep : forall c s t s' l, CTI s -> cstep c s t = Some (s', l) ->
  CTI s' /\ forall i, l = FL (LBody i) -> exists k p, t = TP k /\ nth_error (ps (cb s)) (k - 1) = Some p /\ pp p = PBody i.
Proof.
  intros c s t s' l [HC HT] Hst. split; [split|].
  - apply (CI_cstep _ _ _ _ _ HC Hst).
  - destruct t as [| | |j|k]; simpl in Hst; try discriminate Hst.
    + destruct (m_step (cbase c) (cb s)) as [[b l1]|] eqn:Hm; [|discriminate]. inversion Hst; subst; clear Hst.
      simpl. apply (TI_m_step _ _ _ _ HT Hm).
    + destruct j as [|j]; [discriminate|]. apply (TI_cw_step _ _ _ _ _ HC HT Hst).
    + destruct (p_step (cbase c) (cb s) k) as [[b l1]|] eqn:Hp; [|discriminate]. inversion Hst; subst; clear Hst.
      simpl. apply (TI_p_step _ _ _ _ _ HT Hp).
  - intros i E. subst l. destruct t as [| | |j|k]; simpl in Hst; try discriminate Hst.
    + destruct (m_step (cbase c) (cb s)) as [[b l1]|] eqn:Hm; [|discriminate]. inversion Hst; subst; clear Hst.
      exfalso. destruct (TI_m_step _ _ _ _ HT Hm) as [_ Hl]. now apply (Hl i).
    + destruct j as [|j]; [discriminate|]. exfalso. destruct (TI_cw_step _ _ _ _ _ HC HT Hst) as [_ Hl]. now apply (Hl i).
    + destruct (p_step (cbase c) (cb s) k) as [[b l1]|] eqn:Hp; [|discriminate]. inversion Hst; subst; clear Hst.
      destruct (TI_p_step _ _ _ _ _ HT Hp) as [_ Hl]. destruct (Hl i eq_refl) as (p & Ep & Hpp).
      exists k, p. auto.
Qed.

Lemma CTI_ctrans : forall c s s', CTI s -> ctrans c s s' -> CTI s'.
Proof.
  intros c s s' H Ht. destruct Ht as [s t s' l Hst|s j].
  - apply (CTI_cstep _ _ _ _ _ H Hst).
  - destruct H as [HC HT]. split; [now apply CI_kill|now apply TI_kill].
Qed.

Lemma CTI_reach : forall c s0 s, CTI s0 -> creach c s0 s -> CTI s.
Proof.
  intros c s0 s H Hr. induction Hr as [s|s s' s'' H1 IH H2]; [exact H|].
  eapply CTI_ctrans; [apply IH; exact H|exact H2].
Qed.

Lemma TI_init : forall n prog, wf_prog n prog -> TI (init n prog).
Proof.
  intros n prog (Hnd & Hrange & _). constructor; simpl.
  - intros j w Hw. destruct j; discriminate Hw.
  - intros i. unfold NN, CT. simpl. rewrite repeat_length. pose proof (occ_NoDup i _ Hnd) as Hle.
    split; [lia|]. destruct (occ i (submits prog)) eqn:Eo; [left; reflexivity|right].
    apply Hrange. apply occ_In. lia.
  - intros j w i Hw. destruct j; discriminate Hw.
  - intros k p i Hk. destruct k; discriminate Hk.
Qed.

Lemma CTI_init : forall n prog fs0, wf_prog n prog -> CTI (cinit n prog fs0).
Proof. intros n prog fs0 H. split; [apply CI_init|simpl; now apply TI_init]. Qed.

(* (1): the body of call i is entered only while its future is running.
   Added premise: wf_prog n prog (every call id is between 1 and n and is submitted at most once);
   it is necessary, see body_needs_wf_prog below. *)
Theorem cache_body_needs_running : forall c n prog fs0 s t s' i,
  wf_prog n prog ->
  creach c (cinit n prog fs0) s -> cstep c s t = Some (s', FL (LBody i)) -> getf (cb s) i = FRunning.
Proof.
  intros c n prog fs0 s t s' i Hwf Hr Hst.
  pose proof (CTI_reach _ _ _ (CTI_init n prog fs0 Hwf) Hr) as H.
  destruct (CTI_cstep _ _ _ _ _ H Hst) as [_ Hl]. destruct (Hl i eq_refl) as (k & p & _ & Ep & Hpp).
  destruct H as [_ HT]. destruct (T_pend _ HT _ _ i Ep) as (_ & Hrun & _); [right; exact Hpp|exact Hrun].
Qed.

Lemma creach_trans : forall c s1 s2 s3, creach c s1 s2 -> creach c s2 s3 -> creach c s1 s3.
Proof.
  intros c s1 s2 s3 H1 H2. induction H2 as [s2|s2 s3 s4 H2 IH H3]; [exact H1|].
  eapply cr_step; [apply IH; exact H1|exact H3].
Qed.

Lemma cancelled_stable_trans : forall c s s' i, ctrans c s s' -> canc (getf (cb s) i) -> canc (getf (cb s') i).
Proof.
  intros c s s' i Ht Hc. destruct Ht as [s t s' l Hst|s j].
  - apply (cache_cancelled_is_stable _ _ _ _ _ _ Hst Hc).
  - unfold kill_worker. destruct (nth_error (ws (cb s)) j) as [w|]; exact Hc.
Qed.

Lemma cancelled_stable_reach : forall c s s' i, creach c s s' -> canc (getf (cb s) i) -> canc (getf (cb s') i).
Proof.
  intros c s s' i Hr Hc. induction Hr as [s|s s' s'' H1 IH H2]; [exact Hc|].
  eapply cancelled_stable_trans; [exact H2|apply IH; exact Hc].
Qed.

(* (3) *)
Corollary cache_cancelled_never_executed : forall c n prog fs0 s s' t u i,
  wf_prog n prog ->
  creach c (cinit n prog fs0) s ->
  (getf (cb s) i = FCancelled \/ getf (cb s) i = FCancelledN) ->
  creach c s s' -> cstep c s' t = Some (u, FL (LBody i)) -> False.
Proof.
  intros c n prog fs0 s s' t u i Hwf Hr Hc Hr' Hst.
  pose proof (cancelled_stable_reach _ _ _ i Hr' Hc) as Hc'.
  pose proof (cache_body_needs_running _ _ _ _ _ _ _ _ Hwf (creach_trans _ _ _ _ Hr Hr') Hst) as Hrun.
  destruct Hc' as [E|E]; rewrite Hrun in E; discriminate E.
Qed.

(* ================================================================== *)
(* (4) finding D18: a hit on a cancelled future kills the worker thread *)
(* ================================================================== *)
Definition d18_cfg : ccfg := mkCC (mkC 1 (fun _ => false)) (fun i => match i with 2 => 1 | _ => i end).
Definition d18_prog : list op := [OSubmit 1; OResult 1; OSubmit 2; OCancel 2].
Definition d18_sched : list tid :=
  [TM; TM; TW 1; TW 1; TM;                           (* start W1, spawn P1, submit 1 *)
   TW 1; TW 1; TW 1; TW 1; TP 1; TP 1; TP 1; TP 1;   (* W1: get T1, listdir (miss), set_running, send; P1 runs call 1 *)
   TW 1; TW 1; TW 1; TW 1; TW 1; TW 1; TW 1; TW 1; TW 1;  (* W1: recv, dump (open-a, 4 datasets, close), set_result, task_done *)
   TM; TM; TM;                                       (* result 1; submit 2; cancel 2 (queued: returns True) *)
   TW 1; TW 1; TW 1; TW 1; TW 1].                    (* W1: get T2, listdir (hit), open-r, read output, close *)
Definition d18_state : cstate :=
  match crun d18_cfg d18_sched (cinit 2 d18_prog []) with Some s => s | None => cinit 2 d18_prog [] end.

Example cancelled_hit_kills_worker :
  wf_prog 2 d18_prog /\ ccanon d18_cfg 2 = ccanon d18_cfg 1 /\
  crun d18_cfg d18_sched (cinit 2 d18_prog []) = Some d18_state /\       (* steps only: no kill *)
  creach d18_cfg (cinit 2 d18_prog []) d18_state /\
  getov d18_state 0 = CHitSet true 2 /\ getf (cb d18_state) 2 = FCancelled /\
  outs (cb d18_state) = [XOk; XRes 1; XOk; XBool true] /\                (* cancel() returned True *)
  exists s', cstep d18_cfg d18_state (TW 1) = Some (s', FL (LSetRes 2 1)) /\
    getf (cb s') 2 = FCancelled /\                                       (* the future is not changed *)
    map wp (ws (cb s')) = [WDead] /\                                     (* the thread dies (InvalidStateError) *)
    palive (getp (cb s') 1) = true /\                                    (* its process is still alive *)
    cenabled d18_cfg s' = [TM].                                          (* only the client can still move *)
Proof.
  split; [|split; [reflexivity|split; [vm_compute; reflexivity|split; [|split; [|split; [|split]]]]]].
  - split; [|split].
    + simpl. constructor; [intros [E|[]]; discriminate E|]. constructor; [intros []|constructor].
    + simpl. intros i [E|[E|[]]]; subst; lia.
    + simpl. intros [E|[E|[E|[E|[]]]]]; discriminate E.
  - apply crun_reach with (l := d18_sched). vm_compute. reflexivity.
  - vm_compute. reflexivity.
  - vm_compute. reflexivity.
  - vm_compute. reflexivity.
  - eexists. split; [vm_compute; reflexivity|]. repeat split; vm_compute; reflexivity.
Qed.

(* ================================================================== *)
(* the hypothesis wf_prog of (1) and (3) is necessary                  *)
(* ================================================================== *)
(* (a) a call id outside 1..n has no future: set_running_or_notify_cancel has no effect *)
Definition cea_cfg : ccfg := mkCC (mkC 1 (fun _ => false)) (fun i => i).
Definition cea_prog : list op := [OSubmit 1].
Definition cea_sched : list tid := [TM; TM; TW 1; TW 1; TM; TW 1; TW 1; TW 1; TW 1; TP 1; TP 1].
Definition cea_state : cstate :=
  match crun cea_cfg cea_sched (cinit 0 cea_prog []) with Some s => s | None => cinit 0 cea_prog [] end.

Example body_needs_ids_in_range :
  NoDup (submits cea_prog) /\ creach cea_cfg (cinit 0 cea_prog []) cea_state /\
  exists s', cstep cea_cfg cea_state (TP 1) = Some (s', FL (LBody 1)) /\ getf (cb cea_state) 1 = FPending.
Proof.
  split; [|split].
  - simpl. constructor; [intros []|constructor].
  - apply crun_reach with (l := cea_sched). vm_compute. reflexivity.
  - eexists. split; vm_compute; reflexivity.
Qed.

(* (b) the same call id submitted twice (ids in range): while the process of the first submission
   still holds the request, the second submission is served from the cache (an identical call 3 has
   completed the entry) and completes the future; the body of call 1 then runs for a finished future *)
Definition ceb_cfg : ccfg := mkCC (mkC 3 (fun _ => false)) (fun i => match i with 3 => 1 | _ => i end).
Definition ceb_prog : list op := [OSubmit 1; OSubmit 3; OSubmit 1].
Definition ceb_sched : list tid :=
  [TM; TM; TM; TM; TW 1; TW 1; TW 2; TW 2; TW 3; TW 3; TM; TM; TM;
   TW 1; TW 1; TW 1; TW 1;                                  (* W1: get T1, miss, set_running, send *)
   TW 2; TW 2; TW 2; TW 2; TP 2; TP 2; TP 2; TP 2;          (* W2 / P2: call 3 *)
   TW 2; TW 2; TW 2; TW 2; TW 2; TW 2; TW 2;                (* W2: recv, complete dump *)
   TW 3; TW 3; TW 3; TW 3; TW 3; TW 3;                      (* W3: get T1 again, hit, set_result *)
   TP 1; TP 1].                                             (* P1: begin, recv *)
Definition ceb_state : cstate :=
  match crun ceb_cfg ceb_sched (cinit 3 ceb_prog []) with Some s => s | None => cinit 3 ceb_prog [] end.

Example body_needs_distinct_submits :
  (forall i, In i (submits ceb_prog) -> 1 <= i <= 3) /\ ~ In ODrop ceb_prog /\
  creach ceb_cfg (cinit 3 ceb_prog []) ceb_state /\
  exists s', cstep ceb_cfg ceb_state (TP 1) = Some (s', FL (LBody 1)) /\ getf (cb ceb_state) 1 = FRes 1.
Proof.
  split; [|split; [|split]].
  - simpl. intros i [E|[E|[E|[]]]]; subst; lia.
  - simpl. intros [E|[E|[E|[]]]]; discriminate E.
  - apply crun_reach with (l := ceb_sched). vm_compute. reflexivity.
  - eexists. split; vm_compute; reflexivity.
Qed.

(* ================================================================== *)
Print Assumptions cache_body_needs_running.
Print Assumptions cache_cancelled_is_stable.
Print Assumptions cache_cancelled_never_executed.
Print Assumptions cancelled_hit_kills_worker.
Print Assumptions body_needs_ids_in_range.
Print Assumptions body_needs_distinct_submits.
