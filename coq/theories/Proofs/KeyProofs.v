(* C08: the cache key  fn.__name__ + md5(blank(cloudpickle(call)))  identifies calls only up to the
   kernel-id digits, given no md5 collision among the calls considered and an injective
   serialisation.  md5 and cloudpickle enter as Section variables with named hypotheses. *)
From Coq Require Import List Bool Arith Ascii Lia.
From EL Require Import Model.Blank Proofs.BlankProofs.
Import ListNotations.

Section Key.
  Variable call : Type.
  Variable name_of : call -> bytes.              (* fn.__name__ *)
  Variable ser : call -> bytes.                  (* cloudpickle.dumps({fn, args, kwargs, resource_dict}) *)
  Variable H : bytes -> bytes.                   (* md5 hex digest *)
  Hypothesis H_len : forall x, length (H x) = 32.

  Definition key (c : call) : bytes := name_of c ++ H (blank (ser c)).

  Lemma app_inv_len {A} (a b c d : list A) : a ++ b = c ++ d -> length b = length d -> a = c /\ b = d.
  Proof.
    revert c. induction a as [|x a IH]; intros c E L.
    - destruct c as [|y c]; [split; [reflexivity|exact E]|].
      simpl in E. assert (length b = length (y :: c ++ d)) by (rewrite E; reflexivity).
      simpl in H0. rewrite app_length in H0. lia.
    - destruct c as [|y c].
      + simpl in E. assert (length (x :: a ++ b) = length d) by (rewrite E; reflexivity).
        simpl in H0. rewrite app_length in H0. lia.
      + simpl in E. inversion E; subst. destruct (IH c H2 L) as [-> ->]. split; reflexivity.
  Qed.

  (* equal keys: same function name and, unless md5 collides on these two inputs, serialised
     calls that are equal up to kernel-id digits *)
  Theorem key_sound (c1 c2 : call) :
    (H (blank (ser c1)) = H (blank (ser c2)) -> blank (ser c1) = blank (ser c2)) ->
    key c1 = key c2 -> name_of c1 = name_of c2 /\ digits_equiv (ser c1) (ser c2).
  Proof.
    intros Hinj E. unfold key in E.
    destruct (app_inv_len _ _ _ _ E) as [En Eh]; [rewrite !H_len; reflexivity|].
    split; [exact En|]. apply blank_sound. apply Hinj. exact Eh.
  Qed.

  (* with an injective serialisation: the same call, unless the serialised forms differ only in
     kernel-id digits *)
  Corollary key_sound_call (c1 c2 : call) :
    (forall a b, ser a = ser b -> a = b) ->
    (H (blank (ser c1)) = H (blank (ser c2)) -> blank (ser c1) = blank (ser c2)) ->
    key c1 = key c2 -> c1 = c2 \/ (ser c1 <> ser c2 /\ digits_equiv (ser c1) (ser c2)).
  Proof.
    intros Hs Hinj E. destruct (key_sound c1 c2 Hinj E) as [_ Hd].
    destruct (list_eq_dec Ascii.ascii_dec (ser c1) (ser c2)) as [Es|Es]; [left; apply Hs; exact Es|right; split; assumption].
  Qed.

  (* determinism: the key is a function of the serialised form and the name (C09) *)
  Theorem key_deterministic (c1 c2 : call) : name_of c1 = name_of c2 -> ser c1 = ser c2 -> key c1 = key c2.
  Proof. intros E1 E2. unfold key. rewrite E1, E2. reflexivity. Qed.
End Key.
