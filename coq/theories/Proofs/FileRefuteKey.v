(* Finding D27 as a theorem on the lockstep-tied file-executor model (Model/FileExec.v): the key of a call
   with a Future argument is a tree - the producer's key when the producer is still registered in
   memory_dict at conversion time, "the value" when it has already finished and been dropped.  Two
   sessions over one directory submit the same two calls g(1) and f(g(1)); in the second session the
   consumer is submitted after the producer's future completed: the directory ends up with TWO complete
   entries for the call f(g(1)) and its function body ran in both sessions.  The replayed picks are
   those of a run of the real code under the simulator (corpus-like witness, 154 steps). *)
From Coq Require Import List Bool Arith.
From EL Require Import Model.Exec Model.StepExec Model.FileExec Model.FileShow.
Import ListNotations.

Definition d27_cfg : fcfg :=
  mkFC (fun i => nth (i - 1) [[]; [1]; []; [3]] []) (fun i => nth (i - 1) [1; 2; 1; 2] i).

Definition d27_sessions : list (list op * list fpick) := ([([OSubmit 1; OSubmit 2; OResult 2; OShutdown true false], [PK TM; PK TM; PK TM; PK TM; PK TD; PK TD; PK TD; PK TD; PK TD; PK TD; PK TD; PK TD; PK TD; PK TD; PK TD; PK (TP 1); PK (TP 1); PK (TP 1); PK TD; PK TD; PK TD; PK TD; PK (TP 1); PK TD; PK (TP 1); PK (TP 1); PK (TP 1); PK (TP 1); PK (TP 1); PK TD; PK (TP 1); PK (TP 1); PK (TP 1); PK TD; PK TD; PK TD; PK TD; PK TD; PK TD; PK (TP 2); PK TD; PK (TP 2); PK (TP 2); PK (TP 2); PK TD; PK (TP 2); PK TD; PK (TP 2); PK (TP 2); PK (TP 2); PK TD; PK TD; PK (TP 2); PK (TP 2); PK (TP 2); PK TD; PK (TP 2); PK TD; PK TD; PK (TP 2); PK (TP 2); PK (TP 2); PK TD; PK TD; PK TD; PK TD; PK TD; PK TD; PK TD; PK TM; PK TM; PK TD; PK TD; PK TD; PK TD; PK TD; PK TD; PK TD; PK TD; PK TD; PK TM; PK TM]); ([OSubmit 3; OResult 3; OSubmit 4; OResult 4; OShutdown true false], [PK TM; PK TM; PK TM; PK TD; PK TD; PK TD; PK TD; PK TD; PK TD; PK TD; PK TD; PK TD; PK TD; PK TD; PK TD; PK TM; PK TM; PK TD; PK TD; PK TD; PK TD; PK TD; PK TD; PK TD; PK TD; PK TD; PK TD; PK TD; PK TD; PK TD; PK TD; PK TD; PK (TP 1); PK (TP 1); PK TD; PK TD; PK (TP 1); PK TD; PK TD; PK TD; PK (TP 1); PK TD; PK (TP 1); PK TD; PK TD; PK TD; PK TD; PK (TP 1); PK (TP 1); PK (TP 1); PK TD; PK (TP 1); PK (TP 1); PK TD; PK (TP 1); PK (TP 1); PK TD; PK TD; PK TD; PK TD; PK TD; PK TM; PK TD; PK TM; PK TD; PK TD; PK TD; PK TD; PK TD; PK TD; PK TM; PK TM])])%nat.

(* final directory and the number of executions of call [cid]'s body, over the sessions *)
Fixpoint count_body (cid : nat) (c : fcfg) (picks : list fpick) (s : fstateX) : nat * fstateX :=
  match picks with
  | [] => (0, s)
  | PCrash n :: rest => count_body cid c rest (kill_proc s n)
  | PK t :: rest =>
      match fstep c s t with
      | Some (s', l) =>
          let '(k, sf) := count_body cid c rest s' in
          ((match l with FL (LBody j) => if Nat.eqb j cid then 1 else 0 | _ => 0 end) + k, sf)
      | None => (0, s)
      end
  end.

Fixpoint sess_run (cid : nat) (c : fcfg) (ncalls : nat) (sess : list (list op * list fpick)) (fs : fsys) : list nat * fsys :=
  match sess with
  | [] => ([], fs)
  | (prog, picks) :: rest =>
      let '(k, sf) := count_body cid c picks (finit ncalls prog fs) in
      let '(ks, ff) := sess_run cid c ncalls rest (fsy sf) in
      (k :: ks, ff)
  end.

Definition complete_entries_of (cid : nat) (fs : fsys) : list path :=
  map fst (filter (fun e => match snd (fst e) with
                            | EOut => Nat.eqb (fst (fst (fst e))) cid && has_ds DOut (snd e)
                            | _ => false
                            end) fs).

(* the function of call 2 = f(g(1)) is executed once in EACH session, and the directory finally holds two
   complete result files for it *)
Example same_call_two_keys :
  let '(bodies, fs) := sess_run 2 d27_cfg 4 d27_sessions [] in
  bodies = [1; 1] /\ length (complete_entries_of 2 fs) = 2.
Proof. vm_compute. split; reflexivity. Qed.
