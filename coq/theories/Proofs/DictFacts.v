(* Facts about PyLib dictionaries whose keys are strings, stated against plain association
   lists; reused by every proof over translated dictionary code (C15, C10, C19). *)
From Coq Require Import ZArith String Ascii List Bool Lia.
From EL Require Import Base.Dec Base.PyLib.
Import ListNotations.
Local Open Scope string_scope.
Local Open Scope list_scope.

Definition sal := list (string * pyval).

Definition kvs (l : sal) : list (pyval * pyval) := List.map (fun p => (VStr (fst p), snd p)) l.
Definition sdict (l : sal) : pyval := VDict (kvs l).

Fixpoint assoc (x : string) (l : sal) : option pyval :=
  match l with
  | [] => None
  | (k, v) :: t => if String.eqb x k then Some v else assoc x t
  end.

Fixpoint aset (x : string) (v : pyval) (l : sal) : sal :=
  match l with
  | [] => [(x, v)]
  | (k, w) :: t => if String.eqb x k then (k, v) :: t else (k, w) :: aset x v t
  end.

Fixpoint adel (x : string) (l : sal) : sal :=
  match l with
  | [] => []
  | (k, w) :: t => if String.eqb x k then t else (k, w) :: adel x t
  end.

Definition aupdate (d e : sal) : sal := List.fold_left (fun acc p => aset (fst p) (snd p) acc) e d.

Definition keys (l : sal) : list string := List.map fst l.

Lemma dict_find_kvs x l : dict_find (VStr x) (kvs l) = assoc x l.
Proof. induction l as [|[k v] t IH]; simpl; [reflexivity|]. rewrite IH. reflexivity. Qed.

Lemma dict_set_kvs x v l : dict_set_l (VStr x) v (kvs l) = kvs (aset x v l).
Proof.
  induction l as [|[k w] t IH]; simpl; [reflexivity|].
  destruct (String.eqb x k); simpl; [reflexivity|]. rewrite IH. reflexivity.
Qed.

Lemma dict_del_kvs x l : dict_del_l (VStr x) (kvs l) = kvs (adel x l).
Proof.
  induction l as [|[k w] t IH]; simpl; [reflexivity|].
  destruct (String.eqb x k); simpl; [reflexivity|]. rewrite IH. reflexivity.
Qed.

Lemma update_kvs d e :
  List.fold_left (fun acc kv => dict_set_l (fst kv) (snd kv) acc) (kvs e) (kvs d) = kvs (aupdate d e).
Proof.
  unfold aupdate. revert d. induction e as [|[k v] t IH]; intros d; simpl; [reflexivity|].
  rewrite dict_set_kvs. apply IH.
Qed.

Lemma py_dict_update_s d e : py_dict_update (sdict d) (sdict e) = Ok (sdict (aupdate d e)).
Proof. unfold py_dict_update, sdict. rewrite update_kvs. reflexivity. Qed.

Lemma py_getitem_s d x : py_getitem (sdict d) (VStr x) = match assoc x d with Some v => Ok v | None => Err "KeyError" end.
Proof. unfold py_getitem, sdict. rewrite dict_find_kvs. reflexivity. Qed.

Lemma py_dict_get_s d x dflt : py_dict_get (sdict d) (VStr x) dflt = Ok (match assoc x d with Some v => v | None => dflt end).
Proof. unfold py_dict_get, sdict. rewrite dict_find_kvs. reflexivity. Qed.

Lemma py_setitem_s d x v : py_setitem (sdict d) (VStr x) v = Ok (sdict (aset x v d)).
Proof. unfold py_setitem, sdict. rewrite dict_set_kvs. reflexivity. Qed.

Lemma py_delitem_s d x : py_delitem (sdict d) (VStr x) = match assoc x d with Some _ => Ok (sdict (adel x d)) | None => Err "KeyError" end.
Proof. unfold py_delitem, sdict. rewrite dict_find_kvs, dict_del_kvs. reflexivity. Qed.

Lemma py_in_s x d : py_in (VStr x) (sdict d) = Ok (VBool (match assoc x d with Some _ => true | None => false end)).
Proof. unfold py_in, sdict. rewrite dict_find_kvs. reflexivity. Qed.

Lemma assoc_aset x y v l : assoc x (aset y v l) = if String.eqb x y then Some v else assoc x l.
Proof.
  induction l as [|[k w] t IH]; simpl.
  - destruct (String.eqb x y); reflexivity.
  - destruct (String.eqb_spec y k) as [E|E].
    + subst. simpl. destruct (String.eqb x k); reflexivity.
    + simpl. rewrite IH. destruct (String.eqb_spec x k) as [E2|E2]; [|reflexivity].
      subst. destruct (String.eqb_spec k y); [congruence|reflexivity].
Qed.

Lemma assoc_adel x y l : NoDup (keys l) -> assoc x (adel y l) = if String.eqb x y then None else assoc x l.
Proof.
  induction l as [|[k w] t IH]; simpl; intros ND.
  - destruct (String.eqb x y); reflexivity.
  - inversion ND as [|? ? Hn ND']; subst.
    destruct (String.eqb_spec y k) as [E|E].
    + subst. destruct (String.eqb_spec x k) as [E2|E2]; [|reflexivity]. subst.
      clear - Hn. induction t as [|[k2 w2] t IH]; simpl; [reflexivity|].
      destruct (String.eqb_spec k k2); [subst; exfalso; apply Hn; left; reflexivity|].
      apply IH. intros H; apply Hn; right; exact H.
    + simpl. rewrite IH by assumption. destruct (String.eqb_spec x k) as [E2|E2]; [|reflexivity].
      subst. destruct (String.eqb_spec k y); [congruence|reflexivity].
Qed.

Lemma assoc_none_notin x l : assoc x l = None <-> ~ In x (keys l).
Proof.
  induction l as [|[k v] t IH]; simpl; [tauto|].
  destruct (String.eqb_spec x k); split; intros H; try discriminate.
  - exfalso. apply H. left. congruence.
  - intros [E|E]; [congruence|]. apply IH in H. contradiction.
  - apply IH. intros Hi. apply H. right. exact Hi.
Qed.

Lemma assoc_aupdate x d e :
  NoDup (keys e) ->
  assoc x (aupdate d e) = match assoc x e with Some v => Some v | None => assoc x d end.
Proof.
  unfold aupdate. revert d. induction e as [|[k v] t IH]; intros d ND; simpl; [reflexivity|].
  inversion ND as [|? ? Hn ND']; subst. rewrite IH by assumption. rewrite assoc_aset.
  destruct (String.eqb_spec x k) as [E|E].
  - subst. apply assoc_none_notin in Hn. rewrite Hn. reflexivity.
  - reflexivity.
Qed.

Lemma keys_aset_in x v l : In x (keys l) -> keys (aset x v l) = keys l.
Proof.
  induction l as [|[k w] t IH]; simpl; [tauto|]. intros [E|H].
  - subst. rewrite String.eqb_refl. reflexivity.
  - destruct (String.eqb_spec x k); simpl; [reflexivity|]. rewrite IH by assumption. reflexivity.
Qed.

Lemma aset_notin x v l : ~ In x (keys l) -> aset x v l = l ++ [(x, v)].
Proof.
  induction l as [|[k w] t IH]; simpl; intros H; [reflexivity|].
  destruct (String.eqb_spec x k); [exfalso; apply H; left; congruence|].
  rewrite IH; [reflexivity|]. intros Hi; apply H; right; exact Hi.
Qed.

Lemma keys_app a b : keys (a ++ b) = keys a ++ keys b.
Proof. unfold keys. apply List.map_app. Qed.

Lemma mkdict_nodup_acc l acc :
  NoDup (keys acc ++ keys l) -> aupdate acc l = acc ++ l.
Proof.
  unfold aupdate. revert acc. induction l as [|[k v] t IH]; intros acc ND; simpl.
  - rewrite List.app_nil_r. reflexivity.
  - simpl in ND. assert (Hn : ~ In k (keys acc)).
    { intros Hi. apply NoDup_remove_2 in ND. apply ND. apply in_or_app. left. exact Hi. }
    rewrite aset_notin by assumption. rewrite IH.
    + rewrite <- List.app_assoc. reflexivity.
    + rewrite keys_app. simpl. rewrite <- List.app_assoc. simpl.
      apply NoDup_remove_1 in ND as ND1.
      (* move k from the middle to its place: permutation-invariance of NoDup *)
      clear - ND. revert ND. generalize (keys acc) (keys t). intros a b ND.
      induction a as [|x a IH]; simpl in *; [exact ND|].
      inversion ND as [|? ? Hx ND']; subst. constructor.
      * intros Hi. apply Hx. apply in_app_or in Hi. apply in_or_app.
        destruct Hi as [Hi|Hi]; [left; exact Hi|].
        right. simpl in Hi. simpl. destruct Hi as [Hi|Hi]; [left; exact Hi|right; exact Hi].
      * apply IH. exact ND'.
Qed.

Lemma py_mkdict_kvs l : NoDup (keys l) -> py_mkdict (kvs l) = sdict l.
Proof.
  intros ND. unfold py_mkdict, sdict. change (@nil (pyval * pyval)) with (kvs []).
  rewrite update_kvs. rewrite mkdict_nodup_acc; [reflexivity|]. simpl. exact ND.
Qed.

(* ---- monadic list combinators on pure functions ---- *)
Lemma mapM_pure {A B} (f : A -> res B) (g : A -> B) l :
  (forall a, In a l -> f a = Ok (g a)) -> mapM f l = Ok (List.map g l).
Proof.
  induction l as [|a t IH]; simpl; intros H; [reflexivity|].
  rewrite H by (left; reflexivity). simpl. rewrite IH; [reflexivity|].
  intros b Hb. apply H. right. exact Hb.
Qed.

Lemma filterM_pure {A} (f : A -> res bool) (g : A -> bool) l :
  (forall a, In a l -> f a = Ok (g a)) -> filterM f l = Ok (List.filter g l).
Proof.
  induction l as [|a t IH]; simpl; intros H; [reflexivity|].
  rewrite H by (left; reflexivity). simpl. rewrite IH.
  - simpl. destruct (g a); reflexivity.
  - intros b Hb. apply H. right. exact Hb.
Qed.

Lemma list_mem_strs x l : list_mem (VStr x) (List.map VStr l) = List.existsb (String.eqb x) l.
Proof. induction l as [|y t IH]; simpl; [reflexivity|]. rewrite IH. reflexivity. Qed.

Lemma assoc_filter_key (P : string -> bool) x l :
  assoc x (List.filter (fun p => P (fst p)) l) = if P x then assoc x l else None.
Proof.
  induction l as [|[k v] t IH]; simpl.
  - destruct (P x); reflexivity.
  - destruct (P k) eqn:Pk; simpl.
    + destruct (String.eqb_spec x k) as [E|E]; [subst; rewrite Pk; reflexivity|exact IH].
    + destruct (String.eqb_spec x k) as [E|E]; [|exact IH].
      subst. rewrite Pk in *. exact IH.
Qed.

Lemma keys_filter_nodup (P : string * pyval -> bool) l : NoDup (keys l) -> NoDup (keys (List.filter P l)).
Proof.
  induction l as [|[k v] t IH]; simpl; intros ND; [constructor|].
  inversion ND as [|? ? Hn ND']; subst.
  destruct (P (k, v)); simpl; [|apply IH; assumption].
  constructor; [|apply IH; assumption].
  intros Hi. apply Hn. clear - Hi. induction t as [|[k2 v2] t IH]; simpl in *; [exact Hi|].
  destruct (P (k2, v2)); simpl in *; [destruct Hi as [E|Hi]; [left; exact E|right; apply IH; exact Hi]|right; apply IH; exact Hi].
Qed.
