(* Liveness side of the per-call-process executor model (Model/StepExec.v), on top of
   Proofs/StepSafe.v.  Main results: spin_unreachable, scan_not_alone, step_rest_state and the
   measure theorem xstep_decreases.
   Invariants: [LInv] (all programs: contents of the private queues by worker pc, every active
   call whose future is not done is held by a worker thread), [NInv] (programs without failing
   calls: worker-local counters, main-queue counter and shutdown-message accounting, client
   control, futures), [GI] (all programs: bounds used by the measure). *)
From Coq Require Import List Bool Arith Lia.
From EL Require Import Model.Exec Model.ExecInv Model.StepExec Model.LiveSpec Proofs.ExecSafe Proofs.StepSafe.
Import ListNotations.

(* ------------------------------------------------------------------ *)

Definition xnofail (c : xcfg) : Prop := forall i, xraises c i = false.
Definition fits (c : xcfg) : Prop :=
  match xmax_cores c with
  | Some m => forall i, xslots c i <= m
  | None => match xmax_workers c with Some m => 1 <= m | None => True end
  end.

(* ================= (3) the wait loop is never entered with nothing to wait for ================= *)
Lemma after_puts_nospin : forall c x i i0, fits c -> disp (after_puts c x i) <> DSpin i0.
Proof.
  intros c x i i0 Hf. unfold after_puts. destruct (must_wait c (active x) i) eqn:Hm; [|discriminate].
  destruct (active x) as [|e a] eqn:Ea; [|discriminate]. exfalso.
  unfold must_wait, fits in *. simpl in Hm.
  destruct (xmax_cores c) as [m|].
  - apply Nat.ltb_lt in Hm. specialize (Hf i). lia.
  - destruct (xmax_workers c) as [m|]; [|discriminate]. apply Nat.ltb_lt in Hm. lia.
Qed.

Lemma d_step_nospin : forall c x x' l, fits c -> (forall i, disp x <> DSpin i) ->
  d_step c 0 x = Some (x', l) -> forall i, disp x' <> DSpin i.
Proof.
  intros c x x' l Hf Hn H i. unfold d_step in H. cbv zeta in H.
  destruct (disp x) eqn:Hd; destr_all H; inversion H; subst; clear H; simpl; try discriminate;
    try apply after_puts_nospin; try assumption.
Qed.

Lemma xstep_nospin : forall c x t x' l, fits c -> (forall i, disp x <> DSpin i) ->
  xstep c x t = Some (x', l) -> forall i, disp x' <> DSpin i.
Proof.
  intros c x t x' l Hf Hn Hst i. destruct t as [| | |j|k]; simpl in Hst; try discriminate.
  - destruct (xm_step_eff _ _ _ _ Hst) as (_ & _ & [Hd|Hd]).
    + rewrite Hd. apply Hn.
    + intro E. rewrite E in Hd. discriminate.
  - eapply d_step_nospin; eauto.
  - destruct j as [|j]; [discriminate|].
    destruct (w_step (bcfg c) (base x) j) as [[b l0]|]; [|discriminate]. inversion Hst; subst. apply Hn.
  - destruct (p_step (bcfg c) (base x) k) as [[b l0]|]; [|discriminate]. inversion Hst; subst. apply Hn.
Qed.

Theorem spin_unreachable : forall c n prog x i,
  fits c -> wf_prog n prog -> xreach c (xinit n prog) x -> disp x <> DSpin i.
Proof.
  intros c n prog x i Hf Hwf Hr. revert i. induction Hr as [|x t x' l Hr IH Hst]; intros i.
  - discriminate.
  - eapply xstep_nospin; eauto.
Qed.
Print Assumptions spin_unreachable.

(* ------------------------------------------------------------------ *)

Definition fpend (f : fstate) : bool := match f with FPending | FCancelled => true | _ => false end.
Definition qit (qs : list queue) (q : nat) : list item := qitems (nth q qs dq).

Definition ctl_same (s s' : state) : Prop :=
  main s' = main s /\ ops s' = ops s /\ subm s' = subm s /\ closed s' = closed s /\ outs s' = outs s.

(* normalised effect of a worker-thread step (all cases, failing calls included) *)
Lemma w_step_fx : forall c s j s' l w,
  w_step c s j = Some (s', l) -> nth_error (ws s) j = Some w ->
  ctl_same s s' /\
  length (queues s') = length (queues s) /\
  (forall q, q <> wq w -> nth q (queues s') dq = nth q (queues s) dq) /\
  length (futs s') = length (futs s) /\
  exists w', ws s' = upd (ws s) j w' /\ wq w' = wq w /\
   ((futs s' = futs s /\
     (forall i, count (taskb i) (allq (queues s')) + b2n (srncb i w')
                = count (taskb i) (allq (queues s)) + b2n (srncb i w)) /\
     (forall i, w_run w = Some i -> w_run w' = Some i \/ (wp w = WRecv i /\ wp w' = WDead)
                                    \/ (wp w = WESetExc i /\ isrun (getf s i) = false)) /\
     (forall i, In (Task i) (qit (queues s) (wq w)) -> In (Task i) (qit (queues s') (wq w)) \/ wp w' = WSrnc i) /\
     (forall i, wp w <> WSrnc i))
    \/ (exists i, wp w = WSrnc i /\ queues s' = queues s /\
          ((getf s i = FPending /\ futs s' = setf s i FRunning /\ wp w' = WSend i)
           \/ (getf s i = FCancelled /\ futs s' = setf s i FCancelledN /\ wp w' = WCancTd)
           \/ (fpend (getf s i) = false /\ futs s' = futs s /\ wp w' = WDead)))
    \/ (exists i f', w_run w = Some i /\ (getf s i = FRunning \/ getf s i = FPending) /\ queues s' = queues s /\
          futs s' = setf s i f' /\ fdone f' = true /\ w_call w' = None /\ wp w' <> WSrnc i)).
Proof.
  intros c s j s' l w H Hj. unfold w_step in H. rewrite Hj in H. cbv zeta in H.
  destruct (wp w) eqn:Hpc; destr_all H; inversion H; subst; clear H.
  all: wnorm; unfold getq, getp, qit in *.
  all: split; [repeat split; reflexivity|].
  all: split; [rewrite ?upd_length; reflexivity|].
  all: split; [intros q Hq; first [reflexivity | apply nth_upd_other; lia]|].
  all: split; [rewrite ?upd_length; reflexivity|].
  all: eexists; split; [reflexivity|]; split; [reflexivity|].
  all: try solve [
    left; split; [reflexivity|];
    split; [intros ii; unfold srncb; rewrite Hpc; cbn [wp];
            first [ reflexivity
                  | rewrite allq_qtd; reflexivity
                  | match goal with Hq : qitems (nth _ _ _) = ?it :: ?rest |- _ =>
                      pose proof (count_qpop (taskb ii) _ _ _ _ (qunf (nth (wq w) (queues s) dq)) Hq) as Hpop;
                      unfold dq in *; rewrite Hq; cbn [tl]; simpl in *; lia end ]|];
    split; [intros ii E; unfold w_run in *; rewrite Hpc in E; cbn [wp] in *;
            first [ discriminate E
                  | left; exact E
                  | right; left; split; [inversion E; reflexivity|reflexivity]
                  | right; right; split; [inversion E; subst; reflexivity|];
                    match goal with Hf : getf _ _ = _ |- _ => inversion E; subst; rewrite Hf; reflexivity end ]|];
    split; [intros ii Hin;
            first [ left; exact Hin
                  | left; rewrite qtd_items; exact Hin
                  | match goal with Hq : qitems (nth _ _ _) = ?it :: ?rest |- _ =>
                      pose proof (nth_items_range _ _ _ _ Hq) as Hrg;
                      assert (Hlt : wq w < length (queues s)) by (apply nth_error_Some; congruence);
                      unfold dq in *; rewrite Hq in Hin; rewrite nth_upd_same by exact Hlt; cbn [qitems];
                      rewrite Hq; cbn [tl];
                      destruct Hin as [Hin|Hin]; [right; inversion Hin; reflexivity|left; exact Hin] end ]|];
    intros ii E; discriminate E ].
  all: try solve [
    right; left; eexists; split; [reflexivity|]; split; [reflexivity|];
    match goal with Hf : getf _ _ = _ |- _ => rewrite Hf end;
    first [ left; repeat split; reflexivity
          | right; left; repeat split; reflexivity
          | right; right; repeat split; reflexivity ] ].
  all: try solve [
    right; right; eexists; eexists; split; [unfold w_run; rewrite Hpc; reflexivity|];
    split; [first [left; assumption | right; assumption]|];
    split; [reflexivity|]; split; [reflexivity|]; split; [reflexivity|]; split; [reflexivity|discriminate] ].
Qed.

(* ---- private queue contents by program counter (all programs) ---- *)
Definition qcb (pc : wpc) (its : list item) : bool :=
  match pc with
  | WBegin | WSpawn => match its with [Task _; Shut true] => true | _ => false end
  | WGet => match its with [Task _; Shut true] | [Shut true] => true | _ => false end
  | WSPoll _ | WSSend _ | WSRecv _ | WSComm _ | WSTerm _ | WSWait | WSTd | WSQJoin | WDone =>
      match its with [] => true | _ => false end
  | _ => match its with [Shut true] => true | _ => false end
  end.

Lemma w_step_qc : forall c s j s' l w,
  w_step c s j = Some (s', l) -> nth_error (ws s) j = Some w -> wq w < length (queues s) ->
  qcb (wp w) (qit (queues s) (wq w)) = true ->
  exists w', nth_error (ws s') j = Some w' /\ wq w' = wq w /\ qcb (wp w') (qit (queues s') (wq w)) = true.
Proof.
  intros c s j s' l w H Hj Hlt Hq. unfold w_step in H. rewrite Hj in H. cbv zeta in H.
  destruct (wp w) eqn:Hpc; destr_all H; inversion H; subst; clear H.
  all: wnorm; unfold getq, getp, qit in *.
  all: eexists; split; [apply (nth_error_upd_same _ _ _ _ _ Hj)|]; split; [reflexivity|]; cbn [wp].
  all: rewrite ?nth_upd_same by exact Hlt; cbn [qitems].
  all: unfold dq in *; try match goal with Hi : qitems (nth _ _ _) = _ |- _ => rewrite Hi in * end; cbn [tl].
  all: try match goal with |- context [qitems (nth ?q ?qs ?d)] =>
         let its := fresh "its" in set (its := qitems (nth q qs d)) in *; clearbody its;
         destruct its as [|[?|[|]] [|[?|[|]] [|? ?]]] end.
  all: simpl in *; try discriminate Hq; try reflexivity.
  all: repeat match type of Hq with context [if ?b then _ else _] => destruct b end;
       try discriminate Hq; try reflexivity.
  all: match goal with l : list item |- _ => destruct l as [|[?|[|]] [|? ?]] end;
       simpl in *; try discriminate Hq; try reflexivity.
  all: repeat match type of Hq with context [if ?b then _ else _] => destruct b end;
       try discriminate Hq; try reflexivity.
Qed.

(* ------------------------------------------------------------------ *)

(* contents of the private queue that the dispatcher is preparing *)
Definition pq_ok (d : dpc) (its : list item) : Prop :=
  match d with
  | DPutTask _ => its = []
  | DPutShut i => its = [Task i]
  | DScan i _ _ | DSpin i | DStart i => its = [Task i; Shut true]
  | _ => True
  end.

Record LInv (x : xstate) : Prop := mkLInv {
  L_todo : forall i todo kept, disp x = DScan i todo kept -> todo <> [];
  L_pq : pq_ok (disp x) (qit (queues (base x)) (length (queues (base x)) - 1));
  L_qc : forall j w, nth_error (ws (base x)) j = Some w -> qcb (wp w) (qit (queues (base x)) (wq w)) = true;
  L_act : forall i, In i (map fst (active x)) -> fdone (getf (base x) i) = false ->
            lh (queues (base x)) (ws (base x)) i
}.

Lemma linv_init : forall n prog, LInv (xinit n prog).
Proof.
  intros n prog. constructor; unfold xinit, init; xfld; fld.
  - intros i todo kept E. discriminate.
  - exact I.
  - intros j w Hj. destruct j; discriminate.
  - intros i [].
Qed.

Lemma call_norun_srnc : forall w i, w_call w = Some i -> w_run w = None -> wp w = WSrnc i.
Proof.
  intros w i. unfold w_call, w_run. destruct (wp w); intros E1 E2; try discriminate; congruence.
Qed.

Lemma getf_setf_same : forall s i f, i - 1 < length (futs s) -> nth (i - 1) (setf s i f) FPending = f.
Proof. intros s i f H. unfold setf. now apply nth_upd_same. Qed.

Lemma getf_setf_other : forall s i i2 f, i2 - 1 <> i - 1 -> nth (i2 - 1) (setf s i f) FPending = getf s i2.
Proof. intros s i i2 f H. unfold setf, getf. apply nth_upd_other. lia. Qed.

(* ---- worker steps ---- *)
Lemma linv_w : forall c n x j b l,
  XInv c n x -> XInv c n (set_base x b) -> LInv x -> w_step (bcfg c) (base x) j = Some (b, l) -> LInv (set_base x b).
Proof.
  intros c n x j b l H H' HL Hst.
  destruct (nth_error (ws (base x)) j) as [w|] eqn:Hj;
    [|unfold w_step in Hst; rewrite Hj in Hst; discriminate].
  destruct (w_step_fx _ _ _ _ _ w Hst Hj) as (_ & Hlq & Hoth & Hlf & w' & Ews & Ewq & Hcase).
  destruct (wq_facts c n x j w H Hj) as (F1 & F2 & F3).
  destruct HL as [Lt Lp Lq La].
  constructor; unfold set_base; xfld.
  - exact Lt.
  - rewrite Hlq. unfold qit in *.
    destruct (disp x); simpl in *; try exact I;
      (rewrite Hoth; [exact Lp|intro E; apply F3; [reflexivity|now symmetry]]).
  - intros j2 w2 H2. rewrite Ews in H2. apply nth_error_upd_inv in H2 as [(E1 & E2 & _)|(E1 & E2)].
    + subst j2 w2. destruct (w_step_qc _ _ _ _ _ w Hst Hj F2 (Lq j w Hj)) as (w'' & Hj'' & _ & Hq'').
      rewrite Ews, (nth_error_upd_same _ _ _ _ _ Hj) in Hj''. inversion Hj''; subst w''. rewrite Ewq. exact Hq''.
    + unfold qit. rewrite Hoth; [exact (Lq j2 w2 E2)|].
      rewrite (X_wq _ _ _ H j2 w2 E2), (X_wq _ _ _ H j w Hj). lia.
  - intros i Hin Hnd.
    pose proof (X_len _ _ _ H) as Hlen.
    (* the future was not done before *)
    assert (Hnd0 : fdone (getf (base x) i) = false).
    { destruct (fdone (getf (base x) i)) eqn:Hd0; [|reflexivity]. exfalso.
      destruct Hcase as [(Ef & _)|[(i0 & Hpc & Eq & Hsub)|(i0 & f' & Hr & Hf & Eq & Ef & Hd' & _)]].
      - unfold getf in *. rewrite Ef in Hnd. congruence.
      - destruct Hsub as [(Hf & Ef & _)|[(Hf & Ef & _)|(_ & Ef & _)]].
        + unfold getf in Hnd. rewrite Ef in Hnd.
          destruct (Nat.eq_dec (i - 1) (i0 - 1)) as [E|E].
          * unfold getf in Hd0, Hf. rewrite E, Hf in Hd0. discriminate.
          * rewrite getf_setf_other in Hnd by exact E. congruence.
        + unfold getf in Hnd. rewrite Ef in Hnd.
          destruct (Nat.eq_dec (i - 1) (i0 - 1)) as [E|E].
          * assert (Hca : w_call w = Some i0) by (unfold w_call; rewrite Hpc; reflexivity).
            pose proof (xcall_range c n x j w i0 H Hj Hca) as Hr.
            rewrite E, getf_setf_same in Hnd by lia. discriminate.
          * rewrite getf_setf_other in Hnd by exact E. congruence.
        + unfold getf in *. rewrite Ef in Hnd. congruence.
      - unfold getf in Hnd. rewrite Ef in Hnd.
        destruct (Nat.eq_dec (i - 1) (i0 - 1)) as [E|E].
        + pose proof (xcall_range c n x j w i0 H Hj (run_call _ _ Hr)) as Hrg.
          rewrite E, getf_setf_same in Hnd by lia. congruence.
        + rewrite getf_setf_other in Hnd by exact E. congruence. }
    destruct (La i Hin Hnd0) as (j2 & w2 & H2 & Hc).
    destruct (Nat.eq_dec j2 j) as [Ej|Ej].
    + subst j2. rewrite Hj in H2. inversion H2; subst w2.
      assert (Hj' : nth_error (ws b) j = Some w') by (rewrite Ews; apply (nth_error_upd_same _ _ _ _ _ Hj)).
      exists j, w'. split; [exact Hj'|]. rewrite Ewq.
      destruct Hcase as [(Ef & _ & Hrun & Htask & Hns)|[(i0 & Hpc & Eq & Hsub)|(i0 & f' & Hr & Hf & Eq & Ef & Hd' & Hc' & _)]].
      * destruct Hc as [Hc|Hc].
        -- destruct (w_run w) as [i1|] eqn:Hr1.
           ++ pose proof (run_call _ _ Hr1) as Hc1. rewrite Hc in Hc1. inversion Hc1; subst i1.
              destruct (Hrun i eq_refl) as [Hr'|[(Hp1 & Hp2)|(Hp1 & Hp2)]].
              ** left. now apply run_call.
              ** exfalso. pose proof (xcall_range c n x j w i H Hj Hc) as Hrg.
                 pose proof (X_run _ _ _ H' i Hrg) as Hr2. unfold set_base in Hr2. xfld. simpl in Hr2.
                 pose proof (X_run _ _ _ H i Hrg) as Hr0.
                 pose proof (count_upd _ (runsb i) (ws (base x)) j w' w Hj) as Hcu. rewrite <- Ews in Hcu.
                 rewrite Ef in Hr2. rewrite Hr2, Hr0 in Hcu.
                 unfold runsb in Hcu at 1 2. rewrite Hr1 in Hcu. unfold w_run in Hcu. rewrite Hp2 in Hcu.
                 rewrite Nat.eqb_refl in Hcu. simpl in Hcu. lia.
              ** exfalso. pose proof (xrun_is_running c n x j w i H Hj Hr1) as Hf. rewrite Hf in Hp2. discriminate.
           ++ exfalso. apply (Hns i). now apply call_norun_srnc.
        -- destruct (Htask i Hc) as [Ht|Ht]; [now right|left]. unfold w_call. now rewrite Ht.
      * destruct Hc as [Hc|Hc]; [|right; unfold qit; rewrite Eq; exact Hc].
        assert (Hca : w_call w = Some i0) by (unfold w_call; rewrite Hpc; reflexivity).
        rewrite Hc in Hca. inversion Hca; subst i0.
        pose proof (xcall_range c n x j w i H Hj Hc) as Hrg.
        destruct Hsub as [(Hf & Ef & Hp')|[(Hf & Ef & Hp')|(Hf & Ef & Hp')]].
        -- left. unfold w_call. now rewrite Hp'.
        -- exfalso. unfold getf in Hnd. rewrite Ef, getf_setf_same in Hnd by lia. discriminate.
        -- exfalso. pose proof (xsrnc_not_running c n x j w i H Hj Hpc) as Hnr.
           destruct (getf (base x) i); simpl in *; congruence.
      * destruct Hc as [Hc|Hc]; [|right; unfold qit; rewrite Eq; exact Hc].
        exfalso. pose proof (run_call _ _ Hr) as Hca. rewrite Hc in Hca. inversion Hca; subst i0.
        pose proof (xcall_range c n x j w i H Hj Hc) as Hrg.
        unfold getf in Hnd. rewrite Ef, getf_setf_same in Hnd by lia. congruence.
    + exists j2, w2. split; [rewrite Ews; rewrite nth_error_upd_other by lia; exact H2|].
      destruct Hc as [Hc|Hc]; [now left|right]. rewrite Hoth; [exact Hc|].
      rewrite (X_wq _ _ _ H j2 w2 H2), (X_wq _ _ _ H j w Hj). lia.
Qed.

(* ---- process steps ---- *)
Lemma linv_p : forall c x k b l, LInv x -> p_step c (base x) k = Some (b, l) -> LInv (set_base x b).
Proof.
  intros c x k b l HL Hst. destruct (p_step_eff _ _ _ _ _ Hst) as (p & p' & _ & _ & Eb & _). subst b.
  destruct HL as [Lt Lp Lq La]. constructor; unfold set_base, setp, set_ps; xfld; assumption.
Qed.

(* ---- client steps: futures only become done ---- *)
Definition fmono (s s' : state) : Prop := forall i, fdone (getf s i) = true -> fdone (getf s' i) = true.

Lemma fm_refl : forall s, fmono s s.
Proof. intros s i H. exact H. Qed.
Lemma fm_trans : forall s1 s2 s3, fmono s1 s2 -> fmono s2 s3 -> fmono s1 s3.
Proof. intros s1 s2 s3 A B i H. apply B, A, H. Qed.
Lemma fm_same : forall s s', futs s' = futs s -> fmono s s'.
Proof. intros s s' E i H. unfold getf in *. now rewrite E. Qed.
Lemma fm_goto : forall s l x cl, fmono s (m_goto s l x cl).
Proof. intros. apply fm_same. apply m_goto_futs. Qed.
Lemma fm_done : forall s x cl, fmono s (m_done s x cl).
Proof. intros. apply fm_goto. Qed.
Lemma fm_cancel : forall s i f b, fcancel (getf s i) = (f, b) -> fmono s (set_futs s (setf s i f)).
Proof.
  intros s i f b E i0 H. unfold getf, set_futs, setf in *. simpl.
  destruct (cancel_nth (futs s) i i0) as (_ & C2 & _). rewrite E in C2. simpl in C2. now apply C2.
Qed.

Lemma fm_drain : forall s w b l, drain_step s w = Some (b, l) -> fmono s b.
Proof. intros s w b l H. apply fm_same. eapply drain_futs; eauto. Qed.

Lemma fm_xnorm : forall x, fmono (base x) (base (xm_norm x)) /\ active (xm_norm x) = active x.
Proof.
  intros x. unfold xm_norm. destruct (main (base x)) as [| | | | | |w k|k| |]; try (split; [apply fm_refl|reflexivity]).
  - destruct k; [|split; [apply fm_refl|reflexivity]].
    destruct (cur_wait (base x)); (split; [|reflexivity]); simpl; [apply fm_same; reflexivity|apply fm_done].
  - destruct k; (split; [|reflexivity]); apply fm_same; reflexivity.
Qed.

Ltac fm :=
  lazymatch goal with
  | |- fmono ?s (m_done ?s1 _ _) => apply (fm_trans s s1); [fm | apply fm_done]
  | |- fmono ?s (m_goto ?s1 _ _ _) => apply (fm_trans s s1); [fm | apply fm_goto]
  | |- fmono ?s (base (xm_norm ?X)) =>
      apply (fm_trans s (base X)); [unfold set_base; xfld; fm | apply fm_xnorm]
  | |- fmono _ _ => first [assumption | apply fm_same; reflexivity]
  end.

Lemma xm_step_fx : forall c x x' l, xm_step c x = Some (x', l) ->
  fmono (base x) (base x') /\ active x' = active x /\ (disp x' = disp x \/ disp x' = DBegin).
Proof.
  intros c x x' l H. unfold xm_step in H. cbv zeta in H.
  destruct (main (base x)) eqn:Hm; destr_all H; inversion H; subst; clear H.
  all: try match goal with Hd : drain_step _ _ = Some (_, _) |- _ => pose proof (fm_drain _ _ _ _ Hd) as Hfm end.
  all: try match goal with Hc : fcancel _ = (_, _) |- _ => pose proof (fm_cancel _ _ _ _ Hc) as Hfc end.
  all: split; [unfold set_base; xfld; fm|].
  all: split; [first [reflexivity | rewrite (proj2 (fm_xnorm _)); reflexivity]|].
  all: try solve [left; first [reflexivity | rewrite (proj2 (bf_xnorm _)); reflexivity
                               | unfold set_base; xfld; assumption]].
  all: try solve [right; reflexivity].
Qed.

Lemma pq_ok_noprep : forall d its, prep d = 0 -> pq_ok d its.
Proof. intros d its H. destruct d; simpl in *; try discriminate; exact I. Qed.

Lemma lh_frame : forall c n x qs', XInv c n x ->
  (forall j w, nth_error (ws (base x)) j = Some w -> nth (wq w) qs' dq = nth (wq w) (queues (base x)) dq) ->
  forall i, lh (queues (base x)) (ws (base x)) i -> lh qs' (ws (base x)) i.
Proof.
  intros c n x qs' H Hq i (j & w & Hj & Hc). exists j, w. split; [exact Hj|].
  destruct Hc as [Hc|Hc]; [now left|right]. rewrite (Hq j w Hj). exact Hc.
Qed.

Lemma linv_m : forall c n x x' l, XInv c n x -> LInv x -> xm_step c x = Some (x', l) -> LInv x'.
Proof.
  intros c n x x' l H HL Hst.
  destruct (xm_step_eff _ _ _ _ Hst) as ((Ews & Eps & Elq & Enq) & _ & Hd1).
  destruct (xm_step_fx _ _ _ _ Hst) as (Hfm & Eact & Hd2).
  destruct HL as [Lt Lp Lq La].
  pose proof (X_lq _ _ _ H) as Hlq.
  constructor.
  - destruct Hd2 as [Hd|Hd]; rewrite Hd; [exact Lt|intros; discriminate].
  - destruct Hd2 as [Hd|Hd]; [|rewrite Hd; exact I]. rewrite Hd.
    destruct (prep (disp x)) eqn:Epr; [now apply pq_ok_noprep|].
    assert (Ep1 : prep (disp x) = 1) by (destruct (disp x); simpl in *; congruence).
    unfold qit in *. rewrite Elq, Enq by lia. exact Lp.
  - intros j w Hj. rewrite Ews in Hj. unfold qit. destruct (wq_facts c n x j w H Hj) as (F1 & _).
    rewrite Enq by exact F1. exact (Lq j w Hj).
  - intros i Hin Hnd. rewrite Eact in Hin. rewrite Ews.
    assert (Hnd0 : fdone (getf (base x) i) = false).
    { destruct (fdone (getf (base x) i)) eqn:E; [|reflexivity]. rewrite (Hfm i E) in Hnd. discriminate. }
    apply (lh_frame c n x _ H); [|now apply La].
    intros j w Hj. destruct (wq_facts c n x j w H Hj) as (F1 & _). now apply Enq.
Qed.

(* ---- dispatcher steps ---- *)
Lemma linv_dframe : forall c n x x',
  XInv c n x -> LInv x ->
  futs (base x') = futs (base x) -> ws (base x') = ws (base x) ->
  (forall q, q <> 0 -> q < length (queues (base x)) -> (prep (disp x) = 1 -> q <> length (queues (base x)) - 1) ->
             nth q (queues (base x')) dq = nth q (queues (base x)) dq) ->
  (forall i, In i (map fst (active x')) -> In i (map fst (active x))) ->
  (forall i todo kept, disp x' = DScan i todo kept -> todo <> []) ->
  pq_ok (disp x') (qit (queues (base x')) (length (queues (base x')) - 1)) ->
  LInv x'.
Proof.
  intros c n x x' H HL Ef Ews Hq Hact Ht' Hp'. destruct HL as [Lt Lp Lq La].
  assert (Hwq : forall j w, nth_error (ws (base x)) j = Some w ->
                  nth (wq w) (queues (base x')) dq = nth (wq w) (queues (base x)) dq).
  { intros j w Hj. destruct (wq_facts c n x j w H Hj) as (F1 & F2 & F3). now apply Hq. }
  constructor; try assumption.
  - intros j w Hj. rewrite Ews in Hj. unfold qit. rewrite (Hwq j w Hj). exact (Lq j w Hj).
  - intros i Hin Hnd. rewrite Ews. unfold getf in Hnd. rewrite Ef in Hnd.
    apply (lh_frame c n x _ H Hwq). apply La; [now apply Hact|exact Hnd].
Qed.

Lemma linv_after_puts : forall c n x x1 i,
  XInv c n x -> LInv x ->
  futs (base x1) = futs (base x) -> ws (base x1) = ws (base x) ->
  (forall q, q <> 0 -> q < length (queues (base x)) -> (prep (disp x) = 1 -> q <> length (queues (base x)) - 1) ->
             nth q (queues (base x1)) dq = nth q (queues (base x)) dq) ->
  (forall i0, In i0 (map fst (active x1)) -> In i0 (map fst (active x))) ->
  qit (queues (base x1)) (length (queues (base x1)) - 1) = [Task i; Shut true] ->
  LInv (after_puts c x1 i).
Proof.
  intros c n x x1 i H HL Ef Ews Hq Hact Hpq.
  assert (Hb : base (after_puts c x1 i) = base x1).
  { unfold after_puts. destruct (must_wait c (active x1) i); [destruct (active x1)|]; reflexivity. }
  assert (Ha : active (after_puts c x1 i) = active x1).
  { unfold after_puts. destruct (must_wait c (active x1) i); [|reflexivity].
    destruct (active x1) eqn:Ea; simpl; now rewrite ?Ea. }
  apply (linv_dframe c n x); try assumption; rewrite ?Hb, ?Ha; try assumption.
  - unfold after_puts. destruct (must_wait c (active x1) i); [destruct (active x1) eqn:Ea|]; simpl;
      intros i0 todo kept E; inversion E; subst; discriminate.
  - unfold after_puts. destruct (must_wait c (active x1) i); [destruct (active x1)|]; simpl; exact Hpq.
Qed.

Lemma linv_dstart : forall c n x i,
  XInv c n x -> LInv x -> disp x = DStart i ->
  LInv (mkX (set_ws (base x) (ws (base x) ++ [mkW (length (queues (base x)) - 1) 0 WBegin])) DTd
            (active x ++ [(i, xslots c i)]) (S (launched x))).
Proof.
  intros c n x i H HL Hd. destruct HL as [Lt Lp Lq La]. rewrite Hd in Lp. simpl in Lp.
  constructor; unfold set_ws; xfld; fld.
  - intros i0 todo kept E. discriminate.
  - exact I.
  - intros j w Hj. apply nth_error_snoc_inv in Hj as [[_ Hj]|[_ Hj]]; [exact (Lq j w Hj)|]. subst w. simpl.
    rewrite Lp. reflexivity.
  - intros i0 Hin Hnd. rewrite map_app in Hin. apply in_app_or in Hin. destruct Hin as [Hin|[Hin|[]]].
    + destruct (La i0 Hin Hnd) as (j & w & Hj & Hc). exists j, w. split; [now apply nth_error_app_l|exact Hc].
    + simpl in Hin. subst i0. exists (length (ws (base x))), (mkW (length (queues (base x)) - 1) 0 WBegin).
      split; [rewrite nth_error_app2 by lia; rewrite Nat.sub_diag; reflexivity|].
      right. simpl. unfold qit in Lp. rewrite Lp. now left.
Qed.

Ltac lframe c n x :=
  apply (linv_dframe c n x); try assumption; try reflexivity; try (intros; reflexivity); try (intros; assumption);
  try (intros; discriminate); try exact I.

Lemma linv_d : forall c n x x' l, XInv c n x -> LInv x -> d_step c 0 x = Some (x', l) -> LInv x'.
Proof.
  intros c n x x' l H HL Hst. unfold d_step in Hst. cbv zeta in Hst.
  pose proof (X_lq _ _ _ H) as Hlq. pose proof (L_pq _ HL) as Lp. pose proof (L_todo _ HL) as Lt.
  destruct (disp x) as [| | |i|i|i todo kept|i|i| |k| | | |] eqn:Hd; try discriminate; simpl prep in *; simpl pq_ok in *.
  - (* DBegin *) inversion Hst; subst; clear Hst. lframe c n x.
  - (* DGet *)
    destruct (qitems (getq (base x) 0)) as [|it rest] eqn:Hq0; [discriminate|].
    destruct it as [i|w]; inversion Hst; subst; clear Hst.
    + lframe c n x.
      * intros q Hq1 Hq2 _. unfold set_queues. xfld. fld.
        rewrite app_nth1 by (rewrite upd_length; lia). apply nth_upd_other. lia.
      * unfold set_queues, qit. xfld. fld. rewrite app_length. simpl length.
        rewrite app_nth2 by lia.
        replace (length (upd (queues (base x)) 0 (mkQ (tl (qitems (getq (base x) 0))) (qunf (getq (base x) 0)))) + 1 - 1
                 - length (upd (queues (base x)) 0 (mkQ (tl (qitems (getq (base x) 0))) (qunf (getq (base x) 0))))) with 0 by lia.
        reflexivity.
    + lframe c n x.
      * intros q Hq1 Hq2 _. unfold qpop, set_queues. xfld. fld. apply nth_upd_other. lia.
      * xfld. destruct w; [destruct (Nat.eqb (launched x) 0)|]; intros; discriminate.
      * xfld. destruct w; [destruct (Nat.eqb (launched x) 0)|]; exact I.
  - (* DPutTask *) inversion Hst; subst; clear Hst. lframe c n x.
    + intros q Hq1 Hq2 Hq3. rewrite Hd in Hq3. unfold qput, set_queues. xfld. fld. apply nth_upd_other.
      specialize (Hq3 eq_refl). lia.
    + unfold qput, set_queues, getq, qit in *. xfld. fld. rewrite upd_length.
      rewrite nth_upd_same by lia. cbn [qitems]. unfold dq in *. rewrite Lp. reflexivity.
  - (* DPutShut *) inversion Hst; subst; clear Hst.
    apply (linv_after_puts c n x); try assumption; try reflexivity; try (intros; assumption).
    + intros q Hq1 Hq2 Hq3. rewrite Hd in Hq3. unfold set_base, qput, set_queues. xfld. fld. apply nth_upd_other.
      specialize (Hq3 eq_refl). lia.
    + unfold set_base, qput, set_queues, getq, qit in *. xfld. fld. rewrite upd_length.
      rewrite nth_upd_same by lia. cbn [qitems]. unfold dq in *. rewrite Lp. reflexivity.
  - (* DScan *)
    destruct todo as [|[f sl] rest]; [discriminate|].
    pose proof (X_scan _ _ _ H i _ _ Hd) as Hsub.
    apply (sub_of_step kept (f, sl) rest (active x) (fdone (getf (base x) f))) in Hsub.
    destruct rest as [|e rest']; inversion Hst; subst; clear Hst.
    + rewrite app_nil_r in Hsub.
      apply (linv_after_puts c n x); try assumption; try reflexivity; try (intros; reflexivity).
      xfld. intros i0 Hin. apply in_map_iff in Hin. destruct Hin as (e & E & Hin). subst i0.
      apply in_map. destruct Hsub as (_ & _ & H3). now apply H3.
    + lframe c n x. xfld. intros i0 todo kept0 E. inversion E; subst. discriminate.
  - (* DStart *) inversion Hst; subst; clear Hst. exact (linv_dstart c n x i H HL Hd).
  - (* DTd *) inversion Hst; subst; clear Hst. lframe c n x.
    intros q Hq1 Hq2 _. unfold qtd, set_queues. xfld. fld. apply nth_upd_other. lia.
  - (* DSJoin *)
    destruct (nth_error (ws (base x)) k) as [wt|]; [|discriminate].
    destruct (wdone wt); [|discriminate].
    destruct (wdead wt); [|destruct (Nat.eqb (S k) (launched x))]; inversion Hst; subst; clear Hst; lframe c n x.
  - (* DSTd *) inversion Hst; subst; clear Hst. lframe c n x.
    intros q Hq1 Hq2 _. unfold qtd, set_queues. xfld. fld. apply nth_upd_other. lia.
  - (* DSQJoin *)
    destruct (Nat.eqb (qunf (getq (base x) 0)) 0); [|discriminate]. inversion Hst; subst; clear Hst. lframe c n x.
Qed.

(* ------------------------------------------------------------------ *)

Lemma linv_step : forall c n x t x' l, XInv c n x -> LInv x -> xstep c x t = Some (x', l) -> LInv x'.
Proof.
  intros c n x t x' l H HL Hst.
  pose proof (xstep_inv c n x t x' l H Hst) as H'.
  destruct t as [| | |j|k]; simpl in Hst; try discriminate.
  - eapply (linv_m c n x); eauto.
  - eapply (linv_d c n x); eauto.
  - destruct j as [|j]; [discriminate|].
    destruct (w_step (bcfg c) (base x) j) as [[b l0]|] eqn:E; [|discriminate].
    inversion Hst; subst. eapply (linv_w c n x); eauto.
  - destruct (p_step (bcfg c) (base x) k) as [[b l0]|] eqn:E; [|discriminate].
    inversion Hst; subst. eapply (linv_p (bcfg c) x); eauto.
Qed.

Lemma xreach_linv : forall c n prog x, wf_prog n prog -> xreach c (xinit n prog) x -> XInv c n x /\ LInv x.
Proof.
  intros c n prog x Hwf Hr. induction Hr as [|x t x' l Hr [IH1 IH2] Hst].
  - split; [now apply xinv_init|apply linv_init].
  - split; [eapply xstep_inv; eauto|eapply linv_step; eauto].
Qed.

(* ================= enabledness ================= *)
Definition is_nil {A} (l : list A) : bool := match l with [] => true | _ => false end.

Definition w_can (pc : wpc) (its : list item) (qu : nat) (p : proc) : bool :=
  match pc with
  | WGet => negb (is_nil its)
  | WRecv _ | WERecv _ | WSRecv _ => negb (is_nil (outbox p))
  | WEComm _ | WSComm _ | WEWait _ | WSWait => negb (palive p)
  | WSQJoin => Nat.eqb qu 0
  | WDone | WDead => false
  | _ => true
  end.

Definition p_can (p : proc) : bool :=
  match pp p with PRecv => negb (is_nil (inbox p)) | PExit => false | _ => true end.

Lemma w_can_step : forall c s j w,
  nth_error (ws s) j = Some w ->
  w_can (wp w) (qitems (getq s (wq w))) (qunf (getq s (wq w))) (getp s (wproc w)) = true ->
  is_some (w_step c s j) = true.
Proof.
  intros c s j w Hj Hc. unfold w_step. rewrite Hj. cbv zeta.
  destruct (wp w); simpl in Hc; try discriminate Hc; try reflexivity.
  all: repeat match goal with
       | |- context [match ?e with _ => _ end] => destruct e eqn:?; simpl in *; try discriminate; try reflexivity
       end.
Qed.

Lemma p_can_step : forall c s k p,
  nth_error (ps s) (k - 1) = Some p -> k <> 0 -> p_can p = true -> is_some (p_step c s k) = true.
Proof.
  intros c s k p Hp Hk Hc. unfold p_step. rewrite Hp.
  replace (Nat.eqb k 0) with false by (symmetry; apply Nat.eqb_neq; exact Hk).
  unfold p_can in Hc. destruct (pp p); simpl in Hc; try discriminate Hc; try reflexivity.
  destruct (inbox p) as [|m t]; [discriminate|]. destruct m; reflexivity.
Qed.

(* a worker that is not at WDone / WDead / WSQJoin / an empty WGet can step, or its process can *)
Lemma chan_live : forall c w p its qu,
  chanS c w p = true ->
  w_can (wp w) its qu p = true \/ p_can p = true \/
  match wp w with WGet => its = [] | WSQJoin | WDone | WDead => True | _ => False end.
Proof.
  intros c w p its qu Hc. unfold chanS, chan_ok, chan2 in Hc.
  destruct p as [pc ib ob]. unfold serving, quiet, p_idle, palive, msgs_eqb in Hc. cbn [pp inbox outbox] in Hc.
  unfold w_can, p_can, palive. cbn [pp inbox outbox].
  destruct (wp w); try (left; reflexivity); try (right; right; exact I).
  - destruct its; [right; right; reflexivity|left; reflexivity].
  - destruct ob; [|left; reflexivity]. right; left.
    destruct pc; destruct ib; simpl in *; try reflexivity; try discriminate Hc.
  - destruct ob; [|left; reflexivity]. right; left.
    destruct pc; destruct ib; simpl in *; try reflexivity; try discriminate Hc.
  - left. destruct pc; simpl in *; try reflexivity; destruct ib; destruct ob; simpl in Hc; discriminate Hc.
  - left. destruct pc; simpl in *; try reflexivity; destruct ib; destruct ob; simpl in Hc; discriminate Hc.
  - destruct ob; [|left; reflexivity]. right; left.
    destruct pc; destruct ib; simpl in *; try reflexivity; try discriminate Hc.
  - destruct pc; simpl in *; try (left; reflexivity); destruct ib; destruct ob; simpl in Hc; discriminate Hc.
  - destruct pc; simpl in *; try (left; reflexivity); destruct ib; destruct ob; simpl in Hc; discriminate Hc.
Qed.

Lemma tid_w_in : forall x j, j < length (ws (base x)) -> In (TW (S j)) (xtids x).
Proof.
  intros x j H. unfold xtids. right. right. apply in_or_app. left.
  apply in_map_iff. exists j. split; [reflexivity|]. apply in_seq. lia.
Qed.

Lemma tid_p_in : forall x k, k < length (ps (base x)) -> In (TP (S k)) (xtids x).
Proof.
  intros x k H. unfold xtids. right. right. apply in_or_app. right.
  apply in_map_iff. exists k. split; [reflexivity|]. apply in_seq. lia.
Qed.

Lemma w_enabled : forall c x j w, nth_error (ws (base x)) j = Some w ->
  is_some (w_step (bcfg c) (base x) j) = true -> In (TW (S j)) (xenabled c x).
Proof.
  intros c x j w Hj Hs. unfold xenabled. apply filter_In. split.
  - apply tid_w_in. apply nth_error_Some. congruence.
  - simpl. destruct (w_step (bcfg c) (base x) j) as [[b l]|]; [reflexivity|discriminate].
Qed.

Lemma p_enabled : forall c x k, k < length (ps (base x)) ->
  is_some (p_step (bcfg c) (base x) (S k)) = true -> In (TP (S k)) (xenabled c x).
Proof.
  intros c x k Hk Hs. unfold xenabled. apply filter_In. split.
  - now apply tid_p_in.
  - simpl. destruct (p_step (bcfg c) (base x) (S k)) as [[b l]|]; [reflexivity|discriminate].
Qed.

(* a worker, or its process, can take a step unless the worker is finished (or waits in WSQJoin) *)
Lemma worker_live : forall c n x j w, XInv c n x -> nth_error (ws (base x)) j = Some w ->
  (exists t, In t (xenabled c x) /\ tid_eqb t TD = false) \/
  match wp w with WGet => qit (queues (base x)) (wq w) = [] | WSQJoin | WDone | WDead => True | _ => False end.
Proof.
  intros c n x j w H Hj.
  pose proof (X_chan _ _ _ H j w Hj) as Hc.
  destruct (chan_live (bcfg c) w _ (qit (queues (base x)) (wq w)) (qunf (getq (base x) (wq w))) Hc) as [Hw|[Hp|Ht]].
  - left. exists (TW (S j)). split; [|reflexivity]. eapply w_enabled; eauto. eapply w_can_step; eauto.
  - pose proof (X_ow1 _ _ _ H j w Hj) as Ho.
    destruct (spawnedb w) eqn:Sw.
    + left. exists (TP (S (wproc w - 1))). split; [|reflexivity].
      apply p_enabled; [lia|]. eapply p_can_step; [|lia|exact Hp].
      replace (S (wproc w - 1) - 1) with (wproc w - 1) by lia.
      apply List.nth_error_nth'. lia.
    + left. exists (TW (S j)). split; [|reflexivity]. eapply w_enabled; eauto. eapply w_can_step; eauto.
      unfold spawnedb in Sw. destruct (wp w); try discriminate Sw; reflexivity.
  - right. exact Ht.
Qed.

Lemma holder_live : forall c n x i, XInv c n x -> LInv x -> lh (queues (base x)) (ws (base x)) i ->
  exists t, In t (xenabled c x) /\ tid_eqb t TD = false.
Proof.
  intros c n x i H HL (j & w & Hj & Hc).
  destruct (worker_live c n x j w H Hj) as [Hl|Ht]; [exact Hl|]. exfalso.
  pose proof (L_qc _ HL j w Hj) as Hq. unfold qit in *.
  destruct Hc as [Hc|Hc].
  - unfold w_call in Hc. destruct (wp w); try discriminate Hc; contradiction.
  - destruct (wp w); try contradiction.
    + rewrite Ht in Hc. destruct Hc.
    + destruct (qitems (nth (wq w) (queues (base x)) dq)); [destruct Hc|discriminate Hq].
    + destruct (qitems (nth (wq w) (queues (base x)) dq)); [destruct Hc|discriminate Hq].
    + destruct (qitems (nth (wq w) (queues (base x)) dq)) as [|[i1|[|]] [|? ?]]; simpl in Hq; try discriminate Hq.
      destruct Hc as [Hc|[]]. discriminate Hc.
Qed.

Theorem scan_not_alone : forall c n prog x,
  wf_prog n prog -> xreach c (xinit n prog) x -> scan_not_alone_b c x = true.
Proof.
  intros c n prog x Hwf Hr. destruct (xreach_linv c n prog x Hwf Hr) as [H HL].
  unfold scan_not_alone_b. destruct (d_polling x) eqn:Hp; [|reflexivity]. simpl.
  unfold d_polling in Hp. destruct (disp x) as [| | | | |i0 todo kept| | | | | | | |] eqn:Hd; try discriminate Hp.
  pose proof (L_todo _ HL i0 todo kept Hd) as Hne.
  destruct todo as [|[f sl] rest]; [contradiction|].
  rewrite forallb_forall in Hp.
  assert (Hin : In (f, sl) (kept ++ (f, sl) :: rest)) by (apply in_or_app; right; now left).
  specialize (Hp _ Hin). simpl in Hp. apply negb_true_iff in Hp.
  destruct (X_scan _ _ _ H i0 _ _ Hd) as (_ & _ & Hsub).
  assert (Hk : In f (map fst (active x))) by (apply in_map_iff; exists (f, sl); split; [reflexivity|now apply Hsub]).
  pose proof (L_act _ HL f Hk Hp) as Hl.
  destruct (holder_live c n x f H HL Hl) as (t & Ht & Hne2).
  apply existsb_exists. exists t. split; [exact Ht|]. now rewrite Hne2.
Qed.
Print Assumptions scan_not_alone.

(* ------------------------------------------------------------------ *)

(* ================= worker-local invariant for programs without failing calls ================= *)
Definition bad (pc : wpc) : bool :=
  match pc with
  | WEPoll _ | WESend _ | WERecv _ | WEComm _ | WETerm _ | WEWait _ | WETd _ | WESetExc _ | WDead => true
  | _ => false
  end.
Definition holdsb (pc : wpc) : bool := w_holds (mkW 0 0 pc).
Definition wfinb (pc : wpc) : bool :=
  match pc with WSTerm _ | WSWait | WSTd | WSQJoin | WDone => true | _ => false end.

Definition nlocal (pc : wpc) (qv : queue) (p : proc) : bool :=
  negb (bad pc) && Nat.eqb (qunf qv) (length (qitems qv) + b2n (holdsb pc)) && (negb (wfinb pc) || negb (palive p)).

Lemma nlocal_split : forall pc qv p, nlocal pc qv p = true ->
  bad pc = false /\ qunf qv = length (qitems qv) + b2n (holdsb pc) /\ (wfinb pc = true -> palive p = false).
Proof.
  intros pc qv p H. unfold nlocal in H. apply andb_true_iff in H. destruct H as [H H3].
  apply andb_true_iff in H. destruct H as [H1 H2]. apply negb_true_iff in H1. apply Nat.eqb_eq in H2.
  repeat split; try assumption. intros Hf. rewrite Hf in H3. simpl in H3. now apply negb_true_iff in H3.
Qed.

Lemma nlocal_intro : forall pc qv p,
  bad pc = false -> qunf qv = length (qitems qv) + b2n (holdsb pc) -> (wfinb pc = true -> palive p = false) ->
  nlocal pc qv p = true.
Proof.
  intros pc qv p H1 H2 H3. unfold nlocal. rewrite H1, H2, Nat.eqb_refl. simpl.
  destruct (wfinb pc); [rewrite H3 by reflexivity|]; reflexivity.
Qed.

Lemma w_step_nlocal : forall c s j s' l w,
  (forall i, raises c i = false) ->
  w_step c s j = Some (s', l) -> nth_error (ws s) j = Some w -> wq w < length (queues s) ->
  chanS c w (getp s (wproc w)) = true ->
  (forall i, wp w = WSrnc i -> fpend (getf s i) = true) ->
  (forall i v, wp w = WSetRes i v -> getf s i = FRunning) ->
  nlocal (wp w) (nth (wq w) (queues s) dq) (getp s (wproc w)) = true ->
  exists w', nth_error (ws s') j = Some w' /\ wq w' = wq w /\
             nlocal (wp w') (nth (wq w) (queues s') dq) (getp s' (wproc w')) = true.
Proof.
  intros c s j s' l w Hnf H Hj Hlt Hch Hsr Hse Hn.
  destruct (nlocal_split _ _ _ Hn) as (Hb & Hcnt & Hfin).
  unfold w_step in H. rewrite Hj in H. cbv zeta in H.
  destruct (wp w) eqn:Hpc; simpl in Hb; try discriminate Hb.
  all: try (specialize (Hsr _ eq_refl); destruct (getf s i) eqn:Hf; simpl in Hsr; try discriminate Hsr).
  all: try (rewrite (Hse _ _ eq_refl) in H).
  all: try match type of H with context [outbox ?p] =>
         destruct (outbox p) as [|m ob'] eqn:Hob; [discriminate H|] end.
  all: try match goal with Hob : outbox _ = _ :: _ |- _ =>
         match type of Hpc with _ = WRecv _ =>
           assert (Hsv : serving (getp s (wproc w)) (MCall i) (reply_of c i) = true)
             by (unfold chanS, chan_ok in Hch; rewrite Hpc in Hch; apply andb_true_iff in Hch; tauto);
           destruct (serving_out _ _ _ _ _ Hsv Hob) as (Em & _); unfold reply_of in Em; rewrite Hnf in Em; subst m
         end end.
  all: destr_all H; inversion H; subst; clear H.
  all: eexists; split; [wnorm; apply (nth_error_upd_same _ _ _ _ _ Hj)|]; split; [reflexivity|].
  all: apply nlocal_intro; cbn [wp wproc]; [reflexivity| |].
  all: unfold getp, getq in *; wnorm; unfold getp, getq, dq in *; rewrite ?nth_upd_same by exact Hlt; cbn [qunf qitems].
  all: try solve [let Hx := fresh "Hx" in intros Hx; first [discriminate Hx | assumption | apply Hfin; reflexivity]].
  all: simpl holdsb in *; simpl b2n in *.
  all: try match goal with Hq : qitems _ = _ :: _ |- _ => rewrite Hq in * end.
  all: simpl in *; try lia.
Qed.

Lemma p_step_alive : forall c s k s' l p, p_step c s k = Some (s', l) -> nth_error (ps s) (k - 1) = Some p ->
  palive p = true.
Proof.
  intros c s k s' l p H Hp. unfold p_step in H. rewrite Hp in H. unfold palive.
  destruct (Nat.eqb k 0); [discriminate|]. destruct (pp p); try reflexivity. discriminate.
Qed.

Record NW (x : xstate) : Prop := mkNW {
  NW_loc : forall j w, nth_error (ws (base x)) j = Some w ->
             nlocal (wp w) (nth (wq w) (queues (base x)) dq) (getp (base x) (wproc w)) = true;
  NW_pq : prep (disp x) = 1 ->
             qunf (nth (length (queues (base x)) - 1) (queues (base x)) dq)
             = length (qitems (nth (length (queues (base x)) - 1) (queues (base x)) dq))
}.

(* pre-srnc places of a call *)
Definition prec (x : xstate) (i : nat) : nat :=
  count (taskb i) (allq (queues (base x))) + count (srncb i) (ws (base x)) + mdc (main (base x)) i + dhold (disp x) i.

Record NF (x : xstate) : Prop := mkNF {
  NF_pend : forall i, 1 <= prec x i -> fpend (getf (base x) i) = true;
  NF_fresh : forall i, 1 <= i -> ~ In i (subm (base x)) -> getf (base x) i = FPending;
  NF_some : forall i, In i (subm (base x)) -> getf (base x) i = FPending -> 1 <= prec x i
}.

Lemma prec_gcf : forall x i,
  gcf (queues (base x)) (ws (base x)) (main (base x)) (disp x) i = prec x i + count (runsb i) (ws (base x)).
Proof. intros x i. unfold gcf, prec. rewrite calls_split. lia. Qed.

Lemma prec_range : forall c n x i, XInv c n x -> 1 <= prec x i -> In i (subm (base x)) /\ 1 <= i <= n.
Proof.
  intros c n x i H Hp.
  assert (Hi : In i (subm (base x))) by (apply (X_own3 _ _ _ H); rewrite prec_gcf; lia).
  split; [exact Hi|]. apply (X_sub2 _ _ _ H). apply in_or_app. now left.
Qed.

Lemma prec_le1 : forall c n x i, XInv c n x -> prec x i + count (runsb i) (ws (base x)) <= 1.
Proof. intros c n x i H. rewrite <- prec_gcf. apply (X_own1 _ _ _ H). Qed.

(* ------------------------------------------------------------------ *)

Lemma wq_distinct : forall c n x j j2 w w2, XInv c n x ->
  nth_error (ws (base x)) j = Some w -> nth_error (ws (base x)) j2 = Some w2 -> j2 <> j -> wq w2 <> wq w.
Proof.
  intros c n x j j2 w w2 H Hj Hj2 Hne. rewrite (X_wq _ _ _ H j w Hj), (X_wq _ _ _ H j2 w2 Hj2). lia.
Qed.

Lemma nw_w : forall c n x j b l,
  xnofail c -> XInv c n x -> NW x -> NF x -> w_step (bcfg c) (base x) j = Some (b, l) -> NW (set_base x b).
Proof.
  intros c n x j b l Hnf H HN HF Hst.
  destruct (nth_error (ws (base x)) j) as [w|] eqn:Hj;
    [|unfold w_step in Hst; rewrite Hj in Hst; discriminate].
  destruct (w_step_fx _ _ _ _ _ w Hst Hj) as (_ & Hlq & Hoth & _ & w' & Ews & Ewq & _).
  destruct (w_step_eff _ _ _ _ _ w Hst Hj) as (_ & _ & _ & w'' & Ews2 & _ & Hps).
  destruct (wq_facts c n x j w H Hj) as (F1 & F2 & F3).
  destruct HN as [Nl Np].
  constructor; unfold set_base; xfld.
  - intros j2 w2 H2. rewrite Ews in H2. apply nth_error_upd_inv in H2 as [(E1 & E2 & _)|(E1 & E2)].
    + subst j2 w2.
      destruct (w_step_nlocal (bcfg c) _ _ _ _ w Hnf Hst Hj F2 (X_chan _ _ _ H j w Hj)) as (w3 & Hj3 & _ & Hn3).
      * intros i Hpc. apply (NF_pend _ HF). unfold prec.
        assert (Hs : srncb i w = true) by (unfold srncb; rewrite Hpc; apply Nat.eqb_refl).
        pose proof (count_ge1 _ (srncb i) (ws (base x)) j w Hj Hs). lia.
      * intros i v Hpc. apply (xrun_is_running c n x j w i H Hj). unfold w_run. now rewrite Hpc.
      * exact (Nl j w Hj).
      * rewrite Ews, (nth_error_upd_same _ _ _ _ _ Hj) in Hj3. inversion Hj3; subst w3. rewrite Ewq. exact Hn3.
    + pose proof (Nl j2 w2 E2) as Hn2. destruct (nlocal_split _ _ _ Hn2) as (Hb & Hc & Hf).
      apply nlocal_intro; [exact Hb| |].
      * rewrite Hoth by (eapply wq_distinct; eauto). exact Hc.
      * intros Hw. specialize (Hf Hw).
        assert (Hs2 : spawnedb w2 = true) by (unfold spawnedb; destruct (wp w2); try discriminate Hw; reflexivity).
        pose proof (X_ow1 _ _ _ H j2 w2 E2) as B2. rewrite Hs2 in B2.
        unfold getp in *.
        destruct Hps as [(_ & _ & _ & _ & Eps)|(_ & _ & Hsame & Hun & _)].
        -- rewrite Eps. rewrite app_nth1 by lia. exact Hf.
        -- destruct (spawnedb w) eqn:Sw.
           ++ rewrite Hsame; [exact Hf|]. intro Ek. apply E1.
              pose proof (X_ow1 _ _ _ H j w Hj) as B1. rewrite Sw in B1.
              apply (count_le1_inj _ (procb (wproc w2 - 1)) (ws (base x)) j2 j w2 w (X_ow3 _ _ _ H _) E2 Hj);
                unfold procb; apply Nat.eqb_eq; lia.
           ++ rewrite (Hun eq_refl). exact Hf.
  - intros Hpr. rewrite Hlq. rewrite Hoth; [now apply Np|]. intro E. now apply (F3 Hpr).
Qed.

Lemma nw_p : forall c x k b l, NW x -> p_step c (base x) k = Some (b, l) -> NW (set_base x b).
Proof.
  intros c x k b l HN Hst. destruct (p_step_eff _ _ _ _ _ Hst) as (p & p' & Hp & Hk & Eb & _).
  pose proof (p_step_alive _ _ _ _ _ p Hst Hp) as Hal. subst b.
  destruct HN as [Nl Np]. constructor; unfold set_base, setp, set_ps; xfld; [|exact Np].
  intros j w Hj. pose proof (Nl j w Hj) as Hn. destruct (nlocal_split _ _ _ Hn) as (Hb & Hc & Hf).
  apply nlocal_intro; [exact Hb|exact Hc|]. intros Hw. specialize (Hf Hw). unfold getp in *. cbn [ps].
  destruct (nth_upd_cases _ (ps (base x)) (wproc w - 1) (k - 1) p' {| pp := PExit; inbox := []; outbox := [] |})
    as [(E & L & Hx)|(E & Hx)]; rewrite Hx; [|exact Hf].
  exfalso. rewrite E in Hf. rewrite (nth_error_nth' _ _ _ _ _ Hp) in Hf. congruence.
Qed.

Lemma run_not_srnc : forall w i i2, w_run w = Some i -> srncb i2 w = false.
Proof. intros w i i2. unfold w_run, srncb. destruct (wp w); intros E; try discriminate; reflexivity. Qed.

Lemma nocall_not_srnc : forall w i2, w_call w = None -> srncb i2 w = false.
Proof. intros w i2. unfold w_call, srncb. destruct (wp w); intros E; try discriminate; reflexivity. Qed.

Lemma call_in_subm : forall c n x j w i, XInv c n x -> nth_error (ws (base x)) j = Some w -> w_call w = Some i ->
  In i (subm (base x)).
Proof.
  intros c n x j w i H Hj Hc.
  assert (Hb : callsb i w = true) by (unfold callsb; rewrite Hc; apply Nat.eqb_refl).
  pose proof (count_ge1 _ (callsb i) (ws (base x)) j w Hj Hb) as Hg.
  apply (X_own3 _ _ _ H). unfold gcf. lia.
Qed.

Lemma nf_w : forall c n x j b l,
  XInv c n x -> NF x -> w_step (bcfg c) (base x) j = Some (b, l) -> NF (set_base x b).
Proof.
  intros c n x j b l H HF Hst.
  destruct (nth_error (ws (base x)) j) as [w|] eqn:Hj;
    [|unfold w_step in Hst; rewrite Hj in Hst; discriminate].
  destruct (w_step_fx _ _ _ _ _ w Hst Hj) as ((Em & _ & Es & _) & _ & _ & _ & w' & Ews & _ & Hcase).
  destruct HF as [Fp Ff Fs].
  pose proof (X_len _ _ _ H) as Hlen.
  assert (Hcu : forall i, count (srncb i) (ws b) + b2n (srncb i w) = count (srncb i) (ws (base x)) + b2n (srncb i w')).
  { intros i. rewrite Ews. apply count_upd. exact Hj. }
  destruct Hcase as [(Ef & Hcnt & _)|[(i0 & Hpc & Eq & Hsub)|(i0 & f' & Hr & Hf0 & Eq & Ef & Hd' & Hc' & _)]].
  - (* nothing relevant changes *)
    assert (Hp : forall i, prec (set_base x b) i = prec x i).
    { intros i. unfold prec, set_base. xfld. rewrite Em. specialize (Hcnt i). specialize (Hcu i). lia. }
    constructor; unfold set_base; xfld; unfold getf; rewrite ?Ef, ?Es.
    + intros i Hi. rewrite Hp in Hi. now apply Fp.
    + exact Ff.
    + intros i Hi Hg. rewrite Hp. now apply Fs.
  - (* set_running_or_notify_cancel *)
    assert (Hca : w_call w = Some i0) by (unfold w_call; rewrite Hpc; reflexivity).
    pose proof (xcall_range c n x j w i0 H Hj Hca) as Hrg.
    pose proof (call_in_subm c n x j w i0 H Hj Hca) as Hin0.
    assert (Hs0 : srncb i0 w = true) by (unfold srncb; rewrite Hpc; apply Nat.eqb_refl).
    assert (Hp0 : 1 <= prec x i0).
    { unfold prec. pose proof (count_ge1 _ (srncb i0) (ws (base x)) j w Hj Hs0). lia. }
    pose proof (Fp i0 Hp0) as Hpend.
    assert (Hs' : forall i, srncb i w' = false).
    { intros i. unfold srncb. destruct Hsub as [(_ & _ & Hp')|[(_ & _ & Hp')|(_ & _ & Hp')]]; rewrite Hp'; reflexivity. }
    assert (Hpo : forall i, i <> i0 -> prec (set_base x b) i = prec x i).
    { intros i Hne. unfold prec, set_base. xfld. rewrite Em, Eq. specialize (Hcu i). rewrite Hs' in Hcu.
      assert (srncb i w = false) by (unfold srncb; rewrite Hpc; now apply Nat.eqb_neq). rewrite H0 in Hcu. simpl in Hcu. lia. }
    assert (Hpz : prec (set_base x b) i0 = 0).
    { pose proof (prec_le1 c n x i0 H) as Hle. unfold prec, set_base in *. xfld. rewrite Em, Eq.
      specialize (Hcu i0). rewrite Hs', Hs0 in Hcu. simpl in Hcu. lia. }
    destruct Hsub as [(Hf & Ef & _)|[(Hf & Ef & _)|(Hf & _)]]; [| |congruence].
    + constructor; unfold set_base; xfld; unfold getf; rewrite ?Ef, ?Es.
      * intros i Hi. destruct (Nat.eq_dec i i0) as [E|E]; [subst i; unfold set_base in Hpz; xfld; lia|].
        rewrite Hpo in Hi by exact E. destruct (prec_range c n x i H Hi) as [_ Hri].
        rewrite getf_setf_other by lia. now apply Fp.
      * intros i Hi Hn. assert (i <> i0) by congruence. rewrite getf_setf_other by lia. now apply Ff.
      * intros i Hi Hg. pose proof (X_sub2 _ _ _ H i (in_or_app _ _ _ (or_introl Hi))) as Hri.
        destruct (Nat.eq_dec i i0) as [E|E]; [subst i; rewrite getf_setf_same in Hg by lia; discriminate|].
        rewrite getf_setf_other in Hg by lia. rewrite Hpo by exact E. now apply Fs.
    + constructor; unfold set_base; xfld; unfold getf; rewrite ?Ef, ?Es.
      * intros i Hi. destruct (Nat.eq_dec i i0) as [E|E]; [subst i; unfold set_base in Hpz; xfld; lia|].
        rewrite Hpo in Hi by exact E. destruct (prec_range c n x i H Hi) as [_ Hri].
        rewrite getf_setf_other by lia. now apply Fp.
      * intros i Hi Hn. assert (i <> i0) by congruence. rewrite getf_setf_other by lia. now apply Ff.
      * intros i Hi Hg. pose proof (X_sub2 _ _ _ H i (in_or_app _ _ _ (or_introl Hi))) as Hri.
        destruct (Nat.eq_dec i i0) as [E|E]; [subst i; rewrite getf_setf_same in Hg by lia; discriminate|].
        rewrite getf_setf_other in Hg by lia. rewrite Hpo by exact E. now apply Fs.
  - (* set_result / set_exception *)
    pose proof (run_call _ _ Hr) as Hca.
    pose proof (xcall_range c n x j w i0 H Hj Hca) as Hrg.
    pose proof (call_in_subm c n x j w i0 H Hj Hca) as Hin0.
    assert (Hp : forall i, prec (set_base x b) i = prec x i).
    { intros i. unfold prec, set_base. xfld. rewrite Em, Eq. specialize (Hcu i).
      rewrite (run_not_srnc _ _ i Hr), (nocall_not_srnc _ i Hc') in Hcu. lia. }
    assert (Hrun0 : 1 <= count (runsb i0) (ws (base x))).
    { apply (count_ge1 _ (runsb i0) (ws (base x)) j w Hj). unfold runsb. rewrite Hr. apply Nat.eqb_refl. }
    constructor; unfold set_base; xfld; unfold getf; rewrite ?Ef, ?Es.
    + intros i Hi. rewrite Hp in Hi. destruct (prec_range c n x i H Hi) as [_ Hri].
      assert (i <> i0) by (intro E; subst i; pose proof (prec_le1 c n x i0 H); lia).
      rewrite getf_setf_other by lia. now apply Fp.
    + intros i Hi Hn. assert (i <> i0) by congruence. rewrite getf_setf_other by lia. now apply Ff.
    + intros i Hi Hg. pose proof (X_sub2 _ _ _ H i (in_or_app _ _ _ (or_introl Hi))) as Hri.
      destruct (Nat.eq_dec i i0) as [E|E];
        [subst i; rewrite getf_setf_same in Hg by lia; rewrite Hg in Hd'; discriminate|].
      rewrite getf_setf_other in Hg by lia. rewrite Hp. now apply Fs.
Qed.

Lemma nf_p : forall c x k b l, NF x -> p_step c (base x) k = Some (b, l) -> NF (set_base x b).
Proof.
  intros c x k b l HF Hst. destruct (p_step_eff _ _ _ _ _ Hst) as (p & p' & _ & _ & Eb & _). subst b.
  destruct HF as [Fp Ff Fs]. constructor; assumption.
Qed.

(* ------------------------------------------------------------------ *)

(* ================= settle / m_goto ================= *)
Definition is_raise (y : outcome) : bool := match y with XRaise => true | _ => false end.

Definition head_okP (cl : bool) (sub : list nat) (l : list op) : Prop :=
  match l with
  | [] => False
  | OSubmit _ :: _ => cl = false
  | OCancel i :: _ | OResult i :: _ => In i sub
  | _ => cl = false
  end.

Ltac settle_ind l IH H :=
  induction l as [|o t IH]; intros cl lk sub acc l' acc' pc H; simpl in H;
  [ inversion H; subst; clear H
  | destruct o as [i|i|i|w b| |];
    repeat match type of H with
    | context [if ?b then _ else _] => let E := fresh "E" in destruct b eqn:E
    end;
    try (inversion H; subst; clear H) ].

Lemma settle_pc : forall l cl lk sub acc l' acc' pc,
  settle cl lk sub l acc = (l', acc', pc) -> pc = MOp \/ pc = MEnd.
Proof. settle_ind l IH H; eauto. Qed.

Lemma settle_end : forall l cl lk sub acc l' acc' pc,
  settle cl lk sub l acc = (l', acc', pc) -> pc = MEnd -> l' = [].
Proof. settle_ind l IH H; eauto; discriminate. Qed.

Lemma settle_drop : forall l cl lk sub acc l' acc' pc,
  settle cl lk sub l acc = (l', acc', pc) -> In ODrop l -> In ODrop l' \/ cl || lk = true.
Proof.
  settle_ind l IH H; auto; intros Hd; try (destruct Hd as [Hd|Hd]; [discriminate|]); eauto.
Qed.

Lemma settle_head : forall l cl lk sub acc l' acc' pc,
  settle cl lk sub l acc = (l', acc', pc) -> pc = MOp -> head_okP cl sub l'.
Proof.
  settle_ind l IH H; eauto; try discriminate; intros _; simpl; auto;
  try (apply existsb_eqb_In; exact E).
  all: apply orb_false_iff in E; tauto.
Qed.

Lemma settle_rz : forall l cl lk sub acc l' acc' pc,
  settle cl lk sub l acc = (l', acc', pc) ->
  (cl = true \/ existsb is_raise acc = false) -> (cl = true \/ existsb is_raise acc' = false).
Proof.
  settle_ind l IH H; auto; intros Hr; eapply IH; eauto;
  destruct Hr as [Hr|Hr]; auto; try discriminate; right; rewrite existsb_app, Hr; reflexivity.
Qed.

Lemma m_goto_spec : forall s l x cl, exists l' acc' pc,
  m_goto s l x cl = mkS (queues s) (futs s) (subm s) pc l' cl (ws s) (ps s) acc' /\
  settle cl (existsb is_raise (outs s ++ x) && negb cl) (subm s) l (outs s ++ x) = (l', acc', pc).
Proof.
  intros s l x cl. unfold m_goto.
  destruct (settle cl (existsb (fun y => match y with XRaise => true | _ => false end) (outs s ++ x) && negb cl)
                   (subm s) l (outs s ++ x)) as [[l' acc'] pc] eqn:E.
  exists l', acc', pc. split; [reflexivity|exact E].
Qed.

(* ================= client control invariant ================= *)
Definition inshut (m : mpc) : Prop :=
  match m with MDrain _ | MDrainCancel _ _ | MDrainTd _ | MPutShut _ _ | MJoin _ | MQJoin => True | _ => False end.

Record CtlOk (s : state) : Prop := mkCtl {
  C_drop : started (main s) -> In ODrop (ops s) \/ closed s = true;
  C_raise : closed s = true \/ existsb is_raise (outs s) = false;
  C_head : main s = MOp -> head_okP (closed s) (subm s) (ops s);
  C_end : main s = MEnd -> ops s = [];
  C_inshut : inshut (main s) -> closed s = false;
  C_put1 : forall w k, main s = MPutShut w k -> k = 1;
  C_init : ~ started (main s) -> closed s = false /\ outs s = []
}.

Lemma ctl_goto : forall s l x cl,
  (cl = true \/ existsb is_raise (outs s ++ x) = false) ->
  (In ODrop l \/ cl = true) ->
  CtlOk (m_goto s l x cl).
Proof.
  intros s l x cl Hz Hd.
  destruct (m_goto_spec s l x cl) as (l' & acc' & pc & Heq & Hset). rewrite Heq. clear Heq.
  pose proof (settle_pc _ _ _ _ _ _ _ _ Hset) as Hpc.
  pose proof (settle_end _ _ _ _ _ _ _ _ Hset) as Hend.
  pose proof (settle_drop _ _ _ _ _ _ _ _ Hset) as Hdrop.
  pose proof (settle_head _ _ _ _ _ _ _ _ Hset) as Hhead.
  pose proof (settle_rz _ _ _ _ _ _ _ _ Hset Hz) as Hrz.
  assert (Hlk : cl || (existsb is_raise (outs s ++ x) && negb cl) = true -> cl = true).
  { intros Hor. destruct cl; auto. destruct Hz as [Hz|Hz]; [discriminate|]. rewrite Hz in Hor. discriminate. }
  constructor; cbn [queues futs subm main ops closed ws ps outs].
  - intros _. destruct Hd as [Hd|Hd]; auto. destruct (Hdrop Hd) as [Hd'|Hd']; auto.
  - exact Hrz.
  - exact Hhead.
  - exact Hend.
  - intros Hi. destruct Hpc as [E|E]; rewrite E in Hi; destruct Hi.
  - intros w k E. destruct Hpc as [E'|E']; congruence.
  - intros Hn. exfalso. apply Hn. destruct Hpc as [E|E]; rewrite E; exact I.
Qed.

Lemma In_tl : forall A (x : A) l, In x (tl l) -> In x l.
Proof. intros A x [|a l] H; simpl in *; auto. Qed.

Lemma result_not_raise : forall f, existsb is_raise [result_outcome f] = false.
Proof. intros []; reflexivity. Qed.

(* ================= the client step as a relation on base states ================= *)
Definition drain_src (s : state) (w : bool) : Prop :=
  main s = MDrain w \/ (main s = MOp /\ exists t, ops s = OShutdown w true :: t).

Definition put_src (s : state) (w : bool) : Prop :=
  (main s = MOp /\ ((exists t, ops s = OShutdown w false :: t) \/ (w = true /\ exists t, ops s = OExit :: t)
                    \/ (w = false /\ exists t, ops s = ODrop :: t)))
  \/ main s = MPutShut w 1.

Definition submit_state (s : state) (i : nat) : state :=
  mkS (queues (qput s 0 (Task i))) (futs s) (subm s ++ [i]) (main s) (ops s) (closed s) (ws s) (ps s) (outs s).

Inductive cR (d : dpc) (s : state) : state -> Prop :=
| CR_begin : main s = MBegin -> cR d s (set_main s (MStart 0))
| CR_start k : main s = MStart k -> cR d s (m_goto s (ops s ++ [ODrop]) [] false)
| CR_submit i t : main s = MOp -> ops s = OSubmit i :: t ->
    cR d s (m_goto (submit_state s i) t [XOk] (closed s))
| CR_cancel i t f b : main s = MOp -> ops s = OCancel i :: t -> fcancel (getf s i) = (f, b) ->
    cR d s (m_goto (set_futs s (setf s i f)) t [XBool b] (closed s))
| CR_result i t : main s = MOp -> ops s = OResult i :: t -> fdone (getf s i) = true ->
    cR d s (m_goto s t [result_outcome (getf s i)] (closed s))
| CR_drainT w j rest : drain_src s w -> qitems (getq s 0) = Task j :: rest ->
    cR d s (set_main (qpop s 0) (MDrainCancel w j))
| CR_drainS w b rest : drain_src s w -> qitems (getq s 0) = Shut b :: rest ->
    cR d s (set_main (qpop s 0) (MDrain w))
| CR_drainE w : drain_src s w -> qitems (getq s 0) = [] -> cR d s (set_main s (MPutShut w 1))
| CR_putJ w : put_src s w -> cur_wait s = true -> cR d s (set_main (qput s 0 (Shut w)) (MJoin 0))
| CR_putF w : put_src s w -> cur_wait s = false ->
    cR d s (m_goto (qput s 0 (Shut w)) (tl (ops s)) (if cur_silent s then [] else [XOk]) true)
| CR_putK w k : main s = MPutShut w (S (S k)) -> cR d s (set_main (qput s 0 (Shut w)) (MPutShut w (S k)))
| CR_dcancel w j f b : main s = MDrainCancel w j -> fcancel (getf s j) = (f, b) ->
    cR d s (set_main (set_futs s (setf s j f)) (MDrainTd w))
| CR_dtd w : main s = MDrainTd w -> cR d s (set_main (qtd s 0) (MDrain w))
| CR_joinD k : main s = MJoin k -> d = DDead -> cR d s (m_goto s (tl (ops s)) [XRaise] false)
| CR_joinQ k : main s = MJoin k -> ddone d = true -> d <> DDead -> cR d s (set_main s MQJoin)
| CR_qjoin : main s = MQJoin -> qunf (getq s 0) = 0 ->
    cR d s (m_goto s (tl (ops s)) (if cur_silent s then [] else [XOk]) true).

Lemma xm_norm_put0 : forall x s1 w, main s1 = MPutShut w 0 ->
  base (xm_norm (set_base x s1)) =
  if cur_wait s1 then set_main s1 (MJoin 0) else m_done s1 (if cur_silent s1 then [] else [XOk]) true.
Proof.
  intros x s1 w E. unfold xm_norm. cbn [base set_base]. rewrite E. destruct (cur_wait s1); reflexivity.
Qed.

Lemma xnorm_launched : forall x, launched (xm_norm x) = launched x.
Proof.
  intros x. unfold xm_norm. destruct (main (base x)) as [| | | | | |w k|k| |]; try reflexivity.
  - destruct k; [|reflexivity]. destruct (cur_wait (base x)); reflexivity.
  - destruct k; reflexivity.
Qed.

Lemma put_cR : forall x w, put_src (base x) w ->
  cR (disp x) (base x) (base (xm_norm (set_base x (set_main (qput (base x) 0 (Shut w)) (MPutShut w 0))))) /\
  active (xm_norm (set_base x (set_main (qput (base x) 0 (Shut w)) (MPutShut w 0)))) = active x /\
  launched (xm_norm (set_base x (set_main (qput (base x) 0 (Shut w)) (MPutShut w 0)))) = launched x /\
  disp (xm_norm (set_base x (set_main (qput (base x) 0 (Shut w)) (MPutShut w 0)))) = disp x.
Proof.
  intros x w Hsrc.
  repeat split; try (rewrite (proj2 (fm_xnorm _)); reflexivity);
    try (rewrite xnorm_launched; reflexivity); try (rewrite (proj2 (bf_xnorm _)); reflexivity).
  rewrite (xm_norm_put0 _ _ w) by reflexivity.
  change (cur_wait (set_main (qput (base x) 0 (Shut w)) (MPutShut w 0))) with (cur_wait (base x)).
  change (cur_silent (set_main (qput (base x) 0 (Shut w)) (MPutShut w 0))) with (cur_silent (base x)).
  destruct (cur_wait (base x)) eqn:Hw.
  - now apply CR_putJ.
  - exact (CR_putF _ _ w Hsrc Hw).
Qed.

Lemma xm_step_cR : forall c x x' l, xm_step c x = Some (x', l) ->
  cR (disp x) (base x) (base x') /\ active x' = active x /\ launched x' = launched x /\
  disp x' = match main (base x) with MStart _ => DBegin | _ => disp x end.
Proof.
  intros c x x' l H. unfold xm_step in H. cbv zeta in H.
  destruct (main (base x)) as [|k| |w|w j|w|w k|k| |] eqn:Hm.
  - inversion H; subst; clear H. repeat split. now apply CR_begin.
  - inversion H; subst; clear H. repeat split. simpl. now apply (CR_start _ _ k).
  - destruct (ops (base x)) as [|o t] eqn:Ho; [discriminate|].
    destruct o as [i|i|i|w cc| |].
    + inversion H; subst; clear H. repeat split. simpl.
      unfold m_done. cbn [ops]. unfold qput, set_queues. fld. rewrite Ho. cbn [tl].
      exact (CR_submit _ _ i t Hm Ho).
    + destruct (fcancel (getf (base x) i)) as [f b] eqn:Ef. inversion H; subst; clear H.
      repeat split. simpl. unfold m_done. cbn [ops set_futs]. rewrite Ho. cbn [tl].
      exact (CR_cancel _ _ i t f b Hm Ho Ef).
    + destruct (fdone (getf (base x) i)) eqn:Hd; [|discriminate]. inversion H; subst; clear H.
      repeat split. simpl. unfold m_done. rewrite Ho. cbn [tl].
      exact (CR_result _ _ i t Hm Ho Hd).
    + assert (Hds : drain_src (base x) w -> True) by auto.
      destruct cc.
      * assert (Hsrc : drain_src (base x) w) by (right; split; [exact Hm|now exists t]).
        unfold drain_step in H.
        destruct (qitems (getq (base x) 0)) as [|it rest] eqn:Hq.
        -- inversion H; subst; clear H. repeat split.
           unfold xm_norm. cbn [base set_base set_main main]. now apply CR_drainE.
        -- destruct it as [j|b]; inversion H; subst; clear H; repeat split; simpl.
           ++ eapply CR_drainT; eauto.
           ++ eapply CR_drainS; eauto.
      * assert (Hsrc : put_src (base x) w) by (left; split; [exact Hm|left; now exists t]).
        inversion H; subst; clear H. destruct (put_cR x w Hsrc) as (A1 & A2 & A3 & A4).
        repeat split; try assumption.
    + assert (Hsrc : put_src (base x) false) by (left; split; [exact Hm|right; right; split; [reflexivity|now exists t]]).
      inversion H; subst; clear H. destruct (put_cR x false Hsrc) as (A1 & A2 & A3 & A4).
      repeat split; try assumption.
    + assert (Hsrc : put_src (base x) true) by (left; split; [exact Hm|right; left; split; [reflexivity|now exists t]]).
      inversion H; subst; clear H. destruct (put_cR x true Hsrc) as (A1 & A2 & A3 & A4).
      repeat split; try assumption.
  - (* MDrain *)
    assert (Hsrc : drain_src (base x) w) by (now left).
    unfold drain_step in H.
    destruct (qitems (getq (base x) 0)) as [|it rest] eqn:Hq.
    + inversion H; subst; clear H. repeat split.
      unfold xm_norm. cbn [base set_base set_main main]. now apply CR_drainE.
    + destruct it as [j|b]; inversion H; subst; clear H; repeat split; simpl.
      * eapply CR_drainT; eauto.
      * eapply CR_drainS; eauto.
  - (* MDrainCancel *)
    destruct (fcancel (getf (base x) j)) as [f b] eqn:Ef. inversion H; subst; clear H.
    repeat split. simpl. eapply CR_dcancel; eauto.
  - (* MDrainTd *) inversion H; subst; clear H. repeat split. simpl. now apply CR_dtd.
  - (* MPutShut *)
    destruct k as [|k']; [discriminate|]. inversion H; subst; clear H.
    destruct k' as [|k''].
    + assert (Hsrc : put_src (base x) w) by (now right).
      destruct (put_cR x w Hsrc) as (A1 & A2 & A3 & A4). repeat split; try assumption.
    + repeat split. unfold xm_norm. cbn [base set_base set_main main]. now apply CR_putK.
  - (* MJoin *)
    destruct (ddone (disp x)) eqn:Hdd; [|discriminate].
    destruct (disp x) eqn:Hd; inversion H; subst; clear H; simpl in Hdd; try discriminate Hdd;
      repeat split; simpl; try exact Hd.
    + eapply CR_joinQ; eauto. discriminate.
    + unfold m_done. eapply CR_joinD; eauto.
  - (* MQJoin *)
    destruct (Nat.eqb (qunf (getq (base x) 0)) 0) eqn:Hq; [|discriminate]. apply Nat.eqb_eq in Hq.
    inversion H; subst; clear H. repeat split. simpl. unfold m_done. now apply CR_qjoin.
  - discriminate.
Qed.

(* ------------------------------------------------------------------ *)

Lemma ctl_move : forall s s',
  CtlOk s -> ops s' = ops s -> closed s' = closed s -> outs s' = outs s ->
  started (main s) -> inshut (main s') -> closed s = false ->
  (forall w k, main s' = MPutShut w k -> k = 1) -> CtlOk s'.
Proof.
  intros s s' H Eo Ec Eu Hs Hi Hc Hp. destruct H as [C1 C2 C3 C4 C5 C6 C7].
  constructor; rewrite ?Eo, ?Ec, ?Eu.
  - intros _. now apply C1.
  - exact C2.
  - intros E. rewrite E in Hi. destruct Hi.
  - intros E. rewrite E in Hi. destruct Hi.
  - intros _. exact Hc.
  - exact Hp.
  - intros Hn. exfalso. apply Hn. destruct (main s'); simpl in Hi; try contradiction; exact I.
Qed.

Lemma src_closed : forall s, CtlOk s ->
  (forall w, drain_src s w -> closed s = false /\ started (main s)) /\
  (forall w, put_src s w -> closed s = false /\ started (main s)).
Proof.
  intros s H. split; intros w Hsrc.
  - destruct Hsrc as [E|[E [t Ho]]].
    + split; [apply (C_inshut _ H); rewrite E; exact I|rewrite E; exact I].
    + split; [|rewrite E; exact I]. pose proof (C_head _ H E) as Hh. rewrite Ho in Hh. exact Hh.
  - destruct Hsrc as [[E Ho]|E].
    + split; [|rewrite E; exact I]. pose proof (C_head _ H E) as Hh.
      destruct Ho as [[t Ho]|[[_ [t Ho]]|[_ [t Ho]]]]; rewrite Ho in Hh; exact Hh.
    + split; [apply (C_inshut _ H); rewrite E; exact I|rewrite E; exact I].
Qed.

Lemma ctl_cR : forall d s s', CtlOk s -> d <> DDead -> cR d s s' -> CtlOk s'.
Proof.
  intros d s s' H Hd HR.
  destruct (src_closed s H) as [Hdr Hpu].
  pose proof H as [C1 C2 C3 C4 C5 C6 C7].
  destruct HR.
  - (* begin *)
    constructor; simpl.
    + tauto.
    + exact C2.
    + intros E; discriminate E.
    + intros E; discriminate E.
    + tauto.
    + intros w k E; discriminate E.
    + intros _. apply C7. rewrite H0. simpl. tauto.
  - (* start *)
    destruct C7 as [Hc Ho]; [rewrite H0; simpl; tauto|].
    apply ctl_goto; [right; rewrite Ho; reflexivity|left; apply in_or_app; right; now left].
  - (* submit *)
    pose proof (C3 H0) as Hh. rewrite H1 in Hh. simpl in Hh.
    apply ctl_goto.
    + right. simpl. destruct C2 as [C2|C2]; [congruence|]. rewrite existsb_app, C2. reflexivity.
    + destruct C1 as [C1|C1]; [rewrite H0; exact I| |now right].
      rewrite H1 in C1. destruct C1 as [C1|C1]; [discriminate|now left].
  - (* cancel *)
    apply ctl_goto.
    + simpl. destruct C2 as [C2|C2]; [now left|right]. rewrite existsb_app, C2. reflexivity.
    + destruct C1 as [C1|C1]; [rewrite H0; exact I| |now right].
      rewrite H1 in C1. destruct C1 as [C1|C1]; [discriminate|now left].
  - (* result *)
    apply ctl_goto.
    + destruct C2 as [C2|C2]; [now left|right]. rewrite existsb_app, C2. apply result_not_raise.
    + destruct C1 as [C1|C1]; [rewrite H0; exact I| |now right].
      rewrite H1 in C1. destruct C1 as [C1|C1]; [discriminate|now left].
  - destruct (Hdr _ H0) as [Hc Hs]. apply (ctl_move s); try reflexivity; try assumption; try exact I.
    intros w0 k E. discriminate E.
  - destruct (Hdr _ H0) as [Hc Hs]. apply (ctl_move s); try reflexivity; try assumption; try exact I.
    intros w0 k E. discriminate E.
  - destruct (Hdr _ H0) as [Hc Hs]. apply (ctl_move s); try reflexivity; try assumption; try exact I.
    intros w0 k E. simpl in E. now inversion E.
  - destruct (Hpu _ H0) as [Hc Hs]. apply (ctl_move s); try reflexivity; try assumption; try exact I.
    intros w0 k E. discriminate E.
  - apply ctl_goto; [now left|now right].
  - exfalso. specialize (C6 _ _ H0). discriminate C6.
  - apply (ctl_move s); try reflexivity; try assumption; try exact I.
    + rewrite H0. exact I.
    + apply C5. rewrite H0. exact I.
    + intros w0 k E. discriminate E.
  - apply (ctl_move s); try reflexivity; try assumption; try exact I.
    + rewrite H0. exact I.
    + apply C5. rewrite H0. exact I.
    + intros w0 k E. discriminate E.
  - contradiction.
  - apply (ctl_move s); try reflexivity; try assumption; try exact I.
    + rewrite H0. exact I.
    + apply C5. rewrite H0. exact I.
    + intros w0 k0 E. discriminate E.
  - apply ctl_goto; [now left|now right].
Qed.

(* ================= the main queue: counter and shutdown-message accounting ================= *)
Definition d_holds (d : dpc) : nat :=
  match d with
  | DPutTask _ | DPutShut _ | DScan _ _ _ | DSpin _ | DStart _ | DTd | DSJoin _ | DSTd | DDead => 1
  | _ => 0
  end.
Definition d_past (d : dpc) : nat :=
  match d with DSJoin _ | DSTd | DSQJoin | DDone | DDead => 1 | _ => 0 end.
Definition xsp (s : state) : nat :=
  if closed s then 1 else match main s with MJoin _ | MQJoin => 1 | _ => 0 end.
Definition q0v (s : state) : queue := nth 0 (queues s) dq.

Record NQ (x : xstate) : Prop := mkNQ {
  NQ_cnt : qunf (q0v (base x)) = length (qitems (q0v (base x))) + m_holds (base x) + d_holds (disp x);
  NQ_sh : count is_shut (qitems (q0v (base x))) + d_past (disp x) = xsp (base x);
  NQ_srt : srt (qitems (q0v (base x))) = true;
  NQ_past : d_past (disp x) = 1 -> qitems (q0v (base x)) = []
}.

Lemma q0v_put : forall s it, queues s <> [] ->
  q0v (qput s 0 it) = mkQ (qitems (q0v s) ++ [it]) (S (qunf (q0v s))).
Proof. intros s it H. unfold q0v, qput, set_queues, getq. fld. now apply getq_upd0. Qed.
Lemma q0v_pop : forall s, queues s <> [] -> q0v (qpop s 0) = mkQ (tl (qitems (q0v s))) (qunf (q0v s)).
Proof. intros s H. unfold q0v, qpop, set_queues, getq. fld. now apply getq_upd0. Qed.
Lemma q0v_td : forall s, queues s <> [] -> q0v (qtd s 0) = mkQ (qitems (q0v s)) (pred (qunf (q0v s))).
Proof. intros s H. unfold q0v, qtd, set_queues, getq. fld. now apply getq_upd0. Qed.
Lemma q0v_goto : forall s l x cl, q0v (m_goto s l x cl) = q0v s.
Proof. intros. unfold q0v. now rewrite m_goto_queues. Qed.

Lemma m_goto_closed : forall s l x cl, closed (m_goto s l x cl) = cl.
Proof. intros. destruct (m_goto_spec s l x cl) as (l' & a' & pc & E & _). rewrite E. reflexivity. Qed.

Lemma m_holds_goto : forall s l x cl, m_holds (m_goto s l x cl) = 0.
Proof. intros. unfold m_holds. destruct (m_goto_main s l x cl) as [E|E]; rewrite E; reflexivity. Qed.

Lemma xsp_goto : forall s l x cl, xsp (m_goto s l x cl) = b2n cl.
Proof.
  intros. unfold xsp. rewrite m_goto_closed. destruct cl; [reflexivity|].
  destruct (m_goto_main s l x false) as [E|E]; rewrite E; reflexivity.
Qed.

Lemma srt_snoc_shut : forall l w, srt l = true -> srt (l ++ [Shut w]) = true.
Proof.
  induction l as [|it l IH]; intros w H; simpl in *; [reflexivity|]. destruct it.
  - now apply IH.
  - rewrite forallb_app, H. reflexivity.
Qed.

Lemma srt_snoc_task : forall l i, count is_shut l = 0 -> srt (l ++ [Task i]) = true.
Proof.
  induction l as [|it l IH]; intros i H; simpl in *; [reflexivity|]. rewrite count_cons in H. destruct it; simpl in H.
  - apply IH. lia.
  - lia.
Qed.

Lemma srt_tl : forall it l, srt (it :: l) = true -> srt l = true.
Proof.
  intros it l H. destruct it; simpl in H; [exact H|].
  induction l as [|a l IH]; [reflexivity|]. simpl in *. apply andb_true_iff in H. destruct H as [Ha Hl].
  destruct a; simpl in Ha; [discriminate|exact Hl].
Qed.

Lemma srt_shut_head : forall b l, srt (Shut b :: l) = true -> count is_shut l = length l.
Proof.
  intros b l H. simpl in H. induction l as [|a l IH]; [reflexivity|].
  simpl in H. apply andb_true_iff in H. destruct H as [Ha Hl]. rewrite count_cons, Ha, (IH Hl). reflexivity.
Qed.

Lemma count_shut_zero_in : forall l b, count is_shut l = 0 -> ~ In (Shut b) l.
Proof.
  induction l as [|a l IH]; intros b H Hin; [destruct Hin|]. rewrite count_cons in H.
  destruct Hin as [E|Hin]; [subst a; simpl in H; lia|]. eapply IH; eauto. lia.
Qed.

Lemma nq_cR : forall x s' d' a l,
  queues (base x) <> [] -> CtlOk (base x) -> NQ x -> disp x <> DDead -> cR (disp x) (base x) s' ->
  d_holds d' = d_holds (disp x) -> d_past d' = d_past (disp x) ->
  NQ (mkX s' d' a l).
Proof.
  intros x s' d' a l Hne HC HQ Hdd HR Eh Ep.
  destruct (src_closed _ HC) as [Hdr Hpu].
  destruct HQ as [Q1 Q2 Q3 Q4].
  assert (Hx0 : closed (base x) = false -> (forall k, main (base x) <> MJoin k) -> main (base x) <> MQJoin ->
                xsp (base x) = 0).
  { intros Hc Hj Hq. unfold xsp. rewrite Hc. destruct (main (base x)); try reflexivity; [exfalso; eapply Hj; eauto|congruence]. }
  destruct HR; constructor; xfld; rewrite ?Eh, ?Ep.
  (* begin *)
  - unfold m_holds in *. simpl. rewrite H in Q1. exact Q1.
  - unfold xsp in *. simpl. rewrite H in Q2. exact Q2.
  - exact Q3.
  - exact Q4.
  (* start *)
  - rewrite q0v_goto, m_holds_goto. unfold m_holds in Q1. rewrite H in Q1. lia.
  - rewrite q0v_goto, xsp_goto. simpl. unfold xsp in Q2. rewrite H in Q2.
    destruct (C_init _ HC) as [Hc _]; [rewrite H; simpl; tauto|]. rewrite Hc in Q2. exact Q2.
  - rewrite q0v_goto. exact Q3.
  - rewrite q0v_goto. exact Q4.
  (* submit *)
  - rewrite q0v_goto, m_holds_goto. unfold submit_state, q0v. fld. fold (q0v (qput (base x) 0 (Task i))).
    rewrite q0v_put by exact Hne. simpl. rewrite app_length. simpl. unfold m_holds in Q1. rewrite H in Q1. lia.
  - rewrite q0v_goto, xsp_goto. unfold submit_state, q0v. fld. fold (q0v (qput (base x) 0 (Task i))).
    rewrite q0v_put by exact Hne. simpl. rewrite count_snoc. simpl.
    unfold xsp in Q2. rewrite H in Q2. destruct (closed (base x)); simpl; lia.
  - rewrite q0v_goto. unfold submit_state, q0v. fld. fold (q0v (qput (base x) 0 (Task i))).
    rewrite q0v_put by exact Hne. simpl. apply srt_snoc_task.
    pose proof (C_head _ HC H) as Hh. rewrite H0 in Hh. simpl in Hh.
    unfold xsp in Q2. rewrite Hh, H in Q2. lia.
  - intros Hp. exfalso. pose proof (C_head _ HC H) as Hh. rewrite H0 in Hh. simpl in Hh.
    unfold xsp in Q2. rewrite Hh, H in Q2. lia.
  (* cancel *)
  - rewrite q0v_goto, m_holds_goto. unfold m_holds in Q1. rewrite H in Q1. exact Q1.
  - rewrite q0v_goto, xsp_goto. unfold xsp in Q2. rewrite H in Q2. destruct (closed (base x)); exact Q2.
  - rewrite q0v_goto. exact Q3.
  - rewrite q0v_goto. exact Q4.
  (* result *)
  - rewrite q0v_goto, m_holds_goto. unfold m_holds in Q1. rewrite H in Q1. exact Q1.
  - rewrite q0v_goto, xsp_goto. unfold xsp in Q2. rewrite H in Q2. destruct (closed (base x)); exact Q2.
  - rewrite q0v_goto. exact Q3.
  - rewrite q0v_goto. exact Q4.
  (* drainT *)
  - change (q0v (set_main (qpop (base x) 0) (MDrainCancel w j))) with (q0v (qpop (base x) 0)).
    rewrite q0v_pop by exact Hne. change (getq (base x) 0) with (q0v (base x)) in H0. rewrite H0 in *. simpl in *.
    unfold m_holds in *. simpl. destruct H as [E|[E _]]; rewrite E in Q1; lia.
  - change (q0v (set_main (qpop (base x) 0) (MDrainCancel w j))) with (q0v (qpop (base x) 0)).
    rewrite q0v_pop by exact Hne. change (getq (base x) 0) with (q0v (base x)) in H0. rewrite H0 in *. simpl.
    rewrite count_cons in Q2. simpl in Q2. destruct (Hdr _ H) as [Hc _].
    unfold xsp in *. simpl. rewrite Hc in *. destruct H as [E|[E _]]; rewrite E in Q2; exact Q2.
  - change (q0v (set_main (qpop (base x) 0) (MDrainCancel w j))) with (q0v (qpop (base x) 0)).
    rewrite q0v_pop by exact Hne. change (getq (base x) 0) with (q0v (base x)) in H0. rewrite H0 in *. simpl. exact Q3.
  - intros Hp. specialize (Q4 Hp). change (getq (base x) 0) with (q0v (base x)) in H0. congruence.
  (* drainS: impossible *)
  - exfalso. change (getq (base x) 0) with (q0v (base x)) in H0. destruct (Hdr _ H) as [Hc _].
    rewrite H0, count_cons in Q2. simpl in Q2. unfold xsp in Q2. rewrite Hc in Q2.
    destruct H as [E|[E _]]; rewrite E in Q2; lia.
  - exfalso. change (getq (base x) 0) with (q0v (base x)) in H0. destruct (Hdr _ H) as [Hc _].
    rewrite H0, count_cons in Q2. simpl in Q2. unfold xsp in Q2. rewrite Hc in Q2.
    destruct H as [E|[E _]]; rewrite E in Q2; lia.
  - exfalso. change (getq (base x) 0) with (q0v (base x)) in H0. destruct (Hdr _ H) as [Hc _].
    rewrite H0, count_cons in Q2. simpl in Q2. unfold xsp in Q2. rewrite Hc in Q2.
    destruct H as [E|[E _]]; rewrite E in Q2; lia.
  - exfalso. change (getq (base x) 0) with (q0v (base x)) in H0. destruct (Hdr _ H) as [Hc _].
    rewrite H0, count_cons in Q2. simpl in Q2. unfold xsp in Q2. rewrite Hc in Q2.
    destruct H as [E|[E _]]; rewrite E in Q2; lia.
  (* drainE *)
  - change (q0v (set_main (base x) (MPutShut w 1))) with (q0v (base x)).
    unfold m_holds in *. simpl. destruct H as [E|[E _]]; rewrite E in Q1; exact Q1.
  - change (q0v (set_main (base x) (MPutShut w 1))) with (q0v (base x)).
    destruct (Hdr _ H) as [Hc _]. unfold xsp in *. simpl. rewrite Hc in *.
    destruct H as [E|[E _]]; rewrite E in Q2; exact Q2.
  - exact Q3.
  - exact Q4.
  (* putJ *)
  - change (q0v (set_main (qput (base x) 0 (Shut w)) (MJoin 0))) with (q0v (qput (base x) 0 (Shut w))).
    rewrite q0v_put by exact Hne. simpl. rewrite app_length. simpl. unfold m_holds in *. simpl.
    destruct H as [[E _]|E]; rewrite E in Q1; lia.
  - change (q0v (set_main (qput (base x) 0 (Shut w)) (MJoin 0))) with (q0v (qput (base x) 0 (Shut w))).
    rewrite q0v_put by exact Hne. simpl. rewrite count_snoc. simpl.
    destruct (Hpu _ H) as [Hc _]. unfold xsp in *. simpl. rewrite Hc in *.
    destruct H as [[E _]|E]; rewrite E in Q2; lia.
  - change (q0v (set_main (qput (base x) 0 (Shut w)) (MJoin 0))) with (q0v (qput (base x) 0 (Shut w))).
    rewrite q0v_put by exact Hne. simpl. now apply srt_snoc_shut.
  - intros Hp. exfalso. destruct (Hpu _ H) as [Hc _]. unfold xsp in Q2. rewrite Hc in Q2.
    destruct H as [[E _]|E]; rewrite E in Q2; lia.
  (* putF *)
  - rewrite q0v_goto, m_holds_goto, q0v_put by exact Hne. simpl. rewrite app_length. simpl. unfold m_holds in *.
    destruct H as [[E _]|E]; rewrite E in Q1; lia.
  - rewrite q0v_goto, xsp_goto, q0v_put by exact Hne. simpl. rewrite count_snoc. simpl.
    destruct (Hpu _ H) as [Hc _]. unfold xsp in *. rewrite Hc in *.
    destruct H as [[E _]|E]; rewrite E in Q2; lia.
  - rewrite q0v_goto, q0v_put by exact Hne. simpl. now apply srt_snoc_shut.
  - intros Hp. exfalso. destruct (Hpu _ H) as [Hc _]. unfold xsp in Q2. rewrite Hc in Q2.
    destruct H as [[E _]|E]; rewrite E in Q2; lia.
  (* putK: impossible *)
  - exfalso. pose proof (C_put1 _ HC _ _ H). discriminate.
  - exfalso. pose proof (C_put1 _ HC _ _ H). discriminate.
  - exfalso. pose proof (C_put1 _ HC _ _ H). discriminate.
  - exfalso. pose proof (C_put1 _ HC _ _ H). discriminate.
  (* dcancel *)
  - change (q0v (set_main (set_futs (base x) (setf (base x) j f)) (MDrainTd w))) with (q0v (base x)).
    unfold m_holds in *. simpl. rewrite H in Q1. exact Q1.
  - change (q0v (set_main (set_futs (base x) (setf (base x) j f)) (MDrainTd w))) with (q0v (base x)).
    unfold xsp in *. simpl. rewrite H in Q2. exact Q2.
  - exact Q3.
  - exact Q4.
  (* dtd *)
  - change (q0v (set_main (qtd (base x) 0) (MDrain w))) with (q0v (qtd (base x) 0)).
    rewrite q0v_td by exact Hne. simpl. unfold m_holds in *. simpl. rewrite H in Q1. lia.
  - change (q0v (set_main (qtd (base x) 0) (MDrain w))) with (q0v (qtd (base x) 0)).
    rewrite q0v_td by exact Hne. simpl. unfold xsp in *. simpl. rewrite H in Q2. exact Q2.
  - change (q0v (set_main (qtd (base x) 0) (MDrain w))) with (q0v (qtd (base x) 0)).
    rewrite q0v_td by exact Hne. simpl. exact Q3.
  - change (q0v (set_main (qtd (base x) 0) (MDrain w))) with (q0v (qtd (base x) 0)).
    rewrite q0v_td by exact Hne. simpl. exact Q4.
  (* joinD: impossible *)
  - contradiction.
  - contradiction.
  - contradiction.
  - contradiction.
  (* joinQ *)
  - change (q0v (set_main (base x) MQJoin)) with (q0v (base x)). unfold m_holds in *. simpl. rewrite H in Q1. exact Q1.
  - change (q0v (set_main (base x) MQJoin)) with (q0v (base x)). unfold xsp in *. simpl. rewrite H in Q2. exact Q2.
  - exact Q3.
  - exact Q4.
  (* qjoin *)
  - rewrite q0v_goto, m_holds_goto. unfold m_holds in Q1. rewrite H in Q1. exact Q1.
  - rewrite q0v_goto, xsp_goto. simpl. unfold xsp in Q2. rewrite H in Q2. destruct (closed (base x)); exact Q2.
  - rewrite q0v_goto. exact Q3.
  - rewrite q0v_goto. exact Q4.
Qed.

(* ================= futures under client steps ================= *)
Lemma fpend_cancel_nth : forall (fs : list fstate) i i0,
  fpend (nth (i0 - 1) (upd fs (i - 1) (fst (fcancel (nth (i - 1) fs FPending)))) FPending)
  = fpend (nth (i0 - 1) fs FPending).
Proof.
  intros fs i i0.
  destruct (nth_upd_cases _ fs (i0 - 1) (i - 1) (fst (fcancel (nth (i - 1) fs FPending))) FPending)
    as [(E & L & Hx)|(E & Hx)]; rewrite Hx; [|reflexivity].
  rewrite E. destruct (nth (i - 1) fs FPending); reflexivity.
Qed.

Lemma pending_cancel_nth : forall (fs : list fstate) i i0,
  nth (i0 - 1) (upd fs (i - 1) (fst (fcancel (nth (i - 1) fs FPending)))) FPending = FPending ->
  nth (i0 - 1) fs FPending = FPending /\ (i0 - 1 = i - 1 -> i - 1 < length fs -> False).
Proof.
  intros fs i i0 H.
  destruct (nth_upd_cases _ fs (i0 - 1) (i - 1) (fst (fcancel (nth (i - 1) fs FPending))) FPending)
    as [(E & L & Hx)|(E & Hx)]; rewrite Hx in H.
  - exfalso. destruct (nth (i - 1) fs FPending); simpl in H; discriminate.
  - split; [exact H|]. intros E1 L. destruct E as [E|E]; [congruence|lia].
Qed.

Lemma prec_eq : forall x x', 
  (forall i, count (taskb i) (allq (queues (base x'))) + mdc (main (base x')) i
             = count (taskb i) (allq (queues (base x))) + mdc (main (base x)) i) ->
  ws (base x') = ws (base x) -> (forall i, dhold (disp x') i = dhold (disp x) i) ->
  forall i, prec x' i = prec x i.
Proof. intros x x' Hq Ew Ed i. unfold prec. rewrite Ew, Ed. specialize (Hq i). lia. Qed.

Lemma nf_same : forall x x', NF x -> futs (base x') = futs (base x) -> subm (base x') = subm (base x) ->
  (forall i, prec x' i = prec x i) -> NF x'.
Proof.
  intros x x' [Fp Ff Fs] Ef Es Hp. constructor; unfold getf; rewrite ?Ef, ?Es.
  - intros i Hi. rewrite Hp in Hi. now apply Fp.
  - exact Ff.
  - intros i Hi Hg. rewrite Hp. now apply Fs.
Qed.

Lemma mdc_goto : forall s l x cl i, mdc (main (m_goto s l x cl)) i = 0.
Proof. intros. apply plain_mdc. apply m_goto_plain. Qed.

Lemma nf_cR : forall c n x s' d' a l,
  XInv c n x -> CtlOk (base x) -> NF x -> disp x <> DDead -> cR (disp x) (base x) s' ->
  (forall i, dhold d' i = dhold (disp x) i) ->
  NF (mkX s' d' a l).
Proof.
  intros c n x s' d' a l H HC HF Hdd HR Ed.
  pose proof (q0_range c n x H) as Hq0.
  assert (Hsame : forall s1, futs s1 = futs (base x) -> subm s1 = subm (base x) -> ws s1 = ws (base x) ->
            (forall i, count (taskb i) (allq (queues s1)) + mdc (main s1) i
                       = count (taskb i) (allq (queues (base x))) + mdc (main (base x)) i) ->
            NF (mkX s1 d' a l)).
  { intros s1 Ef Es Ew Hq. apply (nf_same x); try assumption. apply prec_eq; assumption. }
  destruct HR.
  - (* begin *) apply Hsame; try reflexivity. intros i. simpl. rewrite H0. reflexivity.
  - (* start *) apply Hsame; autorewrite with flds; try reflexivity. intros i. rewrite mdc_goto, H0. reflexivity.
  - (* submit *)
    destruct HF as [Fp Ff Fs].
    assert (Hni : ~ In i (subm (base x))).
    { pose proof (X_sub1 _ _ _ H) as Hnd. rewrite H1 in Hnd. simpl in Hnd. apply NoDup_remove_2 in Hnd.
      intro Hx. apply Hnd. apply in_or_app. now left. }
    assert (Hri : 1 <= i <= n).
    { apply (X_sub2 _ _ _ H). rewrite H1. apply in_or_app. right. now left. }
    assert (Hp : forall i0, prec (mkX (m_goto (submit_state (base x) i) t [XOk] (closed (base x))) d' a l) i0
                             = prec x i0 + b2n (Nat.eqb i0 i)).
    { intros i0. unfold prec. xfld. autorewrite with flds. rewrite mdc_goto, Ed. unfold submit_state, qput, set_queues, getq. fld.
      rewrite count_qput by exact Hq0. rewrite H0. simpl. lia. }
    constructor; xfld; unfold getf; autorewrite with flds; unfold submit_state; fld.
    + intros i0 Hi. rewrite Hp in Hi. destruct (Nat.eqb i0 i) eqn:E.
      * apply Nat.eqb_eq in E. subst i0. fold (getf (base x) i). rewrite (Ff i) by (lia || assumption). reflexivity.
      * apply Fp. simpl in Hi. lia.
    + intros i0 Hi Hn. apply Ff; [exact Hi|]. intro Hx. apply Hn. apply in_or_app. now left.
    + intros i0 Hi Hg. rewrite Hp. apply in_app_or in Hi. destruct Hi as [Hi|[Hi|[]]].
      * pose proof (Fs i0 Hi Hg). lia.
      * subst i0. rewrite Nat.eqb_refl. simpl. lia.
  - (* cancel *)
    destruct HF as [Fp Ff Fs].
    pose proof (C_head _ HC H0) as Hh. rewrite H1 in Hh. simpl in Hh.
    assert (Hri : 1 <= i <= n) by (apply (X_sub2 _ _ _ H); apply in_or_app; now left).
    assert (Ef : f = fst (fcancel (nth (i - 1) (futs (base x)) FPending))) by (unfold getf in H2; rewrite H2; reflexivity).
    assert (Hp : forall i0, prec (mkX (m_goto (set_futs (base x) (setf (base x) i f)) t [XBool b] (closed (base x))) d' a l) i0
                             = prec x i0).
    { apply prec_eq; xfld; autorewrite with flds; try reflexivity; try assumption.
      intros i0. rewrite mdc_goto, H0. reflexivity. }
    pose proof (X_len _ _ _ H) as Hlen.
    constructor; xfld.
    + intros i0 Hi. rewrite Hp in Hi. unfold getf. autorewrite with flds. unfold set_futs, setf. fld.
      rewrite Ef, fpend_cancel_nth. now apply Fp.
    + unfold getf. autorewrite with flds. unfold set_futs, setf. fld.
      intros i0 Hi Hn. assert (i0 <> i) by congruence. rewrite nth_upd_other by lia. now apply Ff.
    + intros i0 Hi Hg. rewrite Hp. unfold getf in Hg. autorewrite with flds in Hi, Hg. unfold set_futs, setf in Hg, Hi.
      cbn [futs subm] in Hi, Hg. rewrite Ef in Hg. apply pending_cancel_nth in Hg. destruct Hg as [Hg _]. now apply Fs.
  - (* result *) apply Hsame; autorewrite with flds; try reflexivity. intros i0. rewrite mdc_goto, H0. reflexivity.
  - (* drainT *)
    apply Hsame; try reflexivity. intros i0. unfold qpop, set_queues, set_main. fld.
    pose proof (count_qpop (taskb i0) _ _ _ _ (qunf (getq (base x) 0)) H1) as Hc. unfold getq in *. rewrite H1. cbn [tl].
    simpl in *. destruct H0 as [E|[E _]]; rewrite E; simpl; destruct (Nat.eqb i0 j); simpl in *; lia.
  - (* drainS *)
    apply Hsame; try reflexivity. intros i0. unfold qpop, set_queues, set_main. fld.
    pose proof (count_qpop (taskb i0) _ _ _ _ (qunf (getq (base x) 0)) H1) as Hc. unfold getq in *. rewrite H1. cbn [tl].
    simpl in *. destruct H0 as [E|[E _]]; rewrite E; simpl; lia.
  - (* drainE *)
    apply Hsame; try reflexivity. intros i0. simpl. destruct H0 as [E|[E _]]; rewrite E; reflexivity.
  - (* putJ *)
    apply Hsame; try reflexivity. intros i0. unfold qput, set_queues, set_main, getq. fld.
    rewrite count_qput by exact Hq0. simpl. destruct H0 as [[E _]|E]; rewrite E; simpl; lia.
  - (* putF *)
    apply Hsame; autorewrite with flds; try reflexivity. intros i0. rewrite mdc_goto.
    unfold qput, set_queues, getq. fld. rewrite count_qput by exact Hq0. simpl.
    destruct H0 as [[E _]|E]; rewrite E; simpl; lia.
  - (* putK *) exfalso. pose proof (C_put1 _ HC _ _ H0). discriminate.
  - (* dcancel *)
    destruct HF as [Fp Ff Fs].
    assert (Hpj : 1 <= prec x j) by (unfold prec; rewrite H0; simpl; rewrite Nat.eqb_refl; lia).
    destruct (prec_range c n x j H Hpj) as [Hinj Hrj].
    assert (Ef : f = fst (fcancel (nth (j - 1) (futs (base x)) FPending))) by (unfold getf in H1; rewrite H1; reflexivity).
    assert (Hp : forall i0, prec (mkX (set_main (set_futs (base x) (setf (base x) j f)) (MDrainTd w)) d' a l) i0
                             + b2n (Nat.eqb i0 j) = prec x i0).
    { intros i0. unfold prec. xfld. simpl. rewrite Ed, H0. simpl. destruct (Nat.eqb i0 j); simpl; lia. }
    pose proof (X_len _ _ _ H) as Hlen.
    constructor; xfld.
    + intros i0 Hi. specialize (Hp i0). assert (Hi0 : 1 <= prec x i0) by lia.
      unfold getf, set_main, set_futs, setf. fld. rewrite Ef, fpend_cancel_nth. now apply Fp.
    + unfold getf, set_main, set_futs, setf. fld.
      intros i0 Hi Hn. assert (i0 <> j) by congruence. rewrite nth_upd_other by lia. now apply Ff.
    + intros i0 Hi Hg. specialize (Hp i0). unfold getf, set_main, set_futs, setf in Hg, Hi. cbn [futs subm] in Hg, Hi.
      rewrite Ef in Hg. apply pending_cancel_nth in Hg. destruct Hg as [Hg Hne].
      destruct (Nat.eqb i0 j) eqn:E.
      * apply Nat.eqb_eq in E. subst i0. exfalso. apply Hne; [reflexivity|lia].
      * simpl in Hp. pose proof (Fs i0 Hi Hg). lia.
  - (* dtd *)
    apply Hsame; try reflexivity. intros i0. unfold qtd, set_queues, set_main, getq. fld.
    rewrite allq_qtd. rewrite H0. reflexivity.
  - contradiction.
  - (* joinQ *) apply Hsame; try reflexivity. intros i0. simpl. rewrite H0. reflexivity.
  - (* qjoin *) apply Hsame; autorewrite with flds; try reflexivity. intros i0. rewrite mdc_goto, H0. reflexivity.
Qed.

(* ------------------------------------------------------------------ *)

Record NC (x : xstate) : Prop := mkNC {
  NC_ctl : CtlOk (base x);
  NC_dnone : disp x = DNone -> ~ started (main (base x));
  NC_dead : disp x <> DDead;
  NC_launch : launched x = length (ws (base x));
  NC_join : forall k, disp x = DSJoin k -> k < length (ws (base x))
}.

Record NInv (x : xstate) : Prop := mkNInv { N_W : NW x; N_Q : NQ x; N_C : NC x; N_F : NF x }.

(* ================= client steps ================= *)
Lemma cR_unstarted : forall d s s', cR d s s' -> ~ started (main s) ->
  (main s = MBegin /\ main s' = MStart 0) \/ (exists k, main s = MStart k).
Proof.
  intros d s s' HR Hn. destruct HR;
    try (exfalso; apply Hn; rewrite H; exact I);
    try (exfalso; apply Hn; destruct H as [E0|[E0 _]]; rewrite E0; exact I);
    try (exfalso; apply Hn; destruct H as [[E0 _]|E0]; rewrite E0; exact I).
  - left. split; [exact H|reflexivity].
  - right. now exists k.
Qed.

Lemma ninv_m : forall c n x x' l, XInv c n x -> NInv x -> xm_step c x = Some (x', l) -> NInv x'.
Proof.
  intros c n x x' l H [HW HQ HC HF] Hst.
  destruct (xm_step_cR _ _ _ _ Hst) as (HR & Ea & El & Ed).
  destruct (xm_step_eff _ _ _ _ Hst) as ((Ews & Eps & Elq & Enq) & _ & _).
  pose proof (NC_ctl _ HC) as Hctl. pose proof (NC_dead _ HC) as Hdd.
  assert (Hne : queues (base x) <> []).
  { pose proof (q0_range c n x H) as L. intro E. rewrite E in L. simpl in L. lia. }
  (* the dispatcher pc: unchanged, or DNone -> DBegin *)
  assert (Hd : disp x' = disp x \/ (disp x = DNone /\ disp x' = DBegin /\ exists k, main (base x) = MStart k)).
  { destruct (main (base x)) eqn:Hm; try (left; exact Ed). right.
    destruct (X_dn _ _ _ H) as [Hs|Hs]; [rewrite Hm in Hs; destruct Hs|]. repeat split; try assumption. now exists k. }
  assert (Hdh : d_holds (disp x') = d_holds (disp x) /\ d_past (disp x') = d_past (disp x) /\
                (forall i, dhold (disp x') i = dhold (disp x) i) /\ prep (disp x') = prep (disp x)).
  { destruct Hd as [E|(E1 & E2 & _)]; [rewrite E; repeat split; reflexivity|rewrite E1, E2; repeat split; reflexivity]. }
  destruct Hdh as (Eh & Ep & Edh & Epr).
  destruct x' as [s' d' a' l']. cbn [base disp active launched] in *.
  constructor.
  - (* NW *)
    destruct HW as [Nl Np]. constructor; xfld.
    + intros j w Hj. rewrite Ews in Hj. destruct (wq_facts c n x j w H Hj) as (F1 & _).
      unfold getp. rewrite Eps, Enq by exact F1. exact (Nl j w Hj).
    + intros Hpr. rewrite Epr in Hpr. pose proof (X_lq _ _ _ H) as L. rewrite Hpr in L.
      rewrite Elq, Enq by lia. now apply Np.
  - (* NQ *) eapply nq_cR; eauto.
  - (* NC *)
    destruct HC as [C1 C2 C3 C4 C5]. constructor; xfld.
    + eapply ctl_cR; eauto.
    + intros E. destruct Hd as [Hd|(_ & Hd & _)]; [|congruence]. rewrite Hd in E. specialize (C2 E).
      destruct (cR_unstarted _ _ _ HR C2) as [(_ & E2)|(k & E2)].
      * rewrite E2. simpl. tauto.
      * exfalso. rewrite E2 in Ed. congruence.
    + destruct Hd as [Hd|(_ & Hd & _)]; rewrite Hd; [exact C3|discriminate].
    + rewrite El, Ews. exact C4.
    + intros k E. rewrite Ews. destruct Hd as [Hd|(_ & Hd & _)]; rewrite Hd in E; [now apply C5|discriminate].
  - (* NF *) eapply (nf_cR c n x); eauto.
Qed.

(* ================= worker and process steps ================= *)
Lemma ctl_same_ok : forall s s', ctl_same s s' -> CtlOk s -> CtlOk s'.
Proof.
  intros s s' (Em & Eo & Es & Ec & Eu) [C1 C2 C3 C4 C5 C6 C7].
  constructor; rewrite ?Em, ?Eo, ?Es, ?Ec, ?Eu; assumption.
Qed.

Lemma ninv_w : forall c n x j b l,
  xnofail c -> XInv c n x -> NInv x -> w_step (bcfg c) (base x) j = Some (b, l) -> NInv (set_base x b).
Proof.
  intros c n x j b l Hnf H [HW HQ HC HF] Hst.
  destruct (nth_error (ws (base x)) j) as [w|] eqn:Hj;
    [|unfold w_step in Hst; rewrite Hj in Hst; discriminate].
  destruct (w_step_fx _ _ _ _ _ w Hst Hj) as (Hctl & Hlq & Hoth & _ & w' & Ews & _ & _).
  destruct (wq_facts c n x j w H Hj) as (F1 & _).
  pose proof Hctl as (Em & Eo & Es & Ec & Eu).
  constructor.
  - eapply nw_w; eauto.
  - destruct HQ as [Q1 Q2 Q3 Q4].
    assert (Eq0 : q0v b = q0v (base x)) by (unfold q0v; apply Hoth; lia).
    constructor; unfold set_base; xfld; rewrite ?Eq0.
    + unfold m_holds in *. rewrite Em. exact Q1.
    + unfold xsp in *. rewrite Em, Ec. exact Q2.
    + exact Q3.
    + exact Q4.
  - destruct HC as [C1 C2 C3 C4 C5]. constructor; unfold set_base; xfld.
    + eapply ctl_same_ok; eauto.
    + rewrite Em. exact C2.
    + exact C3.
    + rewrite Ews, upd_length. exact C4.
    + rewrite Ews, upd_length. exact C5.
  - eapply nf_w; eauto.
Qed.

Lemma ninv_p : forall c x k b l, NInv x -> p_step c (base x) k = Some (b, l) -> NInv (set_base x b).
Proof.
  intros c x k b l [HW HQ HC HF] Hst.
  constructor.
  - eapply nw_p; eauto.
  - destruct (p_step_eff _ _ _ _ _ Hst) as (p & p' & _ & _ & Eb & _). subst b.
    destruct HQ as [Q1 Q2 Q3 Q4]. constructor; assumption.
  - destruct (p_step_eff _ _ _ _ _ Hst) as (p & p' & _ & _ & Eb & _). subst b.
    destruct HC as [[C1 C2 C3 C4 C5 C6 C7] D2 D3 D4 D5]. constructor; try assumption. constructor; assumption.
  - eapply nf_p; eauto.
Qed.

(* ------------------------------------------------------------------ *)

(* ================= dispatcher steps ================= *)
Lemma ninv_dgen : forall c n x x',
  XInv c n x -> NInv x ->
  futs (base x') = futs (base x) -> subm (base x') = subm (base x) -> main (base x') = main (base x) ->
  ops (base x') = ops (base x) -> closed (base x') = closed (base x) -> outs (base x') = outs (base x) ->
  ps (base x') = ps (base x) -> ws (base x') = ws (base x) -> launched x' = launched x ->
  (forall q, q <> 0 -> q < length (queues (base x)) -> (prep (disp x) = 1 -> q <> length (queues (base x)) - 1) ->
             nth q (queues (base x')) dq = nth q (queues (base x)) dq) ->
  NQ x' ->
  (prep (disp x') = 1 -> qunf (nth (length (queues (base x')) - 1) (queues (base x')) dq)
                         = length (qitems (nth (length (queues (base x')) - 1) (queues (base x')) dq))) ->
  disp x' <> DNone -> disp x' <> DDead -> (forall k, disp x' = DSJoin k -> k < length (ws (base x))) ->
  (forall i, prec x' i = prec x i) ->
  NInv x'.
Proof.
  intros c n x x' H [HW HQ HC HF] Ef Es Em Eo Ec Eu Ep Ew El Hq HQ' Hpq' Hdn Hdd Hj Hpr.
  constructor.
  - destruct HW as [Nl Np]. constructor; [|exact Hpq'].
    intros j w Hj0. rewrite Ew in Hj0. destruct (wq_facts c n x j w H Hj0) as (F1 & F2 & F3).
    unfold getp. rewrite Ep, Hq by assumption. exact (Nl j w Hj0).
  - exact HQ'.
  - destruct HC as [C1 C2 C3 C4 C5]. constructor.
    + apply (ctl_same_ok (base x)); [repeat split; assumption|exact C1].
    + intros E. contradiction.
    + exact Hdd.
    + rewrite El, Ew. exact C4.
    + rewrite Ew. exact Hj.
  - apply (nf_same x); assumption.
Qed.

Lemma nq_disp : forall x x', NQ x -> q0v (base x') = q0v (base x) ->
  main (base x') = main (base x) -> closed (base x') = closed (base x) ->
  d_holds (disp x') = d_holds (disp x) -> d_past (disp x') = d_past (disp x) -> NQ x'.
Proof.
  intros x x' [Q1 Q2 Q3 Q4] Eq Em Ec Eh Ep. constructor; rewrite ?Eq, ?Eh, ?Ep.
  - unfold m_holds in *. rewrite Em. exact Q1.
  - unfold xsp in *. rewrite Em, Ec. exact Q2.
  - exact Q3.
  - exact Q4.
Qed.

Lemma after_puts_cases : forall c x i,
  base (after_puts c x i) = base x /\ active (after_puts c x i) = active x /\ launched (after_puts c x i) = launched x /\
  (disp (after_puts c x i) = DSpin i \/ (exists a, disp (after_puts c x i) = DScan i a []) \/ disp (after_puts c x i) = DStart i).
Proof.
  intros c x i. unfold after_puts. destruct (must_wait c (active x) i).
  - destruct (active x) eqn:Ea; simpl; rewrite ?Ea; repeat split; auto. right. left. eexists; reflexivity.
  - simpl. repeat split; auto.
Qed.

Lemma prec_disp : forall x x', base x' = base x -> (forall i, dhold (disp x') i = dhold (disp x) i) ->
  forall i, prec x' i = prec x i.
Proof. intros x x' Eb Ed i. unfold prec. rewrite Eb, Ed. reflexivity. Qed.

Lemma xsp_le1 : forall s, xsp s <= 1.
Proof. intros s. unfold xsp. destruct (closed s); [lia|]. destruct (main s); lia. Qed.

Lemma ninv_dstart : forall c n x i,
  XInv c n x -> NInv x -> disp x = DStart i ->
  NInv (mkX (set_ws (base x) (ws (base x) ++ [mkW (length (queues (base x)) - 1) 0 WBegin])) DTd
            (active x ++ [(i, xslots c i)]) (S (launched x))).
Proof.
  intros c n x i H [HW HQ HC HF] Hd. unfold set_ws.
  constructor.
  - destruct HW as [Nl Np]. constructor; xfld; fld; [|discriminate].
    intros j w Hj. apply nth_error_snoc_inv in Hj as [[_ Hj]|[_ Hj]]; [exact (Nl j w Hj)|]. subst w.
    apply nlocal_intro; cbn [wp wq wproc]; [reflexivity| |intros E; discriminate E].
    rewrite Np by (rewrite Hd; reflexivity). simpl. lia.
  - destruct HQ as [Q1 Q2 Q3 Q4]. rewrite Hd in *. constructor; xfld; fld; assumption.
  - destruct HC as [C1 C2 C3 C4 C5]. constructor; xfld; fld.
    + destruct C1. constructor; assumption.
    + discriminate.
    + discriminate.
    + rewrite app_length. simpl. lia.
    + intros k E. discriminate E.
  - apply (nf_same x); try reflexivity; [exact HF|].
    intros i0. unfold prec. xfld. fld. rewrite Hd, count_snoc. simpl. lia.
Qed.

Ltac dgen c n x :=
  apply (ninv_dgen c n x); try assumption; try reflexivity; try (intros; reflexivity); try discriminate;
  try (intros; discriminate).

Lemma ninv_d : forall c n x x' l, XInv c n x -> NInv x -> d_step c 0 x = Some (x', l) -> NInv x'.
Proof.
  intros c n x x' l H HN Hst. unfold d_step in Hst. cbv zeta in Hst.
  pose proof (X_lq _ _ _ H) as Hlq.
  pose proof (N_Q _ HN) as HQ. pose proof (NW_pq _ (N_W _ HN)) as Np.
  pose proof (NC_launch _ (N_C _ HN)) as Hla. pose proof (NC_join _ (N_C _ HN)) as Hjo.
  assert (Hne : queues (base x) <> []) by (intro E; rewrite E in Hlq; simpl in Hlq; lia).
  destruct (disp x) as [| | |i|i|i todo kept|i|i| |k| | | |] eqn:Hd; try discriminate; simpl prep in *.
  - (* DBegin *) inversion Hst; subst; clear Hst. dgen c n x.
    + apply (nq_disp x); try reflexivity; try assumption; rewrite Hd; reflexivity.
    + apply prec_disp; [reflexivity|]. intros i. simpl. rewrite Hd. reflexivity.
  - (* DGet *)
    destruct (qitems (getq (base x) 0)) as [|it rest] eqn:Hq0; [discriminate|].
    change (getq (base x) 0) with (q0v (base x)) in Hq0.
    destruct HQ as [Q1 Q2 Q3 Q4]. rewrite Hd, Hq0 in *. simpl in Q1.
    destruct it as [i|w]; inversion Hst; subst; clear Hst.
    + dgen c n x.
      * intros q Hq1 Hq2 _. unfold set_queues. xfld. fld.
        rewrite app_nth1; [apply nth_upd_other; lia|rewrite upd_length; lia].
      * match goal with |- NQ ?X => assert (Eq : q0v (base X) = mkQ rest (qunf (q0v (base x)))) end.
        { unfold q0v, qpop, set_queues, getq. xfld. fld. rewrite app_nth1 by (rewrite upd_length; lia).
          rewrite getq_upd0 by exact Hne. change (nth 0 (queues (base x)) (mkQ [] 0)) with (q0v (base x)).
          rewrite Hq0. reflexivity. }
        constructor; rewrite Eq; xfld; cbn [qunf qitems]; unfold qpop, set_queues, m_holds, xsp in *; fld.
        -- simpl. lia.
        -- rewrite count_cons in Q2. simpl in *. lia.
        -- eapply srt_tl; eauto.
        -- discriminate.
      * intros _. unfold qpop, set_queues. xfld. fld. rewrite app_length. simpl length.
        rewrite app_nth2 by lia.
        replace (length (upd (queues (base x)) 0 (mkQ (tl (qitems (getq (base x) 0))) (qunf (getq (base x) 0)))) + 1 - 1
                 - length (upd (queues (base x)) 0 (mkQ (tl (qitems (getq (base x) 0))) (qunf (getq (base x) 0))))) with 0 by lia.
        reflexivity.
      * intros i0. unfold prec, qpop, set_queues. xfld. fld. rewrite allq_snoc, Hd.
        change (getq (base x) 0) with (q0v (base x)). rewrite Hq0. cbn [tl].
        pose proof (count_qpop (taskb i0) (queues (base x)) 0 (Task i) rest (qunf (q0v (base x))) Hq0) as Hc.
        simpl in *. destruct (Nat.eqb i0 i); simpl in *; lia.
    + assert (Hrest : rest = []).
      { pose proof (srt_shut_head _ _ Q3) as Hs. rewrite count_cons in Q2. simpl in Q2.
        pose proof (xsp_le1 (base x)). destruct rest; [reflexivity|simpl in Hs; lia]. }
      subst rest.
      assert (Hdp : d_holds (if w then if Nat.eqb (launched x) 0 then DSTd else DSJoin 0 else DSTd) = 1 /\
                    d_past (if w then if Nat.eqb (launched x) 0 then DSTd else DSJoin 0 else DSTd) = 1 /\
                    prep (if w then if Nat.eqb (launched x) 0 then DSTd else DSJoin 0 else DSTd) = 0 /\
                    (forall i0, dhold (if w then if Nat.eqb (launched x) 0 then DSTd else DSJoin 0 else DSTd) i0 = 0)).
      { destruct w; [destruct (Nat.eqb (launched x) 0)|]; repeat split; reflexivity. }
      destruct Hdp as (Dh & Dp & Dpr & Ddh).
      dgen c n x.
      * intros q Hq1 Hq2 _. unfold qpop, set_queues. xfld. fld. apply nth_upd_other. lia.
      * match goal with |- NQ ?X => assert (Eq : q0v (base X) = mkQ [] (qunf (q0v (base x)))) end.
        { xfld. rewrite q0v_pop by exact Hne. rewrite Hq0. reflexivity. }
        constructor; rewrite Eq; xfld; rewrite ?Dh, ?Dp; cbn [qunf qitems]; unfold qpop, set_queues, m_holds, xsp in *; fld.
        -- simpl in *. lia.
        -- rewrite count_cons in Q2. simpl in *. lia.
        -- reflexivity.
        -- reflexivity.
      * xfld. rewrite Dpr. discriminate.
      * xfld. destruct w; [destruct (Nat.eqb (launched x) 0)|]; discriminate.
      * xfld. destruct w; [destruct (Nat.eqb (launched x) 0)|]; discriminate.
      * xfld. intros k E. destruct w; [destruct (Nat.eqb (launched x) 0) eqn:El|]; try discriminate E.
        inversion E; subst. apply Nat.eqb_neq in El. lia.
      * intros i0. unfold prec, qpop, set_queues. xfld. fld. rewrite Hd, Ddh.
        change (getq (base x) 0) with (q0v (base x)). rewrite Hq0. cbn [tl].
        pose proof (count_qpop (taskb i0) (queues (base x)) 0 (Shut w) [] (qunf (q0v (base x))) Hq0) as Hc.
        simpl in *. lia.
  - (* DPutTask *) inversion Hst; subst; clear Hst. specialize (Np eq_refl).
    assert (Hlast : length (queues (base x)) - 1 <> 0) by lia.
    dgen c n x.
    + intros q Hq1 Hq2 Hq3. rewrite Hd in Hq3. unfold qput, set_queues. xfld. fld. apply nth_upd_other.
      specialize (Hq3 eq_refl). lia.
    + apply (nq_disp x); try reflexivity; try assumption; try (xfld; rewrite Hd; reflexivity).
      unfold q0v, qput, set_queues. xfld. fld. apply nth_upd_other. exact Hlast.
    + intros _. unfold qput, set_queues, getq. xfld. fld. rewrite upd_length.
      rewrite nth_upd_same by lia. cbn [qunf qitems]. rewrite app_length. simpl. unfold dq in *. lia.
    + intros i0. unfold prec, qput, set_queues, getq. xfld. fld. rewrite Hd.
      rewrite count_qput by lia. simpl. destruct (Nat.eqb i0 i); simpl; lia.
  - (* DPutShut *) inversion Hst; subst; clear Hst. specialize (Np eq_refl).
    assert (Hlast : length (queues (base x)) - 1 <> 0) by lia.
    destruct (after_puts_cases c (set_base x (qput (base x) (length (queues (base x)) - 1) (Shut true))) i)
      as (Eb & Ea & El & Edc).
    assert (Hdp : d_holds (disp (after_puts c (set_base x (qput (base x) (length (queues (base x)) - 1) (Shut true))) i)) = 1 /\
                  d_past (disp (after_puts c (set_base x (qput (base x) (length (queues (base x)) - 1) (Shut true))) i)) = 0 /\
                  (forall i0, dhold (disp (after_puts c (set_base x (qput (base x) (length (queues (base x)) - 1) (Shut true))) i)) i0 = 0)).
    { destruct Edc as [E|[[a0 E]|E]]; rewrite E; repeat split; reflexivity. }
    destruct Hdp as (Dh & Dp & Ddh).
    apply (ninv_dgen c n x); try assumption; rewrite ?Eb, ?El; try reflexivity.
    + intros q Hq1 Hq2 Hq3. rewrite Hd in Hq3. unfold set_base, qput, set_queues. xfld. fld. apply nth_upd_other.
      specialize (Hq3 eq_refl). lia.
    + apply (nq_disp x); try assumption; rewrite ?Eb, ?Dh, ?Dp, ?Hd; try reflexivity.
      unfold set_base, q0v, qput, set_queues. xfld. fld. apply nth_upd_other. exact Hlast.
    + intros _. unfold set_base, qput, set_queues, getq. xfld. fld. rewrite upd_length.
      rewrite nth_upd_same by lia. cbn [qunf qitems]. rewrite app_length. simpl. unfold dq in *. lia.
    + destruct Edc as [E|[[a0 E]|E]]; rewrite E; discriminate.
    + destruct Edc as [E|[[a0 E]|E]]; rewrite E; discriminate.
    + intros k E0. destruct Edc as [E|[[a0 E]|E]]; rewrite E in E0; discriminate.
    + intros i0. unfold prec. rewrite Eb, Ddh. unfold set_base, qput, set_queues, getq. xfld. fld. rewrite Hd.
      rewrite count_qput by lia. simpl. lia.
  - (* DScan *) specialize (Np eq_refl).
    destruct todo as [|[f sl] rest]; [discriminate|].
    destruct rest as [|e rest']; inversion Hst; subst; clear Hst.
    + match goal with |- NInv (after_puts c ?X i) => destruct (after_puts_cases c X i) as (Eb & Ea & El & Edc) end.
      match goal with |- NInv ?X =>
        assert (Hdp : d_holds (disp X) = 1 /\ d_past (disp X) = 0 /\ (forall i0, dhold (disp X) i0 = 0))
          by (destruct Edc as [E|[[a0 E]|E]]; rewrite E; repeat split; reflexivity) end.
      destruct Hdp as (Dh & Dp & Ddh).
      apply (ninv_dgen c n x); try assumption; rewrite ?Eb, ?El; try reflexivity; try (intros; reflexivity).
      * apply (nq_disp x); try assumption; rewrite ?Eb, ?Dh, ?Dp, ?Hd; reflexivity.
      * intros _. exact Np.
      * destruct Edc as [E|[[a0 E]|E]]; rewrite E; discriminate.
      * destruct Edc as [E|[[a0 E]|E]]; rewrite E; discriminate.
      * intros k E0. destruct Edc as [E|[[a0 E]|E]]; rewrite E in E0; discriminate.
      * intros i0. unfold prec. rewrite Eb, Ddh, Hd. reflexivity.
    + dgen c n x.
      * apply (nq_disp x); try assumption; try reflexivity; xfld; rewrite Hd; reflexivity.
      * intros _. exact Np.
      * apply prec_disp; [reflexivity|]. intros i0. xfld. rewrite Hd. reflexivity.
  - (* DStart *) inversion Hst; subst; clear Hst. exact (ninv_dstart c n x i H HN Hd).
  - (* DTd *) inversion Hst; subst; clear Hst. destruct HQ as [Q1 Q2 Q3 Q4]. rewrite Hd in *. dgen c n x.
    + intros q Hq1 Hq2 _. unfold qtd, set_queues. xfld. fld. apply nth_upd_other. lia.
    + constructor; xfld; rewrite q0v_td by exact Hne; cbn [qunf qitems]; unfold qtd, set_queues, m_holds, xsp in *; fld;
        simpl in *; try assumption. lia.
    + intros i0. unfold prec, qtd, set_queues, getq. xfld. fld. rewrite allq_qtd, Hd. reflexivity.
  - (* DSJoin *)
    destruct (nth_error (ws (base x)) k) as [wt|] eqn:Hk; [|discriminate].
    destruct (wdone wt) eqn:Hwd; [|discriminate].
    assert (Hnb : bad (wp wt) = false).
    { destruct (nlocal_split _ _ _ (NW_loc _ (N_W _ HN) k wt Hk)) as (Hb & _). exact Hb. }
    assert (Hkl : k < length (ws (base x))) by (apply nth_error_Some; congruence).
    destruct (wdead wt) eqn:Hde.
    + exfalso. unfold wdead in Hde. destruct (wp wt); simpl in *; discriminate.
    + destruct (Nat.eqb (S k) (launched x)) eqn:El; inversion Hst; subst; clear Hst; dgen c n x.
      * apply (nq_disp x); try assumption; try reflexivity; xfld; rewrite Hd; reflexivity.
      * apply prec_disp; [reflexivity|]. intros i0. xfld. rewrite Hd. reflexivity.
      * apply (nq_disp x); try assumption; try reflexivity; xfld; rewrite Hd; reflexivity.
      * xfld. intros k0 E. inversion E; subst. apply Nat.eqb_neq in El. lia.
      * apply prec_disp; [reflexivity|]. intros i0. xfld. rewrite Hd. reflexivity.
  - (* DSTd *) inversion Hst; subst; clear Hst. destruct HQ as [Q1 Q2 Q3 Q4]. rewrite Hd in *. dgen c n x.
    + intros q Hq1 Hq2 _. unfold qtd, set_queues. xfld. fld. apply nth_upd_other. lia.
    + constructor; xfld; rewrite q0v_td by exact Hne; cbn [qunf qitems]; unfold qtd, set_queues, m_holds, xsp in *; fld;
        simpl in *; try assumption. lia.
    + intros i0. unfold prec, qtd, set_queues, getq. xfld. fld. rewrite allq_qtd, Hd. reflexivity.
  - (* DSQJoin *)
    destruct (Nat.eqb (qunf (getq (base x) 0)) 0); [|discriminate]. inversion Hst; subst; clear Hst. dgen c n x.
    + apply (nq_disp x); try assumption; try reflexivity; xfld; rewrite Hd; reflexivity.
    + apply prec_disp; [reflexivity|]. intros i0. xfld. rewrite Hd. reflexivity.
Qed.


(* ------------------------------------------------------------------ *)

Lemma ninv_init : forall n prog, wf_prog n prog -> NInv (xinit n prog).
Proof.
  intros n prog (Hnd & Hrg & Hdrop). constructor.
  - constructor; unfold xinit, init; xfld; fld.
    + intros j w Hj. destruct j; discriminate.
    + discriminate.
  - constructor; unfold xinit, init, q0v, m_holds, xsp; xfld; fld; simpl; try reflexivity; try discriminate.
  - constructor; unfold xinit, init; xfld; fld.
    + constructor; fld; simpl.
      * tauto.
      * now right.
      * discriminate.
      * discriminate.
      * tauto.
      * intros w k E. discriminate E.
      * intros _. split; reflexivity.
    + simpl. tauto.
    + discriminate.
    + reflexivity.
    + intros k E. discriminate E.
  - constructor; unfold xinit, init, prec, getf; xfld; fld.
    + intros i Hi. unfold count in Hi. simpl in Hi. lia.
    + intros i _ _. apply nth_repeat_pending.
    + intros i [].
Qed.

Lemma ninv_step : forall c n x t x' l, xnofail c -> XInv c n x -> NInv x -> xstep c x t = Some (x', l) -> NInv x'.
Proof.
  intros c n x t x' l Hnf H HN Hst. destruct t as [| | |j|k]; simpl in Hst; try discriminate.
  - eapply (ninv_m c n x); eauto.
  - eapply (ninv_d c n x); eauto.
  - destruct j as [|j]; [discriminate|].
    destruct (w_step (bcfg c) (base x) j) as [[b l0]|] eqn:E; [|discriminate].
    inversion Hst; subst. eapply (ninv_w c n x); eauto.
  - destruct (p_step (bcfg c) (base x) k) as [[b l0]|] eqn:E; [|discriminate].
    inversion Hst; subst. eapply (ninv_p (bcfg c) x); eauto.
Qed.

Lemma xreach_ninv : forall c n prog x, xnofail c -> wf_prog n prog -> xreach c (xinit n prog) x ->
  XInv c n x /\ LInv x /\ NInv x.
Proof.
  intros c n prog x Hnf Hwf Hr. induction Hr as [|x t x' l Hr (IH1 & IH2 & IH3) Hst].
  - split; [now apply xinv_init|split; [apply linv_init|now apply ninv_init]].
  - split; [eapply xstep_inv; eauto|split; [eapply linv_step; eauto|eapply ninv_step; eauto]].
Qed.

(* ================= stuck states ================= *)
Lemma stuck_all : forall c x, xenabled c x = [] -> forall t, In t (xtids x) -> xstep c x t = None.
Proof.
  intros c x He t Ht. destruct (xstep c x t) as [r|] eqn:E; [|reflexivity]. exfalso.
  assert (Hin : In t (xenabled c x)) by (unfold xenabled; apply filter_In; split; [exact Ht|rewrite E; reflexivity]).
  rewrite He in Hin. destruct Hin.
Qed.

Lemma stuck_w : forall c x j, xenabled c x = [] -> j < length (ws (base x)) -> w_step (bcfg c) (base x) j = None.
Proof.
  intros c x j He Hj. pose proof (stuck_all c x He (TW (S j)) (tid_w_in x j Hj)) as Hs. simpl in Hs.
  destruct (w_step (bcfg c) (base x) j) as [[b l]|]; [discriminate|reflexivity].
Qed.

Lemma stuck_m : forall c x, xenabled c x = [] -> xm_step c x = None.
Proof. intros c x He. apply (stuck_all c x He TM). left. reflexivity. Qed.

Lemma stuck_d : forall c x, xenabled c x = [] -> d_step c 0 x = None.
Proof. intros c x He. apply (stuck_all c x He TD). right. left. reflexivity. Qed.

Lemma stuck_workers : forall c n x j w, XInv c n x -> LInv x -> NInv x -> xenabled c x = [] ->
  nth_error (ws (base x)) j = Some w -> wp w = WDone.
Proof.
  intros c n x j w H HL HN He Hj.
  assert (Hjl : j < length (ws (base x))) by (apply nth_error_Some; congruence).
  pose proof (stuck_w c x j He Hjl) as Hst.
  destruct (worker_live c n x j w H Hj) as [(t & Ht & _)|Ht]; [rewrite He in Ht; destruct Ht|].
  pose proof (L_qc _ HL j w Hj) as Hq.
  destruct (nlocal_split _ _ _ (NW_loc _ (N_W _ HN) j w Hj)) as (Hb & Hc & _).
  destruct (wp w) eqn:Hpc; try contradiction; try reflexivity; simpl in Hb; try discriminate Hb.
  - rewrite Ht in Hq. discriminate Hq.
  - exfalso. assert (Hs : is_some (w_step (bcfg c) (base x) j) = true).
    { eapply w_can_step; eauto. rewrite Hpc. simpl. unfold getq, qit, dq in *.
      destruct (qitems (nth (wq w) (queues (base x)) {| qitems := []; qunf := 0 |})); [|discriminate Hq].
      simpl in Hc. rewrite Hc. reflexivity. }
    rewrite Hst in Hs. discriminate.
Qed.

Lemma stuck_disp : forall c n x, XInv c n x -> LInv x -> NInv x -> xenabled c x = [] ->
  (forall i, disp x <> DSpin i) ->
  disp x = DDone \/ (disp x = DGet /\ qitems (q0v (base x)) = []).
Proof.
  intros c n x H HL HN He Hsp.
  pose proof (stuck_d c x He) as Sd. pose proof (stuck_m c x He) as Sm.
  unfold d_step in Sd. cbv zeta in Sd.
  destruct (disp x) as [| | |i|i|i todo kept|i|i| |k| | | |] eqn:Hd; try discriminate Sd.
  - (* DNone *) exfalso. pose proof (NC_dnone _ (N_C _ HN) Hd) as Hn. unfold xm_step in Sm. cbv zeta in Sm.
    destruct (main (base x)); simpl in Hn; try (apply Hn; exact I); discriminate Sm.
  - (* DGet *) right. split; [reflexivity|]. change (getq (base x) 0) with (q0v (base x)) in Sd.
    destruct (qitems (q0v (base x))) as [|it rest]; [reflexivity|]. destruct it; discriminate Sd.
  - (* DScan *) exfalso. destruct todo as [|[f sl] rest]; [exact (L_todo _ HL _ _ _ Hd eq_refl)|].
    destruct rest; discriminate Sd.
  - (* DSpin *) exfalso. exact (Hsp i eq_refl).
  - (* DSJoin *) exfalso. pose proof (NC_join _ (N_C _ HN) k Hd) as Hk.
    destruct (nth_error (ws (base x)) k) as [wt|] eqn:Hwt; [|apply nth_error_None in Hwt; lia].
    pose proof (stuck_workers c n x k wt H HL HN He Hwt) as Hpc.
    unfold wdone, wdead in Sd. rewrite Hpc in Sd. discriminate Sd.
  - (* DSQJoin *) exfalso. change (getq (base x) 0) with (q0v (base x)) in Sd.
    destruct (Nat.eqb (qunf (q0v (base x))) 0) eqn:Eq; [discriminate Sd|]. apply Nat.eqb_neq in Eq.
    destruct (N_Q _ HN) as [Q1 _ _ Q4]. rewrite Hd in *. rewrite (Q4 eq_refl) in Q1. simpl in Q1.
    unfold m_holds in Q1. unfold xm_step in Sm. cbv zeta in Sm.
    destruct (main (base x)); try (simpl in Q1; lia).
    + destruct (fcancel (getf (base x) j)); discriminate Sm.
    + discriminate Sm.
  - (* DDone *) now left.
  - (* DDead *) exfalso. exact (NC_dead _ (N_C _ HN) Hd).
Qed.

Lemma allq_empty : forall qs, (forall q, q < length qs -> qitems (nth q qs dq) = []) -> allq qs = [].
Proof.
  induction qs as [|a qs IH]; intros Hq; [reflexivity|]. unfold allq in *. simpl.
  pose proof (Hq 0) as H0. simpl in H0. rewrite H0 by lia. simpl. apply IH. intros q Hl. apply (Hq (S q)). simpl. lia.
Qed.

Lemma count_pos_ex : forall A (f : A -> bool) l, 1 <= count f l -> exists j y, nth_error l j = Some y /\ f y = true.
Proof.
  intros A f l. induction l as [|a l IH]; intros Hc; [unfold count in Hc; simpl in Hc; lia|].
  rewrite count_cons in Hc. destruct (f a) eqn:Ea.
  - exists 0, a. split; [reflexivity|exact Ea].
  - simpl in Hc. destruct (IH Hc) as (j & y & Hj & Hy). exists (S j), y. split; assumption.
Qed.

Lemma stuck_notasks : forall c n x, XInv c n x -> LInv x -> NInv x -> xenabled c x = [] ->
  prep (disp x) = 0 -> qitems (q0v (base x)) = [] -> allq (queues (base x)) = [].
Proof.
  intros c n x H HL HN He Hpr Hq0. apply allq_empty. intros q Hq.
  pose proof (X_lq _ _ _ H) as Hlq. rewrite Hpr in Hlq.
  destruct q as [|j]; [exact Hq0|].
  assert (Hj : j < length (ws (base x))) by lia.
  destruct (nth_error (ws (base x)) j) as [w|] eqn:Hw; [|apply nth_error_None in Hw; lia].
  pose proof (stuck_workers c n x j w H HL HN He Hw) as Hpc.
  pose proof (L_qc _ HL j w Hw) as Hqc. rewrite Hpc, (X_wq _ _ _ H j w Hw) in Hqc. unfold qit in Hqc.
  destruct (qitems (nth (S j) (queues (base x)) dq)); [reflexivity|discriminate Hqc].
Qed.

Lemma stuck_done : forall c n x i, XInv c n x -> LInv x -> NInv x -> xenabled c x = [] ->
  prep (disp x) = 0 -> (forall i0, dhold (disp x) i0 = 0) -> qitems (q0v (base x)) = [] ->
  In i (subm (base x)) -> mdc (main (base x)) i = 0 -> fdone (getf (base x) i) = true.
Proof.
  intros c n x i H HL HN He Hpr Hdh Hq0 Hin Hm.
  assert (Hall : forall j w, nth_error (ws (base x)) j = Some w -> wp w = WDone)
    by (intros j w Hj; eapply stuck_workers; eauto).
  pose proof (X_sub2 _ _ _ H i (in_or_app _ _ _ (or_introl Hin))) as Hri.
  destruct (getf (base x) i) eqn:Hf; try reflexivity; exfalso.
  - (* pending *)
    pose proof (NF_some _ (N_F _ HN) i Hin Hf) as Hp. unfold prec in Hp.
    rewrite (stuck_notasks c n x H HL HN He Hpr Hq0), Hm, Hdh in Hp.
    rewrite (count_zero _ (srncb i) (ws (base x))) in Hp.
    + unfold count in Hp. simpl in Hp. lia.
    + intros j w Hj. unfold srncb. rewrite (Hall j w Hj). reflexivity.
  - (* running *)
    pose proof (X_run _ _ _ H i Hri) as Hr. unfold nth_f in Hr. unfold getf in Hf. rewrite Hf in Hr. simpl in Hr.
    destruct (count_pos_ex _ (runsb i) (ws (base x))) as (j & w & Hj & Hw); [lia|].
    unfold runsb, w_run in Hw. rewrite (Hall j w Hj) in Hw. discriminate.
Qed.

Lemma stuck_main : forall c n x, XInv c n x -> LInv x -> NInv x -> xenabled c x = [] ->
  (disp x = DDone \/ (disp x = DGet /\ qitems (q0v (base x)) = [])) ->
  main (base x) = MEnd.
Proof.
  intros c n x H HL HN He Hdisp.
  pose proof (stuck_m c x He) as Sm.
  pose proof (NC_ctl _ (N_C _ HN)) as HC.
  destruct (N_Q _ HN) as [Q1 Q2 Q3 Q4].
  assert (Hfacts : prep (disp x) = 0 /\ (forall i0, dhold (disp x) i0 = 0) /\ qitems (q0v (base x)) = [] /\
                   d_holds (disp x) = 0).
  { destruct Hdisp as [E|[E Hq]]; rewrite E in *; repeat split; try reflexivity; [now apply Q4|exact Hq]. }
  destruct Hfacts as (Hpr & Hdh & Hq0 & Hdho).
  unfold xm_step in Sm. cbv zeta in Sm.
  destruct (main (base x)) as [|k| |w|w j|w|w k|k| |] eqn:Hm; try discriminate Sm; try reflexivity.
  - (* MOp *)
    pose proof (C_head _ HC Hm) as Hh.
    destruct (ops (base x)) as [|o t] eqn:Ho; [destruct Hh|].
    destruct o as [i|i|i|w cc| |]; try discriminate Sm.
    + destruct (fcancel (getf (base x) i)); discriminate Sm.
    + simpl in Hh. destruct (fdone (getf (base x) i)) eqn:Hd; [discriminate Sm|].
      rewrite (stuck_done c n x i H HL HN He Hpr Hdh Hq0 Hh) in Hd; [discriminate|rewrite Hm; reflexivity].
    + destruct cc; [destruct (drain_step (base x) w) as [[b l]|]|]; discriminate Sm.
  - (* MDrain *) destruct (drain_step (base x) w) as [[b l]|]; discriminate Sm.
  - (* MDrainCancel *) destruct (fcancel (getf (base x) j)); discriminate Sm.
  - (* MPutShut *) destruct k; [|discriminate Sm]. pose proof (C_put1 _ HC _ _ Hm). discriminate.
  - (* MJoin *) exfalso.
    pose proof (C_inshut _ HC) as Hc. rewrite Hm in Hc. specialize (Hc I).
    unfold xsp in Q2. rewrite Hc, Hm, Hq0 in Q2.
    destruct Hdisp as [E|[E _]]; rewrite E in *; simpl in *; [discriminate Sm|].
    unfold count in Q2. simpl in Q2. lia.
  - (* MQJoin *) exfalso. change (getq (base x) 0) with (q0v (base x)) in Sm.
    unfold m_holds in Q1. rewrite Hm, Hq0, Hdho in Q1. simpl in Q1. rewrite Q1 in Sm. discriminate Sm.
Qed.

Theorem step_rest_state : forall c n prog x,
  xnofail c -> fits c -> wf_prog n prog -> xreach c (xinit n prog) x -> rest_ok_b c x = true.
Proof.
  intros c n prog x Hnf Hfit Hwf Hr.
  destruct (xreach_ninv c n prog x Hnf Hwf Hr) as (H & HL & HN).
  unfold rest_ok_b. destruct (xenabled c x) as [|t0 ts] eqn:He; [|reflexivity].
  assert (Hsp : forall i, disp x <> DSpin i) by (intros i; eapply spin_unreachable; eauto).
  pose proof (stuck_disp c n x H HL HN He Hsp) as Hdisp.
  pose proof (stuck_main c n x H HL HN He Hdisp) as Hm.
  pose proof (NC_ctl _ (N_C _ HN)) as HC.
  destruct (N_Q _ HN) as [Q1 Q2 Q3 Q4].
  (* the client has finished: the executor is closed, so the dispatcher has seen the shutdown message *)
  assert (Hcl : closed (base x) = true).
  { destruct (C_drop _ HC) as [Hd|Hd]; [rewrite Hm; exact I| |exact Hd].
    rewrite (C_end _ HC Hm) in Hd. destruct Hd. }
  assert (Hdd : disp x = DDone).
  { destruct Hdisp as [E|[E Hq]]; [exact E|]. exfalso. unfold xsp in Q2. rewrite Hcl, E, Hq in Q2.
    unfold count in Q2. simpl in Q2. lia. }
  assert (Hq0 : qitems (q0v (base x)) = []) by (apply Q4; rewrite Hdd; reflexivity).
  rewrite Hm, Hdd. simpl.
  assert (Hall : forall j w, nth_error (ws (base x)) j = Some w -> wp w = WDone)
    by (intros j w Hj; eapply stuck_workers; eauto).
  repeat (apply andb_true_iff; split); try reflexivity.
  - apply forallb_forall. intros i Hi.
    apply (stuck_done c n x i H HL HN He); try assumption; try (rewrite Hdd; reflexivity);
      try (intros; rewrite ?Hdd, ?Hm; reflexivity).
  - apply forallb_forall. intros p Hp. apply negb_true_iff.
    apply In_nth_error in Hp. destruct Hp as [k Hk].
    assert (Hkl : k < length (ps (base x))) by (apply nth_error_Some; congruence).
    destruct (xowner_exists c n x k H Hkl) as (j & w & Hj & Hw).
    destruct (nlocal_split _ _ _ (NW_loc _ (N_W _ HN) j w Hj)) as (_ & _ & Hf).
    rewrite (Hall j w Hj) in Hf. specialize (Hf eq_refl). unfold getp in Hf. rewrite Hw in Hf.
    replace (S k - 1) with k in Hf by lia. rewrite (nth_error_nth' _ _ _ _ _ Hk) in Hf. exact Hf.
  - apply forallb_forall. intros w Hw. apply In_nth_error in Hw. destruct Hw as [j Hj].
    unfold wdone. rewrite (Hall j w Hj). reflexivity.
Qed.
Print Assumptions step_rest_state.

(* ------------------------------------------------------------------ *)

(* ================= (4) a measure that every step decreases, except the polling passes of D ================= *)
Fixpoint sumf {A} (f : A -> nat) (l : list A) : nat :=
  match l with [] => 0 | a :: t => f a + sumf f t end.

Lemma sumf_app : forall A (f : A -> nat) l1 l2, sumf f (l1 ++ l2) = sumf f l1 + sumf f l2.
Proof. intros A f l1 l2. induction l1 as [|a t IH]; simpl; [reflexivity|]. rewrite IH. lia. Qed.

Lemma sumf_upd : forall A (f : A -> nat) l j x y,
  nth_error l j = Some y -> sumf f (upd l j x) + f y = sumf f l + f x.
Proof.
  intros A f l. induction l as [|a t IH]; intros j x y Hn; destruct j as [|j']; simpl in *; try discriminate.
  - inversion Hn; subst. lia.
  - specialize (IH j' x y Hn). lia.
Qed.

Lemma sumf_le : forall A (f g : A -> nat) l k, (forall a, f a <= g a + k) -> sumf f l <= sumf g l + k * length l.
Proof.
  intros A f g l k H. induction l as [|a t IH]; simpl; [lia|]. specialize (H a). lia.
Qed.

Lemma sumf_ext : forall A (f g : A -> nat) l, (forall a, f a = g a) -> sumf f l = sumf g l.
Proof. intros A f g l H. induction l as [|a t IH]; simpl; [reflexivity|]. rewrite H, IH. reflexivity. Qed.

(* ---- constants ---- *)
Definition NN (n : nat) : nat := n + 2.
Definition BB (n : nat) : nat := 2 * NN n * NN n.
Definition WS (n : nat) : nat := NN n + 5.                     (* a shutdown message in the main queue *)
Definition WT (n : nat) : nat := 2 * NN n + BB n + 48.         (* a task in the main queue *)
Definition ROP (n : nat) : nat := WT n + WS n + BB n + 30.     (* the client at the first point of an operation *)
Definition WOP (n : nat) : nat := ROP n + 1.                   (* an operation still to be interpreted *)

Lemma BB_bound : forall n a, a <= n -> 2 * NN n * a <= BB n.
Proof. intros n a H. unfold BB. apply Nat.mul_le_mono_l. unfold NN. lia. Qed.

Lemma NN_gt : forall n, n < NN n.
Proof. intros n. unfold NN. lia. Qed.

Global Opaque NN BB.

(* ---- the base state ---- *)
Definition opsw (n : nat) (l : list op) : nat := WOP n * length l.

Definition mrank (n : nat) (pc : mpc) : nat :=
  match pc with
  | MBegin => 2 * WOP n + 4
  | MStart _ => 2 * WOP n + 3
  | MOp => ROP n
  | MDrain _ => WS n + 10
  | MDrainCancel _ _ => WS n + BB n + 12
  | MDrainTd _ => WS n + 11
  | MPutShut _ k => (WS n + 1) * k + 3
  | MJoin _ => 2
  | MQJoin => 1
  | MEnd => 0
  end.

Definition wrank0 (pc : wpc) : nat :=
  match pc with
  | WBegin => 3 | WSpawn => 2 | WGet => 0
  | WSrnc _ => 18 | WCancTd => 1 | WSend _ => 17 | WRecv _ => 13 | WSetRes _ _ => 12 | WTd => 1
  | WEPoll _ => 11 | WESend _ => 10 | WERecv _ => 6 | WEComm _ => 5 | WETerm _ => 4 | WEWait _ => 3
  | WETd _ => 2 | WESetExc _ => 1
  | WSPoll _ => 11 | WSSend _ => 10 | WSRecv _ => 6 | WSComm _ => 5 | WSTerm _ => 4 | WSWait => 3
  | WSTd => 2 | WSQJoin => 1 | WDone => 0 | WDead => 0
  end.
(* the call of the worker may still make its future done *)
Definition wpre (pc : wpc) : bool :=
  match pc with
  | WSrnc _ | WSend _ | WRecv _ | WSetRes _ _
  | WEPoll _ | WESend _ | WERecv _ | WEComm _ | WETerm _ | WEWait _ | WETd _ | WESetExc _ => true
  | _ => false
  end.
Definition wrank (n : nat) (pc : wpc) : nat := wrank0 pc + (if wpre pc then BB n else 0).
Definition wtr (n : nat) (w : wthread) : nat := wrank n (wp w).

Definition pprank (pc : ppc) : nat :=
  match pc with PBegin => 1 | PRecv => 0 | PBody _ => 2 | PSend _ => 1 | PAck => 1 | PExit => 0 end.
Definition prank (p : proc) : nat := pprank (pp p) + 3 * length (inbox p).

Definition w0 (n : nat) (it : item) : nat := match it with Task _ => WT n | Shut _ => WS n end.
Definition w1 (n : nat) (it : item) : nat := match it with Task _ => BB n + 20 | Shut _ => 20 end.
Definition qw0 (n : nat) (q : queue) : nat := sumf (w0 n) (qitems q).
Definition qw1 (n : nat) (q : queue) : nat := sumf (w1 n) (qitems q).
Definition qw (n : nat) (qs : list queue) : nat :=
  match qs with [] => 0 | q :: r => qw0 n q + sumf (qw1 n) r end.

Definition bmu (n : nat) (s : state) : nat :=
  opsw n (ops s) + mrank n (main s) + qw n (queues s) + sumf (wtr n) (ws s) + sumf prank (ps s).


(* ---- effect of the state helpers on the base measure ---- *)
Lemma nth_some : forall A (l : list A) j d y, nth_error l j = Some y -> nth j l d = y.
Proof. intros. eapply nth_error_nth'; eauto. Qed.

Lemma nth_none : forall A (l : list A) j d, nth_error l j = None -> nth j l d = d.
Proof. intros A l j d H. apply nth_overflow. now apply nth_error_None. Qed.

Lemma upd_none : forall A (l : list A) j x, nth_error l j = None -> upd l j x = l.
Proof. intros A l j x H. apply upd_oob. now apply nth_error_None. Qed.

Lemma bmu_set_futs : forall n s x, bmu n (set_futs s x) = bmu n s.
Proof. reflexivity. Qed.

Lemma bmu_set_main : forall n s x, bmu n (set_main s x) + mrank n (main s) = bmu n s + mrank n x.
Proof. intros. unfold bmu. simpl. lia. Qed.

(* queue 0 *)
Lemma qw_upd0 : forall n qs new, qs <> [] -> qw n (upd qs 0 new) + qw0 n (nth 0 qs dq) = qw n qs + qw0 n new.
Proof. intros n qs new H. destruct qs as [|q r]; [congruence|]. simpl. lia. Qed.

(* the other queues *)
Lemma qw_upd1 : forall n qs q new old, nth_error qs (S q) = Some old ->
  qw n (upd qs (S q) new) + qw1 n old = qw n qs + qw1 n new.
Proof.
  intros n qs q new old H. destruct qs as [|q0 r]; [discriminate|]. simpl in *.
  pose proof (sumf_upd _ (qw1 n) r q new old H). lia.
Qed.

Lemma qw_snoc : forall n qs, qs <> [] -> qw n (qs ++ [mkQ [] 0]) = qw n qs.
Proof.
  intros n qs H. destruct qs as [|q0 r]; [congruence|]. simpl. rewrite sumf_app. simpl. unfold qw1. simpl. lia.
Qed.

Lemma bmu_qput0 : forall n s it, queues s <> [] -> bmu n (qput s 0 it) = bmu n s + w0 n it.
Proof.
  intros n s it H. unfold bmu, qput, set_queues, getq. fld.
  pose proof (qw_upd0 n (queues s) (mkQ (qitems (nth 0 (queues s) dq) ++ [it]) (S (qunf (nth 0 (queues s) dq)))) H) as Hq.
  unfold qw0 in Hq at 2. simpl in Hq. rewrite sumf_app in Hq. simpl in Hq. unfold qw0 in Hq. unfold dq in *. lia.
Qed.

Lemma bmu_qput1 : forall n s q it, bmu n (qput s (S q) it) <= bmu n s + w1 n it.
Proof.
  intros n s q it. unfold bmu, qput, set_queues, getq. fld.
  destruct (nth_error (queues s) (S q)) as [old|] eqn:Hn.
  - rewrite (nth_some _ _ _ (mkQ [] 0) _ Hn).
    pose proof (qw_upd1 n (queues s) q (mkQ (qitems old ++ [it]) (S (qunf old))) old Hn) as Hq.
    unfold qw1 in Hq at 2. simpl in Hq. rewrite sumf_app in Hq. simpl in Hq. unfold qw1 in Hq. lia.
  - rewrite (upd_none _ _ _ _ Hn). lia.
Qed.

Lemma bmu_qpop0 : forall n s it r, qitems (getq s 0) = it :: r -> bmu n (qpop s 0) + w0 n it = bmu n s.
Proof.
  intros n s it r Hq. unfold bmu, qpop, set_queues. fld. unfold getq in *.
  assert (Hne : queues s <> []) by (intro E; rewrite E in Hq; simpl in Hq; discriminate).
  pose proof (qw_upd0 n (queues s) (mkQ (tl (qitems (nth 0 (queues s) dq))) (qunf (nth 0 (queues s) dq))) Hne) as Hw.
  unfold qw0 in Hw. simpl in Hw. unfold dq in *. rewrite Hq in *. simpl in *. lia.
Qed.

Lemma bmu_qpop1 : forall n s q it r, qitems (getq s (S q)) = it :: r -> bmu n (qpop s (S q)) + w1 n it = bmu n s.
Proof.
  intros n s q it r Hq. unfold bmu, qpop, set_queues. fld. unfold getq in *.
  destruct (nth_error (queues s) (S q)) as [old|] eqn:Hn.
  - rewrite (nth_some _ _ _ (mkQ [] 0) _ Hn) in *.
    pose proof (qw_upd1 n (queues s) q (mkQ (tl (qitems old)) (qunf old)) old Hn) as Hw.
    unfold qw1 in Hw. simpl in Hw. rewrite Hq in *. simpl in *. lia.
  - rewrite (nth_none _ _ _ (mkQ [] 0) Hn) in Hq. discriminate.
Qed.

Lemma bmu_qtd : forall n s q, bmu n (qtd s q) = bmu n s.
Proof.
  intros n s q. unfold bmu, qtd, set_queues, getq. fld.
  destruct (nth_error (queues s) q) as [old|] eqn:Hn.
  - rewrite (nth_some _ _ _ (mkQ [] 0) _ Hn). destruct q as [|q].
    + assert (Hne : queues s <> []) by (intro E; rewrite E in Hn; discriminate).
      pose proof (qw_upd0 n (queues s) (mkQ (qitems old) (pred (qunf old))) Hne) as Hw.
      unfold dq in Hw. rewrite (nth_some _ _ _ (mkQ [] 0) _ Hn) in Hw. unfold qw0 in Hw. simpl in Hw. lia.
    + pose proof (qw_upd1 n (queues s) q (mkQ (qitems old) (pred (qunf old))) old Hn) as Hw.
      unfold qw1 in Hw. simpl in Hw. lia.
  - rewrite (upd_none _ _ _ _ Hn). reflexivity.
Qed.

Lemma bmu_setp : forall n s k p p',
  nth_error (ps s) (k - 1) = Some p -> bmu n (setp s k p') + prank p = bmu n s + prank p'.
Proof.
  intros n s k p p' Hn. unfold bmu, setp. simpl.
  pose proof (sumf_upd _ prank (ps s) (k - 1) p' p Hn). lia.
Qed.

Lemma bmu_setp_none : forall n s k p', nth_error (ps s) (k - 1) = None -> bmu n (setp s k p') = bmu n s.
Proof. intros n s k p' Hn. unfold bmu, setp. simpl. rewrite (upd_none _ _ _ _ Hn). reflexivity. Qed.

Lemma bmu_send_to_p : forall n s k m, bmu n (send_to_p s k m) <= bmu n s + 3.
Proof.
  intros n s k m. unfold send_to_p, getp.
  destruct (nth_error (ps s) (k - 1)) as [p|] eqn:Hn.
  - rewrite (nth_some _ _ _ (mkP PExit [] []) _ Hn).
    pose proof (bmu_setp n s k p (mkP (pp p) (inbox p ++ [m]) (outbox p)) Hn) as Hs.
    assert (Hl : prank (mkP (pp p) (inbox p ++ [m]) (outbox p)) = prank p + 3)
      by (unfold prank; simpl; rewrite app_length; simpl; lia).
    lia.
  - rewrite bmu_setp_none by exact Hn. lia.
Qed.

Lemma bmu_pop_from_p : forall n s k, bmu n (pop_from_p s k) = bmu n s.
Proof.
  intros n s k. unfold pop_from_p, getp.
  destruct (nth_error (ps s) (k - 1)) as [p|] eqn:Hn.
  - rewrite (nth_some _ _ _ (mkP PExit [] []) _ Hn).
    pose proof (bmu_setp n s k p (mkP (pp p) (inbox p) (tl (outbox p))) Hn) as Hs.
    assert (Hl : prank (mkP (pp p) (inbox p) (tl (outbox p))) = prank p) by reflexivity. lia.
  - rewrite bmu_setp_none by exact Hn. reflexivity.
Qed.

Lemma bmu_set_w : forall n s j w w',
  nth_error (ws s) j = Some w -> bmu n (set_w s j w') + wrank n (wp w) = bmu n s + wrank n (wp w').
Proof.
  intros n s j w w' Hn. unfold bmu, set_w. simpl.
  pose proof (sumf_upd _ (wtr n) (ws s) j w' w Hn) as Hs. unfold wtr in *. lia.
Qed.

Lemma bmu_wpc_to : forall n s j w pc,
  nth_error (ws s) j = Some w -> bmu n (wpc_to s j w pc) + wrank n (wp w) = bmu n s + wrank n pc.
Proof.
  intros n s j w pc Hn. unfold wpc_to. pose proof (bmu_set_w n s j w (mkW (wq w) (wproc w) pc) Hn) as Hs.
  simpl in Hs. exact Hs.
Qed.

Lemma bmu_add_p : forall n s p, bmu n (set_ps s (ps s ++ [p])) = bmu n s + prank p.
Proof. intros. unfold bmu. simpl. rewrite sumf_app. simpl. lia. Qed.

Lemma bmu_add_w : forall n s w, bmu n (set_ws s (ws s ++ [w])) = bmu n s + wrank n (wp w).
Proof. intros. unfold bmu. simpl. rewrite sumf_app. simpl. unfold wtr. lia. Qed.

(* ------------------------------------------------------------------ *)

Definition fsame (s s' : state) : Prop := forall i, fdone (getf s' i) = fdone (getf s i).

Lemma fsame_refl : forall s s', futs s' = futs s -> fsame s s'.
Proof. intros s s' E i. unfold getf. now rewrite E. Qed.

Lemma fsame_setf : forall s i f, fdone f = fdone (getf s i) -> fsame s (set_futs s (setf s i f)).
Proof.
  intros s i f H i0. unfold getf, set_futs, setf in *. simpl.
  destruct (nth_upd_cases _ (futs s) (i0 - 1) (i - 1) f FPending) as [(E & L & Hx)|(E & Hx)]; rewrite Hx.
  - rewrite E. exact H.
  - reflexivity.
Qed.

(* ---- worker threads ---- *)
Lemma w_move : forall n s s1 j w pc d,
  nth_error (ws s1) j = Some w -> bmu n s1 <= bmu n s + d -> wrank n pc + d < wrank n (wp w) ->
  bmu n (wpc_to s1 j w pc) < bmu n s.
Proof. intros n s s1 j w pc d Hn Hle Hr. pose proof (bmu_wpc_to n s1 j w pc Hn). lia. Qed.

Lemma w_moveB : forall n s s1 j w pc,
  nth_error (ws s1) j = Some w -> bmu n s1 <= bmu n s -> wrank n pc + BB n < wrank n (wp w) ->
  bmu n (wpc_to s1 j w pc) + BB n < bmu n s.
Proof. intros n s s1 j w pc Hn Hle Hr. pose proof (bmu_wpc_to n s1 j w pc Hn). lia. Qed.

Lemma w_step_dec : forall n c s j s' l w,
  w_step c s j = Some (s', l) -> nth_error (ws s) j = Some w -> 1 <= wq w ->
  bmu n s' < bmu n s /\ (fsame s s' \/ bmu n s' + BB n < bmu n s).
Proof.
  intros n c s j s' l w Hst Hn Hq1. unfold w_step in Hst. rewrite Hn in Hst. cbv zeta in Hst.
  assert (Hsame : forall pc, wrank n pc < wrank n (wp w) ->
            bmu n (wpc_to s j w pc) < bmu n s /\ (fsame s (wpc_to s j w pc) \/ bmu n (wpc_to s j w pc) + BB n < bmu n s)).
  { intros pc Hr. split; [apply (w_move n s s j w pc 0); [exact Hn|lia|lia]|left; now apply fsame_refl]. }
  assert (Htd : forall q pc, wrank n pc < wrank n (wp w) ->
            bmu n (wpc_to (qtd s q) j w pc) < bmu n s /\
            (fsame s (wpc_to (qtd s q) j w pc) \/ bmu n (wpc_to (qtd s q) j w pc) + BB n < bmu n s)).
  { intros q pc Hr. split; [apply (w_move n s (qtd s q) j w pc 0); [exact Hn|rewrite bmu_qtd; lia|lia]|left; now apply fsame_refl]. }
  assert (Hsend : forall k m pc, wrank n pc + 3 < wrank n (wp w) ->
            bmu n (wpc_to (send_to_p s k m) j w pc) < bmu n s /\
            (fsame s (wpc_to (send_to_p s k m) j w pc) \/ bmu n (wpc_to (send_to_p s k m) j w pc) + BB n < bmu n s)).
  { intros k m pc Hr. split; [apply (w_move n s (send_to_p s k m) j w pc 3); [exact Hn|apply bmu_send_to_p|lia]|left; now apply fsame_refl]. }
  assert (Hpop : forall k pc, wrank n pc < wrank n (wp w) ->
            bmu n (wpc_to (pop_from_p s k) j w pc) < bmu n s /\
            (fsame s (wpc_to (pop_from_p s k) j w pc) \/ bmu n (wpc_to (pop_from_p s k) j w pc) + BB n < bmu n s)).
  { intros k pc Hr. split; [apply (w_move n s (pop_from_p s k) j w pc 0); [exact Hn|rewrite bmu_pop_from_p; lia|lia]|left; now apply fsame_refl]. }
  (* the future keeps its done-ness *)
  assert (Hfs : forall i f pc, fdone f = fdone (getf s i) -> wrank n pc < wrank n (wp w) ->
            bmu n (wpc_to (set_futs s (setf s i f)) j w pc) < bmu n s /\
            (fsame s (wpc_to (set_futs s (setf s i f)) j w pc) \/ bmu n (wpc_to (set_futs s (setf s i f)) j w pc) + BB n < bmu n s)).
  { intros i f pc Hd Hr. split; [apply (w_move n s (set_futs s (setf s i f)) j w pc 0); [exact Hn|rewrite bmu_set_futs; lia|lia]|].
    left. intros i0. apply (fsame_setf s i f Hd i0). }
  (* the future becomes done *)
  assert (Hfd : forall x pc, wrank n pc + BB n < wrank n (wp w) ->
            bmu n (wpc_to (set_futs s x) j w pc) < bmu n s /\
            (fsame s (wpc_to (set_futs s x) j w pc) \/ bmu n (wpc_to (set_futs s x) j w pc) + BB n < bmu n s)).
  { intros x pc Hr. pose proof (w_moveB n s (set_futs s x) j w pc Hn) as Hm. rewrite bmu_set_futs in Hm.
    specialize (Hm (le_n _) Hr). split; [lia|right; exact Hm]. }
  unfold wrank in *.
  destruct (wp w) as [ | | |i| |i|i|i v| |i|i|i|i|i|i|i|i|b|b|b|b|b| | | | | ] eqn:Hpc; simpl wrank0 in *; simpl wpre in *.
  - (* WBegin *) inversion Hst; subst; clear Hst. apply Hsame. simpl. lia.
  - (* WSpawn *)
    inversion Hst; subst; clear Hst.
    pose proof (bmu_set_w n (set_ps s (ps s ++ [mkP PBegin [] []])) j w (mkW (wq w) (S (length (ps s))) WGet) Hn) as Hw.
    rewrite bmu_add_p in Hw. rewrite Hpc in Hw. unfold prank, wrank in Hw. simpl in Hw.
    split; [lia|left; now apply fsame_refl].
  - (* WGet *)
    destruct (wq w) as [|q]; [lia|].
    destruct (qitems (getq s (S q))) as [|it r] eqn:Hq; [discriminate|].
    pose proof (bmu_qpop1 n s q it r Hq) as Hp.
    destruct it as [i|b]; inversion Hst; subst; clear Hst; unfold w1 in Hp.
    + pose proof (bmu_wpc_to n (qpop s (S q)) j w (WSrnc i) Hn) as Hw.
      rewrite Hpc in Hw. unfold wrank in Hw. cbn [wrank0 wpre] in Hw. split; [lia|left; now apply fsame_refl].
    + pose proof (bmu_wpc_to n (qpop s (S q)) j w (WSPoll b) Hn) as Hw.
      rewrite Hpc in Hw. unfold wrank in Hw. cbn [wrank0 wpre] in Hw. split; [lia|left; now apply fsame_refl].
  - (* WSrnc *)
    destruct (getf s i) eqn:Hf; inversion Hst; subst; clear Hst;
      first [apply Hfs; [rewrite Hf; reflexivity|simpl; lia] | apply Hsame; simpl; lia].
  - (* WCancTd *) inversion Hst; subst; clear Hst. apply Htd. simpl. lia.
  - (* WSend *) inversion Hst; subst; clear Hst. apply Hsend. simpl. lia.
  - (* WRecv *)
    destruct (outbox (getp s (wproc w))) as [|m r]; [discriminate|].
    destruct m; inversion Hst; subst; clear Hst; apply Hpop; simpl; lia.
  - (* WSetRes *)
    destruct (getf s i); inversion Hst; subst; clear Hst;
      first [apply Hfd; simpl; lia | apply Hsame; simpl; lia].
  - (* WTd *) inversion Hst; subst; clear Hst. apply Htd. simpl. lia.
  - (* WEPoll *)
    destruct (palive (getp s (wproc w))); inversion Hst; subst; clear Hst; apply Hsame; simpl; lia.
  - (* WESend *) inversion Hst; subst; clear Hst. apply Hsend. simpl. lia.
  - (* WERecv *)
    destruct (outbox (getp s (wproc w))) as [|m r]; [discriminate|].
    inversion Hst; subst; clear Hst. apply Hpop. simpl. lia.
  - (* WEComm *)
    destruct (palive (getp s (wproc w))); [discriminate|].
    inversion Hst; subst; clear Hst. apply Hsame. simpl. lia.
  - (* WETerm *) inversion Hst; subst; clear Hst. apply Hsame. simpl. lia.
  - (* WEWait *)
    destruct (palive (getp s (wproc w))); [discriminate|].
    inversion Hst; subst; clear Hst. apply Hsame. simpl. lia.
  - (* WETd *) inversion Hst; subst; clear Hst. apply Htd. simpl. lia.
  - (* WESetExc *)
    destruct (getf s i); inversion Hst; subst; clear Hst;
      first [apply Hfd; simpl; lia | apply Hsame; simpl; lia].
  - (* WSPoll *)
    destruct (palive (getp s (wproc w))); inversion Hst; subst; clear Hst; apply Hsame; simpl; lia.
  - (* WSSend *) inversion Hst; subst; clear Hst. apply Hsend. simpl. lia.
  - (* WSRecv *)
    destruct (outbox (getp s (wproc w))) as [|m r]; [discriminate|].
    inversion Hst; subst; clear Hst. apply Hpop. simpl. lia.
  - (* WSComm *)
    destruct (palive (getp s (wproc w))); [discriminate|].
    inversion Hst; subst; clear Hst. apply Hsame. simpl. lia.
  - (* WSTerm *) inversion Hst; subst; clear Hst. apply Hsame. destruct b; simpl; lia.
  - (* WSWait *)
    destruct (palive (getp s (wproc w))); [discriminate|].
    inversion Hst; subst; clear Hst. apply Hsame. simpl. lia.
  - (* WSTd *) inversion Hst; subst; clear Hst. apply Htd. simpl. lia.
  - (* WSQJoin *)
    destruct (Nat.eqb (qunf (getq s (wq w))) 0); [|discriminate].
    inversion Hst; subst; clear Hst. apply Hsame. simpl. lia.
  - discriminate.
  - discriminate.
Qed.

(* ---- worker processes ---- *)
Lemma p_step_dec : forall n c s k s' l, p_step c s k = Some (s', l) -> bmu n s' < bmu n s /\ futs s' = futs s.
Proof.
  intros n c s k s' l Hst. unfold p_step in Hst.
  destruct (nth_error (ps s) (k - 1)) as [p|] eqn:Hn; [|discriminate].
  destruct (Nat.eqb k 0); [discriminate|].
  assert (Hmove : forall p', prank p' < prank p -> bmu n (setp s k p') < bmu n s /\ futs (setp s k p') = futs s).
  { intros p' Hr. pose proof (bmu_setp n s k p p' Hn) as Hs. split; [lia|reflexivity]. }
  destruct (pp p) as [ | |i|i| | ] eqn:Hpp.
  - inversion Hst; subst; clear Hst. apply Hmove. unfold prank. rewrite Hpp. simpl. lia.
  - destruct (inbox p) as [|m t] eqn:Hin; [discriminate|].
    destruct m; inversion Hst; subst; clear Hst; apply Hmove; unfold prank; rewrite Hpp, Hin; simpl; lia.
  - inversion Hst; subst; clear Hst. apply Hmove. unfold prank. rewrite Hpp. simpl. lia.
  - inversion Hst; subst; clear Hst. apply Hmove. unfold prank. rewrite Hpp. simpl. lia.
  - inversion Hst; subst; clear Hst. apply Hmove. unfold prank. rewrite Hpp. simpl. lia.
  - discriminate.
Qed.

(* ---- the client's bookkeeping ---- *)
Lemma settle_le : forall n cl lk sub l acc l' acc' pc,
  settle cl lk sub l acc = (l', acc', pc) -> opsw n l' + mrank n pc <= opsw n l + ROP n.
Proof.
  intros n cl lk sub l. induction l as [|o t IH]; intros acc l' acc' pc Hs.
  - simpl in Hs. inversion Hs; subst. unfold opsw. simpl. lia.
  - assert (Hstay : (l', acc', pc) = (o :: t, acc, MOp) -> opsw n l' + mrank n pc <= opsw n (o :: t) + ROP n).
    { intros E. inversion E; subst. simpl. lia. }
    assert (Hgo : forall acc2, settle cl lk sub t acc2 = (l', acc', pc) ->
                    opsw n l' + mrank n pc <= opsw n (o :: t) + ROP n).
    { intros acc2 E. specialize (IH _ _ _ _ E). unfold opsw in *. simpl length. lia. }
    simpl in Hs. destruct o as [i|i|i|w0 c0| |].
    + destruct cl; [eapply Hgo; eauto|apply Hstay; now symmetry].
    + destruct (mem_nat i sub); [apply Hstay; now symmetry|eapply Hgo; eauto].
    + destruct (mem_nat i sub); [apply Hstay; now symmetry|eapply Hgo; eauto].
    + destruct cl; [eapply Hgo; eauto|apply Hstay; now symmetry].
    + destruct (cl || lk); [eapply Hgo; eauto|apply Hstay; now symmetry].
    + destruct cl; [eapply Hgo; eauto|apply Hstay; now symmetry].
Qed.

Lemma bmu_m_goto : forall n s l x cl,
  bmu n (m_goto s l x cl) + opsw n (ops s) + mrank n (main s) <= bmu n s + opsw n l + ROP n.
Proof.
  intros n s l x cl. unfold m_goto.
  destruct (settle cl _ (subm s) l (outs s ++ x)) as [[l' acc'] pc] eqn:Hs.
  pose proof (settle_le n _ _ _ _ _ _ _ _ Hs) as Hle. unfold bmu. simpl. lia.
Qed.

Lemma opsw_cons : forall n o t, opsw n (o :: t) = WOP n + opsw n t.
Proof. intros. unfold opsw. simpl length. lia. Qed.

Lemma opsw_snoc : forall n l o, opsw n (l ++ [o]) = opsw n l + WOP n.
Proof. intros. unfold opsw. rewrite app_length. simpl. lia. Qed.

Lemma opsw_tl : forall n l, l <> [] -> opsw n l = WOP n + opsw n (tl l).
Proof. intros n l H. destruct l; [congruence|]. apply opsw_cons. Qed.

Lemma bmu_submit : forall n s i, queues s <> [] -> bmu n (submit_state s i) = bmu n s + WT n.
Proof. intros n s i H. change (bmu n (submit_state s i)) with (bmu n (qput s 0 (Task i))). now rewrite bmu_qput0. Qed.

Lemma cR_dec : forall n d s s',
  cR d s s' -> queues s <> [] -> (inshut (main s) -> ops s <> []) ->
  bmu n s' < bmu n s /\ (forall k, main s = MStart k -> bmu n s' + 1 < bmu n s /\ fsame s s') /\
  (fsame s s' \/ bmu n s' + BB n < bmu n s).
Proof.
  intros n d s s' HR Hne Hops.
  assert (HW : WOP n = ROP n + 1) by reflexivity.
  assert (HR' : ROP n = WT n + WS n + BB n + 30) by reflexivity.
  assert (HT : WT n = 2 * NN n + BB n + 48) by reflexivity.
  assert (HS : WS n = NN n + 5) by reflexivity.
  destruct HR.
  - (* begin *) pose proof (bmu_set_main n s (MStart 0)) as Hm. rewrite H in Hm. simpl in Hm.
    split; [lia|]. split; [intros k E; congruence|left; now apply fsame_refl].
  - (* start *) pose proof (bmu_m_goto n s (ops s ++ [ODrop]) [] false) as Hm. rewrite H, opsw_snoc in Hm. simpl in Hm.
    split; [lia|]. split; [intros k0 E; split; [lia|apply fsame_refl; apply m_goto_futs]|left; apply fsame_refl; apply m_goto_futs].
  - (* submit *) pose proof (bmu_m_goto n (submit_state s i) t [XOk] (closed s)) as Hm.
    rewrite (bmu_submit n s i Hne) in Hm. unfold submit_state in Hm at 2 3. cbn [ops main] in Hm.
    rewrite H, H0, opsw_cons in Hm. simpl in Hm.
    split; [lia|]. split; [intros k E; congruence|left; apply fsame_refl; now rewrite m_goto_futs].
  - (* cancel *) pose proof (bmu_m_goto n (set_futs s (setf s i f)) t [XBool b] (closed s)) as Hm.
    rewrite bmu_set_futs in Hm. cbn [ops main set_futs] in Hm. rewrite H, H0, opsw_cons in Hm. simpl in Hm.
    split; [lia|]. split; [intros k E; congruence|right; lia].
  - (* result *) pose proof (bmu_m_goto n s t [result_outcome (getf s i)] (closed s)) as Hm.
    rewrite H, H0, opsw_cons in Hm. simpl in Hm.
    split; [lia|]. split; [intros k E; congruence|left; apply fsame_refl; apply m_goto_futs].
  - (* drainT *) pose proof (bmu_qpop0 n s _ _ H0) as Hp. pose proof (bmu_set_main n (qpop s 0) (MDrainCancel w j)) as Hm.
    cbn [main qpop set_queues] in Hm. simpl w0 in Hp. simpl mrank in Hm at 2.
    destruct H as [E|[E _]]; rewrite E in Hm; simpl in Hm;
      (split; [lia|]; split; [intros k E2; congruence|left; now apply fsame_refl]).
  - (* drainS *) pose proof (bmu_qpop0 n s _ _ H0) as Hp. pose proof (bmu_set_main n (qpop s 0) (MDrain w)) as Hm.
    cbn [main qpop set_queues] in Hm. simpl w0 in Hp. simpl mrank in Hm at 2.
    destruct H as [E|[E _]]; rewrite E in Hm; simpl in Hm;
      (split; [lia|]; split; [intros k E2; congruence|left; now apply fsame_refl]).
  - (* drainE *) pose proof (bmu_set_main n s (MPutShut w 1)) as Hm. simpl mrank in Hm at 2.
    destruct H as [E|[E _]]; rewrite E in Hm; simpl in Hm;
      (split; [lia|]; split; [intros k E2; congruence|left; now apply fsame_refl]).
  - (* putJ *) pose proof (bmu_qput0 n s (Shut w) Hne) as Hp. pose proof (bmu_set_main n (qput s 0 (Shut w)) (MJoin 0)) as Hm.
    cbn [main qput set_queues] in Hm. simpl w0 in Hp. simpl mrank in Hm at 2.
    destruct H as [[E _]|E]; rewrite E in Hm; simpl in Hm;
      (split; [lia|]; split; [intros k E2; congruence|left; now apply fsame_refl]).
  - (* putF *) pose proof (bmu_qput0 n s (Shut w) Hne) as Hp.
    pose proof (bmu_m_goto n (qput s 0 (Shut w)) (tl (ops s)) (if cur_silent s then [] else [XOk]) true) as Hm.
    cbn [main ops qput set_queues] in Hm. simpl w0 in Hp.
    assert (Ho : ops s <> []).
    { destruct H as [[E Ho]|E]; [|apply Hops; rewrite E; exact I].
      destruct Ho as [[t Ho]|[[_ [t Ho]]|[_ [t Ho]]]]; rewrite Ho; discriminate. }
    rewrite (opsw_tl n (ops s) Ho) in Hm.
    destruct H as [[E _]|E]; rewrite E in Hm; simpl in Hm;
      (split; [lia|]; split; [intros k E2; congruence|left; apply fsame_refl; now rewrite m_goto_futs]).
  - (* putK *) pose proof (bmu_qput0 n s (Shut w) Hne) as Hp.
    pose proof (bmu_set_main n (qput s 0 (Shut w)) (MPutShut w (S k))) as Hm.
    cbn [main qput set_queues] in Hm. simpl w0 in Hp. rewrite H in Hm. simpl mrank in Hm.
    rewrite (Nat.mul_succ_r (WS n + 1) (S k)) in Hm.
    split; [lia|]. split; [intros k0 E2; congruence|left; now apply fsame_refl].
  - (* dcancel *) pose proof (bmu_set_main n (set_futs s (setf s j f)) (MDrainTd w)) as Hm.
    rewrite bmu_set_futs in Hm. cbn [main set_futs] in Hm. rewrite H in Hm. simpl in Hm.
    split; [lia|]. split; [intros k E2; congruence|right; lia].
  - (* dtd *) pose proof (bmu_set_main n (qtd s 0) (MDrain w)) as Hm. rewrite bmu_qtd in Hm.
    cbn [main qtd set_queues] in Hm. rewrite H in Hm. simpl in Hm.
    split; [lia|]. split; [intros k E2; congruence|left; now apply fsame_refl].
  - (* joinD *) pose proof (bmu_m_goto n s (tl (ops s)) [XRaise] false) as Hm.
    assert (Ho : ops s <> []) by (apply Hops; rewrite H; exact I).
    rewrite (opsw_tl n (ops s) Ho), H in Hm. simpl in Hm.
    split; [lia|]. split; [intros k0 E2; congruence|left; apply fsame_refl; apply m_goto_futs].
  - (* joinQ *) pose proof (bmu_set_main n s MQJoin) as Hm. rewrite H in Hm. simpl in Hm.
    split; [lia|]. split; [intros k0 E2; congruence|left; now apply fsame_refl].
  - (* qjoin *) pose proof (bmu_m_goto n s (tl (ops s)) (if cur_silent s then [] else [XOk]) true) as Hm.
    assert (Ho : ops s <> []) by (apply Hops; rewrite H; exact I).
    rewrite (opsw_tl n (ops s) Ho), H in Hm. simpl in Hm.
    split; [lia|]. split; [intros k0 E2; congruence|left; apply fsame_refl; apply m_goto_futs].
Qed.

(* ------------------------------------------------------------------ *)

(* ================= the dispatcher's part of the measure ================= *)
Definition ct (n : nat) (d : bool) : nat := if d then NN n else 2.
Definition ck (n : nat) (d : bool) : nat := if d then 2 * NN n else 1.
Definition edone (fs : list fstate) (e : nat * nat) : bool := fdone (nth_f fs (fst e)).
Definition ect (n : nat) (fs : list fstate) (e : nat * nat) : nat := ct n (edone fs e).
Definition eck (n : nat) (fs : list fstate) (e : nat * nat) : nat := ck n (edone fs e).

Definition epot (n : nat) (fs : list fstate) (d : dpc) (act : list (nat * nat)) : nat :=
  match d with
  | DScan _ todo kept => sumf (ect n fs) todo + sumf (eck n fs) kept
  | _ => sumf (ect n fs) act
  end.
Definition elen (d : dpc) (act : list (nat * nat)) : nat :=
  match d with DScan _ todo kept => length todo + length kept | _ => length act end.

Definition drank (n : nat) (la : nat) (d : dpc) : nat :=
  match d with
  | DNone => 0 | DBegin => 1 | DGet => 0
  | DPutTask _ => 2 * NN n + BB n + 47
  | DPutShut _ => 2 * NN n + 26
  | DScan _ _ _ => 2 * NN n + 5
  | DSpin _ => 0
  | DStart _ => NN n + 5
  | DTd => 1
  | DSJoin k => (la - k) + 3
  | DSTd => 2 | DSQJoin => 1 | DDone => 0 | DDead => 0
  end.

Definition dm (n : nat) (x : xstate) : nat :=
  drank n (launched x) (disp x) + epot n (futs (base x)) (disp x) (active x).
Definition xmu (n : nat) (x : xstate) : nat := bmu n (base x) + dm n x.

Lemma epot_same : forall n fs fs' d act,
  (forall i, fdone (nth_f fs' i) = fdone (nth_f fs i)) -> epot n fs' d act = epot n fs d act.
Proof.
  intros n fs fs' d act H.
  assert (E1 : forall e, ect n fs' e = ect n fs e) by (intros e; unfold ect, edone; now rewrite H).
  assert (E2 : forall e, eck n fs' e = eck n fs e) by (intros e; unfold eck, edone; now rewrite H).
  unfold epot. destruct d; try (apply sumf_ext; exact E1).
  rewrite (sumf_ext _ _ _ todo E1), (sumf_ext _ _ _ kept E2). reflexivity.
Qed.

Lemma epot_bound : forall n fs fs' d act, epot n fs' d act <= epot n fs d act + 2 * NN n * elen d act.
Proof.
  intros n fs fs' d act. pose proof (NN_gt n) as HN.
  assert (E1 : forall e, ect n fs' e <= ect n fs e + 2 * NN n)
    by (intros e; unfold ect, ct; destruct (edone fs' e); destruct (edone fs e); lia).
  assert (E2 : forall e, eck n fs' e <= eck n fs e + 2 * NN n)
    by (intros e; unfold eck, ck; destruct (edone fs' e); destruct (edone fs e); lia).
  unfold epot, elen. destruct d; try (apply sumf_le; exact E1).
  pose proof (sumf_le _ _ _ todo _ E1). pose proof (sumf_le _ _ _ kept _ E2).
  rewrite Nat.mul_add_distr_l. lia.
Qed.

(* ================= a general invariant: bounds ================= *)
Record GI (x : xstate) : Prop := mkGI {
  G_ops : inshut (main (base x)) -> ops (base x) <> [];
  G_act : length (active x) <= length (ws (base x));
  G_ws : length (ws (base x)) + count is_task (qitems (q0v (base x))) + prep (disp x) <= length (subm (base x));
  G_la : launched x = length (ws (base x));
  G_jo : forall k, disp x = DSJoin k -> k < launched x
}.

Lemma gi_init : forall n prog, GI (xinit n prog).
Proof.
  intros n prog. constructor; unfold xinit, init, q0v; xfld; fld; simpl.
  - tauto.
  - lia.
  - unfold count. simpl. lia.
  - reflexivity.
  - intros k E. discriminate E.
Qed.

Lemma subm_le : forall c n x, XInv c n x -> length (subm (base x)) <= n.
Proof.
  intros c n x H.
  assert (Hnd : NoDup (subm (base x))).
  { pose proof (X_sub1 _ _ _ H) as Hn. rewrite <- (app_nil_r (subm (base x))).
    apply (NoDup_app_drop_mid _ (subm (base x)) (submits (ops (base x))) []). now rewrite app_nil_r. }
  assert (Hin : incl (subm (base x)) (seq 1 n)).
  { intros i Hi. apply in_seq. pose proof (X_sub2 _ _ _ H i (in_or_app _ _ _ (or_introl Hi))). lia. }
  pose proof (NoDup_incl_length Hnd Hin) as Hl. rewrite seq_length in Hl. exact Hl.
Qed.

Lemma gi_w : forall c n x j b l, XInv c n x -> GI x -> w_step (bcfg c) (base x) j = Some (b, l) -> GI (set_base x b).
Proof.
  intros c n x j b l H [G1 G2 G3 G4 G5] Hst.
  destruct (nth_error (ws (base x)) j) as [w|] eqn:Hj;
    [|unfold w_step in Hst; rewrite Hj in Hst; discriminate].
  destruct (w_step_fx _ _ _ _ _ w Hst Hj) as ((Em & Eo & Es & _ & _) & _ & Hoth & _ & w' & Ews & _ & _).
  destruct (wq_facts c n x j w H Hj) as (F1 & _).
  assert (Eq0 : q0v b = q0v (base x)) by (unfold q0v; apply Hoth; lia).
  constructor; unfold set_base; xfld; rewrite ?Em, ?Eo, ?Es, ?Eq0, ?Ews, ?upd_length; assumption.
Qed.

Lemma gi_p : forall c x k b l, GI x -> p_step c (base x) k = Some (b, l) -> GI (set_base x b).
Proof.
  intros c x k b l [G1 G2 G3 G4 G5] Hst. destruct (p_step_eff _ _ _ _ _ Hst) as (p & p' & _ & _ & Eb & _). subst b.
  constructor; assumption.
Qed.

Lemma count_task_snoc_shut : forall l w, count is_task (l ++ [Shut w]) = count is_task l.
Proof. intros. rewrite count_snoc. simpl. lia. Qed.

Lemma goto_not_inshut : forall s l x cl, inshut (main (m_goto s l x cl)) -> False.
Proof. intros s l x cl H. destruct (m_goto_main s l x cl) as [E|E]; rewrite E in H; exact H. Qed.

Lemma gi_m : forall c n x x' l, XInv c n x -> GI x -> xm_step c x = Some (x', l) -> GI x'.
Proof.
  intros c n x x' l H [G1 G2 G3 G4 G5] Hst.
  destruct (xm_step_cR _ _ _ _ Hst) as (HR & Ea & El & Ed).
  destruct (xm_step_eff _ _ _ _ Hst) as ((Ews & _ & _ & _) & _ & _).
  assert (Hne : queues (base x) <> []).
  { pose proof (q0_range c n x H) as L. intro E. rewrite E in L. simpl in L. lia. }
  assert (Hpr : prep (disp x') = prep (disp x)).
  { rewrite Ed. destruct (main (base x)) eqn:Hm; try reflexivity.
    destruct (X_dn _ _ _ H) as [Hs|Hs]; [rewrite Hm in Hs; destruct Hs|rewrite Hs; reflexivity]. }
  assert (Hjo : forall k, disp x' = DSJoin k -> disp x = DSJoin k).
  { intros k E. rewrite Ed in E. destruct (main (base x)); try exact E; discriminate E. }
  destruct x' as [s' d' a' l']. cbn [base disp active launched] in *.
  constructor; cbn [base disp active launched]; rewrite ?Ea, ?El, ?Ews, ?Hpr; try assumption.
  - (* ops *)
    destruct HR; cbn [main ops set_main qpop qput qtd set_queues set_futs inshut];
      try (intros Hi; exfalso; exact (goto_not_inshut _ _ _ _ Hi));
      try (intros _; apply G1; rewrite H0; exact I);
      try (intros Hi; now destruct Hi).
    + intros _. destruct H0 as [E|[E [t Ho]]]; [apply G1; rewrite E; exact I|rewrite Ho; discriminate].
    + intros _. destruct H0 as [E|[E [t Ho]]]; [apply G1; rewrite E; exact I|rewrite Ho; discriminate].
    + intros _. destruct H0 as [E|[E [t Ho]]]; [apply G1; rewrite E; exact I|rewrite Ho; discriminate].
    + intros _. destruct H0 as [[E Ho]|E]; [|apply G1; rewrite E; exact I].
      destruct Ho as [[t Ho]|[[_ [t Ho]]|[_ [t Ho]]]]; rewrite Ho; discriminate.
  - (* counts *)
    destruct HR; rewrite ?q0v_goto; autorewrite with flds; cbn [subm set_main qpop qput qtd set_queues set_futs];
      try exact G3.
    + unfold submit_state, q0v. fld. fold (q0v (qput (base x) 0 (Task i))). rewrite q0v_put by exact Hne.
      cbn [qitems]. rewrite count_snoc, app_length. cbn [b2n is_task length]. lia.
    + change (q0v (set_main (qpop (base x) 0) (MDrainCancel w j))) with (q0v (qpop (base x) 0)).
      rewrite q0v_pop by exact Hne. change (getq (base x) 0) with (q0v (base x)) in H1. rewrite H1 in G3.
      rewrite H1. rewrite count_cons in G3. cbn [qitems b2n is_task tl] in *. lia.
    + change (q0v (set_main (qpop (base x) 0) (MDrain w))) with (q0v (qpop (base x) 0)).
      rewrite q0v_pop by exact Hne. change (getq (base x) 0) with (q0v (base x)) in H1. rewrite H1 in G3.
      rewrite H1. rewrite count_cons in G3. cbn [qitems b2n is_task tl] in *. lia.
    + change (q0v (set_main (qput (base x) 0 (Shut w)) (MJoin 0))) with (q0v (qput (base x) 0 (Shut w))).
      rewrite q0v_put by exact Hne. cbn [qitems]. rewrite count_task_snoc_shut. exact G3.
    + rewrite q0v_put by exact Hne. cbn [qitems]. rewrite count_task_snoc_shut. exact G3.
    + change (q0v (set_main (qput (base x) 0 (Shut w)) (MPutShut w (S k)))) with (q0v (qput (base x) 0 (Shut w))).
      rewrite q0v_put by exact Hne. cbn [qitems]. rewrite count_task_snoc_shut. exact G3.
    + change (q0v (set_main (qtd (base x) 0) (MDrain w))) with (q0v (qtd (base x) 0)).
      rewrite q0v_td by exact Hne. cbn [qitems]. exact G3.
  - intros k E. apply G5. now apply Hjo.
Qed.

Lemma gi_d : forall c n x x' l, XInv c n x -> GI x -> d_step c 0 x = Some (x', l) -> GI x'.
Proof.
  intros c n x x' l H HG Hst. unfold d_step in Hst. cbv zeta in Hst.
  pose proof (X_lq _ _ _ H) as Hlq.
  assert (Hne : queues (base x) <> []) by (intro E; rewrite E in Hlq; simpl in Hlq; lia).
  destruct HG as [G1 G2 G3 G4 G5].
  destruct (disp x) as [| | |i|i|i todo kept|i|i| |k| | | |] eqn:Hd; try discriminate; simpl prep in *.
  - (* DBegin *) inversion Hst; subst; clear Hst. constructor; unfold set_disp; xfld; try assumption.
    intros k E. discriminate E.
  - (* DGet *)
    destruct (qitems (getq (base x) 0)) as [|it rest] eqn:Hq0; [discriminate|].
    change (getq (base x) 0) with (q0v (base x)) in Hq0. rewrite Hq0, count_cons in G3.
    destruct it as [i|w]; inversion Hst; subst; clear Hst.
    + match goal with |- GI ?X => assert (Eq : qitems (q0v (base X)) = rest) end.
      { unfold q0v, qpop, set_queues, getq. xfld. fld. rewrite app_nth1 by (rewrite upd_length; lia).
        rewrite getq_upd0 by exact Hne. change (nth 0 (queues (base x)) (mkQ [] 0)) with (q0v (base x)).
        rewrite Hq0. reflexivity. }
      constructor; rewrite ?Eq; xfld; unfold qpop, set_queues; fld; try assumption.
      * simpl in *. lia.
      * intros k E. discriminate E.
    + match goal with |- GI ?X => assert (Eq : qitems (q0v (base X)) = rest) end.
      { xfld. rewrite q0v_pop by exact Hne. rewrite Hq0. reflexivity. }
      constructor; rewrite ?Eq; xfld; unfold qpop, set_queues; fld; try assumption.
      * simpl in *. destruct w; [destruct (Nat.eqb (launched x) 0)|]; simpl; lia.
      * intros k E. destruct w; [destruct (Nat.eqb (launched x) 0) eqn:El|]; try discriminate E.
        inversion E; subst. apply Nat.eqb_neq in El. lia.
  - (* DPutTask *) inversion Hst; subst; clear Hst.
    assert (Eq : q0v (qput (base x) (length (queues (base x)) - 1) (Task i)) = q0v (base x)).
    { unfold q0v, qput, set_queues. fld. apply nth_upd_other. lia. }
    constructor; xfld; rewrite ?Eq; unfold qput, set_queues; fld; try assumption.
    intros k E. discriminate E.
  - (* DPutShut *) inversion Hst; subst; clear Hst.
    destruct (after_puts_cases c (set_base x (qput (base x) (length (queues (base x)) - 1) (Shut true))) i)
      as (Eb & Ea & El & Edc).
    assert (Eq : q0v (qput (base x) (length (queues (base x)) - 1) (Shut true)) = q0v (base x)).
    { unfold q0v, qput, set_queues. fld. apply nth_upd_other. lia. }
    assert (Hp : prep (disp (after_puts c (set_base x (qput (base x) (length (queues (base x)) - 1) (Shut true))) i)) = 1)
      by (destruct Edc as [E|[[a0 E]|E]]; rewrite E; reflexivity).
    assert (Hnj : forall k, disp (after_puts c (set_base x (qput (base x) (length (queues (base x)) - 1) (Shut true))) i) <> DSJoin k)
      by (intros k E0; destruct Edc as [E|[[a0 E]|E]]; rewrite E in E0; discriminate).
    constructor; try (intros k E0; exfalso; exact (Hnj k E0));
      rewrite ?Eb, ?Ea, ?El, ?Hp; unfold set_base; xfld; rewrite ?Eq; unfold qput, set_queues; fld; try assumption.
  - (* DScan *)
    destruct todo as [|[f sl] rest]; [discriminate|].
    destruct (X_scan _ _ _ H i _ _ Hd) as (_ & Hlen & _).
    destruct rest as [|e rest']; inversion Hst; subst; clear Hst.
    + match goal with |- GI (after_puts c ?X i) => destruct (after_puts_cases c X i) as (Eb & Ea & El & Edc) end.
      match goal with |- GI ?X => assert (Hp : prep (disp X) = 1)
        by (destruct Edc as [E|[[a0 E]|E]]; rewrite E; reflexivity) end.
      match goal with |- GI ?X => assert (Hnj : forall k, disp X <> DSJoin k)
        by (intros k E0; destruct Edc as [E|[[a0 E]|E]]; rewrite E in E0; discriminate) end.
      constructor; try (intros k E0; exfalso; exact (Hnj k E0)); rewrite ?Eb, ?Ea, ?El, ?Hp; xfld; try assumption.
      rewrite app_length in Hlen. simpl in Hlen.
      destruct (fdone (getf (base x) f)); [|rewrite app_length; simpl]; lia.
    + constructor; unfold set_disp; xfld; try assumption. intros k E. discriminate E.
  - (* DStart *) inversion Hst; subst; clear Hst.
    constructor; unfold set_ws, q0v in *; xfld; fld; rewrite ?app_length; simpl length; simpl prep; try lia; try assumption;
      try (intros k E; discriminate E).
  - (* DTd *) inversion Hst; subst; clear Hst.
    constructor; xfld; rewrite ?q0v_td by exact Hne; unfold qtd, set_queues; fld; try assumption.
    intros k E. discriminate E.
  - (* DSJoin *)
    destruct (nth_error (ws (base x)) k) as [wt|] eqn:Hk; [|discriminate].
    destruct (wdone wt); [|discriminate]. specialize (G5 k eq_refl).
    destruct (wdead wt); [|destruct (Nat.eqb (S k) (launched x)) eqn:El]; inversion Hst; subst; clear Hst;
      constructor; unfold set_disp; xfld; try assumption; intros k0 E; try discriminate E.
    inversion E; subst. apply Nat.eqb_neq in El. lia.
  - (* DSTd *) inversion Hst; subst; clear Hst.
    constructor; xfld; rewrite ?q0v_td by exact Hne; unfold qtd, set_queues; fld; try assumption.
    intros k E. discriminate E.
  - (* DSQJoin *)
    destruct (Nat.eqb (qunf (getq (base x) 0)) 0); [|discriminate]. inversion Hst; subst; clear Hst.
    constructor; unfold set_disp; xfld; try assumption. intros k E. discriminate E.
Qed.

(* ------------------------------------------------------------------ *)

Lemma NN_ge2 : forall n, 2 <= NN n.
Proof. intros n. Transparent NN. unfold NN. lia. Qed.
Global Opaque NN.

Lemma ect_le : forall n fs e, ect n fs e <= NN n.
Proof. intros n fs e. unfold ect, ct. pose proof (NN_ge2 n). destruct (edone fs e); lia. Qed.

Lemma ect_ge1 : forall n fs e, 1 <= ect n fs e.
Proof. intros n fs e. unfold ect, ct. pose proof (NN_ge2 n). destruct (edone fs e); lia. Qed.

Lemma kept_L1 : forall n fs kept, sumf (ect n fs) kept <= sumf (eck n fs) kept + length kept.
Proof.
  intros n fs kept. induction kept as [|e t IH]; simpl; [lia|].
  unfold ect, eck, ct, ck in *. destruct (edone fs e); lia.
Qed.

Lemma kept_L2 : forall n fs kept, forallb (fun e => negb (edone fs e)) kept = false ->
  sumf (ect n fs) kept + NN n <= sumf (eck n fs) kept + length kept.
Proof.
  intros n fs kept. induction kept as [|e t IH]; simpl; intros H; [discriminate|].
  pose proof (kept_L1 n fs t) as L1.
  unfold ect, eck, ct, ck in *. destruct (edone fs e) eqn:Ed; simpl in H.
  - lia.
  - specialize (IH H). lia.
Qed.

Lemma bmu_addq : forall n s, queues s <> [] -> bmu n (set_queues s (queues s ++ [mkQ [] 0])) = bmu n s.
Proof. intros n s H. unfold bmu, set_queues. fld. now rewrite qw_snoc. Qed.

Lemma elen_bound : forall c n x, XInv c n x -> GI x -> elen (disp x) (active x) <= n.
Proof.
  intros c n x H HG. pose proof (subm_le c n x H) as Hs. pose proof (G_act _ HG) as Ha. pose proof (G_ws _ HG) as Hw.
  unfold elen. destruct (disp x) eqn:Hd; try lia.
  destruct (X_scan _ _ _ H _ _ _ Hd) as (_ & Hl & _). rewrite app_length in Hl. lia.
Qed.

Lemma epot_noscan : forall n fs d act, (forall i t k, d <> DScan i t k) -> epot n fs d act = sumf (ect n fs) act.
Proof. intros n fs d act H. destruct d; try reflexivity. exfalso. eapply H; eauto. Qed.

Lemma d_step_dec : forall c n x x' l,
  XInv c n x -> GI x -> d_step c 0 x = Some (x', l) -> d_polling x = false -> xmu n x' < xmu n x.
Proof.
  intros c n x x' l H HG Hst Hpoll. unfold d_step in Hst. cbv zeta in Hst.
  pose proof (X_lq _ _ _ H) as Hlq.
  assert (Hne : queues (base x) <> []) by (intro E; rewrite E in Hlq; simpl in Hlq; lia).
  pose proof (NN_ge2 n) as HN2. pose proof (NN_gt n) as HNn.
  pose proof (elen_bound c n x H HG) as Hel.
  pose proof (G_la _ HG) as Hla. pose proof (G_jo _ HG) as Hjo.
  pose proof (subm_le c n x H) as Hsub. pose proof (G_ws _ HG) as Hws.
  assert (HT : WT n = 2 * NN n + BB n + 48) by reflexivity.
  assert (HS : WS n = NN n + 5) by reflexivity.
  unfold xmu, dm.
  destruct (disp x) as [| | |i|i|i todo kept|i|i| |k| | | |] eqn:Hd; try discriminate; simpl prep in *.
  - (* DBegin *) inversion Hst; subst; clear Hst. unfold set_disp. xfld. simpl. lia.
  - (* DGet *)
    destruct (qitems (getq (base x) 0)) as [|it rest] eqn:Hq0; [discriminate|].
    pose proof (bmu_qpop0 n (base x) it rest Hq0) as Hp.
    destruct it as [i|w]; inversion Hst; subst; clear Hst; xfld.
    + match goal with |- bmu n ?S + _ < _ => assert (Hb : bmu n S = bmu n (qpop (base x) 0)) end.
      { change (bmu n (set_queues (qpop (base x) 0) (queues (qpop (base x) 0) ++ [mkQ [] 0])) = bmu n (qpop (base x) 0)).
        apply bmu_addq. unfold qpop, set_queues. fld. apply upd_nil_iff. exact Hne. }
      rewrite Hb. simpl w0 in Hp. simpl drank. simpl epot. lia.
    + simpl w0 in Hp.
      assert (Hr : drank n (launched x) (if w then if Nat.eqb (launched x) 0 then DSTd else DSJoin 0 else DSTd) <= launched x + 3)
        by (destruct w; [destruct (Nat.eqb (launched x) 0)|]; simpl; lia).
      rewrite (epot_noscan n (futs (base x)) (if w then if Nat.eqb (launched x) 0 then DSTd else DSJoin 0 else DSTd))
        by (intros i0 t0 k0; destruct w; [destruct (Nat.eqb (launched x) 0)|]; discriminate).
      simpl epot. simpl drank at 2. lia.
  - (* DPutTask *) inversion Hst; subst; clear Hst. xfld.
    destruct (length (queues (base x)) - 1) as [|q'] eqn:Eq; [lia|].
    pose proof (bmu_qput1 n (base x) q' (Task i)) as Hp. simpl w1 in Hp. simpl. lia.
  - (* DPutShut *) inversion Hst; subst; clear Hst.
    destruct (length (queues (base x)) - 1) as [|q'] eqn:Eq; [lia|].
    pose proof (bmu_qput1 n (base x) q' (Shut true)) as Hp. simpl w1 in Hp.
    destruct (after_puts_cases c (set_base x (qput (base x) (S q') (Shut true))) i) as (Eb & Ea & El & Edc).
    rewrite Eb, Ea, El.
    destruct Edc as [E|[[a0 E]|E]]; rewrite E; unfold set_base; xfld; simpl; try lia.
    (* a new pass: todo = active *)
    unfold after_puts in E. unfold set_base in E. cbn [active] in E.
    destruct (must_wait c (active x) i); [|discriminate E].
    destruct (active x) eqn:Ea0; simpl in E; [discriminate E|]. inversion E; subst a0. simpl. lia.
  - (* DScan *)
    destruct todo as [|[f sl] rest]; [discriminate|].
    unfold d_polling in Hpoll. rewrite Hd in Hpoll. simpl elen in Hel.
    change (fdone (getf (base x) f)) with (edone (futs (base x)) (f, sl)) in Hst.
    assert (Hpoll' : forallb (fun e => negb (edone (futs (base x)) e)) (kept ++ (f, sl) :: rest) = false) by exact Hpoll.
    clear Hpoll. rewrite forallb_app in Hpoll'. simpl in Hpoll'.
    pose proof (kept_L1 n (futs (base x)) kept) as L1.
    destruct rest as [|e rest']; inversion Hst; subst; clear Hst.
    + (* end of the pass *)
      match goal with |- bmu n (base (after_puts c ?X i)) + _ < _ =>
        destruct (after_puts_cases c X i) as (Eb & Ea & El & Edc); rewrite Eb, Ea, El;
        assert (Hsc : forall a0, disp (after_puts c X i) = DScan i a0 [] -> a0 = active X) end.
      { intros a0 E. unfold after_puts in E. destruct (must_wait c _ i); [|discriminate E].
        match type of E with context [match ?a with [] => _ | _ => _ end] => destruct a eqn:Ea0 end;
          simpl in E; [discriminate E|]. inversion E. reflexivity. }
      xfld. simpl in Hel.
      destruct (edone (futs (base x)) (f, sl)) eqn:Ed.
      * (* the last entry is dropped *)
        assert (He : ect n (futs (base x)) (f, sl) = NN n) by (unfold ect, ct; now rewrite Ed).
        destruct Edc as [E|[[a0 E]|E]]; rewrite E; try (specialize (Hsc a0 E); subst a0); xfld; simpl; rewrite ?He; lia.
      * assert (He : ect n (futs (base x)) (f, sl) = 2) by (unfold ect, ct; now rewrite Ed).
        simpl in Hpoll'. rewrite andb_true_r in Hpoll'.
        pose proof (kept_L2 n (futs (base x)) kept Hpoll') as L2.
        destruct Edc as [E|[[a0 E]|E]]; rewrite E; try (specialize (Hsc a0 E); subst a0); xfld; simpl;
          rewrite ?sumf_app; simpl; rewrite ?He; lia.
    + (* inside the pass *)
      unfold set_disp. xfld. simpl.
      destruct (edone (futs (base x)) (f, sl)) eqn:Ed.
      * pose proof (ect_ge1 n (futs (base x)) (f, sl)). lia.
      * assert (He : ect n (futs (base x)) (f, sl) = 2) by (unfold ect, ct; now rewrite Ed).
        assert (Hk : eck n (futs (base x)) (f, sl) = 1) by (unfold eck, ck; now rewrite Ed).
        rewrite sumf_app. simpl. rewrite He, Hk. lia.
  - (* DStart *) inversion Hst; subst; clear Hst. xfld.
    pose proof (bmu_add_w n (base x) (mkW (length (queues (base x)) - 1) 0 WBegin)) as Hb.
    unfold wrank in Hb. simpl in Hb. simpl. rewrite sumf_app. simpl.
    pose proof (ect_le n (futs (base x)) (i, xslots c i)). unfold set_ws in *. fld. lia.
  - (* DTd *) inversion Hst; subst; clear Hst. xfld. rewrite bmu_qtd. simpl. lia.
  - (* DSJoin *)
    destruct (nth_error (ws (base x)) k) as [wt|] eqn:Hk; [|discriminate].
    destruct (wdone wt); [|discriminate]. specialize (Hjo k eq_refl).
    destruct (wdead wt); [|destruct (Nat.eqb (S k) (launched x)) eqn:El]; inversion Hst; subst; clear Hst;
      unfold set_disp; xfld; simpl; try lia.
  - (* DSTd *) inversion Hst; subst; clear Hst. xfld. rewrite bmu_qtd. simpl. lia.
  - (* DSQJoin *)
    destruct (Nat.eqb (qunf (getq (base x) 0)) 0); [|discriminate]. inversion Hst; subst; clear Hst.
    unfold set_disp. xfld. simpl. lia.
Qed.

Lemma gi_step : forall c n x t x' l, XInv c n x -> GI x -> xstep c x t = Some (x', l) -> GI x'.
Proof.
  intros c n x t x' l H HG Hst. destruct t as [| | |j|k]; simpl in Hst; try discriminate.
  - eapply (gi_m c n x); eauto.
  - eapply (gi_d c n x); eauto.
  - destruct j as [|j]; [discriminate|].
    destruct (w_step (bcfg c) (base x) j) as [[b l0]|] eqn:E; [|discriminate].
    inversion Hst; subst. eapply (gi_w c n x); eauto.
  - destruct (p_step (bcfg c) (base x) k) as [[b l0]|] eqn:E; [|discriminate].
    inversion Hst; subst. eapply (gi_p (bcfg c) x); eauto.
Qed.

Lemma xreach_gi : forall c n prog x, wf_prog n prog -> xreach c (xinit n prog) x -> XInv c n x /\ GI x.
Proof.
  intros c n prog x Hwf Hr. induction Hr as [|x t x' l Hr [IH1 IH2] Hst].
  - split; [now apply xinv_init|apply gi_init].
  - split; [eapply xstep_inv; eauto|eapply gi_step; eauto].
Qed.

(* a step of another thread changes the dispatcher's part of the measure by at most BB n, and
   not at all if no future becomes done *)
Lemma dm_other : forall c n x s',
  XInv c n x -> GI x ->
  (fsame (base x) s' \/ True) ->
  epot n (futs s') (disp x) (active x) <= epot n (futs (base x)) (disp x) (active x) + BB n /\
  (fsame (base x) s' -> epot n (futs s') (disp x) (active x) = epot n (futs (base x)) (disp x) (active x)).
Proof.
  intros c n x s' H HG _. split.
  - pose proof (epot_bound n (futs (base x)) (futs s') (disp x) (active x)) as Hb.
    pose proof (BB_bound n _ (elen_bound c n x H HG)). lia.
  - intros Hf. apply epot_same. intros i. apply (Hf i).
Qed.

Theorem xstep_decreases : forall c n prog x t x' l,
  wf_prog n prog -> xreach c (xinit n prog) x -> xstep c x t = Some (x', l) ->
  (t = TD -> d_polling x = false) -> xmu n x' < xmu n x.
Proof.
  intros c n prog x t x' l Hwf Hr Hst Hpoll.
  destruct (xreach_gi c n prog x Hwf Hr) as [H HG].
  assert (Hne : queues (base x) <> []).
  { pose proof (q0_range c n x H) as L. intro E. rewrite E in L. simpl in L. lia. }
  destruct t as [| | |j|k]; simpl in Hst; try discriminate.
  - (* the client *)
    destruct (xm_step_cR _ _ _ _ Hst) as (HR & Ea & El & Ed).
    destruct (cR_dec n _ _ _ HR Hne (G_ops _ HG)) as (Hlt & Hstart & Hf).
    destruct (dm_other c n x (base x') H HG (or_intror I)) as (Hb & Hs).
    unfold xmu, dm. rewrite Ea, El.
    destruct (main (base x)) eqn:Hm; rewrite Ed;
      try (destruct Hf as [Hf|Hf]; [rewrite (Hs Hf); lia|lia]).
    (* MStart: the dispatcher thread is started *)
    destruct (X_dn _ _ _ H) as [Hx|Hx]; [rewrite Hm in Hx; destruct Hx|]. rewrite Hx in *.
    destruct (Hstart _ eq_refl) as [Hst1 Hst2]. simpl drank. simpl epot in *. rewrite (Hs Hst2). lia.
  - (* the dispatcher *) eapply d_step_dec; eauto.
  - (* a worker thread *)
    destruct j as [|j]; [discriminate|].
    destruct (w_step (bcfg c) (base x) j) as [[b l0]|] eqn:E; [|discriminate]. inversion Hst; subst; clear Hst.
    destruct (nth_error (ws (base x)) j) as [w|] eqn:Hj;
      [|unfold w_step in E; rewrite Hj in E; discriminate].
    destruct (wq_facts c n x j w H Hj) as (F1 & _).
    destruct (w_step_dec n _ _ _ _ _ w E Hj ltac:(lia)) as (Hlt & Hf).
    destruct (dm_other c n x b H HG (or_intror I)) as (Hb & Hs).
    unfold xmu, dm, set_base. xfld.
    destruct Hf as [Hf|Hf]; [rewrite (Hs Hf); lia|lia].
  - (* a worker process *)
    destruct (p_step (bcfg c) (base x) k) as [[b l0]|] eqn:E; [|discriminate]. inversion Hst; subst; clear Hst.
    destruct (p_step_dec n _ _ _ _ _ E) as (Hlt & Ef).
    unfold xmu, dm, set_base. xfld. rewrite Ef. lia.
Qed.
Print Assumptions xstep_decreases.
