(* Resource ceiling (C07) for the per-call-process executor behind the dependency resolver
   (Model/DepExec.v with dinner c = IStep), for ALL programs (failing calls, cancellations)
   and every schedule: dep_ceiling_cores, dep_ceiling_workers.

   Under the resolver the dispatcher serves queue 1 and the private queues of the worker
   threads start at index 2, so StepSafe's XInv does not hold verbatim.  The slot-accounting
   clauses are restated in the record [CI] below (layout-independent: a worker's queue is only
   required to be >= 2 and not the queue under preparation), proved preserved by dstep, and
   combined with
     - BI   (Proofs/Fidelity.v)  : ownership of processes and the worker/process channels,
     - Inv4 (Proofs/DepSafe.v)   : a worker waiting for the reply of call i => future i Running,
                                   at most one such worker per call.
   The generic lemmas on sum_slots / sub_of / cap / Kinv of StepSafe are reused. *)
From Coq Require Import List Bool Arith Lia.
From EL Require Import Model.Exec Model.ExecInv Model.StepExec Model.DepExec.
From EL Require Import Proofs.ExecSafe Proofs.StepSafe Proofs.DepSafe Proofs.Fidelity.
Import ListNotations.

(* ================================================================== *)
(* small facts                                                        *)
(* ================================================================== *)

Lemma in_tl : forall A (x : A) l, In x (tl l) -> In x l.
Proof. intros A x [|a l] H; simpl in *; [exact H|right; exact H]. Qed.

Lemma items_upd_sub : forall (qs : list queue) q0 new,
  (forall it, In it (qitems new) -> In it (qitems (nth q0 qs dq))) ->
  forall q it, In it (qitems (nth q (upd qs q0 new) dq)) -> In it (qitems (nth q qs dq)).
Proof.
  intros qs q0 new Hsub q it Hin.
  destruct (ExecSafe.nth_upd_cases _ qs q q0 new dq) as [(E & L & Hx)|(E & Hx)]; rewrite Hx in Hin.
  - subst q. apply Hsub. exact Hin.
  - exact Hin.
Qed.

Lemma fle_fdone : forall fs fs', futs_le fs fs' ->
  forall i, fdone (nth_f fs i) = true -> fdone (nth_f fs' i) = true.
Proof. intros fs fs' H i. unfold nth_f. destruct (H (i - 1)) as [H1 _]. exact H1. Qed.

(* ---- one worker step: queues and the call it holds ---- *)
Lemma w_step_q : forall c s j s' l w,
  w_step c s j = Some (s', l) -> nth_error (ws s) j = Some w ->
  length (queues s') = length (queues s) /\
  (forall q it, In it (qitems (nth q (queues s') dq)) -> In it (qitems (nth q (queues s) dq))) /\
  exists w', ws s' = upd (ws s) j w' /\ wq w' = wq w /\
    (forall i, w_call w' = Some i ->
       w_call w = Some i \/ In (Task i) (qitems (nth (wq w) (queues s) dq))).
Proof.
  intros c s j s' l w Hst Hj. unfold w_step in Hst. rewrite Hj in Hst. cbv zeta in Hst.
  destruct (wp w) eqn:Hpc; dall Hst; inversion Hst; subst; clear Hst; wnorm; unfold getq in *;
  (split; [rewrite ?ExecSafe.upd_length; reflexivity|]);
  (split; [first [ intros q it Hin; exact Hin
                 | apply items_upd_sub; cbn [qitems]; intros it Hin; first [exact Hin | apply in_tl; exact Hin] ]|]);
  eexists; (split; [reflexivity|]); (split; [reflexivity|]);
  intros ic Hic; unfold w_call in *; rewrite Hpc; cbn [wp] in Hic;
  first [ discriminate Hic | left; exact Hic | idtac ].
  right. inversion Hic; subst.
  unfold dq. match goal with E : qitems _ = Task _ :: _ |- _ => rewrite E; left; reflexivity end.
Qed.

(* the owner of a process that executes call i is waiting for the reply of call i *)
Lemma exec_owner_bi : forall c s k p i,
  BI c s -> nth_error (ps s) k = Some p -> In i (pexec p) ->
  exists j w, nth_error (ws s) j = Some w /\ wproc w = S k /\ wp w = WRecv i.
Proof.
  intros c s k p i HB Hp Hi.
  assert (Hkl : 1 <= S k <= length (ps s)).
  { assert (k < length (ps s)) by (apply nth_error_Some; congruence). lia. }
  destruct (B_ow4 _ _ HB (S k) Hkl) as (j & w & Hj & Sw & Hw).
  exists j, w. split; [exact Hj|]. split; [exact Hw|].
  pose proof (B_chan _ _ HB j w Hj) as Hc. rewrite Hw in Hc. unfold getp in Hc.
  replace (S k - 1) with k in Hc by lia.
  rewrite (ExecSafe.nth_error_nth' _ _ _ _ _ Hp) in Hc.
  unfold spawnedb in Sw. unfold pexec in Hi.
  destruct p as [pc ib ob]. cbn [pp] in Hi.
  unfold chanS, chan_ok, chan2, serving, quiet, p_idle, palive in Hc. cbn [pp inbox outbox] in Hc.
  destruct pc; simpl in Hi; try contradiction; destruct Hi as [Hi|[]]; subst;
    destruct (wp w); try discriminate Sw; simpl in Hc; try discriminate Hc;
    rewrite ?andb_true_r, ?orb_false_r, ?andb_false_r in Hc; try discriminate Hc;
    repeat (apply andb_true_iff in Hc; destruct Hc as [Hc _]);
    apply Nat.eqb_eq in Hc; subst; reflexivity.
Qed.

(* ================================================================== *)
(* the slot-accounting invariant, dispatcher on queue 1               *)
(* ================================================================== *)

Record CI (c : xcfg) (x : xstate) : Prop := mkCI {
  (* private queues: index >= 2, and never the queue the dispatcher is preparing *)
  C_ly : forall j w, nth_error (ws (base x)) j = Some w ->
           2 <= wq w /\ wq w + prep (disp x) < length (queues (base x));
  C_len : prep (disp x) = 1 -> 3 <= length (queues (base x));
  C_pq : forall i0, In (Task i0) (qitems (nth (length (queues (base x)) - 1) (queues (base x)) dq)) ->
           prep (disp x) = 1 -> dcall (disp x) = Some i0;
  (* a call held by a worker thread (or waiting in its private queue) whose future is not
     done is in the active table (and in the part of it still to be scanned) *)
  C_K : Kinv (queues (base x)) (ws (base x)) (futs (base x)) (active x) (disp x);
  C_K3 : forall i sl, In (i, sl) (active x) -> sl = xslots c i;
  C_cap : cap c (active x);
  C_start : forall i, disp x = DStart i -> must_wait c (active x) i = false;
  C_scan : forall i0 todo kept, disp x = DScan i0 todo kept -> sub_of (kept ++ todo) (active x)
}.

Lemma CI_init : forall c n prog, CI c (xinit n prog).
Proof.
  intros c n prog. constructor; unfold xinit, init; xfld.
  - intros j w Hj. destruct j; discriminate Hj.
  - intros E. discriminate E.
  - intros i0 _ E. discriminate E.
  - intros i (j & w & Hj & _). destruct j; discriminate Hj.
  - intros i sl [].
  - unfold cap. destruct (xmax_cores c); [simpl; lia|]. destruct (xmax_workers c); [simpl; lia|exact I].
  - intros i E. discriminate E.
  - intros i0 todo kept E. discriminate E.
Qed.

(* ---- the base state changes, dispatcher pc and active table stay ---- *)
Lemma ci_base : forall c x x',
  CI c x -> disp x' = disp x -> active x' = active x ->
  length (queues (base x)) <= length (queues (base x')) ->
  (forall j w', nth_error (ws (base x')) j = Some w' ->
                exists w, nth_error (ws (base x)) j = Some w /\ wq w' = wq w) ->
  (forall i, lh (queues (base x')) (ws (base x')) i -> lh (queues (base x)) (ws (base x)) i) ->
  (forall i, fdone (nth_f (futs (base x)) i) = true -> fdone (nth_f (futs (base x')) i) = true) ->
  (forall i0, prep (disp x) = 1 ->
     In (Task i0) (qitems (nth (length (queues (base x')) - 1) (queues (base x')) dq)) ->
     In (Task i0) (qitems (nth (length (queues (base x)) - 1) (queues (base x)) dq))) ->
  CI c x'.
Proof.
  intros c x x' [Hly Hlen Hpq HK HK3 Hcap Hst Hsc] Ed Ea Hl Hw Hlh Hf Hp.
  constructor; rewrite ?Ed, ?Ea; try assumption.
  - intros j w' Hj. destruct (Hw j w' Hj) as (w & Hj0 & Eq). rewrite Eq. destruct (Hly j w Hj0). lia.
  - intros E. specialize (Hlen E). lia.
  - intros i0 Hin E. apply Hpq; [apply Hp; assumption|exact E].
  - eapply Kinv_mono; [exact HK|exact Hlh|exact Hf].
Qed.

Lemma ws_same : forall (wl : list wthread) j w', nth_error wl j = Some w' ->
  exists w, nth_error wl j = Some w /\ wq w' = wq w.
Proof. intros wl j w' H. exists w'. split; [exact H|reflexivity]. Qed.

(* ---- only dispatcher pc / active table change ---- *)
Lemma ci_act : forall c x d' act' l',
  CI c x -> prep d' = prep (disp x) -> (prep d' = 1 -> dcall d' = dcall (disp x)) ->
  Kinv (queues (base x)) (ws (base x)) (futs (base x)) act' d' ->
  (forall i sl, In (i, sl) act' -> sl = xslots c i) ->
  cap c act' ->
  (forall i, d' = DStart i -> must_wait c act' i = false) ->
  (forall i0 todo kept, d' = DScan i0 todo kept -> sub_of (kept ++ todo) act') ->
  CI c (mkX (base x) d' act' l').
Proof.
  intros c x d' act' l' [Hly Hlen Hpq HK HK3 Hcap Hst Hsc] Hpr Hdc HK' HK3' Hcap' Hst' Hsc'.
  constructor; xfld; try assumption.
  - rewrite Hpr. exact Hly.
  - rewrite Hpr. exact Hlen.
  - intros i0 Hin E. rewrite (Hdc E). apply Hpq; [exact Hin|]. rewrite <- Hpr. exact E.
Qed.

Lemma ci_disp0 : forall c x d' l', CI c x -> prep d' = 0 -> CI c (mkX (base x) d' (active x) l').
Proof.
  intros c x d' l' [Hly Hlen Hpq HK HK3 Hcap Hst Hsc] Hp.
  constructor; xfld; try assumption.
  - intros j w Hj. destruct (Hly j w Hj). lia.
  - intros E. congruence.
  - intros i0 _ E. congruence.
  - eapply Kinv_noscan; [exact HK|]. intros i0 todo kept E. subst d'. discriminate Hp.
  - intros i E. subst d'. discriminate Hp.
  - intros i0 todo kept E. subst d'. discriminate Hp.
Qed.

Lemma ci_wq : forall c x j w, CI c x -> nth_error (ws (base x)) j = Some w ->
  wq w <> 0 /\ wq w <> 1 /\ wq w < length (queues (base x)) /\
  (prep (disp x) = 1 -> wq w <> length (queues (base x)) - 1).
Proof. intros c x j w H Hj. destruct (C_ly _ _ H j w Hj). repeat split; lia. Qed.

(* a queue below 2 is updated, the dispatcher moves to a pc outside the preparation phase *)
Lemma ci_updq : forall c x q new d' l',
  CI c x -> q < 2 -> prep d' = 0 ->
  CI c (mkX (mkS (upd (queues (base x)) q new) (futs (base x)) (subm (base x)) (main (base x)) (ops (base x))
                 (closed (base x)) (ws (base x)) (ps (base x)) (outs (base x))) d' (active x) l').
Proof.
  intros c x q new d' l' H Hq Hp.
  pose proof (ci_disp0 c x d' l' H Hp) as H1.
  eapply (ci_base c _ _ H1); xfld; try reflexivity.
  - rewrite ExecSafe.upd_length. lia.
  - apply ws_same.
  - intros i. apply lh_upd_other. intros j w Hj. destruct (ci_wq c x j w H Hj) as (F0 & F1 & _). lia.
  - tauto.
  - intros i0 E. congruence.
Qed.

Lemma ci_after_puts : forall c x dany act' l' i,
  CI c x -> prep (disp x) = 1 -> dcall (disp x) = Some i ->
  K1 (queues (base x)) (ws (base x)) (futs (base x)) act' ->
  (forall i0 sl, In (i0, sl) act' -> sl = xslots c i0) ->
  cap c act' ->
  CI c (after_puts c (mkX (base x) dany act' l') i).
Proof.
  intros c x dany act' l' i H Hpr Hdc HK HK3 Hcap.
  unfold after_puts, set_disp. xfld.
  destruct (must_wait c act' i) eqn:Hm.
  - destruct act' as [|e act2] eqn:Ea.
    + apply ci_act; try assumption; try (intros; discriminate).
      * rewrite Hpr. reflexivity.
      * intros _. rewrite Hdc. reflexivity.
      * apply K1_Kinv_noscan; [exact HK|intros; discriminate].
    + rewrite <- Ea in *. apply ci_act; try assumption; try (intros; discriminate).
      * rewrite Hpr. reflexivity.
      * intros _. rewrite Hdc. reflexivity.
      * apply K1_Kinv_start. exact HK.
      * intros i0 todo kept E. inversion E; subst. simpl. apply sub_of_refl.
  - apply ci_act; try assumption; try (intros; discriminate).
    + rewrite Hpr. reflexivity.
    + intros _. rewrite Hdc. reflexivity.
    + apply K1_Kinv_noscan; [exact HK|intros; discriminate].
    + intros i0 E. inversion E; subst. exact Hm.
Qed.

(* ---- the dispatcher, serving queue 1 ---- *)
Lemma CI_d_step : forall c x x' l,
  CI c x -> (disp x <> DNone -> 2 <= length (queues (base x))) ->
  d_step c 1 x = Some (x', l) -> CI c x'.
Proof.
  intros c x x' l H HQL Hst. unfold d_step in Hst. cbv zeta in Hst.
  destruct (disp x) as [| | |i|i|i todo kept|i|i| |k| | | |] eqn:Hd; try discriminate Hst.
  all: assert (HL : 2 <= length (queues (base x))) by (apply HQL; discriminate).
  - (* DBegin *) inversion Hst; subst; clear Hst. unfold set_disp. apply ci_disp0; [exact H|reflexivity].
  - (* DGet *)
    destruct (qitems (getq (base x) 1)) as [|it rest] eqn:Hq1; [discriminate Hst|]. unfold getq in Hq1.
    destruct it as [i|w]; inversion Hst; subst; clear Hst; unfold qpop, set_queues, getq; fld; rewrite Hq1; cbn [tl].
    + (* a task: new private queue *)
      destruct H as [Hly Hlen Hpq HK HK3 Hcap Hsta Hsc]. rewrite Hd in *.
      constructor; xfld; fld; try assumption.
      * intros j w Hj. destruct (Hly j w Hj). rewrite app_length, ExecSafe.upd_length. simpl. lia.
      * intros _. rewrite app_length, ExecSafe.upd_length. simpl. lia.
      * intros i0 Hin _. exfalso. rewrite app_length in Hin. simpl length in Hin. rewrite Nat.add_sub in Hin.
        rewrite app_nth2 in Hin by lia. rewrite Nat.sub_diag in Hin. simpl in Hin. exact Hin.
      * eapply Kinv_noscan; [|intros; discriminate]. eapply Kinv_mono; [exact HK| |tauto].
        intros i0 Hl. apply lh_snoc in Hl.
        -- eapply lh_upd_other; [|exact Hl]. intros j w Hj. destruct (Hly j w Hj). lia.
        -- intros j w Hj. rewrite ExecSafe.upd_length. destruct (Hly j w Hj). lia.
      * intros i0 E. discriminate E.
      * intros i0 todo kept E. discriminate E.
    + (* the shutdown message *)
      apply ci_updq; [exact H|lia|]. destruct w; [destruct (Nat.eqb (launched x) 0)|]; reflexivity.
  - (* DPutTask *)
    inversion Hst; subst; clear Hst. unfold qput, set_queues, getq. fld.
    destruct H as [Hly Hlen Hpq HK HK3 Hcap Hsta Hsc]. rewrite Hd in *. simpl prep in *. specialize (Hlen eq_refl).
    constructor; xfld; fld; simpl prep; try assumption.
    + intros j w Hj. rewrite ExecSafe.upd_length. apply (Hly j w Hj).
    + intros _. rewrite ExecSafe.upd_length. exact Hlen.
    + intros i0 Hin _. rewrite ExecSafe.upd_length in Hin. rewrite ExecSafe.nth_upd_same in Hin by lia. simpl in Hin.
      apply in_app_or in Hin. destruct Hin as [Hin|[Hin|[]]].
      * pose proof (Hpq i0 Hin eq_refl) as Hq. simpl in *. exact Hq.
      * inversion Hin. reflexivity.
    + eapply Kinv_noscan; [|intros; discriminate]. eapply Kinv_mono; [exact HK| |tauto].
      intros i0. apply lh_upd_other. intros j w Hj. destruct (Hly j w Hj). lia.
    + intros i0 E. discriminate E.
    + intros i0 todo kept E. discriminate E.
  - (* DPutShut *)
    inversion Hst; subst; clear Hst.
    assert (H1 : CI c (mkX (mkS (upd (queues (base x)) (length (queues (base x)) - 1)
                                     (mkQ (qitems (nth (length (queues (base x)) - 1) (queues (base x)) dq) ++ [Shut true])
                                          (S (qunf (nth (length (queues (base x)) - 1) (queues (base x)) dq)))))
                          (futs (base x)) (subm (base x)) (main (base x)) (ops (base x))
                          (closed (base x)) (ws (base x)) (ps (base x)) (outs (base x))) (DPutShut i) (active x) (launched x))).
    { destruct H as [Hly Hlen Hpq HK HK3 Hcap Hsta Hsc]. rewrite Hd in *. simpl prep in *. specialize (Hlen eq_refl).
      constructor; xfld; fld; simpl prep; try assumption.
      + intros j w Hj. rewrite ExecSafe.upd_length. apply (Hly j w Hj).
      + intros _. rewrite ExecSafe.upd_length. exact Hlen.
      + intros i0 Hin _. rewrite ExecSafe.upd_length in Hin. rewrite ExecSafe.nth_upd_same in Hin by lia. simpl in Hin.
        apply in_app_or in Hin. destruct Hin as [Hin|[Hin|[]]]; [|discriminate Hin].
        exact (Hpq i0 Hin eq_refl).
      + eapply Kinv_mono; [exact HK| |tauto].
        intros i0. apply lh_upd_other. intros j w Hj. destruct (Hly j w Hj). lia. }
    refine (ci_after_puts c _ (disp x) (active x) (launched x) i H1 eq_refl eq_refl _ _ _).
    + eapply Kinv_K1. apply (C_K _ _ H1).
    + apply (C_K3 _ _ H).
    + apply (C_cap _ _ H).
  - (* DScan *)
    destruct todo as [|[f sl] rest]; [discriminate Hst|].
    pose proof (C_K _ _ H) as HK. rewrite Hd in HK. apply Kinv_scan_step in HK.
    pose proof (C_scan _ _ H i _ _ Hd) as Hsub.
    apply (sub_of_step kept (f, sl) rest (active x) (fdone (nth_f (futs (base x)) f))) in Hsub.
    change (getf (base x) f) with (nth_f (futs (base x)) f) in Hst.
    destruct rest as [|e rest']; inversion Hst; subst; clear Hst.
    + (* end of the pass *)
      rewrite app_nil_r in Hsub.
      refine (ci_after_puts c x (disp x) _ (launched x) i H _ _ _ _ _).
      * rewrite Hd. reflexivity.
      * rewrite Hd. reflexivity.
      * intros i0 Hi Hdn. destruct (HK i0 Hi Hdn) as [_ H2]. specialize (H2 _ _ _ eq_refl).
        rewrite app_nil_r in H2. exact H2.
      * intros i0 sl0 Hin. apply (C_K3 _ _ H). destruct Hsub as (_ & _ & H3). apply H3. exact Hin.
      * eapply cap_sub; [apply (C_cap _ _ H)|exact Hsub].
    + unfold set_disp. apply ci_act; try assumption.
      * rewrite Hd. reflexivity.
      * rewrite Hd. reflexivity.
      * apply (C_K3 _ _ H).
      * apply (C_cap _ _ H).
      * intros i0 E. discriminate E.
      * intros i0 todo kept0 E. inversion E; subst. exact Hsub.
  - (* DStart *)
    inversion Hst; subst; clear Hst. unfold set_ws.
    pose proof (cap_start c (active x) i (C_cap _ _ H) (C_start _ _ H i Hd)) as Hcap'.
    destruct H as [Hly Hlen Hpq HK HK3 Hcap Hsta Hsc]. rewrite Hd in *. simpl prep in *. specialize (Hlen eq_refl).
    constructor; xfld; fld; simpl prep; try assumption.
    + intros j w Hj. apply ExecSafe.nth_error_snoc_inv in Hj as [[_ Hj]|[_ Hj]].
      * destruct (Hly j w Hj). lia.
      * subst w. simpl. lia.
    + intros E. discriminate E.
    + intros i0 _ E. discriminate E.
    + intros i0 (j & w & Hj & Hc) Hdone. split; [|intros i1 todo kept E; discriminate E].
      rewrite map_app. apply in_or_app.
      apply ExecSafe.nth_error_snoc_inv in Hj as [[_ Hj]|[_ Hj]].
      * left. destruct (HK i0) as [H1 _]; [exists j, w; split; assumption|exact Hdone|exact H1].
      * right. subst w. simpl in Hc. destruct Hc as [Hc|Hc]; [discriminate Hc|].
        specialize (Hpq i0 Hc eq_refl). simpl in Hpq. inversion Hpq. left. reflexivity.
    + intros i0 sl Hi. apply in_app_or in Hi. destruct Hi as [Hi|[Hi|[]]]; [eauto|]. inversion Hi. reflexivity.
    + intros i0 E. discriminate E.
    + intros i0 todo kept E. discriminate E.
  - (* DTd *) inversion Hst; subst; clear Hst. unfold qtd, set_queues, getq. fld.
    apply ci_updq; [exact H|lia|reflexivity].
  - (* DSJoin *)
    destruct (nth_error (ws (base x)) k) as [wt|]; [|discriminate Hst].
    destruct (wdone wt); [|discriminate Hst].
    destruct (wdead wt); [|destruct (Nat.eqb (S k) (launched x))]; inversion Hst; subst; clear Hst;
      unfold set_disp; apply ci_disp0; [exact H|reflexivity|exact H|reflexivity|exact H|reflexivity].
  - (* DSTd *) inversion Hst; subst; clear Hst. unfold qtd, set_queues, getq. fld.
    apply ci_updq; [exact H|lia|reflexivity].
  - (* DSQJoin *)
    destruct (Nat.eqb (qunf (getq (base x) 1)) 0); [|discriminate Hst]. inversion Hst; subst; clear Hst.
    unfold set_disp. apply ci_disp0; [exact H|reflexivity].
Qed.

(* ---- base changes that keep queues and threads ---- *)
Lemma ci_same : forall c x x',
  CI c x -> disp x' = disp x -> active x' = active x ->
  queues (base x') = queues (base x) -> ws (base x') = ws (base x) ->
  (forall i, fdone (nth_f (futs (base x)) i) = true -> fdone (nth_f (futs (base x')) i) = true) ->
  CI c x'.
Proof.
  intros c x x' H Ed Ea Eq Ew Hf.
  apply (ci_base c x x' H Ed Ea); rewrite ?Eq, ?Ew; try assumption.
  - lia.
  - apply ws_same.
  - tauto.
  - tauto.
Qed.

(* ---- worker threads ---- *)
Lemma CI_w_step : forall c cf x j b l,
  CI c x -> w_step cf (base x) j = Some (b, l) ->
  (forall i, fdone (nth_f (futs (base x)) i) = true -> fdone (nth_f (futs b) i) = true) ->
  CI c (set_base x b).
Proof.
  intros c cf x j b l H Hst Hf.
  destruct (nth_error (ws (base x)) j) as [w|] eqn:Hj; [|unfold w_step in Hst; rewrite Hj in Hst; discriminate Hst].
  destruct (w_step_q cf (base x) j b l w Hst Hj) as (Hlen & Hsub & w' & Hws & Hwq & Hcall).
  apply (ci_base c x (set_base x b) H); unfold set_base; xfld; try reflexivity; try assumption.
  - lia.
  - intros j2 w2 H2. rewrite Hws in H2.
    apply ExecSafe.nth_error_upd_inv in H2 as [(E1 & E2 & _)|(E1 & E2)].
    + subst. exists w. split; [exact Hj|exact Hwq].
    + exists w2. split; [exact E2|reflexivity].
  - intros i (j2 & w2 & H2 & Hc). rewrite Hws in H2.
    apply ExecSafe.nth_error_upd_inv in H2 as [(E1 & E2 & _)|(E1 & E2)].
    + subst j2 w2. exists j, w. split; [exact Hj|].
      destruct Hc as [Hc|Hc].
      * apply Hcall. exact Hc.
      * right. rewrite Hwq in Hc. apply Hsub. exact Hc.
    + exists j2, w2. split; [exact E2|]. destruct Hc as [Hc|Hc]; [left; exact Hc|right; apply Hsub; exact Hc].
  - intros i0 _ Hin. rewrite Hlen in Hin. apply Hsub. exact Hin.
Qed.

(* ---- worker processes ---- *)
Lemma p_step_same : forall c s k s' l, p_step c s k = Some (s', l) ->
  queues s' = queues s /\ ws s' = ws s.
Proof.
  intros c s k s' l H. unfold p_step in H. dall H; inversion H; subst; split; reflexivity.
Qed.

(* ---- the resolver ---- *)
Lemma r_step_q : forall c d d' l, r_step c d = Some (d', l) ->
  disp (xs d') = disp (xs d) /\ active (xs d') = active (xs d) /\ ws (dbase d') = ws (dbase d) /\
  (queues (dbase d') = queues (dbase d) \/
   exists q new, q < 2 /\ queues (dbase d') = upd (queues (dbase d)) q new).
Proof.
  intros c d d' l H. unfold r_step in H. cbv zeta in H.
  destruct (rp d); dall H; inversion H; subst; clear H; xsn; simpl;
  (split; [first [reflexivity|congruence]|]); (split; [reflexivity|]); (split; [reflexivity|]);
  first [ left; reflexivity
        | right; unfold qpop, qput, qtd, set_queues; fld; eexists; eexists; split; [|reflexivity]; lia ].
Qed.

Lemma CI_r_step : forall c d d' l,
  CI (dx c) (xs d) -> r_step c d = Some (d', l) ->
  (forall i, fdone (nth_f (futs (dbase d)) i) = true -> fdone (nth_f (futs (dbase d')) i) = true) ->
  CI (dx c) (xs d').
Proof.
  intros c d d' l H Hst Hf. unfold dbase in *.
  destruct (r_step_q _ _ _ _ Hst) as (Ed & Ea & Ew & Hq). unfold dbase in *.
  destruct Hq as [Eq|(q & new & Hq & Eq)].
  - eapply ci_same; eauto.
  - apply (ci_base (dx c) (xs d) (xs d') H Ed Ea); rewrite ?Eq, ?Ew, ?ExecSafe.upd_length; try assumption.
    + lia.
    + apply ws_same.
    + intros i. apply lh_upd_other. intros j w Hj. destruct (ci_wq _ _ j w H Hj) as (F0 & F1 & _). lia.
    + intros i0 Hp Hin. pose proof (C_len _ _ H Hp) as L3.
      rewrite ExecSafe.nth_upd_other in Hin by lia. exact Hin.
Qed.

(* ---- the client ---- *)
Lemma xm_norm_da : forall x, disp (xm_norm x) = disp x /\ active (xm_norm x) = active x.
Proof.
  intros x. unfold xm_norm. cbv zeta.
  destruct (main (base x)) as [| | | | | |w k|k| |]; try (split; reflexivity).
  - destruct k; [|split; reflexivity]. destruct (cur_wait (base x)); split; reflexivity.
  - destruct k; split; reflexivity.
Qed.

Lemma xm_step_da : forall c x x' l, xm_step c x = Some (x', l) ->
  (forall k, main (base x) <> MStart k) -> disp x' = disp x /\ active x' = active x.
Proof.
  intros c x x' l H Hn. unfold xm_step in H. cbv zeta in H.
  destruct (main (base x)) eqn:Hm; try (exfalso; eapply Hn; reflexivity);
  dall H; inversion H; subst; clear H;
  first [ split; reflexivity
        | match goal with |- disp (xm_norm ?y) = _ /\ _ => destruct (xm_norm_da y) as [A B]; rewrite A, B; split; reflexivity end
        | split; [simpl; congruence|reflexivity] ].
Qed.

Lemma CI_xm_step : forall c x x' l,
  CI c x -> xm_step c x = Some (x', l) -> (forall k, main (base x) <> MStart k) ->
  (forall i, fdone (nth_f (futs (base x)) i) = true -> fdone (nth_f (futs (base x')) i) = true) ->
  CI c x'.
Proof.
  intros c x x' l H Hst Hn Hf.
  destruct (xm_step_da _ _ _ _ Hst Hn) as [Ed Ea].
  destruct (xm_step_eff _ _ _ _ Hst) as ((Ews & Eps & Elq & Enq) & _).
  apply (ci_base c x x' H Ed Ea); rewrite ?Ews, ?Elq; try assumption.
  - lia.
  - apply ws_same.
  - intros i (j & w & Hj & Hc). exists j, w. split; [exact Hj|].
    destruct Hc as [Hc|Hc]; [left; exact Hc|right].
    destruct (ci_wq _ _ j w H Hj) as (F0 & _). rewrite Enq in Hc by exact F0. exact Hc.
  - intros i0 Hp Hin. pose proof (C_len _ _ H Hp) as L3. rewrite Enq in Hin by lia. exact Hin.
Qed.

Lemma CI_dm_step : forall c d d' l,
  dinner c = IStep -> CI (dx c) (xs d) -> dm_step c d = Some (d', l) ->
  (forall i, fdone (nth_f (futs (dbase d)) i) = true -> fdone (nth_f (futs (dbase d')) i) = true) ->
  CI (dx c) (xs d').
Proof.
  intros c d d' l Hin H Hst Hf. unfold dm_step in Hst. cbv zeta in Hst. rewrite Hin in Hst. unfold dbase in *.
  assert (Hxm : (forall k, main (base (xs d)) <> MStart k) ->
      match xm_step (dx c) (xs d) with Some (x', l0) => Some (set_xs d x', l0) | None => None end = Some (d', l) ->
      CI (dx c) (xs d')).
  { intros Hn Hx. destruct (xm_step (dx c) (xs d)) as [[x' l0]|] eqn:Hxs; [|discriminate Hx].
    inversion Hx; subst. simpl in *. eapply CI_xm_step; eauto. }
  destruct (main (base (xs d))) eqn:Hm; try (apply Hxm; [intros k0; discriminate|exact Hst]).
  - (* MBegin: the inner executor's queue is created *)
    inversion Hst; subst; clear Hst. simpl in *.
    apply (ci_base (dx c) (xs d) _ H); unfold set_base; xfld; unfold set_main, set_queues; fld;
      try reflexivity; try assumption.
    + rewrite app_length. lia.
    + apply ws_same.
    + intros i. apply lh_snoc. intros j w Hj. destruct (ci_wq _ _ j w H Hj) as (_ & _ & F & _). exact F.
    + intros i0 _ Hi. exfalso. rewrite app_length in Hi. simpl length in Hi. rewrite Nat.add_sub in Hi.
      rewrite app_nth2 in Hi by lia. rewrite Nat.sub_diag in Hi. simpl in Hi. exact Hi.
  - (* MStart *)
    destruct k; inversion Hst; subst; clear Hst; simpl in *.
    + (* the dispatcher thread is started *)
      pose proof (ci_disp0 (dx c) (xs d) DBegin (launched (xs d)) H eq_refl) as H1.
      eapply (ci_same (dx c) _ _ H1); try reflexivity. exact Hf.
    + eapply (ci_same (dx c) _ _ H); unfold set_base; xfld; try reflexivity.
      * apply ExecSafe.m_goto_queues.
      * apply ExecSafe.m_goto_ws.
      * exact Hf.
  - (* MJoin *)
    destruct (rdone (rp d)); [|discriminate Hst].
    destruct (rp d); inversion Hst; subst; clear Hst; simpl in *;
    (eapply (ci_same (dx c) _ _ H); unfold set_base; xfld; try reflexivity;
     first [apply ExecSafe.m_done_queues | apply ExecSafe.m_done_ws | exact Hf]).
Qed.

Lemma CI_dstep : forall c n d t d' l,
  dinner c = IStep -> Inv4 c n d -> dstep c d t = Some (d', l) ->
  CI (dx c) (xs d) -> CI (dx c) (xs d').
Proof.
  intros c n d t d' l Hin HI Hst H.
  assert (Hf : forall i, fdone (nth_f (futs (dbase d)) i) = true -> fdone (nth_f (futs (dbase d')) i) = true).
  { apply fle_fdone. eapply dstep_futs_le; exact Hst. }
  destruct t as [| | |j|k]; simpl in Hst.
  - eapply CI_dm_step; eauto.
  - eapply CI_r_step; eauto.
  - rewrite Hin in Hst.
    destruct (d_step (dx c) 1 (xs d)) as [[x' l']|] eqn:Hd; [|discriminate Hst].
    inversion Hst; subst; clear Hst. simpl.
    eapply CI_d_step; [exact H| |exact Hd].
    intros Hne. destruct HI as ((_ & _ & _ & _ & (HL1 & HL2) & _) & _). unfold dbase in *.
    destruct HL2 as [[_ E]|HL2]; [contradiction|exact HL2].
  - destruct j as [|j]; [discriminate Hst|].
    destruct (w_step (bcfg (dx c)) (dbase d) j) as [[b l']|] eqn:Hw; [|discriminate Hst].
    inversion Hst; subst; clear Hst. unfold dbase in *. simpl in *.
    eapply CI_w_step; [exact H|exact Hw|exact Hf].
  - destruct (p_step (bcfg (dx c)) (dbase d) k) as [[b l']|] eqn:Hp; [|discriminate Hst].
    inversion Hst; subst; clear Hst. unfold dbase in *. simpl in *.
    destruct (p_step_same _ _ _ _ _ Hp) as [Eq Ew].
    eapply (ci_same (dx c) _ _ H); unfold set_base; xfld; try reflexivity; assumption.
Qed.

Lemma CI_dreach : forall c n prog d,
  dinner c = IStep -> wf_prog n prog -> dreach c (dinit n prog) d -> CI (dx c) (xs d).
Proof.
  intros c n prog d Hin Hwf Hr. induction Hr as [|d t d' l Hr IH Hst].
  - apply CI_init.
  - eapply CI_dstep; [exact Hin|eapply Inv4_reach; [exact Hwf|exact Hr]|exact Hst|exact IH].
Qed.

(* ================================================================== *)
(* executing calls are Running, active, and pairwise distinct         *)
(* ================================================================== *)

Section Ceiling.
  Variables (c : dcfg) (n : nat) (prog : list op) (d : dstate).
  Hypothesis Hin : dinner c = IStep.
  Hypothesis Hwf : wf_prog n prog.
  Hypothesis Hr : dreach c (dinit n prog) d.

  Lemma dep_exec_running : forall i, In i (executing (xs d)) -> getf (dbase d) i = FRunning.
  Proof.
    intros i Hi. rewrite executing_eq in Hi. apply in_flat_map in Hi. destruct Hi as (p & Hp & Hi).
    apply In_nth_error in Hp. destruct Hp as [k Hp].
    pose proof (BI_dreach c n prog d Hwf Hr) as HB.
    pose proof (Inv4_reach c n prog d Hwf Hr) as (_ & _ & _ & (HO & _)).
    destruct (exec_owner_bi _ _ k p i HB Hp Hi) as (j & w & Hj & _ & Hpc).
    assert (Hown : wown w = Some i) by (unfold wown; rewrite Hpc; reflexivity).
    unfold getf. apply isrun_inv. exact (HO w i (nth_error_In _ _ Hj) Hown).
  Qed.

  Lemma dep_exec_in_active : forall i, In i (executing (xs d)) -> In (i, xslots (dx c) i) (active (xs d)).
  Proof.
    intros i Hi. pose proof (dep_exec_running i Hi) as Hf.
    rewrite executing_eq in Hi. apply in_flat_map in Hi. destruct Hi as (p & Hp & Hi).
    apply In_nth_error in Hp. destruct Hp as [k Hp].
    pose proof (BI_dreach c n prog d Hwf Hr) as HB.
    pose proof (CI_dreach c n prog d Hin Hwf Hr) as HC.
    destruct (exec_owner_bi _ _ k p i HB Hp Hi) as (j & w & Hj & _ & Hpc).
    destruct (C_K _ _ HC i) as [HinA _].
    - exists j, w. split; [exact Hj|]. left. unfold w_call. rewrite Hpc. reflexivity.
    - unfold nth_f. unfold getf, dbase in Hf. rewrite Hf. reflexivity.
    - apply in_map_iff in HinA. destruct HinA as ([i' sl] & E & HinA). simpl in E. subst i'.
      rewrite <- (C_K3 _ _ HC i sl HinA). exact HinA.
  Qed.

  Lemma dep_exec_nodup : NoDup (executing (xs d)).
  Proof.
    pose proof (BI_dreach c n prog d Hwf Hr) as HB.
    pose proof (Inv4_reach c n prog d Hwf Hr) as (_ & _ & _ & (_ & HO2 & _)).
    rewrite executing_eq. apply flat_map_nodup.
    intros k1 k2 p1 p2 i Hne H1 H2 Hi1 Hi2.
    destruct (exec_owner_bi _ _ k1 p1 i HB H1 Hi1) as (j1 & w1 & Hj1 & Hw1 & Hpc1).
    destruct (exec_owner_bi _ _ k2 p2 i HB H2 Hi2) as (j2 & w2 & Hj2 & Hw2 & Hpc2).
    assert (Hjne : j1 <> j2).
    { intro E. subst j2. unfold dbase in *. rewrite Hj1 in Hj2. inversion Hj2; subst. lia. }
    apply (HO2 j1 j2 w1 w2 i Hjne Hj1 Hj2); unfold wown; [rewrite Hpc1|rewrite Hpc2]; reflexivity.
  Qed.
End Ceiling.

(* (1) the slots of the calls being executed never exceed max_cores *)
Theorem dep_ceiling_cores : forall c n prog d m,
  dinner c = IStep -> wf_prog n prog -> wf_deps c n -> xmax_cores (dx c) = Some m ->
  dreach c (dinit n prog) d -> exec_slots (dx c) (xs d) <= m.
Proof.
  intros c n prog d m Hin Hwf _ Hm Hr.
  pose proof (C_cap _ _ (CI_dreach c n prog d Hin Hwf Hr)) as Hc. unfold cap in Hc. rewrite Hm in Hc.
  unfold exec_slots.
  pose proof (sum_le_active (xslots (dx c)) (executing (xs d)) (active (xs d))
                (dep_exec_nodup c n prog d Hwf Hr)
                (fun i Hi => dep_exec_in_active c n prog d Hin Hwf Hr i Hi)) as Hle.
  lia.
Qed.
Print Assumptions dep_ceiling_cores.

(* (2) without max_cores: the number of calls being executed never exceeds max_workers *)
Theorem dep_ceiling_workers : forall c n prog d m,
  dinner c = IStep -> wf_prog n prog -> wf_deps c n ->
  xmax_cores (dx c) = None -> xmax_workers (dx c) = Some m ->
  dreach c (dinit n prog) d -> length (executing (xs d)) <= m.
Proof.
  intros c n prog d m Hin Hwf _ Hn Hm Hr.
  pose proof (C_cap _ _ (CI_dreach c n prog d Hin Hwf Hr)) as Hc. unfold cap in Hc. rewrite Hn, Hm in Hc.
  assert (Hle : length (executing (xs d)) <= length (active (xs d))).
  { apply len_le_active; [apply (dep_exec_nodup c n prog d Hwf Hr)|].
    intros i Hi. apply in_map_iff. exists (i, xslots (dx c) i). split; [reflexivity|].
    apply (dep_exec_in_active c n prog d Hin Hwf Hr i Hi). }
  lia.
Qed.
Print Assumptions dep_ceiling_workers.
