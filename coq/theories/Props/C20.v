(* C20 — plot mode.  Model/Plot.v (hand-written from interactive/executor.py submit/__exit__ and
   standalone/plot.py; compared with the graph the real code produces on every run). *)
From Coq Require Import List Bool Arith String.
From EL Require Import Model.Plot Proofs.PlotProofs.
Import ListNotations.
Local Open Scope string_scope.

(* REFUTED for repeated identical calls (finding D15): one box for two calls ... *)
Theorem C20_refuted_identical_calls_share_a_box :
  let calls := [mkPC "f" [AVal 1] []; mkPC "f" [AVal 1] []] in
  match graph calls with Some g => count_boxes g = 1 | None => False end.
Proof. exact identical_calls_one_box. Qed.
Print Assumptions C20_refuted_identical_calls_share_a_box.

(* ... and a later use of the first future raises KeyError *)
Theorem C20_refuted_displaced_future :
  graph [mkPC "f" [AVal 1] []; mkPC "f" [AVal 1] []; mkPC "g" [AFut 1] []] = None.
Proof. exact displaced_future_keyerror. Qed.
Print Assumptions C20_refuted_displaced_future.
