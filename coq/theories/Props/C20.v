(* C20 — plot mode.  Model/Plot.v (hand-written from interactive/executor.py submit/__exit__ and
   standalone/plot.py; compared with the graph the real code produces on every run). *)
From Coq Require Import List Bool Arith String.
From EL Require Import Model.Plot Proofs.PlotProofs.
Import ListNotations.
Local Open Scope string_scope.

(* REFUTED for repeated identical calls (finding D15): one box for two calls ... *)
Theorem C20_refuted_identical_calls_share_a_box :
  let calls := [mkPC "f" [AVal 1] []; mkPC "f" [AVal 1] []] in
  match graph calls with Some g => count_boxes g = 1 | None => False end.
Proof. exact identical_calls_one_box. Qed.
Print Assumptions C20_refuted_identical_calls_share_a_box.

(* ... and a later use of the first future raises KeyError *)
Theorem C20_refuted_displaced_future :
  graph [mkPC "f" [AVal 1] []; mkPC "f" [AVal 1] []; mkPC "g" [AFut 1] []] = None.
Proof. exact displaced_future_keyerror. Qed.
Print Assumptions C20_refuted_displaced_future.

(* the positive half: for every program whose calls are pairwise distinct (no two equal hashes) and
   whose future arguments refer to earlier calls, the graph handed to the drawing routine has
   exactly one box per submitted call and one incoming edge per argument (one per element for a
   list consisting only of futures, one value node and edge otherwise) *)
From EL Require Import Proofs.PlotGeneral.
Theorem C20_partial_graph_of_distinct_calls :
  forall calls hs,
    calls_ok calls 0 = true -> hashes calls [] = Some hs -> NoDup hs ->
    exists g, graph calls = Some g
              /\ count_boxes g = spec_boxes calls
              /\ List.length (snd g) = spec_edges calls.
Proof. exact graph_of_distinct_calls. Qed.
Print Assumptions C20_partial_graph_of_distinct_calls.
