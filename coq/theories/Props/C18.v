(* C18 — multi-core calls: one invocation per rank, results gathered in rank order, exactly
   one reply.  Statements only. *)
From Coq Require Import ZArith String List Bool.
From EL Require Import Base.Dec Base.PyLib Model.Worker Model.Grammar Proofs.C16Proofs Proofs.C18Proofs.
From EL Require Import Gen.WorkerParallel Gen.SharedPath Gen.Spawner Gen.CacheCmd Gen.CacheParallel Gen.CacheBackend.
Import ListNotations.
Local Open Scope string_scope.
Local Open Scope list_scope.

(* all n >= 2, all per-rank memories, all requests, all per-rank outcomes [out r]: the loop body
   regenerated from interactive_parallel.py, run on every rank with MPI's bcast/gather, makes
   rank 0 send exactly one reply holding [out 0; out 1; ...; out (n-1)], makes no other rank
   send anything, and changes no memory *)
Theorem C18_gather_order :
  forall n app mems f a k (out : nat -> pyval),
    2 <= n ->
    (forall r, r < n -> app r (mems r) (to_py (RCall f a k)) = Ok (out r)) ->
    par_step wstep_rank n app mems (to_py (RCall f a k))
    = Ok (List.map (fun r => VTuple [mems r;
                                     VList (if Nat.eqb r 0 then [reply_ok (VList (List.map out (ranks n)))] else []);
                                     VBool false]) (ranks n)).
Proof. exact par_call. Qed.
Print Assumptions C18_gather_order.

Theorem C18_exactly_one_reply :
  forall n (out : nat -> pyval),
    1 <= n ->
    List.length (List.concat (List.map (fun r => replies_of (VTuple [VNone;
        VList (if Nat.eqb r 0 then [reply_ok (VList (List.map out (ranks n)))] else []); VBool false])) (ranks n))) = 1.
Proof. exact one_reply. Qed.
Print Assumptions C18_exactly_one_reply.

Theorem C18_shutdown_one_ack :
  forall n app mems w,
    par_step wstep_rank n app mems (to_py (RShutdown w))
    = Ok (List.map (fun r => VTuple [mems r; VList (if Nat.eqb r 0 then [ack] else []); VBool true]) (ranks n)).
Proof. exact par_shutdown. Qed.
Print Assumptions C18_shutdown_one_ack.

Theorem C18_init_every_rank :
  forall n app mems f (m : nat -> pyval),
    (forall r, r < n -> app r VNone (to_py (RInit f)) = Ok (m r)) ->
    par_step wstep_rank n app mems (to_py (RInit f))
    = Ok (List.map (fun r => VTuple [m r; VList []; VBool false]) (ranks n)).
Proof. exact par_init. Qed.
Print Assumptions C18_init_every_rank.

(* the parallel backend script and the mpiexec prefix are chosen exactly when cores > 1 *)
Theorem C18_parallel_script_iff_multicore :
  forall exe ppar pser cores,
    _get_backend_path (VStr exe) (VBool true) (VStr ppar) (VStr pser) (VInt cores)
    = Ok (strs [exe; if (cores >? 1)%Z then ppar else pser]).
Proof. intros. rewrite backend_path_shape. destruct (cores >? 1)%Z; reflexivity. Qed.
Print Assumptions C18_parallel_script_iff_multicore.

Theorem C18_mpiexec_ranks :
  forall cores over,
    generate_mpiexec_command (VInt cores) (VBool over) = Ok (strs (mpi_prefix cores over)).
Proof. exact mpiexec_shape. Qed.
Print Assumptions C18_mpiexec_ranks.

Theorem C18_file_mode_command :
  forall exe ppar pser file cores,
    (cores >? 1)%Z = true ->
    _get_execute_command (VStr exe) (VBool true) (VStr ppar) (VStr pser) (VStr file) (VInt cores)
    = Ok (strs (["mpiexec"; "-n"; dec cores] ++ [exe; ppar; file])).
Proof. intros. rewrite execute_command_shape. rewrite H. reflexivity. Qed.
Print Assumptions C18_file_mode_command.

(* file mode, body of backend/cache_parallel.py regenerated from the source and run on every rank
   with MPI's bcast/gather: for all n >= 2, all task dictionaries and all per-rank outcomes, rank 0
   hands exactly one value to backend_write_file - the list [out 0; ...; out (n-1)] in rank order -
   and no other rank writes anything *)
Theorem C18_file_mode_gather_order :
  forall n app loaded (out : nat -> pyval),
    2 <= n ->
    (forall r, r < n -> app r loaded = Ok (out r)) ->
    file_par file_rank n app loaded
    = Ok (List.map (fun r => VTuple [VList (if Nat.eqb r 0 then [VList (List.map out (ranks n))] else [])]) (ranks n)).
Proof. exact file_par_call. Qed.
Print Assumptions C18_file_mode_gather_order.

(* the function raises on rank 0: nothing is handed to backend_write_file *)
Theorem C18_file_mode_raise_writes_nothing :
  forall n app loaded e, 1 <= n -> app 0 loaded = Err e -> file_par file_rank n app loaded = Err e.
Proof. exact file_par_raises. Qed.
Print Assumptions C18_file_mode_raise_writes_nothing.

(* the serial file worker (cache/backend.py:backend_execute_task_in_file, regenerated): exactly one
   write, of exactly the function's value; none when the function raises *)
Theorem C18_file_mode_serial_one_write :
  forall apply loaded v, apply VNone loaded = Ok v -> file_serial apply loaded = Ok (VTuple [VList [v]]).
Proof. exact file_serial_ok. Qed.
Print Assumptions C18_file_mode_serial_one_write.

Theorem C18_file_mode_serial_raise_writes_nothing :
  forall apply loaded e, apply VNone loaded = Err e -> file_serial apply loaded = Err e.
Proof. exact file_serial_raises. Qed.
Print Assumptions C18_file_mode_serial_raise_writes_nothing.

Example C18_file_example :
  file_par file_rank 3 (fun r _ => Ok (VInt (Z.of_nat r))) VNone
  = Ok [VTuple [VList [VList [VInt 0; VInt 1; VInt 2]]]; VTuple [VList []]; VTuple [VList []]].
Proof. vm_compute. reflexivity. Qed.

Example C18_example :
  par_step wstep_rank 3 (fun r _ _ => Ok (VInt (Z.of_nat r))) (fun _ => VNone) (to_py (RCall VNone VNone VNone))
  = Ok [VTuple [VNone; VList [reply_ok (VList [VInt 0; VInt 1; VInt 2])]; VBool false];
        VTuple [VNone; VList []; VBool false]; VTuple [VNone; VList []; VBool false]].
Proof. vm_compute. reflexivity. Qed.
