(* C19 — fail fast.  Statements about the constructor dispatch regenerated from executorlib/__init__.py,
   interactive/executor.py, cache/executor.py and standalone/inputcheck.py (Gen.ConfigTop etc.).
   The property as a whole is REFUTED on the pinned code (findings D14a/c/d, D19): the theorems below
   are the rejections that do hold (for all values of the remaining options), plus two theorems that
   exhibit accepted-but-unsatisfiable regions in closed form; that an accepted configuration runs is
   checked on the real code under the simulator, region by region. *)
From Coq Require Import ZArith String List Bool.
From EL Require Import Base.Dec Base.PyLib Proofs.DictFacts Proofs.C19Proofs Gen.InputCheck Gen.ConfigInter Gen.ConfigFile Gen.ConfigTop Gen.BaseExec.
Import ListNotations.
Local Open Scope string_scope.

Theorem C19_init_function_needs_block_allocation :
  forall cpu mw mc hl f backend,
    is_none f = false -> (backend = "local" \/ backend = "slurm_allocation") ->
    direct cpu mw (VStr backend) mc VNone hl (VBool false) f = Err "ValueError".
Proof. exact init_function_refused. Qed.
Print Assumptions C19_init_function_needs_block_allocation.

Theorem C19_unknown_backend_refused :
  forall cpu mw mc hl block, direct cpu mw (VStr "bogus") mc VNone hl block VNone = Err "ValueError".
Proof. exact unknown_backend_refused. Qed.
Print Assumptions C19_unknown_backend_refused.

Theorem C19_local_backend_refuses_gpus :
  forall cpu mw mc hl block g,
    (g =? 0)%Z = false ->
    direct cpu mw (VStr "local") mc (VDict [(VStr "gpus_per_core", VInt g)]) hl block VNone = Err "TypeError".
Proof. exact local_gpus_refused. Qed.
Print Assumptions C19_local_backend_refuses_gpus.

(* plot_dependency_graph=True needs the dependency resolver: with disable_dependencies=True the
   constructor refuses - whatever backend, limits, cache directory, block allocation, init function -
   instead of handing out an executor that would execute the calls (C20) *)
Theorem C19_plot_without_dependencies_refused :
  forall rr cpu mw b cd mc hl block f,
    Executor_new rr cpu VNone mw (VStr b) cd mc VNone VNone VNone (VBool false) VNone hl block f
                 (VBool true) FLOAT (VBool true) = Err "ValueError".
Proof. exact plot_without_dependencies_refused. Qed.
Print Assumptions C19_plot_without_dependencies_refused.

Theorem C19_submission_refuses_block_allocation :
  forall rr cpu mw mc hl f backend dd,
    (backend = "slurm_submission" \/ backend = "flux_submission") ->
    Executor_new rr cpu VNone mw (VStr backend) VNone mc VNone VNone VNone (VBool false) VNone hl (VBool true) f dd FLOAT (VBool false)
    = Err "ValueError".
Proof. exact submission_block_refused. Qed.
Print Assumptions C19_submission_refuses_block_allocation.

Theorem C19_block_allocation_needs_a_limit :
  forall cpu hl, direct cpu VNone (VStr "slurm_allocation") VNone VNone hl (VBool true) VNone = Err "ValueError".
Proof. exact slurm_block_needs_limit. Qed.
Print Assumptions C19_block_allocation_needs_a_limit.

(* refutation witnesses in closed form: block allocation is built with exactly the given number
   of workers — also for 0 — and with max_cores / cores workers (truncated) — also when that is 0 *)
Theorem C19_refuted_any_worker_count_accepted :
  forall cpu n hl,
    workers_of (direct cpu (VInt n) (VStr "local") VNone VNone hl (VBool true) VNone) = Some (VInt n).
Proof. exact block_local_workers_given. Qed.
Print Assumptions C19_refuted_any_worker_count_accepted.

Theorem C19_refuted_workers_from_cores :
  forall cpu mc c hl,
    (c =? 0)%Z = false ->
    workers_of (direct cpu VNone (VStr "local") (VInt mc) (VDict [(VStr "cores", VInt c)]) hl (VBool true) VNone)
    = Some (VInt (mc ÷ c)).
Proof. exact block_local_workers_from_cores. Qed.
Print Assumptions C19_refuted_workers_from_cores.

Example C19_zero_workers :
  workers_of (direct (VInt 8) VNone (VStr "local") (VInt 1) (VDict [(VStr "cores", VInt 2)]) VNone (VBool true) VNone)
  = Some (VInt 0).
Proof. vm_compute. reflexivity. Qed.

(* the submit-time check (ExecutorBase.submit): requests above the executor's limit are refused,
   for every limit — zero included — and every request ... *)
Theorem C19_submit_refuses_oversized_request :
  forall rd c m,
    DictFacts.assoc "cores" rd = Some (VInt c) -> (c >? m)%Z = true ->
    submit_cores_check (self_with (VInt m)) (DictFacts.sdict rd) = Err "ValueError".
Proof. exact submit_check_rejects. Qed.
Print Assumptions C19_submit_refuses_oversized_request.

(* ... but only where the executor carries a limit: REFUTED in general — without _max_cores
   (every executor created with disable_dependencies=True) the check is inert (finding D14c) *)
Theorem C19_refuted_submit_check_inert :
  forall rd, submit_cores_check (self_with VNone) (DictFacts.sdict rd) = Ok (VTuple [DictFacts.sdict rd]).
Proof. exact submit_check_inert_without_limit. Qed.
Print Assumptions C19_refuted_submit_check_inert.

(* an accepted request is admitted by the dispatcher's guards exactly as the limits say (the
   regenerated wait-loop tests, Gen.SharedRes): a worker limit counts calls, never cores or
   threads, so every request passes it once fewer than max_workers calls are active; a core
   limit compares the sum of the active slots plus the request *)
From EL Require Proofs.C10Proofs Gen.SharedRes.
Theorem C19_worker_limit_counts_calls :
  forall (act : list (pyval * pyval)) m,
    SharedRes.wait_guard_workers (VDict act) (VInt m) = Ok (VBool (Z.gtb (Z.of_nat (List.length act) + 1) m)).
Proof. exact C10Proofs.guard_workers. Qed.
Print Assumptions C19_worker_limit_counts_calls.

Theorem C19_core_limit_sums_slots :
  forall (act : list (pyval * Z)) r m,
    SharedRes.wait_guard_cores (VDict (List.map (fun p => (fst p, VInt (snd p))) act)) (VInt r) (VInt m)
    = Ok (VBool (Z.gtb (List.fold_right (fun p acc => (snd p + acc)%Z) 0%Z act + r) m)).
Proof. exact C10Proofs.guard_cores. Qed.
Print Assumptions C19_core_limit_sums_slots.

(* ---- REFUTED on the code as it is: witnesses by computation on the executable models
   (Proofs/Refute.v); each is a recorded finding (KNOWN_FINDINGS.txt) ---- *)
From EL Require Model.Exec Model.ExecInv Model.StepExec Model.FileExec Model.FileSpec Model.CacheExec Proofs.FileSafe Proofs.FileRefute Proofs.CacheSafe Proofs.Refute.
Module RefutedC19.
Import Exec ExecInv StepExec FileExec FileSpec CacheExec FileSafe FileRefute CacheSafe Refute.
Import ListNotations.

(* finding D14c: a per-call request that can never be satisfied (2 slots, max_cores = 1) is accepted; the dispatcher sits in its wait loop with nothing to wait for and shutdown(wait=True) blocks *)
Theorem C19_refuted_oversized_request_accepted_then_spins :
  xmax_cores d14_cfg = Some 1 /\ xslots d14_cfg 1 = 2
  /\ xrun d14_cfg d14_sched1 d14_init = Some d14_x1
  /\ disp d14_x1 = DSpin 1 /\ active d14_x1 = []                      (* waiting, nothing to wait for *)
  /\ xstep d14_cfg d14_x1 TD = None
  /\ getf (base d14_x1) 1 = FPending
  /\ ws (base d14_x1) = [] /\ launched d14_x1 = 0                     (* no worker was ever started *)
  /\ xenabled d14_cfg d14_x1 = [TM]
  /\ xreach d14_cfg d14_init d14_x1
  /\ xstep d14_cfg d14_x1 TM = Some (d14_x2, LPut 0 (Shut true))
  /\ xenabled d14_cfg d14_x2 = []                                     (* nothing can move *)
  /\ main (base d14_x2) = MJoin 0                                     (* the client: in join of D *)
  /\ ops (base d14_x2) = [OShutdown true false; ODrop]
  /\ main (base d14_x2) <> MEnd
  /\ disp d14_x2 = DSpin 1 /\ getf (base d14_x2) 1 = FPending
  /\ xreach d14_cfg d14_init d14_x2.
Proof. exact percall_oversized_request_spins. Qed.
Print Assumptions C19_refuted_oversized_request_accepted_then_spins.
End RefutedC19.
