(* C14 — crash atomicity of the cache directory.  Persistence protocol model (Model/CacheFs.v);
   the writers' operation lists are compared with the persistence points of the real code on every
   run; proofs in Proofs/CacheProofs.v. *)
From Coq Require Import List Bool Arith.
From EL Require Import Model.CacheFs Proofs.CacheProofs.
Import ListNotations.

(* file mode, the worker process (cache/backend.backend_write_file): at EVERY crash point k — the
   process is killed after k of its persistence operations, whatever staging file an earlier
   crash left behind — a file that a later run would accept as a result (exists under the final
   suffix and has an output dataset) is complete *)
Theorem C14_file_worker_publishes_atomically :
  forall (fin : file) (leftover : option file) (k : nat),
    in_complete fin = true ->
    let e := apply_ops (mkE (Some fin) leftover None) (firstn k worker_ops) in
    accepted_file_mode e = true -> match f_out e with Some f => complete f = true | None => False end.
Proof. exact worker_publish_atomic. Qed.
Print Assumptions C14_file_worker_publishes_atomically.

(* file mode, the submitting process (execute_tasks_h5): at every crash point while it writes the
   input file nothing becomes visible under the final suffix (with or without a stale input file) *)
Theorem C14_submit_side_never_publishes :
  forall (e0 : entry) (stale : bool) (k : nat),
    f_out e0 = None -> f_out (apply_ops e0 (firstn k (submit_ops stale))) = None.
Proof. exact submit_never_publishes. Qed.
Print Assumptions C14_submit_side_never_publishes.

(* interactive cache writer (_execute_task_with_cache): REFUTED — it writes in place under the
   final name, and the hit path accepts the file without looking at the output flag: there is a
   crash point (and, with two workers, an interleaving) after which an incomplete entry is
   accepted.  Finding D10. *)
Theorem C14_interactive_writer_refuted :
  exists k, let e := apply_ops (mkE None None None) (firstn k interactive_ops) in
            accepted_interactive e = true /\ match f_out e with Some f => complete f = false | None => False end.
Proof. exact interactive_writer_refuted. Qed.
Print Assumptions C14_interactive_writer_refuted.

(* partial statement for the interactive writer: the complete sequence yields a complete entry,
   and the file-mode acceptance test (which does look at the output dataset) would never accept a
   prefix state that lacks the output *)
Theorem C14_interactive_writer_partial :
  let e := apply_ops (mkE None None None) interactive_ops in
  match f_out e with Some f => complete f = true | None => False end.
Proof. exact interactive_writer_complete. Qed.
Print Assumptions C14_interactive_writer_partial.
