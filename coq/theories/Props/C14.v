(* C14 — crash atomicity of the cache directory.  Persistence protocol model (Model/CacheFs.v);
   the writers' operation lists are compared with the persistence points of the real code on every
   run; proofs in Proofs/CacheProofs.v. *)
From Coq Require Import List Bool Arith.
From EL Require Import Model.CacheFs Proofs.CacheProofs.
Import ListNotations.

(* file mode, the worker process (cache/backend.backend_write_file): at EVERY crash point k — the
   process is killed after k of its persistence operations, whatever staging file an earlier
   crash left behind — a file that a later run would accept as a result (exists under the final
   suffix and has an output dataset) is complete *)
Theorem C14_file_worker_publishes_atomically :
  forall (fin : file) (leftover : option file) (k : nat),
    in_complete fin = true ->
    let e := apply_ops (mkE (Some fin) leftover None) (firstn k worker_ops) in
    accepted_file_mode e = true -> match f_out e with Some f => complete f = true | None => False end.
Proof. exact worker_publish_atomic. Qed.
Print Assumptions C14_file_worker_publishes_atomically.

(* file mode, the submitting process (execute_tasks_h5): at every crash point while it writes the
   input file nothing becomes visible under the final suffix (with or without a stale input file) *)
Theorem C14_submit_side_never_publishes :
  forall (e0 : entry) (stale : bool) (k : nat),
    f_out e0 = None -> f_out (apply_ops e0 (firstn k (submit_ops stale))) = None.
Proof. exact submit_never_publishes. Qed.
Print Assumptions C14_submit_side_never_publishes.

(* interactive cache writer (_execute_task_with_cache): REFUTED — it writes in place under the
   final name, and the hit path accepts the file without looking at the output flag: there is a
   crash point (and, with two workers, an interleaving) after which an incomplete entry is
   accepted.  Finding D10. *)
Theorem C14_interactive_writer_refuted :
  exists k, let e := apply_ops (mkE None None None) (firstn k interactive_ops) in
            accepted_interactive e = true /\ match f_out e with Some f => complete f = false | None => False end.
Proof. exact interactive_writer_refuted. Qed.
Print Assumptions C14_interactive_writer_refuted.

(* partial statement for the interactive writer: the complete sequence yields a complete entry,
   and the file-mode acceptance test (which does look at the output dataset) would never accept a
   prefix state that lacks the output *)
Theorem C14_interactive_writer_partial :
  let e := apply_ops (mkE None None None) interactive_ops in
  match f_out e with Some f => complete f = true | None => False end.
Proof. exact interactive_writer_complete. Qed.
Print Assumptions C14_interactive_writer_partial.

(* ---- the file executor at point level (Model/FileExec.v: client, loop thread, one process per
   started call, the cache directory; tied to the code by lockstep incl. several sessions and killed
   processes).  Proofs/FileSafe.v.  Transitions: any step of any thread or process, or the kill
   of a process from outside; initial directory fs0 arbitrary (whatever earlier runs left). ---- *)
From EL Require Import Model.Exec Model.ExecInv Model.StepExec Model.FileExec Model.FileSpec Proofs.FileSafe.

(* leftover files never wedge the executor: from ANY initial directory the loop thread never dies,
   and at most one process works on a key, none while a result file exists *)
Theorem C14_leftovers_never_wedge_the_loop :
  forall c n prog fs0 s,
    nocancel prog = true -> wf_prog n prog -> FileSafe.freach c (finit n prog fs0) s ->
    procs_ok s = true /\ prep_ok s = true /\ loop_alive s = true.
Proof. exact file_inv. Qed.
Print Assumptions C14_leftovers_never_wedge_the_loop.

(* what the loop accepts as a result is only ever a file that holds the output, and it completes
   the future of that call with that call's value (the acceptance test of f_step: GOpenOut reads
   only when the output dataset is there) *)
Theorem C14_accepted_result_is_the_calls_own :
  forall c n prog fs0 s t s' f v,
    FileSafe.freach c (finit n prog fs0) s -> fstep c s t = Some (s', FL (LSetRes f v)) -> v = fcanon c f.
Proof. exact setres_own_value. Qed.
Print Assumptions C14_accepted_result_is_the_calls_own.

(* killing a process at any moment never alters a completed entry *)
Theorem C14_kill_never_alters_completed_entry :
  forall c n prog fs0 s m,
    nocancel prog = true -> wf_prog n prog -> fs_wf fs0 ->
    FileSafe.freach c (finit n prog fs0) s -> outs_kept (fsy s) (fsy (kill_proc s m)) = true.
Proof. intros c n prog fs0 s m H1 H2 H3 H4. eapply outs_never_altered; eauto. apply ft_kill. Qed.
Print Assumptions C14_kill_never_alters_completed_entry.

(* ---- the interactive cache at point level (Model/CacheExec.v: the cache steps of a worker thread
   laid over Model/Exec.v; tied to the code by full lockstep incl. hits, identical calls in flight,
   sessions and killed workers).  Proofs/CacheSafe.v.  Every program (cancellations and failing
   calls included), worker count, schedule, kill of a worker thread and initial directory of
   result files with prefixes of [function; input_args; input_kwargs; output]. ---- *)
From EL Require Model.Exec Model.FileExec Model.FileSpec Model.CacheExec Model.CacheSpec Proofs.CacheSafe.

(* the directory of the interactive cache only ever holds result files whose datasets are a prefix of
   [function; input_args; input_kwargs; output], whatever is killed when; a completed one never changes *)
Theorem C14_interactive_cache_directory_invariant :
  forall c n prog fs0 s,
    CacheSpec.dir_ok fs0 = true -> CacheSafe.fs_wf fs0 -> CacheSafe.creach c (CacheExec.cinit n prog fs0) s ->
    CacheSpec.dir_ok (CacheExec.cfs s) = true /\ CacheSafe.fs_wf (CacheExec.cfs s).
Proof. exact CacheSafe.dir_inv. Qed.
Print Assumptions C14_interactive_cache_directory_invariant.

(* ---- progress after an interruption (Proofs/FileLive.v, 1100 lines).  A NEW session over ANY
   directory in which every result file is complete - whatever stale input (.h5in) and intermediate
   (.h5ready) files earlier killed runs left behind - every program without cancellation that submits
   each call once and nothing after its shutdown, no two identical calls, every schedule without a
   kill in THIS session: whenever every started process has exited and the loop thread is between two
   iterations, (A) every future still registered is done or has a complete result file (the next
   scan completes it) and (B) every call taken from the queue is done or registered.  Leftovers
   neither wedge the loop nor lose a call. ---- *)
From EL Require Model.ExecInv Model.FileLiveSpec Proofs.FileLive.
Theorem C14_leftovers_never_block_progress :
  forall c n prog fs0 s,
    FileSpec.nocancel prog = true -> ExecInv.wf_prog n prog -> FileLiveSpec.no_late_submit prog = true ->
    (forall i j, FileExec.fcanon c i = FileExec.fcanon c j -> i = j) ->
    FileSafe.fs_wf fs0 -> FileLiveSpec.fs_outs_complete fs0 = true ->
    FileLive.freach_nk c (FileExec.finit n prog fs0) s ->
    FileLiveSpec.rest_ok prog s = true.
Proof. exact FileLive.file_progress_at_rest. Qed.
Print Assumptions C14_leftovers_never_block_progress.

(* the premises are satisfiable over a directory with stale .h5in / .h5ready files, and "no kill in
   this session" is needed *)
Theorem C14_progress_over_leftover_files_witness : ltac:(let t := type of FileLive.rest_state_leftover_files in exact t).
Proof. exact FileLive.rest_state_leftover_files. Qed.
Print Assumptions C14_progress_over_leftover_files_witness.

Theorem C14_progress_refuted_with_kill : ltac:(let t := type of FileLive.progress_needs_no_kill in exact t).
Proof. exact FileLive.progress_needs_no_kill. Qed.
Print Assumptions C14_progress_refuted_with_kill.

(* ---- and the rest state is reached (Proofs/FileMeasure.v, 1285 lines): in the same kill-free runs every
   step of the client, of a call process and of the loop thread strictly decreases a natural-number
   measure - except a step of the loop thread inside a fruitless polling pass (Model/FileMeasureSpec.v:
   empty queue and only entries whose future is not done and whose result file is not complete left in
   this pass, or polling producers that are all still running); and a fruitlessly polling loop thread is
   never alone: some process or the client can move, or every call taken from the queue is done.
   With a scheduler that does not starve an enabled thread for ever, every taken call completes. ---- *)
From EL Require Model.FileMeasureSpec Proofs.FileMeasure.
Theorem C14_file_mode_progress_measure :
  forall c n prog fs0 s t s' l,
    FileSpec.nocancel prog = true -> ExecInv.wf_prog n prog -> FileLiveSpec.no_late_submit prog = true ->
    (forall i j, FileExec.fcanon c i = FileExec.fcanon c j -> i = j) ->
    FileSafe.fs_wf fs0 -> FileLiveSpec.fs_outs_complete fs0 = true ->
    FileLive.freach_nk c (FileExec.finit n prog fs0) s ->
    FileExec.fstep c s t = Some (s', l) ->
    (t = Exec.TD -> FileMeasureSpec.f_polling s = false) ->
    FileMeasure.fmu c n prog s' < FileMeasure.fmu c n prog s.
Proof. exact FileMeasure.file_step_decreases. Qed.
Print Assumptions C14_file_mode_progress_measure.

Theorem C14_polling_loop_is_not_alone :
  forall c n prog fs0 s,
    FileSpec.nocancel prog = true -> ExecInv.wf_prog n prog -> FileLiveSpec.no_late_submit prog = true ->
    (forall i j, FileExec.fcanon c i = FileExec.fcanon c j -> i = j) ->
    FileSafe.fs_wf fs0 -> FileLiveSpec.fs_outs_complete fs0 = true ->
    FileLive.freach_nk c (FileExec.finit n prog fs0) s ->
    FileMeasureSpec.f_polling s = true ->
    (exists t, t <> Exec.TD /\ In t (FileExec.fenabled c s))
    \/ (forall i, In i (ExecInv.submits prog) -> FileLiveSpec.taken s i = true -> Exec.fdone (Exec.getf (FileExec.fbase s) i) = true).
Proof. exact FileMeasure.file_polling_not_alone. Qed.
Print Assumptions C14_polling_loop_is_not_alone.
