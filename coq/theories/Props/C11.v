(* C11 — process model.  Block-allocation executor model; proofs in Proofs/ExecSafe.v. *)
From Coq Require Import List Bool Arith.
From EL Require Import Model.Exec Model.ExecInv Proofs.ExecSafe.
Import ListNotations.

(* persistent worker: once a worker thread has its process it keeps it for its lifetime *)
Theorem C11_worker_keeps_process :
  forall c n prog s t s' l j w w',
    wf_prog n prog -> reach c (init n prog) s -> step c s t = Some (s', l) ->
    nth_error (ws s) j = Some w -> nth_error (ws s') j = Some w' -> wproc w <> 0 -> wproc w' = wproc w.
Proof. exact worker_keeps_process. Qed.
Print Assumptions C11_worker_keeps_process.

(* strictly one after another: a process never has more than one request/reply in flight, so a
   new call reaches it only after the previous reply was taken *)
Theorem C11_sequential :
  forall c n prog s p,
    wf_prog n prog -> reach c (init n prog) s -> In p (ps s) -> length (inbox p) + length (outbox p) <= 1.
Proof. exact one_request_at_a_time. Qed.
Print Assumptions C11_sequential.

(* every process is owned by exactly one worker thread (part of the invariant: owns_ok) *)
Theorem C11_invariant :
  forall c n prog s, wf_prog n prog -> reach c (init n prog) s -> inv_safe c s = true.
Proof. exact safe_reach. Qed.
Print Assumptions C11_invariant.

(* without block allocation: a fresh process per call — in every execution of the per-call
   executor model every process receives at most one call, and when it receives it no call has
   reached it before and nothing is left in its private queue *)
From EL Require Import Model.StepExec Proofs.StepSafe.
Theorem C11_fresh_process_per_call :
  forall c n prog x tr k,
    wf_prog n prog -> xreach_tr c (xinit n prog) x tr -> mcalls k tr <= 1.
Proof. exact step_at_most_one_call. Qed.
Print Assumptions C11_fresh_process_per_call.

Theorem C11_process_is_fresh_when_called :
  forall c n prog x t x' k i,
    wf_prog n prog -> xreach c (xinit n prog) x -> xstep c x t = Some (x', LZRecvP k (MCall i)) ->
    (forall tr, xreach_tr c (xinit n prog) x tr -> mcalls k tr = 0) /\
    (exists j w, nth_error (ws (base x)) j = Some w /\ wproc w = k /\ wp w = WRecv i /\
                 count is_task (qitems (getq (base x) (wq w))) = 0).
Proof. exact step_one_call_per_process. Qed.
Print Assumptions C11_process_is_fresh_when_called.

(* ---- a single worker executes calls in the order they were submitted (Proofs/ExecOrder.v):
   for every program (cancellations, failing calls, every shutdown variant) and schedule the
   sequence of executed function bodies is a subsequence of the submission order — calls that were
   cancelled or never reached are skipped, none overtakes another, none runs twice ---- *)
From EL Require Proofs.ExecOrder.
Theorem C11_single_worker_submission_order :
  forall c n prog s tr,
    nworkers c = 1 -> wf_prog n prog -> ExecOrder.reach_tr c (init n prog) s tr ->
    ExecOrder.subseq (ExecOrder.bodies tr) (subm s).
Proof. exact ExecOrder.single_worker_submission_order. Qed.
Print Assumptions C11_single_worker_submission_order.

Theorem C11_no_call_executed_twice :
  forall c n prog s tr,
    nworkers c = 1 -> wf_prog n prog -> ExecOrder.reach_tr c (init n prog) s tr -> NoDup (ExecOrder.bodies tr).
Proof. exact ExecOrder.no_call_executed_twice. Qed.
Print Assumptions C11_no_call_executed_twice.

(* with two workers the order is not guaranteed (and the property does not claim it): witness *)
Theorem C11_two_workers_may_reorder_witness : exists s tr,
  ExecOrder.reach_tr (mkC 2 (fun _ => false)) (init 2 ExecOrder.ex_prog) s tr /\ ExecOrder.bodies tr = [2; 1] /\ subm s = [1; 2] /\
  ~ ExecOrder.subseq (ExecOrder.bodies tr) (subm s).
Proof. exact ExecOrder.two_workers_may_reorder. Qed.
Print Assumptions C11_two_workers_may_reorder_witness.

(* ---- with the dependency resolver in front of ONE block-allocation worker (Model/DepExec.v, dinner =
   IBlock 1; Proofs/DepOrder.v, 518 lines): for every program (cancellations, failing calls, every
   shutdown form) and every schedule, (1) the function bodies executed form, in execution order, a
   subsequence of the calls the resolver forwarded, in forwarding order - the single worker never lets
   one call overtake another and runs none twice - and (2) the calls forwarded directly (all inputs
   had finished when the resolver took them from its queue) are forwarded in submission order.
   Hence a call whose inputs had finished when it was submitted runs before every call submitted after
   it - the rule of the C11 oracle. ---- *)
From EL Require Model.DepExec Model.DepOrderSpec Proofs.DepSafe Proofs.DepOrder.
Theorem C11_resolver_single_worker_order :
  forall c n prog d h,
    DepExec.dinner c = DepExec.IBlock 1 -> wf_prog n prog -> DepSafe.wf_deps c n ->
    DepOrder.dreach_h c (DepExec.dinit n prog) d h ->
    DepOrderSpec.order_ok d h = true.
Proof. exact DepOrder.resolver_single_worker_order. Qed.
Print Assumptions C11_resolver_single_worker_order.

Theorem C11_resolver_order_witness : ltac:(let t := type of DepOrder.order_example in exact t).
Proof. exact DepOrder.order_example. Qed.
Print Assumptions C11_resolver_order_witness.
