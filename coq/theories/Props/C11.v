(* C11 — process model.  Block-allocation executor model; proofs in Proofs/ExecSafe.v. *)
From Coq Require Import List Bool Arith.
From EL Require Import Model.Exec Model.ExecInv Proofs.ExecSafe.
Import ListNotations.

(* persistent worker: once a worker thread has its process it keeps it for its lifetime *)
Theorem C11_worker_keeps_process :
  forall c n prog s t s' l j w w',
    wf_prog n prog -> reach c (init n prog) s -> step c s t = Some (s', l) ->
    nth_error (ws s) j = Some w -> nth_error (ws s') j = Some w' -> wproc w <> 0 -> wproc w' = wproc w.
Proof. exact worker_keeps_process. Qed.
Print Assumptions C11_worker_keeps_process.

(* strictly one after another: a process never has more than one request/reply in flight, so a
   new call reaches it only after the previous reply was taken *)
Theorem C11_sequential :
  forall c n prog s p,
    wf_prog n prog -> reach c (init n prog) s -> In p (ps s) -> length (inbox p) + length (outbox p) <= 1.
Proof. exact one_request_at_a_time. Qed.
Print Assumptions C11_sequential.

(* every process is owned by exactly one worker thread (part of the invariant: owns_ok) *)
Theorem C11_invariant :
  forall c n prog s, wf_prog n prog -> reach c (init n prog) s -> inv_safe c s = true.
Proof. exact safe_reach. Qed.
Print Assumptions C11_invariant.
