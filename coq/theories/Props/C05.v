(* C05 — shutdown always returns, is repeatable, closes the executor.  Block-allocation executor
   model; programs without failing calls (with a failing call the pinned code blocks: finding
   D23); proofs in Proofs/ExecLive.v, ExecMeasure.v. *)
From Coq Require Import List Bool Arith.
From EL Require Import Model.Exec Model.ExecInv Proofs.ExecLiveCor Proofs.ExecMeasure.
From EL Require Import Model.StepExec Model.LiveSpec Proofs.StepSafe Proofs.StepLive Proofs.StepLiveCor.
From EL Require Import Model.StepExec Model.DepExec Model.LiveSpec Proofs.DepSafe Proofs.DepLiveCor.
Import ListNotations.

(* never deadlocks: for every number of workers >= 1, every history of submit / cancel / result /
   shutdown (all four flag combinations, any number of times) / with-exit, every schedule — if no
   thread or process can take a step any more, the client has finished its whole program; in
   particular it is not blocked inside a shutdown *)
Theorem C05_no_deadlock :
  forall c n prog s,
    nofail c -> 1 <= nworkers c -> wf_prog n prog -> reach c (init n prog) s ->
    enabled c s = [] -> main s = MEnd.
Proof. exact no_deadlock_thm. Qed.
Print Assumptions C05_no_deadlock.

(* nor livelocks: every step of every thread decreases a natural-number measure *)
Theorem C05_progress_measure :
  forall c n prog s t s' l,
    reach c (init n prog) s -> step c s t = Some (s', l) -> mu c s' < mu c s.
Proof. exact reach_step_decreases. Qed.
Print Assumptions C05_progress_measure.

(* closes the executor: in the model an operation after a completed shutdown takes no step of its
   own and a submit is answered by an exception (settle); checked by computation on an example,
   the general behaviour is compared with the implementation in every lockstep run *)
Example C05_closed_rejects_submit :
  let c := mkC 1 (fun _ => false) in
  let s := fst (run c (repeat 0 200) (init 2 [OSubmit 1; OShutdown true false; OShutdown true true; OSubmit 2; OShutdown false true])) in
  outs s = [XOk; XOk; XOk; XRaise; XOk] /\ main s = MEnd.
Proof. vm_compute. split; reflexivity. Qed.

(* the dependency resolver in front of a block-allocation executor never deadlocks either: a state
   in which nothing can move is one in which the client has finished its whole program and the
   resolver thread has ended *)
Theorem C05_resolver_no_deadlock :
  forall c n prog d k,
    dinner c = IBlock k -> 1 <= k -> (forall i, xraises (dx c) i = false) ->
    wf_prog n prog -> wf_deps c n -> dreach c (dinit n prog) d ->
    denabled c d = [] ->
    main (dbase d) = MEnd /\ rp d = RDone.
Proof.
  intros c n prog d k H1 H2 H3 H4 H5 H6 H7.
  pose proof (dep_rest c n prog d k H1 H2 H3 H4 H5 H6 H7) as H. split; [exact (proj1 H) | exact (proj2 (proj2 (proj2 (proj2 H))))].
Qed.
Print Assumptions C05_resolver_no_deadlock.

(* the per-call-process executor never deadlocks (requests that fit, no failing call) *)
Theorem C05_percall_no_deadlock :
  forall c n prog x,
    xnofail c -> fits c -> wf_prog n prog -> xreach c (xinit n prog) x ->
    xenabled c x = [] ->
    main (base x) = MEnd /\ disp x = DDone.
Proof.
  intros c n prog x H1 H2 H3 H4 H5. pose proof (step_rest c n prog x H1 H2 H3 H4 H5) as H.
  split; [exact (proj1 H) | exact (proj2 (proj2 (proj2 (proj2 H))))].
Qed.
Print Assumptions C05_percall_no_deadlock.

(* and the resolver in front of the per-call-process executor *)
Theorem C05_resolver_percall_no_deadlock :
  forall c n prog d,
    dinner c = IStep -> StepLive.fits (dx c) -> (forall i, xraises (dx c) i = false) ->
    wf_prog n prog -> wf_deps c n -> dreach c (dinit n prog) d ->
    denabled c d = [] ->
    main (dbase d) = MEnd /\ rp d = RDone.
Proof.
  intros c n prog d H1 H2 H3 H4 H5 H6 H7.
  pose proof (dep_rest_step c n prog d H1 H2 H3 H4 H5 H6 H7) as H. split; [exact (proj1 H) | exact (proj2 (proj2 (proj2 (proj2 H))))].
Qed.
Print Assumptions C05_resolver_percall_no_deadlock.

From EL Require Proofs.DepMeasure.
(* the resolver in front of a block executor makes progress under every schedule: every step of
   every thread decreases a natural-number measure, except the sleep of the resolver's idle loop
   while no parked call is ready (and, before shutdown, the outer queue is empty) — the only
   fruitless poll there is (Proofs/DepMeasure.v) *)
Theorem C05_resolver_progress_measure :
  forall c n k0 prog d t d' l,
    dinner c = IBlock k0 ->
    wf_prog n prog -> wf_deps c n -> dreach c (dinit n prog) d -> dstep c d t = Some (d', l) ->
    (t = TR -> DepMeasure.r_polling c d = false) -> (t = TD -> d_polling (xs d) = false) ->
    DepMeasure.dmu c n d' < DepMeasure.dmu c n d.
Proof. exact DepMeasure.dstep_decreases. Qed.
Print Assumptions C05_resolver_progress_measure.
