(* C05 — shutdown always returns, is repeatable, closes the executor.  Block-allocation executor
   model; programs without failing calls (with a failing call the pinned code blocks: finding
   D23); proofs in Proofs/ExecLive.v, ExecMeasure.v. *)
From Coq Require Import List Bool Arith.
From EL Require Import Model.Exec Model.ExecInv Proofs.ExecLiveCor Proofs.ExecMeasure.
From EL Require Import Model.StepExec Model.LiveSpec Proofs.StepSafe Proofs.StepLive Proofs.StepLiveCor.
From EL Require Import Model.StepExec Model.DepExec Model.LiveSpec Proofs.DepSafe Proofs.DepLiveCor.
Import ListNotations.

(* never deadlocks: for every number of workers >= 1, every history of submit / cancel / result /
   shutdown (all four flag combinations, any number of times) / with-exit, every schedule — if no
   thread or process can take a step any more, the client has finished its whole program; in
   particular it is not blocked inside a shutdown *)
Theorem C05_no_deadlock :
  forall c n prog s,
    nofail c -> 1 <= nworkers c -> wf_prog n prog -> reach c (init n prog) s ->
    enabled c s = [] -> main s = MEnd.
Proof. exact no_deadlock_thm. Qed.
Print Assumptions C05_no_deadlock.

(* nor livelocks: every step of every thread decreases a natural-number measure *)
Theorem C05_progress_measure :
  forall c n prog s t s' l,
    reach c (init n prog) s -> step c s t = Some (s', l) -> mu c s' < mu c s.
Proof. exact reach_step_decreases. Qed.
Print Assumptions C05_progress_measure.

(* closes the executor: in the model an operation after a completed shutdown takes no step of its
   own and a submit is answered by an exception (settle); checked by computation on an example,
   the general behaviour is compared with the implementation in every lockstep run *)
Example C05_closed_rejects_submit :
  let c := mkC 1 (fun _ => false) in
  let s := fst (run c (repeat 0 200) (init 2 [OSubmit 1; OShutdown true false; OShutdown true true; OSubmit 2; OShutdown false true])) in
  outs s = [XOk; XOk; XOk; XRaise; XOk] /\ main s = MEnd.
Proof. vm_compute. split; reflexivity. Qed.

(* the dependency resolver in front of a block-allocation executor never deadlocks either: a state
   in which nothing can move is one in which the client has finished its whole program and the
   resolver thread has ended *)
Theorem C05_resolver_no_deadlock :
  forall c n prog d k,
    dinner c = IBlock k -> 1 <= k -> (forall i, xraises (dx c) i = false) ->
    wf_prog n prog -> wf_deps c n -> dreach c (dinit n prog) d ->
    denabled c d = [] ->
    main (dbase d) = MEnd /\ rp d = RDone.
Proof.
  intros c n prog d k H1 H2 H3 H4 H5 H6 H7.
  pose proof (dep_rest c n prog d k H1 H2 H3 H4 H5 H6 H7) as H. split; [exact (proj1 H) | exact (proj2 (proj2 (proj2 (proj2 H))))].
Qed.
Print Assumptions C05_resolver_no_deadlock.

(* the per-call-process executor never deadlocks (requests that fit, no failing call) *)
Theorem C05_percall_no_deadlock :
  forall c n prog x,
    xnofail c -> fits c -> wf_prog n prog -> xreach c (xinit n prog) x ->
    xenabled c x = [] ->
    main (base x) = MEnd /\ disp x = DDone.
Proof.
  intros c n prog x H1 H2 H3 H4 H5. pose proof (step_rest c n prog x H1 H2 H3 H4 H5) as H.
  split; [exact (proj1 H) | exact (proj2 (proj2 (proj2 (proj2 H))))].
Qed.
Print Assumptions C05_percall_no_deadlock.

(* and the resolver in front of the per-call-process executor *)
Theorem C05_resolver_percall_no_deadlock :
  forall c n prog d,
    dinner c = IStep -> StepLive.fits (dx c) -> (forall i, xraises (dx c) i = false) ->
    wf_prog n prog -> wf_deps c n -> dreach c (dinit n prog) d ->
    denabled c d = [] ->
    main (dbase d) = MEnd /\ rp d = RDone.
Proof.
  intros c n prog d H1 H2 H3 H4 H5 H6 H7.
  pose proof (dep_rest_step c n prog d H1 H2 H3 H4 H5 H6 H7) as H. split; [exact (proj1 H) | exact (proj2 (proj2 (proj2 (proj2 H))))].
Qed.
Print Assumptions C05_resolver_percall_no_deadlock.

From EL Require Proofs.DepMeasure.
(* the resolver in front of a block executor makes progress under every schedule: every step of
   every thread decreases a natural-number measure, except the sleep of the resolver's idle loop
   while no parked call is ready (and, before shutdown, the outer queue is empty) — the only
   fruitless poll there is (Proofs/DepMeasure.v) *)
Theorem C05_resolver_progress_measure :
  forall c n k0 prog d t d' l,
    dinner c = IBlock k0 ->
    wf_prog n prog -> wf_deps c n -> dreach c (dinit n prog) d -> dstep c d t = Some (d', l) ->
    (t = TR -> DepMeasure.r_polling c d = false) -> (t = TD -> d_polling (xs d) = false) ->
    DepMeasure.dmu c n d' < DepMeasure.dmu c n d.
Proof. exact DepMeasure.dstep_decreases. Qed.
Print Assumptions C05_resolver_progress_measure.

(* and with the per-call-process executor underneath (Proofs/DepMeasureStep.v): every step decreases a
   measure except a fruitless sleep of the resolver or a fruitless polling pass of the dispatcher *)
From EL Require Proofs.DepMeasureStep.
Theorem C05_resolver_percall_progress_measure :
  forall c n prog d t d' l,
    dinner c = IStep ->
    wf_prog n prog -> wf_deps c n -> dreach c (dinit n prog) d -> dstep c d t = Some (d', l) ->
    (t = TR -> DepMeasure.r_polling c d = false) -> (t = TD -> d_polling (xs d) = false) ->
    DepMeasureStep.dmuS c n d' < DepMeasureStep.dmuS c n d.
Proof. exact DepMeasureStep.dstep_decreases_step. Qed.
Print Assumptions C05_resolver_percall_progress_measure.

(* ---- REFUTED on the code as it is: witnesses by computation on the executable models
   (Proofs/Refute.v); each is a recorded finding (KNOWN_FINDINGS.txt) ---- *)
From EL Require Model.Exec Model.ExecInv Model.StepExec Model.FileExec Model.FileSpec Model.CacheExec Proofs.FileSafe Proofs.FileRefute Proofs.CacheSafe Proofs.Refute.
Module RefutedC05.
Import Exec ExecInv StepExec FileExec FileSpec CacheExec FileSafe FileRefute CacheSafe Refute.
Import ListNotations.

(* finding D23: two block workers, a failing call: nothing can move any more while a surviving worker waits in queue.join() for ever; if the failing thread is not the first one joined the client itself is blocked inside shutdown(wait=True) *)
Theorem C05_refuted_failed_call_blocks_shutdown :
  (erun d23_cfg d23a_sched d23_init = Some d23a_state
   /\ enabled d23_cfg d23a_state = []                                (* nothing can move *)
   /\ main d23a_state = MJoin 0                                      (* the client: in join of W1 *)
   /\ ops d23a_state = [OShutdown true false; ODrop]                 (* ... inside the shutdown *)
   /\ outs d23a_state = [XOk]
   /\ map wp (ws d23a_state) = [WSQJoin; WDead]                      (* W1: in queue.join() *)
   /\ map pp (ps d23a_state) = [PExit; PExit]
   /\ getq d23a_state 0 = mkQ [Shut true] 1                          (* W2's message is never taken *)
   /\ qunf (getq d23a_state 0) <> 0
   /\ main d23a_state <> MEnd
   /\ getf d23a_state 1 = FExc
   /\ reach d23_cfg d23_init d23a_state)
  /\
  (erun d23_cfg d23b_sched d23_init = Some d23b_state
   /\ enabled d23_cfg d23b_state = []
   /\ main d23b_state = MEnd /\ outs d23b_state = [XOk; XRaise]      (* the shutdown raised *)
   /\ map wp (ws d23b_state) = [WDead; WSQJoin]                      (* W2: in queue.join() for ever *)
   /\ existsb (fun w => match wp w with WSQJoin => true | _ => false end) (ws d23b_state) = true
   /\ map pp (ps d23b_state) = [PExit; PExit]
   /\ getq d23b_state 0 = mkQ [Shut true] 1
   /\ qunf (getq d23b_state 0) <> 0
   /\ getf d23b_state 1 = FExc
   /\ reach d23_cfg d23_init d23b_state).
Proof. exact block_failed_call_blocks_survivors. Qed.
Print Assumptions C05_refuted_failed_call_blocks_shutdown.

(* finding D25: after a shutdown that re-raised a failed call's exception the executor still accepts a submit; that call never runs and result() blocks for ever *)
Theorem C05_refuted_submit_accepted_after_failed_shutdown :
  erun d25_cfg d25_pre d25_init = Some d25_s0
  /\ main d25_s0 = MJoin 0 /\ map wp (ws d25_s0) = [WDead]
  /\ step d25_cfg d25_s0 TM = Some (d25_s1, LTJoin 1)
  /\ outs d25_s1 = [XOk; XRaise] /\ closed d25_s1 = false             (* the shutdown raised *)
  /\ step d25_cfg d25_s1 TM = Some (d25_s2, LPut 0 (Task 2))
  /\ outs d25_s2 = [XOk; XRaise; XOk]                                 (* submit 2 accepted *)
  /\ main d25_s2 = MOp /\ ops d25_s2 = [OResult 2; ODrop]             (* the client: in result(2) *)
  /\ hd_error (ops d25_s2) = Some (OResult 2)
  /\ getf d25_s2 2 = FPending
  /\ map wp (ws d25_s2) = [WDead] /\ map pp (ps d25_s2) = [PExit]     (* no worker is left *)
  /\ getq d25_s2 0 = mkQ [Shut true; Task 2] 2
  /\ enabled d25_cfg d25_s2 = []                                      (* nothing can move *)
  /\ reach d25_cfg d25_init d25_s2.
Proof. exact block_submit_accepted_after_failed_shutdown. Qed.
Print Assumptions C05_refuted_submit_accepted_after_failed_shutdown.
End RefutedC05.

(* ---- the block-allocation executor WITH cache_directory (Model/CacheExec.v: the cache steps of a
   worker thread - listdir, the hit path, the dump - laid over Model/Exec.v; tied to the code by full
   lockstep).  Proofs/CacheLive.v (935 lines): for every program without failing calls and without
   cancellation (finding D18) that submits no two identical calls (finding D17), every number of
   workers, ANY initial cache directory (hits on complete and on incomplete entries included) and
   every kill-free schedule: when no thread or process can take a step, the client has finished,
   every submitted future is done, every worker process has exited, every worker thread has ended. ---- *)
From EL Require Model.FileSpec Model.CacheExec Model.CacheLiveSpec Proofs.CacheLive Proofs.CacheLiveCor.
Theorem C05_cached_rest_state :
  forall c n prog fs0 s,
    nofail (CacheExec.cbase c) -> 1 <= nworkers (CacheExec.cbase c) -> wf_prog n prog -> FileSpec.nocancel prog = true ->
    CacheLiveSpec.canon_inj_on c prog ->
    CacheLive.creach_nk c (CacheExec.cinit n prog fs0) s ->
    CacheExec.cenabled c s = [] ->
    main (CacheExec.cb s) = MEnd
    /\ (forall i, In i (subm (CacheExec.cb s)) -> fdone (getf (CacheExec.cb s) i) = true)
    /\ (forall p, In p (ps (CacheExec.cb s)) -> palive p = false)
    /\ (forall w, In w (ws (CacheExec.cb s)) -> wdone w = true).
Proof. exact CacheLiveCor.cache_rest. Qed.
Print Assumptions C05_cached_rest_state.
