(* C07 — resource ceiling.  Per-call-process executor model (Model/StepExec.v, tied to the code
   by lockstep) and the regenerated slot arithmetic of _wait_for_free_slots /
   _submit_function_to_separate_process (Gen.SharedRes); block allocation: Model/Exec.v. *)
From Coq Require Import ZArith List Bool Arith.
From EL Require Import Base.PyLib Model.Exec Model.ExecInv Model.StepExec Proofs.ExecSafe Proofs.StepSafe Proofs.DictFacts Proofs.C10Proofs Gen.SharedRes Gen.StepCtor.
From EL Require Import Model.LiveSpec Proofs.StepLive Proofs.StepLiveCor.
Import ListNotations.

(* with max_cores = m: at every reachable state, for every program, every mix of per-call slot
   requests and every schedule, the slots of the calls whose function body is executing sum to
   at most m *)
Theorem C07_ceiling_cores :
  forall c n prog x m,
    wf_prog n prog -> xmax_cores c = Some m -> xreach c (xinit n prog) x -> exec_slots c x <= m.
Proof. exact step_ceiling_cores. Qed.
Print Assumptions C07_ceiling_cores.

(* with max_workers = m (and no max_cores): at most m calls execute at once *)
Theorem C07_ceiling_workers :
  forall c n prog x m,
    wf_prog n prog -> xmax_cores c = None -> xmax_workers c = Some m ->
    xreach c (xinit n prog) x -> length (executing x) <= m.
Proof. exact step_ceiling_workers. Qed.
Print Assumptions C07_ceiling_workers.

(* a single worker process never executes two calls at the same time, block allocation:
   at most one request/reply in flight per process *)
Theorem C07_one_call_at_a_time_block :
  forall c n prog s p,
    wf_prog n prog -> reach c (init n prog) s -> In p (ps s) -> length (inbox p) + length (outbox p) <= 1.
Proof. exact one_request_at_a_time. Qed.
Print Assumptions C07_one_call_at_a_time_block.

(* per-call mode: every process receives at most one call in any execution *)
Theorem C07_one_call_per_process :
  forall c n prog x tr k,
    wf_prog n prog -> xreach_tr c (xinit n prog) x tr -> mcalls k tr <= 1.
Proof. exact step_at_most_one_call. Qed.
Print Assumptions C07_one_call_per_process.

(* the arithmetic the dispatcher actually evaluates (regenerated from the source): the wait
   loop runs while  sum(active) + request > max_cores  /  len(active) + 1 > max_workers *)
Theorem C07_guard_cores :
  forall (act : list (pyval * Z)) r m,
    wait_guard_cores (VDict (List.map (fun p => (fst p, VInt (snd p))) act)) (VInt r) (VInt m)
    = Ok (VBool (Z.gtb (List.fold_right (fun p acc => (snd p + acc)%Z) 0%Z act + r) m)).
Proof. exact guard_cores. Qed.
Print Assumptions C07_guard_cores.

Theorem C07_guard_workers :
  forall (act : list (pyval * pyval)) m,
    wait_guard_workers (VDict act) (VInt m) = Ok (VBool (Z.gtb (Z.of_nat (List.length act) + 1) m)).
Proof. exact guard_workers. Qed.
Print Assumptions C07_guard_workers.

(* the limits the dispatcher thread is started with (InteractiveStepExecutor.__init__, regenerated from
   the source): whatever the executor_kwargs dictionary held before - e.g. a "max_cores" entry left
   by an earlier executor built from the same user dictionary - the dispatcher receives exactly the
   constructor's max_cores and max_workers *)
Theorem C07_dispatcher_gets_the_given_limits :
  forall q self mc mw ek sp,
    exists d, Gen.StepCtor.step_ctor q self mc mw (DictFacts.sdict ek) sp = Ok (DictFacts.sdict d)
              /\ DictFacts.assoc C10Proofs.k_max_cores d = Some mc /\ DictFacts.assoc C10Proofs.k_max_workers d = Some mw.
Proof. exact step_ctor_hands_over_the_given_limits. Qed.
Print Assumptions C07_dispatcher_gets_the_given_limits.


(* ---- progress (Proofs/StepLive.v): the ceiling never starves a request that fits ---- *)
(* a request that fits the limit never leaves the dispatcher in a wait loop with nothing to wait
   for (the state in which it would spin for ever) *)
Theorem C07_fitting_request_never_spins :
  forall c n prog x i, fits c -> wf_prog n prog -> xreach c (xinit n prog) x -> disp x <> DSpin i.
Proof. exact spin_unreachable. Qed.
Print Assumptions C07_fitting_request_never_spins.

(* while the dispatcher waits for a slot and none of the calls it waits for is done, some other
   thread or process can move (the calls holding the slots are being worked on) *)
Theorem C07_waiting_dispatcher_is_not_alone :
  forall c n prog x,
    wf_prog n prog -> xreach c (xinit n prog) x ->
    d_polling x = true -> exists t, t <> TD /\ In t (xenabled c x).
Proof. exact dispatcher_never_spins_alone. Qed.
Print Assumptions C07_waiting_dispatcher_is_not_alone.

(* every step other than a fruitless polling pass of the dispatcher decreases a natural-number
   measure: together with the previous theorem, under a fair scheduler every request that fits is
   eventually started and the program comes to rest *)
Theorem C07_progress_measure :
  forall c n prog x t x' l,
    wf_prog n prog -> xreach c (xinit n prog) x -> xstep c x t = Some (x', l) ->
    (t = TD -> d_polling x = false) -> xmu n x' < xmu n x.
Proof. exact xstep_decreases. Qed.
Print Assumptions C07_progress_measure.

(* and at rest everything submitted has been executed: every future is done *)
Theorem C07_all_requests_served_at_rest :
  forall c n prog x,
    xnofail c -> fits c -> wf_prog n prog -> xreach c (xinit n prog) x ->
    xenabled c x = [] ->
    forall i, In i (subm (base x)) -> fdone (getf (base x) i) = true.
Proof. intros c n prog x H1 H2 H3 H4 H5. exact (proj1 (proj2 (step_rest c n prog x H1 H2 H3 H4 H5))). Qed.
Print Assumptions C07_all_requests_served_at_rest.

(* ---- the same ceilings with the dependency resolver in front of the per-call executor — the
   configuration Executor() gives by default (Proofs/DepCeiling.v); all programs, failing calls and
   cancellations included ---- *)
From EL Require Model.DepExec Proofs.DepSafe Proofs.DepCeiling.
Theorem C07_ceiling_cores_under_resolver :
  forall c n prog d m,
    DepExec.dinner c = DepExec.IStep -> wf_prog n prog -> DepSafe.wf_deps c n -> xmax_cores (DepExec.dx c) = Some m ->
    DepSafe.dreach c (DepExec.dinit n prog) d -> exec_slots (DepExec.dx c) (DepExec.xs d) <= m.
Proof. exact DepCeiling.dep_ceiling_cores. Qed.
Print Assumptions C07_ceiling_cores_under_resolver.

Theorem C07_ceiling_workers_under_resolver :
  forall c n prog d m,
    DepExec.dinner c = DepExec.IStep -> wf_prog n prog -> DepSafe.wf_deps c n ->
    xmax_cores (DepExec.dx c) = None -> xmax_workers (DepExec.dx c) = Some m ->
    DepSafe.dreach c (DepExec.dinit n prog) d -> length (executing (DepExec.xs d)) <= m.
Proof. exact DepCeiling.dep_ceiling_workers. Qed.
Print Assumptions C07_ceiling_workers_under_resolver.
