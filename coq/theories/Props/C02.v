(* C02 — no lost futures.  Block-allocation executor model (Model/Exec.v); programs in which no
   call raises (as the property states); proofs in Proofs/ExecLive.v, ExecSafe.v, ExecMeasure.v. *)
From Coq Require Import List Bool Arith.
From EL Require Import Model.Exec Model.ExecInv Proofs.ExecLiveCor Proofs.ExecMeasure.
Import ListNotations.

(* every number of workers >= 1, every program of submit / cancel / result / shutdown(wait,
   cancel_futures) / with-exit operations (the executor is dropped at the end of the program),
   every schedule: whenever the system has come to rest (no thread or process can take a step)
   every future handed out is done — result, exception or cancelled *)
Theorem C02_all_done_at_rest :
  forall c n prog s,
    nofail c -> 1 <= nworkers c -> wf_prog n prog -> reach c (init n prog) s ->
    enabled c s = [] -> forall i, In i (subm s) -> fdone (getf s i) = true.
Proof. exact all_done_thm. Qed.
Print Assumptions C02_all_done_at_rest.

(* at the moment shutdown(wait=True) / the with-block returns (the client's final queue.join)
   every future is done, every worker process has exited and every worker thread has finished *)
Theorem C02_done_when_wait_shutdown_returns :
  forall c n prog s,
    nofail c -> 1 <= nworkers c -> wf_prog n prog -> reach c (init n prog) s ->
    forall s', step c s TM = Some (s', LQJoin 0) ->
      (forall i, In i (subm s') -> fdone (getf s' i) = true)
      /\ (forall p, In p (ps s') -> palive p = false)
      /\ (forall w, In w (ws s') -> wdone w = true).
Proof. exact after_wait_thm. Qed.
Print Assumptions C02_done_when_wait_shutdown_returns.

(* and the system does come to rest: every step decreases a measure, so every schedule is
   finite (together: under any schedule every future eventually is done) *)
Theorem C02_every_schedule_is_finite :
  forall c n prog sched,
    length (snd (run c sched (init n prog))) <= length prog * (22 * nworkers c + 31) + 48 * nworkers c + 70.
Proof. exact init_run_length_bounded. Qed.
Print Assumptions C02_every_schedule_is_finite.

(* the counter / shutdown-message accounting invariant behind it *)
Theorem C02_counter_invariant :
  forall c n prog s,
    nofail c -> 1 <= nworkers c -> wf_prog n prog -> reach c (init n prog) s -> inv_nofail c s = true.
Proof. exact nofail_inv. Qed.
Print Assumptions C02_counter_invariant.
