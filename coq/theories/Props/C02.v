(* C02 — no lost futures.  Block-allocation executor model (Model/Exec.v); programs in which no
   call raises (as the property states); proofs in Proofs/ExecLive.v, ExecSafe.v, ExecMeasure.v. *)
From Coq Require Import List Bool Arith.
From EL Require Import Model.Exec Model.ExecInv Proofs.ExecLiveCor Proofs.ExecMeasure.
From EL Require Import Model.StepExec Model.LiveSpec Proofs.StepSafe Proofs.StepLive Proofs.StepLiveCor.
From EL Require Import Model.StepExec Model.DepExec Model.LiveSpec Proofs.DepSafe Proofs.DepLiveCor.
Import ListNotations.

(* every number of workers >= 1, every program of submit / cancel / result / shutdown(wait,
   cancel_futures) / with-exit operations (the executor is dropped at the end of the program),
   every schedule: whenever the system has come to rest (no thread or process can take a step)
   every future handed out is done — result, exception or cancelled *)
Theorem C02_all_done_at_rest :
  forall c n prog s,
    nofail c -> 1 <= nworkers c -> wf_prog n prog -> reach c (init n prog) s ->
    enabled c s = [] -> forall i, In i (subm s) -> fdone (getf s i) = true.
Proof. exact all_done_thm. Qed.
Print Assumptions C02_all_done_at_rest.

(* at the moment shutdown(wait=True) / the with-block returns (the client's final queue.join)
   every future is done, every worker process has exited and every worker thread has finished *)
Theorem C02_done_when_wait_shutdown_returns :
  forall c n prog s,
    nofail c -> 1 <= nworkers c -> wf_prog n prog -> reach c (init n prog) s ->
    forall s', step c s TM = Some (s', LQJoin 0) ->
      (forall i, In i (subm s') -> fdone (getf s' i) = true)
      /\ (forall p, In p (ps s') -> palive p = false)
      /\ (forall w, In w (ws s') -> wdone w = true).
Proof. exact after_wait_thm. Qed.
Print Assumptions C02_done_when_wait_shutdown_returns.

(* and the system does come to rest: every step decreases a measure, so every schedule is
   finite (together: under any schedule every future eventually is done) *)
Theorem C02_every_schedule_is_finite :
  forall c n prog sched,
    length (snd (run c sched (init n prog))) <= length prog * (22 * nworkers c + 31) + 48 * nworkers c + 70.
Proof. exact init_run_length_bounded. Qed.
Print Assumptions C02_every_schedule_is_finite.

(* the counter / shutdown-message accounting invariant behind it *)
Theorem C02_counter_invariant :
  forall c n prog s,
    nofail c -> 1 <= nworkers c -> wf_prog n prog -> reach c (init n prog) s -> inv_nofail c s = true.
Proof. exact nofail_inv. Qed.
Print Assumptions C02_counter_invariant.

(* ---- the dependency resolver in front of a block-allocation executor (Model/DepExec.v,
   Proofs/DepLive.v): every program whose calls may take futures of earlier calls as inputs ---- *)
(* when the resolver system has come to rest every future handed out is done, including the calls
   that were waiting for other futures; and no call is left on the wait list once the resolver has
   begun to shut the inner executor down *)
Theorem C02_resolver_all_done_at_rest :
  forall c n prog d k,
    dinner c = IBlock k -> 1 <= k -> (forall i, xraises (dx c) i = false) ->
    wf_prog n prog -> wf_deps c n -> dreach c (dinit n prog) d ->
    denabled c d = [] ->
    forall i, In i (subm (dbase d)) -> fdone (getf (dbase d) i) = true.
Proof. intros c n prog d k H1 H2 H3 H4 H5 H6 H7. exact (proj1 (proj2 (dep_rest c n prog d k H1 H2 H3 H4 H5 H6 H7))). Qed.
Print Assumptions C02_resolver_all_done_at_rest.

Theorem C02_wait_list_drained_before_inner_shutdown :
  forall c n prog d,
    wf_prog n prog -> dreach c (dinit n prog) d -> r_in_inner_shutdown d = true -> rwait d = [].
Proof. exact wait_list_empty_at_inner_shutdown. Qed.
Print Assumptions C02_wait_list_drained_before_inner_shutdown.

(* ---- the per-call-process executor (Model/StepExec.v, Proofs/StepLive.v) ---- *)
Theorem C02_percall_all_done_at_rest :
  forall c n prog x,
    xnofail c -> fits c -> wf_prog n prog -> xreach c (xinit n prog) x ->
    xenabled c x = [] ->
    forall i, In i (subm (base x)) -> fdone (getf (base x) i) = true.
Proof. intros c n prog x H1 H2 H3 H4 H5. exact (proj1 (proj2 (step_rest c n prog x H1 H2 H3 H4 H5))). Qed.
Print Assumptions C02_percall_all_done_at_rest.

(* ---- the dependency resolver in front of the per-call-process executor (Proofs/DepLiveStep.v) ---- *)
Theorem C02_resolver_percall_all_done_at_rest :
  forall c n prog d,
    dinner c = IStep -> StepLive.fits (dx c) -> (forall i, xraises (dx c) i = false) ->
    wf_prog n prog -> wf_deps c n -> dreach c (dinit n prog) d ->
    denabled c d = [] ->
    forall i, In i (subm (dbase d)) -> fdone (getf (dbase d) i) = true.
Proof. intros c n prog d H1 H2 H3 H4 H5 H6 H7. exact (proj1 (proj2 (dep_rest_step c n prog d H1 H2 H3 H4 H5 H6 H7))). Qed.
Print Assumptions C02_resolver_percall_all_done_at_rest.

From EL Require Proofs.DepMeasure.
(* the resolver in front of a block executor makes progress under every schedule: every step of
   every thread decreases a natural-number measure, except the sleep of the resolver's idle loop
   while no parked call is ready (and, before shutdown, the outer queue is empty) — the only
   fruitless poll there is (Proofs/DepMeasure.v) *)
Theorem C02_resolver_progress_measure :
  forall c n k0 prog d t d' l,
    dinner c = IBlock k0 ->
    wf_prog n prog -> wf_deps c n -> dreach c (dinit n prog) d -> dstep c d t = Some (d', l) ->
    (t = TR -> DepMeasure.r_polling c d = false) -> (t = TD -> d_polling (xs d) = false) ->
    DepMeasure.dmu c n d' < DepMeasure.dmu c n d.
Proof. exact DepMeasure.dstep_decreases. Qed.
Print Assumptions C02_resolver_progress_measure.

(* and with the per-call-process executor underneath (Proofs/DepMeasureStep.v): every step decreases a
   measure except a fruitless sleep of the resolver or a fruitless polling pass of the dispatcher *)
From EL Require Proofs.DepMeasureStep.
Theorem C02_resolver_percall_progress_measure :
  forall c n prog d t d' l,
    dinner c = IStep ->
    wf_prog n prog -> wf_deps c n -> dreach c (dinit n prog) d -> dstep c d t = Some (d', l) ->
    (t = TR -> DepMeasure.r_polling c d = false) -> (t = TD -> d_polling (xs d) = false) ->
    DepMeasureStep.dmuS c n d' < DepMeasureStep.dmuS c n d.
Proof. exact DepMeasureStep.dstep_decreases_step. Qed.
Print Assumptions C02_resolver_percall_progress_measure.

(* ---- REFUTED on the code as it is: witnesses by computation on the executable models
   (Proofs/Refute.v); each is a recorded finding (KNOWN_FINDINGS.txt) ---- *)
From EL Require Model.Exec Model.ExecInv Model.StepExec Model.FileExec Model.FileSpec Model.CacheExec Proofs.FileSafe Proofs.FileRefute Proofs.CacheSafe Proofs.Refute.
Module RefutedC02.
Import Exec ExecInv StepExec FileExec FileSpec CacheExec FileSafe FileRefute CacheSafe Refute.
Import ListNotations.

(* finding D24: shutdown(wait=True) after shutdown(wait=False) returns at once although the submitted call has not finished *)
Theorem C02_refuted_wait_after_nowait_returns_early :
  (erun d24_cfg d24_sched0 d24_init = Some d24_s0
   /\ main d24_s0 = MEnd /\ ops d24_s0 = []
   /\ outs d24_s0 = [XOk; XOk; XOk]                                   (* both shutdowns returned *)
   /\ getf d24_s0 1 = FPending /\ fdone (getf d24_s0 1) = false       (* the call has not even started *)
   /\ map wp (ws d24_s0) = [WBegin]
   /\ reach d24_cfg d24_init d24_s0)
  /\
  (erun d24_cfg d24_sched1 d24_init = Some d24_s1
   /\ main d24_s1 = MEnd /\ ops d24_s1 = []
   /\ outs d24_s1 = [XOk; XOk; XOk]
   /\ getf d24_s1 1 = FRunning /\ fdone (getf d24_s1 1) = false       (* ... or is running *)
   /\ map wp (ws d24_s1) = [WRecv 1] /\ map pp (ps d24_s1) = [PBegin]
   /\ reach d24_cfg d24_init d24_s1).
Proof. exact block_wait_after_nowait_returns_early. Qed.
Print Assumptions C02_refuted_wait_after_nowait_returns_early.
End RefutedC02.

(* ---- the block-allocation executor WITH cache_directory (Model/CacheExec.v: the cache steps of a
   worker thread - listdir, the hit path, the dump - laid over Model/Exec.v; tied to the code by full
   lockstep).  Proofs/CacheLive.v (935 lines): for every program without failing calls and without
   cancellation (finding D18) that submits no two identical calls (finding D17), every number of
   workers, ANY initial cache directory (hits on complete and on incomplete entries included) and
   every kill-free schedule: when no thread or process can take a step, the client has finished,
   every submitted future is done, every worker process has exited, every worker thread has ended. ---- *)
From EL Require Model.FileSpec Model.CacheExec Model.CacheLiveSpec Proofs.CacheLive Proofs.CacheLiveCor.
Theorem C02_cached_rest_state :
  forall c n prog fs0 s,
    nofail (CacheExec.cbase c) -> 1 <= nworkers (CacheExec.cbase c) -> wf_prog n prog -> FileSpec.nocancel prog = true ->
    CacheLiveSpec.canon_inj_on c prog ->
    CacheLive.creach_nk c (CacheExec.cinit n prog fs0) s ->
    CacheExec.cenabled c s = [] ->
    main (CacheExec.cb s) = MEnd
    /\ (forall i, In i (subm (CacheExec.cb s)) -> fdone (getf (CacheExec.cb s) i) = true)
    /\ (forall p, In p (ps (CacheExec.cb s)) -> palive p = false)
    /\ (forall w, In w (ws (CacheExec.cb s)) -> wdone w = true).
Proof. exact CacheLiveCor.cache_rest. Qed.
Print Assumptions C02_cached_rest_state.

(* the two hypotheses are needed: a cancelled call that hits kills its worker thread (D18); two
   identical calls that both miss make the second dump fail (D17) *)
Theorem C02_cached_rest_state_needs_nocancel : ltac:(let t := type of CacheLive.rest_state_needs_nocancel in exact t).
Proof. exact CacheLive.rest_state_needs_nocancel. Qed.
Print Assumptions C02_cached_rest_state_needs_nocancel.
Theorem C02_cached_rest_state_needs_distinct_calls : ltac:(let t := type of CacheLive.rest_state_needs_canon_inj in exact t).
Proof. exact CacheLive.rest_state_needs_canon_inj. Qed.
Print Assumptions C02_cached_rest_state_needs_distinct_calls.
Theorem C02_cached_rest_state_witness : ltac:(let t := type of CacheLive.rest_state_miss_and_hit in exact t).
Proof. exact CacheLive.rest_state_miss_and_hit. Qed.
Print Assumptions C02_cached_rest_state_witness.
