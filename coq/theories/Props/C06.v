(* C06 — cancellation.  Block-allocation executor model; proofs in Proofs/ExecSafe.v, ExecCor.v. *)
From Coq Require Import List Bool Arith.
From EL Require Import Model.Exec Model.ExecInv Proofs.ExecSafe Proofs.ExecCor.
Import ListNotations.

(* a function body is only ever entered for a future that is Running (i.e. whose worker asked
   set_running_or_notify_cancel and got True) *)
Theorem C06_body_needs_running :
  forall c n prog s t s' i,
    wf_prog n prog -> reach c (init n prog) s -> step c s t = Some (s', LBody i) -> getf s i = FRunning.
Proof. exact body_needs_running. Qed.
Print Assumptions C06_body_needs_running.

(* a cancelled future stays cancelled under every step of every thread *)
Theorem C06_cancelled_stays :
  forall c s t s' l i,
    step c s t = Some (s', l) -> is_cancelled (getf s i) -> is_cancelled (getf s' i).
Proof. exact cancelled_stays. Qed.
Print Assumptions C06_cancelled_stays.

(* cancel() returns True only if the future is cancelled afterwards ... *)
Theorem C06_cancel_true :
  forall f, snd (fcancel f) = true -> is_cancelled (fst (fcancel f)).
Proof. exact fcancel_true. Qed.
Print Assumptions C06_cancel_true.

(* ... hence: from any reachable state in which future i is cancelled, no continuation of any
   schedule ever executes the body of call i *)
Theorem C06_cancelled_never_runs :
  forall c n prog s s' t s'' i,
    wf_prog n prog -> reach c (init n prog) s -> is_cancelled (getf s i) ->
    reach c s s' -> step c s' t = Some (s'', LBody i) -> False.
Proof. exact cancelled_never_runs. Qed.
Print Assumptions C06_cancelled_never_runs.

Example C06_example :
  let c := mkC 1 (fun _ => false) in
  let s := fst (run c (repeat 0 200) (init 2 [OSubmit 1; OSubmit 2; OCancel 2; OExit])) in
  futs s = [FRes 1; FCancelledN] /\ main s = MEnd.
Proof. vm_compute. split; reflexivity. Qed.
