(* C06 — cancellation.  Block-allocation executor model; proofs in Proofs/ExecSafe.v, ExecCor.v. *)
From Coq Require Import List Bool Arith.
From EL Require Import Model.Exec Model.ExecInv Proofs.ExecSafe Proofs.ExecCor.
Import ListNotations.

(* a function body is only ever entered for a future that is Running (i.e. whose worker asked
   set_running_or_notify_cancel and got True) *)
Theorem C06_body_needs_running :
  forall c n prog s t s' i,
    wf_prog n prog -> reach c (init n prog) s -> step c s t = Some (s', LBody i) -> getf s i = FRunning.
Proof. exact body_needs_running. Qed.
Print Assumptions C06_body_needs_running.

(* a cancelled future stays cancelled under every step of every thread *)
Theorem C06_cancelled_stays :
  forall c s t s' l i,
    step c s t = Some (s', l) -> is_cancelled (getf s i) -> is_cancelled (getf s' i).
Proof. exact cancelled_stays. Qed.
Print Assumptions C06_cancelled_stays.

(* ... and a call that has started - its future is running or finished - is never turned into a
   cancelled one: cancel(), shutdown(cancel_futures=True) and every other step of every thread leave it
   running or finished ("never affects a call that had already started or finished") *)
From EL Require Proofs.ExecStarted.
Theorem C06_started_call_is_never_cancelled :
  forall c s t s' l i,
    step c s t = Some (s', l) -> ExecStarted.started (getf s i) ->
    ExecStarted.started (getf s' i) /\ getf s' i <> FCancelled /\ getf s' i <> FCancelledN.
Proof.
  intros c s t s' l i H1 H2. split; [exact (ExecStarted.started_never_cancelled c s t s' l i H1 H2)|].
  exact (ExecStarted.started_not_cancelled c s t s' l i H1 H2).
Qed.
Print Assumptions C06_started_call_is_never_cancelled.

(* cancel() returns True only if the future is cancelled afterwards ... *)
Theorem C06_cancel_true :
  forall f, snd (fcancel f) = true -> is_cancelled (fst (fcancel f)).
Proof. exact fcancel_true. Qed.
Print Assumptions C06_cancel_true.

(* ... hence: from any reachable state in which future i is cancelled, no continuation of any
   schedule ever executes the body of call i *)
Theorem C06_cancelled_never_runs :
  forall c n prog s s' t s'' i,
    wf_prog n prog -> reach c (init n prog) s -> is_cancelled (getf s i) ->
    reach c s s' -> step c s' t = Some (s'', LBody i) -> False.
Proof. exact cancelled_never_runs. Qed.
Print Assumptions C06_cancelled_never_runs.

Example C06_example :
  let c := mkC 1 (fun _ => false) in
  let s := fst (run c (repeat 0 200) (init 2 [OSubmit 1; OSubmit 2; OCancel 2; OExit])) in
  futs s = [FRes 1; FCancelledN] /\ main s = MEnd.
Proof. vm_compute. split; reflexivity. Qed.

(* ---- the block executor with cache_directory (Model/CacheExec.v, Proofs/CacheCancel.v): the second
   copy of the cancellation test, in _execute_task_with_cache ---- *)
From EL Require Import Model.StepExec Model.FileExec Model.FileSpec Model.CacheExec.
From EL Require Import Proofs.FileSafe Proofs.FileRefute Proofs.CacheSafe Proofs.CacheCancel.

Theorem C06_cached_body_needs_running :
  forall c n prog fs0 s t s' i,
    wf_prog n prog -> creach c (cinit n prog fs0) s ->
    cstep c s t = Some (s', FL (LBody i)) -> getf (cb s) i = FRunning.
Proof. exact cache_body_needs_running. Qed.
Print Assumptions C06_cached_body_needs_running.

(* once cancelled, never executed: the miss path and the hit path alike *)
Theorem C06_cached_cancelled_never_executed :
  forall c n prog fs0 s s' t u i,
    wf_prog n prog -> creach c (cinit n prog fs0) s ->
    (getf (cb s) i = FCancelled \/ getf (cb s) i = FCancelledN) ->
    creach c s s' -> cstep c s' t = Some (u, FL (LBody i)) -> False.
Proof. exact cache_cancelled_never_executed. Qed.
Print Assumptions C06_cached_cancelled_never_executed.

(* REFUTED on the cached path (finding D18): "cancelling a call neither delays, fails nor loses any
   other call".  One worker, call 1 complete in the directory, the identical call 2 submitted and
   cancelled while queued (cancel() returns True): the worker takes it, hits the cache, and
   set_result on the cancelled future kills the worker thread (InvalidStateError); its process
   stays alive and nothing but the client can move any more *)
Theorem C06_refuted_cancelled_hit_kills_worker :
  wf_prog 2 d18_prog /\ ccanon d18_cfg 2 = ccanon d18_cfg 1 /\
  crun d18_cfg d18_sched (cinit 2 d18_prog []) = Some d18_state /\       (* steps only: no kill *)
  creach d18_cfg (cinit 2 d18_prog []) d18_state /\
  getov d18_state 0 = CHitSet true 2 /\ getf (cb d18_state) 2 = FCancelled /\
  outs (cb d18_state) = [XOk; XRes 1; XOk; XBool true] /\                (* cancel() returned True *)
  exists s', cstep d18_cfg d18_state (TW 1) = Some (s', FL (LSetRes 2 1)) /\
    getf (cb s') 2 = FCancelled /\                                       (* the future is not changed *)
    map wp (ws (cb s')) = [WDead] /\                                     (* the thread dies (InvalidStateError) *)
    palive (getp (cb s') 1) = true /\                                    (* its process is still alive *)
    cenabled d18_cfg s' = [TM].                                          (* only the client can still move *)
Proof. exact cancelled_hit_kills_worker. Qed.
Print Assumptions C06_refuted_cancelled_hit_kills_worker.

(* ---- the file-based executor (Model/FileExec.v): the property quantifies over all executor modes
   and is REFUTED there (findings D22, D26), witnesses by computation in Proofs/FileRefute.v ---- *)
(* cancel() returns True for a call that is executed all the same: some schedule has the step
   LCancel 1 on a pending future (outcome True) before the step LBody 1 *)
Theorem C06_refuted_file_mode_cancel_true_yet_executed :
  exists sched s tr n1 n2,
    ftrace rf_cfg sched ra_init = Some (s, tr) /\ freach rf_cfg ra_init s
    /\ n1 < n2 /\ nth_error tr n1 = Some (FL (LCancel 1)) /\ nth_error tr n2 = Some (FL (LBody 1))
    /\ outs (fbase s) = [XOk; XBool true].
Proof. exact file_cancel_true_yet_executed_run. Qed.
Print Assumptions C06_refuted_file_mode_cancel_true_yet_executed.

(* a cancel() between the loop's done() test and set_result() kills the loop thread *)
Theorem C06_refuted_file_mode_cancel_kills_loop :
  frun rf_cfg rb_pre ra_init = Some rb_s0
  /\ fpc rb_s0 = GSetRes k1 1 [] [] /\ fut rb_s0 1 = FPending          (* past the done() test *)
  /\ fs_get (fsy rb_s0) (k1, EOut) = Some [DFn; DArgs; DKw; DOut]      (* the call has completed *)
  /\ fstep rf_cfg rb_s0 TM = Some (rb_s1, FL (LCancel 1))
  /\ fut rb_s1 1 = FCancelled /\ outs (fbase rb_s1) = [XOk; XBool true]
  /\ fstep rf_cfg rb_s1 TD = Some (rb_s2, FL (LSetRes 1 1))            (* set_result raises *)
  /\ fpc rb_s2 = GDead /\ disp (fx rb_s2) = DDead /\ loop_alive rb_s2 = false
  /\ freach rf_cfg ra_init rb_s2.
Proof. exact file_cancel_kills_loop. Qed.
Print Assumptions C06_refuted_file_mode_cancel_kills_loop.

(* shutdown(cancel_futures=True) terminates a call that has already started; its future is
   pending in a state in which nothing can move any more *)
Theorem C06_refuted_file_mode_shutdown_terminates_started_call :
  ftrace rf_cfg rc_pre rc_init = Some (rc_s0, trace_or rf_cfg rc_pre rc_init)
  /\ nth_error (trace_or rf_cfg rc_pre rc_init) 21 = Some (FL (LBody 1))      (* the function has run *)
  /\ map qpc (fps rc_s0) = [QOpenR]
  /\ frun rf_cfg rc_shut rc_s0 = Some rc_s1
  /\ fstep rf_cfg rc_s1 TD = Some (rc_s2, FL (LGetNw 0 (Some (Shut true))))   (* F takes the message *)
  /\ fpc rc_s2 = GTerm [1] /\ map qpc (fps rc_s2) = [QOpenR]                  (* P1 still running *)
  /\ fstep rf_cfg rc_s2 TD = Some (rc_s3, FL (LPTerm 1))
  /\ map qpc (fps rc_s3) = [QExit]                                            (* terminated *)
  /\ frun rf_cfg rc_end rc_s3 = Some rc_s4
  /\ fpc rc_s4 = GDone /\ main (fbase rc_s4) = MEnd /\ outs (fbase rc_s4) = [XOk; XOk]
  /\ map qpc (fps rc_s4) = [QExit]
  /\ fs_has (fsy rc_s4) (k1, EOut) = false
  /\ fut rc_s4 1 = FPending                                                   (* pending for ever: *)
  /\ fenabled rf_cfg rc_s4 = []                                               (* nothing can move *)
  /\ freach rf_cfg rc_init rc_s4.
Proof. exact file_shutdown_terminates_started_call. Qed.
Print Assumptions C06_refuted_file_mode_shutdown_terminates_started_call.

(* ---- per-call-process executor and dependency resolver (either inner executor), Proofs/Fidelity.v ---- *)
From EL Require Model.DepExec Proofs.StepSafe Proofs.DepSafe Proofs.Fidelity.
Theorem C06_percall_body_needs_running :
  forall c n prog x t x' i,
    ExecInv.wf_prog n prog -> StepSafe.xreach c (StepExec.xinit n prog) x ->
    StepExec.xstep c x t = Some (x', Exec.LBody i) -> Exec.getf (StepExec.base x) i = Exec.FRunning.
Proof. exact Fidelity.step_body_running. Qed.
Print Assumptions C06_percall_body_needs_running.

Theorem C06_percall_cancelled_never_runs :
  forall c n prog x x' t x'' i,
    ExecInv.wf_prog n prog -> StepSafe.xreach c (StepExec.xinit n prog) x ->
    (Exec.getf (StepExec.base x) i = Exec.FCancelled \/ Exec.getf (StepExec.base x) i = Exec.FCancelledN) ->
    StepSafe.xreach c x x' -> StepExec.xstep c x' t = Some (x'', Exec.LBody i) -> False.
Proof. exact Fidelity.step_cancelled_never_runs. Qed.
Print Assumptions C06_percall_cancelled_never_runs.

Theorem C06_resolver_body_needs_running :
  forall c n prog d t d' i,
    ExecInv.wf_prog n prog -> DepSafe.wf_deps c n -> DepSafe.dreach c (DepExec.dinit n prog) d ->
    DepExec.dstep c d t = Some (d', Exec.LBody i) -> Exec.getf (DepExec.dbase d) i = Exec.FRunning.
Proof. exact Fidelity.dep_body_running. Qed.
Print Assumptions C06_resolver_body_needs_running.

Theorem C06_resolver_cancelled_never_runs :
  forall c n prog d d' t d'' i,
    ExecInv.wf_prog n prog -> DepSafe.wf_deps c n -> DepSafe.dreach c (DepExec.dinit n prog) d ->
    (Exec.getf (DepExec.dbase d) i = Exec.FCancelled \/ Exec.getf (DepExec.dbase d) i = Exec.FCancelledN) ->
    DepSafe.dreach c d d' -> DepExec.dstep c d' t = Some (d'', Exec.LBody i) -> False.
Proof. exact Fidelity.dep_cancelled_never_runs. Qed.
Print Assumptions C06_resolver_cancelled_never_runs.

(* ---- a started call is never turned into a cancelled one, also in the per-call model and under the
   dependency resolver (every step of every thread; Proofs/ExecStarted.v) ---- *)
Theorem C06_percall_started_call_is_never_cancelled :
  forall c x t x' l i,
    StepExec.xstep c x t = Some (x', l) -> ExecStarted.started (getf (StepExec.base x) i) ->
    ExecStarted.started (getf (StepExec.base x') i).
Proof. exact ExecStarted.step_started_stays. Qed.
Print Assumptions C06_percall_started_call_is_never_cancelled.

Theorem C06_resolver_started_call_is_never_cancelled :
  forall c d t d' l i,
    DepExec.dstep c d t = Some (d', l) -> ExecStarted.started (getf (DepExec.dbase d) i) ->
    ExecStarted.started (getf (DepExec.dbase d') i).
Proof. exact ExecStarted.dep_started_stays. Qed.
Print Assumptions C06_resolver_started_call_is_never_cancelled.

(* ... and with cache_directory: the cache steps of the worker threads (hit path included) never turn a
   started call into a cancelled one either (Proofs/CacheStarted.v) *)
From EL Require Proofs.CacheStarted.
Theorem C06_cached_started_call_is_never_cancelled :
  forall c s t s' l i,
    CacheExec.cstep c s t = Some (s', l) -> ExecStarted.started (getf (CacheExec.cb s) i) ->
    ExecStarted.started (getf (CacheExec.cb s') i).
Proof. exact CacheStarted.cache_started_stays. Qed.
Print Assumptions C06_cached_started_call_is_never_cancelled.
