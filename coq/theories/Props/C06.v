(* C06 — cancellation.  Block-allocation executor model; proofs in Proofs/ExecSafe.v, ExecCor.v. *)
From Coq Require Import List Bool Arith.
From EL Require Import Model.Exec Model.ExecInv Proofs.ExecSafe Proofs.ExecCor.
Import ListNotations.

(* a function body is only ever entered for a future that is Running (i.e. whose worker asked
   set_running_or_notify_cancel and got True) *)
Theorem C06_body_needs_running :
  forall c n prog s t s' i,
    wf_prog n prog -> reach c (init n prog) s -> step c s t = Some (s', LBody i) -> getf s i = FRunning.
Proof. exact body_needs_running. Qed.
Print Assumptions C06_body_needs_running.

(* a cancelled future stays cancelled under every step of every thread *)
Theorem C06_cancelled_stays :
  forall c s t s' l i,
    step c s t = Some (s', l) -> is_cancelled (getf s i) -> is_cancelled (getf s' i).
Proof. exact cancelled_stays. Qed.
Print Assumptions C06_cancelled_stays.

(* cancel() returns True only if the future is cancelled afterwards ... *)
Theorem C06_cancel_true :
  forall f, snd (fcancel f) = true -> is_cancelled (fst (fcancel f)).
Proof. exact fcancel_true. Qed.
Print Assumptions C06_cancel_true.

(* ... hence: from any reachable state in which future i is cancelled, no continuation of any
   schedule ever executes the body of call i *)
Theorem C06_cancelled_never_runs :
  forall c n prog s s' t s'' i,
    wf_prog n prog -> reach c (init n prog) s -> is_cancelled (getf s i) ->
    reach c s s' -> step c s' t = Some (s'', LBody i) -> False.
Proof. exact cancelled_never_runs. Qed.
Print Assumptions C06_cancelled_never_runs.

Example C06_example :
  let c := mkC 1 (fun _ => false) in
  let s := fst (run c (repeat 0 200) (init 2 [OSubmit 1; OSubmit 2; OCancel 2; OExit])) in
  futs s = [FRes 1; FCancelledN] /\ main s = MEnd.
Proof. vm_compute. split; reflexivity. Qed.

(* ---- the block executor with cache_directory (Model/CacheExec.v, Proofs/CacheCancel.v): the second
   copy of the cancellation test, in _execute_task_with_cache ---- *)
From EL Require Model.FileExec Model.CacheExec Proofs.CacheSafe Proofs.CacheCancel Model.StepExec Proofs.FileSafe Proofs.FileRefute.

Theorem C06_cached_body_needs_running :
  forall c n prog fs0 s t s' i,
    wf_prog n prog -> CacheSafe.creach c (CacheExec.cinit n prog fs0) s ->
    CacheExec.cstep c s t = Some (s', FileExec.FL (LBody i)) -> getf (CacheExec.cb s) i = FRunning.
Proof. exact CacheCancel.cache_body_needs_running. Qed.
Print Assumptions C06_cached_body_needs_running.

(* once cancelled, never executed: the miss path and the hit path alike *)
Theorem C06_cached_cancelled_never_executed :
  forall c n prog fs0 s s' t u i,
    wf_prog n prog -> CacheSafe.creach c (CacheExec.cinit n prog fs0) s ->
    (getf (CacheExec.cb s) i = FCancelled \/ getf (CacheExec.cb s) i = FCancelledN) ->
    CacheSafe.creach c s s' -> CacheExec.cstep c s' t = Some (u, FileExec.FL (LBody i)) -> False.
Proof. exact CacheCancel.cache_cancelled_never_executed. Qed.
Print Assumptions C06_cached_cancelled_never_executed.

(* REFUTED on the cached path (finding D18): "cancelling a call neither delays, fails nor loses any
   other call".  One worker, call 1 complete in the directory, the identical call 2 submitted and
   cancelled while queued (cancel() returns True): the worker takes it, hits the cache, and
   set_result on the cancelled future kills the worker thread (InvalidStateError); its process
   stays alive and nothing but the client can move any more *)
Theorem C06_refuted_cancelled_hit_kills_worker :
  CacheSafe.creach CacheCancel.d18_cfg (CacheExec.cinit 2 CacheCancel.d18_prog []) CacheCancel.d18_state /\
  getf (CacheExec.cb CacheCancel.d18_state) 2 = FCancelled /\
  outs (CacheExec.cb CacheCancel.d18_state) = [XOk; XRes 1; XOk; XBool true] /\
  exists s', CacheExec.cstep CacheCancel.d18_cfg CacheCancel.d18_state (TW 1) = Some (s', FileExec.FL (LSetRes 2 1)) /\
    map wp (ws (CacheExec.cb s')) = [WDead] /\ palive (getp (CacheExec.cb s') 1) = true /\
    CacheExec.cenabled CacheCancel.d18_cfg s' = [TM].
Proof.
  destruct CacheCancel.cancelled_hit_kills_worker as [_ [_ [_ [Hr [_ [Hf [Ho [s' [Hs [_ [Hw [Hp He]]]]]]]]]]]].
  split; [exact Hr|]. split; [exact Hf|]. split; [exact Ho|]. exists s'. auto.
Qed.
Print Assumptions C06_refuted_cancelled_hit_kills_worker.

(* ---- the file-based executor (Model/FileExec.v): the property quantifies over all executor modes
   and is REFUTED there (findings D22, D26), witnesses by computation in Proofs/FileRefute.v ---- *)
(* cancel() returns True for a call that is executed all the same *)
Theorem C06_refuted_file_mode_cancel_true_yet_executed :
  exists (sched : list tid) (s : FileExec.fstateX) (tr : list FileExec.flabel) (n1 n2 : nat),
    FileRefute.ftrace FileRefute.rf_cfg sched FileRefute.ra_init = Some (s, tr) /\
    FileSafe.freach FileRefute.rf_cfg FileRefute.ra_init s /\
    n1 < n2 /\
    nth_error tr n1 = Some (FileExec.FL (LCancel 1)) /\       (* cancel() on a pending future ... *)
    nth_error tr n2 = Some (FileExec.FL (LBody 1)) /\         (* ... and later the function runs *)
    outs (FileExec.fbase s) = [XOk; XBool true].              (* cancel() had returned True *)
Proof. exact FileRefute.file_cancel_true_yet_executed_run. Qed.
Print Assumptions C06_refuted_file_mode_cancel_true_yet_executed.

(* a cancel() between the loop's done() test and set_result() kills the loop thread *)
Theorem C06_refuted_file_mode_cancel_kills_loop :
  FileExec.fpc FileRefute.rb_s0 = FileExec.GSetRes FileRefute.k1 1 [] [] /\
  FileExec.fstep FileRefute.rf_cfg FileRefute.rb_s0 TM = Some (FileRefute.rb_s1, FileExec.FL (LCancel 1)) /\
  outs (FileExec.fbase FileRefute.rb_s1) = [XOk; XBool true] /\
  FileExec.fstep FileRefute.rf_cfg FileRefute.rb_s1 TD = Some (FileRefute.rb_s2, FileExec.FL (LSetRes 1 1)) /\
  FileExec.fpc FileRefute.rb_s2 = FileExec.GDead /\
  FileSafe.freach FileRefute.rf_cfg FileRefute.ra_init FileRefute.rb_s2.
Proof.
  pose proof FileRefute.file_cancel_kills_loop as H. decompose [and] H. repeat split; assumption.
Qed.
Print Assumptions C06_refuted_file_mode_cancel_kills_loop.

(* shutdown(cancel_futures=True) terminates a call that has already started; its future is
   pending in a state in which nothing can move any more *)
Theorem C06_refuted_file_mode_shutdown_terminates_started_call :
  nth_error (FileRefute.trace_or FileRefute.rf_cfg FileRefute.rc_pre FileRefute.rc_init) 21 = Some (FileExec.FL (LBody 1)) /\
  main (FileExec.fbase FileRefute.rc_s4) = MEnd /\
  getf (FileExec.fbase FileRefute.rc_s4) 1 = FPending /\
  FileExec.fenabled FileRefute.rf_cfg FileRefute.rc_s4 = [] /\
  FileSafe.freach FileRefute.rf_cfg FileRefute.rc_init FileRefute.rc_s4.
Proof.
  pose proof FileRefute.file_shutdown_terminates_started_call as H. decompose [and] H. repeat split; assumption.
Qed.
Print Assumptions C06_refuted_file_mode_shutdown_terminates_started_call.
