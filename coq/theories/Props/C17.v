(* C17 — worker wire protocol: exactly one reply per request, in order.  Statements only. *)
From Coq Require Import ZArith String List Bool.
From EL Require Import Base.Dec Base.PyLib Model.Worker Proofs.C17Proofs Gen.WorkerSerial.
Import ListNotations.
Local Open Scope string_scope.
Local Open Scope list_scope.

(* For every function semantics [apply], every worker memory and EVERY finite sequence over the
   request alphabet {call (succeeding / raising / preset-using), init, shutdown, unrecognised},
   the loop body regenerated from interactive_serial.py, iterated over the sequence, sends
   exactly the replies of the specification — one per call (value or error), none per init,
   one acknowledgement for the first shutdown and nothing afterwards — and leaves the loop
   exactly if a shutdown request occurs. *)
Theorem C17_reply_trace :
  forall apply reqs mem,
    inits_ok apply reqs ->
    run (wstep_serial apply) mem (List.map to_py reqs)
    = Ok (spec_replies apply mem reqs, List.existsb is_shutdown reqs).
Proof. exact reply_trace. Qed.
Print Assumptions C17_reply_trace.

(* hence the number of replies equals the number of reply-bearing requests served, so the
   n-th reply answers the n-th reply-bearing request *)
Theorem C17_one_reply_per_request :
  forall apply reqs mem,
    inits_ok apply reqs ->
    List.length (spec_replies apply mem reqs) = List.length (List.filter bears_reply (served reqs)).
Proof. exact spec_length. Qed.
Print Assumptions C17_one_reply_per_request.

Theorem C17_serves_after_error :
  forall apply mem f a k e t,
    apply mem (to_py (RCall f a k)) = Err e ->
    spec_replies apply mem (RCall f a k :: t) = reply_err e :: spec_replies apply mem t.
Proof. exact serves_after_error. Qed.
Print Assumptions C17_serves_after_error.

(* C15, last sentence: preset values stay available — a call request never changes the
   worker memory *)
Theorem C17_call_keeps_memory :
  forall apply mem f a k,
    exists r, wstep_serial apply mem (to_py (RCall f a k)) = Ok (VTuple [mem; r; VBool false]).
Proof. exact call_keeps_memory. Qed.
Print Assumptions C17_call_keeps_memory.

Example C17_example :
  let apply := fun (m r : pyval) =>
                 match m, r with
                 | VNone, VDict ((VStr "init", _) :: _) => Ok (VInt 1)
                 | VNone, _ => Err "TypeError"
                 | _, _ => Ok m
                 end in
  run (wstep_serial apply) VNone
      (List.map to_py [RCall VNone VNone VNone; RInit VNone; RJunk; RCall VNone VNone VNone;
                       RShutdown VNone; RCall VNone VNone VNone])
  = Ok ([reply_err "TypeError"; reply_ok (VInt 1); ack], true).
Proof. vm_compute. reflexivity. Qed.
