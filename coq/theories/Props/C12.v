(* C12 — no ghost processes after shutdown.  Block-allocation executor model, programs without
   failing calls (the re-raise path is findings D16/D23); proofs in Proofs/ExecLive.v. *)
From Coq Require Import List Bool Arith.
From EL Require Import Model.Exec Model.ExecInv Proofs.ExecLiveCor.
From EL Require Import Model.StepExec Model.LiveSpec Proofs.StepSafe Proofs.StepLive Proofs.StepLiveCor.
From EL Require Import Model.StepExec Model.DepExec Model.LiveSpec Proofs.DepSafe Proofs.DepLiveCor.
Import ListNotations.

(* when shutdown(wait=True) / the with-block returns: every worker process has exited and every
   worker thread has finished *)
Theorem C12_exited_when_wait_shutdown_returns :
  forall c n prog s,
    nofail c -> 1 <= nworkers c -> wf_prog n prog -> reach c (init n prog) s ->
    forall s', step c s TM = Some (s', LQJoin 0) ->
      (forall i, In i (subm s') -> fdone (getf s' i) = true)
      /\ (forall p, In p (ps s') -> palive p = false)
      /\ (forall w, In w (ws s') -> wdone w = true).
Proof. exact after_wait_thm. Qed.
Print Assumptions C12_exited_when_wait_shutdown_returns.

(* with wait=False, or when the executor is merely dropped: once nothing can move any more all
   processes have exited and all threads have finished (and the measure theorem of C05 says that
   this state is reached under every schedule) *)
Theorem C12_exited_at_rest :
  forall c n prog s,
    nofail c -> 1 <= nworkers c -> wf_prog n prog -> reach c (init n prog) s ->
    enabled c s = [] ->
    (forall p, In p (ps s) -> palive p = false) /\ (forall w, In w (ws s) -> wdone w = true).
Proof. exact all_exited_thm. Qed.
Print Assumptions C12_exited_at_rest.

(* with the dependency resolver in front: at rest every worker process has exited, every worker
   thread and the resolver thread have finished *)
Theorem C12_resolver_exited_at_rest :
  forall c n prog d k,
    dinner c = IBlock k -> 1 <= k -> (forall i, xraises (dx c) i = false) ->
    wf_prog n prog -> wf_deps c n -> dreach c (dinit n prog) d ->
    denabled c d = [] ->
    (forall p, In p (ps (dbase d)) -> palive p = false) /\ (forall w, In w (ws (dbase d)) -> wdone w = true) /\ rp d = RDone.
Proof.
  intros c n prog d k H1 H2 H3 H4 H5 H6 H7.
  pose proof (dep_rest c n prog d k H1 H2 H3 H4 H5 H6 H7) as [_ [_ [Hp [Hw Hr]]]]. auto.
Qed.
Print Assumptions C12_resolver_exited_at_rest.

(* the per-call-process executor: at rest every call process has exited, every call thread and the
   dispatcher have finished *)
Theorem C12_percall_exited_at_rest :
  forall c n prog x,
    xnofail c -> fits c -> wf_prog n prog -> xreach c (xinit n prog) x ->
    xenabled c x = [] ->
    (forall p, In p (ps (base x)) -> palive p = false) /\ (forall w, In w (ws (base x)) -> wdone w = true) /\ disp x = DDone.
Proof.
  intros c n prog x H1 H2 H3 H4 H5. pose proof (step_rest c n prog x H1 H2 H3 H4 H5) as [_ [_ [Hp [Hw Hd]]]]. auto.
Qed.
Print Assumptions C12_percall_exited_at_rest.

(* and the resolver in front of the per-call-process executor *)
Theorem C12_resolver_percall_exited_at_rest :
  forall c n prog d,
    dinner c = IStep -> StepLive.fits (dx c) -> (forall i, xraises (dx c) i = false) ->
    wf_prog n prog -> wf_deps c n -> dreach c (dinit n prog) d ->
    denabled c d = [] ->
    (forall p, In p (ps (dbase d)) -> palive p = false) /\ (forall w, In w (ws (dbase d)) -> wdone w = true) /\ rp d = RDone.
Proof.
  intros c n prog d H1 H2 H3 H4 H5 H6 H7.
  pose proof (dep_rest_step c n prog d H1 H2 H3 H4 H5 H6 H7) as [_ [_ [Hp [Hw Hr]]]]. auto.
Qed.
Print Assumptions C12_resolver_percall_exited_at_rest.
