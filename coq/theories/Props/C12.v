(* C12 — no ghost processes after shutdown.  Block-allocation executor model, programs without
   failing calls (the re-raise path is findings D16/D23); proofs in Proofs/ExecLive.v. *)
From Coq Require Import List Bool Arith.
From EL Require Import Model.Exec Model.ExecInv Proofs.ExecLiveCor.
Import ListNotations.

(* when shutdown(wait=True) / the with-block returns: every worker process has exited and every
   worker thread has finished *)
Theorem C12_exited_when_wait_shutdown_returns :
  forall c n prog s,
    nofail c -> 1 <= nworkers c -> wf_prog n prog -> reach c (init n prog) s ->
    forall s', step c s TM = Some (s', LQJoin 0) ->
      (forall i, In i (subm s') -> fdone (getf s' i) = true)
      /\ (forall p, In p (ps s') -> palive p = false)
      /\ (forall w, In w (ws s') -> wdone w = true).
Proof. exact after_wait_thm. Qed.
Print Assumptions C12_exited_when_wait_shutdown_returns.

(* with wait=False, or when the executor is merely dropped: once nothing can move any more all
   processes have exited and all threads have finished (and the measure theorem of C05 says that
   this state is reached under every schedule) *)
Theorem C12_exited_at_rest :
  forall c n prog s,
    nofail c -> 1 <= nworkers c -> wf_prog n prog -> reach c (init n prog) s ->
    enabled c s = [] ->
    (forall p, In p (ps s) -> palive p = false) /\ (forall w, In w (ws s) -> wdone w = true).
Proof. exact all_exited_thm. Qed.
Print Assumptions C12_exited_at_rest.
