(* C12 — no ghost processes after shutdown.  Block-allocation executor model, programs without
   failing calls (the re-raise path is findings D16/D23); proofs in Proofs/ExecLive.v. *)
From Coq Require Import List Bool Arith.
From EL Require Import Model.Exec Model.ExecInv Proofs.ExecLiveCor.
From EL Require Import Model.StepExec Model.LiveSpec Proofs.StepSafe Proofs.StepLive Proofs.StepLiveCor.
From EL Require Import Model.StepExec Model.DepExec Model.LiveSpec Proofs.DepSafe Proofs.DepLiveCor.
Import ListNotations.

(* when shutdown(wait=True) / the with-block returns: every worker process has exited and every
   worker thread has finished *)
Theorem C12_exited_when_wait_shutdown_returns :
  forall c n prog s,
    nofail c -> 1 <= nworkers c -> wf_prog n prog -> reach c (init n prog) s ->
    forall s', step c s TM = Some (s', LQJoin 0) ->
      (forall i, In i (subm s') -> fdone (getf s' i) = true)
      /\ (forall p, In p (ps s') -> palive p = false)
      /\ (forall w, In w (ws s') -> wdone w = true).
Proof. exact after_wait_thm. Qed.
Print Assumptions C12_exited_when_wait_shutdown_returns.

(* with wait=False, or when the executor is merely dropped: once nothing can move any more all
   processes have exited and all threads have finished (and the measure theorem of C05 says that
   this state is reached under every schedule) *)
Theorem C12_exited_at_rest :
  forall c n prog s,
    nofail c -> 1 <= nworkers c -> wf_prog n prog -> reach c (init n prog) s ->
    enabled c s = [] ->
    (forall p, In p (ps s) -> palive p = false) /\ (forall w, In w (ws s) -> wdone w = true).
Proof. exact all_exited_thm. Qed.
Print Assumptions C12_exited_at_rest.

(* with the dependency resolver in front: at rest every worker process has exited, every worker
   thread and the resolver thread have finished *)
Theorem C12_resolver_exited_at_rest :
  forall c n prog d k,
    dinner c = IBlock k -> 1 <= k -> (forall i, xraises (dx c) i = false) ->
    wf_prog n prog -> wf_deps c n -> dreach c (dinit n prog) d ->
    denabled c d = [] ->
    (forall p, In p (ps (dbase d)) -> palive p = false) /\ (forall w, In w (ws (dbase d)) -> wdone w = true) /\ rp d = RDone.
Proof.
  intros c n prog d k H1 H2 H3 H4 H5 H6 H7.
  pose proof (dep_rest c n prog d k H1 H2 H3 H4 H5 H6 H7) as [_ [_ [Hp [Hw Hr]]]]. auto.
Qed.
Print Assumptions C12_resolver_exited_at_rest.

(* the per-call-process executor: at rest every call process has exited, every call thread and the
   dispatcher have finished *)
Theorem C12_percall_exited_at_rest :
  forall c n prog x,
    xnofail c -> fits c -> wf_prog n prog -> xreach c (xinit n prog) x ->
    xenabled c x = [] ->
    (forall p, In p (ps (base x)) -> palive p = false) /\ (forall w, In w (ws (base x)) -> wdone w = true) /\ disp x = DDone.
Proof.
  intros c n prog x H1 H2 H3 H4 H5. pose proof (step_rest c n prog x H1 H2 H3 H4 H5) as [_ [_ [Hp [Hw Hd]]]]. auto.
Qed.
Print Assumptions C12_percall_exited_at_rest.

(* and the resolver in front of the per-call-process executor *)
Theorem C12_resolver_percall_exited_at_rest :
  forall c n prog d,
    dinner c = IStep -> StepLive.fits (dx c) -> (forall i, xraises (dx c) i = false) ->
    wf_prog n prog -> wf_deps c n -> dreach c (dinit n prog) d ->
    denabled c d = [] ->
    (forall p, In p (ps (dbase d)) -> palive p = false) /\ (forall w, In w (ws (dbase d)) -> wdone w = true) /\ rp d = RDone.
Proof.
  intros c n prog d H1 H2 H3 H4 H5 H6 H7.
  pose proof (dep_rest_step c n prog d H1 H2 H3 H4 H5 H6 H7) as [_ [_ [Hp [Hw Hr]]]]. auto.
Qed.
Print Assumptions C12_resolver_percall_exited_at_rest.

(* ---- REFUTED on the code as it is: witnesses by computation on the executable models
   (Proofs/Refute.v); each is a recorded finding (KNOWN_FINDINGS.txt) ---- *)
From EL Require Model.Exec Model.ExecInv Model.StepExec Model.FileExec Model.FileSpec Model.CacheExec Proofs.FileSafe Proofs.FileRefute Proofs.CacheSafe Proofs.Refute.
Module RefutedC12.
Import Exec ExecInv StepExec FileExec FileSpec CacheExec FileSafe FileRefute CacheSafe Refute.
Import ListNotations.

(* finding D16: shutdown(wait=True) re-raises the first failed thread's exception and returns while another worker process is still alive (and goes on to execute its call) *)
Theorem C12_refuted_shutdown_returns_with_live_process :
  erun d16_cfg d16_pre d16_init = Some d16_s0
  /\ main d16_s0 = MJoin 0 /\ ops d16_s0 = [OShutdown true false; ODrop]
  /\ step d16_cfg d16_s0 TM = Some (d16_s1, LTJoin 1)
  /\ outs d16_s1 = [XOk; XOk; XRaise]                                 (* shutdown raised *)
  /\ last (outs d16_s1) XSkip = XRaise
  /\ main d16_s1 = MEnd /\ ops d16_s1 = []                            (* the client is past the shutdown *)
  /\ map wp (ws d16_s1) = [WDead; WRecv 2]
  /\ map pp (ps d16_s1) = [PExit; PBody 2]                            (* P2 is alive, inside call 2 *)
  /\ existsb palive (ps d16_s1) = true
  /\ futs d16_s1 = [FExc; FRunning]
  /\ step d16_cfg d16_s1 (TP 2) = Some (d16_s2, LBody 2)              (* the function runs afterwards *)
  /\ reach d16_cfg d16_init d16_s1.
Proof. exact block_shutdown_reraises_with_live_process. Qed.
Print Assumptions C12_refuted_shutdown_returns_with_live_process.

(* finding D23: a surviving worker thread blocks for ever after a failing call (ghost thread) *)
Theorem C12_refuted_surviving_worker_blocks_forever :
  (erun d23_cfg d23a_sched d23_init = Some d23a_state
   /\ enabled d23_cfg d23a_state = []                                (* nothing can move *)
   /\ main d23a_state = MJoin 0                                      (* the client: in join of W1 *)
   /\ ops d23a_state = [OShutdown true false; ODrop]                 (* ... inside the shutdown *)
   /\ outs d23a_state = [XOk]
   /\ map wp (ws d23a_state) = [WSQJoin; WDead]                      (* W1: in queue.join() *)
   /\ map pp (ps d23a_state) = [PExit; PExit]
   /\ getq d23a_state 0 = mkQ [Shut true] 1                          (* W2's message is never taken *)
   /\ qunf (getq d23a_state 0) <> 0
   /\ main d23a_state <> MEnd
   /\ getf d23a_state 1 = FExc
   /\ reach d23_cfg d23_init d23a_state)
  /\
  (erun d23_cfg d23b_sched d23_init = Some d23b_state
   /\ enabled d23_cfg d23b_state = []
   /\ main d23b_state = MEnd /\ outs d23b_state = [XOk; XRaise]      (* the shutdown raised *)
   /\ map wp (ws d23b_state) = [WDead; WSQJoin]                      (* W2: in queue.join() for ever *)
   /\ existsb (fun w => match wp w with WSQJoin => true | _ => false end) (ws d23b_state) = true
   /\ map pp (ps d23b_state) = [PExit; PExit]
   /\ getq d23b_state 0 = mkQ [Shut true] 1
   /\ qunf (getq d23b_state 0) <> 0
   /\ getf d23b_state 1 = FExc
   /\ reach d23_cfg d23_init d23b_state).
Proof. exact block_failed_call_blocks_survivors. Qed.
Print Assumptions C12_refuted_surviving_worker_blocks_forever.
End RefutedC12.

(* ---- the block-allocation executor WITH cache_directory (Model/CacheExec.v: the cache steps of a
   worker thread - listdir, the hit path, the dump - laid over Model/Exec.v; tied to the code by full
   lockstep).  Proofs/CacheLive.v (935 lines): for every program without failing calls and without
   cancellation (finding D18) that submits no two identical calls (finding D17), every number of
   workers, ANY initial cache directory (hits on complete and on incomplete entries included) and
   every kill-free schedule: when no thread or process can take a step, the client has finished,
   every submitted future is done, every worker process has exited, every worker thread has ended. ---- *)
From EL Require Model.FileSpec Model.CacheExec Model.CacheLiveSpec Proofs.CacheLive Proofs.CacheLiveCor.
Theorem C12_cached_rest_state :
  forall c n prog fs0 s,
    nofail (CacheExec.cbase c) -> 1 <= nworkers (CacheExec.cbase c) -> wf_prog n prog -> FileSpec.nocancel prog = true ->
    CacheLiveSpec.canon_inj_on c prog ->
    CacheLive.creach_nk c (CacheExec.cinit n prog fs0) s ->
    CacheExec.cenabled c s = [] ->
    main (CacheExec.cb s) = MEnd
    /\ (forall i, In i (subm (CacheExec.cb s)) -> fdone (getf (CacheExec.cb s) i) = true)
    /\ (forall p, In p (ps (CacheExec.cb s)) -> palive p = false)
    /\ (forall w, In w (ws (CacheExec.cb s)) -> wdone w = true).
Proof. exact CacheLiveCor.cache_rest. Qed.
Print Assumptions C12_cached_rest_state.
