(* C09 — cache reuse: completed results persist and are not recomputed.  Persistence protocol
   model (Model/CacheFs.v); proofs in Proofs/CacheProofs.v.  That a hit does not execute the
   function again is checked on the real code (execution counter, directory contents) in every
   run, across executor lifetimes. *)
From Coq Require Import List Bool Arith.
From EL Require Import Model.CacheFs Proofs.CacheProofs.
Import ListNotations.

(* executorlib never alters a completed entry: no operation of the submit side or of the
   interactive writer changes a complete published file (create_dataset refuses existing names,
   open-append keeps the content, nothing removes or renames a published file) *)
Theorem C09_complete_entry_untouched :
  forall (e : entry) (f : file) (o : fsop),
    f_out e = Some f -> complete f = true ->
    In o (submit_ops true ++ submit_ops false ++ interactive_ops) ->
    match apply_op e o with Some e' => f_out e' = Some f | None => True end.
Proof. exact complete_entry_untouched. Qed.
Print Assumptions C09_complete_entry_untouched.

(* the only operation that replaces a published file is the worker's final rename, and what it
   publishes is complete (C14) *)
Theorem C09_only_complete_files_are_published :
  forall (fin : file) (leftover : option file) (k : nat),
    in_complete fin = true ->
    let e := apply_ops (mkE (Some fin) leftover None) (firstn k worker_ops) in
    accepted_file_mode e = true -> match f_out e with Some f => complete f = true | None => False end.
Proof. exact worker_publish_atomic. Qed.
Print Assumptions C09_only_complete_files_are_published.

(* the key is a function of the function name and the serialised call: the same call has the same
   key in the same executor, a new executor or a new interpreter (cloudpickle determinism assumed) *)
From EL Require Import Model.Blank Proofs.KeyProofs.
Theorem C09_key_deterministic :
  forall (call : Type) (name_of ser : call -> Blank.bytes) (H : Blank.bytes -> Blank.bytes) c1 c2,
    name_of c1 = name_of c2 -> ser c1 = ser c2 -> key call name_of ser H c1 = key call name_of ser H c2.
Proof. exact key_deterministic. Qed.
Print Assumptions C09_key_deterministic.

(* ---- the file executor at point level (Model/FileExec.v: client, loop thread, one process per
   started call, the cache directory; tied to the code by lockstep incl. several sessions and killed
   processes).  Proofs/FileSafe.v.  Transitions: any step of any thread or process, or the kill
   of a process from outside; initial directory fs0 arbitrary (whatever earlier runs left). ---- *)
From EL Require Import Model.Exec Model.ExecInv Model.StepExec Model.FileExec Model.FileSpec Proofs.FileSafe.

(* a completed result file (one that holds the output) is never deleted or changed by any step of
   the file executor or its processes, nor by killing a process *)
Theorem C09_file_mode_never_alters_completed_entry :
  forall c n prog fs0 s s',
    nocancel prog = true -> wf_prog n prog -> fs_wf fs0 ->
    FileSafe.freach c (finit n prog fs0) s -> ftrans c s s' -> outs_kept (fsy s) (fsy s') = true.
Proof. exact outs_never_altered. Qed.
Print Assumptions C09_file_mode_never_alters_completed_entry.

(* submitting a call whose result file exists starts no process: the future is registered and
   later completed from the file *)
Theorem C09_file_mode_hit_starts_nothing :
  forall c s s' i k w,
    fpc s = GListdir i k w -> fs_has (fsy s) (k, EOut) = true -> fstep c s TD = Some (s', LListdir) ->
    fpc s' = GTd /\ fps s' = fps s /\ fsy s' = fsy s /\ assoc_key (mem s') k = Some i.
Proof. exact no_rerun. Qed.
Print Assumptions C09_file_mode_hit_starts_nothing.

(* ---- the interactive cache at point level (Model/CacheExec.v: the cache steps of a worker thread
   laid over Model/Exec.v; tied to the code by full lockstep incl. hits, identical calls in flight,
   sessions and killed workers).  Proofs/CacheSafe.v.  Every program (cancellations and failing
   calls included), worker count, schedule, kill of a worker thread and initial directory of
   result files with prefixes of [function; input_args; input_kwargs; output]. ---- *)
From EL Require Model.Exec Model.FileExec Model.FileSpec Model.CacheExec Model.CacheSpec Proofs.CacheSafe.

(* the interactive cache never deletes or changes an entry that holds its output: no hypothesis on
   the program *)
Theorem C09_interactive_cache_never_alters_completed_entry :
  forall c n prog fs0 s s',
    CacheSpec.dir_ok fs0 = true -> CacheSafe.fs_wf fs0 ->
    CacheSafe.creach c (CacheExec.cinit n prog fs0) s -> CacheSafe.ctrans c s s' ->
    FileSpec.outs_kept (CacheExec.cfs s) (CacheExec.cfs s') = true.
Proof. exact CacheSafe.completed_never_altered. Qed.
Print Assumptions C09_interactive_cache_never_alters_completed_entry.

(* ---- REFUTED for calls with Future arguments in file mode (finding D27; Proofs/FileRefuteKey.v): two
   sessions over one directory submit the same calls g(1) and f(g(1)); in the second the consumer is
   submitted after the producer's future completed.  On the lockstep-tied model - replaying the picks of
   a run of the real code - the body of f runs once in EACH session and the directory ends up with two
   complete entries for f(g(1)). ---- *)
From EL Require Proofs.FileRefuteKey.
Theorem C09_refuted_future_argument_two_keys : ltac:(let t := type of FileRefuteKey.same_call_two_keys in exact t).
Proof. exact FileRefuteKey.same_call_two_keys. Qed.
Print Assumptions C09_refuted_future_argument_two_keys.
