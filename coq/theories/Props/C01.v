(* C01 — result fidelity.  Statements about the block-allocation executor model (Model/Exec.v,
   tied to the code by the lockstep check); proofs in Proofs/ExecSafe.v. *)
From Coq Require Import List Bool Arith.
From EL Require Import Model.Exec Model.ExecInv Proofs.ExecSafe.
Import ListNotations.

(* every number of workers, every program of submit/cancel/result/shutdown/exit operations
   (failing calls included), every schedule: a future that holds a result holds the value of
   its OWN call (values are the free interpretation: the value of call i is i) *)
Theorem C01_fidelity :
  forall c n prog s i v,
    wf_prog n prog -> reach c (init n prog) s -> 1 <= i <= n -> getf s i = FRes v -> v = i.
Proof. exact fidelity. Qed.
Print Assumptions C01_fidelity.

(* the mechanism behind it: a worker's PAIR channel never carries more than one message *)
Theorem C01_one_outstanding_request :
  forall c n prog s p,
    wf_prog n prog -> reach c (init n prog) s -> In p (ps s) -> length (inbox p) + length (outbox p) <= 1.
Proof. exact one_request_at_a_time. Qed.
Print Assumptions C01_one_outstanding_request.

(* the full invariant: ownership of calls, channel contents, values, Running flags *)
Theorem C01_invariant :
  forall c n prog s, wf_prog n prog -> reach c (init n prog) s -> inv_safe c s = true.
Proof. exact safe_reach. Qed.
Print Assumptions C01_invariant.

Example C01_example :
  let c := mkC 2 (fun _ => false) in
  let s := fst (run c (repeat 0 200) (init 2 [OSubmit 1; OSubmit 2; OExit])) in
  futs s = [FRes 1; FRes 2] /\ main s = MEnd.
Proof. vm_compute. split; reflexivity. Qed.

(* ---- the same for the per-call-process executor and for the dependency resolver in front of
   either executor (Proofs/Fidelity.v): a future that holds a result holds its own call's value ---- *)
From EL Require Model.StepExec Model.DepExec Proofs.StepSafe Proofs.DepSafe Proofs.Fidelity.
Theorem C01_fidelity_percall :
  forall c n prog x i v,
    wf_prog n prog -> StepSafe.xreach c (StepExec.xinit n prog) x -> 1 <= i ->
    getf (StepExec.base x) i = FRes v -> v = i.
Proof. exact Fidelity.step_fidelity. Qed.
Print Assumptions C01_fidelity_percall.

Theorem C01_fidelity_resolver :
  forall c n prog d i v,
    wf_prog n prog -> DepSafe.wf_deps c n -> DepSafe.dreach c (DepExec.dinit n prog) d -> 1 <= i ->
    getf (DepExec.dbase d) i = FRes v -> v = i.
Proof. exact Fidelity.dep_fidelity. Qed.
Print Assumptions C01_fidelity_resolver.
