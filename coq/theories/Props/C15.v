(* C15 — init_function presets fill only what the caller left open.  Statements only;
   proofs in Proofs/C15Proofs.v over call_funct / _update_dict_delta / check_init_function
   regenerated from the repository. *)
From Coq Require Import ZArith String List Bool.
From EL Require Import Base.Dec Base.PyLib Proofs.DictFacts Proofs.C15Proofs Gen.Backend Gen.InputCheck.
Import ListNotations.
Local Open Scope string_scope.

(* For every declared parameter list [names], every positional argument tuple/list [pos],
   every keyword dictionary [kw] and every preset dictionary [mem] (any overlap with the
   signature), the function is finally applied to the caller's positional arguments,
   unchanged, and to the keyword dictionary [kw_eff] ... *)
Theorem C15_call_with_presets :
  forall names fn tup pos kw mem funct,
    NoDup (keys mem) ->
    call_funct (strs names) (request fn tup pos kw) funct (sdict mem)
    = Ok (fn, mkargs tup pos, sdict (kw_eff names pos kw mem)).
Proof. exact call_funct_with_memory. Qed.
Print Assumptions C15_call_with_presets.

(* ... in which a name is bound to the caller's keyword value if there is one; otherwise to
   the preset value, but only if the name is a declared parameter not already bound
   positionally; otherwise it is absent (undeclared preset keys are ignored). *)
Theorem C15_presets_fill_open_only :
  forall names pos kw mem x,
    NoDup (keys mem) ->
    assoc x (kw_eff names pos kw mem)
    = match assoc x kw with
      | Some v => Some v
      | None => if List.existsb (String.eqb x) (List.skipn (List.length pos) names)
                then assoc x mem else None
      end.
Proof. exact kw_eff_lookup. Qed.
Print Assumptions C15_presets_fill_open_only.

Theorem C15_no_presets_no_change :
  forall names fn tup pos kw funct,
    call_funct (strs names) (request fn tup pos kw) funct VNone = Ok (fn, mkargs tup pos, sdict kw).
Proof. exact call_funct_without_memory. Qed.
Print Assumptions C15_no_presets_no_change.

(* init_function is refused without block allocation *)
Theorem C15_init_needs_block_allocation :
  forall f, is_none f = false -> check_init_function (VBool false) f = Err "ValueError".
Proof. intros f H. unfold check_init_function. cbn. rewrite H. reflexivity. Qed.
Print Assumptions C15_init_needs_block_allocation.

Example C15_example :
  assoc "b" (kw_eff ["a"; "b"; "c"] [VInt 5] [("c", VInt 9)] [("a", VInt 1); ("b", VInt 7); ("c", VInt 8); ("zz", VInt 0)])
  = Some (VInt 7)
  /\ assoc "a" (kw_eff ["a"; "b"; "c"] [VInt 5] [("c", VInt 9)] [("a", VInt 1); ("b", VInt 7); ("c", VInt 8); ("zz", VInt 0)]) = None
  /\ assoc "c" (kw_eff ["a"; "b"; "c"] [VInt 5] [("c", VInt 9)] [("a", VInt 1); ("b", VInt 7); ("c", VInt 8); ("zz", VInt 0)]) = Some (VInt 9)
  /\ assoc "zz" (kw_eff ["a"; "b"; "c"] [VInt 5] [("c", VInt 9)] [("a", VInt 1); ("b", VInt 7); ("c", VInt 8); ("zz", VInt 0)]) = None.
Proof. vm_compute. repeat split. Qed.
