(* C16 — launch command lines request exactly the specified resources, validly; the
   worker-side parser recovers host and port.  Statements only; proofs in Proofs/C16Proofs.v
   over the definitions regenerated from the repository (modules Gen). *)
From Coq Require Import ZArith String List Bool.
From EL Require Import Base.Dec Base.PyLib Model.Grammar Proofs.C16Proofs.
From EL Require Import Gen.Spawner Gen.Communication Gen.Backend Gen.SharedPath Gen.CacheCmd.
Import ListNotations.
Local Open Scope string_scope.
Local Open Scope Z_scope.

(* srun: the builder's output is  prefix ++ extra  where the prefix, read back by the srun
   option grammar in front of ANY command (interp :: rest), yields exactly the request and
   leaves the command untouched; extra arguments follow in order. *)
Theorem C16_srun_builder :
  forall cores cwd tpc gpc over extra,
    generate_slurm_command (VInt cores) (opt_str cwd) (VInt tpc) (VInt gpc) (VBool over) (strs extra)
    = Ok (strs (srun_prefix cores cwd tpc gpc over ++ extra)).
Proof. exact slurm_shape. Qed.
Print Assumptions C16_srun_builder.

Theorem C16_srun_decodes :
  forall cores cwd tpc gpc over interp rest,
    1 <= cores -> starts_dash interp = false ->
    decode_srun (srun_prefix cores cwd tpc gpc over ++ interp :: rest)
    = Some (norm_req (mkReq cores cwd tpc gpc over), interp :: rest).
Proof. exact srun_decodes. Qed.
Print Assumptions C16_srun_decodes.

(* what Popen receives from an SrunSpawner built with these resources *)
Theorem C16_srun_launch :
  forall cwd cores tpc gpc over extra cmd,
    ('(_, self) <- SrunSpawner___init__ (VDict []) (opt_str cwd) (VInt cores) (VInt tpc) (VInt gpc)
                     (VBool over) (strs extra) ;;
     SrunSpawner_bootup self (strs cmd))
    = Ok (strs (srun_prefix cores cwd tpc gpc over ++ extra ++ cmd), opt_str cwd).
Proof. exact srun_spawner_popen. Qed.
Print Assumptions C16_srun_launch.

Theorem C16_mpiexec_builder :
  forall cores over,
    generate_mpiexec_command (VInt cores) (VBool over) = Ok (strs (mpi_prefix cores over)).
Proof. exact mpiexec_shape. Qed.
Print Assumptions C16_mpiexec_builder.

Theorem C16_mpiexec_decodes :
  forall cores over interp rest,
    1 <= cores -> starts_dash interp = false -> String.eqb interp "mpiexec" = false ->
    decode_mpiexec (mpi_prefix cores over ++ interp :: rest)
    = Some (cores, (if cores =? 1 then false else over), interp :: rest).
Proof. exact mpiexec_decodes. Qed.
Print Assumptions C16_mpiexec_decodes.

Theorem C16_mpiexec_launch :
  forall cwd cores tpc over cmd,
    ('(_, self) <- SubprocessSpawner___init__ (VDict []) (opt_str cwd) (VInt cores) (VBool over) (VInt tpc) ;;
     MpiExecSpawner_bootup self (strs cmd))
    = Ok (strs (mpi_prefix cores over ++ cmd), opt_str cwd).
Proof. exact mpi_spawner_popen. Qed.
Print Assumptions C16_mpiexec_launch.

(* worker command = interpreter, backend script, optional --host, --zmqport *)
Theorem C16_backend_script :
  forall exe ppar pser has cores,
    _get_backend_path (VStr exe) (VBool has) (VStr ppar) (VStr pser) (VInt cores)
    = if cores >? 1 then (if has then Ok (strs [exe; ppar]) else Err "ImportError")
      else Ok (strs [exe; pser]).
Proof. exact backend_path_shape. Qed.
Print Assumptions C16_backend_script.

Theorem C16_worker_command :
  forall platform host port cmd conn hl,
    interface_bootup (VStr platform) (VStr host) (VInt port) (strs cmd) conn (opt_bool hl)
    = Ok (strs (cmd ++ worker_flags platform host port hl)).
Proof. exact bootup_shape. Qed.
Print Assumptions C16_worker_command.

(* the worker's sys.argv is the worker command without the interpreter; every host name
   other than the literal "--zmqport" and every port are recovered *)
Theorem C16_parser_recovers :
  forall platform host port hl script,
    String.eqb "--host" script = false -> String.eqb "--zmqport" script = false ->
    String.eqb "--zmqport" host = false ->
    parse_arguments (strs (script :: worker_flags platform host port hl))
    = Ok (VDict [(VStr "host", VStr (if localhost_mode platform hl then "localhost" else host));
                 (VStr "zmqport", VStr (dec port))])
    /\ undec (dec port) = Some port.
Proof. intros; split; [apply parse_recovers; assumption | apply undec_dec]. Qed.
Print Assumptions C16_parser_recovers.

Theorem C16_file_mode_command :
  forall exe ppar pser has file cores,
    _get_execute_command (VStr exe) (VBool has) (VStr ppar) (VStr pser) (VStr file) (VInt cores)
    = if cores >? 1
      then (if has then Ok (strs (["mpiexec"; "-n"; dec cores] ++ [exe; ppar; file])) else Err "ImportError")
      else Ok (strs [exe; pser; file]).
Proof. exact execute_command_shape. Qed.
Print Assumptions C16_file_mode_command.

(* non-vacuity: the hypotheses are met by ordinary inputs, and the statements compute *)
Example C16_example :
  decode_srun (srun_prefix 4 (Some "/scratch/my run") 2 1 true ++ ["/usr/bin/python"; "worker.py"])
  = Some (mkReq 4 (Some "/scratch/my run") 2 1 true, ["/usr/bin/python"; "worker.py"]).
Proof. vm_compute. reflexivity. Qed.
