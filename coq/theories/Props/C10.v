(* C10 — per-call resources are honoured, scoped to the call, never silently dropped.
   Statements; proofs in Proofs/C10Proofs.v over the merging code regenerated from the repository
   (Gen.SharedRes, Gen.CacheRes, Gen.InputCheck).  The launch half (worker started with exactly
   these cores / threads / GPUs / flags / extra arguments in this cwd) is C16_srun_launch /
   C16_mpiexec_launch applied to the effective values. *)
From Coq Require Import ZArith String List Bool Lia.
From EL Require Import Base.Dec Base.PyLib Proofs.DictFacts Proofs.C10Proofs Gen.InputCheck Gen.SharedRes Gen.CacheRes.
Import ListNotations.
Local Open Scope string_scope.

(* block allocation refuses every non-empty per-call dictionary *)
Theorem C10_block_rejects :
  forall p rd, broker_submit_checks (sdict (p :: rd)) = Err "ValueError".
Proof.
  intros p rd. unfold broker_submit_checks, check_resource_dict_is_empty. cbn -[Z.gtb Z.of_nat].
  assert (E : (Z.of_nat (S (List.length (kvs rd))) >? 0)%Z = true) by (apply Z.gtb_lt; lia).
  rewrite E. reflexivity.
Qed.
Print Assumptions C10_block_rejects.

Theorem C10_block_accepts_empty : broker_submit_checks (sdict []) = Ok (VTuple [sdict []]).
Proof. reflexivity. Qed.
Print Assumptions C10_block_accepts_empty.
