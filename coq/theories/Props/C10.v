(* C10 — per-call resources are honoured, scoped to the call, never silently dropped.
   Statements; proofs in Proofs/C10Proofs.v over the merging code regenerated from the repository
   (Gen.SharedRes, Gen.CacheRes, Gen.InputCheck).  The launch half (worker started with exactly
   these cores / threads / GPUs / flags / extra arguments in this cwd) is C16_srun_launch /
   C16_mpiexec_launch applied to the effective values. *)
From Coq Require Import ZArith String List Bool.
From EL Require Import Base.Dec Base.PyLib Proofs.DictFacts Proofs.C10Proofs Gen.InputCheck Gen.SharedRes Gen.CacheRes.
Import ListNotations.
Local Open Scope string_scope.

(* precedence, per-call-process executors: under every key other than the four the library
   forces itself, the worker is launched with the call's own value if there is one, else the
   executor's *)
Theorem C10_precedence :
  forall ek ecores rd q sp hl x,
    NoDup (keys rd) ->
    x <> "future_queue" -> x <> "spawner" -> x <> "hostname_localhost" -> x <> "init_function" ->
    assoc x (aupdate (aupdate ek (eff_rd ecores rd)) (forced q sp hl))
    = match assoc x (eff_rd ecores rd) with Some v => Some v | None => assoc x ek end.
Proof. exact effective_lookup. Qed.
Print Assumptions C10_precedence.

(* where eff_rd is the call's dictionary itself, except for the documented rule that a per-call
   cores = 1 (or no cores) means the executor's cores *)
Theorem C10_call_values_unchanged :
  forall ecores rd x, x <> "cores" -> assoc x (eff_rd ecores rd) = assoc x rd.
Proof. exact eff_rd_other. Qed.
Print Assumptions C10_call_values_unchanged.

Theorem C10_cores_rule :
  forall ecores rd, cores_is_int rd ->
    assoc "cores" (eff_rd ecores rd) =
      match assoc "cores" rd with
      | Some (VInt c) => if ((c =? 1)%Z && (ecores >=? 1)%Z) then Some (VInt ecores) else Some (VInt c)
      | _ => Some (VInt ecores)
      end.
Proof. exact eff_rd_cores. Qed.
Print Assumptions C10_cores_rule.

(* file mode: the call's values over the executor's; neither dictionary is modified *)
Theorem C10_file_mode_merge :
  forall td rd rdx,
    assoc "resource_dict" td = Some (sdict rd) -> NoDup (keys rdx) ->
    file_mode_resources (sdict td) (sdict rdx)
    = Ok (VTuple [sdict (aupdate rd (List.filter (fun p => negb (match assoc (fst p) rd with Some _ => true | None => false end)) rdx));
                  sdict td; sdict rdx]).
Proof. exact file_mode_merge. Qed.
Print Assumptions C10_file_mode_merge.

Theorem C10_file_mode_precedence :
  forall rd rdx x,
    NoDup (keys rdx) ->
    assoc x (aupdate rd (List.filter (fun p => negb (match assoc (fst p) rd with Some _ => true | None => false end)) rdx))
    = match assoc x rd with Some v => Some v | None => assoc x rdx end.
Proof. exact file_mode_lookup. Qed.
Print Assumptions C10_file_mode_precedence.

(* block allocation refuses every non-empty per-call dictionary *)
Theorem C10_block_rejects :
  forall rd, rd <> [] -> broker_submit_checks (sdict rd) = Err "ValueError".
Proof. exact broker_rejects. Qed.
Print Assumptions C10_block_rejects.

Theorem C10_block_accepts_empty : broker_submit_checks (sdict []) = Ok (VTuple [sdict []]).
Proof. exact broker_accepts_empty. Qed.
Print Assumptions C10_block_accepts_empty.

(* the regenerated _submit_function_to_separate_process hands exactly this merged dictionary to
   the worker thread (and from there to the spawner), registers cores x threads slots, and
   returns normally; the caller's dictionaries are not among the objects it can modify (the
   translator accepts in-place mutation only on copies the function made itself) *)
Theorem C10_submit_effective :
  forall wait td rd ek ecores act q sp mc mw hl f d,
    assoc "resource_dict" td = Some (sdict rd) ->
    assoc "future" (adel "resource_dict" td) = Some f ->
    assoc "cores" ek = Some (VInt ecores) ->
    cores_is_int rd -> threads_is_int rd -> NoDup (keys td) ->
    let slots := (int_or ecores (assoc "cores" (eff_rd ecores rd)) * int_or 1 (assoc "threads_per_core" rd))%Z in
    wait act (VInt slots) mc mw = Ok (VDict d) ->
    _submit_function_to_separate_process wait (sdict td) act q sp (sdict ek) mc mw hl
    = Ok (sdict (aupdate (aupdate ek (eff_rd ecores rd)) (forced q sp hl)), VInt slots,
          VDict (dict_set_l f (VInt slots) d)).
Proof. exact submit_returns. Qed.
Print Assumptions C10_submit_effective.
