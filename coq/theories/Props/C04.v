(* C04 — failure fidelity.  (a) the worker's reply composed with the parent's receive_dict (both
   regenerated from the source) returns exactly the call's outcome; (b)-(d) the resolver model
   (Model/DepExec.v, tied by lockstep): proofs in Proofs/DepSafe.v. *)
From Coq Require Import ZArith String List Bool.
From EL Require Import Base.Dec Base.PyLib Model.Worker Model.Exec Model.ExecInv Model.StepExec Model.DepExec.
From EL Require Import Proofs.C04Proofs Proofs.DepSafe Gen.Communication Gen.WorkerSerial.
Import ListNotations.
Local Open Scope string_scope.

(* (a) same class: for every function semantics `apply`, memory and request, worker loop + wire +
   receive_dict give the parent the value of the call, or raise an exception of exactly the class
   the function raised (exception objects travel pickled: their arguments are those of the
   original object by the cloudpickle round-trip assumption) *)
Theorem C04_exception_class_roundtrip :
  forall apply mem f a k self,
    (match wstep_serial apply mem (to_py (RCall f a k)) with
     | Ok (VTuple [_; VList [rep]; _]) => receive_dict rep self
     | _ => Err "ModelError"
     end) = apply mem (to_py (RCall f a k)).
Proof. exact roundtrip. Qed.
Print Assumptions C04_exception_class_roundtrip.

(* (c) a call with a failed or cancelled input is never forwarded to the inner executor ... *)
Theorem C04_failed_input_never_forwarded :
  forall c n prog d d' i,
    wf_prog n prog -> dreach c (dinit n prog) d ->
    dstep c d TR = Some (d', LPut 1 (Task i)) ->
    forall j, In j (ddeps c i) -> fok (getf (dbase d) j) = true.
Proof. exact forwarded_after_inputs. Qed.
Print Assumptions C04_failed_input_never_forwarded.

(* ... the resolver takes the failure path exactly at the first input (in traversal order) that
   is done without a result ... *)
Theorem C04_failure_path :
  forall c n prog d d' l i k,
    wf_prog n prog -> dreach c (dinit n prog) d -> dstep c d TR = Some (d', l) -> rp d' = RFailSrnc i k ->
    exists pre j post, ddeps c i = (pre ++ j :: post)%list
      /\ (forall j', In j' pre -> fok (getf (dbase d) j') = true)
      /\ fdone (getf (dbase d) j) = true /\ fok (getf (dbase d) j) = false.
Proof. exact failure_path_first_bad_input. Qed.
Print Assumptions C04_failure_path.

(* ... and there the dependent call's own future gets the exception (it fails too) *)
Theorem C04_dependent_fails :
  forall c n prog d d' i,
    wf_prog n prog -> dreach c (dinit n prog) d ->
    dstep c d TR = Some (d', LSetExc i) -> getf (dbase d') i = FExc.
Proof. exact failed_input_fails_call. Qed.
Print Assumptions C04_dependent_fails.

(* (b) results and final states are stable: no step of any thread replaces a finished future *)
Theorem C04_results_stable :
  forall c d t d' l j v,
    dstep c d t = Some (d', l) -> getf (dbase d) j = FRes v -> getf (dbase d') j = FRes v.
Proof. exact result_stable. Qed.
Print Assumptions C04_results_stable.
