(* C03 — dependency resolution equals sequential evaluation.  Resolver model (Model/DepExec.v,
   in front of the block-allocation or the per-call executor model; tied to the code by lockstep);
   proofs in Proofs/DepSafe.v. *)
From Coq Require Import ZArith String List Bool.
From EL Require Import Model.Exec Model.ExecInv Model.StepExec Model.DepExec Proofs.DepSafe.
From EL Require Import Model.Traverse Proofs.TraverseProofs Model.LiveSpec Proofs.DepLiveCor.
Import ListNotations.

(* the function body of a call is not started before ALL its input futures — every future found
   by the traversal of args / kwargs / nested lists, with repetitions — have finished with a
   result; for every program, inner executor kind, limit and schedule *)
Theorem C03_not_started_before_inputs :
  forall c n prog d t d' i,
    wf_prog n prog -> wf_deps c n -> dreach c (dinit n prog) d ->
    dstep c d t = Some (d', LBody i) ->
    forall j, In j (ddeps c i) -> fok (getf (dbase d) j) = true.
Proof. exact started_after_inputs. Qed.
Print Assumptions C03_not_started_before_inputs.

(* the resolver forwards a call only when every input holds a result *)
Theorem C03_forwarded_after_inputs :
  forall c n prog d d' i,
    wf_prog n prog -> dreach c (dinit n prog) d ->
    dstep c d TR = Some (d', LPut 1 (Task i)) ->
    forall j, In j (ddeps c i) -> fok (getf (dbase d) j) = true.
Proof. exact forwarded_after_inputs. Qed.
Print Assumptions C03_forwarded_after_inputs.

(* and what the inputs hold at that moment is what the call receives: results never change *)
Theorem C03_input_values_stable :
  forall c d t d' l j v,
    dstep c d t = Some (d', l) -> getf (dbase d) j = FRes v -> getf (dbase d') j = FRes v.
Proof. exact result_stable. Qed.
Print Assumptions C03_input_values_stable.

Theorem C03_done_is_monotone :
  forall c d t d' l j,
    dstep c d t = Some (d', l) -> fdone (getf (dbase d) j) = true -> fdone (getf (dbase d') j) = true.
Proof. exact done_monotone. Qed.
Print Assumptions C03_done_is_monotone.

(* ---- the argument traversals (Model/Traverse.v, compared with the real
   _get_future_objects_from_input / _update_futures_in_input in every run) ---- *)

(* the futures a call waits for are exactly the futures replaced by their results, in the same
   order: positional arguments, then keyword values, lists descended into, to any depth *)
Theorem C03_waits_for_exactly_what_it_replaces :
  forall args kwargs, futures_of args kwargs = asked_of args kwargs.
Proof. exact same_traversal. Qed.
Print Assumptions C03_waits_for_exactly_what_it_replaces.

(* a future is replaced by its result; a list is rebuilt element by element; anything else,
   and any argument that contains no future, is passed on unchanged *)
Theorem C03_future_replaced_by_result : forall res j, subst res (TFut j) = res j.
Proof. exact subst_fut. Qed.
Print Assumptions C03_future_replaced_by_result.

Theorem C03_lists_rebuilt_elementwise : forall res l, subst res (TList l) = TList (map (subst res) l).
Proof. exact subst_list. Qed.
Print Assumptions C03_lists_rebuilt_elementwise.

Theorem C03_rest_unchanged : forall res a, find1 a = [] -> subst res a = a.
Proof. exact subst_no_futures. Qed.
Print Assumptions C03_rest_unchanged.

(* after the update the call sees no future where the traversal looks *)
Theorem C03_no_future_left :
  forall res a, (forall j, visible_futs (res j) = []) -> visible_futs (subst res a) = [].
Proof. exact no_future_left. Qed.
Print Assumptions C03_no_future_left.

(* non-vacuity: a nested argument list with two futures, one of them twice *)
Example C03_traversal_example :
  futures_of [TList [TFut 1; TList [TFut 0; TVal 7]]; TOther [TFut 2]] [(0, TFut 1)] = [1; 0; 1]
  /\ update_args (fun j => TVal (10 + j)) [TList [TFut 1; TList [TFut 0; TVal 7]]; TOther [TFut 2]]
     = [TList [TVal 11; TList [TVal 10; TVal 7]]; TOther [TFut 2]].
Proof. split; reflexivity. Qed.

(* ---- and every dependent call does get its turn (resolver in front of a block-allocation
   executor, programs without failing calls): at rest every future handed out is done, and no
   call is abandoned on the wait list when the executor is shut down ---- *)
Theorem C03_dependent_calls_all_finish :
  forall c n prog d k,
    dinner c = IBlock k -> 1 <= k -> (forall i, xraises (dx c) i = false) ->
    wf_prog n prog -> wf_deps c n -> dreach c (dinit n prog) d ->
    denabled c d = [] ->
    forall i, In i (subm (dbase d)) -> fdone (getf (dbase d) i) = true.
Proof. intros c n prog d k H1 H2 H3 H4 H5 H6 H7. exact (proj1 (proj2 (dep_rest c n prog d k H1 H2 H3 H4 H5 H6 H7))). Qed.
Print Assumptions C03_dependent_calls_all_finish.

(* the same with the per-call-process executor underneath (requests that fit) *)
Theorem C03_dependent_calls_all_finish_percall :
  forall c n prog d,
    dinner c = IStep -> StepLive.fits (dx c) -> (forall i, xraises (dx c) i = false) ->
    wf_prog n prog -> wf_deps c n -> dreach c (dinit n prog) d ->
    denabled c d = [] ->
    forall i, In i (subm (dbase d)) -> fdone (getf (dbase d) i) = true.
Proof. intros c n prog d H1 H2 H3 H4 H5 H6 H7. exact (proj1 (proj2 (dep_rest_step c n prog d H1 H2 H3 H4 H5 H6 H7))). Qed.
Print Assumptions C03_dependent_calls_all_finish_percall.
