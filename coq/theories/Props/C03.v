(* C03 — dependency resolution equals sequential evaluation.  Resolver model (Model/DepExec.v,
   in front of the block-allocation or the per-call executor model; tied to the code by lockstep);
   proofs in Proofs/DepSafe.v. *)
From Coq Require Import ZArith String List Bool.
From EL Require Import Model.Exec Model.ExecInv Model.StepExec Model.DepExec Proofs.DepSafe.
Import ListNotations.

(* the function body of a call is not started before ALL its input futures — every future found
   by the traversal of args / kwargs / nested lists, with repetitions — have finished with a
   result; for every program, inner executor kind, limit and schedule *)
Theorem C03_not_started_before_inputs :
  forall c n prog d t d' i,
    wf_prog n prog -> wf_deps c n -> dreach c (dinit n prog) d ->
    dstep c d t = Some (d', LBody i) ->
    forall j, In j (ddeps c i) -> fok (getf (dbase d) j) = true.
Proof. exact started_after_inputs. Qed.
Print Assumptions C03_not_started_before_inputs.

(* the resolver forwards a call only when every input holds a result *)
Theorem C03_forwarded_after_inputs :
  forall c n prog d d' i,
    wf_prog n prog -> dreach c (dinit n prog) d ->
    dstep c d TR = Some (d', LPut 1 (Task i)) ->
    forall j, In j (ddeps c i) -> fok (getf (dbase d) j) = true.
Proof. exact forwarded_after_inputs. Qed.
Print Assumptions C03_forwarded_after_inputs.

(* and what the inputs hold at that moment is what the call receives: results never change *)
Theorem C03_input_values_stable :
  forall c d t d' l j v,
    dstep c d t = Some (d', l) -> getf (dbase d) j = FRes v -> getf (dbase d') j = FRes v.
Proof. exact result_stable. Qed.
Print Assumptions C03_input_values_stable.

Theorem C03_done_is_monotone :
  forall c d t d' l j,
    dstep c d t = Some (d', l) -> fdone (getf (dbase d) j) = true -> fdone (getf (dbase d') j) = true.
Proof. exact done_monotone. Qed.
Print Assumptions C03_done_is_monotone.
