(* C08 — cache soundness.  (a) the key normaliser (Model/Blank.v, an executable model of the
   re.sub in standalone/serialize._get_hash, checked against the source text and against Python's
   re on every run) identifies byte strings only up to kernel-id digits; (b) key soundness under
   named hypotheses on md5 and cloudpickle; (d) which entries the readers accept
   (Model/CacheFs.v).  Proofs: Proofs/BlankProofs.v, KeyProofs.v, CacheProofs.v. *)
From Coq Require Import List Bool Arith Ascii.
From EL Require Import Model.Blank Model.CacheFs Proofs.BlankProofs Proofs.KeyProofs Proofs.CacheProofs.
Import ListNotations.

(* (a) for ALL byte strings: equal normal forms => equal up to the digits of
   "/ipykernel_<digits>/" segments — whatever else the strings contain (path separators, newlines,
   further occurrences of the token) *)
Theorem C08_normaliser_sound : forall a b : bytes, blank a = blank b -> digits_equiv a b.
Proof. exact blank_sound. Qed.
Print Assumptions C08_normaliser_sound.

Theorem C08_normaliser_complete : forall a b : bytes, digits_equiv a b -> blank a = blank b.
Proof. exact blank_complete. Qed.
Print Assumptions C08_normaliser_complete.

(* (b) equal keys => same function name and serialised calls equal up to kernel-id digits, for every
   serialisation and every 32-character digest function that does not collide on the two inputs *)
Theorem C08_key_sound :
  forall (call : Type) (name_of ser : call -> bytes) (H : bytes -> bytes),
    (forall x, length (H x) = 32) ->
    forall c1 c2,
      (H (blank (ser c1)) = H (blank (ser c2)) -> blank (ser c1) = blank (ser c2)) ->
      key call name_of ser H c1 = key call name_of ser H c2 ->
      name_of c1 = name_of c2 /\ digits_equiv (ser c1) (ser c2).
Proof. exact key_sound. Qed.
Print Assumptions C08_key_sound.

(* (b') the key as the code computes it: standalone/serialize.py:serialize_funct_h5, regenerated on
   every run (cloudpickle.dumps, _get_hash and fn.__name__ as parameters).  Equal keys => the same
   function name and - unless the digest collides on the two pickles or cloudpickle maps the two
   calls to one pickle - the same function, positional arguments, keyword arguments AND resource
   dictionary; the stored data are exactly these four components. *)
From EL Require Import Base.PyLib Gen.Serialize Proofs.KeyGen.
Theorem C08_key_covers_function_args_kwargs_resources :
  forall dumps get_hash n1 n2 f1 a1 k1 r1 f2 a2 k2 r2 b1 b2 h1 h2 key d1 d2,
    dumps (call_dict f1 a1 k1 r1) = Ok b1 -> dumps (call_dict f2 a2 k2 r2) = Ok b2 ->
    get_hash b1 = Ok (VStr h1) -> get_hash b2 = Ok (VStr h2) ->
    String.length h1 = String.length h2 ->
    (h1 = h2 -> b1 = b2) ->
    (b1 = b2 -> call_dict f1 a1 k1 r1 = call_dict f2 a2 k2 r2) ->
    serialize_funct_h5 dumps get_hash (VStr n1) f1 a1 k1 r1 = Ok (VTuple [key; d1]) ->
    serialize_funct_h5 dumps get_hash (VStr n2) f2 a2 k2 r2 = Ok (VTuple [key; d2]) ->
    n1 = n2 /\ f1 = f2 /\ a1 = a2 /\ k1 = k2 /\ r1 = r2.
Proof. exact keygen_covers. Qed.
Print Assumptions C08_key_covers_function_args_kwargs_resources.

Theorem C08_key_shape :
  forall dumps get_hash name f a k r b h,
    dumps (call_dict f a k r) = Ok b ->
    get_hash b = Ok (VStr h) ->
    serialize_funct_h5 dumps get_hash (VStr name) f a k r
    = Ok (VTuple [VStr (String.append name h); call_dict f a k r]).
Proof. exact keygen_shape. Qed.
Print Assumptions C08_key_shape.

(* (b'') file mode (cache/shared.py:execute_tasks_h5, the statements from the resource merge to the
   serialize_funct_h5 call, regenerated): the dictionary hashed into the key is the MERGED one - the
   call's own resources completed by the executor-level defaults (C10_file_mode_merge says what
   that is) - so calls that differ only in an executor-level resource have different pickles *)
From EL Require Import Gen.CacheRes Gen.CacheKey.
Theorem C08_file_mode_key_uses_merged_resources :
  forall dumps get_hash name td rd a k m td' rd' f,
    file_mode_resources td rd = Ok (VTuple [m; td'; rd']) ->
    py_getitem td (VStr KeyGen.fn_key) = Ok f ->
    file_mode_key dumps get_hash name td rd a k
    = (r <- serialize_funct_h5 dumps get_hash name f a k m ;;
       '(key, data) <- py_unpack2 r ;; Ok (VTuple [key; data; m])).
Proof. exact file_key_uses_merged_resources. Qed.
Print Assumptions C08_file_mode_key_uses_merged_resources.

(* (d) file mode never accepts an incomplete entry (every crash point of the worker) ... *)
Theorem C08_file_mode_serves_only_complete_entries :
  forall (fin : file) (leftover : option file) (k : nat),
    in_complete fin = true ->
    let e := apply_ops (mkE (Some fin) leftover None) (firstn k worker_ops) in
    accepted_file_mode e = true -> match f_out e with Some f => complete f = true | None => False end.
Proof. exact worker_publish_atomic. Qed.
Print Assumptions C08_file_mode_serves_only_complete_entries.

(* ... the interactive cache does: REFUTED (finding D10) *)
Theorem C08_interactive_serves_incomplete_refuted :
  exists k, let e := apply_ops (mkE None None None) (firstn k interactive_ops) in
            accepted_interactive e = true /\ match f_out e with Some f => complete f = false | None => False end.
Proof. exact interactive_writer_refuted. Qed.
Print Assumptions C08_interactive_serves_incomplete_refuted.

(* ---- the interactive cache at point level (Model/CacheExec.v: the cache steps of a worker thread
   laid over Model/Exec.v; tied to the code by full lockstep incl. hits, identical calls in flight,
   sessions and killed workers).  Proofs/CacheSafe.v.  Every program (cancellations and failing
   calls included), worker count, schedule, kill of a worker thread and initial directory of
   result files with prefixes of [function; input_args; input_kwargs; output]. ---- *)
From EL Require Model.Exec Model.FileExec Model.FileSpec Model.CacheExec Model.CacheSpec Proofs.CacheSafe.

(* a future is completed with its own call's value — computed or taken from the cache entry of an
   identical call — or with None *)
Theorem C08_served_value_is_the_calls_own :
  forall c n prog fs0 s t s' i v,
    (forall k, CacheExec.ccanon c (CacheExec.ccanon c k) = CacheExec.ccanon c k) ->
    CacheSafe.creach c (CacheExec.cinit n prog fs0) s ->
    CacheExec.cstep c s t = Some (s', FileExec.FL (Exec.LSetRes i v)) ->
    v = 0 \/ CacheExec.ccanon c v = CacheExec.ccanon c i.
Proof. exact CacheSafe.served_value. Qed.
Print Assumptions C08_served_value_is_the_calls_own.

(* None is served only from an entry that has no output dataset *)
Theorem C08_none_only_from_incomplete_entry :
  forall c s s' j i l,
    CacheExec.getov s j = CacheExec.CHitOpen i -> CacheExec.cw_step c s j = Some (s', l) ->
    CacheExec.getov s' j = CacheExec.CHitClose false i ->
    exists dsl, FileExec.fs_get (CacheExec.cfs s) (CacheExec.cpath c i) = Some dsl /\ FileExec.has_ds FileExec.DOut dsl = false.
Proof. exact CacheSafe.none_only_from_incomplete. Qed.
Print Assumptions C08_none_only_from_incomplete_entry.

(* REFUTED on the code as it is (finding D10): "a hit serves the call's value".  Two workers, two
   identical calls, no kill, no failing call: while worker 1 is inside its dump of call 1 the entry
   exists under its final name without output; worker 2 looks call 2 up, hits, and completes its
   future with None *)
Theorem C08_refuted_hit_serves_incomplete_entry :
  CacheExec.ccanon CacheSafe.d10_cfg 2 = CacheExec.ccanon CacheSafe.d10_cfg 1 /\
  CacheSafe.creach CacheSafe.d10_cfg (CacheExec.cinit 2 CacheSafe.d10_prog []) CacheSafe.d10_state /\
  exists s', CacheExec.cstep CacheSafe.d10_cfg CacheSafe.d10_state (Exec.TW 2) = Some (s', FileExec.FL (Exec.LSetRes 2 0))
             /\ Exec.getf (CacheExec.cb s') 2 = Exec.FRes 0.
Proof.
  destruct CacheSafe.incomplete_entry_served as [H1 [_ [H3 [_ [_ [_ H7]]]]]]. exact (conj H1 (conj H3 H7)).
Qed.
Print Assumptions C08_refuted_hit_serves_incomplete_entry.

(* ---- REFUTED on the code as it is: witnesses by computation on the executable models
   (Proofs/Refute.v); each is a recorded finding (KNOWN_FINDINGS.txt) ---- *)
From EL Require Model.Exec Model.ExecInv Model.StepExec Model.FileExec Model.FileSpec Model.CacheExec Model.CacheSpec Proofs.FileSafe Proofs.FileRefute Proofs.CacheSafe Proofs.Refute.
Module RefutedC08.
Import Exec ExecInv StepExec FileExec FileSpec CacheExec CacheSpec FileSafe FileRefute CacheSafe Refute.
Import ListNotations.

(* finding D17: two identical calls on two workers both miss, both compute; the second dump collides with the finished entry and that call's future reports an exception although no function failed *)
Theorem C08_refuted_identical_calls_collide :
  ccanon d10_cfg 2 = ccanon d10_cfg 1
  /\ (forall i, raises (cbase d10_cfg) i = false)                            (* no function fails *)
  /\ crun d10_cfg d17_a d17_init = Some d17_s1
  /\ cfs d17_s1 = []                                                         (* both have missed *)
  /\ map wp (ws (cb d17_s1)) = [WSrnc 1; WSrnc 2] /\ cov d17_s1 = [CNone; CNone]
  /\ crun d10_cfg d17_b d17_s1 = Some d17_s2
  /\ cfs d17_s2 = [(cpath d10_cfg 1, full_entry)]                            (* W1's dump is complete *)
  /\ getf (cb d17_s2) 1 = FRes 1
  /\ crun d10_cfg d17_c d17_s2 = Some d17_s3
  /\ getov d17_s3 1 = CDClose false 2 2                                      (* name already exists *)
  /\ map pp (ps (cb d17_s3)) = [PRecv; PRecv]                                (* P2 has sent MRes 2 *)
  /\ getf (cb d17_s3) 2 = FRunning
  /\ crun d10_cfg d17_d d17_s3 = Some d17_s4
  /\ getf (cb d17_s4) 2 = FExc                                               (* future 2: exception *)
  /\ map wp (ws (cb d17_s4)) = [WGet; WDead]                                 (* W2 has died *)
  /\ map pp (ps (cb d17_s4)) = [PRecv; PExit]
  /\ getf (cb d17_s4) 1 = FRes 1
  /\ cfs d17_s4 = [(cpath d10_cfg 1, full_entry)]
  /\ creach d10_cfg d17_init d17_s4.
Proof. exact cache_identical_calls_collide. Qed.
Print Assumptions C08_refuted_identical_calls_collide.
End RefutedC08.
