(* C08 — cache soundness.  (a) the key normaliser (Model/Blank.v, an executable model of the
   re.sub in standalone/serialize._get_hash, checked against the source text and against Python's
   re on every run) identifies byte strings only up to kernel-id digits; (b) key soundness under
   named hypotheses on md5 and cloudpickle; (d) which entries the readers accept
   (Model/CacheFs.v).  Proofs: Proofs/BlankProofs.v, KeyProofs.v, CacheProofs.v. *)
From Coq Require Import List Bool Arith Ascii.
From EL Require Import Model.Blank Model.CacheFs Proofs.BlankProofs Proofs.KeyProofs Proofs.CacheProofs.
Import ListNotations.

(* (a) for ALL byte strings: equal normal forms => equal up to the digits of
   "/ipykernel_<digits>/" segments — whatever else the strings contain (path separators, newlines,
   further occurrences of the token) *)
Theorem C08_normaliser_sound : forall a b : bytes, blank a = blank b -> digits_equiv a b.
Proof. exact blank_sound. Qed.
Print Assumptions C08_normaliser_sound.

Theorem C08_normaliser_complete : forall a b : bytes, digits_equiv a b -> blank a = blank b.
Proof. exact blank_complete. Qed.
Print Assumptions C08_normaliser_complete.

(* (b) equal keys => same function name and serialised calls equal up to kernel-id digits, for every
   serialisation and every 32-character digest function that does not collide on the two inputs *)
Theorem C08_key_sound :
  forall (call : Type) (name_of ser : call -> bytes) (H : bytes -> bytes),
    (forall x, length (H x) = 32) ->
    forall c1 c2,
      (H (blank (ser c1)) = H (blank (ser c2)) -> blank (ser c1) = blank (ser c2)) ->
      key call name_of ser H c1 = key call name_of ser H c2 ->
      name_of c1 = name_of c2 /\ digits_equiv (ser c1) (ser c2).
Proof. exact key_sound. Qed.
Print Assumptions C08_key_sound.

(* (d) file mode never accepts an incomplete entry (every crash point of the worker) ... *)
Theorem C08_file_mode_serves_only_complete_entries :
  forall (fin : file) (leftover : option file) (k : nat),
    in_complete fin = true ->
    let e := apply_ops (mkE (Some fin) leftover None) (firstn k worker_ops) in
    accepted_file_mode e = true -> match f_out e with Some f => complete f = true | None => False end.
Proof. exact worker_publish_atomic. Qed.
Print Assumptions C08_file_mode_serves_only_complete_entries.

(* ... the interactive cache does: REFUTED (finding D10) *)
Theorem C08_interactive_serves_incomplete_refuted :
  exists k, let e := apply_ops (mkE None None None) (firstn k interactive_ops) in
            accepted_interactive e = true /\ match f_out e with Some f => complete f = false | None => False end.
Proof. exact interactive_writer_refuted. Qed.
Print Assumptions C08_interactive_serves_incomplete_refuted.
