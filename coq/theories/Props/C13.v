(* C13 — the file-based executor computes the same values.  Dataflow model (Model/FileFlow.v):
   results are published per call; a task reads its producers' published results, applies the
   function and publishes; proofs in Proofs/CacheProofs.v.  Which tasks are launched, duplicates
   and cached producers are checked on the real execute_tasks_h5 under the simulator. *)
From Coq Require Import List Bool Arith.
From EL Require Import Model.CacheFs Model.FileFlow Proofs.CacheProofs.
Import ListNotations.

(* every acyclic program, every function semantics, every order in which the tasks publish: a
   published result is the value of sequential evaluation in dependency order *)
Theorem C13_values_equal_sequential_evaluation :
  forall (deps : nat -> list nat) (app : nat -> list nat -> nat),
    (forall i j, In j (deps i) -> j < i) ->
    forall s, freach deps app s -> forall i v, s i = Some v -> v = seqval deps app (S i) i.
Proof. exact flow_values. Qed.
Print Assumptions C13_values_equal_sequential_evaluation.

(* what a consumer reads through a result file is complete: a file accepted under the final suffix
   holds the output, at every crash point of the producer *)
Theorem C13_consumers_read_complete_results :
  forall (fin : file) (leftover : option file) (k : nat),
    in_complete fin = true ->
    let e := apply_ops (mkE (Some fin) leftover None) (firstn k worker_ops) in
    accepted_file_mode e = true -> match f_out e with Some f => complete f = true | None => False end.
Proof. exact worker_publish_atomic. Qed.
Print Assumptions C13_consumers_read_complete_results.

(* ---- the file executor at point level (Model/FileExec.v: client, loop thread, one process per
   started call, the cache directory; tied to the code by lockstep incl. several sessions and killed
   processes).  Proofs/FileSafe.v.  Transitions: any step of any thread or process, or the kill
   of a process from outside; initial directory fs0 arbitrary (whatever earlier runs left). ---- *)
From EL Require Import Model.Exec Model.ExecInv Model.StepExec Model.FileExec Model.FileSpec Proofs.FileSafe.

(* a future is only ever completed with the value of its own call *)
Theorem C13_future_gets_its_own_value :
  forall c n prog fs0 s t s' f v,
    FileSafe.freach c (finit n prog fs0) s -> fstep c s t = Some (s', FL (LSetRes f v)) -> v = fcanon c f.
Proof. exact setres_own_value. Qed.
Print Assumptions C13_future_gets_its_own_value.

(* a call's function starts only when the result file of every input (every FutureItem
   argument) is complete; programs without cancellation, each call submitted once *)
Theorem C13_function_starts_after_complete_inputs :
  forall c n prog fs0 s s' k m,
    nocancel prog = true -> wf_prog n prog -> FileSafe.freach c (finit n prog fs0) s ->
    fstep c s (TP m) = Some (s', FL (LBody k)) ->
    forall w, In w (qwaits (fgetp s m)) -> exists l, fs_get (fsy s) (w, EOut) = Some l /\ has_ds DOut l = true.
Proof. exact body_after_inputs. Qed.
Print Assumptions C13_function_starts_after_complete_inputs.

(* whatever files an earlier run left behind: at most one process per key, registered with a
   future that is not done and without a result file yet; the key being prepared has no process,
   no result file and no memory_dict entry; and the loop thread never dies *)
Theorem C13_loop_invariant :
  forall c n prog fs0 s,
    nocancel prog = true -> wf_prog n prog -> FileSafe.freach c (finit n prog fs0) s ->
    procs_ok s = true /\ prep_ok s = true /\ loop_alive s = true.
Proof. exact file_inv. Qed.
Print Assumptions C13_loop_invariant.

(* a call that is already in the cache directory is registered for collection, no process is started *)
Theorem C13_cached_call_not_started :
  forall c s s' i k w,
    fpc s = GListdir i k w -> fs_has (fsy s) (k, EOut) = true -> fstep c s TD = Some (s', LListdir) ->
    fpc s' = GTd /\ fps s' = fps s /\ fsy s' = fsy s /\ assoc_key (mem s') k = Some i.
Proof. exact no_rerun. Qed.
Print Assumptions C13_cached_call_not_started.

(* ---- REFUTED on the code as it is: witnesses by computation on the executable models
   (Proofs/Refute.v); each is a recorded finding (KNOWN_FINDINGS.txt) ---- *)
From EL Require Model.Exec Model.ExecInv Model.StepExec Model.FileExec Model.FileSpec Model.CacheExec Proofs.FileSafe Proofs.FileRefute Proofs.CacheSafe Proofs.Refute.
Module RefutedC13.
Import Exec ExecInv StepExec FileExec FileSpec CacheExec FileSafe FileRefute CacheSafe Refute.
Import ListNotations.

(* finding D11: a call submitted again while the identical call is in flight is never recorded; its future stays pending for ever (the loop thread only polls) *)
Theorem C13_refuted_duplicate_in_flight_never_recorded :
  fcanon d11_cfg 2 = fcanon d11_cfg 1
  /\ ftrace d11_cfg d11_pre d11_init = Some (d11_s0, trace_or d11_cfg d11_pre d11_init)
  /\ nth_error (trace_or d11_cfg d11_pre d11_init) 5 = Some (FL (LGetNw 0 (Some (Task 1))))
  /\ nth_error (trace_or d11_cfg d11_pre d11_init) 16 = Some (FL (LGetNw 0 (Some (Task 2))))   (* both taken *)
  /\ nth_error (trace_or d11_cfg d11_pre d11_init) 17 = Some (FL (LTd 0))    (* nothing done for Task 2 *)
  /\ fpc d11_s0 = GGet /\ mem d11_s0 = [(k1, 1)] /\ procd d11_s0 = [(k1, 1)] /\ map qpc (fps d11_s0) = [QBegin]
  /\ frun d11_cfg d11_mid d11_s0 = Some d11_s1
  /\ map qpc (fps d11_s1) = [QExit]                                          (* process 1 has finished *)
  /\ fut d11_s1 1 = FRes 1
  /\ fpc d11_s1 = GGet                                                       (* F is back at get *)
  /\ mem d11_s1 = [(k1, 1)]
  /\ forallb (fun e => negb (Nat.eqb (snd e) 2)) (mem d11_s1) = true         (* no entry for future 2 *)
  /\ q0 (fbase d11_s1) = [] /\ qunf (getq (fbase d11_s1) 0) = 0
  /\ fut d11_s1 2 = FPending
  /\ main (fbase d11_s1) = MOp /\ ops (fbase d11_s1) = [OResult 2; ODrop]    (* the client: in result(2) *)
  /\ outs (fbase d11_s1) = [XOk; XOk]
  /\ fstep d11_cfg d11_s1 TM = None
  /\ freach d11_cfg d11_init d11_s1
  (* two steps later the system is in a state whose only step leads back to itself *)
  /\ frun d11_cfg d11_end d11_s1 = Some d11_s2
  /\ mem d11_s2 = [] /\ fpc d11_s2 = GGet /\ fut d11_s2 2 = FPending
  /\ map qpc (fps d11_s2) = [QExit]
  /\ fenabled d11_cfg d11_s2 = [TD]
  /\ fstep d11_cfg d11_s2 TD = Some (d11_s2, FL (LGetNw 0 None))
  /\ freach d11_cfg d11_init d11_s2.
Proof. exact file_duplicate_in_flight_never_recorded. Qed.
Print Assumptions C13_refuted_duplicate_in_flight_never_recorded.
End RefutedC13.

(* ---- progress of the file-based executor (Proofs/FileLive.v): in every kill-free run of a program
   without cancellation that submits each call once (no two identical calls: finding D11), over any
   directory whose result files are complete, whenever every started process has exited and the
   loop thread is between two iterations, every registered future is done or has its complete result
   file waiting for the next scan, and every call taken from the queue is done or registered: no
   call is lost, whatever was already in the directory. ---- *)
From EL Require Model.ExecInv Model.FileLiveSpec Proofs.FileLive.
Theorem C13_no_call_lost_at_rest :
  forall c n prog fs0 s,
    FileSpec.nocancel prog = true -> ExecInv.wf_prog n prog -> FileLiveSpec.no_late_submit prog = true ->
    (forall i j, FileExec.fcanon c i = FileExec.fcanon c j -> i = j) ->
    FileSafe.fs_wf fs0 -> FileLiveSpec.fs_outs_complete fs0 = true ->
    FileLive.freach_nk c (FileExec.finit n prog fs0) s ->
    FileLiveSpec.rest_ok prog s = true.
Proof. exact FileLive.file_progress_at_rest. Qed.
Print Assumptions C13_no_call_lost_at_rest.

(* with two identical calls in flight the second is never recorded (finding D11): rest_B fails *)
Theorem C13_refuted_identical_calls_lose_one : ltac:(let t := type of FileLive.progress_needs_distinct_calls in exact t).
Proof. exact FileLive.progress_needs_distinct_calls. Qed.
Print Assumptions C13_refuted_identical_calls_lose_one.

(* ---- and the rest state is reached (Proofs/FileMeasure.v, 1285 lines): in the same kill-free runs every
   step of the client, of a call process and of the loop thread strictly decreases a natural-number
   measure - except a step of the loop thread inside a fruitless polling pass (Model/FileMeasureSpec.v:
   empty queue and only entries whose future is not done and whose result file is not complete left in
   this pass, or polling producers that are all still running); and a fruitlessly polling loop thread is
   never alone: some process or the client can move, or every call taken from the queue is done.
   With a scheduler that does not starve an enabled thread for ever, every taken call completes. ---- *)
From EL Require Model.FileMeasureSpec Proofs.FileMeasure.
Theorem C13_file_mode_progress_measure :
  forall c n prog fs0 s t s' l,
    FileSpec.nocancel prog = true -> ExecInv.wf_prog n prog -> FileLiveSpec.no_late_submit prog = true ->
    (forall i j, FileExec.fcanon c i = FileExec.fcanon c j -> i = j) ->
    FileSafe.fs_wf fs0 -> FileLiveSpec.fs_outs_complete fs0 = true ->
    FileLive.freach_nk c (FileExec.finit n prog fs0) s ->
    FileExec.fstep c s t = Some (s', l) ->
    (t = Exec.TD -> FileMeasureSpec.f_polling s = false) ->
    FileMeasure.fmu c n prog s' < FileMeasure.fmu c n prog s.
Proof. exact FileMeasure.file_step_decreases. Qed.
Print Assumptions C13_file_mode_progress_measure.

Theorem C13_polling_loop_is_not_alone :
  forall c n prog fs0 s,
    FileSpec.nocancel prog = true -> ExecInv.wf_prog n prog -> FileLiveSpec.no_late_submit prog = true ->
    (forall i j, FileExec.fcanon c i = FileExec.fcanon c j -> i = j) ->
    FileSafe.fs_wf fs0 -> FileLiveSpec.fs_outs_complete fs0 = true ->
    FileLive.freach_nk c (FileExec.finit n prog fs0) s ->
    FileMeasureSpec.f_polling s = true ->
    (exists t, t <> Exec.TD /\ In t (FileExec.fenabled c s))
    \/ (forall i, In i (ExecInv.submits prog) -> FileLiveSpec.taken s i = true -> Exec.fdone (Exec.getf (FileExec.fbase s) i) = true).
Proof. exact FileMeasure.file_polling_not_alone. Qed.
Print Assumptions C13_polling_loop_is_not_alone.
