(* C13 — the file-based executor computes the same values.  Dataflow model (Model/FileFlow.v):
   results are published per call; a task reads its producers' published results, applies the
   function and publishes; proofs in Proofs/CacheProofs.v.  Which tasks are launched, duplicates
   and cached producers are checked on the real execute_tasks_h5 under the simulator. *)
From Coq Require Import List Bool Arith.
From EL Require Import Model.CacheFs Model.FileFlow Proofs.CacheProofs.
Import ListNotations.

(* every acyclic program, every function semantics, every order in which the tasks publish: a
   published result is the value of sequential evaluation in dependency order *)
Theorem C13_values_equal_sequential_evaluation :
  forall (deps : nat -> list nat) (app : nat -> list nat -> nat),
    (forall i j, In j (deps i) -> j < i) ->
    forall s, freach deps app s -> forall i v, s i = Some v -> v = seqval deps app (S i) i.
Proof. exact flow_values. Qed.
Print Assumptions C13_values_equal_sequential_evaluation.

(* what a consumer reads through a result file is complete: a file accepted under the final suffix
   holds the output, at every crash point of the producer *)
Theorem C13_consumers_read_complete_results :
  forall (fin : file) (leftover : option file) (k : nat),
    in_complete fin = true ->
    let e := apply_ops (mkE (Some fin) leftover None) (firstn k worker_ops) in
    accepted_file_mode e = true -> match f_out e with Some f => complete f = true | None => False end.
Proof. exact worker_publish_atomic. Qed.
Print Assumptions C13_consumers_read_complete_results.
