(* C13 — the file-based executor computes the same values.  Dataflow model (Model/FileFlow.v):
   results are published per call; a task reads its producers' published results, applies the
   function and publishes; proofs in Proofs/CacheProofs.v.  Which tasks are launched, duplicates
   and cached producers are checked on the real execute_tasks_h5 under the simulator. *)
From Coq Require Import List Bool Arith.
From EL Require Import Model.CacheFs Model.FileFlow Proofs.CacheProofs.
Import ListNotations.

(* every acyclic program, every function semantics, every order in which the tasks publish: a
   published result is the value of sequential evaluation in dependency order *)
Theorem C13_values_equal_sequential_evaluation :
  forall (deps : nat -> list nat) (app : nat -> list nat -> nat),
    (forall i j, In j (deps i) -> j < i) ->
    forall s, freach deps app s -> forall i v, s i = Some v -> v = seqval deps app (S i) i.
Proof. exact flow_values. Qed.
Print Assumptions C13_values_equal_sequential_evaluation.

(* what a consumer reads through a result file is complete: a file accepted under the final suffix
   holds the output, at every crash point of the producer *)
Theorem C13_consumers_read_complete_results :
  forall (fin : file) (leftover : option file) (k : nat),
    in_complete fin = true ->
    let e := apply_ops (mkE (Some fin) leftover None) (firstn k worker_ops) in
    accepted_file_mode e = true -> match f_out e with Some f => complete f = true | None => False end.
Proof. exact worker_publish_atomic. Qed.
Print Assumptions C13_consumers_read_complete_results.

(* ---- the file executor at point level (Model/FileExec.v: client, loop thread, one process per
   started call, the cache directory; tied to the code by lockstep incl. several sessions and killed
   processes).  Proofs/FileSafe.v.  Transitions: any step of any thread or process, or the kill
   of a process from outside; initial directory fs0 arbitrary (whatever earlier runs left). ---- *)
From EL Require Import Model.Exec Model.ExecInv Model.StepExec Model.FileExec Model.FileSpec Proofs.FileSafe.

(* a future is only ever completed with the value of its own call *)
Theorem C13_future_gets_its_own_value :
  forall c n prog fs0 s t s' f v,
    FileSafe.freach c (finit n prog fs0) s -> fstep c s t = Some (s', FL (LSetRes f v)) -> v = fcanon c f.
Proof. exact setres_own_value. Qed.
Print Assumptions C13_future_gets_its_own_value.

(* a call's function starts only when the result file of every input (every FutureItem
   argument) is complete; programs without cancellation, each call submitted once *)
Theorem C13_function_starts_after_complete_inputs :
  forall c n prog fs0 s s' k m,
    nocancel prog = true -> wf_prog n prog -> FileSafe.freach c (finit n prog fs0) s ->
    fstep c s (TP m) = Some (s', FL (LBody k)) ->
    forall w, In w (qwaits (fgetp s m)) -> exists l, fs_get (fsy s) (w, EOut) = Some l /\ has_ds DOut l = true.
Proof. exact body_after_inputs. Qed.
Print Assumptions C13_function_starts_after_complete_inputs.

(* whatever files an earlier run left behind: at most one process per key, registered with a
   future that is not done and without a result file yet; the key being prepared has no process,
   no result file and no memory_dict entry; and the loop thread never dies *)
Theorem C13_loop_invariant :
  forall c n prog fs0 s,
    nocancel prog = true -> wf_prog n prog -> FileSafe.freach c (finit n prog fs0) s ->
    procs_ok s = true /\ prep_ok s = true /\ loop_alive s = true.
Proof. exact file_inv. Qed.
Print Assumptions C13_loop_invariant.

(* a call that is already in the cache directory is registered for collection, no process is started *)
Theorem C13_cached_call_not_started :
  forall c s s' i k w,
    fpc s = GListdir i k w -> fs_has (fsy s) (k, EOut) = true -> fstep c s TD = Some (s', LListdir) ->
    fpc s' = GTd /\ fps s' = fps s /\ fsy s' = fsy s /\ assoc_key (mem s') k = Some i.
Proof. exact no_rerun. Qed.
Print Assumptions C13_cached_call_not_started.
