"""Stand-in for h5py (not installable in this sandbox), used only by /verif's harnesses.

Semantics (DESIGN.md section 4, trusted base): a file is an append-only sequence of
(name, bytes) records on disk; File(path, "a") creates the file if missing; File(path, "r")
of a missing file raises; create_dataset appends one record and refuses an existing name
(ValueError, like h5py); every completed operation is immediately visible/persistent (a
crash keeps exactly the completed records); `name in f`, f[name] -> numpy.void.
`_point` is a hook the deterministic simulator replaces to make each operation a
scheduling/crash point."""
import os
import pickle

import numpy as np

__version__ = "0-standin"


def _point(op, path, name=None):
    return None


def _read(path):
    recs = []
    with open(path, "rb") as fh:
        while True:
            try:
                recs.append(pickle.load(fh))
            except EOFError:
                break
    return recs


class File:
    def __init__(self, name, mode="r"):
        self._path = os.fspath(name)
        self._mode = mode
        if mode == "a":
            _point("open-a", self._path)
            if not os.path.exists(self._path):
                with open(self._path, "ab"):
                    pass
        elif mode == "r":
            _point("open-r", self._path)
            if not os.path.exists(self._path):
                raise FileNotFoundError(
                    "[Errno 2] Unable to synchronously open file (unable to open file: name = %r)" % self._path)
        else:
            raise ValueError("stand-in h5py supports modes 'a' and 'r' only")
        self._open = True

    def __enter__(self):
        return self

    def __exit__(self, *a):
        self.close()
        return False

    def close(self):
        if self._open:
            self._open = False
            _point("close", self._path)

    @staticmethod
    def _norm(name):
        return name.lstrip("/")

    def keys(self):
        return [n for n, _ in _read(self._path)]

    def __contains__(self, name):
        return self._norm(name) in self.keys()

    def __getitem__(self, name):
        _point("read", self._path, self._norm(name))
        for n, b in _read(self._path):
            if n == self._norm(name):
                return np.void(b)
        raise KeyError("Unable to synchronously open object (object %r doesn't exist)" % name)

    def create_dataset(self, name, data=None, **kw):
        if self._mode != "a":
            raise ValueError("file opened read-only")
        n = self._norm(name)
        _point("ds", self._path, n)
        if n in self.keys():
            raise ValueError("Unable to synchronously create dataset (name already exists)")
        with open(self._path, "ab") as fh:
            pickle.dump((n, bytes(data)), fh)
            fh.flush()
            os.fsync(fh.fileno())
