"""Stand-in for mpi4py (no MPI implementation is installed in this sandbox): ranks are threads
of one process.  Used only by /verif's harnesses (DESIGN.md section 7, trusted base)."""
