"""Thread-based COMM_WORLD: bcast delivers the root's object to every rank; gather delivers the
list of all ranks' objects in rank order to the root and None elsewhere; Barrier synchronises.
`launch(n, target)` runs target() on n rank-threads."""
import threading

_local = threading.local()


class _Pickle:
    def __init__(self, *a, **k):
        pass


pickle = _Pickle()


class _World:
    def __init__(self, n):
        self.n = n
        self.bar = threading.Barrier(n)
        self.slot = [None] * n
        self.box = None


class _Comm:
    def _w(self):
        return getattr(_local, "world", None)

    def Get_rank(self):
        return getattr(_local, "rank", 0)

    def Get_size(self):
        w = self._w()
        return w.n if w else 1

    def bcast(self, obj, root=0):
        w = self._w()
        if w is None:
            return obj
        if self.Get_rank() == root:
            w.box = obj
        w.bar.wait()
        out = w.box
        w.bar.wait()
        return out

    def gather(self, obj, root=0):
        w = self._w()
        if w is None:
            return [obj]
        w.slot[self.Get_rank()] = obj
        w.bar.wait()
        out = list(w.slot) if self.Get_rank() == root else None
        w.bar.wait()
        return out

    def Barrier(self):
        w = self._w()
        if w is not None:
            w.bar.wait()


COMM_WORLD = _Comm()


def launch(n, target, timeout=30):
    """run target() on n rank threads; returns list of exceptions (None per rank if fine)"""
    w = _World(n)
    errs = [None] * n

    def body(r):
        _local.world, _local.rank = w, r
        try:
            target()
        except BaseException as ex:  # noqa
            errs[r] = ex
            w.bar.abort()

    ts = [threading.Thread(target=body, args=(r,), daemon=True) for r in range(n)]
    for t in ts:
        t.start()
    for t in ts:
        t.join(timeout)
    alive = [t.is_alive() for t in ts]
    if any(alive):
        w.bar.abort()
    return errs, alive
