"""Recorder stand-in for matplotlib (not installed): used only by /verif's C20 check."""
