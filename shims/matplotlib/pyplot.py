CALLS = []


def show(*a, **k):
    CALLS.append("show")
