"""Recorder stand-in for networkx / pygraphviz (not installed): records the graph handed to the
drawing routine.  Used only by /verif's C20 check."""
GRAPHS = []


class DiGraph:
    def __init__(self):
        self.nodes_added = []
        self.edges_added = []
        GRAPHS.append(self)

    def add_node(self, n, **attr):
        self.nodes_added.append((n, dict(attr)))

    def add_edge(self, a, b, **attr):
        self.edges_added.append((a, b, dict(attr)))


class _AGraph:
    def __init__(self, g):
        self.g = g

    def draw(self, prog=None, format=None):
        return b"<svg/>"


class _NxAgraph:
    @staticmethod
    def to_agraph(g):
        return _AGraph(g)


nx_agraph = _NxAgraph()
