"""Recorder stand-in for IPython (not installed): used only by /verif's C20 check."""
