SHOWN = []


class SVG:
    def __init__(self, data=None):
        self.data = data


def display(obj):
    SHOWN.append(obj)
