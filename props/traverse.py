"""C03 (static part): Model/Traverse.v against the real _get_future_objects_from_input and
_update_futures_in_input on generated nested arguments (lists in lists, futures inside tuples and
dicts where neither function looks, futures whose results are themselves lists or futures)."""
from concurrent.futures import Future

import core


def gen_targ(rng, depth, nfut):
    r = rng.random()
    if depth <= 0 or r < 0.3:
        return ("V", rng.randint(0, 9))
    if r < 0.55:
        return ("F", rng.randrange(nfut))
    if r < 0.85:
        return ("L", [gen_targ(rng, depth - 1, nfut) for _ in range(rng.randint(0, 3))])
    return ("O", [gen_targ(rng, depth - 1, nfut) for _ in range(rng.randint(0, 2))])


def coq_targ(t):
    k, v = t
    if k == "V":
        return "TVal %d" % v
    if k == "F":
        return "TFut %d" % v
    return "%s [%s]" % ("TList" if k == "L" else "TOther", "; ".join(coq_targ(x) for x in v))


def show_targ(t):
    """canonical rendering, the same as Traverse-side [show] below"""
    k, v = t
    if k == "V":
        return "v%d" % v
    if k == "F":
        return "f%d" % v
    return ("[" if k == "L" else "(") + ",".join(show_targ(x) for x in v) + ("]" if k == "L" else ")")


class Tup(tuple):
    pass


def to_py(t, futs):
    k, v = t
    if k == "V":
        return v
    if k == "F":
        return futs[v]
    if k == "L":
        return [to_py(x, futs) for x in v]
    return Tup(to_py(x, futs) for x in v)


def from_py(o, futs):
    if isinstance(o, Future):
        return ("F", futs.index(o))
    if isinstance(o, Tup):
        return ("O", [from_py(x, futs) for x in o])
    if isinstance(o, list):
        return ("L", [from_py(x, futs) for x in o])
    return ("V", o)


def gen_case(rng):
    nfut = rng.randint(1, 4)
    args = [gen_targ(rng, 3, nfut) for _ in range(rng.randint(0, 3))]
    kwargs = [(k, gen_targ(rng, 3, nfut)) for k in range(rng.randint(0, 2))]
    # results: plain values, lists (must not be traversed again), or another future
    results = []
    for j in range(nfut):
        r = rng.random()
        if r < 0.6:
            results.append(("V", 100 + j))
        elif r < 0.85:
            results.append(("L", [("V", 200 + j), ("F", (j + 1) % nfut)]))
        else:
            results.append(("F", (j + 1) % nfut))
    done = [rng.random() < 0.7 for _ in range(nfut)]
    return {"args": args, "kwargs": kwargs, "results": results, "done": done}


def impl(case):
    from executorlib.interactive.shared import _get_future_objects_from_input, _update_futures_in_input
    n = len(case["results"])
    futs = [Future() for _ in range(n)]
    args = tuple(to_py(a, futs) for a in case["args"])
    kwargs = {"k%d" % k: to_py(a, futs) for k, a in case["kwargs"]}
    for j in range(n):
        if case["done"][j]:
            futs[j].set_result(None)
    found, flag = _get_future_objects_from_input({"args": args, "kwargs": kwargs})
    found_ids = [futs.index(f) for f in found]
    futs2 = [Future() for _ in range(n)]
    for j in range(n):
        futs2[j].set_result(to_py(case["results"][j], futs2))
    args2 = tuple(to_py(a, futs2) for a in case["args"])
    kwargs2 = {"k%d" % k: to_py(a, futs2) for k, a in case["kwargs"]}
    a3, k3 = _update_futures_in_input(args2, kwargs2)
    # the same call forwarded through the wait list must reach the inner executor identically
    # (same container types: the cache key is computed from what is forwarded)
    import queue as _q
    from executorlib.interactive.shared import _submit_waiting_task
    futs3 = [Future() for _ in range(n)]
    for j in range(n):
        futs3[j].set_result(to_py(case["results"][j], futs3))
    args3 = tuple(to_py(a, futs3) for a in case["args"])
    kwargs3 = {"k%d" % k: to_py(a, futs3) for k, a in case["kwargs"]}
    fl, _ = _get_future_objects_from_input({"args": args3, "kwargs": kwargs3})
    q = _q.Queue()
    left = _submit_waiting_task(wait_lst=[{"fn": len, "args": args3, "kwargs": kwargs3, "future": Future(), "future_lst": fl,
                                           "resource_dict": {}}], executor_queue=q)
    fw = q.get_nowait() if not q.empty() else None
    ready = (type(a3).__name__, [show_targ(from_py(x, futs2)) for x in a3], type(k3).__name__,
             [(k, show_targ(from_py(v, futs2))) for k, v in k3.items()])
    waited = None if fw is None else (type(fw["args"]).__name__, [show_targ(from_py(x, futs3)) for x in fw["args"]],
                                      type(fw["kwargs"]).__name__, [(k, show_targ(from_py(v, futs3))) for k, v in fw["kwargs"].items()])
    if left or waited != ready:
        return "WAIT-PATH-DIFFERS ready=%r waited=%r left=%d" % (ready, waited, len(left))
    return "%s|%s|%s|%s" % (",".join(str(j) for j in found_ids), "T" if flag else "F",
                            ";".join(show_targ(from_py(x, futs2)) for x in a3),
                            ";".join("%s=%s" % (k, show_targ(from_py(v, futs2))) for k, v in k3.items()))


def coq_case(case):
    return "tcase [%s] [%s] [%s] [%s]" % (
        "; ".join(coq_targ(a) for a in case["args"]),
        "; ".join("(%d%%nat, %s)" % (k, coq_targ(a)) for k, a in case["kwargs"]),
        "; ".join(coq_targ(a) for a in case["results"]),
        "; ".join("true" if d else "false" for d in case["done"]))


def tie(res, n):
    rng = res.rng
    cases = [gen_case(rng) for _ in range(n)]
    got = [impl(c) for c in cases]
    want = [w.replace(" ", "") for w in core.eval_strings(["Model.TraverseShow"], [coq_case(c) for c in cases], "TraverseCases")]
    bad = [(c, g, w) for c, g, w in zip(cases, got, want) if g != w]
    res.cov["traversal_cases"] = {"n": n, "with_nested_lists": sum(1 for c in cases if "L" in repr(c["args"])),
                                  "with_hidden_futures": sum(1 for c in cases if "'O'" in repr(c)),
                                  "agree": n - len(bad)}
    return bad
