"""C16 — launch command lines.  Proof over regenerated builders + translator differential test
+ implementation oracle (independent Python port of the srun/mpiexec option grammar)."""
import importlib
import json
import string
import sys
import types
from unittest import mock

import core
from core import Multi, pyval, show, show_outcome

PID = "C16"
GEN = ["Spawner", "Communication", "Backend", "SharedPath", "CacheCmd"]
CONE = ["Base/Dec.v", "Base/PyLib.v", "Base/Tac.v", "Model/Grammar.v", "Proofs/C16Proofs.v"]
IMPORTS = ["Base.Dec", "Base.PyLib", "Base.Show", "Model.Grammar",
           "Gen.Spawner", "Gen.Communication", "Gen.Backend", "Gen.SharedPath", "Gen.CacheCmd"]

ALPH = string.ascii_letters + string.digits + " -_/=.:,\"'\\$*"


def rstr(rng, lo=0, hi=12):
    return "".join(rng.choice(ALPH) for _ in range(rng.randint(lo, hi)))


def gen_request(rng):
    cores = rng.choice([1, 1, 2, 3, 4, 8, 16, 100, 128, 4096, rng.randint(1, 10 ** 6)])
    cwd = rng.choice([None, None, "/tmp", "/scratch/my run", "-x", "", rstr(rng, 1, 20)])
    tpc = rng.choice([0, 1, 1, 2, 2, 3, 4, 8, 64, rng.randint(-2, 300)])
    gpc = rng.choice([0, 0, 1, 2, 4, rng.randint(-1, 20)])
    over = rng.choice([False, True])
    extra = rng.choice([[], [], ["--mem=1G"], ["-p", "debug"], ["--exclusive", "-t", "10"],
                        ["--nodes", str(cores)], ["--ntasks-per-node", str(cores), "-N", "1"], ["-w", str(cwd)],
                        ["-D", "/elsewhere"], ["srun", "-n"], ["--oversubscribe"],
                        [rstr(rng, 1, 8) for _ in range(rng.randint(1, 4))]])
    return dict(cores=cores, cwd=cwd, tpc=tpc, gpc=gpc, over=over, extra=extra)


# ------------------------------------------------------------------ oracle: Python port of Model/Grammar.v
def parse_count(s):
    if s == "" or any(c not in "0123456789" for c in s):
        return None
    return int(s)


def decode_srun(argv):
    if not argv or argv[0] != "srun":
        return None
    r = dict(cores=1, cwd=None, tpc=1, gpc=0, over=False)
    l = argv[1:]
    while True:
        if not l:
            return None
        tok = l[0]
        if not tok.startswith("-"):
            return r, l
        if tok in ("--oversubscribe", "-s"):
            r["over"] = True
            l = l[1:]
            continue
        done = False
        for pre, key in (("--cpus-per-task=", "tpc"), ("--gpus-per-task=", "gpc"), ("--ntasks=", "cores")):
            if tok.startswith(pre):
                n = parse_count(tok[len(pre):])
                if n is None:
                    return None
                r[key] = n
                l = l[1:]
                done = True
                break
        if done:
            continue
        if tok.startswith("--chdir="):
            r["cwd"] = tok[len("--chdir="):]
            l = l[1:]
            continue
        if len(l) < 2:
            return None
        v = l[1]
        if tok == "-n":
            n = parse_count(v)
            if n is None:
                return None
            r["cores"] = n
        elif tok == "-D":
            r["cwd"] = v
        elif tok == "-c":
            n = parse_count(v)
            if n is None:
                return None
            r["tpc"] = n
        else:
            return None
        l = l[2:]


def decode_mpiexec(argv):
    if not argv:
        return None
    if argv[0] == "mpiexec":
        if len(argv) < 3 or argv[1] != "-n":
            return None
        n = parse_count(argv[2])
        if n is None:
            return None
        t = argv[3:]
        if not t:
            return None
        if t[0] == "--oversubscribe":
            return n, True, t[1:]
        if t[0].startswith("-"):
            return None
        return n, False, t
    if argv[0].startswith("-"):
        return None
    return 1, False, argv


def norm_req(q):
    return dict(cores=q["cores"], cwd=q["cwd"], tpc=q["tpc"] if q["tpc"] > 1 else 1,
                gpc=q["gpc"] if q["gpc"] > 0 else 0, over=q["over"])


WORKER = ["/usr/bin/python3", "/x/backend/interactive_serial.py", "--zmqport", "5555"]


def oracle_srun(q, argv):
    """argv = what Popen receives for request q and worker command WORKER"""
    if not isinstance(argv, list) or not all(isinstance(a, str) for a in argv):
        return "argv is not a list of strings: %r" % (argv,)
    n = len(q["extra"]) + len(WORKER)
    if argv[len(argv) - n:] != q["extra"] + WORKER:
        return "extra arguments / worker command not at the end, in order, unmodified: %r" % (argv,)
    prefix = argv[:len(argv) - n]
    d = decode_srun(prefix + WORKER)
    if d is None:
        return "srun would reject the options %r" % (prefix,)
    if d != (norm_req(q), WORKER):
        return "options %r request %r, expected %r" % (prefix, d[0], norm_req(q))
    return None


def oracle_mpi(q, argv):
    if not isinstance(argv, list) or not all(isinstance(a, str) for a in argv):
        return "argv is not a list of strings: %r" % (argv,)
    d = decode_mpiexec(argv)
    exp = (q["cores"], q["over"] if q["cores"] != 1 else False, WORKER)
    if d is None:
        return "mpiexec would reject %r" % (argv,)
    if d != exp:
        return "command %r requests %r, expected %r" % (argv, d, exp)
    return None


# ------------------------------------------------------------------ drivers of the real code
def mods():
    sp = importlib.import_module("executorlib.standalone.interactive.spawner")
    co = importlib.import_module("executorlib.standalone.interactive.communication")
    be = importlib.import_module("executorlib.standalone.interactive.backend")
    sh = importlib.import_module("executorlib.interactive.shared")
    return sp, co, be, sh


class _Rec(Exception):
    pass


def popen_of(spawner_cls, kwargs, cmd):
    sp = mods()[0]
    seen = {}

    def fake_popen(args=None, cwd=None, **kw):
        seen["args"], seen["cwd"] = args, cwd
        return types.SimpleNamespace(poll=lambda: 0)

    with mock.patch.object(sp.subprocess, "Popen", fake_popen):
        s = spawner_cls(**kwargs)
        s.bootup(command_lst=list(cmd))
    return Multi(seen["args"], seen["cwd"])


def bootup_of(platform, host, port, cmd, hl, copy=True):
    co = mods()[1]
    seen = {}

    class FakeIf:
        def __init__(self, spawner=None):
            pass

        def bind_to_random_port(self):
            return port

        def bootup(self, command_lst):
            seen["cmd"] = list(command_lst)

    fake_sys = types.SimpleNamespace(platform=platform)
    with mock.patch.object(co, "SocketInterface", FakeIf), mock.patch.object(co, "gethostname", lambda: host), \
            mock.patch.object(co, "sys", fake_sys):
        co.interface_bootup(command_lst=list(cmd) if copy else cmd, connections=None, hostname_localhost=hl)
    return seen["cmd"]


def backend_path_of(mod, fname, has, *args):
    with mock.patch.object(mod.importlib.util, "find_spec", lambda name: (object() if has else None)):
        return getattr(mod, fname)(*args)


def q_args(q):
    return "(VInt (%d)) %s (VInt (%d)) (VInt (%d)) %s %s" % (
        q["cores"], pyval(q["cwd"]), q["tpc"], q["gpc"], pyval(q["over"]), pyval(q["extra"]))


def build_all(res):
    rng = res.rng
    n = 300 if res.tier == "quick" else 3000
    sp, co, be, sh = mods()
    cs = importlib.import_module("executorlib.cache.shared")
    # ---------------- cases: (function, input, coq expression, python outcome, oracle verdict)
    cases = []
    reqs = [gen_request(rng) for _ in range(n)]
    reqs += [dict(cores=c, cwd=w, tpc=t, gpc=g, over=o, extra=e)
             for c in (1, 2) for w in (None, "/w d") for t in (1, 2) for g in (0, 1) for o in (False, True)
             for e in ([], ["-p", "x"])]
    for q in reqs:
        py = show_outcome(lambda: sp.generate_slurm_command(
            cores=q["cores"], cwd=q["cwd"], threads_per_core=q["tpc"], gpus_per_core=q["gpc"],
            openmpi_oversubscribe=q["over"], slurm_cmd_args=list(q["extra"])))
        cases.append(("generate_slurm_command", q, "show_res (generate_slurm_command %s)" % q_args(q), py, None))
        # through the spawner object, as Popen sees it
        kw = dict(cwd=q["cwd"], cores=q["cores"], threads_per_core=q["tpc"], gpus_per_core=q["gpc"],
                  openmpi_oversubscribe=q["over"], slurm_cmd_args=list(q["extra"]))
        verdict = None
        try:
            m = popen_of(sp.SrunSpawner, kw, WORKER)
            verdict = oracle_srun(q, m.vals[0])
            if verdict is None and m.vals[1] != q["cwd"]:
                verdict = "Popen cwd %r differs from requested %r" % (m.vals[1], q["cwd"])
            py2 = "Ok " + show(m.vals[0]) + " | " + show(m.vals[1])
        except Exception as ex:  # noqa
            py2 = "Err " + type(ex).__name__
            verdict = "spawner raised %r" % (ex,)
        coq = ("show_res2 ('(_, self) <- SrunSpawner___init__ (VDict []) %s (VInt (%d)) (VInt (%d)) (VInt (%d)) %s %s ;; "
               "SrunSpawner_bootup self %s)") % (pyval(q["cwd"]), q["cores"], q["tpc"], q["gpc"], pyval(q["over"]),
                                                 pyval(q["extra"]), pyval(WORKER))
        cases.append(("SrunSpawner.bootup", q, coq, py2, verdict))
        # mpiexec
        py3 = show_outcome(lambda: sp.generate_mpiexec_command(cores=q["cores"], openmpi_oversubscribe=q["over"]))
        cases.append(("generate_mpiexec_command", q, "show_res (generate_mpiexec_command (VInt (%d)) %s)" % (
            q["cores"], pyval(q["over"])), py3, None))
        verdict = None
        try:
            m = popen_of(sp.MpiExecSpawner, dict(cwd=q["cwd"], cores=q["cores"], openmpi_oversubscribe=q["over"],
                                                 threads_per_core=q["tpc"]), WORKER)
            verdict = oracle_mpi(q, m.vals[0])
            if verdict is None and m.vals[1] != q["cwd"]:
                verdict = "Popen cwd %r differs from requested %r" % (m.vals[1], q["cwd"])
            py4 = "Ok " + show(m.vals[0]) + " | " + show(m.vals[1])
        except Exception as ex:  # noqa
            py4 = "Err " + type(ex).__name__
            verdict = "spawner raised %r" % (ex,)
        coq = ("show_res2 ('(_, self) <- SubprocessSpawner___init__ (VDict []) %s (VInt (%d)) %s (VInt (%d)) ;; "
               "MpiExecSpawner_bootup self %s)") % (pyval(q["cwd"]), q["cores"], pyval(q["over"]), q["tpc"], pyval(WORKER))
        cases.append(("MpiExecSpawner.bootup", q, coq, py4, verdict))
    # worker command and parser
    for _ in range(n):
        host = rng.choice(["localhost", "node-17.cluster", "--host", "10.0.0.3", rstr(rng, 1, 15)])
        port = rng.choice([0, 1, 5555, 49152, 65535, rng.randint(1, 70000)])
        hl = rng.choice([None, True, False])
        platform = rng.choice(["linux", "darwin", "win32"])
        script = rng.choice(["/x/backend/interactive_serial.py", "/a b/interactive_parallel.py", rstr(rng, 1, 10)])
        exe = rng.choice(["/usr/bin/python3", "/opt/my env/bin/python"])
        inp = dict(host=host, port=port, hostname_localhost=hl, platform=platform, script=script, exe=exe)
        verdict = None
        try:
            cmd = bootup_of(platform, host, port, [exe, script], hl)
            py = "Ok " + show(cmd)
            parsed = be.parse_arguments(argument_lst=cmd[1:])
            local = hl if hl is not None else (platform == "darwin")
            exp = {"host": "localhost" if local else host, "zmqport": str(port)}
            if script not in ("--host", "--zmqport") and host != "--zmqport":
                if cmd[:2] != [exe, script]:
                    verdict = "worker command does not start with interpreter and script: %r" % (cmd,)
                elif parsed != exp or int(parsed["zmqport"]) != port:
                    verdict = "parser returned %r for %r, expected %r" % (parsed, cmd, exp)
        except Exception as ex:  # noqa
            py = "Err " + type(ex).__name__
            verdict = "raised %r" % (ex,)
            cmd = None
        coq = "show_res (interface_bootup %s %s (VInt (%d)) %s VNone %s)" % (
            pyval(platform), pyval(host), port, pyval([exe, script]), pyval(hl))
        cases.append(("interface_bootup", inp, coq, py, verdict))
        if cmd is not None:
            py = show_outcome(lambda: be.parse_arguments(argument_lst=cmd[1:]))
            cases.append(("parse_arguments", dict(argv=cmd[1:]), "show_res (parse_arguments %s)" % pyval(cmd[1:]), py, None))
        # adversarial argv for the parser itself (translator test only)
        argv = [rng.choice(["--host", "--zmqport", "x", "5", rstr(rng, 0, 4)]) for _ in range(rng.randint(0, 6))]
        py = show_outcome(lambda: be.parse_arguments(argument_lst=list(argv)))
        cases.append(("parse_arguments", dict(argv=argv), "show_res (parse_arguments %s)" % pyval(argv), py, None))
        # backend script choice
        cores = rng.choice([1, 1, 2, 3, 16])
        has = rng.choice([True, False])
        ev = lambda mod, e: eval(e, mod.__dict__)  # noqa
        opa = [sh.sys.executable, has, ev(sh, "get_command_path(executable='interactive_parallel.py')"),
               ev(sh, "get_command_path(executable='interactive_serial.py')")]
        py = show_outcome(lambda: backend_path_of(sh, "_get_backend_path", has, cores))
        verdict = None
        if cores > 1 and has and py != "Ok " + show([opa[0], opa[2]]):
            verdict = "parallel script not chosen for cores=%d: %s" % (cores, py)
        if cores == 1 and py != "Ok " + show([opa[0], opa[3]]):
            verdict = "serial script not chosen for cores=1: %s" % py
        cases.append(("_get_backend_path", dict(cores=cores, has_mpi4py=has),
                      "show_res (_get_backend_path %s (VInt (%d)))" % (" ".join(pyval(x) for x in opa), cores), py, verdict))
        opa2 = [cs.sys.executable, has, ev(cs, "get_command_path(executable='cache_parallel.py')"),
                ev(cs, "get_command_path(executable='cache_serial.py')")]
        fname = rng.choice(["/c/f_abc.h5in", "/my cache/x.h5in"])
        py = show_outcome(lambda: backend_path_of(cs, "_get_execute_command", has, fname, cores))
        verdict = None
        if cores > 1 and has:
            d = None
            try:
                d = decode_mpiexec(cs._get_execute_command(fname, cores) if False else
                                   backend_path_of(cs, "_get_execute_command", True, fname, cores))
            except Exception as ex:  # noqa
                verdict = "raised %r" % (ex,)
            if verdict is None and d != (cores, False, [opa2[0], opa2[2], fname]):
                verdict = "file-mode command decodes to %r" % (d,)
        cases.append(("_get_execute_command", dict(cores=cores, has_mpi4py=has, file=fname),
                      "show_res (_get_execute_command %s %s (VInt (%d)))" % (" ".join(pyval(x) for x in opa2), pyval(fname), cores), py, verdict))
    # the worker command as execute_parallel_tasks assembles it, several workers in one process:
    # _get_backend_path's list goes to interface_bootup as the same object
    for _ in range(max(10, n // 10)):
        cores = rng.choice([1, 2, 4])
        outs = []
        verdict = None
        for k in range(3):
            port = 5000 + k
            try:
                cmd0 = backend_path_of(sh, "_get_backend_path", True, cores)
                cmd = bootup_of("linux", "node1", port, cmd0, False, copy=False)
                outs.append(cmd)
                exp_script = "interactive_parallel.py" if cores > 1 else "interactive_serial.py"
                if len(cmd) != 6 or not cmd[1].endswith(exp_script) or cmd[2:] != ["--host", "node1", "--zmqport", str(port)]:
                    verdict = "worker %d of the same process gets command %r" % (k + 1, cmd)
                    break
                if be.parse_arguments(argument_lst=cmd[1:]) != {"host": "node1", "zmqport": str(port)}:
                    verdict = "worker %d: parser recovers %r from %r" % (k + 1, be.parse_arguments(argument_lst=cmd[1:]), cmd)
                    break
            except Exception as ex:  # noqa
                verdict = "raised %r" % (ex,)
                break
        cases.append(("worker command x3 (same process)", dict(cores=cores), None, "Ok " + show(outs), verdict))
    # validate the Python oracle against the Coq specification (decoders agree on generated argv)
    spec_cases = []
    for q in reqs[:n]:
        try:
            argv = sp.generate_slurm_command(q["cores"], q["cwd"], q["tpc"], q["gpc"], q["over"], []) + WORKER
        except Exception:  # noqa
            continue
        if rng.random() < 0.3 and len(argv) > 3:
            i = rng.randrange(1, len(argv))
            argv = argv[:i] + [rng.choice(["-n", "-c", "--bogus", "-D", "--ntasks=3", "--cpus-per-task=x", "-s"])] + argv[i:]
        d = decode_srun(argv)
        py = "None" if d is None else "%d|%s|%d|%d|%s|%s" % (
            d[0]["cores"], show(d[0]["cwd"]), d[0]["tpc"], d[0]["gpc"], show(d[0]["over"]), show(d[1]))
        coq = ("match decode_srun %s with None => \"None\" | Some (r, rest) => "
               "dec (r_cores r) ++ \"|\" ++ show (opt_str (r_cwd r)) ++ \"|\" ++ dec (r_tpc r) ++ \"|\" ++ dec (r_gpc r) ++ \"|\" ++ "
               "show (VBool (r_over r)) ++ \"|\" ++ show (strs rest) end") % ("[" + "; ".join(core.coq_str(a) for a in argv) + "]")
        spec_cases.append((argv, coq, py))
    return cases, [("decode_srun", c[0], c[1], c[2]) for c in spec_cases]


def run(res):
    box = {}

    def build_cases(res):
        box["cases"], box["specs"] = build_all(res)
        return box["cases"]

    core.standard_run(res, PID, CONE, GEN, IMPORTS, build_cases, RULE, ASSUME, extra_specs=lambda res: box["specs"])


def os_path_exists(rel):
    import os
    return os.path.exists(os.path.join(core.COQ, rel))


RULE = ("seeded generation of resource requests / hosts / ports / argv (see props/C16.py) plus a fixed grid; "
        "each case runs the real executorlib function and the regenerated Gallina definition (vm_compute) and "
        "compares canonical renderings; distinct = distinct (function, input) whose Python outcome is not an exception")
ASSUME = ["srun/mpiexec option grammar = Model/Grammar.v (hand-written from the man pages; trusted)",
          "translator/py2v.py + Base/PyLib.v give the Python subset its meaning (differentially tested each run)",
          "float rounding of int(a/b) ignored; strings restricted to printable ASCII in generated cases"]


def decide(res, pr, mismatches, oracle_fail, cases, evaluated):
    core.decide(res, pr, mismatches, oracle_fail, cases, evaluated, RULE, ASSUME)


def replay(path):
    r = json.load(open(path))["replay"]
    print(json.dumps(r, indent=1)[:3000])
    if r.get("kind") != "oracle":
        return 0
    c = r["case"]
    sp = mods()[0]
    q = c["input"]
    if c["function"] == "SrunSpawner.bootup":
        m = popen_of(sp.SrunSpawner, dict(cwd=q["cwd"], cores=q["cores"], threads_per_core=q["tpc"], gpus_per_core=q["gpc"],
                                          openmpi_oversubscribe=q["over"], slurm_cmd_args=list(q["extra"])), WORKER)
        v = oracle_srun(q, m.vals[0])
        print("argv:", m.vals[0], "\nverdict:", v)
        return 1 if v else 0
    return 0
